#!/bin/bash
# tools/reseed.sh <seed-id> ... : re-run archived seeds (seeded/<id>/) with
# tools/seedtest.py against the current /verif and /repo; one summary line each.
for id in "$@"; do
  d=/var/tmp/reseed/$id; rm -rf $d; mkdir -p $d
  cp /verif/seeded/$id/patch.diff /verif/seeded/$id/meta.json $d/
  cp /verif/seeded/$id/demo_test.go.txt $d/demo_test.go 2>/dev/null
  python3 /verif/tools/seedtest.py $d > $d/out.json 2>&1
  python3 - $id $d/out.json <<'PY'
import json,sys
id,p=sys.argv[1],sys.argv[2]
txt=open(p).read()
try:
    r=json.loads(txt[txt.index('{'):])
    c=r.get("checks",{})
    print(id, "applies=%s suite=%s demo_fails=%s"%(r.get("patch_applies"),r.get("changed_suite_passes"),r.get("changed_demo_fails")), {k:(v["rc"], (v["violations"] or [""])[0][:90]) for k,v in c.items()})
except Exception as e:
    print(id,"ERR",e,txt[-300:])
PY
  rm -rf $d
done
