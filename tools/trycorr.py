#!/usr/bin/env python3
"""tools/trycorr.py <family> <seed> <n> [args]: run a history family and print model/impl differences."""
import sys, os, json
sys.path.insert(0, os.path.dirname(os.path.dirname(os.path.abspath(__file__))))
import vlib
from checks import hist_common as hc
fam, seed, n = sys.argv[1], int(sys.argv[2]), int(sys.argv[3])
args = sys.argv[4] if len(sys.argv) > 4 else ""
binary, log = vlib.build_harness()
if not binary: print(log); sys.exit(1)
p = os.path.join(vlib.BUILD, "try-%s.jsonl" % fam)
rc, out = vlib.run_harness(binary, fam, p, seed=seed, n=n, args=args)
print("harness rc", rc, out[-500:] if rc else "")
recs = vlib.read_jsonl(p)
errs = [r for r in recs if r.get("error")]
print(len(recs), "histories,", sum(len(r.get("obs") or []) for r in recs), "steps,", len(errs), "child errors,", sum(1 for r in recs if r.get("halt")), "halted")
for r in errs[:3]: print("ERROR", r["history"]["id"], r["error"][:1500])
for r in recs:
    if r.get("halt"): print("HALT", r["history"]["id"], r["halt"][:200])
d = hc.model_diffs(recs)
print(len(d), "histories differ")
for i, step, f in d[:40]:
    r = recs[i]
    st = r['history']['steps'][step] if step < len(r['history']['steps']) else {}
    print(i, step, [hc.FIELD_NAMES[x] for x in f], st.get('kind'), json.dumps(st.get('script')), json.dumps(r['history']['cfg']))
