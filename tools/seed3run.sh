#!/bin/bash
# tools/seed3run.sh <P> ... : seedtest on /var/tmp/seed3/<P>/seedout/{1,2}, JSON to /var/tmp/seed3/out/<P>-<n>.json
mkdir -p /var/tmp/seed3/out
for p in "$@"; do for n in 1 2; do d=/var/tmp/seed3/$p/seedout/$n; [ -d $d ] || continue; python3 /verif/tools/seedtest.py $d > /var/tmp/seed3/out/$p-$n.json 2>&1; echo "$p-$n done"; done; done
