#!/bin/bash
# tools/isocheck.sh [--tier T] <P> ... : run checks from an isolated copy of /verif that leaves out untracked files
# (work in progress of other agents), against /repo (or $VERIF_REPO). Logs under /var/tmp/iso/logs.
tier=quick; if [ "$1" = "--tier" ]; then tier=$2; shift 2; fi
iso=/var/tmp/iso; mkdir -p $iso/logs
git -C /verif ls-files --others --exclude-standard | sed 's|^|/|' > $iso/exclude.txt
rsync -a --delete --exclude .git --exclude replays --exclude-from=$iso/exclude.txt /verif/ $iso/verif/
mkdir -p $iso/verif/replays
for p in "$@"; do (cd $iso/verif && ./check $p --tier $tier > $iso/logs/$p.log 2>&1; echo "$p rc=$? $(grep -c '^VIOLATION' $iso/logs/$p.log) violations, $(grep -c '^KNOWN-FINDING' $iso/logs/$p.log) known"); done
