#!/usr/bin/env python3
"""Regenerates MANIFEST.json from the table below (kept here so that the
manifest is always consistent with what is built)."""
import json, os, subprocess
ROOT = os.path.dirname(os.path.dirname(os.path.abspath(__file__)))
props = [json.loads(l) for l in open(os.path.join(ROOT, "properties.jsonl"))]

COMMON_NOTE = ("Trusted: Coq 8.16.1 kernel + vm_compute; the hand-written Gallina model (tied to the Go code by differential "
               "execution on generated cases, which is testing); /verif/translator (Go AST -> coq/Gen/*.v); the Go harness under go1.26.8. ")

CLAIMED = {
 "C20": dict(
    text="Coq theorems (all inputs, all word lists, all case-folding functions): the verdict is the first applicable rule of the six, OK iff none; list members are rejected; adding names never un-rejects. Tied to the code by (a) constants regenerated from passwords.go on every run (length bound, sequence list, return order) over which the theorems are re-checked, (b) model-vs-ReasonablePassword comparison on generated passwords (thorough: every entry of both embedded lists), (c) equality of the in-memory lists with an independent decoding of the source constants.",
    note=COMMON_NOTE + "unicode.ToLower is modelled exactly on U+0000-U+00FF and as identity on caseless planes (generator confined to that range, measured); strings/gzip/base64 library behaviour assumed. No axioms (Print Assumptions: closed).",
    technique="Coq proof over an executable cascade model + regenerated constants + differential correspondence",
    design="5/C20"),
 "C12": dict(
    text="45 Coq theorems over the cache operations of the session model (all states satisfying the stated invariants, all tie-break lists, all configurations, fault-free): after every cache write |cache| <= N for N>0 (unconditional for an uncached ID and a loading Get; for a cached ID under the tie side condition, otherwise N+1 with a proved witness), N=0 keeps none, N<0 never evicts for size, victims are least recently used, the sweep drops exactly the idle entries, every entry leaving through compact/PurgeSessions has its full record incl. lastAccess in the store (codec-read logical contents invariant); lifted to arbitrary operation sequences. Tied to cache.go/session.go by differential execution of Model/Sess.v against the real package under a virtual clock on generated histories (fault-free, faulted, crashed), comparing persistence calls and cache contents after every step, plus an LRU/size/flush oracle on the real traces.",
    note=COMMON_NOTE + "Go map iteration order enters the model as a tie-break list taken from the observed run; sync.Mutex/RWMutex, net/http, encoding/gob|json, time assumed. Print Assumptions: closed.",
    technique="Coq invariants over an executable cache model + differential correspondence under synctest + trace oracle",
    design="5/C12"),
 "C09": dict(
    text="Coq: the write-through invariant WT (cached object and stored record agree on created/reference/user-ID/data after the codec) is preserved by every step of every fault-free, crash-free history without GetAndDelete, for all configurations and tie-break orders (C09_wt); every acknowledged Start/Set/Delete/LogIn/LogOut/RegenerateID/LogOut(user)/RefreshUser re-establishes it with the change in the stored record (C09_ack_*); cache loss preserves those fields of every ID (C09_loss). GetAndDelete is refuted in the model (C09_getdel_refuted, defect D6, recorded as known finding). Tie: model vs real package on generated histories comparing memory, store and persistence calls after every step; oracle compares memory with store after every step of the real traces.",
    note=COMMON_NOTE + "Known finding D6 (GetAndDelete never saves) is reported as KNOWN-FINDING, not repaired (no error result to report a failed save through). Print Assumptions: closed.",
    technique="Coq invariant by induction over histories + differential correspondence + trace oracle",
    design="5/C09"),
}

def main():
    hooks_commits = subprocess.run(["git", "-C", "/repo", "log", "--format=%H %s"], capture_output=True, text=True).stdout.strip().split("\n")
    hook_shas = [l.split()[0] for l in hooks_commits if "verif" in l.lower() and not l.split(" ", 1)[1].startswith("fix:")]
    checks, na = [], []
    for p in props:
        pid = p["id"]
        if pid in CLAIMED:
            c = CLAIMED[pid]
            checks.append({
                "property_id": pid,
                "quick_cmd": "./check %s --tier quick" % pid,
                "thorough_cmd": "./check %s --tier thorough" % pid,
                "evidence_file": "/verif/evidence/%s.json" % pid,
                "replay_cmd_template": "./check %s --replay {path}" % pid,
                "engine": "coq-model-correspondence",
                "level_claimed": {"category": c.get("category", "proof"), "text": c["text"], "design_ref": "DESIGN.md §" + c["design"]},
                "level_note": c["note"],
                "technique": c["technique"],
            })
        else:
            na.append({"property_id": pid, "reason": "check not yet built (build phase in progress); planned per DESIGN.md section 5"})
    m = {
        "version": 1,
        "setup_cmd": "./check --setup",
        "hooks": {"guard": "verif",
                  "enable": "go1.26.8 test -tags verif in /verif/harness (module verif/harness, replace github.com/rivo/sessions => /repo)",
                  "baseline_off_cmd": "cd /repo && go test -vet=off -count=1 ./...",
                  "source_commits": hook_shas, "add_only": True},
        "engines": [{"name": "coq-model-correspondence", "path": "/verif/check",
                     "serves_properties": sorted(CLAIMED),
                     "kind_free_text": "Coq 8.16 theorems over an executable Gallina model; Go AST translator for Gen tables; Go harness + vm_compute for model/implementation correspondence"}],
        "checks": checks,
        "not_applicable": na,
        "notes": "See DESIGN.md. known_findings.json lists recorded findings and fixed defects.",
    }
    json.dump(m, open(os.path.join(ROOT, "MANIFEST.json"), "w"), indent=1)
    import jsonschema
    jsonschema.validate(m, json.load(open("/root/.vp/MANIFEST.schema.json")))
    print("MANIFEST ok:", len(checks), "claimed,", len(na), "not applicable")

if __name__ == "__main__":
    main()
