#!/usr/bin/env python3
"""Regenerates MANIFEST.json from the table below (kept here so that the
manifest is always consistent with what is built)."""
import json, os, subprocess
ROOT = os.path.dirname(os.path.dirname(os.path.abspath(__file__)))
props = [json.loads(l) for l in open(os.path.join(ROOT, "properties.jsonl"))]

COMMON_NOTE = ("Trusted: Coq 8.16.1 kernel + vm_compute; the hand-written Gallina model (tied to the Go code by differential "
               "execution on generated cases, which is testing); /verif/translator (Go AST -> coq/Gen/*.v); the Go harness under go1.26.8. ")

CLAIMED = {
 "C20": dict(
    text="Coq theorems (all inputs, all word lists, all case-folding functions): the verdict is the first applicable rule of the six, OK iff none; list members are rejected; adding names never un-rejects. Tied to the code by (a) constants regenerated from passwords.go on every run (length bound, sequence list, return order) over which the theorems are re-checked, (b) model-vs-ReasonablePassword comparison on generated passwords (thorough: every entry of both embedded lists), (c) equality of the in-memory lists with an independent decoding of the source constants.",
    note=COMMON_NOTE + "unicode.ToLower is modelled exactly on U+0000-U+00FF and as identity on caseless planes (generator confined to that range, measured); strings/gzip/base64 library behaviour assumed. No axioms (Print Assumptions: closed).",
    technique="Coq proof over an executable cascade model + regenerated constants + differential correspondence",
    design="5/C20"),
 "C12": dict(
    text="45 Coq theorems over the cache operations of the session model (all states satisfying the stated invariants, all tie-break lists, all configurations, fault-free): after every cache write |cache| <= N for N>0 (unconditional for an uncached ID and a loading Get; for a cached ID under the tie side condition, otherwise N+1 with a proved witness), N=0 keeps none, N<0 never evicts for size, victims are least recently used, the sweep drops exactly the idle entries, every entry leaving through compact/PurgeSessions has its full record incl. lastAccess in the store (codec-read logical contents invariant); lifted to arbitrary operation sequences. Tied to cache.go/session.go by differential execution of Model/Sess.v against the real package under a virtual clock on generated histories (fault-free, faulted, crashed), comparing persistence calls and cache contents after every step, plus an LRU/size/flush oracle on the real traces.",
    note=COMMON_NOTE + "Go map iteration order enters the model as a tie-break list taken from the observed run; sync.Mutex/RWMutex, net/http, encoding/gob|json, time assumed. Print Assumptions: closed.",
    technique="Coq invariants over an executable cache model + differential correspondence under synctest + trace oracle",
    design="5/C12"),
 "C09": dict(
    text="Coq: the write-through invariant WT (cached object and stored record agree on created/reference/user-ID/data after the codec) is preserved by every step of every fault-free, crash-free history without GetAndDelete, for all configurations and tie-break orders (C09_wt); every acknowledged Start/Set/Delete/LogIn/LogOut/RegenerateID/LogOut(user)/RefreshUser re-establishes it with the change in the stored record (C09_ack_*); cache loss preserves those fields of every ID (C09_loss). GetAndDelete is refuted in the model (C09_getdel_refuted, defect D6, recorded as known finding). Tie: model vs real package on generated histories comparing memory, store and persistence calls after every step; oracle compares memory with store after every step of the real traces.",
    note=COMMON_NOTE + "Known finding D6 (GetAndDelete never saves) is reported as KNOWN-FINDING, not repaired (no error result to report a failed save through). Print Assumptions: closed.",
    technique="Coq invariant by induction over histories + differential correspondence + trace oracle",
    design="5/C09"),
 "C10": dict(
    text="Coq (per call, ALL fault plans, all cache sizes/tie-breaks): at every persistence-call boundary of RegenerateID, LogIn (both modes) and Start's automatic rotation the frozen store has no dangling reference (C10_nodangling_*, plus a relative form needing no assumption on prior state); the presented ID resolves within one hop to the pre-call data and user and, once the call returned, so does the new ID (C10_resolves_*). The freeze is exactly Hist.step's crash semantics. Tie: 'crashenum' family - every persistence-call boundary of every ID-changing step of generated histories is executed on the real package (freeze-and-discard at call k, fresh process afterwards), followed by requests with old ID, new IDs and the client's jar; model compared on store/result; oracle checks dangling references and reachability on the real traces.",
    note=COMMON_NOTE + "C10_restart (Start on the restarted state returns the content) is covered by the correspondence and oracle only, not by a theorem. Known finding D6 may show as a value returning after a crash (reported as KNOWN-FINDING).",
    technique="Coq proof over event-log prefixes + crash-point enumeration on the real code",
    design="5/C10"),
 "C11": dict(
    text="Coq, for ALL fault plans: a failed load makes Start return an error with no cookie, no delete, no draw, logical content unchanged (C11_load*); a failed flush ends compaction with the entry still cached (C11_flush); every Ok-returning mutator (Set, Delete, LogOut, RegenerateID, LogIn, creation, Start) has written through (C11_ack_*), including LogIn despite its ignored logout error; no history ever panics (C11_nopanic_history, by an invariant preserved by every step). Tie: 'faultenum' family - every single-fault placement (and sampled/all double placements) over the persistence calls of every step of generated histories, injected at the same call index in the real package and in the model; full observation compared; oracle for acknowledged-but-unsaved, load-as-miss, panics.",
    note=COMMON_NOTE + "PurgeSessions and the delayed clean-up have no error channel and are outside the statement (by the property's own wording).",
    technique="Coq proof over all fault plans + exhaustive single/double fault placement on the real code",
    design="5/C11"),
 "C13": dict(
    text="Proved for the protocol model (labelled transition system of mutexes.go for any number of goroutines and keys, one transition per channel/critical-section action): inductive invariant, mutual exclusion per key in every reachable state of every admissible run (C13, C13_count, C13_invariant); refutation without the hold-shorter-than-staleness proviso. Partial for the real scheduler. Tie: Gen/MutexTbl.v (17 normalised source facts of mutexes.go pinned by C13_source_pinned, regenerated every run) and differential replay of quiescent observations of the REAL lock manager inside synctest bubbles (G<=12 goroutines, K<=4 keys, table limits 1/2/3, staleness, explicit purges, bursts) through the model.",
    note=COMMON_NOTE + "Assumed: granularity argument (each transition contains exactly one synchronising action), Go scheduler fairness, channel/mutex semantics; provisos explicit in adm_run.",
    technique="Coq inductive invariant over an LTS + AST table + synctest differential replay",
    design="5/C13"),
 "C14": dict(
    text="Proved for the protocol model: no deadlock in any reachable admissible state with unfinished scripts (C14_no_deadlock), a strictly decreasing measure so every maximal run ends with all scripts finished (C14_terminates), at most one grant per release (C14_one_per_release), a spurious Unlock changes nothing but an empty entry (C14_spurious), a Lock on a free key needs no step of other keys' holders (C14_independent, hypothesis corrected to cA k = 0 and cH k = 0). Partial for the real scheduler. Tie as C13; lost wake-ups/deadlocks of the real manager are detected exactly at synctest quiescence.",
    note=COMMON_NOTE + "Assumed: granularity argument, scheduler fairness, finiteness of purge requests; see C13.",
    technique="Coq measure/invariant proofs over an LTS + synctest differential replay",
    design="5/C13"),
 "C19": dict(
    text="26 Coq theorems over bit-level models of ids.go with Go's uint64/uint16 wrap written out: session IDs are an injective image (decoder left inverse) of exactly 16 bytes, 24 cookie-safe base64 characters passing Start's guard and a modelled Set-Cookie/Cookie round trip; RandomID(n): exactly n characters/bytes for every n, all from the 62-symbol alphabet, every symbol reachable; CUID: 11 base-62 characters, injective in the 64-bit word, timestamp arithmetic = ms since 2017 mod 2^40, later millisecond sorts after, all results distinct for every state and call sequence in which a millisecond does not recur after being left with at most 2^24 calls per ms (tightness refuted outside). Tie: constants regenerated from ids.go/session.go each run; model vs real code behind a recording crypto/rand.Reader, under the synctest clock with hook-set CUID state, concurrent callers, real net/http round trips.",
    note=COMMON_NOTE + "crypto/rand assumed uniform (frequency/birthday tests are supporting only); base64 alphabet and cookie rules transcribed and compared with the libraries at run time; CUID atomicity: syntactic lock fact + concurrent and -race runs.",
    technique="Coq proof over executable bit-level models + regenerated constants + differential correspondence",
    design="5/C19"),
 "C16": dict(
    text="Coq theorems over all sessions and all LoadUser functions: decoding the gob encoding restores every field (nil data as empty map, user re-loaded by ID; error iff LoadUser fails), over the field layouts regenerated from GobEncode/GobDecode on every run (Gen/Layout.v), which are also proved equal to the pinned layout (C16_pinned) so that a symmetric reordering that would orphan stored records is still a broken obligation. Tie: the regenerated layout, model-vs-real round trips on generated and package-made sessions (incl. replaced-ID records from a real RegenerateID), a golden corpus of the pinned commit's bytes.",
    note=COMMON_NOTE + "encoding/gob per-value round trip assumed (wire = typed values); time.Time's binary zone-offset form modelled and compared on every run; data restricted to nil/bool/int/float64/string/[]interface{}/map[string]interface{}; quick tier evaluates a subset of the cases in Coq, all by a Go statement cross-checked with the Coq one. No axioms.",
    technique="Coq proof over table-driven codec interpreters + Go-AST-regenerated layout + differential correspondence + golden corpus",
    design="5/C16"),
 "C17": dict(
    text="Coq theorems: JSON round trip = jnorm for all sessions in RFC 3339's domain incl. nil data (premise json_da_null_ok read from the regenerated table and discharged on every run; its negation yields the D3 witness C17_roundtrip_refuted), base-36 round trip proved for all 64-bit values, UnmarshalJSON never panics on any JSON tree (a Panic arises only at an assertion the table reports as not comma-ok), accepted trees re-encode; tables proved equal to the pinned ones. Tie: Gen/Layout.v, model-vs-real round trips, a mutation stream (10^4 quick / 10^6 thorough), a golden corpus.",
    note=COMMON_NOTE + "encoding/json generic-tree behaviour, time.Format/Parse(RFC3339) to the second and LoadUser are Section parameters with stated hypotheses (json_lib_ok); float64(int), UTF-8 coercion, strconv base 36 are executable in the model and compared with the libraries on every run; byte strings that are not JSON are the library's to refuse (checked on the real code). Defect D3 fixed in /repo (db75d0f). No axioms.",
    technique="Coq proof over table-driven codec interpreters + Go-AST-regenerated tables + differential correspondence + mutation stream",
    design="5/C17"),
 "C15": dict(
    text="(a) data-race freedom: lockset discipline proved sound once in Coq for all well-formed traces (lockset_sound), and the per-source obligation C15_table over Gen/Access.v - every access to a field of Session, the cache, the CUID state and the lock table, with the lock state of its receiver, regenerated from the Go AST on every run - re-checked reflexively; on failure the Go race detector searches for a schedule on targeted workloads and the report naming both source lines is the replay. (b) no panics: model-level C11_nopanic_history plus panics recorded on every concurrent workload. (c) linearizability of Set/Get/Delete/GetAndDelete proved for an interleaving semantics of lock;body;unlock threads (C15_linearizable; GetAndDelete hands a value to at most one caller), tied to the source by the single_section obligation over the same table; recorded concurrent histories of the real code are judged by a linearizability checker written in Gallina. Defect D7 (13 racy accesses, and LogIn unlocking a different key than it locked) fixed in /repo (b0ff0d3).",
    note=COMMON_NOTE + "Assumed: the translator's reading of the syntax (path-sensitive lock-state walk), sync.RWMutex semantics, the Go memory model, that goroutine-confined fields are confined. Proof for the lock discipline and for atomicity in the model; partial for the real scheduler.",
    technique="Coq soundness proof of lockset discipline + AST-regenerated access table + Go race detector as violation search + Gallina linearizability checker",
    design="5/C15"),
}
SESSION_GENERIC = ("Executable Coq model of session.go+cache.go (Model/Sess.v, Model/Hist.v) compared with the real package on the FULL observation (result, returned session, cookies, script results, every persistence call with payload, cache, store, jar, clock, IDs drawn, Expired()) after every step of generated histories run under a virtual clock behind a serialising store (gob and JSON), incl. fault and crash enumeration and a corpus of the repaired defects; a property-specific oracle judges every real trace. Theorems: those of coq/Properties/%s.v (statement file; names and Print Assumptions output are in the evidence).")
for pid, extra, tech in [
    ("C01", "Theorems: C01_isolation_step / C01_isolation_hist_partial (per step: a returned session is one created by this call - next ordinal, empty, no user - or the one the presented ID resolves to) and, at the history level (Properties/C01H.v), C01_safety_hist: for every configuration, cache size, tie-break list, number of cookie-following clients and every hop kind (requests with any scripts without GetAndDelete, waits, PurgeSessions, cache loss, restarts, LogOut(userID), RefreshUser, configuration changes that keep the codec), whenever a request returns a session its data and user ID are exactly what that client's own acknowledged operations last wrote (ghost per-client specification), or it was created in that step; proved through the jar invariant C01_jar_inv_hist (each live client's jar holds a drawn ID that resolves to its ghost content; jars of different clients differ). Liveness at the history level (Properties/C01L.v): C01_liveness_hist - along every history of cookie-following requests with any scripts (no GetAndDelete), non-negative waits, purges, user-wide logouts and refreshes and configuration changes that keep codec and peer/agent rules, without cache loss, for every cache size != 0, every duration and tie-break: whenever a client's request comes less than SessionExpiry (minus the codec's slack) after its last accepted request, from the same peer and agent, it is served (C01_served_spec: and what it is served is exactly the client's own content). The 'any acceptable peer' variant is refuted at cache size 1 (C01_liveness_rules_refuted, C01L_peer_not_moved_size1: the case the property itself leaves open). C01_with_getdel_refuted records D6. PARTIAL only in: codec switches mid-history, forged presentations and cache loss for liveness (covered by correspondence + oracle).", "Coq per-step lemmas + invariants + differential correspondence + trace oracle"),
    ("C02", "C02_unknown / C02_nolookup per call (no existing session, fresh server ID, only one load under the value, logical content of every other ID unchanged; non-24-character values are never looked up) and their history-level forms (Properties/C02H.v): the state hypotheses hold in every state of a fault-free history (C02H_hypotheses_hold), junk values, not-yet-issued IDs and IDs that are gone never resolve in any continuation (C02H_junk_unknown, C02H_undrawn_unknown, C02H_gone_unknown). Assumption: presented values are not future draws (2^-128).", "Coq per-call theorem over all states + correspondence with forged-cookie stream"),
    ("C03", "Per call: C03_dead, C03_expired_pred, C03_live. History level (Properties/C03H.v): C03H_access_monotone (through the codec the access time of every ID never decreases along calm histories - evictions, sweeps, purges, config changes, any clients - for every cache size), C03H_access_now, C03H_live (a client whose gaps are below SessionExpiry minus the codec's slack, from acceptable peers, with cache size >= 1, is served at every request incl. rotating ones and after evict/purge/reload, for all values of the other durations), C03H_dead_hist (a stale ID never resolves again in any continuation incl. crashes and restarts).", "Coq per-call theorems + correspondence with waits at thresholds +-1ns + steady-client histories"),
    ("C04", "C04_seq for regenerate/login/start (due => exactly one draw, cookie, same data/user, old ID becomes reference; not due => nothing), instances for 0 and MaxInt64; history level (Properties/C04H.v): C04H_draws (in every request step the EvDraw ordinals equal the ordinals of its new live cookies, consecutive from the supply: every creation and every ID change draws exactly one ID, a redirect none) and C04H_no_draw; concurrent clause checked on K=2..32 real goroutines (one draw, one session) and resting on C13.", "Coq per-call theorems + correspondence + real concurrent runs"),
    ("C05", "C05_chain (follow reaches the live session, fuel suffices under ref_wf), C05_pending/C05_grace_dead, C05_backstop, C05_expired_ref. History level (Properties/C05H.v): the invariant LI (references point to drawn IDs of strictly larger ordinal; no ID queued twice; cache agrees with store on references) holds in every reachable state incl. restarts (C05H_inv_step, C05H_ref_wf_hist), so a request never returns a placeholder and ERefLoop is unreachable (C05H_never_placeholder_hist); a placeholder stays intact until its clean-up is due along any restart-free history that does not itself invalidate it (C05H_grace_kept), chains grow by one hop per ID change and presenting the oldest ID returns the live session with the cookie redirected to the last ID (C05H_chain_kept, C05H_grace_live), after a wait reaching the due instant the ID is gone for good (C05H_grace_dead, C05H_grace_dead_forever). The clean-up racing with concurrent requests at the end of grace is sampled on real goroutines (family conc05). Known finding D10 (SessionExpiry < grace; C05_short_expiry_refuted) reported as KNOWN-FINDING.", "Coq per-call theorems + correspondence with chains, grace +-1ns, restarts"),
    ("C06", "C06_ip/C06_ua (the pure rules as iff-specifications for all peers/n/agents), C06_destroy, C06_moves per call; history level (Properties/C06H.v): C06H_destroy for every reachable state, C06H_destroy_for_good (the destroyed ID never resolves again), C06H_moves (for every world, fault plan and crash: the returned session carries the request's peer, agent and instant).", "Coq pure-rule specifications + per-call theorems + correspondence over address/agent pairs"),
    ("C07", "Theorems (fault-free histories incl. crashes, cache loss, restarts): C07_destroy; C07_inv_step/C07_inv_hist (cache_ok, nodup_ok, fresh_ok preserved by every step); C07_not_reissued (an ID in use is never drawn again); C07_stays_dead (a drawn ID absent from cache and store is never cached, stored, saved under, returned by Start, held by a handler or sent as a live cookie in any continuation); C07_destroyed_never_returns / C07_invalidated_never_returns (the ending step expires the cookie and leaves the ID dead).", "Coq per-call lemma + history invariants + correspondence with replays of former IDs"),
    ("C08", "Theorems per call over memory and store on every state satisfying the history invariant: C08_login (user attached, fresh ID, stored record under the new ID carries the user, replaced ID carries none; exclusive: every other listed ID carries no user in store nor L), C08_logout, C08_logout_user, C08_refresh, C08_index, C08_tolerant (never Panic/Err; listed-but-missing IDs skipped). Survival across cache loss follows from C09_loss.", "Coq per-call theorems + correspondence over users/sessions/stale listings"),
    ("C18", "every CkLive carries the ID (at the end of the call) of the session returned/operated on and resolves to a non-reference record; no cookie when nothing changed; CkDelete only when the presented ID is gone; the model never emits a malformed cookie. History level (Properties/C18H.v): C18H_no_bad (no malformed cookie in any response of any history, whatever its faults and crashes), C18H_session (for every request step that returns a session: the last live cookie carries the session's final ID, no cookie means the presented ID is that ID, the jar ends at it and it resolves to a non-reference record unless the script destroyed it), C18H_silent, C18H_no_session. Template attributes are tied by the harness comparing every Set-Cookie with the randomised template's own serialisation.", "Coq per-call cookie theorems + correspondence with randomised cookie templates"),
]:
    CLAIMED[pid] = dict(text=(SESSION_GENERIC % pid) + " " + extra, note=COMMON_NOTE + "Python oracles (checks/oracles.py) are used only to turn real traces into violations. net/http, encoding/gob|json, time, regexp assumed as specified in DESIGN.md section 4.", technique=tech, design="5/" + pid)

def main():
    hooks_commits = subprocess.run(["git", "-C", "/repo", "log", "--format=%H %s"], capture_output=True, text=True).stdout.strip().split("\n")
    hook_shas = [l.split()[0] for l in hooks_commits if "verif" in l.lower() and not l.split(" ", 1)[1].startswith("fix:")]
    checks, na = [], []
    for p in props:
        pid = p["id"]
        if pid in CLAIMED:
            c = CLAIMED[pid]
            checks.append({
                "property_id": pid,
                "quick_cmd": "./check %s --tier quick" % pid,
                "thorough_cmd": "./check %s --tier thorough" % pid,
                "evidence_file": "/verif/evidence/%s.json" % pid,
                "replay_cmd_template": "./check %s --replay {path}" % pid,
                "engine": "coq-model-correspondence",
                "level_claimed": {"category": c.get("category", "proof"), "text": c["text"], "design_ref": "DESIGN.md §" + c["design"]},
                "level_note": c["note"],
                "technique": c["technique"],
            })
        else:
            na.append({"property_id": pid, "reason": "check not yet built (build phase in progress); planned per DESIGN.md section 5"})
    m = {
        "version": 1,
        "setup_cmd": "./check --setup",
        "hooks": {"guard": "verif",
                  "enable": "go1.26.8 test -tags verif in /verif/harness (module verif/harness, replace github.com/rivo/sessions => /repo)",
                  "baseline_off_cmd": "cd /repo && go test -vet=off -count=1 ./...",
                  "source_commits": hook_shas, "add_only": True},
        "engines": [{"name": "coq-model-correspondence", "path": "/verif/check",
                     "serves_properties": sorted(CLAIMED),
                     "kind_free_text": "Coq 8.16 theorems over an executable Gallina model; Go AST translator for Gen tables; Go harness + vm_compute for model/implementation correspondence"}],
        "checks": checks,
        "not_applicable": na,
        "notes": "See DESIGN.md. known_findings.json lists recorded findings and fixed defects.",
    }
    json.dump(m, open(os.path.join(ROOT, "MANIFEST.json"), "w"), indent=1)
    import jsonschema
    jsonschema.validate(m, json.load(open("/root/.vp/MANIFEST.schema.json")))
    print("MANIFEST ok:", len(checks), "claimed,", len(na), "not applicable")

if __name__ == "__main__":
    main()
