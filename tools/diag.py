#!/usr/bin/env python3
"""tools/diag.py <jsonl> <record> <step>: print the step, the observed and the model's observation."""
import json, sys, os
sys.path.insert(0, os.path.dirname(os.path.dirname(os.path.abspath(__file__))))
import vlib
from checks import hist_common as hc
recs = vlib.read_jsonl(sys.argv[1])
r = recs[int(sys.argv[2])]
step = int(sys.argv[3])
print("CFG", json.dumps(r["history"]["cfg"]))
for j in range(max(0, step - int(sys.argv[4]) if len(sys.argv) > 4 else step), step + 1):
    print("STEP", j, json.dumps(r["history"]["steps"][j]))
    o = r["obs"][j]
    print("  OBSERVED", json.dumps({k: v for k, v in o.items() if k not in ("cache", "store", "evs")}))
    for e in o.get("evs", []): print("     ev", json.dumps(e))
    for e in o.get("cache", []): print("     cache", json.dumps(e))
    for e in o.get("store", []): print("     store", json.dumps(e))
print("MODEL at step", step)
print(hc.model_obs(r, step))
