#!/usr/bin/env python3
"""tools/tryoracles.py <jsonl> : run all oracles on recorded traces, print findings summary."""
import sys, os, json
from collections import Counter
sys.path.insert(0, os.path.dirname(os.path.dirname(os.path.abspath(__file__))))
import vlib
from checks import oracles
recs = vlib.read_jsonl(sys.argv[1])
only = sys.argv[2:] 
cnt = Counter(); shown = Counter()
bc = Counter()
for ri, r in enumerate(recs):
    if not r.get("obs"): continue
    t = oracles.Trace(r)
    for k, v in oracles.branch_counters(t).items(): bc[k] += v
    for name, f in oracles.ORACLES.items():
        if only and name not in only: continue
        try:
            fs = f(t)
        except Exception as e:
            import traceback; traceback.print_exc(); print("ORACLE CRASH", name, ri); continue
        for x in fs:
            key = (name, x["what"].split(":")[0][:60], x.get("signature"))
            cnt[key] += 1
            if shown[key] < 2:
                shown[key] += 1
                print(name, "rec", ri, "step", x["step"], x.get("signature"), x["what"][:300])
print("---- summary")
for k, v in sorted(cnt.items()): print(v, k)
if not only:
    print("---- branches")
    for k, v in sorted(bc.items()): print("  ", k, v)
