#!/usr/bin/env python3
"""tools/seed4sum.py: one line per /var/tmp/seed4/out/*.json (seedtest results)."""
import glob, json, sys
for f in sorted(glob.glob('/var/tmp/seed4/out/*.json')):
    t = open(f).read()
    name = f.split('/')[-1][:-5]
    try:
        r = json.loads(t[t.index('{'):]); c = r.get('checks', {})
        conf = all(r.get(k) for k in ('clean_with_demo_passes', 'patch_applies', 'changed_suite_passes', 'changed_demo_fails'))
        print(name, 'confirmed' if conf else 'NOT-CONFIRMED %s' % [r.get(k) for k in ('clean_with_demo_passes', 'patch_applies', 'changed_suite_passes', 'changed_demo_fails')],
              {k: (v['rc'], [w[:160] for w in v['violations'][:2]], v.get('tail', '')[-200:]) for k, v in c.items()})
    except Exception as e:
        print(name, 'pending/ERR', str(e)[:60], t[-200:].replace('\n', ' '))
