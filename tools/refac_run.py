#!/usr/bin/env python3
"""tools/refac_run.py <dir with patch.diff, meta.json> [props...]: applies a behaviour-preserving refactoring to a scratch
copy of /repo, confirms suite passes, runs the listed checks from an isolated copy of $SEEDTEST_VERIF (default /verif,
untracked files left out) and prints one JSON line: which checks raise an alarm on it and of what kind."""
import json, os, shutil, subprocess, sys, tempfile
d = os.path.abspath(sys.argv[1]); props = sys.argv[2:]
meta = json.load(open(os.path.join(d, "meta.json")))
env = dict(os.environ, GOFLAGS="-mod=mod", GOPROXY="off", GOSUMDB="off", GOTOOLCHAIN="local")
SRC = os.environ.get("SEEDTEST_VERIF", "/verif")
def sh(cmd, cwd=None, e=None, timeout=3000):
    p = subprocess.run(cmd, cwd=cwd, env=e or env, shell=isinstance(cmd, str), stdout=subprocess.PIPE, stderr=subprocess.STDOUT, text=True, timeout=timeout)
    return p.returncode, p.stdout
work = tempfile.mkdtemp(prefix="refac-", dir="/var/tmp")
res = {"id": meta.get("id"), "size": meta.get("size"), "summary": meta.get("summary", "")[:200], "checks": {}}
try:
    repo = os.path.join(work, "repo")
    sh("rsync -a --exclude .git /repo/ %s/" % repo)
    rc, out = sh("git init -q . && git apply --whitespace=nowarn %s; rm -rf .git" % os.path.join(d, "patch.diff"), cwd=repo)
    res["applies"] = rc == 0
    for _ in range(4):
        rc, out = sh("go build ./... && go test -vet=off -count=1 -skip TestMutexesMultipleLocks .", cwd=repo)
        if rc == 0: break
    res["suite_passes"] = rc == 0
    ver = os.path.join(work, "verif")
    others = subprocess.run("git -C %s ls-files --others --exclude-standard" % SRC, shell=True, stdout=subprocess.PIPE, text=True).stdout
    exf = os.path.join(work, "exclude.txt")
    open(exf, "w").write("".join("/" + l + "\n" for l in others.split("\n") if l))
    sh("rsync -a --exclude .git --exclude 'build/bundles' --exclude 'build/cases' --exclude replays --exclude-from=%s %s/ %s/" % (exf, SRC, ver))
    os.makedirs(os.path.join(ver, "replays"), exist_ok=True)
    for p in props:
        rc, out = sh(["./check", p], cwd=ver, e=dict(env, VERIF_REPO=repo))
        what = []
        for l in out.split("\n"):
            if l.startswith("VIOLATION"):
                path = l.split("replay=")[1].split()[0]
                try:
                    r = json.load(open(path)); what.append(str(r.get("what") or r.get("no_longer_checks") or r.get("detail") or "")[:160] + (" [NFI]" if "no-failing-input-found" in l else " [CONCRETE]"))
                except Exception as ex: what.append(str(ex)[:80])
        res["checks"][p] = {"rc": rc, "violations": what[:2]}
finally:
    shutil.rmtree(work, ignore_errors=True)
print(json.dumps(res), flush=True)
