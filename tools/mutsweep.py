#!/usr/bin/env python3
"""tools/mutsweep.py [--n N] [--seed S] [--files a.go,b.go] [--jobs J] [--out FILE]

Mechanical mutation sweep (DESIGN.md section 11). Generates single-token /
single-statement mutants of the library's non-test sources, keeps those that
still compile AND pass the unchanged test suite (the ones the tests cannot
see), and runs the checks of the properties anchored in the mutated file
against each survivor from an isolated copy of /verif (VERIF_REPO points at
the scratch copy; /repo itself is never touched). Checks are run in a fixed
order and the sweep stops at the first one that reports the mutant; a mutant
that no listed check reports is printed as MISSED and has to be triaged by
hand (it may be equivalent, or break no listed property).

One JSON line per mutant on --out (default build/mutsweep.jsonl), summary on
stdout. Everything under /var/tmp/mutsweep-* is removed as soon as a mutant is
done."""
import argparse, json, os, random, re, shutil, subprocess, sys, tempfile
from concurrent.futures import ThreadPoolExecutor

ROOT = os.path.dirname(os.path.dirname(os.path.abspath(__file__)))
REPO = os.environ.get("MUT_REPO", "/repo")
ENV = dict(os.environ, GOFLAGS="-mod=mod", GOPROXY="off", GOSUMDB="off", GOTOOLCHAIN="local")
ENV.pop("VERIF_REPO", None)

PROPS = {
    "session.go": ["C01", "C03", "C05", "C09", "C11", "C18", "C08", "C07", "C06", "C04", "C02", "C10", "C12", "C15", "C16", "C17", "C13"],
    "cache.go": ["C12", "C09", "C01", "C03", "C11", "C07", "C15"],
    "mutexes.go": ["C13", "C14", "C04", "C15"],
    "ids.go": ["C19", "C02", "C15"],
    "passwords.go": ["C20"],
}

SWAPS = [
    (r">=", ">"), (r"<=", "<"), (r"(?<![<>=!-])>(?![=>])", ">="), (r"(?<![<>=!-])<(?![=<-])", "<="),
    (r"==", "!="), (r"!=", "=="), (r"&&", "||"), (r"\|\|", "&&"),
    (r"\btrue\b", "false"), (r"\bfalse\b", "true"),
    (r"(?<=[\w)\]]) \+ (?=[\w(])", " - "), (r"(?<=[\w)\]]) - (?=[\w(])", " + "),
    (r"\+\+", "--"),
]


def sh(cmd, cwd=None, env=None, timeout=1800):
    try:
        p = subprocess.run(cmd, cwd=cwd, env=env or ENV, shell=isinstance(cmd, str), stdout=subprocess.PIPE, stderr=subprocess.STDOUT, text=True, timeout=timeout)
        return p.returncode, p.stdout
    except subprocess.TimeoutExpired as e:
        return 124, (e.stdout or "") if isinstance(e.stdout, str) else "timeout"


def code_part(line):
    """the part of a line before a // comment that is not inside a string/rune literal (approximation)"""
    out, i, q = [], 0, None
    while i < len(line):
        c = line[i]
        if q:
            if c == "\\" and q != "`":
                out.append(" "); out.append(" "); i += 2; continue
            if c == q:
                q = None
            out.append(" ")
        else:
            if c in "\"'`":
                q = c; out.append(" ")
            elif line.startswith("//", i):
                break
            else:
                out.append(c)
        i += 1
    return "".join(out)


def mutants_of(fn, src):
    lines = src.split("\n")
    res = []
    in_block_comment = False
    for ln, line in enumerate(lines):
        if "/*" in line:
            in_block_comment = True
        if in_block_comment:
            if "*/" in line:
                in_block_comment = False
            continue
        code = code_part(line)
        st = code.strip()
        if not st or st.startswith("import") or st.startswith("package") or st.startswith("func ") and st.endswith("{") and "(" not in st:
            continue
        for pat, rep in SWAPS:
            for m in re.finditer(pat, code):
                new = line[:m.start()] + rep + line[m.end():]
                res.append((ln, "swap %s -> %s" % (line[m.start():m.end()], rep.strip()), new))
        # small integer literals +1 (not in string literals)
        for m in re.finditer(r"(?<![\w.])(\d{1,3})(?![\w.])", code):
            res.append((ln, "const %s -> %d" % (m.group(1), int(m.group(1)) + 1), line[:m.start()] + str(int(m.group(1)) + 1) + line[m.end():]))
        # remove a negation
        for m in re.finditer(r"!(?=[\w(])", code):
            res.append((ln, "drop !", line[:m.start()] + line[m.end():]))
        # delete a statement: a call, an assignment, a defer, `break`, `continue`
        if re.match(r"^\s+(defer\s+)?[\w.\[\]]+(\.[\w]+)*\(.*\)\s*$", code) or re.match(r"^\s+[\w.\[\]]+\s*(=|\+=|-=)\s*[^=].*$", code) or re.match(r"^\s+[\w.]+(\+\+|--)\s*$", code) or st in ("break", "continue"):
            if not st.endswith("{") and not st.endswith("(") and not st.endswith(","):
                res.append((ln, "delete statement", re.match(r"^\s*", line).group(0) + "// deleted"))
        # return err -> return nil
        if re.match(r"^\s+return err\s*$", code):
            res.append((ln, "return err -> return nil", line.replace("return err", "return nil")))
        if re.match(r"^\s+return nil, err\s*$", code):
            res.append((ln, "return nil, err -> return nil, nil", line.replace("return nil, err", "return nil, nil")))
    return [(fn, ln + 1, what, new) for ln, what, new in res]


def run_one(idx, mut, props_override, keep_going):
    fn, ln, what, new = mut
    rec = {"i": idx, "file": fn, "line": ln, "mutation": what, "new": new.strip()[:160]}
    work = tempfile.mkdtemp(prefix="mutsweep-", dir="/var/tmp")
    try:
        repo = os.path.join(work, "repo")
        sh("rsync -a --exclude .git %s/ %s/" % (REPO, repo))
        p = os.path.join(repo, fn)
        lines = open(p).read().split("\n")
        rec["old"] = lines[ln - 1].strip()[:160]
        lines[ln - 1] = new
        open(p, "w").write("\n".join(lines))
        rc, o = sh("go build ./... 2>&1 && go vet -tags verif . >/dev/null 2>&1; go build -tags verif ./... 2>&1", cwd=repo, timeout=300)
        if rc != 0:
            rec["status"] = "does-not-compile"
            return rec
        rc, o = sh("go test -vet=off -count=1 -skip TestMutexesMultipleLocks -timeout 120s . 2>&1", cwd=repo, timeout=400)
        if rc != 0:
            rec["status"] = "killed-by-tests"
            return rec
        # survivors: the checks
        ver = os.path.join(work, "verif")
        others = subprocess.run("git -C %s ls-files --others --exclude-standard" % ROOT, shell=True, stdout=subprocess.PIPE, text=True).stdout
        exf = os.path.join(work, "exclude.txt")
        open(exf, "w").write("".join("/" + l + "\n" for l in others.split("\n") if l))
        sh("rsync -a --exclude .git --exclude 'build/bundles' --exclude 'build/cases' --exclude replays --exclude-from=%s %s/ %s/" % (exf, ROOT, ver))
        os.makedirs(os.path.join(ver, "replays"), exist_ok=True)
        rec["checks"] = {}
        rec["status"] = "MISSED"
        skip = set((os.environ.get("MUT_SKIP") or "").split(","))
        for pr in [q for q in (props_override or PROPS[fn]) if q not in skip]:
            rc, o = sh(["./check", pr], cwd=ver, env=dict(ENV, VERIF_REPO=repo), timeout=2400)
            what_ = []
            for l in o.split("\n"):
                if l.startswith("VIOLATION"):
                    path = l.split("replay=")[1].split()[0]
                    try:
                        r = json.load(open(path))
                        what_.append(str(r.get("what") or r.get("no_longer_checks") or r.get("detail") or "")[:200] + (" [NFI]" if "no-failing-input-found" in l else ""))
                    except Exception as ex:
                        what_.append(str(ex)[:100])
            rec["checks"][pr] = {"rc": rc, "violations": what_[:2]}
            if rc not in (0, 1):
                rec["checks"][pr]["tail"] = o[-400:]
            if rc == 1:
                rec["status"] = "reported"
                rec["by"] = rec.get("by", []) + [pr]
                rec["concrete"] = rec.get("concrete", False) or any("[NFI]" not in w for w in what_)
                if not keep_going:
                    break
        return rec
    except Exception as ex:  # noqa
        rec["status"] = "error"; rec["error"] = str(ex)[-300:]
        return rec
    finally:
        shutil.rmtree(work, ignore_errors=True)


def main():
    ap = argparse.ArgumentParser()
    ap.add_argument("--n", type=int, default=40, help="mutants sampled per file (0: all)")
    ap.add_argument("--seed", type=int, default=1)
    ap.add_argument("--files", default="session.go,cache.go,mutexes.go,ids.go,passwords.go")
    ap.add_argument("--jobs", type=int, default=3)
    ap.add_argument("--props", default="")
    ap.add_argument("--all-props", action="store_true", help="do not stop at the first check that reports")
    ap.add_argument("--list", action="store_true")
    ap.add_argument("--out", default=os.path.join(ROOT, "build", "mutsweep.jsonl"))
    a = ap.parse_args()
    rnd = random.Random(a.seed)
    todo = []
    for fn in a.files.split(","):
        ms = mutants_of(fn, open(os.path.join(REPO, fn)).read())
        if a.n and len(ms) > a.n:
            ms = rnd.sample(ms, a.n)
        ms.sort(key=lambda m: m[1])
        todo += ms
    if a.list:
        for m in todo:
            print(m[0], m[1], m[2], "|", m[3].strip())
        print(len(todo), "mutants")
        return
    os.makedirs(os.path.dirname(a.out), exist_ok=True)
    props = [p for p in a.props.split(",") if p]
    counts = {}
    with open(a.out, "a") as out, ThreadPoolExecutor(max_workers=a.jobs) as ex:
        for rec in ex.map(lambda im: run_one(im[0], im[1], props, a.all_props), enumerate(todo)):
            out.write(json.dumps(rec) + "\n"); out.flush()
            counts[rec["status"]] = counts.get(rec["status"], 0) + 1
            if rec["status"] in ("MISSED", "error"):
                print("%s %s:%d %s | %s -> %s" % (rec["status"], rec["file"], rec["line"], rec["mutation"], rec.get("old"), rec.get("new")), flush=True)
    print(json.dumps(counts))


if __name__ == "__main__":
    main()
