#!/usr/bin/env python3
"""tools/collect_seed4.py: copy confirmed round-4 seeded changes from /var/tmp/seed4/<P>/seedout/<n> into
/verif/seeded/<P>-r4-<n>/ using the tools/seedtest.py result in /var/tmp/seed4/out/<P>-<n>.json; prints table rows
for DESIGN.md section 11."""
import glob, json, os, shutil
rows = []
for f in sorted(glob.glob('/var/tmp/seed4/out/*.json')):
    name = os.path.basename(f)[:-5]
    prop, n = name.split('-')
    txt = open(f).read()
    try:
        r = json.loads(txt[txt.index('{'):])
    except Exception:
        rows.append((name, 'NO RESULT')); continue
    confirmed = r.get('patch_applies') and r.get('clean_with_demo_passes') and r.get('changed_suite_passes') and r.get('changed_demo_fails')
    if not confirmed:
        rows.append((name, 'NOT CONFIRMED', [r.get(k) for k in ('patch_applies', 'clean_with_demo_passes', 'changed_suite_passes', 'changed_demo_fails')])); continue
    src = '/var/tmp/seed4/%s/seedout/%s' % (prop, n)
    dst = '/verif/seeded/%s-r4-%s' % (prop, n)
    os.makedirs(dst, exist_ok=True)
    shutil.copy(os.path.join(src, 'patch.diff'), dst)
    shutil.copy(os.path.join(src, 'demo_test.go'), os.path.join(dst, 'demo_test.go.txt'))
    meta = json.load(open(os.path.join(src, 'meta.json')))
    head = os.popen('git -C /repo rev-parse --short HEAD').read().strip()
    meta['round'] = 4
    meta['confirmed'] = {'patch applies to /repo HEAD (%s)' % head: True, 'clean tree + demo passes': True,
                         'changed tree passes the 31-test suite (TestMutexesMultipleLocks skipped: flaky in the baseline; the two 5-ms timing tests retried on a loaded machine)': True,
                         'demo fails with the change': True,
                         'how': 'tools/seedtest.py <seed dir>: scratch copy of /repo under /var/tmp, go test; then ./check from an isolated copy of /verif with VERIF_REPO pointing at the changed copy'}
    meta['checks_run'] = {p: {'exit': v['rc'], 'violations': v['violations'][:3]} for p, v in r.get('checks', {}).items()}
    det = [p for p, v in r.get('checks', {}).items() if v['rc'] == 1]
    concrete = [p for p, v in r.get('checks', {}).items() if v['rc'] == 1 and not all('no-failing-input-found' in w for w in v['violations'])]
    meta['detected_by'] = det
    meta['detected_with_concrete_input'] = concrete
    json.dump(meta, open(os.path.join(dst, 'meta.json'), 'w'), indent=1)
    first = ''
    for p, v in r.get('checks', {}).items():
        if v['violations']:
            first = '%s: %s' % (p, v['violations'][0][:150]); break
    rows.append(('%s-r4-%s' % (prop, n), meta.get('summary', '')[:170].replace('|', '/').replace('\n', ' '), meta.get('needs', '')[:150].replace('|', '/').replace('\n', ' '),
                 'MISSED' if not det else ('concrete input' if concrete else 'no-failing-input-found'), first.replace('|', '/').replace('\n', ' ')))
for r in rows:
    print('| ' + ' | '.join(str(x) for x in r) + ' |')
