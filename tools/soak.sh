#!/bin/bash
# tools/soak.sh [tier] [seed]: setup, then every property's check at the given tier; prints one line per property.
tier=${1:-thorough}; seed=${2:-11}
cd "$(dirname "$0")/.."
./check --setup || exit 2
for p in C12 C01 C02 C03 C04 C05 C06 C07 C08 C09 C10 C11 C18 C13 C14 C15 C16 C17 C19 C20; do
  s=$(date +%s)
  VERIF_SEED=$seed ./check $p --tier $tier > build/soak-$p.log 2>&1; rc=$?
  echo "$p tier=$tier seed=$seed rc=$rc $(( $(date +%s) - s ))s $(grep -c '^VIOLATION' build/soak-$p.log) violations"
  grep '^VIOLATION' build/soak-$p.log | head -3
done
