#!/bin/bash
# tools/soakseeds.sh <seed>...: quick tier of every property for each seed
cd "$(dirname "$0")/.."
./check --setup || exit 2
for seed in "$@"; do
for p in C12 C01 C02 C03 C04 C05 C06 C07 C08 C09 C10 C11 C18 C13 C14 C15 C16 C17 C19 C20; do
  s=$(date +%s)
  VERIF_SEED=$seed ./check $p --tier quick > build/soakq-$p.log 2>&1; rc=$?
  echo "$p tier=quick seed=$seed rc=$rc $(( $(date +%s) - s ))s $(grep -c '^VIOLATION' build/soakq-$p.log) violations"
  grep '^VIOLATION' build/soakq-$p.log | head -3
done; done
