#!/usr/bin/env python3
"""tools/mutants.py [names...]: hand-written breaking edits (DESIGN.md Appendix B) applied to a scratch copy of /repo;
each is run against the listed checks from an isolated copy of /verif. Output: one JSON line per mutant."""
import json, os, re, shutil, subprocess, sys, tempfile

M = [
 # name, file, old, new, properties expected to notice
 ("compact-no-save", "cache.go", "\t\tif err := Persistence.SaveSession(oldestSessionID, c.sessions[oldestSessionID]); err != nil {\n\t\t\treturn 0, err\n\t\t}\n", "", ["C12", "C01", "C09"]),
 ("evict-newest", "cache.go", "before := session.lastAccess.Before(oldestAccessTime)", "before := session.lastAccess.After(oldestAccessTime)", ["C12"]),
 ("sweep-ge", "cache.go", "if age > SessionCacheExpiry {", "if age >= SessionCacheExpiry {", ["C12"]),
 ("insert-when-zero", "cache.go", "\t\t\tif MaxSessionCacheSize != 0 {\n\t\t\t\tc.compact(1)\n\t\t\t\tc.sessions[id] = session\n\t\t\t}", "\t\t\tc.compact(1)\n\t\t\tc.sessions[id] = session", ["C12"]),
 ("stale-gt", "session.go", "if timeUntouched >= SessionExpiry {", "if timeUntouched > SessionExpiry {", ["C03"]),
 ("no-access-refresh", "session.go", "\t\t\tsession.lastAccess = time.Now()\n\t\t\tsession.lastIP = request.RemoteAddr", "\t\t\tsession.lastIP = request.RemoteAddr", ["C03", "C12"]),
 ("rotate-gt", "session.go", 'if session.referenceID == "" && age >= SessionIDExpiry {', 'if session.referenceID == "" && age > SessionIDExpiry {', ["C04"]),
 ("cleanup-sleeps-idexpiry", "session.go", "time.Sleep(SessionIDGracePeriod)", "time.Sleep(SessionIDExpiry)", ["C05"]),
 ("ip-loop-le", "session.go", "for i := 1; i < AcceptRemoteIP; i++ {", "for i := 1; i <= AcceptRemoteIP && i < 5; i++ {", ["C06"]),
 ("no-destroy-on-anomaly", "session.go", "\t\t\tif err = session.Destroy(response, request); err != nil {\n\t\t\t\treturn nil, fmt.Errorf(\"Could not destroy expired session: %s\", err)\n\t\t\t}\n\t\t\tsession = nil", "\t\t\tdeleteCookie(cookie, response)\n\t\t\tsession = nil", ["C06", "C03", "C07"]),
 ("delete-forgets-store", "cache.go", "\t// Remove from database.\n\treturn Persistence.DeleteSession(id)", "\treturn nil", ["C07", "C03"]),
 ("logoutuser-no-save", "session.go", "\t\tsession.Lock()\n\t\tsession.user = nil\n\t\tsession.Unlock()\n\t\tif err := sessions.Set(session); err != nil {\n\t\t\treturn err\n\t\t}", "\t\tsession.Lock()\n\t\tsession.user = nil\n\t\tsession.Unlock()", ["C08", "C09"]),
 ("login-no-rotate", "session.go", "\tif err := s.RegenerateID(response); err != nil {\n\t\treturn fmt.Errorf(\"Could not switch session ID: %s\", err)\n\t}\n", "", ["C08", "C04"]),
 ("set-save-before-mutate", "session.go", "\ts.Lock()\n\ts.data[key] = value\n\ts.Unlock()\n\treturn Persistence.SaveSession(s.id, s)", "\terr := Persistence.SaveSession(s.id, s)\n\ts.Lock()\n\ts.data[key] = value\n\ts.Unlock()\n\treturn err", ["C09", "C01"]),
 ("ref-before-new", "session.go", None, None, ["C10"]),
 ("load-error-as-miss", "session.go", "\t\tsession, err = sessions.Get(id)\n\t\tif err != nil {\n\t\t\treturn nil, fmt.Errorf(\"Could not get session from cache: %s\", err)\n\t\t}", "\t\tsession, _ = sessions.Get(id)", ["C11"]),
 ("set-drops-error", "session.go", "\ts.Lock()\n\ts.data[key] = value\n\ts.Unlock()\n\treturn Persistence.SaveSession(s.id, s)", "\ts.Lock()\n\ts.data[key] = value\n\ts.Unlock()\n\tPersistence.SaveSession(s.id, s)\n\treturn nil", ["C11"]),
 ("rotated-cookie-literal", "session.go", "\t// Change the cookie.\n\tcookie := NewSessionCookie()\n\tcookie.Name = SessionCookie", "\t// Change the cookie.\n\tcookie := &http.Cookie{HttpOnly: true, MaxAge: 10 * 365 * 24 * 60 * 60}\n\tcookie.Name = SessionCookie", ["C18"]),
 ("lookup-any-length", "session.go", "if len(id) == 24 {", "if len(id) >= 20 {", ["C02"]),
 ("one-hop-again", "session.go", 'for session.referenceID != "" {', 'for hop := 0; hop < 1 && session.referenceID != ""; hop++ {', ["C05", "C18", "C01"]),
]

def ref_before_new(src):
    # save the reference record before the new record in RegenerateID
    a = src.index("\ts.Lock()\n\ts.id = id\n\ts.created = time.Now()\n\ts.Unlock()\n\tif err = sessions.Set(s); err != nil {")
    b = src.index("\t// Save a reference session under the old ID.")
    c = src.index("\t// Delete that reference session after the grace period.")
    first, second = src[a:b], src[b:c]
    # the reference needs s.created/lastIP; keep the field writes first
    head = "\ts.Lock()\n\ts.id = id\n\ts.created = time.Now()\n\ts.Unlock()\n"
    first_rest = first[len(head):]
    return src[:a] + head + second + first_rest + src[c:]

def sh(cmd, cwd=None, env=None, timeout=3000):
    p = subprocess.run(cmd, cwd=cwd, env=env, shell=isinstance(cmd, str), stdout=subprocess.PIPE, stderr=subprocess.STDOUT, text=True, timeout=timeout)
    return p.returncode, p.stdout

names = sys.argv[1:]
env = dict(os.environ, GOFLAGS="-mod=mod", GOPROXY="off", GOSUMDB="off", GOTOOLCHAIN="local")
for name, fn, old, new, props in M:
    if names and name not in names: continue
    work = tempfile.mkdtemp(prefix="mut-", dir="/var/tmp")
    res = {"mutant": name, "props": {}}
    try:
        repo = os.path.join(work, "repo")
        sh("rsync -a --exclude .git /repo/ %s/" % repo)
        p = os.path.join(repo, fn)
        src = open(p).read()
        if name == "ref-before-new":
            out = ref_before_new(src)
        else:
            if old not in src:
                res["error"] = "pattern not found"; print(json.dumps(res), flush=True); continue
            out = src.replace(old, new, 1)
        open(p, "w").write(out)
        rc, o = sh("go build ./... && go test -vet=off -count=1 ./...", cwd=repo, env=env)
        res["suite_passes"] = rc == 0
        if rc: res["suite_log"] = o[-600:]
        ver = os.path.join(work, "verif")
        sh("rsync -a --exclude .git --exclude 'build/bundles' --exclude 'build/cases' --exclude replays /verif/ %s/" % ver)
        os.makedirs(os.path.join(ver, "replays"), exist_ok=True)
        for pr in props:
            rc, o = sh(["./check", pr], cwd=ver, env=dict(env, VERIF_REPO=repo))
            what = []
            for l in o.split("\n"):
                if l.startswith("VIOLATION"):
                    path = l.split("replay=")[1].split()[0]
                    try:
                        r = json.load(open(path)); what.append((r.get("what") or r.get("no_longer_checks") or "")[:160] + (" [NFI]" if "no-failing" in l else ""))
                    except Exception as ex: what.append(str(ex))
            res["props"][pr] = {"rc": rc, "violations": what}
            if rc not in (0, 1): res["props"][pr]["tail"] = o[-500:]
    finally:
        shutil.rmtree(work, ignore_errors=True)
    print(json.dumps(res), flush=True)
