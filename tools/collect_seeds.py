#!/usr/bin/env python3
"""tools/collect_seeds.py: copy confirmed seeded changes from /var/tmp/seed/*/seedout/* into /verif/seeded/<id>/ using the
latest tools/seedtest.py result for each (build/seedall*.out), and print the detection table."""
import glob, json, os, shutil
res = {}
for f in sorted(glob.glob('/verif/build/seedall*.out'), key=os.path.getmtime):
    txt = open(f).read()
    for blk in txt.split('### ')[1:]:
        name, _, rest = blk.partition('\n')
        try:
            r = json.loads(rest[rest.index('{'):])
        except Exception:
            continue
        res[name.strip()] = r
rows = []
for name, r in sorted(res.items()):
    prop, n = name.split('/')
    src = '/var/tmp/seed/%s/seedout/%s' % (prop, n)
    confirmed = r.get('patch_applies') and r.get('clean_with_demo_passes') and r.get('changed_suite_passes') and r.get('changed_demo_fails')
    if not confirmed:
        rows.append((name, 'NOT CONFIRMED', r.get('patch_applies'), r.get('clean_with_demo_passes'), r.get('changed_suite_passes'), r.get('changed_demo_fails')))
        continue
    dst = '/verif/seeded/%s-%s' % (prop, n)
    if not os.path.exists(os.path.join(src, 'patch.diff')):
        if os.path.exists(os.path.join(dst, 'meta.json')):
            m0 = json.load(open(os.path.join(dst, 'meta.json')))
            rows.append((name, 'caught' if m0.get('detected_by') else 'MISSED', 'concrete' if m0.get('detected_with_concrete_input') else 'no-failing-input-found', '(archived) ' + m0.get('summary', '')[:90]))
        else:
            rows.append((name, 'SOURCE MISSING'))
        continue
    os.makedirs(dst, exist_ok=True)
    shutil.copy(os.path.join(src, 'patch.diff'), dst)
    shutil.copy(os.path.join(src, 'demo_test.go'), os.path.join(dst, 'demo_test.go.txt'))
    meta = json.load(open(os.path.join(src, 'meta.json')))
    meta['confirmed'] = {'patch applies to /repo HEAD': True, 'clean tree + demo passes': True, 'changed tree passes the 31-test suite (TestMutexesMultipleLocks skipped: flaky in the baseline)': True, 'demo fails with the change': True,
                         'how': 'tools/seedtest.py <seed dir>: scratch copy of /repo under /var/tmp, go test; then ./check from an isolated copy of /verif with VERIF_REPO pointing at the changed copy'}
    meta['checks_run'] = {p: {'exit': v['rc'], 'violations': v['violations'][:3]} for p, v in r.get('checks', {}).items()}
    det = [p for p, v in r.get('checks', {}).items() if v['rc'] == 1]
    concrete = [p for p, v in r.get('checks', {}).items() if v['rc'] == 1 and not all('no-failing-input-found' in w for w in v['violations'])]
    meta['detected_by'] = det
    meta['detected_with_concrete_input'] = concrete
    json.dump(meta, open(os.path.join(dst, 'meta.json'), 'w'), indent=1)
    rows.append((name, 'caught' if det else 'MISSED', 'concrete' if concrete else ('no-failing-input-found' if det else ''), meta.get('summary', '')[:100]))
for r in rows:
    print(*r, sep=' | ')
