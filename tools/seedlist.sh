#!/bin/bash
# tools/seedlist.sh <P/n> ... : run seedtest on the listed seeds
for s in "$@"; do d=/var/tmp/seed/${s%/*}/seedout/${s#*/}; echo "### $s"; python3 /verif/tools/seedtest.py $d 2>&1 | tail -80; done
