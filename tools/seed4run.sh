#!/bin/bash
# tools/seed4run.sh <P>/<n> ... : seedtest on /var/tmp/seed4/<P>/seedout/<n>, JSON to /var/tmp/seed4/out/<P>-<n>.json
mkdir -p /var/tmp/seed4/out
for s in "$@"; do p=${s%/*}; n=${s#*/}; d=/var/tmp/seed4/$p/seedout/$n; [ -f $d/patch.diff ] || continue; python3 /verif/tools/seedtest.py $d > /var/tmp/seed4/out/$p-$n.json 2>&1; echo "$p-$n done"; done
