#!/bin/bash
# tools/seedall.sh <P1> <P2>... : run seedtest on /var/tmp/seed/<P>/seedout/{1,2}
for p in "$@"; do for n in 1 2; do d=/var/tmp/seed/$p/seedout/$n; [ -d $d ] || continue; echo "### $p/$n"; python3 /verif/tools/seedtest.py $d 2>&1 | tail -60; done; done
