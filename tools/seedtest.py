#!/usr/bin/env python3
"""tools/seedtest.py <seed dir with patch.diff, demo_test.go, meta.json> [props...]
Confirms a seeded change in a scratch copy of /repo (compiles, suite passes,
demo fails with it and passes without it), then runs the given checks (default:
the property in meta.json) against the changed copy from an isolated copy of
/verif. Prints a JSON summary."""
import json, os, shutil, subprocess, sys, tempfile
seed = os.path.abspath(sys.argv[1])
meta = json.load(open(os.path.join(seed, "meta.json")))
props = sys.argv[2:] or [meta["property"]]
work = tempfile.mkdtemp(prefix="seedtest-", dir="/var/tmp")
env = dict(os.environ, GOFLAGS="-mod=mod", GOPROXY="off", GOSUMDB="off", GOTOOLCHAIN="local")
res = {"seed": seed, "property": meta["property"]}
def suite(cmd, cwd):
    """the suite has two timing tests (5 ms grace period) that fail now and then on a loaded machine: up to 4 tries"""
    for _ in range(4):
        rc, out = sh(cmd, cwd=cwd)
        if rc == 0 or not any(t in out for t in ("TestSessionIDChange", "TestSessionIDChangeDoS", "TestExpiredReferencedSession", "TestCache")):
            break
    return rc, out
def sh(cmd, cwd=None, e=None, timeout=3000):
    p = subprocess.run(cmd, cwd=cwd, env=e or env, shell=isinstance(cmd, str), stdout=subprocess.PIPE, stderr=subprocess.STDOUT, text=True, timeout=timeout)
    return p.returncode, p.stdout
try:
    repo = os.path.join(work, "repo")
    sh("rsync -a --exclude .git --exclude seedout /repo/ %s/" % repo)
    demo = os.path.join(seed, "demo_test.go")
    # clean tree + demo
    shutil.copy(demo, os.path.join(repo, "zz_seed_demo_test.go"))
    rc, out = suite("go test -vet=off -count=1 -skip TestMutexesMultipleLocks .", cwd=repo)
    res["clean_with_demo_passes"] = rc == 0
    if rc: res["clean_log"] = out[-1500:]
    os.remove(os.path.join(repo, "zz_seed_demo_test.go"))
    # apply patch
    rc, out = sh("git init -q . && git apply --whitespace=nowarn %s" % os.path.join(seed, "patch.diff"), cwd=repo)
    res["patch_applies"] = rc == 0
    if rc: res["apply_log"] = out[-1500:]
    shutil.rmtree(os.path.join(repo, ".git"), ignore_errors=True)
    rc, out = suite("go build ./... && go test -vet=off -count=1 -skip TestMutexesMultipleLocks .", cwd=repo)
    res["changed_suite_passes"] = rc == 0
    if rc: res["suite_log"] = out[-1500:]
    shutil.copy(demo, os.path.join(repo, "zz_seed_demo_test.go"))
    rc, out = sh("go test -vet=off -count=1 -skip TestMutexesMultipleLocks .", cwd=repo)
    res["changed_demo_fails"] = rc != 0
    res["demo_log"] = out[-800:]
    os.remove(os.path.join(repo, "zz_seed_demo_test.go"))
    # run checks from an isolated copy of /verif
    ver = os.path.join(work, "verif")
    # untracked, non-ignored files (work in progress of other agents) are left out
    SRC = os.environ.get("SEEDTEST_VERIF", "/verif")   # a built copy of a commit of /verif may stand in
    others = subprocess.run("git -C %s ls-files --others --exclude-standard" % SRC, shell=True, stdout=subprocess.PIPE, text=True).stdout
    exf = os.path.join(work, "exclude.txt")
    open(exf, "w").write("".join("/" + l + "\n" for l in others.split("\n") if l))
    sh("rsync -a --exclude .git --exclude 'build/bundles' --exclude 'build/cases' --exclude replays --exclude-from=%s %s/ %s/" % (exf, SRC, ver))
    os.makedirs(os.path.join(ver, "replays"), exist_ok=True)
    res["checks"] = {}
    for p in props:
        e2 = dict(env, VERIF_REPO=repo)
        rc, out = sh(["./check", p], cwd=ver, e=e2)
        lines = [l for l in out.split("\n") if l.startswith("VIOLATION") or l.startswith("KNOWN-FINDING")]
        what = []
        for l in lines:
            if l.startswith("VIOLATION"):
                path = l.split("replay=")[1].split()[0]
                try:
                    r = json.load(open(path))
                    what.append((str(r.get("what") or r.get("violation") or r.get("no_longer_checks") or r.get("detail") or "") + (" :: " + str(r.get("detail"))[-700:] if r.get("no_longer_checks") == "machinery error" else ""))[:1100] + (" [no-failing-input-found]" if "no-failing-input-found" in l else ""))
                except Exception as ex:
                    what.append(str(ex))
        res["checks"][p] = {"rc": rc, "violations": what, "tail": out[-600:] if rc not in (0, 1) else ""}
finally:
    shutil.rmtree(work, ignore_errors=True)
print(json.dumps(res, indent=1))
