(* The observation and the post-state of a crash-free request step, in terms of
   the results of Start and of the handler script (Hist.step unfolded once).
   pre_of / req_of / presents are those of Proofs/HistLift3.v. *)
From Sessions Require Import Model.Base Model.Sess Model.Hist Proofs.SessDefs
  Proofs.HistInv Proofs.HistInv2 Proofs.HistInv3 Proofs.HistLift Proofs.HistLift2 Proofs.HistLift3.

Definition jar_next (w : world) (r : reqstep) (cks : list cookie) : cval :=
  match rq_present r with
  | PJar => apply_cookies (jar_of (w_jars w) (rq_client r)) cks
  | PForge _ => jar_of (w_jars w) (rq_client r)
  end.

Lemma jar_next_jar w r cks : rq_present r = PJar -> jar_next w r cks = apply_cookies (presents w r) cks.
Proof. intro H. unfold jar_next, presents. rewrite H. reflexivity. Qed.

Lemma step_req_sess w r s2 o cks s3 sr cks' : rq_crash r = None ->
  start (pre_of w r) (req_of w r) = (s2, Ok (Some o), cks) ->
  run_script (fire_due s2) o (had_cookie (req_of w r)) (rq_script r) = (s3, sr, cks') ->
  w_st (fst (step w (HReq r))) = set_tb (set_plan s3 []) [] /\
  ob_res (snd (step w (HReq r))) = RSess /\
  ob_start (snd (step w (HReq r))) = handle_view (fire_due s2) o /\
  ob_cookies (snd (step w (HReq r))) = cks ++ cks' /\
  ob_script (snd (step w (HReq r))) = sr /\
  ob_final (snd (step w (HReq r))) = handle_view s3 o /\
  ob_jar (snd (step w (HReq r))) = jar_next w r (cks ++ cks') /\
  w_jars (fst (step w (HReq r))) = jar_set (w_jars w) (rq_client r) (jar_next w r (cks ++ cks')).
Proof.
  intros Hcr E E'. rewrite step_req_eq. cbv zeta.
  change (match rq_present r with PJar => jar_of (w_jars w) (rq_client r) | PForge c => c end) with (presents w r).
  change (mkReq (presents w r) (rq_create r) (rq_addr r) (rq_ua r)) with (req_of w r).
  change (set_tb (set_plan (set_evs (w_st w) []) (rq_plan r)) (rq_tb r)) with (pre_of w r).
  unfold req_body. rewrite E. cbv zeta. rewrite E', Hcr.
  cbn [fst snd w_st w_jars mk_obs ob_res ob_start ob_final ob_cookies ob_script ob_jar]. unfold jar_next.
  repeat split.
Qed.

Lemma step_req_nosess w r s2 res cks : rq_crash r = None ->
  start (pre_of w r) (req_of w r) = (s2, res, cks) -> (forall o, res <> Ok (Some o)) ->
  w_st (fst (step w (HReq r))) = set_tb (set_plan (fire_due s2) []) [] /\
  ob_res (snd (step w (HReq r))) =
    match res with Ok (Some _) => RSess | Ok None => RNone | Err e => RErr e | Panic e => RPanic e end /\
  ob_start (snd (step w (HReq r))) = None /\
  ob_cookies (snd (step w (HReq r))) = cks /\
  ob_script (snd (step w (HReq r))) = [] /\
  ob_final (snd (step w (HReq r))) = None /\
  ob_jar (snd (step w (HReq r))) = jar_next w r cks.
Proof.
  intros Hcr E Hne. rewrite step_req_eq. cbv zeta.
  change (match rq_present r with PJar => jar_of (w_jars w) (rq_client r) | PForge c => c end) with (presents w r).
  change (mkReq (presents w r) (rq_create r) (rq_addr r) (rq_ua r)) with (req_of w r).
  change (set_tb (set_plan (set_evs (w_st w) []) (rq_plan r)) (rq_tb r)) with (pre_of w r).
  unfold req_body. rewrite E. cbv zeta.
  destruct res as [[o|]|e|e]; [exfalso; exact (Hne o eq_refl)| | |]; rewrite Hcr;
    cbn [fst snd w_st mk_obs ob_res ob_start ob_final ob_cookies ob_script ob_jar]; unfold jar_next; repeat split.
Qed.

(* the state Start runs on satisfies whatever the world's state satisfies, as far
   as it depends on heap, cache, store, clean-up queue, clock, supply and
   configuration only *)
Lemma pre_of_fields w r :
  heap (pre_of w r) = heap (w_st w) /\ cache (pre_of w r) = cache (w_st w) /\ store (pre_of w r) = store (w_st w) /\
  pending (pre_of w r) = pending (w_st w) /\ now (pre_of w r) = now (w_st w) /\ supply (pre_of w r) = supply (w_st w) /\
  conf (pre_of w r) = conf (w_st w) /\ plan (pre_of w r) = rq_plan r /\ evs (pre_of w r) = [].
Proof. repeat split. Qed.

Lemma L_pre_of w r k : L (pre_of w r) k = L (w_st w) k.
Proof. reflexivity. Qed.
