(* C05: the lastAccess of a replaced-ID record IS the instant of its replacement
   (floored to the second once it has passed through the JSON codec). Proofs/
   C05RUser.v once more, for the record predicate

     rok r := if r names a new ID KGen n with n0 <= n < n1 then
              created = T or created = T floored to the second

   and the state clause "IDs with ordinals below n1 are drawn at instant T": a
   replaced-ID record names the ID RegenerateID drew for the session, so for
   [n0, n1) = the ordinals a request step draws and T = the clock of that step
   (frozen during a request) this says: every replaced-ID record written by that
   step has created = T up to the codec's flooring, for as long as it exists.
   With created = lastAccess (C05RUser4.v) that is the instant Expired() measures
   from. Section variables m (a lower bound of the supply), n0, n1, T. *)
From Sessions Require Import Model.Base Model.Sess Model.Hist Proofs.SessDefs Proofs.HistInv Proofs.HistInv3
  Proofs.CrashFault Proofs.CrashFault2 Proofs.CrashFault8 Proofs.CrashFault9.
From Sessions Require Proofs.RotateLaws4.
From Coq Require Import Lia ZArith.

Section Instant.
  Variables (m n0 n1 : N) (T : Z).

Definition rok (r : rec) : Prop :=
  forall n, r_ref r = Some (KGen n) -> (n0 <= n < n1)%N -> r_created r = T \/ r_created r = (T - T mod second)%Z.

Definition Rh (s : st) : Prop := forall o ob, hget s o = Some ob -> rok (o_rec ob).
Definition Rl (l : list (key * rec)) : Prop := forall k r, In (k, r) l -> rok r.
(* the clock: IDs with ordinals below n1 are drawn at instant T *)
Definition stok (s : st) : Prop := (m <= supply s)%N /\ ((supply s < n1)%N -> now s = T).
Definition R (s : st) : Prop := stok s /\ Rh s /\ Rl (store s).

Lemma Rh_of s : R s -> Rh s.  Proof. intros (_ & A & _). exact A. Qed.
Lemma Rl_of s : R s -> Rl (store s).  Proof. intros (_ & _ & B). exact B. Qed.

Lemma rok_nonref r : r_ref r = None -> rok r.
Proof. intros H n E. rewrite H in E. discriminate. Qed.

Lemma flo_idem t : ((t - t mod second) - (t - t mod second) mod second = t - t mod second)%Z.
Proof.
  assert (H : ((t - t mod second) mod second = 0)%Z).
  { rewrite (Z.div_mod t second) at 1 by discriminate.
    replace (second * (t / second) + t mod second - t mod second)%Z with ((t / second) * second)%Z by lia.
    apply Z_mod_mult. }
  rewrite H. lia.
Qed.

Lemma rok_codec c r : rok r -> rok (codec c r).
Proof.
  intros H n E Hn. assert (E' : r_ref r = Some (KGen n)) by exact E.
  unfold codec. cbn [r_created]. destruct (H n E' Hn) as [E1|E1]; rewrite E1; destruct (c_json c).
  - right. reflexivity.
  - left. reflexivity.
  - right. apply flo_idem.
  - right. reflexivity.
Qed.

Lemma rok_set_data r d : rok r -> rok (set_data r d).
Proof. destruct r. exact (fun H => H). Qed.

(* --------------------------------------------------------- store, events *)

Definition evok (e : ev) : Prop := match e with EvSave _ r _ => rok r | _ => True end.

Lemma Rl_apply sg e : Rl (fst sg) -> evok e -> Rl (fst (apply_ev sg e)).
Proof.
  destruct sg as [stor gr]. intros H He. destruct e as [| |k r ok|k ok| |]; try exact H; cbn [apply_ev fst] in *.
  - destruct ok; [|exact H]. intros k' r' Hin. apply In_upsert in Hin. destruct Hin as [[_ ->]|Hin]; [exact He | eapply H; exact Hin].
  - destruct ok; [|exact H]. intros k' r' Hin. apply In_remove in Hin. eapply H. apply Hin.
Qed.

Lemma Rl_replay l : forall sg, Rl (fst sg) -> Forall evok l -> Rl (fst (replay l sg)).
Proof.
  induction l as [|e l IH]; intros sg H HF; [exact H|]. inversion HF; subst. cbn [replay fold_left].
  apply IH; [apply Rl_apply; assumption | assumption].
Qed.

Lemma stok_mono s s' : (supply s <= supply s')%N -> now s' = now s -> stok s -> stok s'.
Proof. intros Hs Hn [A B]. split; [lia|]. intro H. rewrite Hn. apply B. lia. Qed.

Lemma R_ext s s' l : ext s s' l -> Forall evok l -> heap s' = heap s -> R s -> R s'.
Proof.
  intros X HF Hh (S0 & A & B). split; [|split].
  - apply (stok_mono s); [rewrite (x_supply _ _ _ X); lia | exact (x_now _ _ _ X) | exact S0].
  - intros o ob Ho. unfold hget in Ho. rewrite Hh in Ho. exact (A o ob Ho).
  - rewrite (store_of_ext _ _ _ X). apply Rl_replay; [exact B | exact HF].
Qed.

Lemma R_same s s' : heap s' = heap s -> store s' = store s -> supply s' = supply s -> now s' = now s -> R s -> R s'.
Proof.
  intros Hh Hs Hn Ht (S0 & A & B). split; [apply (stok_mono s); [rewrite Hn; lia | exact Ht | exact S0]|].
  split; [intros o ob Ho; unfold hget in Ho; rewrite Hh in Ho; exact (A o ob Ho) | rewrite Hs; exact B].
Qed.

Lemma R_gen s : R s -> R (fst (gen_id s)).
Proof.
  intros (S0 & A & B). split; [apply (stok_mono s); [cbn; lia | reflexivity | exact S0]|]. split; [exact A | exact B].
Qed.

Lemma reads_evok l : Forall (fun e => is_read e = true) l -> Forall evok l.
Proof. apply Forall_impl. intros e H. destruct e; try discriminate; exact I. Qed.

(* ------------------------------------------------------------------ heap *)

Lemma R_hput s o v : R s -> rok (o_rec v) -> R (hput s o v).
Proof.
  intros (S0 & A & B) Hv. split; [exact S0|]. split; [|exact B]. intros o' ob' Ho'. rewrite hget_hput in Ho'.
  destruct (Nat.eqb o o'); [|exact (A o' ob' Ho')]. destruct (hget s o); [|discriminate]. injection Ho' as <-. exact Hv.
Qed.

Lemma R_halloc s v : R s -> rok (o_rec v) -> R (fst (halloc s v)).
Proof.
  intros (S0 & A & B) Hv. split; [exact S0|]. split; [|exact B]. intros o' ob' Ho'. rewrite hget_halloc in Ho'.
  destruct (Nat.eqb o' (length (heap s))); [injection Ho' as <-; exact Hv | exact (A o' ob' Ho')].
Qed.

Lemma R_hupd s o f : R s -> (forall ob, hget s o = Some ob -> rok (f (o_rec ob))) -> R (hupd s o f).
Proof.
  intros HR Hf. unfold hupd. destruct (hget s o) as [ob|] eqn:Ho; [|exact HR]. apply R_hput; [exact HR | exact (Hf ob eq_refl)].
Qed.

(* ------------------------------------------------------ persistence, cache *)

Lemma R_p_save s k r s' b : p_save s k r = (s', b) -> R s -> rok r -> R s'.
Proof.
  intros E HR Hr. destruct (p_save_spec _ _ _ _ _ E) as ((Hh & _) & X & _).
  eapply R_ext; [exact X | constructor; [apply rok_codec; exact Hr | constructor] | exact Hh | exact HR].
Qed.

Lemma R_p_delete s k s' b : p_delete s k = (s', b) -> R s -> R s'.
Proof.
  intros E HR. destruct (p_delete_spec _ _ _ _ E) as ((Hh & _) & X & _).
  eapply R_ext; [exact X | repeat constructor | exact Hh | exact HR].
Qed.

Lemma R_compact s req : R s -> R (compact s req).
Proof.
  intros HR. destruct (compact_flushes s req) as (l & X & HF & Hh & _).
  eapply R_ext; [exact X | | exact Hh | exact HR].
  eapply Forall_impl; [|exact HF]. intros e (k & o & ob & b & -> & _ & Hn). cbn. apply rok_codec. exact (Rh_of _ HR o ob Hn).
Qed.

Lemma R_cache_get s k s' r : cache_get s k = (s', r) -> R s -> R s'.
Proof.
  intros E HR. apply cache_get_spec in E. destruct E as [(o & _ & -> & _)|(_ & s1 & lr & EP & H)]; [exact HR|].
  destruct (p_load_spec _ _ _ _ EP) as ((Hh & _) & _ & _ & l & X & Hrd & _ & Hres).
  assert (R1 : R s1) by (eapply R_ext; [exact X | apply reads_evok; exact Hrd | exact Hh | exact HR]).
  destruct lr as [[rc|]|]; [|destruct H as [-> _]; exact R1 ..].
  destruct H as [-> _]. unfold after_load. cbv zeta.
  assert (Hrc : rok rc). { apply (Rl_of _ HR k). apply lookup_In. exact Hres. }
  assert (R2 : R (fst (halloc s1 (mkObj k rc)))) by (apply R_halloc; [exact R1 | exact Hrc]).
  destruct (_ =? _)%Z; [exact R2|]. eapply R_same; [| | | |apply R_compact; exact R2]; reflexivity.
Qed.

Lemma R_cache_set s o s' b : cache_set s o = (s', b) -> R s ->
  (forall ob, hget s o = Some ob -> rok (set_access (o_rec ob) (now s))) -> R s'.
Proof.
  intros E HR Ht. apply cache_set_spec in E. destruct E as [(_ & -> & _)|(ob & Ho & E)]; [exact HR|]. cbv zeta in E.
  eapply R_p_save; [exact E | | exact (Ht ob Ho)].
  assert (R1 : R (hput s o (touch s ob))) by (apply R_hput; [exact HR | exact (Ht ob Ho)]).
  match goal with |- R (if ?c then _ else _) => destruct c end; [apply R_compact; exact R1|].
  eapply R_same; [| | | |apply R_compact; exact R1]; reflexivity.
Qed.

Lemma now_cache_set s o s' b : cache_set s o = (s', b) -> now s' = now s.
Proof.
  intros E. apply cache_set_spec in E. destruct E as [(_ & -> & _)|(ob & Ho & E)]; [reflexivity|]. cbv zeta in E.
  destruct (p_save_spec _ _ _ _ _ E) as (_ & X & _). rewrite (x_now _ _ _ X).
  set (s1 := hput s o (touch s ob)).
  assert (H : forall req, now (compact s1 req) = now s).
  { intro req. destruct (compact_flushes s1 req) as (l & X1 & _). rewrite (x_now _ _ _ X1). reflexivity. }
  match goal with |- now (if ?c then _ else _) = _ => destruct c end; [apply H | cbn; apply H].
Qed.

Lemma R_cache_delete s k s' b : cache_delete s k = (s', b) -> R s -> R s'.
Proof. unfold cache_delete. intros E HR. eapply R_p_delete; [exact E|]. eapply R_same; [| | | |exact HR]; reflexivity. Qed.

Lemma R_purge_saves : forall entries s, R s -> R (purge_saves s entries).
Proof.
  induction entries as [|[k o] t IH]; intros s HR; cbn [purge_saves]; [exact HR|].
  destruct (hget s o) as [ob|] eqn:Ho; [|apply IH; exact HR].
  destruct (p_save s k (o_rec ob)) as [s1 b] eqn:E. cbn [fst]. apply IH.
  eapply R_p_save; [exact E | exact HR | exact (Rh_of _ HR o ob Ho)].
Qed.

Lemma R_purge s : R s -> R (purge s).
Proof. intro HR. unfold purge. eapply R_same; [| | | |apply R_purge_saves; exact HR]; reflexivity. Qed.

(* ------------------------------------------------------ reference fields *)

(* every object stays where it is and keeps its reference field *)
Definition kref (s s' : st) : Prop :=
  forall o ob, hget s o = Some ob -> exists ob', hget s' o = Some ob' /\ r_ref (o_rec ob') = r_ref (o_rec ob).

Lemma kref_refl s : kref s s.
Proof. intros o ob H. exists ob. auto. Qed.
Lemma kref_trans a b c : kref a b -> kref b c -> kref a c.
Proof. intros A B o ob H. destruct (A o ob H) as (ob1 & H1 & E1). destruct (B o ob1 H1) as (ob2 & H2 & E2). exists ob2. split; [exact H2 | congruence]. Qed.
Lemma kref_stable s s' : stable s s' -> kref s s'.
Proof. intros S o ob H. destruct (S o ob H) as (ob' & H' & E & _). exists ob'. auto. Qed.
Lemma kref_hupd s o f : (forall r, r_ref (f r) = r_ref r) -> kref s (hupd s o f).
Proof.
  intros Hf o' ob' Ho'. unfold hupd. destruct (hget s o) as [ob|] eqn:Ho; [|exists ob'; auto].
  rewrite hget_hput, Ho. destruct (Nat.eqb o o') eqn:E; [|exists ob'; auto].
  apply Nat.eqb_eq in E. subst o'. rewrite Ho in Ho'. injection Ho' as <-. eexists. split; [reflexivity | apply Hf].
Qed.

(* a session's object, present *)
Definition nrp (s : st) (o : nat) : Prop := exists ob, hget s o = Some ob /\ r_ref (o_rec ob) = None.

Lemma nrp_kref s s' o : kref s s' -> nrp s o -> nrp s' o.
Proof. intros K (ob & Ho & Hr). destruct (K o ob Ho) as (ob' & Ho' & E). exists ob'. split; [exact Ho' | congruence]. Qed.

(* ----------------------------------------------------------------- the API *)

Lemma R_regenerate s o s' res cks : regenerate s o = (s', res, cks) -> R s -> nrp s o -> R s'.
Proof.
  intros E HR (ob & Ho & Hr). destruct (regenerate_spec _ _ _ _ _ _ Ho E) as (s2 & b1 & EC1 & Ho1 & HS). cbv zeta in HS.
  assert (R1 : R (hput (fst (gen_id s)) o (mkObj (KGen (supply s)) (set_created (o_rec ob) (now s))))).
  { apply R_hput; [apply R_gen; exact HR | apply rok_nonref; exact Hr]. }
  assert (R2 : R s2).
  { eapply R_cache_set; [exact EC1 | exact R1|]. intros ob' Ho'. rewrite Ho1 in Ho'. injection Ho' as <-. apply rok_nonref. exact Hr. }
  destruct b1; [|destruct HS as (-> & _); exact R2].
  destruct HS as (Ho2 & s4 & b2 & EC2 & HS).
  assert (N2 : now s2 = now s) by (rewrite (now_cache_set _ _ _ _ EC1); reflexivity).
  match type of EC2 with cache_set (fst (halloc s2 ?v)) _ = _ =>
    assert (Hro : rok (o_rec v)) by (intros n En Hn; cbn in En; injection En as <-; cbn; left; apply (proj2 (proj1 HR)); lia);
    assert (R3 : R (fst (halloc s2 v))) by (apply R_halloc; [exact R2 | exact Hro]);
    assert (R4 : R s4) by
      (eapply R_cache_set; [exact EC2 | exact R3|]; intros ob' Ho'; rewrite hget_halloc, Nat.eqb_refl in Ho';
       injection Ho' as <-; intros n En Hn; cbn in En; injection En as <-; cbn; left; apply (proj2 (proj1 HR)); lia)
  end.
  destruct b2; destruct HS as (-> & _); [eapply R_same; [| | | |exact R4]; reflexivity | exact R4].
Qed.

Lemma R_create s q s' res cks : create_session s q = (s', res, cks) -> R s ->
  R s' /\ forall o, res = Ok (Some o) -> nrp s' o.
Proof.
  unfold create_session. cbn [gen_id]. unfold halloc. cbn [fst snd]. intros E HR.
  match type of E with context [cache_set ?a ?b] => destruct (cache_set a b) as [s3 ok] eqn:Ec end.
  match type of Ec with cache_set (set_heap ?s1 (heap ?s1 ++ [?v])) _ = _ =>
    assert (Hg : hget (set_heap s1 (heap s1 ++ [v])) (length (heap s1)) = Some v) by (apply (hget_halloc_new s1 v));
    assert (R2 : R (set_heap s1 (heap s1 ++ [v])))
      by (apply (R_halloc s1 v); [exact (R_gen _ HR) | apply rok_nonref; reflexivity])
  end.
  assert (R3 : R s3).
  { eapply R_cache_set; [exact Ec | exact R2|]. intros ob' Ho'.
    pose proof (eq_trans (eq_sym Hg) Ho') as X. injection X as <-. apply rok_nonref. reflexivity. }
  assert (s' = s3) by (destruct ok; cbn [negb] in E; injection E as <- _ _; reflexivity). subst s'.
  split; [exact R3|]. intros o Eo. destruct ok; cbn [negb] in E; injection E as <- _; [|discriminate].
  injection Eo as <-. eapply nrp_kref; [apply kref_stable; eapply stable_cache_set; exact Ec|].
  eexists. split; [exact Hg | reflexivity].
Qed.

Lemma R_destroy s o hc s' res cks : destroy s o hc = (s', res, cks) -> R s -> R s'.
Proof.
  unfold destroy. destruct (hget s o) as [ob|]; [|intro H; injection H as <- _ _; exact (fun x => x)].
  destruct (cache_delete s (o_id ob)) as [s1 b] eqn:E. intros H HR.
  assert (s' = s1) by (destruct b; cbn [negb] in H; injection H as <- _ _; reflexivity). subst s'.
  eapply R_cache_delete; eassumption.
Qed.

Lemma R_follow : forall fuel s o lk s' res, follow fuel s o lk = (s', res) -> R s ->
  R s' /\ forall o' lk', res = Ok (o', lk') -> nrp s' o'.
Proof.
  induction fuel as [|f IH]; intros s o lk s' res E HR; cbn [follow] in E; destruct (hget s o) as [ob|] eqn:Ho.
  - destruct (r_ref (o_rec ob)) eqn:Er; injection E as <- <-; (split; [exact HR|]); intros o' lk' X; try discriminate.
    injection X as <- <-. exists ob. auto.
  - injection E as <- <-. split; [exact HR | discriminate].
  - destruct (r_ref (o_rec ob)) as [t|] eqn:Er.
    + destruct (cache_get s t) as [s1 g] eqn:EG. pose proof (R_cache_get _ _ _ _ EG HR) as R1.
      destruct g as [[o1|]|]; [eapply IH; eassumption | |]; injection E as <- <-; (split; [exact R1 | discriminate]).
    + injection E as <- <-. split; [exact HR|]. intros o' lk' X. injection X as <- <-. exists ob. auto.
  - injection E as <- <-. split; [exact HR | discriminate].
Qed.

Lemma R_start_none s q cks0 s' res cks : start_none s q cks0 = (s', res, cks) -> R s ->
  R s' /\ forall o, res = Ok (Some o) -> nrp s' o.
Proof.
  unfold start_none. destruct (q_create q).
  - destruct (create_session s q) as [[s1 r1] c1] eqn:E. intros H HR. injection H as <- <- _. eapply R_create; eassumption.
  - intros H HR. injection H as <- <- _. split; [exact HR | discriminate].
Qed.

Lemma R_start_finish s q k o isref cks0 s' res cks :
  start_finish s q k o isref cks0 = (s', res, cks) -> R s -> (isref = false -> nrp s o) ->
  R s' /\ forall o', res = Ok (Some o') -> nrp s' o'.
Proof.
  unfold start_finish. intros E HR Hn.
  assert (H : exists s1 fr, (if isref then follow (S (N.to_nat (supply s))) s o k else (s, Ok (o, k))) = (s1, fr) /\
            R s1 /\ forall o' lk', fr = Ok (o', lk') -> nrp s1 o').
  { destruct isref.
    - destruct (follow _ s o k) as [s1 fr] eqn:EF. exists s1, fr. split; [reflexivity|]. eapply R_follow; eassumption.
    - exists s, (Ok (o, k)). split; [reflexivity|]. split; [exact HR|]. intros o' lk' X. injection X as <- <-. apply Hn. reflexivity. }
  destruct H as (s1 & fr & Efr & R1 & Hfr). rewrite Efr in E.
  destruct fr as [[o' lk']|e|e]; injection E as <- <- _; try (split; [exact R1 | discriminate]).
  pose proof (Hfr o' lk' eq_refl) as (ob & Ho & Hr).
  split.
  - apply R_hupd; [exact R1|]. intros ob' Ho'. rewrite Ho in Ho'. injection Ho' as <-. apply rok_nonref. exact Hr.
  - intros o2 X. injection X as <-. eapply nrp_kref; [apply kref_hupd; intro r; destruct r; reflexivity|]. exists ob. auto.
Qed.

Theorem R_start s q s' res cks : start s q = (s', res, cks) -> R s ->
  R s' /\ forall o, res = Ok (Some o) -> nrp s' o.
Proof.
  rewrite start_unfold. intros E HR.
  destruct (q_cookie q) as [|k|n]; try (eapply R_start_none; eassumption).
  destruct (cache_get s k) as [s1 g] eqn:EG. pose proof (R_cache_get _ _ _ _ EG HR) as R1.
  destruct g as [[o1|]|]; [|eapply R_start_none; eassumption | injection E as <- <- _; split; [exact R1 | discriminate]].
  unfold start_found in E. destruct (hget s1 o1) as [ob|] eqn:Ho; [|injection E as <- <- _; split; [exact R1 | discriminate]].
  destruct (negb (rec_valid (conf s) (o_rec ob) q (now s1))).
  { destruct (destroy s1 o1 (had_cookie q)) as [[s2 r2] dck] eqn:ED. pose proof (R_destroy _ _ _ _ _ _ ED R1) as R2.
    destruct r2 as [[]|e|e]; [eapply R_start_none; eassumption | |]; injection E as <- <- _; (split; [exact R2 | discriminate]). }
  destruct (is_ref (o_rec ob)) eqn:Eref; cbn [negb andb] in E.
  - destruct (_ <=? _)%Z.
    + destruct (cache_delete s1 k) as [s2 b] eqn:ED. injection E as <- <- _.
      split; [eapply R_cache_delete; eassumption | discriminate].
    + eapply R_start_finish; [exact E | exact R1 | discriminate].
  - assert (Hn1 : nrp s1 o1).
    { exists ob. split; [exact Ho|]. unfold is_ref in Eref. destruct (r_ref (o_rec ob)); [discriminate | reflexivity]. }
    destruct (_ <=? _)%Z.
    + destruct (regenerate s1 o1) as [[s2 r2] rck] eqn:ER. pose proof (R_regenerate _ _ _ _ _ ER R1 Hn1) as R2.
      destruct r2 as [[]|e|e]; [|injection E as <- <- _; split; [exact R2 | discriminate] ..].
      eapply R_start_finish; [exact E | exact R2|]. intros _.
      eapply nrp_kref; [apply kref_stable; eapply stable_regenerate; exact ER | exact Hn1].
    + destruct (_ <=? _)%Z.
      * destruct (cache_delete s1 k) as [s2 b] eqn:ED. injection E as <- <- _.
        split; [eapply R_cache_delete; eassumption | discriminate].
      * eapply R_start_finish; [exact E | exact R1 | intros _; exact Hn1].
Qed.

(* ------------------------------------------------------ handler operations *)

Lemma R_save_direct s o s' r : save_direct s o = (s', r) -> R s -> R s'.
Proof.
  unfold save_direct. destruct (hget s o) as [ob|] eqn:Ho; [|intros H HR; injection H as <- _; exact HR].
  destruct (p_save s (o_id ob) (o_rec ob)) as [s1 b] eqn:E. intros H HR. injection H as <- _.
  eapply R_p_save; [exact E | exact HR | exact (Rh_of _ HR o ob Ho)].
Qed.

Lemma R_hupd_keep s o f : R s -> (forall r, rok r -> rok (f r)) -> R (hupd s o f).
Proof. intros HR Hf. apply R_hupd; [exact HR|]. intros ob Ho. apply Hf. exact (Rh_of _ HR o ob Ho). Qed.

Lemma R_logout s o s' r : logout s o = (s', r) -> R s -> nrp s o -> R s'.
Proof.
  intros E HR (ob0 & H0 & Hr0). unfold logout in E. rewrite H0 in E.
  destruct (r_user (o_rec ob0)); [|injection E as <- _; exact HR].
  eapply R_save_direct; [exact E|]. apply R_hupd; [exact HR|]. intros ob' Ho'. rewrite H0 in Ho'. injection Ho' as <-.
  apply rok_nonref. exact Hr0.
Qed.

Lemma nrp_touch s o : nrp s o -> forall ob, hget s o = Some ob -> rok (set_access (o_rec ob) (now s)).
Proof. intros (ob0 & H0 & Hr) ob Ho. rewrite H0 in Ho. injection Ho as <-. apply rok_nonref. exact Hr. Qed.

Lemma R_login s o u s' res cks : login s o u false = (s', res, cks) -> R s -> nrp s o -> R s'.
Proof.
  unfold login. destruct (logout s o) as [s0 r0] eqn:EL. cbv beta iota zeta. intros E HR Hn.
  pose proof (R_logout _ _ _ _ EL HR Hn) as R0.
  pose proof (nrp_kref _ _ _ (kref_stable _ _ (stable_logout _ _ _ _ EL)) Hn) as Hn0.
  set (s2 := hupd s0 o (fun r => set_user r (Some u))) in *.
  assert (R2 : R s2).
  { apply R_hupd; [exact R0|]. intros ob' Ho'. destruct Hn0 as (ob0 & H0 & Hr0). rewrite H0 in Ho'. injection Ho' as <-.
    apply rok_nonref. exact Hr0. }
  assert (Hn2 : nrp s2 o) by (eapply nrp_kref; [apply kref_hupd; intro r; destruct r; reflexivity | exact Hn0]).
  destruct (cache_set s2 o) as [s3 ok] eqn:EC.
  pose proof (R_cache_set _ _ _ _ EC R2 (nrp_touch _ _ Hn2)) as R3.
  pose proof (nrp_kref _ _ _ (kref_stable _ _ (stable_cache_set _ _ _ _ EC)) Hn2) as Hn3.
  destruct ok; cbn [negb] in E; [|injection E as <- _ _; exact R3].
  destruct (regenerate s3 o) as [[s4 r2] ck4] eqn:ER. pose proof (R_regenerate _ _ _ _ _ ER R3 Hn3) as R4.
  destruct r2; injection E as <- _ _; exact R4.
Qed.

(* no exclusive LogIn *)
Definition noex (op : sop) : Prop := match op with SLogIn _ true => False | _ => True end.

Lemma data_of_hget s o d : data_of s o = Some d -> exists ob, hget s o = Some ob.
Proof. unfold data_of. destruct (hget s o) as [ob|]; [eauto | discriminate]. Qed.

Lemma R_do_sop s o hc op s' r cks : do_sop s o hc op = (s', r, cks) -> noex op -> R s -> nrp s o ->
  R s' /\ kref s s'.
Proof.
  intros E Hop HR Hn.
  assert (Hd : forall d, kref s (hupd s o (fun r0 => set_data r0 d)) /\ R (hupd s o (fun r0 => set_data r0 d))).
  { intro d. split; [apply kref_hupd; intro r0; destruct r0; reflexivity | apply R_hupd_keep; [exact HR | intros r0; apply rok_set_data]]. }
  destruct op as [k v|k|k|k|u ex| | |]; cbn [do_sop] in E.
  - destruct (data_of s o) as [d|]; [|injection E as <- _ _; split; [exact HR | apply kref_refl]].
    destruct (Hd (Some (kv_set d k v))) as [K1 R1].
    destruct (save_direct _ o) as [s2 r2] eqn:ES. injection E as <- _ _.
    split; [eapply R_save_direct; eassumption | eapply kref_trans; [exact K1 | apply kref_stable; eapply stable_save_direct; exact ES]].
  - assert (H1 : kref s (match data_of s o with Some d => hupd s o (fun r0 => set_data r0 (Some (kv_del d k))) | None => s end) /\
                 R (match data_of s o with Some d => hupd s o (fun r0 => set_data r0 (Some (kv_del d k))) | None => s end)).
    { destruct (data_of s o) as [d|]; [apply Hd | split; [apply kref_refl | exact HR]]. }
    destruct H1 as [K1 R1]. destruct (save_direct _ o) as [s2 r2] eqn:ES. injection E as <- _ _.
    split; [eapply R_save_direct; eassumption | eapply kref_trans; [exact K1 | apply kref_stable; eapply stable_save_direct; exact ES]].
  - injection E as <- _ _. split; [exact HR | apply kref_refl].
  - destruct (data_of s o) as [d|]; [|injection E as <- _ _; split; [exact HR | apply kref_refl]].
    destruct (kv_get d k); [|injection E as <- _ _; split; [exact HR | apply kref_refl]].
    destruct (Hd (Some (kv_del d k))) as [K1 R1].
    destruct (save_direct _ o) as [s2 r2] eqn:ES. injection E as <- _ _.
    split; [eapply R_save_direct; eassumption | eapply kref_trans; [exact K1 | apply kref_stable; eapply stable_save_direct; exact ES]].
  - destruct ex; [contradiction|]. destruct (login s o u false) as [[s1 r1] c1] eqn:EL. injection E as <- _ _.
    split; [eapply R_login; eassumption | apply kref_stable; eapply stable_login; exact EL].
  - destruct (logout s o) as [s1 r1] eqn:EL. injection E as <- _ _.
    split; [eapply R_logout; eassumption | apply kref_stable; eapply stable_logout; exact EL].
  - destruct (regenerate s o) as [[s1 r1] c1] eqn:ER. injection E as <- _ _.
    split; [eapply R_regenerate; eassumption | apply kref_stable; eapply stable_regenerate; exact ER].
  - destruct (destroy s o hc) as [[s1 r1] c1] eqn:ED. injection E as <- _ _.
    split; [eapply R_destroy; eassumption | apply kref_stable; eapply stable_destroy; exact ED].
Qed.

(* ------------------------------------------------- clean-ups, scripts, steps *)

Lemma R_fire : forall l s s' rest, fire s l = (s', rest) -> R s -> R s'.
Proof.
  induction l as [|[due k] t IH]; intros s s' rest E HR; cbn [fire] in E; [injection E as <- _; exact HR|].
  destruct (due <=? now s)%Z.
  - destruct (cache_delete s k) as [s1 b] eqn:ED. eapply IH; [exact E | eapply R_cache_delete; eassumption].
  - destruct (fire s t) as [s1 rest1] eqn:EF. injection E as <- _. eapply IH; eassumption.
Qed.

Lemma R_fire_due s : R s -> R (fire_due s).
Proof.
  intro HR. unfold fire_due. destruct (fire (set_pending s []) (pending s)) as [s1 rest] eqn:EF.
  eapply R_same; [| | | |eapply R_fire; [exact EF | eapply R_same; [| | | |exact HR]; reflexivity]]; reflexivity.
Qed.

Lemma R_run_script hc : forall ops s o s' rs cks, run_script s o hc ops = (s', rs, cks) -> Forall noex ops ->
  R s -> nrp s o -> R s'.
Proof.
  induction ops as [|op t IH]; intros s o s' rs cks E Hops HR Hn; cbn [run_script] in E; [injection E as <- _ _; exact HR|].
  inversion Hops as [|? ? Hop Ht]; subst.
  destruct (do_sop s o hc op) as [[s1 r1] c1] eqn:ED. destruct (R_do_sop _ _ _ _ _ _ _ ED Hop HR Hn) as [R1 K1].
  pose proof (R_fire_due s1 R1) as R2.
  assert (Hn2 : nrp (fire_due s1) o).
  { eapply nrp_kref; [apply kref_stable; apply stable_fire_due|]. eapply nrp_kref; eassumption. }
  match type of E with (if ?c then _ else _) = _ => destruct c end; [injection E as <- _ _; exact R2|].
  destruct (run_script (fire_due s1) o hc t) as [[s3 rs3] c3] eqn:ER. injection E as <- _ _. eapply IH; eassumption.
Qed.

Lemma R_req_body s1 q script s3 rc st0 sr fin cks :
  req_body s1 q script = (s3, rc, st0, sr, fin, cks) -> Forall noex script -> R s1 -> R s3.
Proof.
  unfold req_body. destruct (start s1 q) as [[s2 res] ck0] eqn:ES. intros E Hsc HR.
  destruct (R_start _ _ _ _ _ ES HR) as [R2 Hn]. pose proof (R_fire_due s2 R2) as R2'.
  destruct res as [[o|]|e|e]; cbv zeta in E; try (injection E as <- _ _ _ _ _; exact R2').
  destruct (run_script (fire_due s2) o (had_cookie q) script) as [[s4 sr4] c4] eqn:ER. injection E as <- _ _ _ _ _.
  eapply R_run_script; [exact ER | exact Hsc | exact R2'|].
  eapply nrp_kref; [apply kref_stable; apply stable_fire_due | apply Hn; reflexivity].
Qed.

(* the hops of the partial theorem: crash-free requests (any fault plan) whose
   scripts contain no exclusive LogIn; no user-wide step; everything else *)
Definition nuw (h : hop) : Prop :=
  match h with
  | HReq r => rq_crash r = None /\ Forall noex (rq_script r)
  | HLogoutUser _ _ _ | HRefreshUser _ _ _ => False
  | _ => True
  end.

Lemma R_now s t : (n1 <= m)%N -> R s -> R (set_now s t).
Proof. intros Hm ((A1 & A2) & B & C). split; [split; [exact A1 | cbn; intro; lia]|]. split; [exact B | exact C]. Qed.

Lemma R_step w h : nuw h -> (forall d, h = HWait d -> (n1 <= m)%N) -> R (w_st w) -> R (w_st (fst (step w h))).
Proof.
  intros Hh Hw HR. destruct h as [r|d|tbl pl| | |u tbl pl|u tbl pl|cf]; cbn [nuw] in Hh; try contradiction.
  - destruct Hh as [Hcr Hsc]. rewrite step_req_eq. cbv zeta.
    match goal with |- context [req_body ?a ?b ?c] => destruct (req_body a b c) as [[[[[s3 rc] st0] sr] fin] cks] eqn:EB end.
    rewrite Hcr. cbn [fst w_st]. eapply R_same; [| | | |eapply R_req_body; [exact EB | exact Hsc|]]; try reflexivity.
    eapply R_same; [| | | |exact HR]; reflexivity.
  - cbn [step fst w_st]. apply R_fire_due. apply R_now; [exact (Hw d eq_refl)|]. eapply R_same; [| | | |exact HR]; reflexivity.
  - cbn [step fst w_st]. eapply R_same; [| | | |apply R_purge; eapply R_same; [| | | |exact HR]]; reflexivity.
  - cbn [step fst w_st]. eapply R_same; [| | | |exact HR]; reflexivity.
  - cbn [step fst w_st]. eapply R_same; [| | | |exact HR]; reflexivity.
  - cbn [step fst w_st]. eapply R_same; [| | | |exact HR]; reflexivity.
Qed.


End Instant.
