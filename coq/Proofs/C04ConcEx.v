(* Non-vacuity of C04C_serialised and C04C_grace0 (Proofs/C04Conc2.v,
   C04Conc3.v): a reachable world in which a session's ID is due, three calls
   presenting it (the browser's own request and two more carrying the same old
   cookie), JSON codec; the hypotheses hold and the conclusions are read off by
   computation. Likewise with grace period 0. *)
From Sessions Require Import Model.Base Model.Sess Model.Hist Proofs.SessDefs
  Proofs.HistInv Proofs.HistInv2 Proofs.HistInv3 Proofs.HistLift Proofs.HistLift2 Proofs.HistLift3
  Proofs.HistLift4 Proofs.HistLift5 Proofs.HistLift6 Proofs.HistLift7 Proofs.HistLift8 Proofs.HistLift9
  Proofs.C04Conc2 Proofs.C04Conc3.
From Sessions Require Proofs.RotateLaws2 Proofs.RotateLaws3 Proofs.StartLaws4 Proofs.C01Spec.
From Coq Require Import Lia.

(* SessionExpiry 1000 s, SessionIDExpiry 60 s, grace g, cache of 10, JSON *)
Definition cE (g : Z) : cfg := mkCfg 1000000000000 60000000000 g max64 10 1 true true.

Definition rqE (c : N) (p : present) (port : N) : reqstep :=
  mkReqStep c p false (V4 1 2 3 4 port) 7 [] [] [] None.

Definition preE : list hop :=
  [HReq (mkReqStep 1 PJar true (V4 1 2 3 4 5) 7 [SSet 1 2; SLogIn (7, 1)%N false] [] [] None);  (* KGen 0, then KGen 1 by LogIn *)
   HWait 61000000000].                                                                    (* KGen 1 is due *)

Definition wE (g : Z) : world := reach (cE g) preE.
Definition kE : key := KGen 1.
Definition r1E : reqstep := rqE 1 PJar 5.
Definition laterE : list (Z * reqstep) :=
  [(0%Z, rqE 1 (PForge (CKey kE)) 6); (1500000000%Z, rqE 2 (PForge (CKey kE)) 9)].

Lemma wE_LI g : LI (w_st (wE g)).
Proof. apply LI_reach'; repeat constructor. Qed.

Example serialised_ex :
  let w := wE 5000000000 in
  exists rc,
    LI (w_st w) /\ plain_req r1E /\ presents w r1E = CKey kE /\
    L (w_st w) kE = Some rc /\ r_ref rc = None /\
    RotateLaws3.valid_for (conf (w_st w)) rc (now (w_st w)) (req_of w r1E) = true /\
    (c_idexpiry (conf (w_st w)) <= since (r_created rc) (now (w_st w)))%Z /\
    (0 < c_grace (conf (w_st w)))%Z /\
    later_ok kE rc (now (w_st w)) (supply (w_st w)) (conf (w_st w)) (fst (step w (HReq r1E))) laterE /\
    C01Spec.content_of rc = ([(1, 2)]%N, Some 7%N).
Proof.
  cbv zeta. eexists. split; [apply wE_LI|]. split; [repeat split|]. split; [vm_compute; reflexivity|].
  split; [vm_compute; reflexivity|]. split; [reflexivity|]. split; [vm_compute; reflexivity|].
  split; [vm_compute; discriminate|]. split; [vm_compute; reflexivity|]. split; [|vm_compute; reflexivity].
  unfold laterE. cbn [later_ok].
  split; [lia|]. split; [vm_compute; reflexivity|]. split; [repeat split|]. split; [vm_compute; reflexivity|].
  split; [intros rk [-> | ->]; split; vm_compute; reflexivity|].
  split; [lia|]. split; [vm_compute; reflexivity|]. split; [repeat split|]. split; [vm_compute; reflexivity|].
  split; [intros rk [-> | ->]; split; vm_compute; reflexivity|]. exact Logic.I.
Qed.

(* the later calls of laterE in the plain terms of serialised_simple *)
Example serialised_simple_ex :
  let w := wE 5000000000 in
  exists rc, L (w_st w) kE = Some rc /\
    Forall (acc_req kE rc (conf (w_st w))) (map snd laterE) /\
    delays_ok (conf (w_st w)) 0 (map fst laterE).
Proof.
  cbv zeta. eexists. split; [vm_compute; reflexivity|]. split.
  - repeat constructor.
  - cbn [map fst laterE delays_ok]. repeat split; vm_compute; try reflexivity; discriminate.
Qed.

(* what the three calls and the waits between them report: result, cookies,
   ID and content of the session returned, IDs drawn in the step, IDs drawn so far *)
Example serialised_run_ex :
  map (fun o => (ob_res o, ob_cookies o,
                 option_map (fun x => (fst x, C01Spec.content_of (snd x))) (ob_start o),
                 dlist (ob_evs o), ob_drawn o))
      (run_from (wE 5000000000) (HReq r1E :: later_hops laterE)) =
  [(RSess, [CkLive (KGen 2)], Some (KGen 2, ([(1, 2)]%N, Some 7%N)), [2%N], 3%N);
   (RVoid, [], None, [], 3%N);
   (RSess, [CkLive (KGen 2)], Some (KGen 2, ([(1, 2)]%N, Some 7%N)), [], 3%N);
   (RVoid, [], None, [], 3%N);
   (RSess, [CkLive (KGen 2)], Some (KGen 2, ([(1, 2)]%N, Some 7%N)), [], 3%N)].
Proof. vm_compute. reflexivity. Qed.

(* grace period 0: the first call rotates, the later ones find the ID gone *)
Example grace0_ex :
  let w := wE 0 in
  exists rc,
    LI (w_st w) /\ plain_req r1E /\ presents w r1E = CKey kE /\
    L (w_st w) kE = Some rc /\ r_ref rc = None /\
    RotateLaws3.valid_for (conf (w_st w)) rc (now (w_st w)) (req_of w r1E) = true /\
    (c_idexpiry (conf (w_st w)) <= since (r_created rc) (now (w_st w)))%Z /\
    c_grace (conf (w_st w)) = 0%Z.
Proof.
  cbv zeta. eexists. split; [apply wE_LI|]. split; [repeat split|]. split; [vm_compute; reflexivity|].
  split; [vm_compute; reflexivity|]. split; [reflexivity|]. split; [vm_compute; reflexivity|].
  split; [vm_compute; discriminate | vm_compute; reflexivity].
Qed.

Example grace0_run_ex :
  map (fun o => (ob_res o, ob_cookies o, option_map fst (ob_start o), dlist (ob_evs o), ob_drawn o))
      (run_from (wE 0) (HReq r1E :: later_hops laterE)) =
  [(RSess, [CkLive (KGen 2)], Some (KGen 2), [2%N], 3%N);
   (RVoid, [], None, [], 3%N);
   (RNone, [CkDelete], None, [], 3%N);
   (RVoid, [], None, [], 3%N);
   (RNone, [CkDelete], None, [], 3%N)].
Proof. vm_compute. reflexivity. Qed.

(* Why the theorems say "the session under the same ID with the same data and
   user" and not "the same object": three calls of Start presenting the due
   ID kE one after the other, on the state itself (heap indices are not part of
   an observation). With a cache of 10 (or 2) entries all three return one
   heap object; with a cache of 1 entry, or none, each returns a different
   object, all carrying the ID KGen 2: looking up the replaced ID pushes the
   session out of a one-slot cache, and the next call loads it afresh. *)
Definition cM (m : Z) : cfg := mkCfg 1000000000000 60000000000 5000000000 max64 m 1 true true.

Definition three_calls (m : Z) : list (option (nat * option key)) :=
  let q := mkReq (CKey kE) false (V4 1 2 3 4 5) 7 in
  let '(s1, r1, _) := start (w_st (reach (cM m) preE)) q in
  let '(s2, r2, _) := start s1 q in
  let '(s3, r3, _) := start s2 q in
  map (fun r => match r with
                | Ok (Some o) => Some (o, option_map o_id (hget s3 o))
                | _ => None
                end) [r1; r2; r3].

Example same_object_ex :
  three_calls 10 = [Some (0, Some (KGen 2)); Some (0, Some (KGen 2)); Some (0, Some (KGen 2))] /\
  three_calls 2 = [Some (0, Some (KGen 2)); Some (0, Some (KGen 2)); Some (0, Some (KGen 2))] /\
  three_calls 1 = [Some (2, Some (KGen 2)); Some (4, Some (KGen 2)); Some (6, Some (KGen 2))] /\
  three_calls 0 = [Some (2, Some (KGen 2)); Some (5, Some (KGen 2)); Some (7, Some (KGen 2))].
Proof. vm_compute. repeat split. Qed.
