(* C19G: the hand-written model Model/Ids.v computes the specifications of
   Proofs/IdsFnEquiv.v, hence equals the functions translated from ids.go
   piece by piece and as a whole: every C19 theorem about the model is a
   theorem about the translation. Unlike IdsFnEquiv.v this file depends on
   Model/Ids.v, whose literals are those of Gen/Consts.v: it stops compiling
   when the text pins of C19 (C19_source_constants) fail. *)
From Sessions Require Import Model.Base Model.Ids Gen.Consts Gen.IdsFn
  Proofs.BaseLemmas Proofs.IdsLaws Proofs.IdsLaws2 Proofs.IdsFnEquiv.
From Coq Require Import Lia ZifyBool ZifyNat ZifyN Zdiv Znumtheory Setoid Morphisms.
Local Open Scope N_scope.

(* ---- the model computes the specifications ---- *)

Lemma cuid_timestamp_is_spec (sec : Z) (nsec : N) : cuid_timestamp sec nsec = spec_timestamp sec nsec.
Proof.
  apply spec_timestamp_char; [apply cuid_timestamp_lt|].
  unfold cuid_timestamp. rewrite cuid_mask_ones, N.land_ones. change (2 ^ 40) with 1099511627776.
  change (lit 0) with 1000. change (lit 1) with 1000000. change ids_reference_date with 1483228800000.
  unfold u64_sub, u64, u64_of_int64. change pow64 with m64.
  change (Z.to_N (sec mod Z.of_N m64)) with (sconv m64 sec).
  unfold cg. rewrite N2Z.inj_mod. change (Z.of_N 1099511627776) with P40. rewrite Z.mod_mod by discriminate.
  match goal with |- (?a mod P40 = ?b mod P40)%Z => change (cg P40 a b) end.
  set (K := (nsec mod m64) / 1000000). cong40.
  fold K.
  unfold ts_spec, cg. f_equal; zlits; lia.
Qed.

Lemma mac_hash_is_spec (mac : bytes) : mac_hash mac = spec_machash mac.
Proof.
  unfold mac_hash, spec_machash. apply (fold_left_ext_inv _ _ (fun h => h < 65536)).
  - intros h b Hh. apply (cg_small_eq 65536); [unfold u16, pow16; apply N.mod_lt; discriminate | apply hstep_lt |].
    change (Z.of_N 65536) with P16. unfold u16, u16_sub, hstep. change pow16 with m16. change (lit 7) with 5.
    change 65536 with m16 at 1.
    cong16. unfold cg. f_equal; zlits; lia.
  - intros h b _. apply hstep_lt.
  - reflexivity.
Qed.

Lemma cuid_bits_is_spec (mac : bytes) (ts lc : N) :
  ts < 1099511627776 -> cuid_bits mac ts lc = spec_bits ts lc (spec_machash mac).
Proof.
  intro Hts. rewrite cuid_bits_spec by exact Hts. rewrite mac_hash_is_spec. reflexivity.
Qed.

Lemma cuid_string_is_spec (bits : N) : cuid_string bits = spec_base62 bits.
Proof.
  unfold cuid_string, spec_base62. change cuid_ndigits with 11%nat.
  assert (H : forall n w acc, b62_loop n w acc = spec_b62 n w acc).
  { induction n as [|n IH]; intros w acc; [reflexivity|]. cbn [b62_loop spec_b62]. rewrite IH. reflexivity. }
  apply H.
Qed.

(* ---- hence: translation = model, piece by piece, on the whole domain ---- *)

(* unix: every int64 (every Z); nanos: every int >= 0 (now.Nanosecond() is in [0, 999999999]) *)
Theorem gen_timestamp_eq (sec : Z) (nsec : N) : gen_timestamp sec (Z.of_N nsec) = cuid_timestamp sec nsec.
Proof. transitivity (spec_timestamp sec nsec); [apply gen_timestamp_spec | symmetry; apply cuid_timestamp_is_spec]. Qed.

Theorem gen_counter_step_eq (st : cuid_state) (ts : N) :
  gen_counter_step (cs_last_time st) (cs_last_counter st) ts =
  (ts, if ts =? cs_last_time st then u64 (cs_last_counter st + 1) else lit 5).
Proof. rewrite gen_counter_step_spec. reflexivity. Qed.

(* every list of numbers, in particular six bytes below 256 *)
Theorem gen_machash_eq (mac : bytes) : gen_machash mac = mac_hash mac.
Proof. transitivity (spec_machash mac); [apply gen_machash_spec | symmetry; apply mac_hash_is_spec]. Qed.

(* timestamp below 2^40 (what gen_timestamp returns), every lastCounter, the hash of any MAC *)
Theorem gen_bits_eq (mac : bytes) (ts lc : N) :
  ts < 1099511627776 -> gen_bits ts lc (gen_machash mac) = cuid_bits mac ts lc.
Proof.
  intro Hts. rewrite gen_machash_spec. rewrite (gen_bits_spec ts lc _ Hts (spec_machash_lt mac)).
  rewrite (cuid_bits_is_spec mac ts lc Hts). reflexivity.
Qed.

Theorem gen_base62_eq (bits : N) : gen_base62 bits = cuid_string bits.
Proof. transitivity (spec_base62 bits); [apply gen_base62_spec | symmetry; apply cuid_string_is_spec]. Qed.

Theorem gen_random_index_eq (b : N) :
  gen_random_chars = ids_rid_chars /\
  gen_random_index b = Z.of_N (b mod ids_rid_modulus) /\
  nth (Z.to_nat (gen_random_index b)) gen_random_chars 0 = rid_symbol b.
Proof.
  destruct (gen_random_index_spec b) as (_ & E & _).
  split; [reflexivity|]. split; [exact E|].
  rewrite E. unfold rid_symbol. change ids_rid_modulus with 62. rewrite <- Z_N_nat, N2Z.id. reflexivity.
Qed.

(* ---- the pieces put together ---- *)

Theorem spec_cuid_is_step (mac : bytes) (st : cuid_state) (sec : Z) (nsec : N) :
  spec_cuid mac (cs_last_time st) (cs_last_counter st) sec nsec =
  let r := cuid_step mac st sec nsec in (cs_last_time (fst r), cs_last_counter (fst r), snd r).
Proof.
  unfold spec_cuid, cuid_step. cbv zeta. cbn [fst snd cs_last_time cs_last_counter].
  rewrite cuid_timestamp_is_spec.
  rewrite (cuid_bits_is_spec mac _ _ (spec_timestamp_lt sec nsec)).
  change (u64 (cs_last_counter st + 1)) with ((cs_last_counter st + 1) mod 18446744073709551616).
  change (lit 5) with 0.
  f_equal; symmetry; apply cuid_string_is_spec.
Qed.

(* the translated whole body of CUID is Model/Ids.v's cuid_step *)
Theorem gen_cuid_body_eq (mac : bytes) (st : cuid_state) (sec : Z) (nsec : N) :
  gen_cuid_body sec (Z.of_N nsec) (cs_last_time st) (cs_last_counter st) mac =
  let r := cuid_step mac st sec nsec in (cs_last_time (fst r), cs_last_counter (fst r), snd r).
Proof. rewrite gen_cuid_body_spec. apply spec_cuid_is_step. Qed.

(* the data flow of CUID's body between the pieces, as Model/CuidConc.v cuts it *)
Definition gen_cuid_step (mac : bytes) (st : cuid_state) (sec : Z) (nsec : N) : cuid_state * bytes :=
  let ts := gen_timestamp sec (Z.of_N nsec) in
  let '(lt, lc) := gen_counter_step (cs_last_time st) (cs_last_counter st) ts in
  ({| cs_last_time := lt; cs_last_counter := lc |}, gen_base62 (gen_bits ts lc (gen_machash mac))).

Theorem gen_cuid_step_eq (mac : bytes) (st : cuid_state) (sec : Z) (nsec : N) :
  gen_cuid_step mac st sec nsec = cuid_step mac st sec nsec.
Proof.
  unfold gen_cuid_step, cuid_step. cbv zeta.
  rewrite gen_timestamp_eq, gen_counter_step_eq.
  rewrite gen_bits_eq by apply cuid_timestamp_lt. rewrite gen_base62_eq. reflexivity.
Qed.

(* ---- so the theorems of C19 about sequences of calls are theorems about the
   translation: a run of the translated step is the model's run ---- *)
Fixpoint gen_run (mac : bytes) (st : cuid_state) (times : list (Z * N)) : list bytes :=
  match times with
  | [] => []
  | (sec, nsec) :: r => snd (gen_cuid_step mac st sec nsec) :: gen_run mac (fst (gen_cuid_step mac st sec nsec)) r
  end.

Theorem gen_run_eq (mac : bytes) (st : cuid_state) (times : list (Z * N)) :
  gen_run mac st times = cuid_run mac st times.
Proof.
  revert st; induction times as [|[sec nsec] r IH]; intro st; [reflexivity|].
  cbn [gen_run cuid_run]. rewrite gen_cuid_step_eq. destruct (cuid_step mac st sec nsec) as [st' id].
  cbn [fst snd]. rewrite IH. reflexivity.
Qed.
