(* C01, history level, part 4: handler operations, the clean-up pass and whole
   handler scripts, against the ghost specification of C01Spec.v (g_script):
   the handler's session holds what the ghost computes, the views of all other
   IDs change only by user-wide logouts (or die). *)
From Sessions Require Import Model.Base Model.Sess Model.Hist Model.Corr Proofs.SessDefs
  Proofs.WriteThrough Proofs.WriteThrough2 Proofs.WriteThrough3 Proofs.WriteThrough4
  Proofs.RotateLaws Proofs.RotateLaws2 Proofs.RotateLaws3 Proofs.RotateLaws5 Proofs.RotateLaws6
  Proofs.C01Spec Proofs.C01Hist Proofs.C01Hist2 Proofs.C01Hist3 Proofs.GetDelShape.
From Coq Require Import Lia.

(* ------------------------------------------------ the ghost, step by step *)

Definition g_op (d : gdata) (op : sop) (r : sres) : gdata :=
  match op, r with
  | SSet k v, SOk => (kv_set (fst d) k v, snd d)
  | SDel k, SOk => (kv_del (fst d) k, snd d)
  | SGetDel k, SVal _ => (kv_del (fst d) k, snd d)
  | SLogIn u _, SOk => (fst d, Some (fst u))
  | SLogOut, SOk => (fst d, None)
  | _, _ => d
  end.

Definition g_ex (op : sop) (r : sres) : list N :=
  match op, r with SLogIn u true, SOk => [fst u] | _, _ => [] end.

Definition is_destroy (op : sop) : bool := match op with SDestroy => true | _ => false end.
Definition is_panic (r : sres) : bool := match r with SPanic _ => true | _ => false end.

Lemma g_script_cons d op ops r rs ex :
  g_script d (op :: ops) (r :: rs) ex =
  if is_destroy op then (None, ex) else g_script (g_op d op r) ops rs (g_ex op r ++ ex).
Proof.
  destruct op as [k v|k|k|k|u e| | |]; cbn [g_script is_destroy g_op g_ex];
    destruct r; try reflexivity; destruct e; reflexivity.
Qed.

(* a GetAndDelete that finds nothing leaves the ghost as it is: kv_del_absent
   (Proofs/GetDelShape.v) *)

Lemma g_script_acc : forall ops d rs ex,
  g_script d ops rs ex = (fst (g_script d ops rs []), snd (g_script d ops rs []) ++ ex).
Proof.
  induction ops as [|op t IH]; intros d rs ex; [reflexivity|].
  destruct rs as [|r rs']; [destruct op; reflexivity|].
  destruct op as [k v|k|k|k|u e| | |]; destruct r; cbn [g_script]; try apply IH; try reflexivity.
  destruct e; [|apply IH]. rewrite (IH _ _ (fst u :: ex)), (IH _ _ [fst u]). cbn [fst snd].
  rewrite <- app_assoc. reflexivity.
Qed.

(* the views after the user-wide logouts of U (latest first) *)
Definition dropl (U : list N) (v : option vw) : option vw := fold_right dropu v U.

Lemma dropl_none U : dropl U None = None.
Proof. induction U as [|u t IH]; [reflexivity|]. cbn. unfold dropl in IH. rewrite IH. reflexivity. Qed.

Lemma dropl_app U V v : dropl (U ++ V) v = dropl U (dropl V v).
Proof. unfold dropl. apply fold_right_app. Qed.

(* --------------------------------------------------- the handler's session *)

(* object o is the handler's session: ID id, not a replaced-ID record, content
   d, held (write-through), and no clean-up is queued for its ID *)
Definition hand (s : st) (o : nat) (id : key) (d : gdata) : Prop :=
  exists ob, hget s o = Some ob /\ o_id ob = id /\ cont (o_rec ob) = (None, d) /\ Held s o /\
             forall dd, ~ In (dd, id) (pending s).

Lemma hupd_id s o ob : hget s o = Some ob -> hupd s o (fun r => r) = s.
Proof.
  intro Hg. rewrite (hupd_eq _ _ _ _ Hg). unfold hput. destruct s as [hp ca sto gr pe nw su cf pl ev t].
  unfold set_heap. cbn. f_equal. unfold hget in Hg. cbn in Hg.
  revert o Hg. induction hp as [|x l IH]; intros [|n] Hg; cbn in *; try discriminate.
  - injection Hg as ->. destruct ob; reflexivity.
  - rewrite IH by exact Hg. reflexivity.
Qed.

Lemma content_data r dd : r_data r = Some dd -> fst (content_of r) = dd.
Proof. intro H. unfold content_of. rewrite H. reflexivity. Qed.

Lemma cont_set_data r x : cont (set_data r (Some x)) = (r_ref r, (x, snd (content_of r))).
Proof. destruct r; reflexivity. Qed.

Lemma hand_drawn s o id d : Inv noex s -> hand s o id d -> key_drawn s id.
Proof.
  intros HI (ob & Hg & Hid & _). destruct (inv_drawn _ _ HI) as (R & _). rewrite <- Hid. apply (R o ob Hg).
Qed.

Lemma do_sop_eff s o id d hc op s' r cks :
  Inv noex s -> GR s -> hand s o id d -> do_sop s o hc op = (s', r, cks) ->
  Inv noex s' /\ GR s' /\ conf s' = conf s /\ (supply s <= supply s')%N /\
  (forall k, k <> id -> key_drawn s k -> view s' k = dropl (g_ex op r) (view s k)) /\
  (forall dd k, In (dd, k) (pending s') -> In (dd, k) (pending s) \/ k = id) /\
  if is_destroy op then cks = [CkDelete] /\ view s' id = None
  else exists id', hand s' o id' (g_op d op r) /\
         ((id' = id /\ cks = []) \/ (id' = KGen (supply s) /\ cks = [CkLive id'])).
Proof.
  intros HI HG HD. pose proof (hand_drawn s o id d HI HD) as Hidd.
  destruct HD as (ob & Hg & Hid & Hc & HH & Hpe).
  assert (Hsame : Inv noex s /\ GR s /\ conf s = conf s /\ (supply s <= supply s)%N /\
                  (forall k, k <> id -> key_drawn s k -> view s k = dropl [] (view s k)) /\
                  (forall dd k, In (dd, k) (pending s) -> In (dd, k) (pending s) \/ k = id)).
  { split; [exact HI|]. split; [exact HG|]. split; [reflexivity|]. split; [lia|].
    split; [intros; reflexivity | intros; left; assumption]. }
  assert (Hrf : r_ref (o_rec ob) = None) by (apply (f_equal fst) in Hc; exact Hc).
  assert (Hd : content_of (o_rec ob) = d) by (apply (f_equal snd) in Hc; exact Hc).
  destruct op as [k v|k|k|k|u e| | |]; cbn [do_sop is_destroy].
  - (* Set *)
    unfold data_of. rewrite Hg. destruct (r_data (o_rec ob)) as [dd|] eqn:Eda.
    + destruct (modify_save_eff s o ob (fun r0 => set_data r0 (Some (kv_set dd k v))) HI HG HH Hg)
        as (s1 & Hs & HI1 & HG1 & HH1 & Hg1 & Hv & Fpe & Fc & Fu & Fn).
      rewrite Hs. intros [= <- <- <-]. cbn [of_result g_ex g_op].
      split; [exact HI1|]. split; [exact HG1|]. split; [exact Fc|]. split; [rewrite Fu; lia|].
      split; [intros k' Hne _; rewrite Hid in Hv; apply (Hv k' Hne)|]. split; [intros dd' k'; rewrite Fpe; auto|].
      exists id. split; [|left; auto]. eexists. split; [exact Hg1|]. split; [exact Hid|].
      split; [|split; [exact HH1 | rewrite Fpe; exact Hpe]].
      cbn [o_rec]. rewrite cont_set_data, Hrf, <- Hd, (content_data _ _ Eda). reflexivity.
    + intros [= <- <- <-]. cbn [g_ex g_op].
      destruct Hsame as (A & B & C & D & E & F). repeat (split; [assumption|]).
      exists id. split; [|left; auto]. exists ob. auto.
  - (* Delete *)
    unfold data_of. rewrite Hg. destruct (r_data (o_rec ob)) as [dd|] eqn:Eda.
    + destruct (modify_save_eff s o ob (fun r0 => set_data r0 (Some (kv_del dd k))) HI HG HH Hg)
        as (s1 & Hs & HI1 & HG1 & HH1 & Hg1 & Hv & Fpe & Fc & Fu & Fn).
      rewrite Hs. intros [= <- <- <-]. cbn [of_result g_ex g_op].
      split; [exact HI1|]. split; [exact HG1|]. split; [exact Fc|]. split; [rewrite Fu; lia|].
      split; [intros k' Hne _; rewrite Hid in Hv; apply (Hv k' Hne)|]. split; [intros dd' k'; rewrite Fpe; auto|].
      exists id. split; [|left; auto]. eexists. split; [exact Hg1|]. split; [exact Hid|].
      split; [|split; [exact HH1 | rewrite Fpe; exact Hpe]].
      cbn [o_rec]. rewrite cont_set_data, Hrf, <- Hd, (content_data _ _ Eda). reflexivity.
    + destruct (modify_save_eff s o ob (fun r0 => r0) HI HG HH Hg)
        as (s1 & Hs & HI1 & HG1 & HH1 & Hg1 & Hv & Fpe & Fc & Fu & Fn).
      rewrite (hupd_id s o ob Hg) in Hs. rewrite Hs. intros [= <- <- <-]. cbn [of_result g_ex g_op].
      split; [exact HI1|]. split; [exact HG1|]. split; [exact Fc|]. split; [rewrite Fu; lia|].
      split; [intros k' Hne _; rewrite Hid in Hv; apply (Hv k' Hne)|]. split; [intros dd' k'; rewrite Fpe; auto|].
      exists id. split; [|left; auto]. eexists. split; [exact Hg1|]. split; [exact Hid|].
      split; [|split; [exact HH1 | rewrite Fpe; exact Hpe]].
      cbn [o_rec]. rewrite Hc. f_equal. rewrite <- Hd. unfold content_of. rewrite Eda. reflexivity.
  - (* Get *)
    intros [= <- <- <-]. cbn [g_ex g_op].
    destruct Hsame as (A & B & C & D & E & F). repeat (split; [assumption|]).
    exists id. split; [|left; auto]. exists ob. auto.
  - (* GetAndDelete: as Delete when the key is found, else nothing *)
    unfold data_of. rewrite Hg. destruct (r_data (o_rec ob)) as [dd|] eqn:Eda.
    + destruct (kv_get dd k) as [v|] eqn:Ek.
      * destruct (modify_save_eff s o ob (fun r0 => set_data r0 (Some (kv_del dd k))) HI HG HH Hg)
          as (s1 & Hs & HI1 & HG1 & HH1 & Hg1 & Hv & Fpe & Fc & Fu & Fn).
        rewrite Hs. intros [= <- <- <-]. cbn [g_ex g_op].
        split; [exact HI1|]. split; [exact HG1|]. split; [exact Fc|]. split; [rewrite Fu; lia|].
        split; [intros k' Hne _; rewrite Hid in Hv; apply (Hv k' Hne)|]. split; [intros dd' k'; rewrite Fpe; auto|].
        exists id. split; [|left; auto]. eexists. split; [exact Hg1|]. split; [exact Hid|].
        split; [|split; [exact HH1 | rewrite Fpe; exact Hpe]].
        cbn [o_rec]. rewrite cont_set_data, Hrf, <- Hd, (content_data _ _ Eda). reflexivity.
      * intros [= <- <- <-]. cbn [g_ex g_op].
        assert (Hsd : (kv_del (fst d) k, snd d) = d).
        { rewrite <- Hd, (content_data _ _ Eda), (kv_del_absent _ _ Ek), <- (content_data _ _ Eda).
          destruct (content_of (o_rec ob)); reflexivity. }
        rewrite Hsd.
        destruct Hsame as (A & B & C & D & E & F). repeat (split; [assumption|]).
        exists id. split; [|left; auto]. exists ob. auto.
    + intros [= <- <- <-]. cbn [g_ex g_op].
      assert (Hsd : (kv_del (fst d) k, snd d) = d).
      { rewrite <- Hd. unfold content_of. rewrite Eda. reflexivity. }
      rewrite Hsd.
      destruct Hsame as (A & B & C & D & E & F). repeat (split; [assumption|]).
      exists id. split; [|left; auto]. exists ob. auto.
  - (* LogIn *)
    destruct (login_eff s o ob u e HI HG HH Hg)
      as (s1 & Hs & HI1 & HG1 & HH1 & (ob1 & Hg1 & Hid1 & Hc1) & Hvk & Hvo & Fpe & Fc & Fu & Fn).
    rewrite Hs. intros [= <- <- <-]. cbn [of_result g_op].
    split; [exact HI1|]. split; [exact HG1|]. split; [exact Fc|]. split; [rewrite Fu; lia|].
    split; [|split].
    + intros k' Hne Hdr. rewrite Hid in Hvk. rewrite (Hvk k' Hne (key_drawn_not_next s k' Hdr)).
      destruct e; reflexivity.
    + intros dd' k'. rewrite Fpe. intro H. apply in_app_or in H. destruct H as [H|[H|[]]]; [left; exact H|].
      injection H as _ <-. right. exact Hid.
    + exists (KGen (supply s)). split; [|right; auto]. exists ob1. split; [exact Hg1|]. split; [exact Hid1|].
      split; [rewrite Hc1, Hrf, Hd; reflexivity|]. split; [exact HH1|].
      intros dd' H. rewrite Fpe in H. apply in_app_or in H. destruct H as [H|[H|[]]].
      * destruct HG as (_ & P & _). specialize (P _ _ H). cbn in P. lia.
      * injection H as _ H. rewrite Hid in H. rewrite H in Hidd. cbn in Hidd. lia.
  - (* LogOut *)
    destruct (logout_eff s o ob HI HG HH Hg)
      as (s1 & ob1 & Hs & HI1 & HG1 & HH1 & Hg1 & Hid1 & Hc1 & Hv & Fpe & Fc & Fu & Fn).
    rewrite Hs. intros [= <- <- <-]. cbn [of_result g_ex g_op].
    split; [exact HI1|]. split; [exact HG1|]. split; [exact Fc|]. split; [rewrite Fu; lia|].
    split; [intros k' Hne _; rewrite Hid in Hv; apply (Hv k' Hne)|]. split; [intros dd' k'; rewrite Fpe; auto|].
    exists id. split; [|left; auto]. exists ob1. split; [exact Hg1|]. split; [congruence|].
    split; [rewrite Hc1, Hrf, Hd; reflexivity|]. split; [exact HH1 | rewrite Fpe; exact Hpe].
  - (* RegenerateID *)
    destruct (regenerate_eff s o ob HI HG HH Hg)
      as (s1 & Hs & HI1 & HG1 & HH1 & (ob1 & Hg1 & Hid1 & Hc1) & Hvk & Hvo & Fpe & Fc & Fu & Fn).
    rewrite Hs. intros [= <- <- <-]. cbn [of_result g_ex g_op].
    split; [exact HI1|]. split; [exact HG1|]. split; [exact Fc|]. split; [rewrite Fu; lia|].
    split; [|split].
    + intros k' Hne Hdr. rewrite Hid in Hvk. apply (Hvk k' Hne (key_drawn_not_next s k' Hdr)).
    + intros dd' k'. rewrite Fpe. intro H. apply in_app_or in H. destruct H as [H|[H|[]]]; [left; exact H|].
      injection H as _ <-. right. exact Hid.
    + exists (KGen (supply s)). split; [|right; auto]. exists ob1. split; [exact Hg1|]. split; [exact Hid1|].
      split; [rewrite Hc1; exact Hc|]. split; [exact HH1|].
      intros dd' H. rewrite Fpe in H. apply in_app_or in H. destruct H as [H|[H|[]]].
      * destruct HG as (_ & P & _). specialize (P _ _ H). cbn in P. lia.
      * injection H as _ H. rewrite Hid in H. rewrite H in Hidd. cbn in Hidd. lia.
  - (* Destroy *)
    unfold destroy. rewrite Hg.
    destruct (cache_delete_eff s (o_id ob) HI HG) as (Hok & HI1 & HG1 & Hvo & Hvk & Fh & Fpe & Fu & Fc & Fn).
    destruct (cache_delete s (o_id ob)) as [s1 ok]. cbn [fst snd] in *. subst ok. cbn [negb].
    intros [= <- <- <-]. cbn [of_result g_ex].
    split; [exact HI1|]. split; [exact HG1|]. split; [exact Fc|]. split; [rewrite Fu; lia|].
    rewrite Hid in *.
    split; [intros k' Hne _; apply (Hvk k' Hne)|]. split; [intros dd' k'; rewrite Fpe; auto|]. auto.
Qed.

(* ------------------------------------------------------------- clean-ups *)

Lemma GR_set_pending s l : GR s -> (forall d k, In (d, k) l -> key_drawn s k) -> GR (set_pending s l).
Proof.
  intros (G & P & Hnd) Hl. split; [|split; [exact Hl | exact Hnd]].
  intros k x H. destruct (G k x H) as [A B]. split; [exact A|]. rewrite <- B. apply view_ext; reflexivity.
Qed.

Lemma fire_eff l : forall s, Inv noex s -> GR s ->
  let s' := fst (fire s l) in
  Inv noex s' /\ GR s' /\ heap s' = heap s /\ pending s' = pending s /\ conf s' = conf s /\
  supply s' = supply s /\
  (forall k, view s' k = None \/ view s' k = view s k) /\
  (forall k, (forall dd, ~ In (dd, k) l) ->
     lookup (cache s') k = lookup (cache s) k /\ lookup (store s') k = lookup (store s) k) /\
  (forall e, In e (snd (fire s l)) -> In e l).
Proof.
  induction l as [|[due k0] t IH]; intros s HI HG; cbn [fire].
  - cbn [fst snd]. split; [exact HI|]. split; [exact HG|]. repeat split; auto.
  - destruct (due <=? now s)%Z.
    + destruct (cache_delete_eff s k0 HI HG) as (_ & HI1 & HG1 & Hvo & Hvk & Fh & Fpe & Fu & Fc & Fn).
      destruct (RotateLaws.cache_delete_ff s k0 (inv_plan _ _ HI)) as (_ & _ & Dc & Ds & _).
      destruct (cache_delete s k0) as [s1 ok]. cbn [fst snd] in *.
      destruct (IH s1 HI1 HG1) as (A & B & C & D & E & F & V & K & R).
      destruct (fire s1 t) as [s2 rest]. cbn [fst snd] in *.
      split; [exact A|]. split; [exact B|]. split; [congruence|]. split; [congruence|].
      split; [congruence|]. split; [congruence|]. split; [|split].
      * intro k. destruct (V k) as [H|H]; [left; exact H|]. rewrite H.
        destruct (key_eq_dec k k0) as [->|Hne]; [left; exact Hvo | right; apply Hvk; exact Hne].
      * intros k Hk. destruct (K k) as [K1 K2].
        { intros dd H. apply (Hk dd). right. exact H. }
        assert (Hne : k <> k0) by (intros ->; apply (Hk due); left; reflexivity).
        rewrite K1, K2, Dc, Ds. split; apply lookup_remove_other; exact Hne.
      * intros e H. right. apply R. exact H.
    + destruct (IH s HI HG) as (A & B & C & D & E & F & V & K & R).
      destruct (fire s t) as [s2 rest]. cbn [fst snd] in *.
      split; [exact A|]. split; [exact B|]. split; [exact C|]. split; [exact D|].
      split; [exact E|]. split; [exact F|]. split; [exact V|]. split.
      * intros k Hk. apply K. intros dd H. apply (Hk dd). right. exact H.
      * intros e [<-|H]; [left; reflexivity | right; apply R; exact H].
Qed.

Lemma fire_due_eff s : Inv noex s -> GR s ->
  let s' := fire_due s in
  Inv noex s' /\ GR s' /\ heap s' = heap s /\ conf s' = conf s /\ supply s' = supply s /\
  (forall k, view s' k = None \/ view s' k = view s k) /\
  (forall k, (forall dd, ~ In (dd, k) (pending s)) ->
     lookup (cache s') k = lookup (cache s) k /\ lookup (store s') k = lookup (store s) k) /\
  (forall e, In e (pending s') -> In e (pending s)).
Proof.
  intros HI HG. cbv zeta. destruct (fire_due_spec s HI) as (HI' & _). unfold fire_due in *.
  set (s0 := set_pending s []) in *.
  assert (HI0 : Inv noex s0) by (eapply Inv_core; [|exact HI]; reflexivity).
  assert (HG0 : GR s0) by (apply GR_set_pending; [exact HG | intros d k []]).
  destruct (fire_eff (pending s) s0 HI0 HG0) as (A & B & C & D & E & F & V & K & R).
  destruct (fire s0 (pending s)) as [s1 rest]. cbn [fst snd] in *.
  change (pending s0) with (@nil (Z * key)) in D. rewrite D in *. cbn [app] in *.
  split; [exact HI'|]. split; [|split; [exact C|split; [exact E|split; [exact F|split; [|split]]]]].
  - apply GR_set_pending; [exact B|]. intros d k H. apply R in H. destruct HG as (_ & P & _).
    apply (key_drawn_supply s s1 k (eq_sym F)). apply (P d k H).
  - intro k. destruct (V k) as [H|H]; [left; rewrite <- H; apply view_ext; reflexivity|].
    right. transitivity (view s1 k); [apply view_ext; reflexivity | rewrite H; apply view_ext; reflexivity].
  - intros k Hk. apply (K k Hk).
  - intros e H. apply R. exact H.
Qed.

Lemma hand_fire_due s o id d : Inv noex s -> GR s -> hand s o id d -> hand (fire_due s) o id d.
Proof.
  intros HI HG (ob & Hg & Hid & Hc & HH & Hpe).
  destruct (fire_due_eff s HI HG) as (_ & _ & Fh & Fc & _ & _ & K & R).
  destruct (K id Hpe) as [K1 K2].
  exists ob. split; [rewrite (hget_heap _ s o Fh); exact Hg|]. split; [exact Hid|]. split; [exact Hc|].
  split.
  - destruct HH as (ob' & Hg' & HH). exists ob'. split; [rewrite (hget_heap _ s o Fh); exact Hg'|].
    assert (ob' = ob) by congruence. subst ob'. rewrite Hid in *. rewrite K1, K2, Fc. exact HH.
  - intros dd H. apply (Hpe dd). apply R. exact H.
Qed.

(* ---------------------------------------------------------------- scripts *)

Lemma apply_cookies_nil j : apply_cookies j [] = j.
Proof. reflexivity. Qed.

Lemma apply_cookies_app jar a b : apply_cookies jar (a ++ b) = apply_cookies (apply_cookies jar a) b.
Proof. unfold apply_cookies. apply fold_left_app. Qed.

Lemma run_script_eff ops : forall s o id d hc s' rs cks,
  Inv noex s -> GR s -> hand s o id d ->
  run_script s o hc ops = (s', rs, cks) ->
  Inv noex s' /\ GR s' /\ conf s' = conf s /\ (supply s <= supply s')%N /\
  exists fin U, g_script d ops rs [] = (fin, U) /\
    (forall k, k <> id -> key_drawn s k -> view s' k = None \/ view s' k = dropl U (view s k)) /\
    (forall dd k, In (dd, k) (pending s') -> In (dd, k) (pending s) \/ k = id \/ ~ key_drawn s k) /\
    match fin with
    | Some d' => exists id', hand s' o id' d' /\ apply_cookies (CKey id) cks = CKey id' /\
                             (id' = id \/ ~ key_drawn s id')
    | None => apply_cookies (CKey id) cks = CNone
    end.
Proof.
  induction ops as [|op t IH]; intros s o id d hc s' rs cks HI HG HD; cbn [run_script].
  - intros [= <- <- <-]. split; [exact HI|]. split; [exact HG|]. split; [reflexivity|]. split; [lia|].
    exists (Some d), []. split; [reflexivity|]. split; [intros; right; reflexivity|]. split; [auto|].
    exists id. auto.
  - destruct (do_sop s o hc op) as [[s1 r1] c1] eqn:Hd.
    destruct (do_sop_eff s o id d hc op s1 r1 c1 HI HG HD Hd) as (HI1 & HG1 & Hc1 & Hu1 & Hv1 & Hp1 & Hres).
    destruct (fire_due_eff s1 HI1 HG1) as (HI2 & HG2 & Fh2 & Fc2 & Fu2 & Hv2 & _ & Hp2).
    pose proof (hand_drawn s o id d HI HD) as Hidd.
    assert (Hv12 : forall k, k <> id -> key_drawn s k ->
                     view (fire_due s1) k = None \/ view (fire_due s1) k = dropl (g_ex op r1) (view s k)).
    { intros k H1 H2. destruct (Hv2 k) as [H|H]; [left; exact H | right; rewrite H; apply Hv1; assumption]. }
    assert (Hp12 : forall dd k, In (dd, k) (pending (fire_due s1)) -> In (dd, k) (pending s) \/ k = id).
    { intros dd k H. apply Hp2 in H. apply Hp1. exact H. }
    destruct (is_destroy op) eqn:Edes.
    + (* Destroy: the script stops *)
      assert (op = SDestroy) by (destruct op; try discriminate; reflexivity). subst op.
      intros [= <- <- <-]. destruct Hres as (-> & Hvid).
      split; [exact HI2|]. split; [exact HG2|]. split; [congruence|]. split; [lia|].
      exists None, []. split; [reflexivity|]. split; [exact Hv12|]. split; [|reflexivity].
      intros dd k H. destruct (Hp12 dd k H); auto.
    + destruct Hres as (id1 & HD1 & Hck).
      assert (HD2 : hand (fire_due s1) o id1 (g_op d op r1)) by (apply hand_fire_due; assumption).
      assert (Hid1 : id1 = id \/ ~ key_drawn s id1).
      { destruct Hck as [[-> _]|[-> _]]; [left; reflexivity | right; cbn; lia]. }
      assert (Hck1 : apply_cookies (CKey id) c1 = CKey id1).
      { destruct Hck as [[-> ->]|[-> ->]]; reflexivity. }
      assert (Hstop : match op, r1 with SDestroy, _ => true | _, SPanic _ => true | _, _ => false end
                      = is_panic r1).
      { destruct op; try reflexivity. discriminate Edes. }
      rewrite Hstop. destruct (is_panic r1) eqn:Epan.
      * (* a panic stops the script *)
        intros [= <- <- <-]. split; [exact HI2|]. split; [exact HG2|]. split; [congruence|]. split; [lia|].
        rewrite (g_script_cons d op t r1 [] []), Edes, app_nil_r.
        exists (Some (g_op d op r1)), (g_ex op r1).
        split; [destruct t; reflexivity|]. split; [exact Hv12|]. split.
        -- intros dd k H. destruct (Hp12 dd k H); auto.
        -- exists id1. split; [exact HD2|]. split; [exact Hck1 | exact Hid1].
      * destruct (run_script (fire_due s1) o hc t) as [[s3 rs3] c3] eqn:Hr.
        intros [= <- <- <-].
        destruct (IH _ o id1 _ hc s3 rs3 c3 HI2 HG2 HD2 Hr)
          as (HI3 & HG3 & Hc3 & Hu3 & fin & U & Hgs & Hv3 & Hp3 & Hfin).
        split; [exact HI3|]. split; [exact HG3|]. split; [congruence|]. split; [lia|].
        rewrite (g_script_cons d op t r1 rs3 []), Edes, app_nil_r.
        rewrite g_script_acc, Hgs. cbn [fst snd].
        exists fin, (U ++ g_ex op r1). split; [reflexivity|]. split; [|split].
        -- intros k H1 H2.
           assert (Hk1 : k <> id1) by (destruct Hid1 as [->|Hn]; [exact H1 | intros ->; apply Hn; exact H2]).
           assert (Hk2 : key_drawn (fire_due s1) k) by (apply (key_drawn_mono s); [lia | exact H2]).
           destruct (Hv3 k Hk1 Hk2) as [H|H]; [left; exact H|].
           destruct (Hv12 k H1 H2) as [H'|H'].
           ++ left. rewrite H, H'. apply dropl_none.
           ++ right. rewrite H, H', dropl_app. reflexivity.
        -- intros dd k H. destruct (Hp3 dd k H) as [H'|[H'|H']].
           ++ destruct (Hp12 dd k H'); auto.
           ++ subst k. destruct Hid1 as [->|Hn]; auto.
           ++ right. right. intro Hx. apply H'. apply (key_drawn_mono s); [lia | exact Hx].
        -- destruct fin as [d'|].
           ++ destruct Hfin as (id' & A & B & C). exists id'. split; [exact A|]. split.
              ** rewrite apply_cookies_app, Hck1. exact B.
              ** destruct C as [->|C]; [exact Hid1|]. right. intro Hx. apply C.
                 apply (key_drawn_mono s); [lia | exact Hx].
           ++ rewrite apply_cookies_app, Hck1. exact Hfin.
Qed.
