(* Non-vacuity for the chain theorems (audit task A9). Client 1 creates a
   session, stores a value and logs in (ID 0 -> ID 1); 10 s later its handler
   calls RegenerateID (ID 1 -> ID 2); 10 s later a request presents the OLDEST
   ID 0 - chain 0 -> 1 -> 2 (n = 2), everything within the grace period of 60 s -
   and its handler calls RegenerateID again (new ID 3); the process stops after
   n persistence calls. Cache size 2, so Start's loads of the chain flush other
   entries: the step makes 7 persistence calls (2 loads, 3 flushes, the save of
   the new record, the save of the replaced-ID record; n = 0..7; 8 covers them
   all as well). *)
From Sessions Require Import Model.Base Model.Sess Model.Hist Proofs.SessDefs
  Proofs.HistInv Proofs.HistInv2 Proofs.HistInv3.
From Sessions Require Proofs.CrashFault3 Proofs.CrashFault5 Proofs.CrashFault6 Proofs.LiveHist4 Proofs.LiveHist8.
From Sessions Require Import Proofs.CrashRestart Proofs.CrashRestart2 Proofs.CrashRestart3 Proofs.CrashRestart4
  Proofs.CrashChain Proofs.CrashChain2 Proofs.CrashChain3 Proofs.CrashChain4.
From Coq Require Import Lia.
Import CrashFault3 CrashFault5 CrashFault6 LiveHist4.
Local Open Scope Z_scope.

Definition hC : list hop :=
  [rqx 1 [SSet 1 2; SLogIn (5%N, 1%N) false]; HWait 10000000000; rqx 1 [SRegen]; HWait 10000000000].
Definition wC : world := Eval vm_compute in reach cX hC.
Lemma wC_eq : wC = reach cX hC.
Proof. vm_compute. reflexivity. Qed.

Definition r1C (sc : list sop) (n : nat) : reqstep :=
  mkReqStep 2 (PForge (CKey (KGen 0))) false (V4 1 2 3 4 5) 7 sc [] [] (Some n).
Definition probeC (k : key) : reqstep := mkReqStep 3 (PForge (CKey k)) false (V4 1 2 3 4 5) 7 [] [] [] None.

Lemma wC_sess_inv : sess_inv (w_st wC).
Proof. rewrite wC_eq. apply LiveHist8.reach_sess_inv; repeat (constructor; try exact I; try reflexivity). Qed.

Lemma chain_crash_ex sc n : chain_crash wC (r1C sc n) n (KGen 0) [KGen 1; KGen 2] [(1%N, 2%N)] (Some 5%N) sc.
Proof.
  apply mkCC; try reflexivity.
  - exact wC_sess_inv.
  - discriminate.
  - split.
    + intros k t [H|[H|[]]]; injection H as <- <-; eexists; split; vm_compute; reflexivity.
    + intros k t o ob [H|[H|[]]] Hl Ho; injection H as <- <-; vm_compute in Hl; try discriminate Hl.
      injection Hl as <-. vm_compute in Ho. injection Ho as <-. reflexivity.
  - split.
    + eexists. split; [vm_compute; reflexivity|]. repeat split; vm_compute; reflexivity.
    + intros o ob Hl Ho. vm_compute in Hl. injection Hl as <-. vm_compute in Ho. injection Ho as <-.
      repeat split; vm_compute; reflexivity.
  - vm_compute. lia.
  - intros rk HL. vm_compute in HL. injection HL as <-. split; [vm_compute; reflexivity|]. intros _. vm_compute. reflexivity.
  - intros d k' H. vm_compute in H. destruct H as [H|[H|[]]]; injection H as <- _; vm_compute; reflexivity.
Qed.

Definition outcomeC (sc : list sop) (n : nat) :=
  let w' := fst (step wC (HReq (r1C sc n))) in
  let o0 := snd (step w' (HReq (probeC (KGen 0)))) in
  (ob_res (snd (step wC (HReq (r1C sc n)))),
   map (fun kr => (fst kr, r_ref (snd kr))) (store (w_st w')),
   ob_res o0, option_map (fun x => (fst x, dat (snd x), uid (snd x))) (ob_start o0)).

(* the step makes 7 persistence calls and one draw *)
Example chain_calls_ex : length (evs (req_end wC (r1C [SRegen] 0))) = 8%nat /\ supply (w_st wC) = 3%N.
Proof. vm_compute. split; reflexivity. Qed.

Example chain_outcomes_ex :
  map (outcomeC [SRegen]) [0; 1; 2; 3; 4; 5; 6; 7; 8]%nat =
  let full2 := (RSess, Some (KGen 2, [(1%N, 2%N)], Some 5%N)) in
  let s3 := [(KGen 0, Some (KGen 1)); (KGen 1, Some (KGen 2)); (KGen 2, None)] in
  [(RCrashed, s3, fst full2, snd full2); (RCrashed, s3, fst full2, snd full2); (RCrashed, s3, fst full2, snd full2);
   (RCrashed, s3, fst full2, snd full2); (RCrashed, s3, fst full2, snd full2); (RCrashed, s3, fst full2, snd full2);
   (* after the save under the new ID 3: two full copies (the orphan stage) *)
   (RCrashed, [(KGen 0, Some (KGen 1)); (KGen 1, Some (KGen 2)); (KGen 2, None); (KGen 3, None)], RSess,
    Some (KGen 2, [(1%N, 2%N)], Some 5%N));
   (* after the last call: 0 -> 1 -> 2 -> 3 *)
   (RCrashed, [(KGen 0, Some (KGen 1)); (KGen 1, Some (KGen 2)); (KGen 2, Some (KGen 3)); (KGen 3, None)], RSess,
    Some (KGen 3, [(1%N, 2%N)], Some 5%N));
   (RCrashed, [(KGen 0, Some (KGen 1)); (KGen 1, Some (KGen 2)); (KGen 2, Some (KGen 3)); (KGen 3, None)], RSess,
    Some (KGen 3, [(1%N, 2%N)], Some 5%N))].
Proof. vm_compute. reflexivity. Qed.

(* the probing request is acceptable at every crash point *)
Example chain_probe_ok_ex :
  Forall (fun n => forall rk, lookup (store (w_st (fst (step wC (HReq (r1C [SRegen] n)))))) (KGen 0) = Some rk ->
                   probe_ok (conf (w_st wC)) (now (w_st wC)) (probe_q (KGen 0) (probeC (KGen 0))) rk)
         [0; 1; 2; 3; 4; 5; 6; 7; 8]%nat.
Proof.
  repeat (apply Forall_cons;
    [intros rk H; vm_compute in H; injection H as <-; split; [vm_compute; reflexivity | intros _; vm_compute; reflexivity] |]).
  apply Forall_nil.
Qed.

(* the new ID after the last call *)
Example chain_new_ex :
  let w' := fst (step wC (HReq (r1C [SRegen] 8))) in
  ob_res (snd (step w' (HReq (probeC (KGen 3))))) = RSess /\
  option_map (fun x => (fst x, dat (snd x), uid (snd x))) (ob_start (snd (step w' (HReq (probeC (KGen 3)))))) =
    Some (KGen 3, [(1%N, 2%N)], Some 5%N).
Proof. vm_compute. split; reflexivity. Qed.

(* ---------------------------------------------------------- orphan copies *)
From Sessions Require Import Proofs.CrashChain5.

(* the crash after 6 persistence calls: the save under the new ID 3 was made,
   the save of the replaced-ID record under ID 2 was not *)
Definition wO : world := Eval vm_compute in fst (step wC (HReq (r1C [SRegen] 6))).
Lemma wO_eq : wO = fst (step wC (HReq (r1C [SRegen] 6))).
Proof. vm_compute. reflexivity. Qed.

Example orphan_hyps_ex :
  exists x y, lookup (store (w_st wO)) (KGen 3) = Some x /\ lookup (store (w_st wO)) (KGen 2) = Some y /\ r_ref y = None /\
              r_ref x = None /\ dat x = [(1%N, 2%N)] /\ uid x = Some 5%N /\ dat y = [(1%N, 2%N)] /\ uid y = Some 5%N /\
              supply (w_st wO) = 4%N /\ w_jars wO = w_jars wC.
Proof. do 2 eexists. repeat split; vm_compute; reflexivity. Qed.

(* "a later Destroy of the session removes the orphan copy" *)
Definition destroy_removes_orphan_statement : Prop :=
  forall w r n k0 rest D U rd,
    chain_crash w r n k0 rest D U [SRegen] ->
    let w' := fst (step w (HReq r)) in
    rq_plan rd = [] -> rq_crash rd = None -> pres w' rd = CKey k0 -> rq_script rd = [SDestroy] ->
    ob_res (snd (step w' (HReq rd))) = RSess ->
    lookup (store (w_st (fst (step w' (HReq rd))))) (KGen (supply (w_st w))) = None.

Definition rdC : reqstep := mkReqStep 2 (PForge (CKey (KGen 0))) false (V4 1 2 3 4 5) 7 [SDestroy] [] [] None.

(* It does not: the client comes back with ID 0, is served the session (through
   0 -> 1 -> 2) and destroys it: the record under ID 2 is deleted, the full copy
   under ID 3 stays. *)
Theorem orphan_survives_destroy : ~ destroy_removes_orphan_statement.
Proof.
  intro H.
  specialize (H wC (r1C [SRegen] 6) 6%nat (KGen 0) [KGen 1; KGen 2] [(1%N, 2%N)] (Some 5%N) rdC
                (chain_crash_ex _ _) eq_refl eq_refl eq_refl eq_refl).
  cbv zeta in H. rewrite <- wO_eq in H. vm_compute in H. specialize (H eq_refl). discriminate H.
Qed.

(* what the store holds afterwards, and what the IDs now yield: the presented
   old ID finds its chain broken (the session is gone), while a request that
   presents the orphan's ID - which no response ever carried - is served the
   copy *)
Example orphan_after_destroy_ex :
  let w2 := fst (step wO (HReq rdC)) in
  ob_res (snd (step wO (HReq rdC))) = RSess /\ ob_script (snd (step wO (HReq rdC))) = [SOk] /\
  map (fun kr => (fst kr, r_ref (snd kr))) (store (w_st w2)) =
    [(KGen 0, Some (KGen 1)); (KGen 1, Some (KGen 2)); (KGen 3, None)] /\
  ob_res (snd (step w2 (HReq (probeC (KGen 0))))) = RErr ERefMissing /\
  ob_res (snd (step w2 (HReq (probeC (KGen 3))))) = RSess /\
  option_map (fun x => (fst x, dat (snd x), uid (snd x))) (ob_start (snd (step w2 (HReq (probeC (KGen 3)))))) =
    Some (KGen 3, [(1%N, 2%N)], Some 5%N).
Proof. vm_compute. repeat split; reflexivity. Qed.

(* ------------------------------------------------ LogIn after the chain *)
From Sessions Require Import Proofs.CrashChain6.

(* the same request with script [LogIn user 6]: 9 persistence calls (2 loads and
   2 flushes in Start; LogOut's save; the save with user 6; a flush; the new
   record; the replaced-ID record). The oldest ID 0 is served at every crash
   point with the data {1: 2}; the user is 5 up to n = 4, none at n = 5 (LogOut's
   save), 6 from n = 6 on; from n = 9 on through the new ID 3. *)
Example chain_login_calls_ex : length (evs (req_end wC (r1C [SLogIn (6%N, 1%N) false] 0))) = 10%nat.
Proof. vm_compute. reflexivity. Qed.

Example chain_login_outcomes_ex :
  map (fun n => let '(a, b, c, d) := outcomeC [SLogIn (6%N, 1%N) false] n in (a, c, d)) [0; 1; 2; 3; 4; 5; 6; 7; 8; 9; 10]%nat =
  [(RCrashed, RSess, Some (KGen 2, [(1%N, 2%N)], Some 5%N)); (RCrashed, RSess, Some (KGen 2, [(1%N, 2%N)], Some 5%N));
   (RCrashed, RSess, Some (KGen 2, [(1%N, 2%N)], Some 5%N)); (RCrashed, RSess, Some (KGen 2, [(1%N, 2%N)], Some 5%N));
   (RCrashed, RSess, Some (KGen 2, [(1%N, 2%N)], Some 5%N)); (RCrashed, RSess, Some (KGen 2, [(1%N, 2%N)], None));
   (RCrashed, RSess, Some (KGen 2, [(1%N, 2%N)], Some 6%N)); (RCrashed, RSess, Some (KGen 2, [(1%N, 2%N)], Some 6%N));
   (RCrashed, RSess, Some (KGen 2, [(1%N, 2%N)], Some 6%N)); (RCrashed, RSess, Some (KGen 3, [(1%N, 2%N)], Some 6%N));
   (RCrashed, RSess, Some (KGen 3, [(1%N, 2%N)], Some 6%N))].
Proof. vm_compute. reflexivity. Qed.

Example chain_login_new_ex :
  let w' := fst (step wC (HReq (r1C [SLogIn (6%N, 1%N) false] 9))) in
  ob_res (snd (step w' (HReq (probeC (KGen 3))))) = RSess /\
  option_map (fun x => (fst x, dat (snd x), uid (snd x))) (ob_start (snd (step w' (HReq (probeC (KGen 3)))))) =
    Some (KGen 3, [(1%N, 2%N)], Some 6%N).
Proof. vm_compute. split; reflexivity. Qed.

Lemma destroy_removes_orphan_def :
  destroy_removes_orphan_statement <->
  forall w r n k0 rest D U rd,
    chain_crash w r n k0 rest D U [SRegen] ->
    let w' := fst (step w (HReq r)) in
    rq_plan rd = [] -> rq_crash rd = None -> pres w' rd = CKey k0 -> rq_script rd = [SDestroy] ->
    ob_res (snd (step w' (HReq rd))) = RSess ->
    lookup (store (w_st (fst (step w' (HReq rd))))) (KGen (supply (w_st w))) = None.
Proof. reflexivity. Qed.

(* the hypotheses of the claim about the orphan hold in the example (n = 6) *)
From Sessions Require Import Proofs.CrashChain8.
Example orphan_claim_hyps_ex :
  (forall c, jar_of (w_jars wC) c <> CKey (KGen (supply (w_st wC)))) /\
  lookup (store (w_st (fst (step wC (HReq (r1C [SRegen] 6)))))) (KGen (supply (w_st wC))) <> None /\
  (exists y, lookup (store (w_st (fst (step wC (HReq (r1C [SRegen] 6)))))) (last [KGen 1; KGen 2] (KGen 0)) = Some y /\ r_ref y = None).
Proof.
  split; [|split].
  - intro c. change (w_jars wC) with [(1%N, CKey (KGen 2))]. cbn [jar_of]. destruct (N.eqb c 1); discriminate.
  - rewrite <- wO_eq. vm_compute. discriminate.
  - rewrite <- wO_eq. eexists. split; vm_compute; reflexivity.
Qed.

(* the current-ID scenario (C10H's example wG, r1G): the orphan stage is n = 2 *)
From Sessions Require Import Proofs.CrashChain14.
Example orphan_current_hyps_ex :
  regen_crash wG (r1G 2) 2 (KGen 1) 0 obG /\
  (forall c, jar_of (w_jars wG) c <> CKey (KGen (supply (w_st wG)))) /\
  lookup (store (w_st (fst (step wG (HReq (r1G 2)))))) (KGen (supply (w_st wG))) <> None /\
  (exists y, lookup (store (w_st (fst (step wG (HReq (r1G 2)))))) (KGen 1) = Some y /\ r_ref y = None).
Proof.
  split; [apply regen_crash_ex|]. split; [|split].
  - intro c. change (w_jars wG) with [(1%N, CKey (KGen 1))]. cbn [jar_of]. destruct (N.eqb c 1); discriminate.
  - vm_compute. discriminate.
  - eexists. split; vm_compute; reflexivity.
Qed.

(* the hypotheses of the store-level theorems (chain_resolves_regenerate / _login)
   hold in the state after a request that presented ID 0 and was led to the
   session (object 0, ID 2), chain 0 -> 1 -> 2 *)
Definition wS : world := Eval vm_compute in reach cX (hC ++ [HReq (probeC (KGen 0))]).
Lemma wS_eq : wS = reach cX (hC ++ [HReq (probeC (KGen 0))]).
Proof. vm_compute. reflexivity. Qed.
Definition obS : obj := Eval vm_compute in
  match hget (w_st wS) 0 with Some ob => ob | None => mkObj (KJunk 0) (mkRec 0 0 (AOther 0) 0 None None None) end.

Example chain_store_hyps_ex :
  cache_ok (w_st wS) /\ nodup_ok (w_st wS) /\ fresh_ok (w_st wS) /\ holds (w_st wS) 0 obS /\
  chain_mem (w_st wS) (KGen 0) [KGen 1; KGen 2] /\ last [KGen 1; KGen 2] (KGen 0) = o_id obS /\
  dat (o_rec obS) = [(1%N, 2%N)] /\ uid (o_rec obS) = Some 5%N.
Proof.
  assert (Hs : sess_inv (w_st wS)).
  { rewrite wS_eq. apply LiveHist8.reach_sess_inv; repeat (constructor; try exact I; try reflexivity). }
  destruct Hs as (_ & A & B & C). split; [exact A|]. split; [exact B|]. split; [exact C|]. split; [|split; [|repeat split; vm_compute; reflexivity]].
  - split; [vm_compute; reflexivity|]. split; [vm_compute; reflexivity|]. split.
    + intros o' Hl. vm_compute in Hl. injection Hl as <-. reflexivity.
    + eexists. split; vm_compute; reflexivity.
  - split.
    + intros k t [H|[H|[]]]; injection H as <- <-; eexists; split; vm_compute; reflexivity.
    + intros k t o ob [H|[H|[]]] Hl Ho; injection H as <- <-; vm_compute in Hl; try discriminate Hl.
      injection Hl as <-. vm_compute in Ho. injection Ho as <-. reflexivity.
Qed.
