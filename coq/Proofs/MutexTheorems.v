(* C13/C14 in the form stated in Properties/, each for all admissible runs from
   every initial state (any number of goroutines, any scripts, any number of
   purge requests), with non-vacuity examples, and the source forms the model
   was written against. *)
From Sessions Require Import Model.Base Model.Mutex Gen.MutexTbl
  Proofs.MutexBasics Proofs.MutexSafety Proofs.MutexProgress Proofs.MutexIndep.
From Coq Require Import Lia String.

(* admissible runs, as an explicit pair (enabled, admissible) over a label list *)
Lemma aruns_iff st ls st' : aruns st ls st' <-> run st ls = Some st' /\ adm_run st ls.
Proof.
  split.
  - induction 1; simpl; [auto|]. rewrite H. destruct IHaruns. auto.
  - revert st. induction ls as [|l ls IH]; simpl; intros st [H1 H2].
    + injection H1 as <-. constructor.
    + destruct (step st l) as [st1|] eqn:E; [|discriminate]. destruct H2 as [H2 H3].
      econstructor; eauto.
Qed.

Lemma aruns_reach0 s0 ls st : aruns s0 ls st -> reach s0 st.
Proof. apply aruns_reach. constructor. Qed.

Lemma run_inv scripts purges ls st :
  run (init scripts purges) ls = Some st -> adm_run (init scripts purges) ls -> Inv st.
Proof.
  intros H1 H2. eapply aruns_inv; [apply aruns_iff; split; eassumption | apply inv_init].
Qed.

Section Final.
  Variables (scripts : list (list op)) (purges : nat) (ls : list label) (st : state).
  Hypothesis Hrun : run (init scripts purges) ls = Some st.
  Hypothesis Hadm : adm_run (init scripts purges) ls.

  Theorem c13_exclusion k g1 g2 : holds st g1 k -> holds st g2 k -> g1 = g2.
  Proof.
    apply (mutual_exclusion scripts purges). apply aruns_reach0 with ls. apply aruns_iff; auto.
  Qed.

  Theorem c13_count k :
    cH st k <= 1 /\ (forall c, mgr st = MAcqSend c k \/ mgr st = MRelSend c k -> cH st k = 0).
  Proof.
    apply (holders_le_one scripts purges). apply aruns_reach0 with ls. apply aruns_iff; auto.
  Qed.

  Theorem c14_no_deadlock :
    finished st = false -> exists l st', step st l = Some st' /\ adm st l.
  Proof. apply no_deadlock. eapply run_inv; eauto. Qed.

  Theorem c14_maximal_finished :
    (forall l st', step st l = Some st' -> ~ adm st l) -> finished st = true.
  Proof.
    intro Hmax. eapply (maximal_run_finished (init scripts purges) ls); auto.
    - apply inv_init.
    - apply aruns_iff; auto.
  Qed.

  Theorem c14_completes :
    exists ls' st', run st ls' = Some st' /\ adm_run st ls' /\ finished st' = true.
  Proof.
    destruct (completes st) as [ls' [st' [R F]]]; [eapply run_inv; eauto|].
    apply aruns_iff in R. exists ls', st'. tauto.
  Qed.

  Theorem c14_bounded : List.length ls <= measure (init scripts purges).
  Proof.
    assert (R : aruns (init scripts purges) ls st) by (apply aruns_iff; auto).
    pose proof (aruns_bounded _ _ _ R). lia.
  Qed.

  Theorem c14_one_per_release tr st' k :
    atrace st tr st' ->
    cnt (is_grant k) tr <= cnt (is_release k) tr + 1 /\
    (cnt (is_release k) tr = 0 -> cnt (is_grant k) tr <= 1).
  Proof. apply one_per_release. eapply run_inv; eauto. Qed.

  Theorem c14_hands_over k ov st1 :
    mgr st = MRel k -> 0 < cA st k -> step st (LMgrGet ov) = Some st1 ->
    exists c, mgr st1 = MRelSend c k.
  Proof. apply release_hands_over. eapply run_inv; eauto. Qed.

  Theorem c14_independent g k r :
    nth_error (gs st) g = Some (mkG (GSendAcq k) r) -> cA st k = 0 -> cH st k = 0 ->
    exists ls' st', run st ls' = Some st' /\ adm_run st ls' /\ Forall (indep g) ls' /\
      nth_error (gs st') g = Some (mkG (GHold k) r).
  Proof.
    intros Hg HA HH.
    destruct (independent st g k r) as [ls' [st' (R & F & G)]]; auto; [eapply run_inv; eauto|].
    apply aruns_iff in R. exists ls', st'. tauto.
  Qed.
End Final.

(* ---- the source forms the model was written against ---- *)

Definition mutex_source_pinned_statement : Prop :=
  mtx_new_fields = ["items = make(map[interface{}]*mutexItem)"; "acquire = make(chan interface{})";
                    "release = make(chan interface{})"; "purge = make(chan struct{})"]%string /\
  mtx_select_comms = ["key := <-m.acquire"; "key := <-m.release"; "<-m.purge"]%string /\
  mtx_acquire_case = ["item := m.getItem(key)"; "if item.locks == 0 { item.release <- struct{}{} }"; "item.locks++"]%string /\
  mtx_acquire_guard = "item.locks == 0"%string /\
  mtx_release_case = ["item := m.getItem(key)";
                      "if item.locks > 0 { item.locks-- if item.locks > 0 { item.release <- struct{}{} } }"]%string /\
  mtx_release_guard = "item.locks > 0"%string /\
  mtx_release_inner_guard = "item.locks > 0"%string /\
  mtx_purge_case = ["m.itemsMutex.Lock()";
                    "for key, item := range m.items { if time.Since(item.lastAccess) > mutexStaleMutexes || len(m.items) > mutexMaxCacheSize && item.locks == 0 { delete(m.items, key) } }";
                    "m.itemsMutex.Unlock()"]%string /\
  mtx_purge_cond = "time.Since(item.lastAccess) > mutexStaleMutexes || len(m.items) > mutexMaxCacheSize && item.locks == 0"%string /\
  mtx_purge_cond_shape = "[e || [e && e]]"%string /\
  mtx_purge_then = ["delete(m.items, key)"]%string /\
  mtx_ticker = ["for { time.Sleep(mutexCleanupFrequency) m.purge <- struct{}{} }"]%string /\
  mtx_getitem_body = ["m.itemsMutex.Lock()"; "defer m.itemsMutex.Unlock()"; "item, ok := m.items[key]";
                      "if !ok { item = &mutexItem{release: make(chan struct{})} m.items[key] = item if len(m.items) > mutexMaxCacheSize { go func() { m.purge <- struct{}{} }() } }";
                      "item.lastAccess = time.Now()"; "return item"]%string /\
  mtx_lock_body = ["m.acquire <- key"; "<-m.getItem(key).release"]%string /\
  mtx_unlock_body = ["m.release <- key"]%string /\
  mtx_foreign_accesses = [] /\
  mtx_funcs = [".newMutexes"; "mutexes.getItem"; "mutexes.Lock"; "mutexes.Unlock"]%string.

Theorem mutex_source_pinned : mutex_source_pinned_statement.
Proof. unfold mutex_source_pinned_statement. repeat split; reflexivity. Qed.

(* ---- non-vacuity ---- *)

(* three goroutines, two keys, a spurious Unlock and two purges: an admissible
   run in which goroutine 1 waits for key 0 while goroutine 0 holds it, is
   handed the lock on release, and every script finishes *)
Definition ex_scripts : list (list op) := [[OLock 0; OLock 1]; [OLock 0]; [OUnlock 1; OLock 1]].
Definition ex_run : list label :=
  [LStart 0; LAcquire 0; LMgrGet true; LGet 0 false; LGrant 0;
   LStart 1; LAcquire 1; LGet 1 false; LMgrGet false;
   LStart 2; LRelease 2; LMgrGet false;
   LPurgeReq; LPurge [(1, false, true)];
   LLeave 0; LRelease 0; LMgrGet false; LGrant 1;
   LStart 0; LAcquire 0; LMgrGet false; LGet 0 false; LGrant 0;
   LStart 2; LAcquire 2; LMgrGet false; LGet 2 false;
   LLeave 1; LRelease 1; LMgrGet false;
   LLeave 0; LRelease 0; LMgrGet false; LGrant 2;
   LPurgeReq; LPurge [(0, true, false)];
   LLeave 2; LRelease 2; LMgrGet false; LPurgeReq; LPurge [(1, false, true)]].

Definition run_admb (st : state) (ls : list label) : bool :=
  (fix go st ls := match ls with
                   | [] => true
                   | l :: r => admb st l && match step st l with Some st' => go st' r | None => false end
                   end) st ls.

Lemma admb_adm st l : admb st l = true -> adm st l.
Proof.
  destruct l; simpl; auto.
  - intros H k r Hg. rewrite Hg in H. apply Nat.eqb_eq. exact H.
  - intros H k s o Hin Hs. rewrite forallb_forall in H. specialize (H _ Hin). simpl in H.
    subst s. simpl in H. apply Nat.eqb_eq. exact H.
Qed.

Lemma run_admb_sound st ls : run_admb st ls = true -> adm_run st ls /\ exists st', run st ls = Some st'.
Proof.
  revert st. induction ls as [|l ls IH]; intros st; simpl; [eauto|].
  intro H. apply andb_true_iff in H as [H1 H2].
  destruct (step st l) as [st1|] eqn:E; [|discriminate].
  destruct (IH _ H2) as [A [st' R]]. split; [split; [apply admb_adm; assumption|assumption]|eauto].
Qed.

Example ex_run_ok :
  exists st, run (init ex_scripts 3) ex_run = Some st /\ adm_run (init ex_scripts 3) ex_run /\
             finished st = true /\ tbl st = [].
Proof.
  destruct (run_admb_sound (init ex_scripts 3) ex_run) as [A [st R]]; [vm_compute; reflexivity|].
  exists st. split; [exact R|]. split; [exact A|].
  vm_compute in R. injection R as <-. split; reflexivity.
Qed.

(* a state of that run with a holder, a waiter and a hand-over in progress *)
Example ex_waiter_and_holder :
  exists st, run (init ex_scripts 3) (firstn 12 ex_run) = Some st /\
             holds st 0 0 /\ cA st 0 = 1 /\ cH st 0 = 1 /\ lk st 0 = 2 /\ finished st = false.
Proof.
  eexists. split; [vm_compute; reflexivity|]. split; [exists [OLock 1]; left; reflexivity|].
  repeat split; reflexivity.
Qed.

(* the replay function accepts an observation that agrees and rejects one that does not *)
Definition ex_case (locks0 : nat) : mcase :=
  mkCase 2%N [[OLock 0]; [OLock 0]]
    [mkRound [CStart 0] 0 true [] [(0, 1)] [(0, 0)] [];
     mkRound [CStart 1] 0 true [] [(0, locks0)] [(0, 0)] [(1, 0)];
     mkRound [CLeave 0] 0 true [] [(0, 1)] [(1, 0)] [];
     mkRound [CLeave 1] 0 true [] [(0, 0)] [] []].
Example ex_replay : replay_case (ex_case 2) = 0%N /\ replay_case (ex_case 1) <> 0%N.
Proof. split; [vm_compute; reflexivity | vm_compute; discriminate]. Qed.

(* the trace (with pre-states) of a label list *)
Fixpoint trace_of (st : state) (ls : list label) : list (state * label) :=
  match ls with
  | [] => []
  | l :: r => (st, l) :: match step st l with Some st' => trace_of st' r | None => [] end
  end.

Lemma run_admb_atrace st ls : run_admb st ls = true -> exists st', atrace st (trace_of st ls) st'.
Proof.
  revert st. induction ls as [|l ls IH]; intros st; simpl; [intros _; eexists; constructor|].
  intro H. apply andb_true_iff in H as [H1 H2].
  destruct (step st l) as [st1|] eqn:E; [|discriminate].
  destruct (IH _ H2) as [st' T]. exists st'. econstructor; eauto. apply admb_adm; assumption.
Qed.

(* C14_one_per_release is about something: in the example run Lock(0) returns
   twice and the holder's Unlock(0) is taken twice *)
Example ex_one_per_release :
  exists st', atrace (init ex_scripts 3) (trace_of (init ex_scripts 3) ex_run) st' /\
    cnt (is_grant 0) (trace_of (init ex_scripts 3) ex_run) = 2 /\
    cnt (is_release 0) (trace_of (init ex_scripts 3) ex_run) = 2.
Proof.
  destruct (run_admb_atrace (init ex_scripts 3) ex_run) as [st' T]; [vm_compute; reflexivity|].
  exists st'. split; [exact T|]. split; vm_compute; reflexivity.
Qed.

(* the hypotheses of C14_spurious and C14_independent are satisfiable in
   reachable states: an Unlock of a key nobody holds; a Lock on a free key
   while another key is held and awaited *)
Example ex_spurious_hyp :
  exists st, run (init [[OUnlock 0]] 0) [LStart 0] = Some st /\
    mgr st = MIdle /\ nth_error (gs st) 0 = Some (mkG (GSpur 0) []) /\ lk st 0 = 0.
Proof. eexists. repeat split; reflexivity. Qed.

Example ex_independent_hyp :
  exists st, run (init [[OLock 0]; [OLock 0]; [OLock 1]] 0)
               [LStart 0; LAcquire 0; LMgrGet false; LGet 0 false; LGrant 0;
                LStart 1; LAcquire 1; LMgrGet false; LGet 1 false; LStart 2] = Some st /\
    holds st 0 0 /\ cA st 0 = 1 /\
    nth_error (gs st) 2 = Some (mkG (GSendAcq 1) []) /\ cA st 1 = 0 /\ cH st 1 = 0.
Proof. eexists. split; [vm_compute; reflexivity|]. split; [exists []; left; reflexivity|]. repeat split; reflexivity. Qed.
