(* C10 for requests that presented a REPLACED ID (audit task A9), part 1: the
   store-level notions and theorems.

   resolves_chain F stor k : following replaced-ID records inside the store
     stor, starting at k, through a chain of ANY length (fuel: the number of
     stored records, which no chain of distinct IDs exceeds), ends at a record
     that is not a reference and satisfies F. (CrashFault3.resolves_to follows
     at most one reference.)
   spath F stor k [k1; ..; kn] : the explicit form: k is stored as a reference
     to k1, .., k(n-1) as a reference to kn, and kn as a session record
     satisfying F. resolves_chain F stor k <-> exists rest, spath F stor k rest.

   The theorems: when RegenerateID / LogIn runs on the session at the end of a
   chain k0 -> .. -> kn of replaced-ID records, then at EVERY persistence-call
   boundary of the call (Hist.ev_prefix / frozen, exactly what Hist.step leaves
   after a crash) k0 still resolves, through the chain, to a record with the
   session's content, and after the last call so does the new ID, the chain
   then being k0 -> .. -> kn -> k(n+1). Arbitrary fault plans, cache sizes and
   tie-breaks (the proofs go through the safe-save discipline of CrashFault2). *)
From Sessions Require Import Model.Base Model.Sess Model.Hist Proofs.SessDefs Proofs.CrashFault
  Proofs.CrashFault2 Proofs.CrashFault3 Proofs.CrashFault4 Proofs.CrashFault5 Proofs.CrashFault6.
From Coq Require Import Lia.

(* --------------------------------------------------------------- resolution *)

Definition resolves_chain (F : rec -> Prop) (stor : list (key * rec)) (k : key) : Prop :=
  exists k' r, resolve (length stor) stor k = Some (k', r) /\ r_ref r = None /\ F r.

Fixpoint spath (F : rec -> Prop) (stor : list (key * rec)) (k : key) (rest : list key) : Prop :=
  match rest with
  | [] => exists r, lookup stor k = Some r /\ r_ref r = None /\ F r
  | k' :: t => (exists r, lookup stor k = Some r /\ r_ref r = Some k') /\ spath F stor k' t
  end.

Lemma last_default (l : list key) : forall x d d', last (x :: l) d = last (x :: l) d'.
Proof.
  induction l as [|y l IH]; intros x d d'; [reflexivity|].
  change (last (x :: y :: l) d) with (last (y :: l) d). change (last (x :: y :: l) d') with (last (y :: l) d').
  apply IH.
Qed.

Lemma last_cons (k' : key) t k : last (k' :: t) k = last t k'.
Proof.
  destruct t as [|x t]; [reflexivity|].
  change (last (k' :: x :: t) k) with (last (x :: t) k). apply last_default.
Qed.

Lemma resolve_spath (F : rec -> Prop) stor : forall rest k fuel,
  spath F stor k rest -> length rest <= fuel ->
  exists r, resolve fuel stor k = Some (last rest k, r) /\ r_ref r = None /\ F r.
Proof.
  induction rest as [|k' t IH]; intros k fuel H Hl.
  - destruct H as (r & Hk & Hr & Hf). exists r. split; [|split; assumption].
    destruct fuel; cbn [resolve last]; rewrite Hk, Hr; reflexivity.
  - destruct H as [(r & Hk & Hr) Ht]. cbn [length] in Hl. destruct fuel as [|f]; [lia|].
    destruct (IH k' f Ht) as (r' & A & B & C); [lia|]. exists r'. rewrite last_cons.
    split; [|split; assumption]. cbn [resolve]. rewrite Hk, Hr. exact A.
Qed.

Lemma spath_functional (F : rec -> Prop) stor : forall r1 r2 k, spath F stor k r1 -> spath F stor k r2 -> r1 = r2.
Proof.
  induction r1 as [|a r1 IH]; intros [|b r2] k H1 H2; cbn [spath] in *.
  - reflexivity.
  - destruct H1 as (r & A & B & _). destruct H2 as [(r' & A' & B') _]. congruence.
  - destruct H2 as (r & A & B & _). destruct H1 as [(r' & A' & B') _]. congruence.
  - destruct H1 as [(r & A & B) H1]. destruct H2 as [(r' & A' & B') H2].
    assert (a = b) by congruence. subst b. f_equal. eapply IH; eassumption.
Qed.

Lemma spath_suffix (F : rec -> Prop) stor : forall a k x b, spath F stor k (a ++ x :: b) -> spath F stor x b.
Proof.
  induction a as [|y a IH]; intros k x b H; cbn [app spath] in H.
  - apply H.
  - destruct H as [_ H]. eapply IH. exact H.
Qed.

Lemma spath_nodup (F : rec -> Prop) stor : forall rest k, spath F stor k rest -> NoDup (k :: rest).
Proof.
  induction rest as [|k' t IH]; intros k H.
  - constructor; [intros [] | constructor].
  - constructor; [|apply IH; apply H].
    intro Hin. apply in_split in Hin. destruct Hin as (a & b & E).
    assert (Hs : spath F stor k b) by (rewrite E in H; eapply spath_suffix; exact H).
    pose proof (spath_functional F stor _ _ _ H Hs) as E2.
    apply (f_equal (@length key)) in E. apply (f_equal (@length key)) in E2.
    rewrite app_length in E. cbn [length] in E, E2. lia.
Qed.

Lemma spath_stored (F : rec -> Prop) stor : forall rest k x, spath F stor k rest -> In x (k :: rest) -> In x (map fst stor).
Proof.
  induction rest as [|k' t IH]; intros k x H [<-|Hin].
  - destruct H as (r & A & _). apply lookup_In in A. apply (in_map fst) in A. exact A.
  - destruct Hin.
  - destruct H as [(r & A & _) _]. apply lookup_In in A. apply (in_map fst) in A. exact A.
  - destruct H as [_ H]. eapply IH; eassumption.
Qed.

Lemma spath_length (F : rec -> Prop) stor rest k : spath F stor k rest -> length rest < length stor.
Proof.
  intro H. pose proof (spath_nodup F stor rest k H) as Hn.
  assert (Hi : incl (k :: rest) (map fst stor)) by (intros x Hx; eapply spath_stored; eassumption).
  pose proof (NoDup_incl_length Hn Hi) as Hl. rewrite map_length in Hl. cbn [length] in Hl. lia.
Qed.

Theorem spath_resolves_chain (F : rec -> Prop) stor k rest : spath F stor k rest -> resolves_chain F stor k.
Proof.
  intro H. pose proof (spath_length F stor rest k H) as Hl.
  destruct (resolve_spath F stor rest k (length stor) H) as (r & A & B & C); [lia|].
  exists (last rest k), r. auto.
Qed.

Lemma resolve_path (F : rec -> Prop) stor : forall fuel k k' r,
  resolve fuel stor k = Some (k', r) -> F r -> exists rest, spath F stor k rest /\ k' = last rest k.
Proof.
  induction fuel as [|f IH]; intros k k' r H Hf; cbn [resolve] in H;
    destruct (lookup stor k) as [r0|] eqn:Hk; try discriminate;
    destruct (r_ref r0) as [t|] eqn:Hr; try discriminate.
  - injection H as <- <-. exists []. split; [exists r0; auto | reflexivity].
  - destruct (IH t k' r H Hf) as (rest & A & B). exists (t :: rest). split.
    + split; [exists r0; auto | exact A].
    + rewrite last_cons. exact B.
  - injection H as <- <-. exists []. split; [exists r0; auto | reflexivity].
Qed.

(* the meaning of resolves_chain: some chain of replaced-ID records leads from k
   to a session record satisfying F *)
Theorem resolves_chain_meaning (F : rec -> Prop) stor k :
  resolves_chain F stor k <-> exists rest, spath F stor k rest.
Proof.
  split.
  - intros (k' & r & A & _ & C). destruct (resolve_path F stor _ _ _ _ A C) as (rest & H & _). exists rest. exact H.
  - intros (rest & H). eapply spath_resolves_chain. exact H.
Qed.

Lemma spath_impl (F G : rec -> Prop) stor : (forall r, F r -> G r) ->
  forall rest k, spath F stor k rest -> spath G stor k rest.
Proof.
  intro HI. induction rest as [|k' t IH]; intros k H; cbn [spath] in *.
  - destruct H as (r & A & B & C). exists r. auto.
  - destruct H as [A B]. split; [exact A | apply IH; exact B].
Qed.

(* one-hop resolution is the special case of chains of length 0 or 1 *)
Lemma resolves_to_spath (F : rec -> Prop) stor k :
  resolves_to F stor k -> exists tl, length tl <= 1 /\ spath F stor k tl.
Proof.
  intros (k' & r & H & Hr & Hf). cbn [resolve] in H.
  destruct (lookup stor k) as [r0|] eqn:Hk; [|discriminate].
  destruct (r_ref r0) as [t|] eqn:Hr0.
  - destruct (lookup stor t) as [r1|] eqn:Ht; [|discriminate].
    destruct (r_ref r1) eqn:Hr1; [discriminate|]. injection H as <- <-.
    exists [t]. split; [cbn; lia|]. split; [exists r0; auto | exists r1; auto].
  - injection H as <- <-. exists []. split; [cbn; lia | exists r0; auto].
Qed.

Theorem resolves_to_chain (F : rec -> Prop) stor k : resolves_to F stor k -> resolves_chain F stor k.
Proof. intro H. destruct (resolves_to_spath F stor k H) as (tl & _ & Hs). eapply spath_resolves_chain. exact Hs. Qed.

(* ------------------------------------------------- the edges of a chain *)

Fixpoint path_edges (k : key) (rest : list key) : list (key * key) :=
  match rest with [] => [] | k' :: t => (k, k') :: path_edges k' t end.

(* every edge is stored: its source holds a replaced-ID record naming its target *)
Definition edges_in (stor : list (key * rec)) (E : list (key * key)) : Prop :=
  forall k t, In (k, t) E -> exists r, lookup stor k = Some r /\ r_ref r = Some t.

(* the save discipline that keeps the edges: whatever is written under the
   source of an edge names the edge's target *)
Definition chainK (E : list (key * key)) (k : key) (r : rec) : Prop :=
  forall t, In (k, t) E -> r_ref r = Some t.

Lemma spath_app (F : rec -> Prop) stor : forall rest k tl,
  edges_in stor (path_edges k rest) -> spath F stor (last rest k) tl -> spath F stor k (rest ++ tl).
Proof.
  induction rest as [|k' t IH]; intros k tl HE H; [exact H|].
  rewrite last_cons in H. cbn [app spath]. split.
  - apply HE. left. reflexivity.
  - apply IH; [|exact H]. intros a b Hin. apply HE. right. exact Hin.
Qed.

Lemma spath_edges (F : rec -> Prop) stor : forall rest k, spath F stor k rest -> edges_in stor (path_edges k rest).
Proof.
  induction rest as [|k' t IH]; intros k H a b Hin; cbn [path_edges] in Hin; [destruct Hin|].
  destruct H as [Hk Ht]. destruct Hin as [E|Hin]; [injection E as <- <-; exact Hk | eapply IH; eassumption].
Qed.

(* the lifting step: the chain's edges are stored and its last ID resolves in
   at most one hop (what the existing theorems give), so its first ID resolves *)
Theorem lift_chain (F : rec -> Prop) stor k0 rest :
  edges_in stor (path_edges k0 rest) -> resolves_to F stor (last rest k0) -> resolves_chain F stor k0.
Proof.
  intros HE HR. destruct (resolves_to_spath F stor _ HR) as (tl & _ & Hs).
  eapply spath_resolves_chain. eapply spath_app; eassumption.
Qed.

Lemma edges_in_apply E (sg : sgT) e :
  edges_in (fst sg) E -> QK (chainK E) e -> edges_in (fst (apply_ev sg e)) E.
Proof.
  destruct sg as [stor gr]. intros HE (_ & Hd & HK) k t Hin. destruct (HE k t Hin) as (r & A & B).
  destruct e; try (exists r; split; assumption); cbn [apply_ev fst] in *; [|discriminate].
  destruct ok; [|exists r; split; assumption]. cbn [fst].
  destruct (key_eq_dec k k0) as [->|Hne].
  - exists r0. rewrite lookup_upsert_same. split; [reflexivity|]. eapply HK; [reflexivity | exact Hin].
  - exists r. rewrite lookup_upsert_other by exact Hne. split; assumption.
Qed.

Lemma steps_edges E l : forall sg,
  edges_in (fst sg) E -> Forall (QK (chainK E)) l ->
  steps_ok (fun sg => edges_in (fst sg) E) sg l /\ edges_in (fst (replay l sg)) E.
Proof.
  intros sg H HF. apply (steps_inv (fun sg => edges_in (fst sg) E) (QK (chainK E))); try assumption.
  intros sg0 e. apply edges_in_apply.
Qed.

Lemma steps_ok_and (I1 I2 : sgT -> Prop) l : forall sg,
  steps_ok I1 sg l -> steps_ok I2 sg l -> steps_ok (fun x => I1 x /\ I2 x) sg l.
Proof. induction l as [|e l IH]; intros sg H1 H2; cbn [steps_ok] in *; intuition. Qed.

Lemma chainK_codec E cf k r : chainK E k r -> chainK E k (codec cf r). Proof. exact (fun H => H). Qed.
Lemma chainK_access E k r t : chainK E k r -> chainK E k (set_access r t). Proof. exact (fun H => H). Qed.
Lemma chainK_created E k r t : chainK E k r -> chainK E k (set_created r t). Proof. exact (fun H => H). Qed.
Lemma chainK_user E k r u : chainK E k r -> chainK E k (set_user r u). Proof. exact (fun H => H). Qed.

(* ------------------------------------- RegenerateID keeps the chain's edges *)

Section RegenChain.
  Variable E : list (key * key).

  Lemma regenerate_chain_kept s o ob s' res cks :
    J (chainK E) s -> hget s o = Some ob -> regenerate s o = (s', res, cks) ->
    (forall o', ~ In (KGen (supply s), o') (cache s)) ->
    (forall t, ~ In (KGen (supply s), t) E) -> (forall t, ~ In (o_id ob, t) E) ->
    edges_in (store s) E ->
    exists l, ext s s' l /\ steps_ok (fun sg => edges_in (fst sg) E) (sg_of s) l.
  Proof.
    intros HJ Ho HR Hnc Hnid Hold HE.
    assert (Hv : forall r, chainK E (KGen (supply s)) r) by (intros r t Hin; exfalso; eapply Hnid; exact Hin).
    destruct (regenerate_safe (chainK E) (chainK E)
                (chainK_codec E) (chainK_access E) (chainK_created E)
                (chainK_codec E) (chainK_access E) (chainK_created E)
                _ _ _ _ _ _ HJ Ho HR Hnc (Hv _) (Hv _)) as (l1 & b1 & HQ1 & HK1 & _ & Hcase).
    { intros k r _ H. exact H. }
    destruct Hcase as [(-> & Xe & _)|(-> & l2 & rr & b2 & HQ2 & Hrr & Xe & _)].
    - eexists. split; [exact Xe|]. cbn [steps_ok]. rewrite apply_draw. split; [exact HE|].
      apply steps_edges; [exact HE|]. apply Forall_app. split; [exact HQ1|].
      constructor; [apply QK_save; exact HK1 | constructor].
    - eexists. split; [exact Xe|]. cbn [steps_ok]. rewrite apply_draw. split; [exact HE|].
      apply steps_edges; [exact HE|]. apply Forall_app. split; [exact HQ1|].
      constructor; [apply QK_save; exact HK1|]. apply Forall_app. split; [exact HQ2|].
      constructor; [|constructor]. apply QK_save. intros t Hin. exfalso. eapply Hold. exact Hin.
  Qed.
End RegenChain.

(* --------------------------------------------- LogIn keeps the chain's edges *)

Section LoginChain.
  Variables (s : st) (E : list (key * key)).
  Let nid := KGen (supply s).
  Let K := not_key nid (chainK E).

  Lemma K_codec_c cf k r : K k r -> K k (codec cf r). Proof. exact (fun H => H). Qed.
  Lemma K_access_c k r t : K k r -> K k (set_access r t). Proof. exact (fun H => H). Qed.
  Lemma K_user_c k r u : K k r -> K k (set_user r u). Proof. exact (fun H => H). Qed.

  Lemma QK_chain l : Forall (QK K) l -> Forall (QK (chainK E)) l.
  Proof. apply Forall_impl. intro e. apply QK_mono. intros k r [_ H]. exact H. Qed.

  Lemma login_chain_kept o i u ex s' res cks :
    J K s -> cok s -> tracked K s o i -> login s o u ex = (s', res, cks) ->
    (forall t, ~ In (nid, t) E) -> (forall t, ~ In (i, t) E) -> edges_in (store s) E ->
    exists l, ext s s' l /\ steps_ok (fun sg => edges_in (fst sg) E) (sg_of s) l.
  Proof.
    intros HJ Hc Ht HL Hnid Hold HE.
    destruct (login_pre K K_codec_c K_access_c K_user_c _ _ _ _ _ _ _ _ HJ Hc Ht HL)
      as (l0 & HQ0 & [(X0 & _)|(sC & obC & r2 & X0 & HJC & _ & _ & _ & HoC & HidC & _ & _ & _ & _ & HR & _ & _)]).
    - exists l0. split; [exact X0|]. apply steps_edges; [exact HE | apply QK_chain; exact HQ0].
    - pose proof (supply_ext _ _ _ _ X0 HQ0) as Hsup.
      destruct (steps_edges E l0 (sg_of s) HE (QK_chain _ HQ0)) as [S0 E0].
      rewrite <- (sg_ext _ _ _ X0) in E0.
      destruct (regenerate_chain_kept E sC o obC s' r2 cks) as (lR & XR & SR); try assumption.
      + eapply J_mono; [|exact HJC]. intros k r [_ H]. exact H.
      + rewrite Hsup. eapply J_not_key_uncached. exact HJC.
      + rewrite Hsup. exact Hnid.
      + rewrite HidC. exact Hold.
      + exists (l0 ++ lR). split; [eapply ext_trans; eassumption|].
        apply steps_ok_app. split; [exact S0|]. rewrite <- (sg_ext _ _ _ X0). exact SR.
  Qed.
End LoginChain.

(* ------------------------------------------- the statements for Properties *)

(* The replaced-ID records k0 -> k1 -> .. (rest) are in the store, and a cached
   copy of any of them names the same target (write-through gives the second
   clause from the first: chain_mem_of_wt). *)
Definition chain_mem (s : st) (k0 : key) (rest : list key) : Prop :=
  edges_in (store s) (path_edges k0 rest) /\
  (forall k t o ob, In (k, t) (path_edges k0 rest) -> lookup (cache s) k = Some o -> hget s o = Some ob ->
     r_ref (o_rec ob) = Some t).

Lemma chain_mem_of_wt s k0 rest : wt_ok s -> edges_in (store s) (path_edges k0 rest) -> chain_mem s k0 rest.
Proof.
  intros Hwt HE. split; [exact HE|]. intros k t o ob Hin Hl Ho.
  destruct (Hwt _ _ _ Hl Ho) as (r & Hs & Hd). destruct (HE k t Hin) as (r' & Hs' & Hr').
  apply durable_ref in Hd. cbn in Hd. congruence.
Qed.

Lemma chain_mem_J s k0 rest :
  cache_ok s -> nodup_ok s -> chain_mem s k0 rest -> J (chainK (path_edges k0 rest)) s.
Proof.
  intros Hc [Hn1 _] [HE HC]. destruct (cache_ok_cv _ Hc Hn1) as [Hcv _]. split; [exact Hcv|]. split.
  - intros k o ob Hi Ho t Hin. eapply HC; [exact Hin | apply NoDup_lookup; eassumption | exact Ho].
  - intros k r Hl t Hin. destruct (HE k t Hin) as (r' & A & B). congruence.
Qed.

Lemma chain_sources s o ob E :
  fresh_ok s -> holds s o ob -> edges_in (store s) E ->
  (forall t, ~ In (KGen (supply s), t) E) /\ (forall t, ~ In (o_id ob, t) E).
Proof.
  intros Hf (Ho & Hr & _ & r0 & Hs0 & Hd) HE. split; intros t Hin; destruct (HE _ _ Hin) as (r & A & B).
  - destruct Hf as (_ & Hf2 & _). apply lookup_In in A. destruct (Hf2 _ _ A) as [Hd' _].
    apply key_drawn_ne in Hd'. congruence.
  - apply durable_ref in Hd. cbn in Hd. congruence.
Qed.

Lemma frozen_edges s l E :
  steps_ok (fun sg => edges_in (fst sg) E) (sg_of s) l -> forall n, edges_in (frozen s l n) E.
Proof. intros H n. apply (steps_frozen (fun stor => edges_in stor E)). exact H. Qed.

Theorem chain_resolves_regenerate s o ob k0 rest s' res cks :
  cache_ok s -> nodup_ok s -> fresh_ok s -> holds s o ob ->
  chain_mem s k0 rest -> last rest k0 = o_id ob ->
  regenerate s o = (s', res, cks) ->
  let D := dat (o_rec ob) in let U := uid (o_rec ob) in let nid := KGen (supply s) in
  exists l, appended s s' l /\
    (forall n, resolves_chain (full D U) (frozen s l n) k0) /\
    (res = Ok tt -> frozen s l (length l) = store s' /\
                    spath (full D U) (store s') k0 (rest ++ [nid]) /\
                    resolves_chain (full D U) (store s') nid).
Proof.
  intros Hc Hn Hf Hh Hm Hlast HR D U nid.
  destruct (resolves_regenerate s o ob s' res cks Hc Hn Hf Hh HR) as (l & Hl & Hold & Hnew).
  pose proof Hm as [HE _].
  destruct (chain_sources s o ob _ Hf Hh HE) as [Hs1 Hs2].
  pose proof Hh as (Ho & _).
  destruct (regenerate_chain_kept _ s o ob s' res cks (chain_mem_J s k0 rest Hc Hn Hm) Ho HR) as (l' & X & S); try assumption.
  { intros o' Hi. destruct Hf as (Hf1 & _). apply Hf1 in Hi. apply key_drawn_ne in Hi. congruence. }
  assert (l' = l) by (eapply appended_unique; [apply (x_evs _ _ _ X) | exact Hl]). subst l'.
  exists l. split; [exact Hl|]. split.
  - intro n. eapply lift_chain; [apply frozen_edges; exact S|]. rewrite Hlast. apply Hold.
  - intro Hok. destruct (Hnew Hok) as (Hfz & Hres & _). split; [exact Hfz|].
    assert (HE' : edges_in (store s') (path_edges k0 rest)).
    { rewrite <- Hfz. apply frozen_edges. exact S. }
    split; [|apply resolves_to_chain; exact Hres].
    assert (HJ := J_res_init s o ob (full D U) Hc Hn Hf Hh (conj eq_refl eq_refl) (full_durable s ob)).
    pose proof Hh as (_ & Hr & _ & r0 & Hs0 & _).
    destruct (regenerate_resolves s (o_id ob) (full D U) (full_codec D U) (full_access D U) (full_created D U)
                o ob s' res cks) as (l2 & _ & _ & Hnew2); try assumption; try reflexivity.
    + eapply J_mono; [|exact HJ]. intros k r [_ H]. exact H.
    + split; [exact Hr | split; reflexivity].
    + congruence.
    + eapply holds_id_drawn; eassumption.
    + eapply J_not_key_uncached. exact HJ.
    + destruct (Hnew2 Hok) as (r & rr & A & [B1 B2] & C & E0).
      apply spath_app; [exact HE'|]. rewrite Hlast. split; [exists rr; auto|]. exists r. auto.
Qed.

Theorem chain_resolves_login s o ob k0 rest u ex s' res cks :
  cache_ok s -> nodup_ok s -> fresh_ok s -> holds s o ob ->
  chain_mem s k0 rest -> last rest k0 = o_id ob ->
  login s o u ex = (s', res, cks) ->
  let D := dat (o_rec ob) in let nid := KGen (supply s) in
  exists l, appended s s' l /\
    (forall n, resolves_chain (fun r => dat r = D) (frozen s l n) k0) /\
    (res = Ok tt -> frozen s l (length l) = store s' /\
                    spath (fun r => dat r = D /\ uid r = Some (fst u)) (store s') k0 (rest ++ [nid]) /\
                    resolves_chain (fun r => dat r = D /\ uid r = Some (fst u)) (store s') nid) /\
    ((exists e, res = Err e) \/
     exists l0' r0 lR, l = (l0' ++ [EvSave (o_id ob) r0 true]) ++ lR /\ uid r0 = Some (fst u) /\ dat r0 = D /\ r_ref r0 = None /\
       forall m, resolves_chain (fun r => dat r = D /\ uid r = Some (fst u))
                   (fst (fold_left apply_ev ((l0' ++ [EvSave (o_id ob) r0 true]) ++ firstn m lR) (store s, graves s))) k0).
Proof.
  intros Hc Hn Hf Hh Hm Hlast HL D nid.
  destruct (resolves_login s o ob u ex s' res cks Hc Hn Hf Hh HL) as (l & Hl & Hold & Hnew & Husr).
  pose proof Hm as [HE _].
  destruct (chain_sources s o ob _ Hf Hh HE) as [Hs1 Hs2].
  pose proof Hh as (Ho & _).
  destruct (cache_ok_cv _ Hc (proj1 Hn)) as [_ Hcok].
  assert (HJ : J (not_key (KGen (supply s)) (chainK (path_edges k0 rest))) s).
  { pose proof (chain_mem_J s k0 rest Hc Hn Hm) as (A & B & C). split; [exact A|]. split.
    - intros k o' ob' Hi Ho'. split; [|eapply B; eassumption].
      apply key_drawn_ne. destruct Hf as (Hf1 & _). eapply Hf1. exact Hi.
    - intros k r Hk. split; [|apply C; exact Hk].
      apply key_drawn_ne. destruct Hf as (_ & Hf2 & _). apply lookup_In in Hk. apply (Hf2 _ _ Hk). }
  destruct (login_chain_kept s _ o (o_id ob) u ex s' res cks HJ Hcok) as (l' & X & S); try assumption.
  { apply tracked_init; [exact Ho|]. split; [eapply holds_id_drawn; eassumption|]. intros t Hin. exfalso. eapply Hs2. exact Hin. }
  assert (l' = l) by (eapply appended_unique; [apply (x_evs _ _ _ X) | exact Hl]). subst l'.
  exists l. split; [exact Hl|]. split; [|split].
  - intro n. eapply lift_chain; [apply frozen_edges; exact S|]. rewrite Hlast. apply Hold.
  - intro Hok. destruct (Hnew Hok) as (Hfz & Hres & _). split; [exact Hfz|].
    assert (HE' : edges_in (store s') (path_edges k0 rest)).
    { rewrite <- Hfz. apply frozen_edges. exact S. }
    split; [|apply resolves_to_chain; exact Hres].
    assert (HF0 : forall r0, durable r0 = durable (codec (conf s) (o_rec ob)) -> dat r0 = D).
    { intros r0 H. apply durable_content in H. apply H. }
    assert (HJ2 := J_res_init s o ob (fun r => dat r = D) Hc Hn Hf Hh eq_refl HF0).
    pose proof Hh as (_ & Hr & _ & r0 & Hs0 & _).
    assert (Ht2 : tracked (not_key (KGen (supply s)) (at_keys (fun k => k = o_id ob) (fun r => r_ref r = None /\ dat r = D))) s o (o_id ob)).
    { apply tracked_init; [exact Ho|]. split; [eapply holds_id_drawn; eassumption|]. intros _. split; [exact Hr | reflexivity]. }
    assert (Hold2 : lookup (store s) (o_id ob) <> None) by congruence.
    destruct (login_resolves s (o_id ob) D o u ex s' res cks HJ2 Hcok Ht2 Hold2 HL) as (l2 & _ & _ & Hnew2).
    destruct (Hnew2 Hok) as (r & rr & A & B & C & E0 & G & H).
    apply spath_app; [exact HE'|]. rewrite Hlast. split; [exists rr; auto|]. exists r. auto.
  - destruct Husr as [He|(l0' & r0 & lR & El & A & B & C & Hm')]; [left; exact He|].
    right. exists l0', r0, lR. split; [exact El|]. split; [exact A|]. split; [exact B|]. split; [exact C|].
    intro m. eapply lift_chain; [|rewrite Hlast; apply Hm'].
    set (a := l0' ++ [EvSave (o_id ob) r0 true]) in *.
    replace (a ++ firstn m lR) with (firstn (length a + m) l) by (rewrite El; apply firstn_app_2).
    apply (steps_ok_firstn (fun sg => edges_in (fst sg) (path_edges k0 rest))). exact S.
Qed.

(* ------------------------------------------ the definitions, spelled out *)

Lemma resolves_chain_def (F : rec -> Prop) stor k :
  resolves_chain F stor k <-> exists k' r, resolve (length stor) stor k = Some (k', r) /\ r_ref r = None /\ F r.
Proof. reflexivity. Qed.

Lemma spath_def (F : rec -> Prop) stor k :
  (spath F stor k [] <-> exists r, lookup stor k = Some r /\ r_ref r = None /\ F r) /\
  (forall k' t, spath F stor k (k' :: t) <-> (exists r, lookup stor k = Some r /\ r_ref r = Some k') /\ spath F stor k' t).
Proof. split; [reflexivity | intros; reflexivity]. Qed.

Lemma spath_distinct_short (F : rec -> Prop) stor rest k :
  spath F stor k rest -> NoDup (k :: rest) /\ length rest < length stor.
Proof. intro H. split; [eapply spath_nodup | eapply spath_length]; exact H. Qed.

Lemma chain_mem_def s k0 rest :
  chain_mem s k0 rest <->
  (forall k t, In (k, t) (path_edges k0 rest) -> exists r, lookup (store s) k = Some r /\ r_ref r = Some t) /\
  (forall k t o ob, In (k, t) (path_edges k0 rest) -> lookup (cache s) k = Some o -> hget s o = Some ob ->
     r_ref (o_rec ob) = Some t).
Proof. reflexivity. Qed.

Lemma path_edges_def k :
  path_edges k [] = [] /\ forall k' t, path_edges k (k' :: t) = (k, k') :: path_edges k' t.
Proof. split; [reflexivity | intros; reflexivity]. Qed.
