(* C10C (audit task A9), part 14: orphan copies when the client presented the
   session's CURRENT ID (scenario regen_crash of C10H: a cached, acceptable
   session, not due; script [RegenerateID]; the process stops after n
   persistence calls). The world after the crash, with the orphan facts, and
   "nobody is ever led to the orphan" for this scenario. *)
From Sessions Require Import Model.Base Model.Sess Model.Hist Proofs.SessDefs
  Proofs.HistInv Proofs.HistInv2 Proofs.HistInv3.
From Sessions Require Proofs.CrashFault Proofs.CrashFault2 Proofs.CrashFault3 Proofs.CrashFault4 Proofs.CrashFault5
  Proofs.CrashFault6 Proofs.CrashFault8 Proofs.LiveHist4 Proofs.LiveHist8 Proofs.UserHist.
From Sessions Require Import Proofs.CrashRestart Proofs.CrashRestart2 Proofs.CrashRestart3 Proofs.CrashRestart4
  Proofs.CrashChain Proofs.CrashChain2 Proofs.CrashChain3 Proofs.CrashChain4 Proofs.CrashChain5 Proofs.CrashChain7
  Proofs.CrashChain8 Proofs.CrashChain9 Proofs.CrashChain10 Proofs.CrashChain11.
From Coq Require Import Lia.
Import CrashFault CrashFault2 CrashFault3 CrashFault4 CrashFault5 CrashFault6 LiveHist4.
Local Open Scope Z_scope.

Theorem crash_store_current w r n k o ob :
  regen_crash w r n k o ob ->
  let D := dat (o_rec ob) in let U := uid (o_rec ob) in
  let s' := w_st (fst (step w (HReq r))) in let nid := KGen (supply (w_st w)) in
  exists l,
    l = rev (evs (req_end w r)) /\
    cache s' = [] /\ plan s' = [] /\ pending s' = [] /\ now s' = now (w_st w) /\ conf s' = conf (w_st w) /\
    (supply (w_st w) <= supply s')%N /\
    store s' = frozen (w_st w) l n /\
    resolves_chain (full D U) (store s') k /\
    ((length l <= n)%nat -> spath (full D U) (store s') k [nid] /\ spath (full D U) (store s') nid []) /\
    nodangling_rel (Xmiss (w_st w)) (store s') /\
    (forall x, lookup (store s') nid = Some x -> r_ref x = None /\ full D U x) /\
    (lookup (store s') nid <> None -> (supply (w_st w) < supply s')%N) /\
    (forall k' x, lookup (store s') k' = Some x -> r_ref x = Some nid -> k' = k).
Proof.
  intros [Hinv Hpl Hcr Hsc Hk Hca Hob Hnr (r0 & Hs0 & Hd0) Hv Hnd Hbs Hg Hpend]. cbv zeta.
  destruct (LiveHist8.req_s1_sess_inv w r Hinv) as (Hp1 & Hc1 & Hn1 & Hf1).
  set (s1 := req_s1 w r) in *. set (q := req_q w r) in *.
  set (D := dat (o_rec ob)). set (U := uid (o_rec ob)).
  assert (Hid : o_id ob = k).
  { destruct Hinv as (_ & Hc & _). destruct (Hc k o Hca) as [ob' [Ho' Hid']]. congruence. }
  assert (E : start s1 q = (hupd s1 o (upd_req s1 q), Ok (Some o), [])).
  { rewrite start_eq. change (q_cookie q) with (pres w r). rewrite Hk.
    pose proof (cache_get_ff s1 k Hp1) as Hg1. change (cache s1) with (cache (w_st w)) in Hg1. rewrite Hca in Hg1.
    rewrite Hg1. change (hget s1 o) with (hget (w_st w) o). rewrite Hob.
    apply sf_plain; assumption. }
  set (s2 := hupd s1 o (upd_req s1 q)) in *.
  set (ob2 := mkObj (o_id ob) (upd_req s1 q (o_rec ob))).
  assert (Ho1 : hget s1 o = Some ob) by exact Hob.
  assert (Es2 : s2 = hput s1 o ob2) by (unfold s2; rewrite (hupd_spec _ _ _ _ Ho1); reflexivity).
  assert (Ho2 : hget s2 o = Some ob2).
  { rewrite Es2. apply hget_hput_same. eapply hget_Some_lt. exact Ho1. }
  assert (Hq2 : forall d k', In (d, k') (pending s2) -> now s2 < d).
  { rewrite Es2. exact Hpend. }
  destruct (fire_due_same s2 Hq2) as (B1 & B2 & B3 & B4 & B5 & B6 & B7 & B8 & B9 & B10).
  set (s2' := fire_due s2) in *.
  assert (Hat : UserHist.handler_at w r [] s2' o).
  { exists s2, [], [], []. split; [exact E|]. split; reflexivity. }
  destruct (UserHist.handler_at_inv w r [] s2' o Hinv Hat) as [Hsi _].
  (* the discipline *)
  assert (Hpr : presented s1 k D U).
  { split.
    - exists r0. split; [exact Hs0|]. split; [apply durable_ref in Hd0; cbn in Hd0; congruence | apply durable_content in Hd0; exact Hd0].
    - intros o' ob' Hl Ho'. change (cache s1) with (cache (w_st w)) in Hl. rewrite Hca in Hl. injection Hl as <-.
      assert (ob' = ob) by congruence. subst ob'. split; [exact Hnr | split; reflexivity]. }
  assert (Hcm : chain_mem s1 k []) by (split; [intros a b [] | intros a b o' ob' []]).
  pose proof (Kc_init s1 k [] D U Hc1 Hn1 Hf1 Hcm Hpr) as HJ1. cbn [last path_edges] in HJ1.
  assert (HKob : Kc s1 [] k (full D U) k (o_rec ob)).
  { destruct HJ1 as (_ & B & _). eapply (B k o ob); [apply lookup_In; exact Hca | exact Ho1]. }
  assert (HJ2 : J (Kc s1 [] k (full D U)) s2).
  { rewrite Es2. eapply J_hput; [exact HJ1 | exact Ho1 |]. intros k' Hk'. cbn [ob2 o_rec]. unfold upd_req.
    apply (Kc_book s1 [] k (full D U) (fun x t a u h => h)). exact Hk'. }
  assert (X0 : ext s1 s2' []).
  { change (@nil ev) with (@nil ev ++ @nil ev). eapply ext_trans; [apply (ext_hupd s1 o (upd_req s1 q))|].
    fold s2. apply ext_mem; assumption. }
  assert (Heq : forall o', hget s2' o' = hget s2 o') by (intro o'; unfold hget; rewrite B1; reflexivity).
  assert (Hend : req_end w r = fst (fst (run_script s2' o (had_cookie (req_q w r)) [SRegen]))).
  { unfold req_end. rewrite Hpl, Hsc. unfold req_body.
    change (set_tb (set_plan (set_evs (w_st w) []) []) (rq_tb r)) with s1. fold q. rewrite E. cbv zeta.
    fold s2'. destruct (run_script s2' o (had_cookie q) [SRegen]) as [[s3 sr] cks']. reflexivity. }
  destruct (crash_store_of_setup w r n k [] D U s2' o ob2 [] Hcr Hpend Hg Hsi X0 (Forall_nil _) HJ1)
    as (l & A1 & A2 & A3 & A4 & A5 & A6 & A7 & A8 & _ & A10 & A11 & A12 & A13 & A14 & A15).
  - eapply J_same; [exact B1 | exact B2 | exact B3 | exact HJ2].
  - rewrite Heq. exact Ho2.
  - exact Hid.
  - cbn [last ob2 o_rec]. unfold upd_req. apply (Kc_book s1 [] k (full D U) (fun x t a u h => h)). exact HKob.
  - rewrite B5, Es2. reflexivity.
  - cbn [last]. intro Hx. assert (Hx' : lookup (store (w_st w)) k = None) by exact Hx. congruence.
  - intros a b [].
  - exact Hend.
  - exists l. cbn [last app] in *. auto 15.
Qed.

(* the orphan stage of this scenario satisfies the invariant OI, so that in every
   continuation that does not forge the orphan's ID nobody presents it and no
   response carries it *)
Theorem orphan_never_presented_current w r n k o ob hs :
  regen_crash w r n k o ob ->
  let w' := fst (step w (HReq r)) in let nid := KGen (supply (w_st w)) in
  (forall c, jar_of (w_jars w) c <> CKey nid) ->
  lookup (store (w_st w')) nid <> None ->
  (exists y, lookup (store (w_st w')) k = Some y /\ r_ref y = None) ->
  Forall (no_forge nid) hs ->
  (* two full copies, nothing delivered *)
  (exists x y, lookup (store (w_st w')) nid = Some x /\ lookup (store (w_st w')) k = Some y /\
               r_ref x = None /\ r_ref y = None /\ dat x = dat (o_rec ob) /\ uid x = uid (o_rec ob)) /\
  ob_cookies (snd (step w (HReq r))) = [] /\ w_jars w' = w_jars w /\
  (forall hs', snd (gen_id (w_st (after w' hs'))) <> nid) /\
  forall hs1 h hs2, hs = hs1 ++ h :: hs2 -> untouched nid (after w' hs1) h.
Proof.
  intros Hrc w' nid Hjar Hx (y & Hy & Hry) Hnf.
  destruct (crash_store_current w r n k o ob Hrc) as (l & _ & C1 & _ & _ & _ & _ & _ & _ & _ & _ & _ & Horph & Hsup & Hunref).
  fold w' in C1, Horph, Hsup, Hunref. fold nid in Horph, Hsup, Hunref.
  destruct (crash_obs w r n (gc_crash _ _ _ _ _ _ Hrc)) as (_ & Hck & _ & _ & Hj). fold w' in Hj.
  destruct (lookup (store (w_st w')) nid) as [x|] eqn:Ex; [|congruence].
  destruct (Horph x eq_refl) as [Hrx [Hdx Hux]].
  assert (Hm : (supply (w_st w) < supply (w_st w'))%N) by (apply Hsup; discriminate).
  assert (HO : OI (supply (w_st w)) w').
  { split; [exact Hm|]. split; [|rewrite Hj; exact Hjar].
    split; [intros k' o' Hin; rewrite C1 in Hin; destruct Hin|]. split.
    - intros k' o' ob' Hin. rewrite C1 in Hin. destruct Hin.
    - intros k' z Hk' Hz. pose proof (Hunref k' z Hk' Hz) as ->. congruence. }
  split; [exists x, y; auto 10|]. split; [exact Hck|]. split; [exact Hj|]. split.
  - intro hs'. apply never_generated_again. exact Hm.
  - destruct (OI_history _ hs _ HO Hnf) as [_ Hall]. exact Hall.
Qed.
