(* Lock-table protocol (C13/C14): finite-map and counting lemmas, the inductive
   invariant of DESIGN.md Appendix A, and the effect of the model's building blocks. *)
From Sessions Require Import Model.Base Model.Mutex.
From Coq Require Import Lia.

(* ---- finite maps, list update, counting ---- *)

Lemma tget_tdel k t k' : tget (tdel k t) k' = if Nat.eqb k k' then None else tget t k'.
Proof.
  induction t as [|[k1 e] t IH]; simpl.
  - destruct (Nat.eqb k k'); reflexivity.
  - destruct (Nat.eqb k1 k) eqn:E1; simpl.
    + apply Nat.eqb_eq in E1; subst k1. rewrite IH.
      destruct (Nat.eqb k k') eqn:E2; reflexivity.
    + rewrite IH. destruct (Nat.eqb k1 k') eqn:E2; [|reflexivity].
      apply Nat.eqb_eq in E2; subst k1. rewrite Nat.eqb_sym, E1. reflexivity.
Qed.

Lemma tget_tset k e t k' : tget (tset k e t) k' = if Nat.eqb k k' then Some e else tget t k'.
Proof.
  unfold tset; simpl. rewrite tget_tdel. destruct (Nat.eqb k k'); reflexivity.
Qed.

Lemma lkt_tset k e t k' : lkt (tset k e t) k' = if Nat.eqb k k' then locks e else lkt t k'.
Proof. unfold lkt. rewrite tget_tset. destruct (Nat.eqb k k'); reflexivity. Qed.

Lemma nth_error_upd {A} (l : list A) i x j y :
  nth_error l i = Some y ->
  nth_error (upd i x l) j = if Nat.eqb i j then Some x else nth_error l j.
Proof.
  revert i j; induction l as [|a l IH]; intros [|i] [|j] H; simpl in *; try discriminate; try reflexivity.
  apply IH; assumption.
Qed.

Lemma nth_error_upd_none {A} (l : list A) i x : nth_error l i = None -> upd i x l = l.
Proof.
  revert i; induction l as [|a l IH]; intros [|i] H; simpl in *; try discriminate; try reflexivity.
  rewrite IH; auto.
Qed.

Ltac ssimp := cbn [gs tbl mgr pend nextc set_g set_mgr set_tbl gc gscript locks ch].
Tactic Notation "ssimp" "in" hyp(H) := cbn [gs tbl mgr pend nextc set_g set_mgr set_tbl gc gscript locks ch] in H.

Definition b2n (b : bool) : nat := if b then 1 else 0.

Lemma cnt_upd {A} (p : A -> bool) (l : list A) i x y :
  nth_error l i = Some y ->
  cnt p (upd i x l) + b2n (p y) = cnt p l + b2n (p x).
Proof.
  unfold cnt. revert i; induction l as [|a l IH]; intros [|i] H; simpl in *; try discriminate.
  - injection H as ->. destruct (p x), (p y); simpl; lia.
  - specialize (IH _ H). destruct (p a); simpl; lia.
Qed.

Lemma cnt_pos_ex {A} (p : A -> bool) (l : list A) :
  0 < cnt p l -> exists i x, nth_error l i = Some x /\ p x = true.
Proof.
  unfold cnt. induction l as [|a l IH]; simpl; [lia|].
  destruct (p a) eqn:E.
  - intros _. exists 0, a. split; [reflexivity | assumption].
  - intro H. destruct (IH H) as [i [x [H1 H2]]]. exists (S i), x. split; assumption.
Qed.

Lemma cnt_ge_in {A} (p : A -> bool) (l : list A) i x :
  nth_error l i = Some x -> p x = true -> 1 <= cnt p l.
Proof.
  unfold cnt. revert i; induction l as [|a l IH]; intros [|i] H Hp; simpl in *; try discriminate.
  - injection H as ->. rewrite Hp. simpl. lia.
  - specialize (IH _ H Hp). destruct (p a); simpl; lia.
Qed.

(* two different positions satisfying p give a count of at least two *)
Lemma cnt_two {A} (p : A -> bool) (l : list A) i j x y :
  i <> j -> nth_error l i = Some x -> nth_error l j = Some y ->
  p x = true -> p y = true -> 2 <= cnt p l.
Proof.
  unfold cnt. revert i j; induction l as [|a l IH]; intros [|i] [|j] Hne Hi Hj Hx Hy; simpl in *;
    try discriminate; try congruence.
  - injection Hi as ->. rewrite Hx. simpl.
    pose proof (cnt_ge_in p l j y Hj Hy) as H. unfold cnt in H. lia.
  - injection Hj as ->. rewrite Hy. simpl.
    pose proof (cnt_ge_in p l i x Hi Hx) as H. unfold cnt in H. lia.
  - assert (Hne' : i <> j) by congruence.
    specialize (IH i j Hne' Hi Hj Hx Hy). destruct (p a); simpl; lia.
Qed.

(* ---- the invariant ---- *)

Definition base (st : state) (k : nat) : Prop :=
  lk st k = cA st k + cH st k /\ cH st k <= 1 /\ (0 < lk st k -> cH st k = 1).

Definition invk (st : state) (k : nat) : Prop :=
  match mgr st with
  | MIdle | MPurge => base st k
  | MAcq k0 =>
      if Nat.eqb k0 k then
        lk st k + 1 = cA st k + cH st k /\ 1 <= cA st k /\ cH st k <= 1 /\ (0 < lk st k -> cH st k = 1)
      else base st k
  | MAcqSend c k0 =>
      if Nat.eqb k0 k then
        cA st k = 1 /\ cH st k = 0 /\ tget (tbl st) k = Some (mkE 0 c)
      else base st k
  | MRel k0 =>
      if Nat.eqb k0 k then
        (lk st k = cA st k + cH st k + 1 /\ cH st k = 0) \/ (lk st k = 0 /\ cA st k = 0 /\ cH st k = 0)
      else base st k
  | MRelSend c k0 =>
      if Nat.eqb k0 k then
        1 <= cA st k /\ cH st k = 0 /\ tget (tbl st) k = Some (mkE (cA st k) c)
      else base st k
  end.

(* every goroutine blocked on a per-key channel waits on the channel of the
   table's current entry for its key *)
Definition waits_ok (st : state) : Prop :=
  forall g c k r, nth_error (gs st) g = Some (mkG (GWait c k) r) ->
    exists e, tget (tbl st) k = Some e /\ ch e = c.

(* channel identities in the table are fresh-supplied and pairwise distinct *)
Definition chans_ok (st : state) : Prop :=
  (forall k e, tget (tbl st) k = Some e -> ch e < nextc st) /\
  (forall k k' e e', tget (tbl st) k = Some e -> tget (tbl st) k' = Some e' -> ch e = ch e' -> k = k').

Definition Inv (st : state) : Prop := (forall k, invk st k) /\ waits_ok st /\ chans_ok st.

(* reachability by admissible steps *)
Inductive reach (s0 : state) : state -> Prop :=
| reach_init : reach s0 s0
| reach_step st l st' : reach s0 st -> step st l = Some st' -> adm st l -> reach s0 st'.

(* ---- effect of the building blocks ---- *)

Lemma cA_set_g st g x y k :
  nth_error (gs st) g = Some x ->
  cA (set_g st g y) k + b2n (inA k x) = cA st k + b2n (inA k y).
Proof. intro H. unfold cA; simpl. apply cnt_upd; assumption. Qed.

Lemma cH_set_g st g x y k :
  nth_error (gs st) g = Some x ->
  cH (set_g st g y) k + b2n (inH k x) = cH st k + b2n (inH k y).
Proof. intro H. unfold cH; simpl. apply cnt_upd; assumption. Qed.

Lemma get_item_spec k ov st st1 e :
  get_item k ov st = (st1, e) ->
  gs st1 = gs st /\ mgr st1 = mgr st /\ nextc st <= nextc st1 /\ pend st <= pend st1 /\
  tget (tbl st1) k = Some e /\
  (forall k', k' <> k -> tget (tbl st1) k' = tget (tbl st) k') /\
  (forall k', lk st1 k' = lk st k') /\
  ((tget (tbl st) k = Some e /\ st1 = st) \/
   (tget (tbl st) k = None /\ e = mkE 0 (nextc st) /\ nextc st1 = S (nextc st))).
Proof.
  unfold get_item. destruct (tget (tbl st) k) as [e0|] eqn:E; intro H; injection H as <- <-.
  - repeat split; auto; try lia.
  - cbn [gs mgr nextc pend tbl]. split; [reflexivity|]. split; [reflexivity|]. split; [lia|]. split; [lia|].
    split; [rewrite tget_tset, Nat.eqb_refl; reflexivity|].
    split; [|split].
    + intros k' Hk. rewrite tget_tset. destruct (Nat.eqb k k') eqn:E2; [|reflexivity].
      apply Nat.eqb_eq in E2. congruence.
    + intro k'. unfold lk; cbn [tbl]. rewrite lkt_tset. destruct (Nat.eqb k k') eqn:E2; [|reflexivity].
      apply Nat.eqb_eq in E2; subst k'. unfold lkt. rewrite E. reflexivity.
    + right; auto.
Qed.

Lemma get_item_tget_mono k ov st st1 e k' e' :
  get_item k ov st = (st1, e) -> tget (tbl st) k' = Some e' -> tget (tbl st1) k' = Some e'.
Proof.
  intros H H'. destruct (get_item_spec _ _ _ _ _ H) as (_ & _ & _ & _ & Hk & Hother & _ & Hcase).
  destruct (Nat.eq_dec k' k) as [->|Hne].
  - destruct Hcase as [[H1 ->]|[H1 _]]; congruence.
  - rewrite Hother; assumption.
Qed.

Lemma get_item_waits k ov st st1 e :
  get_item k ov st = (st1, e) -> waits_ok st -> waits_ok st1.
Proof.
  intros H W g c k' r Hg.
  destruct (get_item_spec _ _ _ _ _ H) as (Hgs & _).
  rewrite Hgs in Hg. destruct (W _ _ _ _ Hg) as [e' [H1 H2]].
  exists e'. split; [eapply get_item_tget_mono; eassumption | assumption].
Qed.

Lemma get_item_chans k ov st st1 e :
  get_item k ov st = (st1, e) -> chans_ok st -> chans_ok st1.
Proof.
  intros H [C1 C2].
  destruct (get_item_spec _ _ _ _ _ H) as (_ & _ & Hn & _ & Hk & Hother & _ & Hcase).
  destruct Hcase as [[_ ->]|[Hnone [He Hn1]]]; [split; assumption|].
  assert (Hold : forall k' e', tget (tbl st1) k' = Some e' -> k' = k /\ e' = e \/ k' <> k /\ tget (tbl st) k' = Some e').
  { intros k' e' H'. destruct (Nat.eq_dec k' k) as [->|Hne].
    - left. split; congruence.
    - right. split; [assumption|]. rewrite <- Hother; assumption. }
  split.
  - intros k' e' H'. destruct (Hold _ _ H') as [[-> ->]|[_ H2]].
    + subst e; simpl; lia.
    + specialize (C1 _ _ H2). lia.
  - intros k1 k2 e1 e2 H1 H2 Hc.
    destruct (Hold _ _ H1) as [[-> ->]|[Hn1' H1']], (Hold _ _ H2) as [[-> ->]|[Hn2' H2']]; auto.
    + specialize (C1 _ _ H2'). subst e; simpl in Hc. lia.
    + specialize (C1 _ _ H1'). subst e; simpl in Hc. lia.
    + eapply C2; eassumption.
Qed.

Lemma bump_spec f k c st e :
  tget (tbl st) k = Some e -> ch e = c ->
  bump f k c st = set_tbl st (tset k (mkE (f (locks e)) c) (tbl st)).
Proof. intros H <-. unfold bump. rewrite H, Nat.eqb_refl. reflexivity. Qed.

Lemma waits_ok_bump f k c st e :
  tget (tbl st) k = Some e -> ch e = c -> waits_ok st -> waits_ok (bump f k c st).
Proof.
  intros H Hc W. rewrite (bump_spec _ _ _ _ _ H Hc). intros g c' k' r Hg. ssimp in Hg.
  destruct (W _ _ _ _ Hg) as [e' [H1 H2]]. ssimp. rewrite tget_tset.
  destruct (Nat.eqb k k') eqn:E.
  - apply Nat.eqb_eq in E; subst k'. eexists; split; [reflexivity|]. simpl. congruence.
  - exists e'. auto.
Qed.

Lemma chans_ok_bump f k c st e :
  tget (tbl st) k = Some e -> ch e = c -> chans_ok st -> chans_ok (bump f k c st).
Proof.
  intros H Hc [C1 C2]. rewrite (bump_spec _ _ _ _ _ H Hc).
  assert (Hold : forall k' e', tget (tbl (set_tbl st (tset k (mkE (f (locks e)) c) (tbl st)))) k' = Some e' ->
            exists e0, tget (tbl st) k' = Some e0 /\ ch e0 = ch e').
  { ssimp. intros k' e'. rewrite tget_tset. destruct (Nat.eqb k k') eqn:E.
    - apply Nat.eqb_eq in E; subst k'. intro H'; injection H' as <-. exists e; auto.
    - intro H'. exists e'; auto. }
  split.
  - intros k' e' H'. destruct (Hold _ _ H') as [e0 [H1 H2]]. simpl. rewrite <- H2. eapply C1; eassumption.
  - intros k1 k2 e1 e2 H1 H2 Hc'.
    destruct (Hold _ _ H1) as [e1' [H1a H1b]], (Hold _ _ H2) as [e2' [H2a H2b]].
    eapply C2; try eassumption. congruence.
Qed.

(* set_g keeps waits_ok when the new control state is not a wait, or waits on
   the right channel *)
Lemma waits_ok_set_g st g x y :
  nth_error (gs st) g = Some x ->
  (forall c k r, y = mkG (GWait c k) r -> exists e, tget (tbl st) k = Some e /\ ch e = c) ->
  waits_ok st -> waits_ok (set_g st g y).
Proof.
  intros Hx Hy W g' c k r Hg. simpl in Hg. rewrite (nth_error_upd _ _ _ _ _ Hx) in Hg.
  destruct (Nat.eqb g g').
  - injection Hg as ->. simpl. eapply Hy; reflexivity.
  - simpl. eapply W; eassumption.
Qed.
