(* R10, C10: no dangling reference at ANY crash point of ANY fault-free request step
   (any handler script), part 1: the notions and the building blocks.

   X0               a fixed set of excused targets (below: the IDs that were drawn
                    and absent before the step);
   Xg gr t          t is excused: in X0, or in the index gr of deleted IDs
                    (Hist.apply_ev records every ID it deletes from the store);
   NoDang sg            the pair sg = (store, deleted IDs): every replaced-ID record of
                    the store names an ID that the store holds, or an excused one;
   nd_ok s s'       if NoDang holds of s then the call from s to s' appended events
                    (CrashFault.ext) such that NoDang holds after EVERY prefix of them
                    (CrashFault2.steps_ok) - i.e. at every persistence-call
                    boundary inside the call.

   From a state satisfying Gb hb Q0 (C05H's invariant between operations at heap
   mark hb, HistLiftB.v) every building block is nd_ok: cache.Get, cache.Set and a
   direct save of a session's object, cache.Delete, creation, RegenerateID (the new
   ID is saved BEFORE the reference under the old one: CrashFault3's
   regenerate_nodangling_rel), following references, the clean-up pass,
   LogOut(userID). Inside each call the safe-save lemmas of CrashFault2/3/4.v do
   the work flush by flush.

   No axioms; standard library only. *)
From Sessions Require Import Model.Base Model.Sess Model.Hist Proofs.SessDefs
  Proofs.HistInv Proofs.HistInv2 Proofs.HistInv3 Proofs.HistLift Proofs.HistLift2 Proofs.HistLift3
  Proofs.HistLift4 Proofs.HistLiftB.
From Sessions Require Proofs.CrashFault Proofs.CrashFault2 Proofs.CrashFault3 Proofs.CrashFault4.
From Coq Require Import Lia.

Section NoD.
  Variable hb : nat.    (* the heap mark *)
  Variable X0 : key -> Prop.

  Notation sgT := CrashFault2.sgT.
  Notation ext := CrashFault.ext.
  Notation sg_of := CrashFault.sg_of.
  Notation replay := CrashFault.replay.
  Notation steps_ok := CrashFault2.steps_ok.
  Notation ndrel := CrashFault3.nodangling_rel.
  Notation ref_in := CrashFault3.ref_in.
  Notation QK := CrashFault2.QK.
  Notation GQ := (Gb hb Q0).

  Definition Xg (gr : list (key * option N)) (t : key) : Prop := X0 t \/ lookup gr t <> None.

  Definition NoDang (sg : sgT) : Prop := ndrel (Xg (snd sg)) (fst sg).

  Definition nd_ok (s s' : st) : Prop := NoDang (sg_of s) -> exists l, ext s s' l /\ steps_ok NoDang (sg_of s) l.

  (* ------------------------------------------------ the index of deleted IDs only grows *)

  Lemma gr_apply sg e t : lookup (snd sg) t <> None -> lookup (snd (apply_ev sg e)) t <> None.
  Proof.
    destruct sg as [stor gr]. intro H. destruct e as [k ok|u ok|k r ok|k ok|u ok|d]; try exact H; cbn [apply_ev].
    - destruct ok; exact H.
    - destruct ok; [|exact H]. cbn [snd]. destruct (lookup stor k); [|exact H].
      destruct (key_eq_dec t k) as [->|Hne]; [rewrite lookup_upsert_same; discriminate | rewrite lookup_upsert_other by exact Hne; exact H].
  Qed.

  Lemma Xg_apply sg e t : Xg (snd sg) t -> Xg (snd (apply_ev sg e)) t.
  Proof. intros [H|H]; [left; exact H | right; apply gr_apply; exact H]. Qed.

  (* a run that keeps nodangling_rel X for a fixed X below the excuses keeps NoDang *)
  Lemma steps_ND (X : key -> Prop) : forall l sg,
    (forall t, X t -> Xg (snd sg) t) ->
    steps_ok (fun sg => ndrel X (fst sg)) sg l -> steps_ok NoDang sg l.
  Proof.
    induction l as [|e l IH]; intros sg HX H; cbn [CrashFault2.steps_ok] in *.
    - split; [|exact Logic.I]. intros k r t Hl Hr. destruct (proj1 H k r t Hl Hr) as [A|A]; [left; exact A | right; apply HX; exact A].
    - destruct H as [H1 H2]. split.
      + intros k r t Hl Hr. destruct (H1 k r t Hl Hr) as [A|A]; [left; exact A | right; apply HX; exact A].
      + apply IH; [intros t Ht; apply Xg_apply; apply HX; exact Ht | exact H2].
  Qed.

  (* ------------------------------------------------ refl, trans *)

  Lemma steps_ok_last (I : sgT -> Prop) l sg : steps_ok I sg l -> I (replay l sg).
  Proof. intro H. rewrite <- (firstn_all l). apply CrashFault2.steps_ok_firstn. exact H. Qed.

  Lemma nd_ND s s' : nd_ok s s' -> NoDang (sg_of s) -> NoDang (sg_of s').
  Proof.
    intros H H0. destruct (H H0) as (l & X & S). rewrite (CrashFault.x_sg _ _ _ X). apply steps_ok_last. exact S.
  Qed.

  Lemma nd_ok_refl s : nd_ok s s.
  Proof. intro H. exists []. split; [apply CrashFault.ext_refl | split; [exact H | exact Logic.I]]. Qed.

  Lemma nd_ok_trans s1 s2 s3 : nd_ok s1 s2 -> nd_ok s2 s3 -> nd_ok s1 s3.
  Proof.
    intros H12 H23 H0. destruct (H12 H0) as (l1 & X1 & S1).
    destruct (H23 (nd_ND _ _ H12 H0)) as (l2 & X2 & S2).
    exists (l1 ++ l2). split; [eapply CrashFault.ext_trans; eassumption|].
    apply CrashFault2.steps_ok_app. split; [exact S1|]. rewrite <- (CrashFault.x_sg _ _ _ X1). exact S2.
  Qed.

  Lemma nd_ok_mem s s' : ext s s' [] -> nd_ok s s'.
  Proof. intros X H. exists []. split; [exact X | split; [exact H | exact Logic.I]]. Qed.

  Lemma nd_ok_hupd s o f : nd_ok s (hupd s o f).
  Proof. apply nd_ok_mem. apply CrashFault.ext_hupd. Qed.

  (* ------------------------------------------------ saves whose reference targets are fine *)

  (* the targets that are fine in state s *)
  Definition T (s : st) (t : key) : Prop := lookup (store s) t <> None \/ Xg (graves s) t.

  Lemma ND_storeK s : NoDang (sg_of s) -> CrashFault2.storeK (ref_in (T s)) (store s).
  Proof. intros H k r Hl t Ht. exact (H k r t Hl Ht). Qed.

  Lemma nd_saves s s' l : ext s s' l -> Forall (QK (ref_in (T s))) l -> nd_ok s s'.
  Proof.
    intros X HQ H0. exists l. split; [exact X|].
    assert (HI0 : CrashFault3.ndI s (T s) (sg_of s)) by (split; [auto | apply ND_storeK; exact H0]).
    destruct (CrashFault2.steps_inv (CrashFault3.ndI s (T s)) (QK (ref_in (T s))) (CrashFault3.ndI_step s (T s)) l (sg_of s) HI0 HQ) as [S _].
    apply (steps_ND (Xg (graves s))); [intros t Ht; exact Ht|].
    eapply CrashFault2.steps_ok_impl; [|exact S].
    intros sg HI. eapply CrashFault3.ndI_nd; [|exact HI]. intros t [Ht|Ht]; [left; exact Ht | right; left; exact Ht].
  Qed.

  (* ------------------------------------------------ what the invariant gives *)

  Lemma G_cv base s : GQ base s -> CrashFault2.cv s.
  Proof.
    intros (I & _) k o Hin. pose proof (CrashFault.NoDup_lookup _ _ _ (i_ndc _ _ _ _ _ I) Hin) as Hl.
    destruct (i_cok _ _ _ _ _ I k o Hl) as (ob & Ho & _). eapply hget_Some_lt. exact Ho.
  Qed.

  Lemma G_cok base s : GQ base s -> CrashFault4.cok s.
  Proof.
    intros (I & _) k o ob Hin Ho.
    pose proof (CrashFault.NoDup_lookup _ _ _ (i_ndc _ _ _ _ _ I) Hin) as Hl.
    destruct (i_cok _ _ _ _ _ I k o Hl) as (ob' & Ho' & [E|[]]). congruence.
  Qed.

  Lemma stored_of_sref s k x : sref s k = Some x -> exists r, lookup (store s) k = Some r /\ r_ref r = x.
  Proof.
    unfold sref. destruct (lookup (store s) k) as [r|]; [|discriminate]. cbn [option_map]. intro E. injection E as <-.
    exists r. split; reflexivity.
  Qed.

  Lemma G_JT base s : GQ base s -> NoDang (sg_of s) -> CrashFault2.J (ref_in (T s)) s.
  Proof.
    intros Hg H0. pose proof Hg as (I & Kc & _). split; [exact (G_cv _ _ Hg)|]. split; [|apply ND_storeK; exact H0].
    intros k o ob Hin Ho t Ht.
    pose proof (CrashFault.NoDup_lookup _ _ _ (i_ndc _ _ _ _ _ I) Hin) as Hl.
    destruct (stored_of_sref s k _ (Kc k o ob Hl Ho)) as (r & Hs & Hr). rewrite Ht in Hr.
    exact (H0 k r t Hs Hr).
  Qed.

  (* ------------------------------------------------ the building blocks *)

  Lemma nd_cache_get base s k s' r : GQ base s -> cache_get s k = (s', r) -> nd_ok s s'.
  Proof.
    intros Hg E H0.
    destruct (CrashFault2.cache_get_safe (ref_in (T s)) (CrashFault3.ref_in_codec (T s)) s k s' r (G_JT _ _ Hg H0) E) as (l & X & HQ & _).
    exact (nd_saves s s' l X HQ H0).
  Qed.

  Lemma nd_cache_set base s o ob s' ok : GQ base s -> hget s o = Some ob -> r_ref (o_rec ob) = None ->
    cache_set s o = (s', ok) -> nd_ok s s'.
  Proof.
    intros Hg Ho Hr E H0.
    destruct (CrashFault2.cache_set_safe (ref_in (T s)) (CrashFault3.ref_in_codec (T s)) (CrashFault3.ref_in_access (T s))
                s o ob s' ok (G_JT _ _ Hg H0) Ho E) as (l & X & HQ & _ & _ & _ & _ & _ & _ & HJ & _).
    assert (HK : ref_in (T s) (o_id ob) (o_rec ob)) by (intros t Ht; rewrite Hr in Ht; discriminate).
    destruct (HJ HK) as [_ HQp].
    apply (nd_saves s s' _ X); [|exact H0]. apply Forall_app. split; [exact HQ | constructor; [exact HQp | constructor]].
  Qed.

  Lemma nd_save_direct s o ob s' r : hget s o = Some ob -> r_ref (o_rec ob) = None ->
    save_direct s o = (s', r) -> nd_ok s s'.
  Proof.
    intros Ho Hr. unfold save_direct. rewrite Ho.
    destruct (p_save s (o_id ob) (o_rec ob)) as [s1 ok] eqn:E. intro E'. injection E' as <- _.
    apply CrashFault.p_save_spec in E. destruct E as (_ & X & _).
    apply (nd_saves s s1 _ X). constructor; [|constructor]. apply CrashFault2.QK_save.
    intros t Ht. cbn in Ht. rewrite Hr in Ht. discriminate.
  Qed.

  (* a deletion: the deleted ID goes to the index of deleted IDs *)
  Lemma ND_delete sg k ok : NoDang sg -> NoDang (apply_ev sg (EvDelete k ok)).
  Proof.
    destruct sg as [stor gr]. intro H. destruct ok; [|exact H]. cbn [apply_ev].
    intros k' r t Hl Hr. cbn [fst snd] in *.
    destruct (key_eq_dec k' k) as [->|Hne]; [rewrite lookup_remove_same in Hl; discriminate|].
    rewrite lookup_remove_other in Hl by exact Hne.
    destruct (H k' r t Hl Hr) as [A|A].
    - destruct (key_eq_dec t k) as [->|Hnt].
      + right. right. destruct (lookup stor k) as [rk|] eqn:El; [rewrite lookup_upsert_same; discriminate | exfalso; exact (A El)].
      + left. rewrite lookup_remove_other by exact Hnt. exact A.
    - right. exact (Xg_apply (stor, gr) (EvDelete k true) t A).
  Qed.

  Lemma nd_cache_delete s k s' ok : cache_delete s k = (s', ok) -> nd_ok s s'.
  Proof.
    unfold cache_delete. intros E H0. apply CrashFault.p_delete_spec in E. destruct E as (_ & X & _).
    exists ([] ++ [EvDelete k ok]). split; [eapply CrashFault.ext_trans; [apply CrashFault.ext_set_cache | exact X]|].
    cbn [app CrashFault2.steps_ok]. split; [exact H0|]. split; [apply ND_delete; exact H0 | exact Logic.I].
  Qed.

  Lemma RWs_drawn s k t : RWs s -> sref s k = Some (Some t) -> t <> KGen (supply s).
  Proof. intros Hw Hs E. destruct (Hw k t Hs) as (m & Em & Hm & _). rewrite E in Em. injection Em as <-. lia. Qed.

  Lemma nd_regenerate base s o s' res cks : GQ base s -> hg s o -> regenerate s o = (s', res, cks) -> nd_ok s s'.
  Proof.
    intros Hg Hh E H0. pose proof Hh as (ob & Ho & Hr & Hs). pose proof Hg as (I & Kc & _ & [Hw _]).
    assert (Hnc : forall o', ~ In (KGen (supply s), o') (cache s)).
    { intros o' Hin. destruct (i_fc _ _ _ _ _ I _ _ Hin) as [Hk _]. cbn [kd] in Hk. lia. }
    assert (HJ : CrashFault2.J (ref_in (fun t => (lookup (store s) t <> None \/ Xg (graves s) t) /\ t <> KGen (supply s))) s).
    { split; [exact (G_cv _ _ Hg)|]. split.
      - intros k o' ob' Hin Ho' t Ht.
        pose proof (CrashFault.NoDup_lookup _ _ _ (i_ndc _ _ _ _ _ I) Hin) as Hl.
        pose proof (Kc k o' ob' Hl Ho') as Hsr. rewrite Ht in Hsr.
        destruct (stored_of_sref s k _ Hsr) as (r & Hst & Hrr).
        split; [exact (H0 k r t Hst Hrr) | exact (RWs_drawn s k t Hw Hsr)].
      - intros k r Hl t Ht. split; [exact (H0 k r t Hl Ht)|].
        apply (RWs_drawn s k t Hw). rewrite (sref_lookup _ _ _ Hl), Ht. reflexivity. }
    destruct (CrashFault3.regenerate_nodangling_rel s (Xg (graves s)) o ob s' res cks HJ Ho E) as (l & X & S).
    - intros t Ht. rewrite Hr in Ht. discriminate.
    - exact Hnc.
    - exists l. split; [exact X|]. apply (steps_ND (Xg (graves s))); [intros t Ht; exact Ht | exact S].
  Qed.

  Lemma nd_draw sg l d : steps_ok NoDang sg l -> steps_ok NoDang sg (EvDraw d :: l).
  Proof.
    intro H. cbn [CrashFault2.steps_ok]. rewrite CrashFault3.apply_draw. split; [|exact H].
    destruct l; cbn [CrashFault2.steps_ok] in H; tauto.
  Qed.

  Lemma nd_create base s q s' res cks : GQ base s -> create_session s q = (s', res, cks) -> nd_ok s s'.
  Proof.
    intros Hg E H0. pose proof Hg as (I & _). assert (F : ffnd s) by (eapply inv_ffnd; exact I).
    rewrite (create_session_ff s q F) in E. injection E as <- _ _.
    set (s1 := drawn1 s). set (s2 := fst (halloc s1 (newobj s q))).
    assert (X1 : ext s s1 [EvDraw (supply s)]) by apply (CrashFault.gen_id_spec s).
    assert (HJ2 : CrashFault2.J (ref_in (T s)) s2).
    { apply CrashFault2.J_halloc. eapply CrashFault2.J_same; [| | |exact (G_JT _ _ Hg H0)]; reflexivity. }
    assert (H2 : hget s2 (length (heap s)) = Some (newobj s q)) by (unfold s2, s1; rewrite hget_halloc; sst; rewrite Nat.eqb_refl; reflexivity).
    assert (F2 : ffnd s2) by exact F.
    pose proof (cache_set_ff s2 _ _ F2 H2) as E2.
    destruct (CrashFault2.cache_set_safe (ref_in (T s)) (CrashFault3.ref_in_codec (T s)) (CrashFault3.ref_in_access (T s))
                s2 _ _ _ _ HJ2 H2 E2) as (l & X & HQ & _ & _ & _ & _ & _ & _ & HJ & _).
    assert (HK : ref_in (T s) (KGen (supply s)) (o_rec (newobj s q))) by (intros t Ht; discriminate).
    destruct (HJ HK) as [_ HQp].
    assert (X2 : ext s1 (created s q) (l ++ [CrashFault2.prim_save s2 (newobj s q) true])).
    { change (l ++ [CrashFault2.prim_save s2 (newobj s q) true]) with ([] ++ l ++ [CrashFault2.prim_save s2 (newobj s q) true]).
      eapply CrashFault.ext_trans; [apply CrashFault.ext_halloc | exact X]. }
    (* the saves are fine relative to s; s1 differs from s only in supply and log *)
    assert (HQall : Forall (QK (ref_in (T s))) (l ++ [CrashFault2.prim_save s2 (newobj s q) true])).
    { apply Forall_app. split; [exact HQ | constructor; [exact HQp | constructor]]. }
    exists (EvDraw (supply s) :: (l ++ [CrashFault2.prim_save s2 (newobj s q) true])).
    split; [change (EvDraw (supply s) :: (l ++ [CrashFault2.prim_save s2 (newobj s q) true]))
              with ([EvDraw (supply s)] ++ (l ++ [CrashFault2.prim_save s2 (newobj s q) true]));
            eapply CrashFault.ext_trans; eassumption|].
    apply nd_draw.
    assert (HI0 : CrashFault3.ndI s (T s) (sg_of s)) by (split; [auto | apply ND_storeK; exact H0]).
    destruct (CrashFault2.steps_inv (CrashFault3.ndI s (T s)) (QK (ref_in (T s))) (CrashFault3.ndI_step s (T s)) _ (sg_of s) HI0 HQall) as [S _].
    apply (steps_ND (Xg (graves s))); [intros t Ht; exact Ht|].
    eapply CrashFault2.steps_ok_impl; [|exact S].
    intros sg HI. eapply CrashFault3.ndI_nd; [|exact HI]. intros t [Ht|Ht]; [left; exact Ht | right; left; exact Ht].
  Qed.

  Lemma nd_fire : forall l s s' rest, fire s l = (s', rest) -> nd_ok s s'.
  Proof.
    induction l as [|[due k] t IH]; intros s s' rest E; cbn [fire] in E.
    - injection E as <- _. apply nd_ok_refl.
    - destruct (due <=? now s)%Z.
      + destruct (cache_delete s k) as [s1 okd] eqn:Ed. eapply nd_ok_trans; [exact (nd_cache_delete _ _ _ _ Ed) | exact (IH _ _ _ E)].
      + destruct (fire s t) as [s1 r1] eqn:Ef. injection E as <- _. exact (IH _ _ _ Ef).
  Qed.

  Lemma nd_fire_due s : nd_ok s (fire_due s).
  Proof.
    unfold fire_due. destruct (fire (set_pending s []) (pending s)) as [s1 rest] eqn:E.
    eapply nd_ok_trans; [apply nd_ok_mem; apply CrashFault.ext_set_pending|].
    eapply nd_ok_trans; [exact (nd_fire _ _ _ _ E) | apply nd_ok_mem; apply CrashFault.ext_set_pending].
  Qed.

  Lemma nd_follow base : forall fuel s o lk, GQ base s -> hok hb ND s o -> sc s o ->
    nd_ok s (fst (follow fuel s o lk)).
  Proof.
    induction fuel as [|f IH]; intros s o lk Hg Hok Hsc; pose proof Hok as [_ [ob [Ho _]]]; cbn [follow]; rewrite Ho.
    - destruct (r_ref (o_rec ob)); apply nd_ok_refl.
    - destruct (r_ref (o_rec ob)) as [t|] eqn:Hr; [|apply nd_ok_refl].
      pose proof Hg as (I & Kc & _).
      destruct (cache_get_inv _ _ _ _ _ t I) as (s1 & r & E & I1 & Hres).
      destruct (cache_get_qt _ _ _ _ t I Kc) as (Qt & K1 & Hobj).
      pose proof (nd_cache_get _ _ _ _ _ Hg E) as Ev1. rewrite E in *. cbn [fst snd] in *.
      assert (G1 : GQ base s1) by (eapply (Gb_qt hb Q0 Q0_qt); eassumption).
      destruct r as [o'|]; [|exact Ev1].
      destruct Hres as [Hbo (ob' & Ho' & _ & Hn & _)]. destruct (Hobj o' eq_refl) as (ob2 & Ho2 & Hid & Hs).
      eapply nd_ok_trans; [exact Ev1|]. apply IH; [exact G1 | split; [exact Hbo | exists ob'; split; [exact Ho' | intros []]]|].
      exists ob2. split; [exact Ho2 | rewrite Hid; exact Hs].
  Qed.

  Lemma nd_logout_user base s u s' r : GQ base s -> logout_user s u = (s', r) -> nd_ok s s'.
  Proof.
    intros Hg E H0.
    destruct (CrashFault4.logout_user_safe (ref_in (T s)) (CrashFault3.ref_in_codec (T s)) (CrashFault3.ref_in_access (T s))
                (CrashFault3.ref_in_user (T s)) s u s' r (G_JT _ _ Hg H0) (G_cok _ _ Hg) E) as (l & X & HQ & _).
    exact (nd_saves s s' l X HQ H0).
  Qed.
End NoD.
