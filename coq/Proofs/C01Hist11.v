(* C01, history level, part 11: the theorem in readable form. The ghost after a
   history; the jar invariant holds after every prefix; what a request step
   returns, as propositions rather than as the boolean g_run. *)
From Sessions Require Import Model.Base Model.Sess Model.Hist Model.Corr Proofs.SessDefs
  Proofs.WriteThrough Proofs.WriteThrough5
  Proofs.C01Spec Proofs.C01Hist Proofs.C01Hist7 Proofs.C01Hist9 Proofs.C01Hist10.
From Sessions Require Proofs.HistInv Proofs.HistInv3.
From Coq Require Import Lia.

(* the ghost after a history (observations os) *)
Fixpoint g_after (g : list (N * gdata)) (hs : list hop) (os : list obs) : list (N * gdata) :=
  match hs, os with
  | h :: hs', o :: os' => g_after (snd (g_step g h o)) hs' os'
  | _, _ => g
  end.

(* configuration changes keep the codec of the initial configuration *)
Definition codec_fixed (c : cfg) (hs : list hop) : bool :=
  forallb (fun h => match h with HSetCfg c' => Bool.eqb (c_json c') (c_json c) | _ => true end) hs.

Lemma c01_wf_hop j h :
  c01_hop h = true -> match h with HSetCfg c' => Bool.eqb (c_json c') j | _ => true end = true ->
  wf_hop j h = true.
Proof.
  destruct h as [r|d|tbl pl| | |u tbl pl|u tbl pl|c']; cbn [c01_hop wf_hop]; intros H1 H2; try reflexivity;
    try exact H2; try (destruct pl; [reflexivity | discriminate H1]).
  unfold wf_req. destruct (rq_present r); [|discriminate H1]. destruct (rq_plan r); [|discriminate H1].
  destruct (rq_crash r); [discriminate H1|]. reflexivity.
Qed.

Lemma c01_wf_hist c hs : forallb c01_hop hs = true -> codec_fixed c hs = true -> wf_hist c hs = true.
Proof.
  unfold wf_hist, codec_fixed. induction hs as [|h t IH]; [reflexivity|]. cbn [forallb].
  intros H1 H2. apply andb_prop in H1. apply andb_prop in H2. destruct H1 as [A1 A2], H2 as [B1 B2].
  rewrite (c01_wf_hop _ _ A1 B1), (IH A2 B2). reflexivity.
Qed.

(* the jar invariant after every prefix *)
Lemma JI_after j : forall hs w g,
  JI w g -> c_json (conf (w_st w)) = j ->
  forallb (wf_hop j) hs = true -> forallb c01_hop hs = true ->
  JI (HistInv3.after w hs) (g_after g hs (run_from w hs)) /\ c_json (conf (w_st (HistInv3.after w hs))) = j.
Proof.
  induction hs as [|h t IH]; intros w g HJ Hj Hwf Hc01; [split; assumption|].
  cbn [forallb] in Hwf, Hc01. apply andb_prop in Hwf. destruct Hwf as [Hh Ht].
  apply andb_prop in Hc01. destruct Hc01 as [Hch Hct].
  assert (Hstep : JI (fst (step w h)) (snd (g_step g h (snd (step w h))))).
  { destruct (is_req h) eqn:Er.
    - destruct h as [r| | | | | | |]; try discriminate Er.
      apply (step_req_JI w g r j HJ Hj Hh). apply c01_wf_pjar. exact Hch.
    - apply (step_other_JI w g h j HJ Hj Hh Er). }
  destruct (step_Inv w h j (ji_inv _ _ HJ) Hj Hh) as (_ & Hj').
  cbn [run_from HistInv3.after]. destruct (step w h) as [w' o]. cbn [g_after fst snd] in *.
  apply (IH w' _ Hstep Hj' Ht Hct).
Qed.

Lemma list_eqb_eq : forall a b, list_eqb pairN_eqb a b = true -> a = b.
Proof.
  induction a as [|[x y] t IH]; intros [|[x' y'] t']; cbn [list_eqb]; intro H; try discriminate; [reflexivity|].
  apply andb_prop in H. destruct H as [H1 H2]. unfold pairN_eqb in H1. cbn [fst snd] in H1.
  apply andb_prop in H1. destruct H1 as [A B]. apply N.eqb_eq in A. apply N.eqb_eq in B.
  rewrite (IH t' H2). congruence.
Qed.

Lemma gdata_eqb_eq a b : gdata_eqb a b = true -> a = b.
Proof.
  destruct a as [l x], b as [l' x']. unfold gdata_eqb. cbn [fst snd]. intro H. apply andb_prop in H.
  destruct H as [H1 H2]. apply list_eqb_eq in H1. subst l'.
  destruct x as [u|], x' as [u'|]; cbn in H2; try discriminate; [apply N.eqb_eq in H2; subst|]; reflexivity.
Qed.

Lemma drawn_in_spec evl id : drawn_in evl id = true -> exists n, id = KGen n /\ In (EvDraw n) evl.
Proof.
  unfold drawn_in. intro H. apply existsb_exists in H. destruct H as (e & Hin & He).
  destruct e; try discriminate He. destruct id as [m|m]; [|discriminate He].
  apply N.eqb_eq in He. subst. eauto.
Qed.

(* What a request step returns, after any admissible history: the content (data,
   user ID) the ghost specification holds for that client, or an empty session
   under an ID drawn in this very step. *)
Theorem c01_step_spec c hs r :
  forallb c01_hop (hs ++ [HReq r]) = true -> codec_fixed c (hs ++ [HReq r]) = true ->
  let w := HistInv3.after (mkWorld (init_st c) []) hs in
  let g := g_after [] hs (run c hs) in
  let o := snd (step w (HReq r)) in
  forall id rc, ob_start o = Some (id, rc) ->
    g_get g (rq_client r) = Some (content_of rc) \/
    (content_of rc = ([], None) /\ exists n, id = KGen n /\ In (EvDraw n) (ob_evs o)).
Proof.
  intros Hc01 Hcf. cbv zeta. intros id rc Hst.
  pose proof (c01_wf_hist c _ Hc01 Hcf) as Hwf. unfold wf_hist in Hwf.
  rewrite forallb_app in Hwf, Hc01. apply andb_prop in Hwf. apply andb_prop in Hc01.
  destruct Hwf as [Hw1 Hw2], Hc01 as [Hc1 Hc2]. cbn [forallb] in Hw2, Hc2.
  rewrite Bool.andb_true_r in Hw2, Hc2.
  destruct (JI_after (c_json c) hs (mkWorld (init_st c) []) [] (JI_init c) eq_refl Hw1 Hc1) as (HJ & Hj).
  destruct (step_req_JI _ _ r (c_json c) HJ Hj Hw2 (c01_wf_pjar r Hc2)) as (_ & Hok).
  unfold run in *. revert Hok. cbn [g_step]. rewrite Hst.
  destruct (g_script _ _ _ _) as [fin ex]. cbn [fst].
  destruct (g_get _ (rq_client r)) as [d|].
  - intro H. apply Bool.orb_true_iff in H. destruct H as [H|H].
    + left. apply gdata_eqb_eq in H. congruence.
    + right. apply andb_prop in H. destruct H as [H1 H2]. apply gdata_eqb_eq in H1.
      split; [exact H1 | apply drawn_in_spec; exact H2].
  - intro H. right. apply andb_prop in H. destruct H as [H1 H2]. apply gdata_eqb_eq in H1.
    split; [exact H1 | apply drawn_in_spec; exact H2].
Qed.

(* The safety half of C01 for histories whose configuration changes keep the codec *)
Theorem c01_safety_codec_fixed c hs :
  forallb c01_hop hs = true -> codec_fixed c hs = true -> g_run [] hs (run c hs) = true.
Proof. intros H1 H2. apply c01_safety; [apply c01_wf_hist; assumption | exact H1]. Qed.

(* and without configuration changes at all *)
Definition no_setcfg (hs : list hop) : bool :=
  forallb (fun h => match h with HSetCfg _ => false | _ => true end) hs.

Lemma no_setcfg_fixed c hs : no_setcfg hs = true -> codec_fixed c hs = true.
Proof.
  unfold no_setcfg, codec_fixed. intro H. rewrite forallb_forall in H. apply forallb_forall.
  intros h Hin. specialize (H h Hin). destruct h; try reflexivity. discriminate H.
Qed.

(* every admissible step preserves the jar invariant and is admissible for the ghost *)
Theorem step_JI w g h j :
  JI w g -> c_json (conf (w_st w)) = j -> wf_hop j h = true -> c01_hop h = true ->
  JI (fst (step w h)) (snd (g_step g h (snd (step w h)))) /\
  fst (g_step g h (snd (step w h))) = true /\
  c_json (conf (w_st (fst (step w h)))) = j.
Proof.
  intros HJ Hj Hh Hch.
  destruct (step_Inv w h j (ji_inv _ _ HJ) Hj Hh) as (_ & Hj').
  assert (Hstep : JI (fst (step w h)) (snd (g_step g h (snd (step w h)))) /\
                  fst (g_step g h (snd (step w h))) = true).
  { destruct (is_req h) eqn:Er.
    - destruct h as [r| | | | | | |]; try discriminate Er.
      apply (step_req_JI w g r j HJ Hj Hh). apply c01_wf_pjar. exact Hch.
    - apply (step_other_JI w g h j HJ Hj Hh Er). }
  destruct Hstep as [A B]. auto.
Qed.

Lemma JI_meaning w g :
  JI w g <->
  Inv noex (w_st w) /\ GR (w_st w) /\ HistInv3.winv 0 HistInv.ND (w_st w) /\
  (forall c, jar_ok (w_st w) (jar_of (w_jars w) c) (g_get g c)) /\
  (forall c c' k, c <> c' -> jar_of (w_jars w) c = CKey k -> jar_of (w_jars w) c' <> CKey k).
Proof.
  split.
  - intros [A B C D E]. auto.
  - intros (A & B & C & D & E). constructor; assumption.
Qed.

Lemma jar_ok_meaning s jar x :
  jar_ok s jar x <->
  match x with
  | None => jar = CNone
  | Some d => exists k, jar = CKey k /\ key_drawn s k /\ (forall dd, ~ In (dd, k) (pending s)) /\
                        (view s k = None \/ view s k = Some (None, d))
  end.
Proof. reflexivity. Qed.

Lemma view_meaning s k :
  view s k = option_map (fun r => (r_ref r, content_of r)) (L s k).
Proof. reflexivity. Qed.

Lemma GR_meaning s :
  GR s <->
  (forall k x, In (k, x) (graves s) -> key_drawn s k /\ view s k = None) /\
  (forall d k, In (d, k) (pending s) -> key_drawn s k) /\
  NoDup (map fst (store s)).
Proof. reflexivity. Qed.
