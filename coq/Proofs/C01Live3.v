(* C01, liveness half, part 3: the access time under the ID of the session Start
   returns, for every branch of Start (plain, rotation — also when the rotated
   session leaves a one-slot cache at once —, creation after an unknown, invalid
   or absent cookie), cache enabled: it is the instant of the request as the
   codec keeps it. With own_finish of LiveHist6.v: after ANY request of a
   cookie-following client that is given a session and whose script has no
   Destroy, the client holds the ID in its jar in the sense of C03H (owns). *)
From Sessions Require Import Model.Base Model.Sess Model.Hist Model.Corr Proofs.SessDefs
  Proofs.WriteThrough Proofs.WriteThrough2 Proofs.WriteThrough3 Proofs.WriteThrough4
  Proofs.RotateLaws Proofs.RotateLaws2 Proofs.RotateLaws5
  Proofs.C01Spec Proofs.C01Hist Proofs.C01Hist2 Proofs.C01Hist4 Proofs.C01Hist5.
From Sessions Require Proofs.LiveHist4.
From Coq Require Import Lia.

Notation fl := LiveHist4.fl.

Lemma L_cached' s k o ob : lookup (cache s) k = Some o -> hget s o = Some ob -> L s k = Some (o_rec ob).
Proof. intros H1 H2. unfold L. rewrite H1, H2. reflexivity. Qed.

Lemma L_uncached' s k : lookup (cache s) k = None -> L s k = lookup (store s) k.
Proof. intro H. unfold L. rewrite H. reflexivity. Qed.

(* cache.Get with the cache enabled leaves the returned object cached *)
Lemma cache_get_cached s k s1 o :
  plan s = [] -> NoDup (map fst (cache s)) -> c_maxcache (conf s) <> 0%Z ->
  cache_get s k = (s1, Some (Some o)) -> lookup (cache s1) k = Some o.
Proof.
  intros Hp Hnd Hm Hcg. destruct (lookup (cache s) k) as [o0|] eqn:Ec.
  - rewrite (cache_get_hit s k o0 Ec) in Hcg. injection Hcg as <- <-. exact Ec.
  - destruct (lookup (store s) k) as [r|] eqn:Es.
    + destruct (cache_get_load s k r Hp Hnd Ec Es) as (Hr & HP). rewrite Hcg in Hr, HP. cbn [fst snd] in *.
      injection Hr as ->. destruct (cg_cache _ _ _ _ HP) as [[_ H]|[H _]]; [exact H | contradiction].
    + rewrite (cache_get_absent s k Hp Ec Es) in Hcg. discriminate Hcg.
Qed.

(* the bookkeeping of an accepted request keeps a lower bound on the access
   time of an ID that is not ahead of the clock *)
Lemma L_book_lb j s o ob id r0 (a : addr) (u : N) lb :
  hget s o = Some ob -> L s id = Some r0 -> (lb <= fl j (r_access r0))%Z -> (lb <= fl j (now s))%Z ->
  exists r', L (hupd s o (fun r => set_ua (set_ip (set_access r (now s)) a) u)) id = Some r' /\
             (lb <= fl j (r_access r'))%Z.
Proof.
  intros Hg HL Hlb Hnow. rewrite (hupd_eq _ _ _ _ Hg). unfold L in *.
  change (cache (hput s o _)) with (cache s). change (store (hput s o _)) with (store s).
  destruct (lookup (cache s) id) as [o'|] eqn:Ec; [|eauto].
  destruct (Nat.eq_dec o o') as [<-|Hne].
  - rewrite hget_hput_same by (eapply hget_Some_lt; eauto). eexists. split; [reflexivity|]. cbn. exact Hnow.
  - rewrite hget_hput_other by exact Hne. eauto.
Qed.

Definition acc_post (j : bool) (t : Z) (x : st * result (option nat) * list cookie) : Prop :=
  forall o, snd (fst x) = Ok (Some o) ->
    exists ob r, hget (fst (fst x)) o = Some ob /\ L (fst (fst x)) (o_id ob) = Some r /\
                 (fl j t <= fl j (r_access r))%Z.

Lemma tail_acc j s1 q cks0 :
  Inv noex s1 -> c_json (conf s1) = j ->
  acc_post j (now s1) (if q_create q
                       then let '(s, res, nck) := create_session s1 q in (s, res, cks0 ++ nck)
                       else (s1, Ok None, cks0)).
Proof.
  intros HI Hj. destruct (q_create q); [|intros o H; discriminate H].
  destruct (create_ff s1 q (inv_plan _ _ HI) (inv_nodup _ _ HI) (Inv_next_uncached s1 HI))
    as (s' & Hs & Hg & HL & _).
  rewrite Hs. intros o H. cbn [fst snd] in *. injection H as <-.
  eexists. destruct HL as [HL|HL]; (eexists; split; [exact Hg|]; cbn [o_id]; split; [exact HL|]).
  - cbn. lia.
  - rewrite LiveHist4.codec_access_fl, Hj. cbn [fresh_rec r_access]. rewrite LiveHist4.fl_idem. lia.
Qed.

Lemma start_acc s q j :
  Inv noex s -> GR s -> c_json (conf s) = j -> c_maxcache (conf s) <> 0%Z ->
  (forall k, q_cookie q = CKey k ->
     (forall dd, ~ In (dd, k) (pending s)) /\ (view s k = None \/ exists d, view s k = Some (None, d))) ->
  acc_post j (now s) (start s q).
Proof.
  intros HI HG Hj Hm Hjar. unfold start.
  destruct (q_cookie q) as [|k|n] eqn:Eq.
  - cbv beta iota. apply tail_acc; assumption.
  - destruct (Hjar k eq_refl) as (Hkp & Hkv).
    destruct (cache_get_view s k (inv_plan _ _ HI) (inv_nodup _ _ HI) (Inv_cache_heap s HI))
      as (Gv & Gpe & Gg & Gu & Gc & Gn & Gnd).
    destruct (cache_get s k) as [s1 r1] eqn:Hcg. cbn [fst] in *.
    destruct (cache_get_spec s k s1 r1 HI Hcg) as (HI1 & _ & ro & -> & Hro).
    assert (Hj1 : c_json (conf s1) = j) by congruence.
    assert (HG1 : GR s1).
    { apply (GR_pres s s1 (fun _ => False) HG).
      - exact Gg.
      - intros d k'. rewrite Gpe. auto.
      - rewrite Gu. lia.
      - intros k' _. apply Gv.
      - intros k' x [].
      - apply Gnd. apply HG. }
    destruct ro as [o|]; cbv beta iota.
    + destruct (Hro o eq_refl) as (HH1 & ob & Hg1 & Hid). rewrite Hg1.
      pose proof (cache_get_cached s k s1 o (inv_plan _ _ HI) (inv_nodup _ _ HI) Hm Hcg) as Hc1.
      assert (Hvk1 : view s k = Some (cont (o_rec ob))).
      { rewrite <- (Gv k), <- Hid. apply (Held_view s1 o ob HH1 Hg1). }
      destruct Hkv as [Hkv|(d & Hkv)]; [congruence|].
      assert (Hrf : r_ref (o_rec ob) = None).
      { assert (Hco : cont (o_rec ob) = (None, d)) by congruence. apply (f_equal fst) in Hco. exact Hco. }
      match goal with |- context [negb ?v] => destruct v end; cbn [negb].
      * rewrite Hrf. cbn [negb andb].
        destruct (c_idexpiry (conf s) <=? since (r_created (o_rec ob)) (now s1))%Z.
        -- (* rotation *)
           destruct (regenerate_eff s1 o ob HI1 HG1 HH1 Hg1)
             as (s2 & Hs2 & HI2 & _ & _ & (ob2 & Hg2 & Hid2 & _) & _ & _ & _ & Fc & _ & Fn).
           destruct (RotateLaws2.regenerate_ff s1 o ob (inv_plan _ _ HI1) (inv_nodup _ _ HI1) (Inv_cache_heap s1 HI1) Hg1
                       (Inv_next_uncached s1 HI1) (Inv_obj_not_next s1 o ob HI1 Hg1)) as (s2' & Hs2' & HP).
           assert (s2' = s2) by congruence. subst s2'. clear Hs2'.
           destruct (regen_post_view s1 o ob s2 Hg1 HP) as (_ & _ & _ & HLj & _).
           rewrite Hs2. cbv beta iota. intros o' H. cbn [fst snd] in *. injection H as <-.
           assert (Hlb : exists r0, L s2 (KGen (supply s1)) = Some r0 /\ (fl j (now s) <= fl j (r_access r0))%Z).
           { eexists. split; [exact HLj|]. destruct (cached s2 (KGen (supply s1))).
             - unfold rot_rec. cbn. rewrite Gn. lia.
             - rewrite LiveHist4.codec_access_fl, Hj1. unfold rot_rec. cbn. rewrite Gn, LiveHist4.fl_idem. lia. }
           destruct Hlb as (r0 & HL0 & Hlb0).
           destruct (L_book_lb j s2 o ob2 (KGen (supply s1)) r0 (q_addr q) (q_ua q) (fl j (now s)) Hg2 HL0 Hlb0)
             as (r' & HL' & Hlb'); [rewrite Fn, Gn; lia|].
           exists (mkObj (o_id ob2) (set_ua (set_ip (set_access (o_rec ob2) (now s2)) (q_addr q)) (q_ua q))), r'.
           split; [exact (hget_hupd_same s2 o ob2 (fun r => set_ua (set_ip (set_access r (now s2)) (q_addr q)) (q_ua q)) Hg2)|]. cbn [o_id]. rewrite Hid2. auto.
        -- destruct (_ <=? _)%Z.
           ++ destruct (cache_delete s1 k) as [s2 ok]. destruct ok; intros o' H; discriminate H.
           ++ (* the plain case: the object is the cached one *)
              intros o' H. cbn [fst snd] in *. injection H as <-.
              exists (mkObj (o_id ob) (set_ua (set_ip (set_access (o_rec ob) (now s1)) (q_addr q)) (q_ua q))).
              eexists. split; [exact (hget_hupd_same s1 o ob (fun r => set_ua (set_ip (set_access r (now s1)) (q_addr q)) (q_ua q)) Hg1)|]. cbn [o_id]. rewrite Hid. split.
              ** apply (L_cached' _ k o).
                 --- rewrite (hupd_eq _ _ _ _ Hg1). exact Hc1.
                 --- exact (hget_hupd_same s1 o ob (fun r => set_ua (set_ip (set_access r (now s1)) (q_addr q)) (q_ua q)) Hg1).
              ** cbn. rewrite Gn. lia.
      * (* anomaly or idle too long: destroyed, perhaps a new session *)
        unfold destroy. rewrite Hg1, Hid.
        destruct (cache_delete_eff s1 k HI1 HG1) as (Hok & HI2 & _ & _ & _ & _ & _ & _ & Fc & Fn).
        destruct (cache_delete s1 k) as [s2 ok]. cbn [fst snd] in *. subst ok. cbn [negb].
        pose proof (tail_acc j s2 q ([] ++ [CkDelete]) HI2) as HT. cbn [app] in HT |- *.
        rewrite Fn, Gn in HT. apply HT. congruence.
    + pose proof (tail_acc j s1 q [CkDelete] HI1 Hj1) as HT. rewrite Gn in HT. exact HT.
  - cbv beta iota. apply tail_acc; assumption.
Qed.
