(* C10, orphan copies (audit task A9), part 10: the calls above the cache layer
   keep an unreferenced ID unreferenced (relation R of CrashChain9.v), for every
   fault plan. below v s: v is a generated ID below the supply of s. *)
From Sessions Require Import Model.Base Model.Sess Model.Hist Proofs.SessDefs Proofs.CrashFault
  Proofs.CrashFault2 Proofs.CrashFault3 Proofs.CrashFault4 Proofs.CrashFault5 Proofs.CrashFault8
  Proofs.CrashFault9 Proofs.CrashFault13 Proofs.CrashChain7 Proofs.CrashChain9.
From Coq Require Import Lia.

Section Upper.
  Variable v : key.
  Notation J' := (J (Kv v)).
  Notation R' := (R v).
  Notation live' := (live v).

  Definition below (s : st) : Prop := exists m, v = KGen m /\ (m < supply s)%N.

  Lemma below_R s s' : R' s s' -> below s -> below s'.
  Proof. intros HR (m & E & Hm). exists m. split; [exact E|]. pose proof (R_supply _ _ _ HR). lia. Qed.

  Lemma below_ne s : below s -> KGen (supply s) <> v.
  Proof. intros (m & -> & Hm) E. injection E as E. lia. Qed.

  Lemma R_destroy s o hc s' res cks : J' s -> destroy s o hc = (s', res, cks) -> R' s s'.
  Proof.
    intros HJ HD. unfold destroy in HD. destruct (hget s o) as [ob|]; [|injection HD as <- _ _; apply R_refl; exact HJ].
    destruct (cache_delete s (o_id ob)) as [s1 ok] eqn:E. pose proof (R_cache_delete _ _ _ _ _ HJ E) as H.
    destruct ok; injection HD as <- _ _; exact H.
  Qed.

  Lemma R_regenerate s o s' res cks : J' s -> live' s o -> below s -> regenerate s o = (s', res, cks) -> R' s s'.
  Proof.
    intros HJ (ob & Ho & HP) Hb HR.
    destruct (regenerate_spec _ _ _ _ _ _ Ho HR) as (s2 & b1 & EC1 & Ho1 & HS). cbv zeta in HS.
    set (nid := KGen (supply s)) in *. set (ob1 := mkObj nid (set_created (o_rec ob) (now s))) in *.
    set (s0 := fst (gen_id s)) in *. set (s1 := hput s0 o ob1) in *.
    pose proof (R_gen_id v s HJ) as R0. fold s0 in R0.
    assert (Ho0 : hget s0 o = Some ob) by exact Ho.
    pose proof (R_hput v s0 o ob ob1 (R_J _ _ _ R0) Ho0 eq_refl) as R1. fold s1 in R1.
    assert (L1 : live' s1 o) by (exists ob1; split; [exact Ho1 | exact HP]).
    pose proof (R_cache_set v _ _ _ _ (R_J _ _ _ R1) L1 EC1) as R2.
    pose proof (R_trans _ _ _ _ R0 (R_trans _ _ _ _ R1 R2)) as R02.
    destruct b1; [|destruct HS as (-> & _); exact R02].
    destruct HS as (Ho2 & s4 & b2 & EC2 & HS).
    set (ro := mkObj (o_id ob) (ref_rec (o_rec (touch s1 ob1)) (now s2) nid)) in *.
    pose proof (R_halloc v s2 ro (R_J _ _ _ R2)) as R3.
    assert (L3 : live' (fst (halloc s2 ro)) (length (heap s2))).
    { exists ro. split; [apply (hget_halloc_new s2)|]. unfold Pv. cbn. intro E. injection E as E. apply (below_ne s Hb). exact E. }
    pose proof (R_cache_set v _ _ _ _ (R_J _ _ _ R3) L3 EC2) as R4.
    pose proof (R_trans _ _ _ _ R02 (R_trans _ _ _ _ R3 R4)) as R04.
    destruct b2; destruct HS as (-> & _); [|exact R04].
    eapply R_trans; [exact R04 | apply R_set_pending; exact (R_J _ _ _ R4)].
  Qed.

  Lemma R_create s q s' res cks : J' s -> create_session s q = (s', res, cks) ->
    R' s s' /\ forall o, res = Ok (Some o) -> live' s' o.
  Proof.
    intros HJ HC. unfold create_session in HC.
    pose proof (R_gen_id v s HJ) as R0. destruct (gen_id s) as [s0 nid] eqn:EG. cbn [fst] in R0.
    set (x := mkObj nid (mkRec (now s0) (now s0) (q_addr q) (q_ua q) None None (Some []))) in *.
    pose proof (R_halloc v s0 x (R_J _ _ _ R0)) as R1.
    assert (L1 : live' (fst (halloc s0 x)) (length (heap s0))).
    { exists x. split; [apply (hget_halloc_new s0) | discriminate]. }
    unfold halloc in HC. cbv beta iota zeta in HC. unfold halloc in R1, L1. cbn [fst] in R1, L1.
    destruct (cache_set _ (length (heap s0))) as [s2 ok] eqn:EC.
    pose proof (R_cache_set v _ _ _ _ (R_J _ _ _ R1) L1 EC) as R2.
    assert (R02 : R' s s2) by (eapply R_trans; [exact R0 | eapply R_trans; eassumption]).
    destruct ok; cbn [negb] in HC; injection HC as <- <- _; (split; [exact R02|]); intros o E; [|discriminate].
    injection E as <-. eapply R_live; [exact R2 | exact L1].
  Qed.

  Lemma R_follow : forall fuel s o lk s' res, J' s -> follow fuel s o lk = (s', res) ->
    R' s s' /\ forall o' lk', res = Ok (o', lk') -> live' s o -> live' s' o'.
  Proof.
    induction fuel as [|f IH]; intros s o lk s' res HJ HF; cbn [follow] in HF;
      destruct (hget s o) as [ob|] eqn:Ho;
      try (injection HF as <- <-; split; [apply R_refl; exact HJ | intros; discriminate]);
      destruct (r_ref (o_rec ob)) as [t|] eqn:Hr;
      try (injection HF as <- <-; split; [apply R_refl; exact HJ |]; intros o' lk' E; try discriminate; injection E as <- _; auto).
    destruct (cache_get s t) as [s1 g] eqn:EG. destruct (R_cache_get v _ _ _ _ HJ EG) as [R1 L1].
    destruct g as [[o1|]|]; try (injection HF as <- <-; split; [exact R1 | intros; discriminate]).
    destruct (IH _ _ _ _ _ (R_J _ _ _ R1) HF) as [R2 L2].
    split; [eapply R_trans; eassumption|]. intros o' lk' E _. apply (L2 o' lk' E). apply L1. reflexivity.
  Qed.

  Lemma R_start_none s q cks0 s' res cks : J' s -> start_none s q cks0 = (s', res, cks) ->
    R' s s' /\ forall o, res = Ok (Some o) -> live' s' o.
  Proof.
    intros HJ HS. unfold start_none in HS. destruct (q_create q).
    - destruct (create_session s q) as [[s1 r1] nck] eqn:E. injection HS as <- <- _. eapply R_create; eassumption.
    - injection HS as <- <- _. split; [apply R_refl; exact HJ | intros; discriminate].
  Qed.

  Lemma bookkeep_ref s q r : r_ref (set_ua (set_ip (set_access r (now s)) (q_addr q)) (q_ua q)) = r_ref r.
  Proof. reflexivity. Qed.

  Theorem R_start s q s' res cks : J' s -> below s -> start s q = (s', res, cks) ->
    R' s s' /\ forall o, res = Ok (Some o) -> live' s' o.
  Proof.
    intros HJ Hb HS. rewrite start_unfold in HS.
    destruct (q_cookie q) as [|k|x]; try (eapply R_start_none; eassumption).
    destruct (cache_get s k) as [s1 g] eqn:EG. destruct (R_cache_get v _ _ _ _ HJ EG) as [R1 L1].
    pose proof (R_J _ _ _ R1) as HJ1.
    destruct g as [[o|]|].
    - specialize (L1 o eq_refl). pose proof L1 as (ob & Ho & HP).
      unfold start_found in HS. rewrite Ho in HS.
      assert (Fin : forall s2 isref cks0, R' s1 s2 -> live' s2 o -> start_finish s2 q k o isref cks0 = (s', res, cks) ->
                    R' s s' /\ forall o', res = Ok (Some o') -> live' s' o').
      { intros s2 isref cks0 R2 L2 HF. unfold start_finish in HF.
        assert (HF' : exists s3 fr, (if isref then follow (S (N.to_nat (supply s2))) s2 o k else (s2, Ok (o, k))) = (s3, fr) /\
                   R' s2 s3 /\ forall o' lk', fr = Ok (o', lk') -> live' s3 o').
        { destruct isref.
          - destruct (follow (S (N.to_nat (supply s2))) s2 o k) as [s3 fr] eqn:EF.
            destruct (R_follow _ _ _ _ _ _ (R_J _ _ _ R2) EF) as [R3 L3]. exists s3, fr. split; [reflexivity|].
            split; [exact R3|]. intros o' lk' E. eapply L3; eassumption.
          - exists s2, (Ok (o, k)). split; [reflexivity|]. split; [apply R_refl; exact (R_J _ _ _ R2)|].
            intros o' lk' E. injection E as <- _. exact L2. }
        destruct HF' as (s3 & fr & EF' & R3 & L3). rewrite EF' in HF.
        destruct fr as [[o' lk]|e|e].
        - injection HF as <- <- _.
          pose proof (R_hupd v s3 o' (fun r0 => set_ua (set_ip (set_access r0 (now s3)) (q_addr q)) (q_ua q)) (R_J _ _ _ R3) (fun r0 => eq_refl)) as R4.
          split; [eapply R_trans; [exact R1|]; eapply R_trans; [exact R2|]; eapply R_trans; eassumption|].
          intros o'' E. injection E as <-. eapply R_live; [exact R4|]. eapply L3. reflexivity.
        - injection HF as <- <- _. split; [eapply R_trans; [exact R1|]; eapply R_trans; eassumption | intros; discriminate].
        - injection HF as <- <- _. split; [eapply R_trans; [exact R1|]; eapply R_trans; eassumption | intros; discriminate]. }
      destruct (negb (rec_valid (conf s) (o_rec ob) q (now s1))).
      + destruct (destroy s1 o (had_cookie q)) as [[s2 r2] dck] eqn:ED.
        pose proof (R_destroy _ _ _ _ _ _ HJ1 ED) as R2.
        destruct r2 as [[]|e|e]; try (injection HS as <- <- _; split; [eapply R_trans; eassumption | intros; discriminate]).
        destruct (R_start_none _ _ _ _ _ _ (R_J _ _ _ R2) HS) as [R3 L3].
        split; [eapply R_trans; [exact R1|]; eapply R_trans; eassumption | exact L3].
      + destruct (negb (is_ref (o_rec ob)) && (c_idexpiry (conf s) <=? since (r_created (o_rec ob)) (now s1))%Z).
        * destruct (regenerate s1 o) as [[s2 r2] rck] eqn:ER.
          pose proof (R_regenerate _ _ _ _ _ HJ1 L1 (below_R _ _ R1 Hb) ER) as R2.
          destruct r2 as [[]|e|e]; try (injection HS as <- <- _; split; [eapply R_trans; eassumption | intros; discriminate]).
          eapply Fin; [exact R2 | eapply R_live; eassumption | exact HS].
        * destruct (sat_add _ _ <=? _)%Z.
          -- destruct (cache_delete s1 k) as [s2 b] eqn:ECD. pose proof (R_cache_delete _ _ _ _ _ HJ1 ECD) as R2.
             injection HS as <- <- _. split; [eapply R_trans; eassumption | intros; discriminate].
          -- eapply Fin; [apply R_refl; exact HJ1 | exact L1 | exact HS].
    - destruct (R_start_none _ _ _ _ _ _ HJ1 HS) as [R2 L2]. split; [eapply R_trans; eassumption | exact L2].
    - injection HS as <- <- _. split; [exact R1 | intros; discriminate].
  Qed.

  (* ------------------------------------------------- the handler's calls *)

  Lemma R_save_direct s o s' r : J' s -> live' s o -> save_direct s o = (s', r) -> R' s s'.
  Proof.
    intros HJ (ob & Ho & HP) HS. unfold save_direct in HS. rewrite Ho in HS.
    destruct (p_save s (o_id ob) (o_rec ob)) as [s1 ok] eqn:E. injection HS as <- _.
    eapply R_p_save; eassumption.
  Qed.

  Lemma R_logout s o s' r : J' s -> live' s o -> logout s o = (s', r) -> R' s s'.
  Proof.
    intros HJ L HL. pose proof L as (ob & Ho & HP). unfold logout in HL. rewrite Ho in HL.
    destruct (r_user (o_rec ob)); [|injection HL as <- _; apply R_refl; exact HJ].
    pose proof (R_hupd v s o (fun r0 => set_user r0 None) HJ (fun r0 => eq_refl)) as R1.
    eapply R_trans; [exact R1|]. eapply R_save_direct; [exact (R_J _ _ _ R1) | eapply R_live; eassumption | exact HL].
  Qed.

  Lemma R_each ids u : forall s s' r, J' s -> each_user_session s ids u = (s', r) -> R' s s'.
  Proof.
    induction ids as [|k t IH]; intros s s' r HJ HE; cbn [each_user_session] in HE.
    - injection HE as <- _. apply R_refl. exact HJ.
    - destruct (cache_get s k) as [s1 g] eqn:EG. destruct (R_cache_get v _ _ _ _ HJ EG) as [R1 L1].
      destruct g as [[o|]|].
      + pose proof (R_hupd v s1 o (fun r0 => set_user r0 u) (R_J _ _ _ R1) (fun r0 => eq_refl)) as R2.
        destruct (cache_set (hupd s1 o (fun r0 => set_user r0 u)) o) as [s3 ok] eqn:EC.
        pose proof (R_cache_set v _ _ _ _ (R_J _ _ _ R2) (R_live _ _ _ _ R2 (L1 o eq_refl)) EC) as R3.
        assert (R13 : R' s s3) by (eapply R_trans; [exact R1|]; eapply R_trans; eassumption).
        destruct ok; [|injection HE as <- _; exact R13].
        eapply R_trans; [exact R13 | eapply IH; [exact (R_J _ _ _ R3) | exact HE]].
      + eapply R_trans; [exact R1 | eapply IH; [exact (R_J _ _ _ R1) | exact HE]].
      + injection HE as <- _. exact R1.
  Qed.

  Lemma R_usersessions s u s' l0 : J' s -> p_usersessions s u = (s', l0) -> R' s s'.
  Proof.
    intros HJ HU. apply p_usersessions_spec in HU. destruct HU as ((Hh & Hc & _) & _ & _ & b & X & _).
    eapply R_mem; [exact HJ | exact X | apply SV_other; intros; discriminate | exact Hh | exact Hc].
  Qed.

  Lemma R_logout_user s u s' r : J' s -> logout_user s u = (s', r) -> R' s s'.
  Proof.
    intros HJ HL. unfold logout_user in HL. destruct (p_usersessions s u) as [s1 l0] eqn:EU.
    pose proof (R_usersessions _ _ _ _ HJ EU) as R1.
    destruct l0 as [ids|]; [|injection HL as <- _; exact R1].
    eapply R_trans; [exact R1 | eapply R_each; [exact (R_J _ _ _ R1) | exact HL]].
  Qed.

  Lemma R_refresh_user s u s' r : J' s -> refresh_user s u = (s', r) -> R' s s'.
  Proof.
    intros HJ HL. unfold refresh_user in HL. destruct (p_usersessions s (fst u)) as [s1 l0] eqn:EU.
    pose proof (R_usersessions _ _ _ _ HJ EU) as R1.
    destruct l0 as [ids|]; [|injection HL as <- _; exact R1].
    eapply R_trans; [exact R1 | eapply R_each; [exact (R_J _ _ _ R1) | exact HL]].
  Qed.

  Lemma R_login s o u ex s' res cks : J' s -> live' s o -> below s -> login s o u ex = (s', res, cks) -> R' s s'.
  Proof.
    intros HJ L Hb HL. unfold login in HL.
    assert (HA : exists sA r1, (if ex then logout_user s (fst u) else let '(s0, _) := logout s o in (s0, Ok tt)) = (sA, r1) /\ R' s sA).
    { destruct ex.
      - destruct (logout_user s (fst u)) as [sA r1] eqn:E. exists sA, r1. split; [reflexivity | eapply R_logout_user; eassumption].
      - destruct (logout s o) as [sA r0] eqn:E. exists sA, (Ok tt). split; [reflexivity | eapply R_logout; eassumption]. }
    destruct HA as (sA & r1 & EA & RA). rewrite EA in HL.
    destruct r1 as [[]|e|e]; try (injection HL as <- _ _; exact RA).
    pose proof (R_hupd v sA o (fun r0 => set_user r0 (Some u)) (R_J _ _ _ RA) (fun r0 => eq_refl)) as RB.
    destruct (cache_set (hupd sA o (fun r0 => set_user r0 (Some u))) o) as [sC b] eqn:ES.
    assert (LB : live' (hupd sA o (fun r0 => set_user r0 (Some u))) o) by (eapply R_live; [exact RB|]; eapply R_live; eassumption).
    pose proof (R_cache_set v _ _ _ _ (R_J _ _ _ RB) LB ES) as RC.
    assert (RAC : R' s sC) by (eapply R_trans; [exact RA|]; eapply R_trans; eassumption).
    destruct b; cbn [negb] in HL; [|injection HL as <- _ _; exact RAC].
    destruct (regenerate sC o) as [[s2 r2] ck2] eqn:ER.
    assert (R2 : R' sC s2).
    { eapply R_regenerate; [exact (R_J _ _ _ RC) | eapply R_live; eassumption | eapply below_R; eassumption | exact ER]. }
    assert (s' = s2) by (destruct r2; injection HL as <- _ _; reflexivity). subst s'.
    eapply R_trans; eassumption.
  Qed.

  Theorem R_do_sop s o hc op s' r cks : J' s -> live' s o -> below s -> do_sop s o hc op = (s', r, cks) -> R' s s'.
  Proof.
    intros HJ L Hb HD. destruct op; cbn [do_sop] in HD.
    - destruct (data_of s o) as [d|]; [|injection HD as <- _ _; apply R_refl; exact HJ].
      pose proof (R_hupd v s o (fun r0 => set_data r0 (Some (kv_set d k v0))) HJ (fun r0 => eq_refl)) as R1.
      destruct (save_direct _ o) as [s1 r1] eqn:ES. injection HD as <- _ _.
      eapply R_trans; [exact R1 | eapply R_save_direct; [exact (R_J _ _ _ R1) | eapply R_live; eassumption | exact ES]].
    - assert (R1 : R' s (match data_of s o with Some d => hupd s o (fun r0 => set_data r0 (Some (kv_del d k))) | None => s end)).
      { destruct (data_of s o) as [d|]; [apply R_hupd; [exact HJ | intro; reflexivity] | apply R_refl; exact HJ]. }
      destruct (save_direct _ o) as [s1 r1] eqn:ES. injection HD as <- _ _.
      eapply R_trans; [exact R1 | eapply R_save_direct; [exact (R_J _ _ _ R1) | eapply R_live; eassumption | exact ES]].
    - injection HD as <- _ _. apply R_refl. exact HJ.
    - destruct (data_of s o) as [d|]; [|injection HD as <- _ _; apply R_refl; exact HJ].
      destruct (kv_get d k) as [x|]; [|injection HD as <- _ _; apply R_refl; exact HJ].
      pose proof (R_hupd v s o (fun r0 => set_data r0 (Some (kv_del d k))) HJ (fun r0 => eq_refl)) as R1.
      destruct (save_direct _ o) as [s1 r1] eqn:ES. injection HD as <- _ _.
      eapply R_trans; [exact R1 | eapply R_save_direct; [exact (R_J _ _ _ R1) | eapply R_live; eassumption | exact ES]].
    - destruct (login s o u exclusive) as [[s1 r1] c1] eqn:E. injection HD as <- _ _. eapply R_login; eassumption.
    - destruct (logout s o) as [s1 r1] eqn:E. injection HD as <- _ _. eapply R_logout; eassumption.
    - destruct (regenerate s o) as [[s1 r1] c1] eqn:E. injection HD as <- _ _. eapply R_regenerate; eassumption.
    - destruct (destroy s o hc) as [[s1 r1] c1] eqn:E. injection HD as <- _ _. eapply R_destroy; eassumption.
  Qed.

  Lemma R_fire : forall l s s' rest, J' s -> fire s l = (s', rest) -> R' s s'.
  Proof.
    induction l as [|[due k] t IH]; intros s s' rest HJ HF; cbn [fire] in HF.
    - injection HF as <- _. apply R_refl. exact HJ.
    - destruct (due <=? now s)%Z.
      + destruct (cache_delete s k) as [s1 b] eqn:E. pose proof (R_cache_delete _ _ _ _ _ HJ E) as R1.
        eapply R_trans; [exact R1 | eapply IH; [exact (R_J _ _ _ R1) | exact HF]].
      + destruct (fire s t) as [s1 rest1] eqn:E. injection HF as <- _. eapply IH; eassumption.
  Qed.

  Lemma R_fire_due s : J' s -> R' s (fire_due s).
  Proof.
    intro HJ. unfold fire_due. pose proof (R_set_pending v s [] HJ) as R1.
    destruct (fire (set_pending s []) (pending s)) as [s1 rest] eqn:E.
    pose proof (R_fire _ _ _ _ (R_J _ _ _ R1) E) as R2.
    eapply R_trans; [exact R1|]. eapply R_trans; [exact R2 | apply R_set_pending; exact (R_J _ _ _ R2)].
  Qed.

  Lemma R_run_script : forall ops s o hc s' rs cks, J' s -> live' s o -> below s ->
    run_script s o hc ops = (s', rs, cks) -> R' s s'.
  Proof.
    induction ops as [|op t IH]; intros s o hc s' rs cks HJ L Hb HR; cbn [run_script] in HR.
    - injection HR as <- _ _. apply R_refl. exact HJ.
    - destruct (do_sop s o hc op) as [[s1 r1] c1] eqn:E. pose proof (R_do_sop _ _ _ _ _ _ _ HJ L Hb E) as R1.
      pose proof (R_fire_due s1 (R_J _ _ _ R1)) as R2.
      assert (R12 : R' s (fire_due s1)) by (eapply R_trans; eassumption).
      destruct (match op with SDestroy => true | _ => match r1 with SPanic _ => true | _ => false end end) eqn:Est.
      + assert (HR' : (fire_due s1, [r1], c1) = (s', rs, cks)) by (destruct op, r1; try discriminate Est; exact HR).
        injection HR' as <- _ _. exact R12.
      + destruct (run_script (fire_due s1) o hc t) as [[s2 rs2] c2] eqn:ER.
        assert (HR' : (s2, r1 :: rs2, c1 ++ c2) = (s', rs, cks)) by (destruct op, r1; try discriminate Est; exact HR).
        injection HR' as <- _ _. eapply R_trans; [exact R12|].
        eapply IH; [exact (R_J _ _ _ R12) | eapply R_live; eassumption | eapply below_R; eassumption | exact ER].
  Qed.

  Lemma R_purge_saves : forall entries s, J' s -> (forall k o, In (k, o) entries -> In (k, o) (cache s)) ->
    R' s (purge_saves s entries) /\ cache (purge_saves s entries) = cache s.
  Proof.
    induction entries as [|[k o] t IH]; intros s HJ Hin; cbn [purge_saves].
    - split; [apply R_refl; exact HJ | reflexivity].
    - destruct (hget s o) as [ob|] eqn:Ho.
      + destruct (p_save s k (o_rec ob)) as [s1 ok] eqn:E. cbn [fst].
        assert (HP : Pv v (o_rec ob)).
        { destruct HJ as (_ & B & _). eapply (B k o ob); [apply Hin; left; reflexivity | exact Ho]. }
        pose proof (R_p_save v _ _ _ _ _ HJ HP E) as R1.
        pose proof (p_save_spec _ _ _ _ _ E) as ((_ & Hc & _) & _).
        destruct (IH s1 (R_J _ _ _ R1)) as [R2 C2].
        { intros k' o' H. rewrite Hc. apply Hin. right. exact H. }
        split; [eapply R_trans; eassumption | congruence].
      + apply IH; [exact HJ|]. intros k' o' H. apply Hin. right. exact H.
  Qed.

  Lemma J_drop_cache s : J' s -> J' (set_cache s []).
  Proof. intros (_ & _ & C). split; [intros k o []|]. split; [intros k o ob []| exact C]. Qed.

  Lemma R_purge s : J' s -> (exists l, ext s (purge s) l /\ SV v l) /\ J' (purge s).
  Proof.
    intro HJ. unfold purge.
    destruct (R_purge_saves (order_by_tb (tb s) (cache s)) s HJ) as [((l & X & S) & HJ1 & _) _].
    { intros k o H. eapply In_order_by_tb. exact H. }
    split; [exists l; split; [|exact S]|apply J_drop_cache; exact HJ1].
    rewrite <- (app_nil_r l). eapply ext_trans; [exact X | apply ext_set_cache].
  Qed.
End Upper.
