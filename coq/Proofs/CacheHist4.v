(* C12 at the level of the public API, part 4: the unbounded cache (N < 0).
   Along a step, an entry that was cached when the step began either is still
   cached under its ID when it ends, or the step deleted that ID, or the step
   saved the entry's record under that ID while it was idle: the access time
   that save wrote is older than SessionCacheExpiry. No entry leaves for size. *)
From Sessions Require Import Model.Base Model.Sess Model.Hist Proofs.SessDefs
  Proofs.CacheInv Proofs.CacheInv2 Proofs.CacheInv3 Proofs.CacheInv4 Proofs.CacheInv5
  Proofs.CacheHist Proofs.CacheHist2 Proofs.CacheHist3.
From Sessions Require Proofs.HistInv Proofs.HistInv2 Proofs.HistInv3.
From Coq Require Import Lia.
Import HistInv3.
Local Open Scope Z_scope.

(* ---------------------------------------------- the saves of a drops sequence *)

Lemma drops_evs_in P s D s' : drops P s D s' ->
  (exists l, evs s' = l ++ evs s) /\
  forall k, In k D -> exists o ob, lookup (cache s) k = Some o /\ hget s o = Some ob /\
                                   In (EvSave k (codec (conf s) (o_rec ob)) true) (evs s').
Proof.
  intro H. induction H as [s|s k0 o ob D s' Hk Hob HP Hd [[l Hl] IH]].
  - split; [exists []; reflexivity | intros k []].
  - split.
    + exists (l ++ [EvSave k0 (codec (conf s) (o_rec ob)) true]). rewrite Hl. cbn [drop1 save1 evs set_cache].
      rewrite <- app_assoc. reflexivity.
    + intros k [<-|Hin].
      * exists o, ob. split; [exact Hk|]. split; [exact Hob|]. rewrite Hl. apply in_or_app. right.
        cbn [drop1 save1 evs set_cache]. left. reflexivity.
      * destruct (IH k Hin) as (o' & ob' & Hc & Ho' & He). exists o', ob'.
        cbn [drop1 save1 cache set_cache] in Hc.
        assert (Hne : k <> k0) by (intro E; subst k0; rewrite lookup_remove_same in Hc; discriminate).
        rewrite lookup_remove_other in Hc by exact Hne. split; [exact Hc|]. split; [exact Ho'|exact He].
Qed.

(* the access time a flush writes is not above the object's *)
Lemma codec_access_le c r : r_access (codec c r) <= r_access r.
Proof.
  rewrite codec_access. destruct (c_json c); [|lia].
  pose proof (Z.mod_pos_bound (r_access r) second ltac:(unfold second; lia)). lia.
Qed.

(* why a cached entry may be gone, in terms of the event log *)
Definition left_ok (cexp t : Z) (l : list ev) (k : key) : Prop :=
  In (EvDelete k true) l \/ exists r, In (EvSave k r true) l /\ cexp < since (r_access r) t.

Definition kept_or_left (s : st) (k : key) : Prop :=
  lookup (cache s) k <> None \/ left_ok (c_cacheexpiry (conf s)) (now s) (evs s) k.

Lemma left_ok_mono cexp t l l' k : (forall e, In e l -> In e l') -> left_ok cexp t l k -> left_ok cexp t l' k.
Proof. intros H [A|[r [A B]]]; [left; auto | right; exists r; auto]. Qed.

(* compaction with N < 0 *)
Lemma compact_neg s r : cinv s -> c_maxcache (conf s) < 0 ->
  (exists l, evs (compact s r) = l ++ evs s) /\
  forall k, lookup (cache s) k <> None ->
    lookup (cache (compact s r)) k = lookup (cache s) k \/
    left_ok (c_cacheexpiry (conf s)) (now s) (evs (compact s r)) k.
Proof.
  intros Hi Hmx. pose proof Hi as [Hp [Hl Hnd]].
  destruct (compact_unbounded s r Hi Hmx) as [E _]. rewrite E.
  destruct (sweep_phase_spec s Hp Hl Hnd) as [D [_ [Hd [_ HD]]]].
  destruct (drops_evs_in _ _ _ _ Hd) as [Hev Hin]. split; [exact Hev|].
  intros k Hk. destruct (in_dec key_eq_dec k D) as [HinD|Hn].
  - right. right. destruct (Hin k HinD) as (o & ob & Hc & Ho & He).
    exists (codec (conf s) (o_rec ob)). split; [exact He|].
    destruct (proj1 (HD k) HinD) as [o' [Hc' Hidle]]. rewrite Hc in Hc'. injection Hc' as <-.
    apply is_idle_iff in Hidle. unfold obj_access in Hidle. rewrite Ho in Hidle.
    pose proof (since_antitone _ _ (now s) (codec_access_le (conf s) (o_rec ob))). lia.
  - left. apply (drops_kept _ _ _ _ k Hd Hn).
Qed.

(* --------------------------------------- the three cache entry points, N < 0 *)

Lemma evs_p_save s k r : plan s = [] -> evs (fst (p_save s k r)) = EvSave k (codec (conf s) r) true :: evs s.
Proof. intro H. rewrite p_save_ff by exact H. reflexivity. Qed.

Lemma get_neg s k0 : cinv s -> c_maxcache (conf s) < 0 ->
  let s' := fst (cache_get s k0) in
  now s' = now s /\ (exists l, evs s' = l ++ evs s) /\
  forall k, lookup (cache s) k <> None ->
    lookup (cache s') k <> None \/ left_ok (c_cacheexpiry (conf s)) (now s) (evs s') k.
Proof.
  intros Hi Hmx. cbv zeta. pose proof Hi as [Hp _].
  destruct (lookup (cache s) k0) as [o|] eqn:Hc.
  { rewrite (cache_get_hit s k0 o Hc). cbn [fst]. split; [reflexivity|]. split; [exists []; reflexivity|]. intros k H. left. exact H. }
  destruct (lookup (store s) k0) as [r|] eqn:Hs.
  2:{ destruct (cache_get_absent s k0 Hp Hc Hs) as [s' [Hg [l ->]]]. rewrite Hg. cbn [fst].
      split; [reflexivity|]. split; [exists l; reflexivity|]. intros k H. left. exact H. }
  destruct (cache_get_load s k0 r Hp Hc Hs) as [s1 [[l0 ->] Hg]]. rewrite Hg. cbn [fst]. cbv zeta.
  destruct (Z.eqb_spec (c_maxcache (conf s)) 0) as [E0|_]; [lia|].
  set (s2 := get_mid (set_evs s (l0 ++ evs s)) k0 r).
  assert (Hi2 : cinv s2) by (apply (get_mid_cinv s); [exact Hi | exists l0; reflexivity]).
  destruct (compact_neg s2 1 Hi2 Hmx) as [[l Hl] Hf].
  cbn [now set_cache evs cache].
  destruct (compact_inv s2 1 Hi2) as [_ Hfr]. rewrite (fr_now _ _ Hfr).
  split; [reflexivity|]. split; [exists (l ++ l0); rewrite Hl; unfold s2; cbn; rewrite app_assoc; reflexivity|].
  intros k Hk. destruct (Hf k Hk) as [Hkeep|Hleft].
  - left. destruct (key_eq_dec k k0) as [->|Hne]; [rewrite lookup_upsert_same; discriminate|].
    rewrite lookup_upsert_other by exact Hne. rewrite Hkeep. exact Hk.
  - right. exact Hleft.
Qed.

Lemma set_neg s o : cinv s -> c_maxcache (conf s) < 0 ->
  let s' := fst (cache_set s o) in
  now s' = now s /\ (exists l, evs s' = l ++ evs s) /\
  forall k, lookup (cache s) k <> None ->
    lookup (cache s') k <> None \/ left_ok (c_cacheexpiry (conf s)) (now s) (evs s') k.
Proof.
  intros Hi Hmx. cbv zeta. destruct (hget s o) as [ob|] eqn:Ho.
  2:{ rewrite cache_set_none by exact Ho. cbn [fst]. split; [reflexivity|]. split; [exists []; reflexivity|]. intros k H. left. exact H. }
  rewrite (cache_set_eq s o ob Ho). unfold set_mid.
  set (rq := if has (cache s) (o_id ob) then 0 else 1).
  pose proof (touch_cinv s o Hi) as Hi1. destruct (touch_frame s o) as (T1 & _ & T3 & T4 & T5 & _).
  assert (Hmx1 : c_maxcache (conf (touch s o)) < 0) by (rewrite T3; exact Hmx).
  destruct (compact_neg (touch s o) rq Hi1 Hmx1) as [[l Hl] Hf].
  destruct (compact_inv (touch s o) rq Hi1) as [[Hp2 _] Hfr].
  assert (E0 : (c_maxcache (conf (compact (touch s o) rq)) =? 0) = false).
  { rewrite (fr_conf _ _ Hfr), T3. apply Z.eqb_neq. lia. }
  rewrite E0. rewrite p_save_ff by exact Hp2. cbn [fst now evs cache log set_store set_evs set_cache].
  rewrite (fr_now _ _ Hfr), T5. split; [reflexivity|].
  assert (Hev0 : evs (touch s o) = evs s) by (unfold touch, hupd; destruct (hget s o); reflexivity).
  split.
  { eexists (_ :: l). rewrite Hl, Hev0. reflexivity. }
  intros k Hk. rewrite <- T1 in Hk. destruct (Hf k Hk) as [Hkeep|Hleft].
  - left. destruct (key_eq_dec k (o_id ob)) as [->|Hne]; [rewrite lookup_upsert_same; discriminate|].
    rewrite lookup_upsert_other by exact Hne. rewrite Hkeep. exact Hk.
  - right. rewrite T3, T5 in Hleft. eapply left_ok_mono; [|exact Hleft]. intros e He. right. exact He.
Qed.

Lemma del_neg s k0 : plan s = [] ->
  let s' := fst (cache_delete s k0) in
  now s' = now s /\ evs s' = EvDelete k0 true :: evs s /\ cache s' = remove (cache s) k0.
Proof. intro Hp. cbv zeta. unfold cache_delete. rewrite p_delete_ff by exact Hp. repeat split. Qed.

(* --------------------------------------------------------- the predicate *)

(* relative to the entries C0 of the beginning, at clock t under configuration c *)
Definition Qneg (c : cfg) (t : Z) (C0 : list (key * nat)) (s : st) : Prop :=
  cinv s /\ conf s = c /\ now s = t /\
  forall k, lookup C0 k <> None -> lookup (cache s) k <> None \/ left_ok (c_cacheexpiry c) t (evs s) k.

Lemma Qneg_frame c t C0 s s' :
  cinv s' -> conf s' = conf s -> now s' = now s -> cache s' = cache s ->
  (forall e, In e (evs s) -> In e (evs s')) -> Qneg c t C0 s -> Qneg c t C0 s'.
Proof.
  intros Hi Hc Hn Hca Hev (_ & A & B & C). split; [exact Hi|]. split; [congruence|]. split; [congruence|].
  intros k Hk. destruct (C k Hk) as [H|H]; [left; rewrite Hca; exact H | right; eapply left_ok_mono; eassumption].
Qed.

Lemma micro_neg c t C0 : c_maxcache c < 0 -> micro (Qneg c t C0).
Proof.
  intro Hmx. constructor.
  - intros s k0 (Hi & A & B & C). subst c t. destruct (get_neg s k0 Hi Hmx) as (G1 & [l G2] & G3). cbv zeta in *.
    split; [apply get_cinv_all; exact Hi|]. split; [apply cache_get_conf; exact Hi|]. split; [exact G1|].
    intros k Hk. destruct (C k Hk) as [H|H]; [apply G3; exact H|].
    right. eapply left_ok_mono; [|exact H]. intros e He. rewrite G2. apply in_or_app. right. exact He.
  - intros s o (Hi & A & B & C). subst c t. destruct (set_neg s o Hi Hmx) as (G1 & [l G2] & G3). cbv zeta in *.
    split; [apply set_cinv_all; exact Hi|]. split; [apply cache_set_conf; exact Hi|]. split; [exact G1|].
    intros k Hk. destruct (C k Hk) as [H|H]; [apply G3; exact H|].
    right. eapply left_ok_mono; [|exact H]. intros e He. rewrite G2. apply in_or_app. right. exact He.
  - intros s k0 (Hi & A & B & C). destruct (del_neg s k0 (proj1 Hi)) as (G1 & G2 & G3). cbv zeta in *.
    split; [apply delete_cinv; exact Hi|]. split.
    { unfold cache_delete. destruct (p_delete_cache (set_cache s (remove (cache s) k0)) k0) as (_ & _ & ->). exact A. }
    split; [congruence|]. intros k Hk. rewrite G2, G3. destruct (key_eq_dec k k0) as [->|Hne].
    + right. left. left. reflexivity.
    + destruct (C k Hk) as [H|H]; [left; rewrite lookup_remove_other by exact Hne; exact H|].
      right. eapply left_ok_mono; [|exact H]. intros e He. right. exact He.
  - intros s k r H. pose proof H as (Hi & _). destruct (p_save_sim s k r (proj1 Hi)) as (S1 & S2 & S3 & S4).
    eapply Qneg_frame; [apply (m_save _ micro_cinv); exact Hi | exact S4 | | exact S2 | | exact H].
    + rewrite p_save_ff by apply Hi. reflexivity.
    + intros e He. rewrite evs_p_save by apply Hi. right. exact He.
  - intros s u H. pose proof H as (Hi & _). destruct (p_usersessions_sim s u (proj1 Hi)) as (S1 & S2 & S3 & S4).
    eapply Qneg_frame; [apply (m_us _ micro_cinv); exact Hi | exact S4 | | exact S2 | | exact H].
    + unfold p_usersessions. rewrite next_fault_ff by apply Hi. reflexivity.
    + intros e He. unfold p_usersessions. rewrite next_fault_ff by apply Hi. right. exact He.
  - intros s H. pose proof H as (Hi & _).
    eapply Qneg_frame; [apply (m_draw _ micro_cinv); exact Hi | | | | | exact H]; try reflexivity.
    intros e He. right. exact He.
  - intros s ob H. pose proof H as (Hi & _).
    eapply Qneg_frame; [apply (m_new _ micro_cinv); exact Hi | | | | | exact H]; try reflexivity. auto.
  - intros s o ob H. pose proof H as (Hi & _).
    eapply Qneg_frame; [apply (m_put _ micro_cinv); exact Hi | | | | | exact H]; try reflexivity. auto.
  - intros s l H. pose proof H as (Hi & _).
    eapply Qneg_frame; [apply (m_pend _ micro_cinv); exact Hi | | | | | exact H]; try reflexivity. auto.
Qed.

Lemma Qneg_init c t C0 s : cinv s -> conf s = c -> now s = t -> cache s = C0 -> Qneg c t C0 s.
Proof. intros H A B C. split; [exact H|]. split; [exact A|]. split; [exact B|]. intros k Hk. left. rewrite C. exact Hk. Qed.

Lemma cinv_setup s t : cinv s -> cinv (set_tb (set_plan (set_evs s []) []) t).
Proof. intro Hi. eapply cinv_sim; [| | |exact Hi]; try reflexivity. cbn. symmetry. apply Hi. Qed.

(* ------------------------------------------------------------- the steps *)

(* the steps that run API calls without emptying the cache wholesale *)
Definition api_step (h : hop) : Prop :=
  match h with
  | HReq r => rq_plan r = [] /\ rq_crash r = None
  | HWait _ => True
  | HLogoutUser _ _ pl => pl = []
  | HRefreshUser _ _ pl => pl = []
  | _ => False
  end.

Theorem unbounded_step w h :
  cinv (w_st w) -> c_maxcache (conf (w_st w)) < 0 -> api_step h ->
  let s' := w_st (fst (step w h)) in let ob := snd (step w h) in
  forall k, lookup (cache (w_st w)) k <> None ->
    lookup (cache s') k <> None \/
    In (EvDelete k true) (ob_evs ob) \/
    exists r, In (EvSave k r true) (ob_evs ob) /\ c_cacheexpiry (conf (w_st w)) < since (r_access r) (ob_now ob).
Proof.
  intros Hi Hmx Hapi. cbv zeta.
  assert (Fin : forall t s1 s3 rc st0 cks sr fin jar,
            Qneg (conf (w_st w)) t (cache (w_st w)) s1 -> papi s1 s3 ->
            forall k, lookup (cache (w_st w)) k <> None ->
            lookup (cache (set_tb (set_plan s3 []) [])) k <> None \/
            In (EvDelete k true) (ob_evs (mk_obs rc st0 cks sr fin (set_tb (set_plan s3 []) []) jar)) \/
            exists r, In (EvSave k r true) (ob_evs (mk_obs rc st0 cks sr fin (set_tb (set_plan s3 []) []) jar)) /\
                      c_cacheexpiry (conf (w_st w)) < since (r_access r) (ob_now (mk_obs rc st0 cks sr fin (set_tb (set_plan s3 []) []) jar))).
  { intros t s1 s3 rc st0 cks sr fin jar H1 Hp k Hk.
    destruct (micro_papi _ (micro_neg _ t _ Hmx) s1 s3 Hp H1) as (_ & _ & Hn & C).
    cbn [mk_obs ob_evs ob_now cache evs now set_tb set_plan]. rewrite Hn.
    destruct (C k Hk) as [H|[H|[r [H H']]]]; [left; exact H | right; left; apply in_rev in H; exact H|].
    right. right. exists r. split; [apply in_rev in H; exact H | exact H']. }
  destruct h as [r|d|tbl pl| | |u tbl pl|u tbl pl|c]; cbn [api_step] in Hapi; try contradiction.
  - destruct Hapi as [Hpl Hcr]. rewrite step_req_eq. cbv zeta. rewrite Hpl, Hcr.
    pose proof (req_body_papi (set_tb (set_plan (set_evs (w_st w) []) []) (rq_tb r))
                  (mkReq (match rq_present r with PJar => jar_of (w_jars w) (rq_client r) | PForge c => c end)
                         (rq_create r) (rq_addr r) (rq_ua r)) (rq_script r)) as Hp.
    destruct (req_body _ _ (rq_script r)) as [[[[[s3 rc] st0] sr] fin] cks]. cbn [fst snd w_st] in *.
    apply (Fin (now (w_st w)) (set_tb (set_plan (set_evs (w_st w) []) []) (rq_tb r)) s3); [|exact Hp].
    apply Qneg_init; try reflexivity. apply cinv_setup. exact Hi.
  - cbn [step fst snd w_st].
    pose proof (fire_due_papi (set_now (set_evs (w_st w) []) (now (set_evs (w_st w) []) + d))) as Hp.
    intros k Hk.
    assert (H1 : Qneg (conf (w_st w)) (now (w_st w) + d) (cache (w_st w)) (set_now (set_evs (w_st w) []) (now (set_evs (w_st w) []) + d))).
    { split; [eapply cinv_sim; [| | |exact Hi]; reflexivity|]. split; [reflexivity|]. split; [reflexivity|].
      intros k' Hk'. left. exact Hk'. }
    destruct (micro_papi _ (micro_neg _ _ _ Hmx) _ _ Hp H1) as (_ & _ & Hn & C).
    cbn [mk_obs ob_evs ob_now]. rewrite Hn.
    destruct (C k Hk) as [H|[H|[r [H H']]]]; [left; exact H | right; left; apply in_rev in H; exact H|].
    right. right. exists r. split; [apply in_rev in H; exact H | exact H'].
  - subst pl. cbn [step].
    pose proof (logout_user_papi (set_tb (set_plan (set_evs (w_st w) []) []) tbl) u) as Hp.
    destruct (logout_user _ u) as [s1 x]. cbn [fst snd w_st] in *.
    pose proof (fire_due_papi (set_tb (set_plan s1 []) [])) as Hp2.
    intros k Hk.
    assert (H1 : Qneg (conf (w_st w)) (now (w_st w)) (cache (w_st w)) (set_tb (set_plan (set_evs (w_st w) []) []) tbl)).
    { apply Qneg_init; try reflexivity. apply cinv_setup. exact Hi. }
    pose proof (micro_papi _ (micro_neg _ _ _ Hmx) _ _ Hp H1) as H2.
    assert (H3 : Qneg (conf (w_st w)) (now (w_st w)) (cache (w_st w)) (set_tb (set_plan s1 []) [])).
    { eapply Qneg_frame; [| | | | |exact H2]; try reflexivity; [|auto].
      eapply cinv_sim; [| | |apply H2]; try reflexivity. cbn. symmetry. apply H2. }
    destruct (micro_papi _ (micro_neg _ _ _ Hmx) _ _ Hp2 H3) as (_ & _ & Hn & C).
    cbn [mk_obs ob_evs ob_now]. rewrite Hn.
    destruct (C k Hk) as [H|[H|[r [H H']]]]; [left; exact H | right; left; apply in_rev in H; exact H|].
    right. right. exists r. split; [apply in_rev in H; exact H | exact H'].
  - subst pl. cbn [step].
    pose proof (refresh_user_papi (set_tb (set_plan (set_evs (w_st w) []) []) tbl) u) as Hp.
    destruct (refresh_user _ u) as [s1 x]. cbn [fst snd w_st] in *.
    pose proof (fire_due_papi (set_tb (set_plan s1 []) [])) as Hp2.
    intros k Hk.
    assert (H1 : Qneg (conf (w_st w)) (now (w_st w)) (cache (w_st w)) (set_tb (set_plan (set_evs (w_st w) []) []) tbl)).
    { apply Qneg_init; try reflexivity. apply cinv_setup. exact Hi. }
    pose proof (micro_papi _ (micro_neg _ _ _ Hmx) _ _ Hp H1) as H2.
    assert (H3 : Qneg (conf (w_st w)) (now (w_st w)) (cache (w_st w)) (set_tb (set_plan s1 []) [])).
    { eapply Qneg_frame; [| | | | |exact H2]; try reflexivity; [|auto].
      eapply cinv_sim; [| | |apply H2]; try reflexivity. cbn. symmetry. apply H2. }
    destruct (micro_papi _ (micro_neg _ _ _ Hmx) _ _ Hp2 H3) as (_ & _ & Hn & C).
    cbn [mk_obs ob_evs ob_now]. rewrite Hn.
    destruct (C k Hk) as [H|[H|[r [H H']]]]; [left; exact H | right; left; apply in_rev in H; exact H|].
    right. right. exists r. split; [apply in_rev in H; exact H | exact H'].
Qed.

(* N < 0 throughout a history *)
Definition keeps_neg (h : hop) : Prop :=
  match h with HSetCfg c => c_maxcache c < 0 | _ => True end.

Definition Bneg : list (key * nat) -> cfg -> Prop := fun _ c => c_maxcache c < 0.

Lemma micro_Bneg : micro (cc Bneg).
Proof. apply micro_cc; unfold Bneg; auto. Qed.

Lemma neg_after : forall hs w, cc Bneg (w_st w) -> Forall ff_hop hs -> Forall keeps_neg hs -> cc Bneg (w_st (after w hs)).
Proof.
  induction hs as [|h t IH]; intros w H Hff Hk; cbn [after]; [exact H|].
  inversion Hff; inversion Hk; subst. apply IH; try assumption.
  apply (step_cc Bneg micro_Bneg (fun l c H => H)); try assumption. intros c ->. assumption.
Qed.

Theorem unbounded_hist c hs h :
  c_maxcache c < 0 -> Forall ff_hop hs -> Forall keeps_neg hs -> api_step h ->
  let w := reach c hs in let s' := w_st (fst (step w h)) in let ob := snd (step w h) in
  forall k, lookup (cache (w_st w)) k <> None ->
    lookup (cache s') k <> None \/
    In (EvDelete k true) (ob_evs ob) \/
    exists r, In (EvSave k r true) (ob_evs ob) /\ c_cacheexpiry (conf (w_st w)) < since (r_access r) (ob_now ob).
Proof.
  intros Hmx Hff Hk Hapi.
  destruct (neg_after hs (mkWorld (init_st c) []) (conj (cinv_init c) Hmx) Hff Hk) as [Hi Hn].
  exact (unbounded_step (reach c hs) h Hi Hn Hapi).
Qed.
