(* Lifting to histories, part 4 (C05 at history level, first part): references
   point upwards in every reachable state.

   RWs s   every stored replaced-ID record names a drawn generated ID with a
           strictly larger ordinal than the ID it is stored under;
   Kp s    no ID is queued for clean-up twice;
   LI s    the invariant between steps: PF's winv, Kcs, PRs, RWs, Kp.

   LI holds initially and is preserved by every fault-free, crash-free step of
   every hop kind; it implies sess_inv and PD's ref_wf (stated on L). Hence
   ERefLoop is unreachable and no response carries a replaced-ID record. *)
From Sessions Require Import Model.Base Model.Sess Model.Hist Proofs.SessDefs
  Proofs.HistInv Proofs.HistInv2 Proofs.HistInv3 Proofs.HistLift Proofs.HistLift2 Proofs.HistLift3.
From Sessions Require Proofs.RotateLaws Proofs.RotateLaws2 Proofs.RotateLaws3 Proofs.RotateLaws4.
From Coq Require Import Lia.

Definition RWs (s : st) : Prop :=
  forall k x, sref s k = Some (Some x) ->
    exists m, x = KGen m /\ (m < supply s)%N /\ (forall j, k = KGen j -> (j < m)%N).

Definition Kp (s : st) : Prop := NoDup (map snd (pending s)).

Definition Q0 (s : st) : Prop := RWs s /\ Kp s.
Definition DEL0 (s : st) (k : key) : Prop := True.
Definition FOK0 (t : Z) : Prop := True.

Lemma NoDup_map_snd_filter {A B} (f : A * B -> bool) (l : list (A * B)) :
  NoDup (map snd l) -> NoDup (map snd (filter f l)).
Proof.
  induction l as [|e l IH]; simpl; intro H; [constructor|].
  inversion H as [|? ? Hx H']; subst. destruct (f e); simpl; [|auto].
  constructor; [|auto]. intro Hin. apply Hx. apply in_map_iff in Hin. destruct Hin as [e' [He Hin]].
  apply filter_In in Hin. apply in_map_iff. exists e'. tauto.
Qed.

(* Q0 depends only on the reference view, the queue and the supply *)
Lemma Q0_same s s' : (forall k, sref s' k = sref s k) -> pending s' = pending s -> supply s' = supply s ->
  Q0 s -> Q0 s'.
Proof.
  intros Hs Hp Hn [R Kq]. split.
  - intros k x H. rewrite Hs in H. rewrite Hn. exact (R k x H).
  - unfold Kp. rewrite Hp. exact Kq.
Qed.

Lemma Q0_qt s s' : qt s s' -> Q0 s -> Q0 s'.
Proof. intros Qt. apply Q0_same; [exact (qt_sref _ _ Qt) | exact (qt_pending _ _ Qt) | exact (qt_supply _ _ Qt)]. Qed.

Lemma RWs_mono s k x n : (supply s <= n)%N ->
  (exists m, x = KGen m /\ (m < supply s)%N /\ (forall j, k = KGen j -> (j < m)%N)) ->
  exists m, x = KGen m /\ (m < n)%N /\ (forall j, k = KGen j -> (j < m)%N).
Proof. intros Hle (m & E & Hm & Hj). exists m. split; [exact E|]. split; [lia | exact Hj]. Qed.

Lemma Q0_new s s' k : eff_new s s' k -> Q0 s -> Q0 s'.
Proof.
  intros E [R Kq]. split.
  - intros k' x H. rewrite (en_supply _ _ _ E). destruct (key_eq_dec k' k) as [->|Hne].
    + rewrite (en_new _ _ _ E) in H. discriminate.
    + rewrite (en_oth _ _ _ E k' Hne) in H. eapply RWs_mono; [|exact (R k' x H)]. lia.
  - unfold Kp. rewrite (en_pending _ _ _ E). exact Kq.
Qed.

Lemma Q0_repl s s' k : eff_repl s s' k -> Q0 s -> Q0 s'.
Proof.
  intros E [R Kq]. split.
  - intros k' x H. rewrite (er_supply _ _ _ E). destruct (key_eq_dec k' k) as [->|N1].
    + rewrite (er_old' _ _ _ E) in H. injection H as <-. exists (supply s). split; [reflexivity|]. split; [lia|].
      intros j ->. exact (er_drawn _ _ _ E).
    + destruct (key_eq_dec k' (KGen (supply s))) as [->|N2].
      * rewrite (er_new' _ _ _ E) in H. discriminate.
      * rewrite (er_oth _ _ _ E k' N1 N2) in H. eapply RWs_mono; [|exact (R k' x H)]. lia.
  - unfold Kp. rewrite (er_pending _ _ _ E), map_app. cbn [map snd]. apply NoDup_app_intro.
    + exact Kq.
    + repeat constructor. intros [].
    + intros x Hx [<-|[]]. apply in_map_iff in Hx. destruct Hx as [[d k'] [Ek Hin]]. cbn [snd] in Ek. subst k'.
      exact (er_np _ _ _ E d Hin).
Qed.

Lemma Q0_del s s' k : eff_del s s' k -> DEL0 s k -> Q0 s -> Q0 s'.
Proof.
  intros E _ [R Kq]. split.
  - intros k' x H. rewrite (ed_supply _ _ _ E). destruct (key_eq_dec k' k) as [->|Hne].
    + rewrite (ed_gone _ _ _ E) in H. discriminate.
    + rewrite (ed_oth _ _ _ E k' Hne) in H. exact (R k' x H).
  - unfold Kp. rewrite (ed_pending _ _ _ E). exact Kq.
Qed.

Lemma Q0_fire s s' : eff_fire s s' -> FOK0 (now s) -> Q0 s -> Q0 s'.
Proof.
  intros E _ [R Kq]. split.
  - intros k x H. rewrite (ef_supply _ _ E). destruct (ef_sref _ _ E k) as [Es|[Es _]]; rewrite Es in H; [exact (R k x H) | discriminate].
  - unfold Kp. rewrite (ef_pending _ _ E). apply NoDup_map_snd_filter. exact Kq.
Qed.

(* ----------------------------------------------------- the invariant LI *)

Definition LI (s : st) : Prop := GW Q0 s.

Lemma LI_init c : LI (init_st c).
Proof.
  split; [apply winv_init|]. split; [intros k o ob Hl; discriminate|]. split; [intros d k []|].
  split; [intros k x H; discriminate | constructor].
Qed.

Lemma LI_sess_inv s : LI s -> sess_inv s.
Proof.
  intros (W & _). destruct (winv_sessdefs _ _ _ W) as (Hp & Hc & Hn & Hf).
  split; [exact Hp|]. split; [exact Hc|]. split; [exact Hn | apply fresh_from_0; exact Hf].
Qed.

(* PD's ref_wf (on L) from the store-side statement and Kcs *)
Lemma Kcs_RWs_ref_wf s : Kcs s -> RWs s -> RotateLaws4.ref_wf s.
Proof.
  intros K R k r t HL Hr. apply (R k t). unfold L in HL. destruct (lookup (cache s) k) as [o|] eqn:Hl.
  - destruct (hget s o) as [ob|] eqn:Ho; [|discriminate]. injection HL as <-. rewrite (K k o ob Hl Ho), Hr. reflexivity.
  - rewrite (sref_lookup _ _ _ HL), Hr. reflexivity.
Qed.

Lemma LI_ref_wf s : LI s -> RotateLaws4.ref_wf s.
Proof. intros (_ & K & _ & [R _]). apply Kcs_RWs_ref_wf; assumption. Qed.

(* the hops outside the generic part: waiting, reconfiguration, restart *)
Lemma LI_step_wait w d : LI (w_st w) -> LI (w_st (fst (step w (HWait d)))).
Proof.
  intros (W & K & P & Hq). cbn [step fst w_st].
  set (s0 := set_now (set_evs (w_st w) []) (now (set_evs (w_st w) []) + d)).
  assert (G0 : G Q0 (supply (w_st w), []) s0).
  { split; [apply inv_set_now; exact W|]. split; [eapply Kcs_same; [| | |exact K]; reflexivity|].
    split; [intros d' k Hin; exact (P d' k Hin) | eapply Q0_same; [| | |exact Hq]; reflexivity]. }
  destruct (fire_due_G Q0 FOK0 Q0_fire _ _ G0 Logic.I) as (G1 & _).
  eapply G_GW'; [exact Q0_qt | exact G1].
Qed.

Lemma LI_step_cfg w c : LI (w_st w) -> LI (w_st (fst (step w (HSetCfg c)))).
Proof.
  intros (W & K & P & Hq). cbn [step fst w_st].
  split; [eapply winv_of_inv'; apply inv_set_conf; exact W|].
  split; [eapply Kcs_same; [| | |exact K]; reflexivity|].
  split; [intros d' k Hin; exact (P d' k Hin) | eapply Q0_same; [| | |exact Hq]; reflexivity].
Qed.

Lemma LI_step_restart w : LI (w_st w) -> LI (w_st (fst (step w HRestart))).
Proof.
  intros (W & K & P & [R Kq]). cbn [step fst w_st].
  split; [eapply winv_of_inv'; unfold restart; apply inv_set_pending; [apply inv_set_cache_nil; exact W | intros d k []]|].
  split; [intros k o ob Hl; discriminate|]. split; [intros d k []|].
  split; [exact R | constructor].
Qed.

(* every fault-free, crash-free step preserves LI *)
Theorem LI_step w h : LI (w_st w) -> ff_hop h -> crash_free h -> LI (w_st (fst (step w h))).
Proof.
  intros Hl Hff Hcf. destruct h as [r|d|tbl pl| | |u tbl pl|u tbl pl|c].
  - apply (step_req_GW Q0 DEL0 FOK0 Q0_qt Q0_new Q0_repl Q0_del Q0_fire w r Hl Hff Hcf Logic.I).
    + intros; exact Logic.I.
    + intros o _ s ob _ _ _. exact Logic.I.
  - apply LI_step_wait. exact Hl.
  - apply (step_gen_GW Q0 FOK0 Q0_qt Q0_fire w _ Hl Hff Logic.I Logic.I).
  - apply (step_gen_GW Q0 FOK0 Q0_qt Q0_fire w _ Hl Hff Logic.I Logic.I).
  - apply LI_step_restart. exact Hl.
  - apply (step_gen_GW Q0 FOK0 Q0_qt Q0_fire w _ Hl Hff Logic.I Logic.I).
  - apply (step_gen_GW Q0 FOK0 Q0_qt Q0_fire w _ Hl Hff Logic.I Logic.I).
  - apply LI_step_cfg. exact Hl.
Qed.

Theorem LI_after : forall hs w, LI (w_st w) -> Forall ff_hop hs -> Forall crash_free hs -> LI (w_st (after w hs)).
Proof.
  induction hs as [|h t IH]; intros w Hl Hff Hcf; cbn [after]; [exact Hl|].
  inversion Hff; inversion Hcf; subst. apply IH; [apply LI_step; assumption | assumption | assumption].
Qed.

Theorem LI_reach c hs : Forall ff_hop hs -> Forall crash_free hs -> LI (w_st (reach c hs)).
Proof. intros Hff Hcf. apply LI_after; [apply LI_init | exact Hff | exact Hcf]. Qed.

(* ref_wf in every state reachable by a fault-free, crash-free history *)
Theorem ref_wf_hist c hs : Forall ff_hop hs -> Forall crash_free hs -> RotateLaws4.ref_wf (w_st (reach c hs)).
Proof. intros Hff Hcf. apply LI_ref_wf. apply LI_reach; assumption. Qed.
