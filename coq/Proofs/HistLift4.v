(* Lifting to histories, part 4 (C05 at history level, first part): references
   point upwards in every reachable state.

   RWs s   every stored replaced-ID record names a drawn generated ID with a
           strictly larger ordinal than the ID it is stored under;
   Kp s    no ID is queued for clean-up twice;
   LI s    the invariant between steps: PF's winv, Kcs, PRs, RWs, Kp.

   LI holds initially and is preserved by every fault-free, crash-free step of
   every hop kind; it implies sess_inv and PD's ref_wf (stated on L). Hence
   ERefLoop is unreachable and no response carries a replaced-ID record. *)
From Sessions Require Import Model.Base Model.Sess Model.Hist Proofs.SessDefs
  Proofs.HistInv Proofs.HistInv2 Proofs.HistInv3 Proofs.HistLift Proofs.HistLift2 Proofs.HistLift3.
From Sessions Require Proofs.RotateLaws Proofs.RotateLaws2 Proofs.RotateLaws3 Proofs.RotateLaws4.
From Coq Require Import Lia.

Definition RWs (s : st) : Prop :=
  forall k x, sref s k = Some (Some x) ->
    exists m, x = KGen m /\ (m < supply s)%N /\ (forall j, k = KGen j -> (j < m)%N).

Definition Kp (s : st) : Prop := NoDup (map snd (pending s)).

Definition Q0 (s : st) : Prop := RWs s /\ Kp s.
Definition DEL0 (s : st) (k : key) : Prop := True.
Definition FOK0 (t : Z) : Prop := True.

Lemma NoDup_map_snd_filter {A B} (f : A * B -> bool) (l : list (A * B)) :
  NoDup (map snd l) -> NoDup (map snd (filter f l)).
Proof.
  induction l as [|e l IH]; simpl; intro H; [constructor|].
  inversion H as [|? ? Hx H']; subst. destruct (f e); simpl; [|auto].
  constructor; [|auto]. intro Hin. apply Hx. apply in_map_iff in Hin. destruct Hin as [e' [He Hin]].
  apply filter_In in Hin. apply in_map_iff. exists e'. tauto.
Qed.

(* Q0 depends only on the reference view, the queue and the supply *)
Lemma Q0_same s s' : (forall k, sref s' k = sref s k) -> pending s' = pending s -> supply s' = supply s ->
  Q0 s -> Q0 s'.
Proof.
  intros Hs Hp Hn [R Kq]. split.
  - intros k x H. rewrite Hs in H. rewrite Hn. exact (R k x H).
  - unfold Kp. rewrite Hp. exact Kq.
Qed.

Lemma Q0_qt s s' : qt s s' -> Q0 s -> Q0 s'.
Proof. intros Qt. apply Q0_same; [exact (qt_sref _ _ Qt) | exact (qt_pending _ _ Qt) | exact (qt_supply _ _ Qt)]. Qed.

Lemma RWs_mono s k x n : (supply s <= n)%N ->
  (exists m, x = KGen m /\ (m < supply s)%N /\ (forall j, k = KGen j -> (j < m)%N)) ->
  exists m, x = KGen m /\ (m < n)%N /\ (forall j, k = KGen j -> (j < m)%N).
Proof. intros Hle (m & E & Hm & Hj). exists m. split; [exact E|]. split; [lia | exact Hj]. Qed.

Lemma Q0_new s s' k : eff_new s s' k -> Q0 s -> Q0 s'.
Proof.
  intros E [R Kq]. split.
  - intros k' x H. rewrite (en_supply _ _ _ E). destruct (key_eq_dec k' k) as [->|Hne].
    + rewrite (en_new _ _ _ E) in H. discriminate.
    + rewrite (en_oth _ _ _ E k' Hne) in H. eapply RWs_mono; [|exact (R k' x H)]. lia.
  - unfold Kp. rewrite (en_pending _ _ _ E). exact Kq.
Qed.

Lemma Q0_repl s s' k : eff_repl s s' k -> Q0 s -> Q0 s'.
Proof.
  intros E [R Kq]. split.
  - intros k' x H. rewrite (er_supply _ _ _ E). destruct (key_eq_dec k' k) as [->|N1].
    + rewrite (er_old' _ _ _ E) in H. injection H as <-. exists (supply s). split; [reflexivity|]. split; [lia|].
      intros j ->. exact (er_drawn _ _ _ E).
    + destruct (key_eq_dec k' (KGen (supply s))) as [->|N2].
      * rewrite (er_new' _ _ _ E) in H. discriminate.
      * rewrite (er_oth _ _ _ E k' N1 N2) in H. eapply RWs_mono; [|exact (R k' x H)]. lia.
  - unfold Kp. rewrite (er_pending _ _ _ E), map_app. cbn [map snd]. apply NoDup_app_intro.
    + exact Kq.
    + repeat constructor. intros [].
    + intros x Hx [<-|[]]. apply in_map_iff in Hx. destruct Hx as [[d k'] [Ek Hin]]. cbn [snd] in Ek. subst k'.
      exact (er_np _ _ _ E d Hin).
Qed.

Lemma Q0_del s s' k : eff_del s s' k -> DEL0 s k -> Q0 s -> Q0 s'.
Proof.
  intros E _ [R Kq]. split.
  - intros k' x H. rewrite (ed_supply _ _ _ E). destruct (key_eq_dec k' k) as [->|Hne].
    + rewrite (ed_gone _ _ _ E) in H. discriminate.
    + rewrite (ed_oth _ _ _ E k' Hne) in H. exact (R k' x H).
  - unfold Kp. rewrite (ed_pending _ _ _ E). exact Kq.
Qed.

Lemma Q0_fire s s' : eff_fire s s' -> FOK0 (now s) -> Q0 s -> Q0 s'.
Proof.
  intros E _ [R Kq]. split.
  - intros k x H. rewrite (ef_supply _ _ E). destruct (ef_sref _ _ E k) as [Es|[Es _]]; rewrite Es in H; [exact (R k x H) | discriminate].
  - unfold Kp. rewrite (ef_pending _ _ E). apply NoDup_map_snd_filter. exact Kq.
Qed.

(* ----------------------------------------------------- the invariant LI *)

Definition LI (s : st) : Prop := GW Q0 s.

Lemma LI_init c : LI (init_st c).
Proof.
  split; [apply winv_init|]. split; [intros k o ob Hl; discriminate|]. split; [intros d k []|].
  split; [intros k x H; discriminate | constructor].
Qed.

Lemma LI_sess_inv s : LI s -> sess_inv s.
Proof.
  intros (W & _). destruct (winv_sessdefs _ _ _ W) as (Hp & Hc & Hn & Hf).
  split; [exact Hp|]. split; [exact Hc|]. split; [exact Hn | apply (proj1 (fresh_from_0 s)); exact Hf].
Qed.

(* PD's ref_wf (on L) from the store-side statement and Kcs *)
Lemma Kcs_RWs_ref_wf s : Kcs s -> RWs s -> RotateLaws4.ref_wf s.
Proof.
  intros K R k r t HL Hr. apply (R k t). unfold L in HL. destruct (lookup (cache s) k) as [o|] eqn:Hl.
  - destruct (hget s o) as [ob|] eqn:Ho; [|discriminate]. injection HL as <-. rewrite (K k o ob Hl Ho), Hr. reflexivity.
  - rewrite (sref_lookup _ _ _ HL), Hr. reflexivity.
Qed.

Lemma LI_ref_wf s : LI s -> RotateLaws4.ref_wf s.
Proof. intros (_ & K & _ & [R _]). apply Kcs_RWs_ref_wf; assumption. Qed.

(* the hops outside the generic part: waiting, reconfiguration, restart *)
Lemma LI_step_wait w d : LI (w_st w) -> LI (w_st (fst (step w (HWait d)))).
Proof.
  intros (W & K & P & Hq). cbn [step fst w_st].
  set (s0 := set_now (set_evs (w_st w) []) (now (set_evs (w_st w) []) + d)).
  assert (G0 : G Q0 (supply (w_st w), []) s0).
  { split; [apply inv_set_now; exact W|]. split; [eapply Kcs_same; [| | |exact K]; reflexivity|].
    split; [intros d' k Hin; exact (P d' k Hin) | eapply Q0_same; [| | |exact Hq]; reflexivity]. }
  destruct (fire_due_G Q0 FOK0 Q0_fire _ _ G0 Logic.I) as (G1 & _).
  exact (G_GW' _ _ _ G1).
Qed.

Lemma LI_step_cfg w c : LI (w_st w) -> LI (w_st (fst (step w (HSetCfg c)))).
Proof.
  intros (W & K & P & Hq). cbn [step fst w_st].
  split; [eapply winv_of_inv'; apply inv_set_conf; exact W|].
  split; [eapply Kcs_same; [| | |exact K]; reflexivity|].
  split; [intros d' k Hin; exact (P d' k Hin) | eapply Q0_same; [| | |exact Hq]; reflexivity].
Qed.

Lemma LI_step_restart w : LI (w_st w) -> LI (w_st (fst (step w HRestart))).
Proof.
  intros (W & K & P & [R Kq]). cbn [step fst w_st].
  split; [eapply winv_of_inv'; unfold restart; apply inv_set_pending; [apply inv_set_cache_nil; exact W | intros d k []]|].
  split; [intros k o ob Hl; discriminate|]. split; [intros d k []|].
  split; [exact R | constructor].
Qed.

(* every fault-free, crash-free step preserves LI *)
Theorem LI_step w h : LI (w_st w) -> ff_hop h -> crash_free h -> LI (w_st (fst (step w h))).
Proof.
  intros Hl Hff Hcf. destruct h as [r|d|tbl pl| | |u tbl pl|u tbl pl|c].
  - apply (step_req_GW Q0 DEL0 FOK0 Q0_qt Q0_new Q0_repl Q0_del Q0_fire w r Hl Hff Hcf Logic.I).
    + intros; exact Logic.I.
    + intros o _ s ob _ _ _. exact Logic.I.
  - apply LI_step_wait. exact Hl.
  - apply (step_gen_GW Q0 FOK0 Q0_qt Q0_fire w _ Hl Hff Logic.I Logic.I).
  - apply (step_gen_GW Q0 FOK0 Q0_qt Q0_fire w _ Hl Hff Logic.I Logic.I).
  - apply LI_step_restart. exact Hl.
  - apply (step_gen_GW Q0 FOK0 Q0_qt Q0_fire w _ Hl Hff Logic.I Logic.I).
  - apply (step_gen_GW Q0 FOK0 Q0_qt Q0_fire w _ Hl Hff Logic.I Logic.I).
  - apply LI_step_cfg. exact Hl.
Qed.

Theorem LI_after : forall hs w, LI (w_st w) -> Forall ff_hop hs -> Forall crash_free hs -> LI (w_st (after w hs)).
Proof.
  induction hs as [|h t IH]; intros w Hl Hff Hcf; cbn [after]; [exact Hl|].
  inversion Hff; inversion Hcf; subst. apply IH; [apply LI_step; assumption | assumption | assumption].
Qed.

Theorem LI_reach c hs : Forall ff_hop hs -> Forall crash_free hs -> LI (w_st (reach c hs)).
Proof. intros Hff Hcf. apply LI_after; [apply LI_init | exact Hff | exact Hcf]. Qed.

(* ref_wf in every state reachable by a fault-free, crash-free history *)
Theorem ref_wf_hist c hs : Forall ff_hop hs -> Forall crash_free hs -> RotateLaws4.ref_wf (w_st (reach c hs)).
Proof. intros Hff Hcf. apply LI_ref_wf. apply LI_reach; assumption. Qed.

(* ------------------------------------------- ERefLoop is unreachable *)

Lemma RWs_qt s s' : qt s s' -> RWs s -> RWs s'.
Proof. intros Qt R k x H. rewrite (qt_sref _ _ Qt) in H. rewrite (qt_supply _ _ Qt). exact (R k x H). Qed.

Lemma start_none_no_loop s q cks s' res cks' : ffnd s ->
  start_none s q cks = (s', res, cks') -> res <> Err ERefLoop.
Proof.
  intros F E. unfold start_none in E. destruct (q_create q).
  - rewrite create_session_ff in E by exact F. injection E as _ <- _. discriminate.
  - injection E as _ <- _. discriminate.
Qed.

Lemma start_no_loop base s q : inv 0 base NX ND s -> Kcs s -> RWs s ->
  forall s' res cks, start s q = (s', res, cks) -> res <> Err ERefLoop.
Proof.
  intros I K R s' res cks E. rewrite start_eq in E.
  destruct (q_cookie q) as [|k|n]; try (eapply start_none_no_loop; [eapply inv_ffnd; exact I | exact E]).
  destruct (cache_get_inv _ _ _ _ _ k I) as (s1 & r & E1 & I1 & Hr).
  destruct (cache_get_qt _ _ _ _ k I K) as (Q1 & K1 & Hobj). rewrite E1 in *. cbn [fst snd] in *.
  assert (F1 : ffnd s1) by (eapply inv_ffnd; exact I1). assert (Hp1 : plan s1 = []) by apply F1.
  destruct r as [o|]; [|eapply start_none_no_loop; [exact F1 | exact E]].
  destruct Hr as [_ [ob (Ho & _ & _ & _)]]. destruct (Hobj o eq_refl) as (ob' & Ho' & Hid & Hs).
  rewrite Ho in Ho'. injection Ho' as <-. rewrite Ho in E.
  set (c := conf s) in *.
  destruct (rec_valid c (now s1) q (o_rec ob)) eqn:Hv.
  - destruct (r_ref (o_rec ob)) as [t|] eqn:Href.
    + destruct (sat_add (c_idexpiry c) (c_grace c) <=? since (r_created (o_rec ob)) (now s1))%Z eqn:Hb.
      * rewrite sf_backstop in E; [| exact Hp1 | exact Hv | unfold isref; rewrite Href; reflexivity | exact Hb].
        injection E as _ <- _. discriminate.
      * rewrite (sf_ref _ _ _ _ _ _ _ t Hv Href Hb) in E.
        assert (Hnl : snd (follow (S (N.to_nat (supply s1))) s1 o k) <> Err ERefLoop).
        { destruct (inv_sess_inv _ _ I1) as (_ & Hcok & [Hndc _] & _).
          apply (RotateLaws4.follow_no_loop _ s1 o ob k Hp1 Hcok Hndc).
          - apply Kcs_RWs_ref_wf; [exact K1 | eapply RWs_qt; eassumption].
          - exact Ho.
          - intros t' Ht'. rewrite Href in Ht'. injection Ht' as <-.
            destruct (RWs_qt _ _ Q1 R k t) as (m & -> & Hm & _); [rewrite Hs; reflexivity|].
            exists m. split; [reflexivity|]. split; [exact Hm | lia]. }
        destruct (follow _ s1 o k) as [s2 fr]. cbn [snd] in Hnl.
        destruct fr as [[o' lk']|e|e]; injection E as _ <- _; [discriminate | intro Hx; apply Hnl; injection Hx as ->; reflexivity | discriminate].
    + destruct (c_idexpiry c <=? since (r_created (o_rec ob)) (now s1))%Z eqn:Ha.
      * rewrite (sf_rotate _ _ _ _ _ _ _ F1 Ho Hv Href Ha) in E. injection E as _ <- _. discriminate.
      * destruct (sat_add (c_idexpiry c) (c_grace c) <=? since (r_created (o_rec ob)) (now s1))%Z eqn:Hb.
        -- rewrite sf_backstop in E; [| exact Hp1 | exact Hv | rewrite Ha; apply andb_false_r | exact Hb].
           injection E as _ <- _. discriminate.
        -- rewrite (sf_plain _ _ _ _ _ _ _ Hv Href Ha Hb) in E. injection E as _ <- _. discriminate.
  - rewrite (sf_invalid _ _ _ _ _ _ _ Hp1 Ho Hv) in E. destruct (q_create q).
    + rewrite create_session_ff in E.
      * injection E as _ <- _. discriminate.
      * split; [rewrite HistInv.cache_delete_ff by exact Hp1; exact Hp1|].
        rewrite HistInv.cache_delete_ff by exact Hp1. unfold deleted. sst. apply NoDup_remove_keys. apply F1.
    + injection E as _ <- _. discriminate.
Qed.

(* the result class of a crash-free request step is that of its Start *)
Lemma req_body_rc s q script : forall s2 res cks, start s q = (s2, res, cks) ->
  snd (fst (fst (fst (fst (req_body s q script))))) =
  match res with Ok (Some _) => RSess | Ok None => RNone | Err e => RErr e | Panic e => RPanic e end.
Proof.
  intros s2 res cks E. unfold req_body. rewrite E. destruct res as [[o|]|e|e]; try reflexivity.
  cbv zeta. destruct (run_script _ _ _ _) as [[s3 sr] cks']. reflexivity.
Qed.

Lemma step_req_res w r : rq_crash r = None -> forall s2 res cks,
  start (pre_of w r) (req_of w r) = (s2, res, cks) ->
  ob_res (snd (step w (HReq r))) =
  match res with Ok (Some _) => RSess | Ok None => RNone | Err e => RErr e | Panic e => RPanic e end.
Proof.
  intros Hcr s2 res cks E. rewrite step_req_eq. cbv zeta. rewrite Hcr.
  change (match rq_present r with PJar => jar_of (w_jars w) (rq_client r) | PForge c => c end) with (presents w r).
  change (mkReq (presents w r) (rq_create r) (rq_addr r) (rq_ua r)) with (req_of w r).
  change (set_tb (set_plan (set_evs (w_st w) []) (rq_plan r)) (rq_tb r)) with (pre_of w r).
  pose proof (req_body_rc (pre_of w r) (req_of w r) (rq_script r) s2 res cks E) as Hrc.
  destruct (req_body _ _ _) as [[[[[s3 rc] st0] sr] fin] cks3]. cbn [fst snd] in *. subst rc. reflexivity.
Qed.

(* what every fault-free, crash-free step shows, from a state satisfying LI *)
Definition obs_c05 (o : obs) : Prop :=
  ob_res o <> RErr ERefLoop /\
  (forall k r, ob_start o = Some (k, r) -> r_ref r = None) /\
  (forall k r, ob_final o = Some (k, r) -> r_ref r = None).

Lemma obs_c05_void rc s jar : rc <> RErr ERefLoop -> obs_c05 (mk_obs rc None [] [] None s jar).
Proof. intro H. split; [exact H|]. split; intros; discriminate. Qed.

Theorem step_obs_c05 w h : LI (w_st w) -> ff_hop h -> crash_free h -> obs_c05 (snd (step w h)).
Proof.
  intros Hl Hff Hcf. destruct h as [r|d|tbl pl| | |u tbl pl|u tbl pl|c]; cbn [ff_hop crash_free] in *;
    try (cbn [step snd]; apply obs_c05_void; discriminate).
  - destruct (step_req_GW Q0 DEL0 FOK0 Q0_qt Q0_new Q0_repl Q0_del Q0_fire w r Hl Hff Hcf Logic.I) as (_ & _ & Hst & Hfin).
    + intros; exact Logic.I.
    + intros o _ s ob _ _ _. exact Logic.I.
    + split; [|split; assumption].
      pose proof (GW_G Q0 Q0_qt (w_st w) (rq_plan r) (rq_tb r) Hl Hff) as (I1 & K1 & _ & [R1 _]). fold (pre_of w r) in *.
      destruct (start (pre_of w r) (req_of w r)) as [[s2 res] cks] eqn:E.
      rewrite (step_req_res w r Hcf s2 res cks E).
      pose proof (start_no_loop _ _ _ I1 K1 R1 s2 res cks E) as Hn.
      destruct res as [[o|]|e|e]; try discriminate. intro Hx. injection Hx as ->. apply Hn. reflexivity.
  - subst pl. cbn [step].
    pose proof (GW_G Q0 Q0_qt (w_st w) [] tbl Hl eq_refl) as (I1 & _).
    destruct (logout_user_inv _ _ _ _ u I1) as (s1 & E & _). rewrite E. cbn [snd]. apply obs_c05_void. discriminate.
  - subst pl. cbn [step].
    pose proof (GW_G Q0 Q0_qt (w_st w) [] tbl Hl eq_refl) as (I1 & _).
    destruct (refresh_user_inv _ _ _ _ u I1) as (s1 & E & _). rewrite E. cbn [snd]. apply obs_c05_void. discriminate.
Qed.

(* lifting a per-step fact to every observation of a history *)
Lemma run_from_LI (P : obs -> Prop) :
  (forall w h, LI (w_st w) -> ff_hop h -> crash_free h -> P (snd (step w h))) ->
  forall hs w, LI (w_st w) -> Forall ff_hop hs -> Forall crash_free hs -> Forall P (run_from w hs).
Proof.
  intros HP. induction hs as [|h t IH]; intros w Hl Hff Hcf; [constructor|].
  rewrite run_from_cons. inversion Hff; inversion Hcf; subst. constructor; [apply HP; assumption|].
  apply IH; [apply LI_step; assumption | assumption | assumption].
Qed.

(* C05H_never_placeholder_hist: in every fault-free, crash-free history no
   response reports ERefLoop and no session handed to a handler (at Start or at
   the end of the script) is a replaced-ID record *)
Theorem never_placeholder_hist c hs : Forall ff_hop hs -> Forall crash_free hs -> Forall obs_c05 (run c hs).
Proof. intros Hff Hcf. apply (run_from_LI obs_c05 step_obs_c05); [apply LI_init | exact Hff | exact Hcf]. Qed.
