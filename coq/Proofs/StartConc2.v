(* The composed system of Model/StartConc.v, part 2: the invariant of the locked
   system and what it gives (task R2 (a)):
   - CI: C13's invariant on the lock side, the program-order relation PC, and
     WI: the shared session state is the world that Hist.step produces from
     the completed world actions IN THE ORDER IN WHICH THEY WERE COMPLETED
     (`serial`), a goroutine between its look-up and its rest has looked up in
     exactly that world, and a goroutine whose Start returned reports what
     Hist.step reports at its position;
   - CI holds in the initial states and is kept by every admissible step
     (ci_step); the place where mutual exclusion is used is `looked_unique`. *)
From Sessions Require Import Model.Base Model.Sess Model.Hist Model.Mutex Model.StartConc
  Proofs.MutexBasics Proofs.MutexSafety Proofs.StartConc.
From Coq Require Import Lia Permutation.

(* ------------------------------------------------------------ list facts *)

Lemma existsb_nth {A} (p : A -> bool) (l : list A) i x :
  nth_error l i = Some x -> p x = true -> existsb p l = true.
Proof. intros H Hp. apply existsb_exists. exists x. split; [eapply nth_error_In; eassumption | exact Hp]. Qed.

Lemma existsb_upd_true {A} (p : A -> bool) (l : list A) i x y :
  nth_error l i = Some x -> p y = true -> existsb p (upd i y l) = true.
Proof.
  intros H Hp. apply (existsb_nth p _ i y); [|exact Hp]. rewrite (nth_error_upd _ _ _ _ _ H), Nat.eqb_refl. reflexivity.
Qed.

Lemma world_eta w : mkWorld (w_st w) (w_jars w) = w.
Proof. destruct w; reflexivity. Qed.

(* ------------------------------------------------- inversion of the steps *)

Section Steps.
  Variables (locked : bool) (k : nat) (reqs : list reqstep).
  Notation cstep := (cstep locked reqs).

  Lemma cstep_CL cs l cs' : cstep cs (CL l) = Some cs' ->
    exists st', step (c_lock cs) l = Some st' /\
      cs' = mkC st' (c_st cs) (c_jars cs) (c_ph cs) (c_acts cs) /\
      (forall g, l = LLeave g -> exists o, nth_error (c_ph cs) g = Some (PDone o)).
  Proof.
    cbn [StartConc.cstep]. intro H.
    assert (Hret : forall g, l = LLeave g -> exists o, nth_error (c_ph cs) g = Some (PDone o)).
    { intros g ->. destruct (nth_error (c_ph cs) g) as [[]|]; try discriminate. eauto. }
    destruct (match l with LLeave g => _ | _ => true end); [|discriminate].
    destruct (step (c_lock cs) l) as [st'|]; [|discriminate]. injection H as <-. eauto.
  Qed.

  Lemma cstep_CLook cs g cs' : cstep cs (CLook g) = Some cs' ->
    exists r s1 f c b,
      nth_error (c_ph cs) g = Some PIdle /\ nth_error reqs g = Some r /\
      (locked = true -> plain_on k r -> holds_key (c_lock cs) g k = true) /\
      start_lookup (rq_prepare (set_evs (c_st cs) []) r) (rq_request (jar_of (c_jars cs) (rq_client r)) r)
        = (s1, f, c, b) /\
      cs' = mkC (c_lock cs) s1 (c_jars cs)
              (upd g (PLooked (set_evs (c_st cs) []) (jar_of (c_jars cs) (rq_client r)) f c b) (c_ph cs)) (c_acts cs).
  Proof.
    cbn [StartConc.cstep]. intro H.
    destruct (nth_error (c_ph cs) g) as [[]|]; try discriminate.
    destruct (nth_error reqs g) as [r|]; [|discriminate]. cbv zeta in H.
    destruct (negb locked || _) eqn:Eg; [|discriminate].
    destruct (start_lookup _ _) as [[[s1 f] c] b] eqn:El. injection H as <-.
    exists r, s1, f, c, b. repeat split; auto.
    intros -> Hpl. rewrite (plain_lock_key k r _ Hpl) in Eg. exact Eg.
  Qed.

  Lemma cstep_CRest cs g cs' : cstep cs (CRest g) = Some cs' ->
    exists s0 jar f c b r w' o,
      nth_error (c_ph cs) g = Some (PLooked s0 jar f c b) /\ nth_error reqs g = Some r /\
      req_finish s0 jar (c_jars cs) r (rq_request jar r)
        (start_rest (conf s0) (c_st cs) (rq_request jar r) f c b) = (w', o) /\
      cs' = mkC (c_lock cs) (w_st w') (w_jars w') (upd g (PDone o) (c_ph cs)) (AReq g :: c_acts cs).
  Proof.
    cbn [StartConc.cstep]. intro H.
    destruct (nth_error (c_ph cs) g) as [[|s0 jar f c b|]|]; try discriminate.
    destruct (nth_error reqs g) as [r|]; [|discriminate].
    destruct (req_finish _ _ _ _ _ _) as [w' o] eqn:Ef. injection H as <-.
    exists s0, jar, f, c, b, r, w', o. auto.
  Qed.

  Lemma cstep_CTick cs d cs' : cstep cs (CTick d) = Some cs' ->
    existsb is_looked (c_ph cs) = false /\
    cs' = mkC (c_lock cs) (w_st (fst (Hist.step (mkWorld (c_st cs) (c_jars cs)) (HWait d))))
              (w_jars (fst (Hist.step (mkWorld (c_st cs) (c_jars cs)) (HWait d)))) (c_ph cs) (ATick d :: c_acts cs).
  Proof.
    cbn [StartConc.cstep]. intro H. destruct (existsb is_looked (c_ph cs)); [discriminate|].
    injection H as <-. auto.
  Qed.
End Steps.

(* ------------------------------------------------------- the invariant *)

Section Locked.
  Variables (k : nat) (reqs : list reqstep) (w0 : world).
  Notation cstep := (cstep true reqs).
  Notation serial := (serial reqs w0).

  Definition world_of (cs : cstate) : world := mkWorld (c_st cs) (c_jars cs).

  Definition WI (cs : cstate) : Prop :=
    let W := fst (serial (c_acts cs)) in
    let res := snd (serial (c_acts cs)) in
    (forall g s0 jar f c b r,
       nth_error (c_ph cs) g = Some (PLooked s0 jar f c b) -> nth_error reqs g = Some r ->
       s0 = set_evs (w_st W) [] /\ jar = jar_of (w_jars W) (rq_client r) /\ c_jars cs = w_jars W /\
       start_lookup (rq_prepare s0 r) (rq_request jar r) = (c_st cs, f, c, b)) /\
    (existsb is_looked (c_ph cs) = false -> world_of cs = W) /\
    (forall g o, nth_error (c_ph cs) g = Some (PDone o) <-> In (g, o) res) /\
    NoDup (map fst res).

  Definition CI (cs : cstate) : Prop := Inv (c_lock cs) /\ PC k reqs cs /\ WI cs.

  (* an initial state: C13's invariant, K goroutines somewhere in Lock(k) or
     holding k, no Start begun, no world action logged *)
  Definition CI0 (cs : cstate) : Prop :=
    Inv (c_lock cs) /\ PC k reqs cs /\ Forall (fun p => p = PIdle) (c_ph cs) /\
    c_acts cs = [] /\ world_of cs = w0.

  Lemma ci0_ci cs : CI0 cs -> CI cs.
  Proof.
    intros (HI & HP & Hid & Ha & Hw). split; [exact HI|]. split; [exact HP|].
    assert (Hno : forall g p, nth_error (c_ph cs) g = Some p -> p = PIdle).
    { intros g p Hg. rewrite Forall_forall in Hid. apply Hid. eapply nth_error_In; exact Hg. }
    unfold WI. rewrite Ha. cbn [StartConc.serial fst snd map].
    split; [intros g s0 jar f c b r Hg; apply Hno in Hg; discriminate|].
    split; [intros _; exact Hw|]. split; [|constructor].
    intros g o. split; [intro Hg; apply Hno in Hg; discriminate | intros []].
  Qed.

  (* mutual exclusion, transported: two goroutines between look-up and rest
     are one; and while one is there, no other goroutine's Lock(k) has returned *)
  Lemma looked_unique cs g1 g2 s0 jar f c b :
    Inv (c_lock cs) -> PC k reqs cs ->
    nth_error (c_ph cs) g1 = Some (PLooked s0 jar f c b) ->
    holds_key (c_lock cs) g2 k = true -> g1 = g2.
  Proof.
    intros HI HP H1 H2. pose proof (PC_looked_holds _ _ _ _ _ _ _ _ _ HP H1) as G1.
    destruct (holds_key_spec _ _ _ H2) as [r2 G2]. exact (hold_unique _ _ _ _ _ _ HI G1 G2).
  Qed.

  Lemma looked_holds cs g s0 jar f c b :
    PC k reqs cs -> nth_error (c_ph cs) g = Some (PLooked s0 jar f c b) -> holds_key (c_lock cs) g k = true.
  Proof.
    intros HP H1. pose proof (PC_looked_holds _ _ _ _ _ _ _ _ _ HP H1) as G1.
    unfold holds_key. rewrite G1. apply Nat.eqb_refl.
  Qed.

  Lemma none_looked cs g : Inv (c_lock cs) -> PC k reqs cs ->
    holds_key (c_lock cs) g k = true -> is_looked (nth g (c_ph cs) PIdle) = false ->
    existsb is_looked (c_ph cs) = false.
  Proof.
    intros HI HP Hg Hn. destruct (existsb is_looked (c_ph cs)) eqn:E; [exfalso|reflexivity].
    apply existsb_exists in E as (p & Hin & Hp). apply In_nth_error in Hin as [g' Hg'].
    destruct p as [|s0 jar f c b|]; try discriminate.
    pose proof (looked_unique _ _ _ _ _ _ _ _ HI HP Hg' Hg) as ->.
    rewrite (nth_error_nth _ _ _ Hg') in Hn. discriminate.
  Qed.

  Theorem ci_step cs lab cs' :
    CI cs -> cstep cs lab = Some cs' -> cadm cs lab -> CI cs'.
  Proof.
    intros (HI & HP & HW) Hs Ha. destruct lab as [l|g|g|d].
    - (* a step of the lock protocol: the world side is untouched *)
      destruct (cstep_CL _ _ _ _ _ Hs) as (st' & Hl & -> & Hret). cbn [cadm] in Ha.
      split; [exact (inv_step _ _ _ Hl Ha HI)|]. split; [exact (PC_lock _ _ _ _ _ HP Hl Hret)|]. exact HW.
    - (* look-up *)
      destruct (cstep_CLook true k reqs _ _ _ Hs) as (r & s1 & f & c & b & Hp & Hr & Hh & El & ->).
      specialize (Hh eq_refl (PC_plain _ _ _ _ _ HP Hr)). destruct (holds_key_spec _ _ _ Hh) as [r2 Hg2].
      assert (Hnone : existsb is_looked (c_ph cs) = false).
      { apply (none_looked cs g HI HP Hh). rewrite (nth_error_nth _ _ _ Hp). reflexivity. }
      split; [exact HI|]. split.
      { apply (PC_phase k reqs cs g _ PIdle _ _ _ _ HP Hg2 Hp).
        cbn [gp_ok gc gscript]. destruct HP as (_ & _ & H & _). specialize (H _ _ _ Hg2 Hp).
        cbn [gp_ok gc gscript] in H. destruct r2; [|discriminate]. exact H. }
      destruct HW as (W1 & W2 & W3 & W4). unfold WI. cbn [c_ph c_acts c_st c_jars].
      pose proof (W2 Hnone) as Hw. unfold world_of in Hw.
      split; [|split; [|split; [|exact W4]]].
      + intros g' s0 jar f' c' b' r' Hg' Hr'. rewrite (nth_error_upd _ _ _ _ _ Hp) in Hg'.
        destruct (Nat.eqb g g') eqn:Eg.
        * apply Nat.eqb_eq in Eg. subst g'. injection Hg' as <- <- <- <- <-. rewrite Hr in Hr'. injection Hr' as <-.
          rewrite <- Hw. cbn [w_st w_jars]. auto.
        * exfalso. assert (T : existsb is_looked (c_ph cs) = true) by (eapply existsb_nth; [exact Hg'|reflexivity]).
          congruence.
      + intro T. erewrite (existsb_upd_true is_looked _ _ _ _ Hp) in T; [discriminate | reflexivity].
      + intros g' o. rewrite <- W3. rewrite (nth_error_upd _ _ _ _ _ Hp).
        destruct (Nat.eqb g g') eqn:Eg; [|tauto]. apply Nat.eqb_eq in Eg. subst g'. rewrite Hp.
        split; discriminate.
    - (* the rest of Start *)
      destruct (cstep_CRest _ _ _ _ _ Hs) as (s0 & jar & f & c & b & r & w' & o & Hp & Hr & Ef & ->).
      pose proof (PC_looked_holds _ _ _ _ _ _ _ _ _ HP Hp) as Hg.
      split; [exact HI|]. split.
      { apply (PC_phase k reqs cs g _ _ _ _ _ _ HP Hg Hp). cbn [gp_ok gc gscript]. apply Nat.eqb_refl. }
      destruct HW as (W1 & W2 & W3 & W4). unfold WI. cbn [c_ph c_acts c_st c_jars].
      destruct (W1 _ _ _ _ _ _ _ Hp Hr) as (E0 & Ej & EJ & El).
      cbn [StartConc.serial]. destruct (serial (c_acts cs)) as [W res] eqn:ES. cbn [fst snd] in *. rewrite Hr.
      assert (Est : (w', o) = Hist.step W (HReq r)).
      { rewrite <- Ef. subst s0 jar. rewrite EJ. apply look_rest. exact El. }
      cbn [fst snd map].
      assert (Hnl : forall g' s0' jar' f' c' b', g' <> g ->
                nth_error (c_ph cs) g' = Some (PLooked s0' jar' f' c' b') -> False).
      { intros g' s0' jar' f' c' b' Hne Hg'. apply Hne.
        apply (looked_unique cs g' g _ _ _ _ _ HI HP Hg'). unfold holds_key. rewrite Hg. apply Nat.eqb_refl. }
      split; [|split; [|split]].
      + intros g' s0' jar' f' c' b' r' Hg' _. exfalso. rewrite (nth_error_upd _ _ _ _ _ Hp) in Hg'.
        destruct (Nat.eqb g g') eqn:Eg; [discriminate|]. apply Nat.eqb_neq in Eg.
        apply (Hnl g' _ _ _ _ _ (fun e => Eg (eq_sym e)) Hg').
      + intros _. unfold world_of. cbn [c_st c_jars]. rewrite world_eta. rewrite <- Est. reflexivity.
      + intros g' o'. rewrite (nth_error_upd _ _ _ _ _ Hp). rewrite <- Est. cbn [snd]. cbn [In].
        destruct (Nat.eqb g g') eqn:Eg.
        * apply Nat.eqb_eq in Eg. subst g'. split.
          -- intro E. injection E as <-. left. reflexivity.
          -- intros [E|Hin]; [injection E as <-; reflexivity|]. apply W3 in Hin. congruence.
        * rewrite W3. apply Nat.eqb_neq in Eg. split; [auto|]. intros [E|Hin]; [injection E as E1 _; congruence | exact Hin].
      + constructor; [|exact W4]. intro Hin. apply in_map_iff in Hin as ([g' o'] & E & Hin). cbn [fst] in E. subst g'.
        apply W3 in Hin. congruence.
    - (* the clock *)
      destruct (cstep_CTick _ _ _ _ _ Hs) as (Hnone & ->).
      split; [exact HI|]. split; [exact HP|].
      destruct HW as (W1 & W2 & W3 & W4). unfold WI. cbn [c_ph c_acts c_st c_jars].
      cbn [StartConc.serial]. destruct (serial (c_acts cs)) as [W res] eqn:ES. cbn [fst snd] in *.
      pose proof (W2 Hnone) as Hw. unfold world_of in Hw.
      split; [|split; [|split; [exact W3|exact W4]]].
      + intros g s0 jar f c b r Hg _. exfalso.
        assert (T : existsb is_looked (c_ph cs) = true) by (eapply existsb_nth; [exact Hg|reflexivity]). congruence.
      + intros _. unfold world_of. cbn [c_st c_jars]. rewrite world_eta, Hw. reflexivity.
  Qed.

  Theorem ci_run : forall ls cs cs',
    CI cs -> crun true reqs cs ls = Some cs' -> cadm_run true reqs cs ls -> CI cs'.
  Proof.
    induction ls as [|l ls IH]; intros cs cs' HC Hr Ha; cbn [crun cadm_run] in *.
    - injection Hr as <-. exact HC.
    - destruct (cstep cs l) as [cs1|] eqn:E; [|discriminate]. destruct Ha as [A1 A2].
      exact (IH _ _ (ci_step _ _ _ HC E A1) Hr A2).
  Qed.

  (* ------------------------------------------------- what the invariant says *)

  (* the critical sections do not overlap *)
  Theorem no_overlap cs g1 g2 : CI cs ->
    holds_key (c_lock cs) g1 k = true -> holds_key (c_lock cs) g2 k = true -> g1 = g2.
  Proof.
    intros (HI & _) H1 H2. destruct (holds_key_spec _ _ _ H1) as [r1 G1]. destruct (holds_key_spec _ _ _ H2) as [r2 G2].
    exact (hold_unique _ _ _ _ _ _ HI G1 G2).
  Qed.

  Theorem looked_inside cs g : CI cs -> is_looked (nth g (c_ph cs) PIdle) = true ->
    holds_key (c_lock cs) g k = true.
  Proof.
    intros (_ & HP & _) H. destruct (nth_error (c_ph cs) g) as [p|] eqn:E.
    - rewrite (nth_error_nth _ _ _ E) in H. destruct p; try discriminate. eapply looked_holds; eassumption.
    - rewrite (nth_overflow _ _ (proj1 (nth_error_None _ _) E)) in H. discriminate.
  Qed.

  (* every request is served at most once; when all K have returned the order
     of service is a permutation of the goroutines *)
  Theorem served_once cs : CI cs -> NoDup (map fst (snd (serial (c_acts cs)))).
  Proof. intros (_ & _ & _ & _ & _ & W4). exact W4. Qed.

  Theorem all_served_perm cs : CI cs -> forallb is_done (c_ph cs) = true ->
    Permutation (map fst (snd (serial (c_acts cs)))) (seq 0 (length reqs)).
  Proof.
    intros (_ & (L1 & L2 & _ & _) & _ & _ & W3 & W4) Hall.
    apply NoDup_Permutation; [exact W4 | apply seq_NoDup|].
    intro g. rewrite in_seq. split.
    - intro Hin. apply in_map_iff in Hin as ([g' o] & E & Hin). cbn [fst] in E. subst g'. apply W3 in Hin.
      assert (g < length (c_ph cs)) by (apply nth_error_Some; congruence). lia.
    - intros [_ Hlt]. destruct (nth_error (c_ph cs) g) as [p|] eqn:E.
      + rewrite forallb_forall in Hall. pose proof (Hall p (nth_error_In _ _ E)) as Hd.
        destruct p; try discriminate. apply W3 in E. apply in_map_iff. exists (g, o). auto.
      + apply nth_error_None in E. cbn in Hlt. lia.
  Qed.
End Locked.

(* the initial state of the composed system is an initial state of the invariant *)
Lemma cinit_ci0 k reqs w purges : Forall (plain_on k) reqs -> CI0 k reqs w (cinit k reqs w purges).
Proof.
  intro HK. unfold CI0, cinit. cbn [c_lock c_ph c_acts].
  split; [apply inv_init|]. split; [|split; [|split; [reflexivity | apply world_eta]]].
  - unfold PC. cbn [c_lock c_ph init gs]. rewrite !map_length. split; [reflexivity|]. split; [reflexivity|].
    split; [|exact HK].
    intros g x p Hx Hp. apply nth_error_In in Hx. apply nth_error_In in Hp.
    apply in_map_iff in Hx as (sc & <- & Hsc). apply in_map_iff in Hsc as (r1 & <- & _).
    apply in_map_iff in Hp as (r2 & <- & _). cbn [gp_ok gc gscript]. apply Nat.eqb_refl.
  - apply Forall_forall. intros p Hp. apply in_map_iff in Hp as (r & <- & _). reflexivity.
Qed.
