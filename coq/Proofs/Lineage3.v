(* Audit task A5, C07, part 3: steps and histories.

   lin_obs D o      what every step shows: the session Start returned and the
                    handler's session after the script carry no ID of D, the
                    returned session is not a replaced-ID record, and no ID of D
                    is drawn (again);
   dead_answer o    what a request shows that presented an ID of D: no session
                    after the expiring cookie; or a session created in this very
                    step (ID drawn in this step, no user, no data) after the
                    expiring cookie; or the error ERefMissing or EExpiredID
                    without any cookie. Nothing else.
   all_steps P w hs P holds of every step of hs run from world w (P sees the
                    world the step starts from, the hop and its observation).

   lin_hist: from a world satisfying LN D, along every fault-free, crash-free
   history: every step satisfies lin_obs, every request presenting an ID of D
   (from a jar or forged) gets a dead_answer, and LN D holds at the end.

   No axioms; standard library only. *)
From Sessions Require Import Model.Base Model.Sess Model.Hist Proofs.SessDefs
  Proofs.HistInv Proofs.HistInv2 Proofs.HistInv3 Proofs.HistLift Proofs.HistLift2 Proofs.HistLift3
  Proofs.HistLift4 Proofs.Lineage Proofs.Lineage2.
From Coq Require Import Lia.

Fixpoint all_steps (P : world -> hop -> obs -> Prop) (w : world) (hs : list hop) : Prop :=
  match hs with
  | [] => True
  | h :: t => P w h (snd (step w h)) /\ all_steps P (fst (step w h)) t
  end.

Lemma all_steps_impl (P P' : world -> hop -> obs -> Prop) :
  (forall w h o, P w h o -> P' w h o) -> forall hs w, all_steps P w hs -> all_steps P' w hs.
Proof.
  intros HP. induction hs as [|h t IH]; intros w H; [exact Logic.I|]. destruct H as [A B].
  split; [apply HP; exact A | apply IH; exact B].
Qed.

Lemma step_nonreq_none w h : (forall r, h <> HReq r) ->
  ob_start (snd (step w h)) = None /\ ob_final (snd (step w h)) = None.
Proof.
  intro Hn. destruct h as [r|d|tbl pl| | |u tbl pl|u tbl pl|c]; cbn [step]; try (split; reflexivity).
  - exfalso. apply (Hn r). reflexivity.
  - destruct (logout_user _ u) as [s1 r0]. split; reflexivity.
  - destruct (refresh_user _ u) as [s1 r0]. split; reflexivity.
Qed.

Section Lin3.
  Variable D : key -> Prop.
  Notation Q1 := (Q1 D).
  Notation QD := (QD D).
  Notation LN := (LN D).

  Definition lin_obs (o : obs) : Prop :=
    (forall k rc, ob_start o = Some (k, rc) -> ~ D k /\ r_ref rc = None) /\
    (forall k rc, ob_final o = Some (k, rc) -> ~ D k) /\
    (forall n, D (KGen n) -> ~ In (EvDraw n) (ob_evs o)).

  Definition dead_answer (o : obs) : Prop :=
    match ob_res o with
    | RNone => ob_start o = None /\ ob_cookies o = [CkDelete]
    | RErr e => (e = ERefMissing \/ e = EExpiredID) /\ ob_start o = None /\ ob_cookies o = []
    | RSess => exists n rc rest, ob_start o = Some (KGen n, rc) /\ In (EvDraw n) (ob_evs o) /\
                 r_ref rc = None /\ r_user rc = None /\ r_data rc = Some [] /\
                 ob_cookies o = CkDelete :: CkLive (KGen n) :: rest
    | _ => False
    end.

  (* the same for the body of a request step, before the observation is built *)
  Definition dead_body (s s3 : st) (rc : rclass) (st0 : option (key * rec)) (cks : list cookie) : Prop :=
    match rc with
    | RNone => st0 = None /\ cks = [CkDelete]
    | RErr e => (e = ERefMissing \/ e = EExpiredID) /\ st0 = None /\ cks = []
    | RSess => exists n r rest, st0 = Some (KGen n, r) /\ (supply s <= n)%N /\ (n < supply s3)%N /\
                 r_ref r = None /\ r_user r = None /\ r_data r = Some [] /\
                 cks = CkDelete :: CkLive (KGen n) :: rest
    | _ => False
    end.

  Lemma req_body_lin base s q script : G Q1 base s ->
    exists s3 rc st0 sr fin cks, req_body s q script = (s3, rc, st0, sr, fin, cks) /\ G Q1 base s3 /\
      (forall k r, st0 = Some (k, r) -> ~ D k /\ r_ref r = None) /\
      (forall k r, fin = Some (k, r) -> ~ D k) /\
      (forall k, q_cookie q = CKey k -> D k -> dead_body s s3 rc st0 cks).
  Proof.
    intro Hg. unfold req_body.
    destruct (start_G Q1 DEL0 (Q1_qt D) (Q1_new D) (Q1_repl D) (Q1_del D) base s q Hg) as (s2 & res & cks & E & G2 & _ & H2 & _).
    { intros; exact Logic.I. }
    rewrite E.
    destruct (fire_due_G Q1 FOK0 (Q1_fire D) _ _ G2 Logic.I) as (G3 & _ & H3 & _).
    pose proof G2 as (I2 & _).
    destruct (HistInv3.fire_due_inv _ _ _ _ I2) as (I3 & Hheap & Hsup).
    destruct res as [[o|]|e|e].
    - pose proof (H3 o (proj1 (H2 o eq_refl))) as Hh3.
      destruct (run_script_nD D base (had_cookie q) script (fire_due s2) o G3 Hh3) as (s3 & rs & cks' & E' & G' & (obf & Hof & Hnf)).
      cbv zeta. rewrite E'. do 6 eexists. split; [reflexivity|]. split; [exact G'|].
      destruct (hg_nD D _ o (G_QD D _ _ G3) Hh3) as (ob & Ho & Hn & Hr).
      split; [|split].
      + intros k r Hv. unfold handle_view in Hv. rewrite Ho in Hv. injection Hv as <- <-. split; assumption.
      + intros k r Hv. unfold handle_view in Hv. rewrite Hof in Hv. injection Hv as <- _. exact Hnf.
      + intros k Hq HD. pose proof (start_dead D base s q k Hg Hq HD _ _ _ E) as Hd. cbn [dead_start] in Hd.
        destruct Hd as (_ & n & -> & Hlo & Hhi & (ob' & Ho' & Hid & A1 & A2 & A3)).
        assert (ob' = ob). { unfold hget in *. rewrite Hheap in Ho. congruence. }
        subst ob'. cbn [dead_body]. exists n, (o_rec ob), cks'.
        split; [unfold handle_view; rewrite Ho, Hid; reflexivity|]. split; [exact Hlo|].
        split; [|repeat split; assumption].
        (* the supply does not shrink during the script *)
        pose proof (inv_restart_log _ _ _ _ _ I3) as I3'.
        destruct (run_script_inv _ _ _ (had_cookie q) script _ o I3' (hg_hok _ _ Hh3)) as (s3' & rs' & ck' & E'' & I4 & _).
        rewrite E' in E''. injection E'' as <- _ _.
        pose proof (inv_supply_ge _ _ _ _ _ I4) as Hge. cbn [fst] in Hge. lia.
    - do 6 eexists. split; [reflexivity|]. split; [exact G3|]. split; [intros; discriminate|]. split; [intros; discriminate|].
      intros k Hq HD. pose proof (start_dead D base s q k Hg Hq HD _ _ _ E) as Hd. cbn [dead_start] in Hd.
      destruct Hd as [-> _]. cbn [dead_body]. split; reflexivity.
    - do 6 eexists. split; [reflexivity|]. split; [exact G3|]. split; [intros; discriminate|]. split; [intros; discriminate|].
      intros k Hq HD. pose proof (start_dead D base s q k Hg Hq HD _ _ _ E) as Hd. cbn [dead_start] in Hd.
      destruct Hd as [-> He]. cbn [dead_body]. split; [exact He | split; reflexivity].
    - do 6 eexists. split; [reflexivity|]. split; [exact G3|]. split; [intros; discriminate|]. split; [intros; discriminate|].
      intros k Hq HD. pose proof (start_dead D base s q k Hg Hq HD _ _ _ E) as Hd. cbn [dead_start] in Hd. contradiction.
  Qed.

  (* no step draws an ID of D: IDs of D were drawn before (C07_not_reissued's argument) *)
  Lemma step_nodraw w h : LN (w_st w) -> ff_hop h ->
    forall n, D (KGen n) -> ~ In (EvDraw n) (ob_evs (snd (step w h))).
  Proof.
    intros Hl Hff n HD Hin. pose proof Hl as (W & _).
    destruct (step_winv 0 ND w h W Hff) as (_ & _ & _ & _ & (Hev & _)).
    pose proof (wf_fwd_draw_ge _ _ _ _ Hev Hin) as Hge.
    destruct (LN_QD D _ Hl _ HD) as [Hk _]. cbn [kd] in Hk. lia.
  Qed.

  Definition lin_claim (w : world) (h : hop) (o : obs) : Prop :=
    lin_obs o /\ forall r k, h = HReq r -> presents w r = CKey k -> D k -> dead_answer o.

  Lemma step_req_lin w r : LN (w_st w) -> rq_plan r = [] -> rq_crash r = None ->
    lin_claim w (HReq r) (snd (step w (HReq r))).
  Proof.
    intros Hl Hpl Hcr.
    pose proof (step_nodraw w (HReq r) Hl Hpl) as Hnd. revert Hnd.
    rewrite step_req_eq. cbv zeta.
    change (match rq_present r with PJar => jar_of (w_jars w) (rq_client r) | PForge c => c end) with (presents w r).
    change (mkReq (presents w r) (rq_create r) (rq_addr r) (rq_ua r)) with (req_of w r).
    change (set_tb (set_plan (set_evs (w_st w) []) (rq_plan r)) (rq_tb r)) with (pre_of w r).
    pose proof (GW_G Q1 (Q1_qt D) (w_st w) (rq_plan r) (rq_tb r) Hl Hpl) as G1. fold (pre_of w r) in G1.
    destruct (req_body_lin _ (pre_of w r) (req_of w r) (rq_script r) G1) as (s3 & rc & st0 & sr & fin & cks & E & G3 & Hst & Hfin & Hdead).
    rewrite E, Hcr. cbn [fst snd mk_obs]. intro Hnd.
    split; [split; [exact Hst | split; [exact Hfin | exact Hnd]]|].
    intros r' k Hr' Hpr HD. injection Hr' as <-.
    specialize (Hdead k Hpr HD). unfold dead_answer. cbn [ob_res ob_start ob_cookies ob_evs mk_obs].
    destruct rc as [| |e|e| |]; cbn [dead_body] in Hdead; try contradiction; try exact Hdead.
    destruct Hdead as (n & rc' & rest & A1 & Hlo & Hhi & A2 & A3 & A4 & A5).
    exists n, rc', rest. split; [exact A1|]. split; [|repeat split; assumption].
    pose proof G3 as (I3 & _). destruct (inv_ev0 _ _ _ _ _ I3) as [Hw Hs].
    sst. apply in_rev. rewrite rev_involutive.
    apply (wf_evs_drawn ND (evs s3) (supply (w_st w)) n Hw); [exact Hlo | rewrite <- Hs; exact Hhi].
  Qed.

  Theorem step_lin w h : LN (w_st w) -> ff_hop h -> crash_free h -> lin_claim w h (snd (step w h)).
  Proof.
    intros Hl Hff Hcf.
    destruct h as [r|d|tbl pl| | |u tbl pl|u tbl pl|c];
      try (split; [|intros r k Hr; discriminate];
           match goal with |- lin_obs (snd (step ?w ?h)) =>
             destruct (step_nonreq_none w h) as [A B]; [intros r Hr; discriminate|];
             split; [intros k rc Hv; rewrite A in Hv; discriminate|];
             split; [intros k rc Hv; rewrite B in Hv; discriminate | apply step_nodraw; assumption]
           end).
    apply step_req_lin; assumption.
  Qed.

  Theorem lin_hist : forall hs w, LN (w_st w) -> Forall ff_hop hs -> Forall crash_free hs ->
    all_steps lin_claim w hs /\ LN (w_st (after w hs)).
  Proof.
    induction hs as [|h t IH]; intros w Hl Hff Hcf; cbn [all_steps after]; [split; [exact Logic.I | exact Hl]|].
    inversion Hff; inversion Hcf; subst.
    destruct (IH (fst (step w h))) as [A B]; [apply LN_step; assumption | assumption | assumption|].
    split; [split; [apply step_lin; assumption | exact A] | exact B].
  Qed.
End Lin3.
