(* C17: UnmarshalJSON, as the regenerated table describes it, never panics. *)
From Sessions Require Import Model.Base Model.Codec Gen.Layout Proofs.BaseLemmas Proofs.CodecText.
Local Open Scope N_scope.

Section JsonTotal.
  Variable load : loader.
  Variable parse_time : bytes -> bytes -> option gtime.

  Lemma json_total_lemma (j : dval) : json_unmarshal load parse_time json_dec j <> Panic.
  Proof.
    intro H. apply json_unmarshal_panic in H as [b [Hin Hb]].
    assert (Hall : forallb ublock_checked json_dec = true) by reflexivity.
    rewrite forallb_forall in Hall. rewrite (Hall b Hin) in Hb. discriminate.
  Qed.
End JsonTotal.

(* ...and the converse on an example: drop the `, ok` from the assertion on
   "ip" and a document with a number there panics *)
Definition ex_parse : bytes -> bytes -> option gtime := fun _ _ => Some zero_time.
Definition ex_doc (ip : dval) : dval :=
  DMap [(k_v, DFloat (f64_of_Z 1)); (k_cr, DStr [120]); (k_la, DStr [120]); (k_ip, ip);
        (k_ua, DStr [48]); (k_da, DMap [])].
Definition json_dec_unchecked : list ublock :=
  [mkU k_v true (GAssert TFloat true) (UVersion 1);
   mkU k_cr true (GAssert TStr true) (UTime lay_rfc3339 FCreated);
   mkU k_la true (GAssert TStr true) (UTime lay_rfc3339 FAccess);
   mkU k_ip true (GAssert TStr false) (UStrF FIP);
   mkU k_ua true (GAssert TStr true) (UUA 36 64);
   mkU k_da true (GAssert TMap true) UData].

Example json_total_nonvacuous :
  json_unmarshal (case_load 0) ex_parse json_dec_unchecked (ex_doc (DFloat 0)) = Panic /\
  json_unmarshal (case_load 0) ex_parse json_dec (ex_doc (DFloat 0)) = Err /\
  json_unmarshal (case_load 0) ex_parse json_dec (ex_doc (DStr [49])) =
    Ok (mkSess zero_time zero_time [49] 0 [] None (Some [])) /\
  json_unmarshal (case_load 0) ex_parse json_dec (DList []) = Err /\
  json_unmarshal (case_load 0) ex_parse json_dec DNull = Err.
Proof. repeat split; vm_compute; reflexivity. Qed.

