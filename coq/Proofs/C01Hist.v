(* C01, history level, part 1: the logical content of an ID ("view": is it a
   replaced-ID record, its data, its user ID) and what the cache layer does to
   it: cache.Get changes no ID's view, cache.Set only that of the object's own
   ID, cache.Delete only kills the deleted ID, a direct save only touches the
   saved ID. Built on PB's write-through invariant (WriteThrough*.v) and PD's
   key-by-key frame lemmas (RotateLaws*.v). Fault-free execution throughout. *)
From Sessions Require Import Model.Base Model.Sess Model.Hist Model.Corr Proofs.SessDefs
  Proofs.WriteThrough Proofs.WriteThrough2 Proofs.WriteThrough3 Proofs.WriteThrough4
  Proofs.RotateLaws Proofs.RotateLaws2 Proofs.C01Spec.
From Coq Require Import Lia.

(* ------------------------------------------------------------ the view *)

(* what a record means: the ID it points to (replaced-ID records), its data and
   the ID of its user. The codec keeps it; access time, peer and agent are not
   part of it. *)
Definition vw : Type := (option key * gdata)%type.

Definition cont (r : rec) : vw := (r_ref r, content_of r).

Definition view (s : st) (k : key) : option vw := option_map cont (L s k).

Lemma cont_codec c r : cont (codec c r) = cont r.
Proof. destruct r as [cr ac ip ua rf [[u v]|] [d|]]; reflexivity. Qed.

Lemma cont_durable r r' : durable r = durable r' -> cont r = cont r'.
Proof.
  destruct r as [cr ac ip ua rf us da], r' as [cr' ac' ip' ua' rf' us' da'].
  unfold durable, cont, content_of. cbn. intros [= _ -> Hu Hd]. rewrite Hu.
  destruct da, da'; cbn in *; congruence.
Qed.

Lemma cont_set_access r t : cont (set_access r t) = cont r.
Proof. destruct r; reflexivity. Qed.
Lemma cont_set_created r t : cont (set_created r t) = cont r.
Proof. destruct r; reflexivity. Qed.
Lemma cont_set_ip r t : cont (set_ip r t) = cont r.
Proof. destruct r; reflexivity. Qed.
Lemma cont_set_ua r t : cont (set_ua r t) = cont r.
Proof. destruct r; reflexivity. Qed.

Lemma view_cached s k o ob :
  lookup (cache s) k = Some o -> hget s o = Some ob -> view s k = Some (cont (o_rec ob)).
Proof. intros H1 H2. unfold view, L. rewrite H1, H2. reflexivity. Qed.

Lemma view_uncached s k :
  lookup (cache s) k = None -> view s k = option_map cont (lookup (store s) k).
Proof. intro H. unfold view, L. rewrite H. reflexivity. Qed.

Lemma view_ext s s' k :
  heap s' = heap s -> cache s' = cache s -> store s' = store s -> view s' k = view s k.
Proof. intros Hh Hc Hs. unfold view, L, hget. rewrite Hh, Hc, Hs. reflexivity. Qed.

Lemma view_core s s' k : WriteThrough.core s = WriteThrough.core s' -> view s' k = view s k.
Proof.
  intro H. apply core_inv in H. destruct H as (Hh & Hc & Hs & _). apply view_ext; congruence.
Qed.

(* a held object is what its ID resolves to *)
Lemma Held_view s o ob : Held s o -> hget s o = Some ob -> view s (o_id ob) = Some (cont (o_rec ob)).
Proof.
  intros (ob' & Hg & HH) Hg'. assert (ob' = ob) by congruence. subst ob'.
  destruct HH as [Hc|(Hc & r & Hr & Hd)].
  - apply (view_cached s _ o ob Hc Hg).
  - rewrite view_uncached by exact Hc. rewrite Hr. cbn [option_map].
    rewrite (cont_durable _ _ Hd). rewrite cont_codec. reflexivity.
Qed.

(* ------------------------------------------- invariant: consequences *)

Lemma Inv_cache_heap s : Inv noex s -> cache_heap s.
Proof.
  intros HI k o Hin. apply (inv_heap _ _ HI k o).
  apply In_lookup_nodup; [apply (inv_nodup _ _ HI) | exact Hin].
Qed.

Lemma Inv_cache_ok s : Inv noex s -> cache_ok s.
Proof. intro HI. apply WT_Inv in HI. destruct HI as [(H & _) _]. exact H. Qed.

Lemma Inv_next_uncached s : Inv noex s -> lookup (cache s) (KGen (supply s)) = None.
Proof.
  intro HI. destruct (lookup (cache s) (KGen (supply s))) as [o|] eqn:E; [|reflexivity].
  exfalso. destruct (inv_drawn _ _ HI) as (_ & _ & R). specialize (R _ _ E). cbn in R. lia.
Qed.

Lemma Inv_next_unstored s : Inv noex s -> lookup (store s) (KGen (supply s)) = None.
Proof.
  intro HI. destruct (lookup (store s) (KGen (supply s))) as [o|] eqn:E; [|reflexivity].
  exfalso. destruct (inv_drawn _ _ HI) as (_ & R & _). specialize (R _ _ E). cbn in R. lia.
Qed.

Lemma Inv_obj_not_next s o ob : Inv noex s -> hget s o = Some ob -> o_id ob <> KGen (supply s).
Proof.
  intros HI Hg. destruct (inv_drawn _ _ HI) as (R & _). specialize (R _ _ Hg).
  apply key_drawn_not_next. exact R.
Qed.

(* an ID that resolves to something has been drawn *)
Lemma view_drawn s k : Inv noex s -> view s k <> None -> key_drawn s k.
Proof.
  intros HI Hv. destruct (inv_drawn _ _ HI) as (_ & R2 & R3). unfold view, L in Hv.
  destruct (lookup (cache s) k) as [o|] eqn:Ec; [apply (R3 _ _ Ec)|].
  destruct (lookup (store s) k) as [r|] eqn:Es; [apply (R2 _ _ Es) | contradiction].
Qed.

Lemma view_next_none s : Inv noex s -> view s (KGen (supply s)) = None.
Proof.
  intro HI. rewrite view_uncached by (apply Inv_next_uncached; exact HI).
  rewrite Inv_next_unstored by exact HI. reflexivity.
Qed.

(* ------------------------------------- kept or flushed: same view *)

(* objects keep their meaning *)
Definition hsim (s s' : st) : Prop :=
  forall o ob, hget s o = Some ob -> exists ob', hget s' o = Some ob' /\ cont (o_rec ob') = cont (o_rec ob).

Lemma hsim_refl s : hsim s s.
Proof. intros o ob H. eauto. Qed.

Lemma view_kf s s' k :
  hsim s s' -> (forall o, lookup (cache s) k = Some o -> exists ob, hget s o = Some ob) ->
  key_kept s s' k \/ key_flushed s s' k -> view s' k = view s k.
Proof.
  intros Hh Hc [[Kc Ks]|(Kc & o & ob' & Ko & Kg & Ks)].
  - destruct (lookup (cache s) k) as [o|] eqn:E.
    + destruct (Hc o eq_refl) as (ob & Hg). destruct (Hh o ob Hg) as (ob' & Hg' & Hco).
      rewrite (view_cached s' k o ob' Kc Hg'), (view_cached s k o ob E Hg). congruence.
    + rewrite (view_uncached s' k Kc), (view_uncached s k E), Ks. reflexivity.
  - destruct (Hc o Ko) as (ob & Hg). destruct (Hh o ob Hg) as (ob2 & Hg2 & Hco).
    assert (ob2 = ob') by congruence. subst ob2.
    rewrite (view_uncached s' k Kc), Ks, (view_cached s k o ob Ko Hg). cbn [option_map].
    rewrite cont_codec. congruence.
Qed.

Lemma cache_heap_lookup s k o : cache_heap s -> lookup (cache s) k = Some o -> exists ob, hget s o = Some ob.
Proof. intros H Hl. apply (H k o). apply lookup_In. exact Hl. Qed.

(* ------------------------------------------------------------ cache.Set *)

Lemma hget_replace_nth s s' o v o' :
  heap s' = replace_nth (heap s) o v -> hget s o <> None ->
  hget s' o' = if Nat.eqb o o' then Some v else hget s o'.
Proof.
  intros Hh Hg. unfold hget in *. rewrite Hh. destruct (Nat.eqb o o') eqn:E.
  - apply Nat.eqb_eq in E. subst o'. apply nth_replace_nth_same. apply nth_error_Some. exact Hg.
  - apply Nat.eqb_neq in E. apply nth_replace_nth_other. exact E.
Qed.

(* cache.Set of object o (fault-free): succeeds; the object's own ID resolves to
   the object's content, every other ID keeps its view; nothing else moves. *)
Lemma cache_set_view s o ob :
  plan s = [] -> NoDup (map fst (cache s)) -> cache_heap s -> hget s o = Some ob ->
  snd (cache_set s o) = true /\
  let s' := fst (cache_set s o) in
  (forall k, k <> o_id ob -> view s' k = view s k) /\
  view s' (o_id ob) = Some (cont (o_rec ob)) /\
  pending s' = pending s /\ graves s' = graves s /\ supply s' = supply s /\
  conf s' = conf s /\ now s' = now s /\ (NoDup (map fst (store s)) -> NoDup (map fst (store s'))).
Proof.
  intros Hp Hnd Hch Hg.
  destruct (RotateLaws.cache_set_ff s o ob Hp Hnd Hg) as (Hok & HP).
  split; [exact Hok|]. cbv zeta. set (s' := fst (cache_set s o)) in *.
  destruct HP as [Ph Pg Ppe Pn Pu Pc Ppl Pev Pndc Pnds Pst Pca Psub Pk].
  assert (Hget : forall o', hget s' o' = if Nat.eqb o o' then Some (touch ob (now s)) else hget s o').
  { intro o'. apply hget_replace_nth; [exact Ph | congruence]. }
  assert (Hsim : hsim s s').
  { intros o' ob' Hg'. rewrite Hget. destruct (Nat.eqb o o') eqn:E.
    - apply Nat.eqb_eq in E. subst o'. assert (ob' = ob) by congruence. subst ob'.
      eexists. split; [reflexivity|]. cbn. apply cont_set_access.
    - eauto. }
  split; [|split; [|repeat split; assumption]].
  - intros k Hne. apply view_kf; [exact Hsim | intros x Hx; apply (cache_heap_lookup s _ x Hch Hx) | apply Pk; exact Hne].
  - destruct Pca as [[Hm Hc]|[Hm _]].
    + rewrite (view_cached s' _ o (touch ob (now s)) Hc).
      * cbn. rewrite cont_set_access. reflexivity.
      * rewrite Hget, Nat.eqb_refl. reflexivity.
    + assert (Hz : cache s' = []) by (apply (cache_set_zero s o ob); assumption).
      rewrite view_uncached by (rewrite Hz; reflexivity).
      rewrite Pst. cbn [option_map]. rewrite cont_codec, cont_set_access. reflexivity.
Qed.

(* ------------------------------------------------------------ cache.Get *)

(* cache.Get (fault-free) changes no ID's view; nothing else moves *)
Lemma cache_get_view s k :
  plan s = [] -> NoDup (map fst (cache s)) -> cache_heap s ->
  let s' := fst (cache_get s k) in
  (forall k', view s' k' = view s k') /\
  pending s' = pending s /\ graves s' = graves s /\ supply s' = supply s /\
  conf s' = conf s /\ now s' = now s /\ (NoDup (map fst (store s)) -> NoDup (map fst (store s'))).
Proof.
  intros Hp Hnd Hch. cbv zeta.
  destruct (lookup (cache s) k) as [o|] eqn:Ec.
  - rewrite (cache_get_hit s k o Ec). cbn [fst]. repeat split; auto.
  - destruct (lookup (store s) k) as [r|] eqn:Es.
    + destruct (cache_get_load s k r Hp Hnd Ec Es) as (_ & HP).
      set (s' := fst (cache_get s k)) in *.
      destruct HP as [Ph Pg Ppe Pn Pu Pc Ppl Pev Pndc Pnds Pst Pca Psub Pk].
      assert (Hsim : hsim s s').
      { intros o' ob' Hg'. exists ob'. split; [|reflexivity]. apply (hget_app_old s s' _ o' ob' Ph Hg'). }
      split; [|repeat split; assumption].
      intro k'. destruct (key_eq_dec k' k) as [->|Hne].
      * rewrite (view_uncached s k Ec), Es. cbn [option_map].
        destruct Pca as [[Hm Hc]|[Hm Hc]].
        -- rewrite (view_cached s' k (length (heap s)) (mkObj k r) Hc); [reflexivity|].
           unfold hget. rewrite Ph. rewrite nth_error_app2 by lia. rewrite Nat.sub_diag. reflexivity.
        -- rewrite (view_uncached s' k Hc), Pst. reflexivity.
      * apply view_kf; [exact Hsim | intros x Hx; apply (cache_heap_lookup s _ x Hch Hx) | apply Pk; exact Hne].
    + rewrite (cache_get_absent s k Hp Ec Es). cbn [fst]. split; [|repeat split; auto].
      intro k'. apply view_ext; reflexivity.
Qed.

(* --------------------------------------------------------- cache.Delete *)

Lemma cache_delete_view s k :
  plan s = [] ->
  let s' := fst (cache_delete s k) in
  view s' k = None /\ (forall k', k' <> k -> view s' k' = view s k') /\
  heap s' = heap s /\ pending s' = pending s /\ supply s' = supply s /\ conf s' = conf s /\ now s' = now s /\
  (forall k' x, In (k', x) (graves s') -> In (k', x) (graves s) \/ (k' = k /\ lookup (store s) k <> None)) /\
  (NoDup (map fst (store s)) -> NoDup (map fst (store s'))).
Proof.
  intro Hp. cbv zeta. unfold cache_delete.
  rewrite RotateLaws.p_delete_ff by exact Hp. cbn [fst].
  split; [|split; [|split; [|split; [|split; [|split; [|split; [|split]]]]]]]; try reflexivity.
  - unfold view, L. cbn. rewrite !lookup_remove_same. reflexivity.
  - intros k' Hne. unfold view, L, hget. cbn. rewrite !lookup_remove_other by exact Hne. reflexivity.
  - intros k' x. cbn. destruct (lookup (store s) k) as [r|] eqn:Es; [|auto].
    intro H. apply In_upsert in H. destruct H as [H|H]; [left; exact H|].
    injection H as -> _. right. split; [reflexivity | congruence].
  - cbn. apply RotateLaws.nodup_remove.
Qed.

(* ---------------------------------------------------- direct saves, heap *)

(* saving object o under its own ID while it is not shadowed in the cache *)
Lemma save_view s o ob :
  plan s = [] -> hget s o = Some ob -> (forall x, lookup (cache s) (o_id ob) = Some x -> x = o) ->
  let s' := fst (p_save s (o_id ob) (o_rec ob)) in
  (forall k, k <> o_id ob -> view s' k = view s k) /\ view s' (o_id ob) = Some (cont (o_rec ob)) /\
  heap s' = heap s /\ cache s' = cache s /\ pending s' = pending s /\ graves s' = graves s /\
  supply s' = supply s /\ conf s' = conf s /\ now s' = now s /\
  (NoDup (map fst (store s)) -> NoDup (map fst (store s'))).
Proof.
  intros Hp Hg Hu. cbv zeta. rewrite RotateLaws.p_save_ff by exact Hp. cbn [fst].
  split; [|split; [|repeat split; try reflexivity; cbn; apply RotateLaws.nodup_upsert]].
  - intros k Hne. unfold view, L, hget. cbn. rewrite lookup_upsert_other by exact Hne. reflexivity.
  - destruct (lookup (cache s) (o_id ob)) as [x|] eqn:Ec.
    + rewrite (Hu x eq_refl) in Ec. apply (view_cached _ _ o ob); [exact Ec | exact Hg].
    + rewrite view_uncached by exact Ec. cbn. rewrite lookup_upsert_same. cbn. rewrite cont_codec. reflexivity.
Qed.

(* changing an object changes the view of the one ID it is cached under *)
Lemma hupd_view_other s o f k :
  lookup (cache s) k <> Some o -> view (hupd s o f) k = view s k.
Proof.
  intro Hne. unfold hupd. destruct (hget s o) as [ob|] eqn:Hg; [|reflexivity].
  unfold view, L. change (cache (hput s o _)) with (cache s). change (store (hput s o _)) with (store s).
  destruct (lookup (cache s) k) as [o'|]; [|reflexivity].
  rewrite hget_hput_other; [reflexivity|]. intros ->. apply Hne. reflexivity.
Qed.

Lemma hupd_view_benign s o ob f k :
  hget s o = Some ob -> cont (f (o_rec ob)) = cont (o_rec ob) -> view (hupd s o f) k = view s k.
Proof.
  intros Hg Hc. rewrite (hupd_eq _ _ _ _ Hg).
  unfold view, L. change (cache (hput s o _)) with (cache s). change (store (hput s o _)) with (store s).
  destruct (lookup (cache s) k) as [o'|]; [|reflexivity].
  destruct (Nat.eq_dec o o') as [<-|Hne].
  - rewrite hget_hput_same by (eapply hget_Some_lt; eauto). rewrite Hg. cbn. congruence.
  - rewrite hget_hput_other by exact Hne. reflexivity.
Qed.

Lemma halloc_view s v k : cache_heap s -> view (fst (halloc s v)) k = view s k.
Proof.
  intro Hch. unfold view, L. change (cache (fst (halloc s v))) with (cache s).
  change (store (fst (halloc s v))) with (store s).
  destruct (lookup (cache s) k) as [o|] eqn:E; [|reflexivity].
  destruct (cache_heap_lookup s k o Hch E) as (ob & Hg).
  rewrite (hget_halloc_keep s v o ob Hg), Hg. reflexivity.
Qed.

Lemma gen_id_view s k : view (fst (gen_id s)) k = view s k.
Proof. apply view_ext; reflexivity. Qed.

(* --------------------------------------------- graves and clean-up queue *)

(* deleted IDs were drawn and resolve to nothing; queued clean-ups name drawn
   IDs; stored IDs are unique *)
Definition GR (s : st) : Prop :=
  (forall k x, In (k, x) (graves s) -> key_drawn s k /\ view s k = None) /\
  (forall d k, In (d, k) (pending s) -> key_drawn s k) /\
  NoDup (map fst (store s)).

Lemma GR_alive s k x : GR s -> view s k <> None -> ~ In (k, x) (graves s).
Proof. intros (G & _) Hv H. apply Hv. apply (G k x H). Qed.

Lemma GR_fresh s k x : GR s -> ~ key_drawn s k -> ~ In (k, x) (graves s).
Proof. intros (G & _) Hv H. apply Hv. apply (G k x H). Qed.

(* a step that deletes nothing: GR carries over if the IDs whose view may have
   changed are not among the deleted ones and new clean-ups name drawn IDs *)
Lemma GR_pres s s' (K : key -> Prop) :
  GR s -> graves s' = graves s ->
  (forall d k, In (d, k) (pending s') -> In (d, k) (pending s) \/ key_drawn s' k) ->
  (supply s <= supply s')%N ->
  (forall k, ~ K k -> view s' k = view s k) -> (forall k x, K k -> ~ In (k, x) (graves s)) ->
  NoDup (map fst (store s')) -> GR s'.
Proof.
  intros (G & P & _) Hg Hpe Hu Hv HK Hnd. split; [|split; [|exact Hnd]].
  - intros k x. rewrite Hg. intro H. destruct (G k x H) as [A B].
    split; [apply (key_drawn_mono s s' k Hu A)|].
    assert (HnK : ~ K k) by (intro HKk; apply (HK k x HKk H)).
    rewrite (Hv k HnK). exact B.
  - intros d k H. destruct (Hpe d k H) as [H1|H1]; [|exact H1]. apply (key_drawn_mono s s' k Hu). eauto.
Qed.

Lemma GR_core s s' :
  WriteThrough.core s = WriteThrough.core s' -> graves s' = graves s -> pending s' = pending s -> GR s -> GR s'.
Proof.
  intros Hc Hg Hpe HG. pose proof Hc as Hc'. apply core_inv in Hc'. destruct Hc' as (_ & _ & Hs & Hu & _).
  apply (GR_pres s s' (fun _ => False)); auto.
  - intros d k. rewrite Hpe. auto.
  - rewrite Hu. lia.
  - intros k _. apply view_core. exact Hc.
  - rewrite <- Hs. apply HG.
Qed.
