(* Non-vacuity examples and the oddities of the address pattern as explicit
   witnesses (all by computation on Model/AddrRe.v). *)
From Coq Require Import String Ascii.
From Sessions Require Import Model.Base Model.Codec Model.Sess Model.AddrRe
  Proofs.AddrRe Proofs.AddrRe2 Proofs.AddrRe3 Proofs.AddrRe4.
Local Open Scope N_scope.

(* an ASCII literal as a byte string *)
Definition b (s : string) : bytes := map N_of_ascii (list_ascii_of_string s).

(* greedy groups that give digits back: the separators are digits here *)
Example ex_backtrack_7 : submatch (b "1234567:8") = Some (b "1", b "3", b "5", b "7").
Proof. vm_compute. reflexivity. Qed.

Example ex_backtrack_8 : submatch (b "12345678:9") = Some (b "12", b "4", b "6", b "8").
Proof. vm_compute. reflexivity. Qed.

(* ... and that string has other decompositions the matcher tries later *)
Example ex_other_shape : shape (b "12345678:9") (b "1") (b "2") (b "34") (b "5") (b "6") (b "7") (b "8") (b "9").
Proof. unfold shape, digs, sep. vm_compute. repeat split; discriminate. Qed.

Example ex_submatch_some_nonvacuous :
  (exists x1 x2 x3 ds, shape (b "10.0.0.1:80") (b "10") x1 (b "0") x2 (b "0") x3 (b "1") ds) /\
  greedy_choice (b "10.0.0.1:80") (b "10") (b "0") (b "0") (b "1").
Proof. apply submatch_some. vm_compute. reflexivity. Qed.

(* the dots are not escaped *)
Example ex_unescaped_dot : submatch (b "1x2y3z4:5") = Some (b "1", b "2", b "3", b "4").
Proof. vm_compute. reflexivity. Qed.

Example ex_unescaped_dot_accepts : ip_ok_str 4 (b "1.2.3.4:5") (b "1x2y3z9:7") = true.
Proof. vm_compute. reflexivity. Qed.

(* one rune, not one byte: "1é2.3.4:5" (é = C3 A9) matches, a newline does not *)
Example ex_rune : submatch ([49; 195; 169] ++ b "2.3.4:5") = Some (b "1", b "2", b "3", b "4").
Proof. vm_compute. reflexivity. Qed.

Example ex_invalid_byte : submatch ([49; 255] ++ b "2.3.4:5") = Some (b "1", b "2", b "3", b "4").
Proof. vm_compute. reflexivity. Qed.

Example ex_newline_sep : submatch ([49; 10] ++ b "2.3.4:5") = None.
Proof. vm_compute. reflexivity. Qed.

Example ex_newline_end : submatch (b "1.2.3.4:5" ++ [10]) = None.
Proof. vm_compute. reflexivity. Qed.

(* the captured strings are compared, not the numbers *)
Example ex_leading_zero :
  submatch (b "010.0.0.1:1") = Some (b "010", b "0", b "0", b "1") /\
  ip_ok_str 2 (b "10.0.0.1:1") (b "010.0.0.1:1") = false /\
  ip_ok_str 2 (b "10.0.0.1:1") (b "10.0.0.1:1") = true.
Proof. vm_compute. repeat split. Qed.

(* anchors: an IPv4-mapped IPv6 peer does not match, nor [::1]:80, nor "" *)
Example ex_mapped_v6 : submatch (b "[::ffff:1.2.3.4]:80") = None.
Proof. vm_compute. reflexivity. Qed.

Example ex_v6 : submatch (b "[::1]:80") = None /\ submatch [] = None.
Proof. vm_compute. split; reflexivity. Qed.

Example ex_v6_keeps : forall n s, ip_ok_str n s (b "[::ffff:1.2.3.4]:80") = true /\ ip_ok_str n (b "[::1]:80") s = true /\ ip_ok_str n [] s = true.
Proof.
  intros n s. split; [apply ip_ok_str_nomatch_r | split; apply ip_ok_str_nomatch_l]; vm_compute; reflexivity.
Qed.

(* the clause on strings, both ways, at the octet just inside / outside the prefix *)
Example ex_plain : plain (b "192.168.100.50:8080") (b "192") (b "168") (b "100") (b "50").
Proof.
  exists 46, 46, 46, (b "8080"). unfold digs. vm_compute. repeat split; discriminate.
Qed.

Example ex_clause :
  ip_ok_str 3 (b "192.168.100.50:8080") (b "192.168.178.1:80") = true /\
  ip_ok_str 4 (b "192.168.100.50:8080") (b "192.168.178.1:80") = false /\
  ip_ok_str 5 (b "192.168.100.50:8080") (b "1.2.3.4:80") = true /\
  ip_ok_str 1 (b "192.168.100.50:8080") (b "1.2.3.4:80") = true.
Proof. vm_compute. repeat split. Qed.

(* the printer *)
Example ex_render : render (V4 10 0 0 1 80) = b "10.0.0.1:80" /\ render (AOther 7) = b "[::7]:0".
Proof. vm_compute. split; reflexivity. Qed.

Example ex_refine : ip_ok_str 3 (render (V4 10 0 0 1 80)) (render (V4 10 1 0 1 80)) = false /\
                    ip_ok 3 (V4 10 0 0 1 80) (V4 10 1 0 1 80) = false.
Proof. vm_compute. split; reflexivity. Qed.

(* the only decomposition of a dotted quad with port *)
Example ex_unique : forall g1' x1' g2' x2' g3' x3' g4' ds',
  shape (b "10.0.0.1:80") g1' x1' g2' x2' g3' x3' g4' ds' ->
  g1' = b "10" /\ x1' = [46] /\ g2' = b "0" /\ x2' = [46] /\ g3' = b "0" /\ x3' = [46] /\ g4' = b "1" /\ ds' = b "80".
Proof.
  intros g1' x1' g2' x2' g3' x3' g4' ds'.
  apply (plain_unique (b "10") (b "0") (b "0") (b "1") (b "80") 46 46 46);
    unfold digs; vm_compute; try split; try discriminate; reflexivity.
Qed.
