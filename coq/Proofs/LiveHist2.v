(* C03/C02/C06 at the history level, part 2: the generic invariant G of
   LiveHist.v through the session API (fault-free): RegenerateID, creation,
   Start by its branches, the handler operations, the user-wide loops.

   CL c t n   what the API needs of P and K at configuration c, instant t, with
              n IDs drawn: P is kept by the codec, by the bookkeeping updates
              and by re-keying to an undrawn ID; undrawn IDs are not in K; a
              replaced-ID record written at t satisfies P outside K.
   HPf nk s o the handle o is an object satisfying P under its own ID (and,
              when nk, that ID is outside K: the call may replace or delete it)
   Step s s'  G holds after the call, handles stay handles, configuration and
              clock are unchanged, the supply does not decrease. *)
From Sessions Require Import Model.Base Model.Sess Model.Hist Proofs.SessDefs
  Proofs.HistInv Proofs.HistInv2 Proofs.HistInv3 Proofs.LiveHist.
From Coq Require Import Lia.

Definition fr (s s' : st) : Prop := conf s' = conf s /\ now s' = now s /\ (supply s <= supply s')%N.

Lemma fr_refl s : fr s s.
Proof. repeat split. lia. Qed.

Lemma fr_trans a b c : fr a b -> fr b c -> fr a c.
Proof. intros (A1 & A2 & A3) (B1 & B2 & B3). repeat split; try congruence. lia. Qed.

Definition keeps_objs (s s' : st) : Prop := forall o ob, hget s o = Some ob -> hget s' o = Some ob.

Lemma cache_get_fr s k : ffnd s -> fr s (fst (cache_get s k)) /\ keeps_objs s (fst (cache_get s k)).
Proof.
  intro F. pose proof (cache_get_ff s k (proj1 F)) as H. destruct (lookup (cache s) k).
  - rewrite H. split; [apply fr_refl | intros o ob Ho; exact Ho].
  - destruct H as [es [_ H]]. destruct (lookup (store s) k) as [r|]; rewrite H; cbn [fst].
    + split.
      * rewrite loaded_eq. cbv zeta. destruct (c_maxcache (conf s) =? 0)%Z; [unfold fr, halloc; sst; repeat split; lia|].
        sst. destruct (compact_frame (set_heap (set_evs s (es ++ evs s)) (heap s ++ [mkObj k r])) 1 F)
          as (_ & A1 & _ & A2 & A3 & _).
        unfold fr. sst. rewrite A1, A2, A3. sst. repeat split. lia.
      * intros o ob Ho. unfold hget in *. rewrite loaded_heap by exact F.
        rewrite nth_error_app1; [exact Ho | apply nth_error_Some; congruence].
    + split; [unfold fr; sst; repeat split; lia | intros o ob Ho; exact Ho].
Qed.

Lemma cset_fr s o ob : ffnd s -> fr s (cset s o ob).
Proof. intro F. destruct (cset_frame s o ob F) as (A1 & _ & A2 & A3 & _). unfold fr. rewrite A1, A2, A3. repeat split. lia. Qed.

Lemma cache_delete_fr s k : plan s = [] -> fr s (fst (cache_delete s k)).
Proof. intro H. rewrite cache_delete_ff by exact H. unfold fr, deleted. sst. repeat split. lia. Qed.

Definition destr (op : sop) : bool :=
  match op with SRegen | SLogIn _ _ | SDestroy => true | _ => false end.

Section Api.
  Variable P : key -> rec -> Prop.
  Variable K : key -> Prop.

  Record CL (c : cfg) (t : Z) (n : N) : Prop := mkCL {
    cl_codec : forall k r, P k r -> P k (codec c r);
    cl_touch : forall k r, P k r -> P k (set_access r t);
    cl_user : forall k r u, P k r -> P k (set_user r u);
    cl_data : forall k r d, P k r -> P k (set_data r d);
    cl_ip : forall k r a, P k r -> P k (set_ip r a);
    cl_ua : forall k r a, P k r -> P k (set_ua r a);
    cl_created : forall k r, P k r -> P k (set_created r t);
    cl_rekey : forall k r m, (n <= m)%N -> P k r -> P (KGen m) r;
    cl_new : forall m a u, (n <= m)%N -> P (KGen m) (mkRec t t a u None None (Some []));
    cl_ref : forall k cr a u j, ~ K k -> P k (mkRec cr t a u (Some j) None None);
    cl_K : forall m, (n <= m)%N -> ~ K (KGen m) }.

  Lemma CL_mono c t n m : (n <= m)%N -> CL c t n -> CL c t m.
  Proof.
    intros Hle [A1 A2 A3 A4 A5 A6 A7 A8 A9 A10 A11]. constructor; try assumption.
    - intros k r x Hx. apply A8. lia.
    - intros x a u Hx. apply A9. lia.
    - intros x Hx. apply A11. lia.
  Qed.

  Definition CLs (s : st) : Prop := CL (conf s) (now s) (supply s).

  Lemma CLs_fr s s' : fr s s' -> CLs s -> CLs s'.
  Proof. intros (A1 & A2 & A3) H. unfold CLs. rewrite A1, A2. eapply CL_mono; eassumption. Qed.

  Lemma cl_upd s q : CLs s -> forall k r, P k r -> P k (upd_req s q r).
  Proof. intros C k r H. unfold upd_req. apply (cl_ua _ _ _ C). apply (cl_ip _ _ _ C). apply (cl_touch _ _ _ C). exact H. Qed.

  Definition HPf (nk : bool) (s : st) (o : nat) : Prop :=
    exists ob, hget s o = Some ob /\ P (o_id ob) (o_rec ob) /\ (nk = true -> ~ K (o_id ob)).

  Lemma HPf_weaken nk s o : HPf true s o -> HPf nk s o.
  Proof. intros [ob (A & B & C)]. exists ob. split; [exact A|]. split; [exact B | intros _; apply C; reflexivity]. Qed.

  Lemma HPf_false nk s o : HPf nk s o -> HPf false s o.
  Proof. intros [ob (A & B & C)]. exists ob. split; [exact A|]. split; [exact B | discriminate]. Qed.

  Definition hp_pres (s s' : st) : Prop := forall nk o, HPf nk s o -> HPf nk s' o.

  Definition Step (s s' : st) : Prop := G P K s' /\ hp_pres s s' /\ fr s s'.

  Lemma hp_pres_refl s : hp_pres s s.
  Proof. intros nk o H. exact H. Qed.

  Lemma hp_pres_trans a b c : hp_pres a b -> hp_pres b c -> hp_pres a c.
  Proof. intros H1 H2 nk o H. apply H2. apply H1. exact H. Qed.

  Lemma hp_pres_objs s s' : keeps_objs s s' -> hp_pres s s'.
  Proof. intros Hk nk o [ob (A & B & C)]. exists ob. split; [apply Hk; exact A | split; assumption]. Qed.

  Lemma hp_pres_heap s s' : heap s' = heap s -> hp_pres s s'.
  Proof. intro E. apply hp_pres_objs. intros o ob H. unfold hget in *. rewrite E. exact H. Qed.

  Lemma hp_pres_hupd s o f : (forall k r, P k r -> P k (f r)) -> hp_pres s (hupd s o f).
  Proof.
    intros Hf nk o' [ob (A & B & C)]. pose proof (hget_hupd s o f o') as Hh. destruct (Nat.eqb o o') eqn:E.
    - apply Nat.eqb_eq in E. subst o'. rewrite A in Hh. eexists. split; [exact Hh|]. cbn [o_id o_rec].
      split; [apply Hf; exact B | exact C].
    - exists ob. split; [rewrite Hh; exact A | split; assumption].
  Qed.

  Lemma hp_pres_cset s o ob : ffnd s -> hget s o = Some ob -> Ptouch P (now s) -> hp_pres s (cset s o ob).
  Proof.
    intros F Ho Ht nk o' [ob' (A & B & C)]. pose proof (hget_cset _ _ _ o' F Ho) as Hh. destruct (Nat.eqb o o') eqn:E.
    - apply Nat.eqb_eq in E. subst o'. rewrite Ho in A. injection A as <-. eexists. split; [exact Hh|].
      cbn [touched o_id o_rec]. split; [apply Ht; exact B | exact C].
    - exists ob'. split; [rewrite Hh; exact A | split; assumption].
  Qed.

  Lemma Step_trans a b c : Step a b -> Step b c -> Step a c.
  Proof.
    intros (_ & A2 & A3) (B1 & B2 & B3). split; [exact B1|]. split; [eapply hp_pres_trans; eassumption | eapply fr_trans; eassumption].
  Qed.

  (* --------------------------------------------------- cache operations *)

  Lemma cache_get_Step b base D s k s' r :
    inv b base NX D s -> G P K s -> CLs s -> cache_get s k = (s', Some r) ->
    Step s s' /\ match r with
                 | Some o => exists ob, hget s' o = Some ob /\ o_id ob = k /\ P k (o_rec ob)
                 | None => True
                 end.
  Proof.
    intros I HG C E. destruct (cache_get_G P K _ _ _ _ _ _ _ I HG (cl_codec _ _ _ C) E) as [G' Hr].
    destruct (cache_get_fr s k (inv_ffnd _ _ _ _ _ I)) as [Hf Hk]. rewrite E in Hf, Hk. cbn [fst] in Hf, Hk.
    split; [|exact Hr]. split; [exact G'|]. split; [apply hp_pres_objs; exact Hk | exact Hf].
  Qed.

  Lemma cset_Step b base X D s o ob :
    inv b base X D s -> G P K s -> CLs s -> hget s o = Some ob -> P (o_id ob) (o_rec ob) ->
    Step s (cset s o ob).
  Proof.
    intros I HG C Ho HP. assert (F : ffnd s) by (eapply inv_ffnd; exact I).
    split; [eapply G_cset; try eassumption; [exact (cl_codec _ _ _ C) | intros k r; apply (cl_touch _ _ _ C)]|].
    split; [apply hp_pres_cset; [exact F | exact Ho | intros k r; apply (cl_touch _ _ _ C)] | apply cset_fr; exact F].
  Qed.

  Lemma cache_delete_Step s k : plan s = [] -> G P K s -> ~ K k -> Step s (fst (cache_delete s k)).
  Proof.
    intros Hp HG Hk. split; [apply G_cache_delete; assumption|].
    split; [apply hp_pres_heap; apply cache_delete_heap; exact Hp | apply cache_delete_fr; exact Hp].
  Qed.

  (* ------------------------------------------------------ RegenerateID *)

  Lemma regen_fr s o ob : ffnd s -> fr s (regen s o ob).
  Proof.
    intro F. destruct (regen_frames s o ob F) as [_ (B1 & B2 & B3 & _)]. unfold regen, fr. sst.
    rewrite B1, B2, B3. repeat split. lia.
  Qed.

  Lemma regen_other s o ob o' : ffnd s -> hget s o = Some ob -> o' <> o -> o' < length (heap s) ->
    hget (regen s o ob) o' = hget s o'.
  Proof.
    intros F Ho Hne Hlt. assert (F1 : ffnd (rg_s1 s o ob)) by exact F.
    assert (H1 : hget (rg_s1 s o ob) o = Some (rg_ob1 s ob)).
    { unfold rg_s1. apply hget_hput_same. apply hget_Some_lt in Ho. exact Ho. }
    assert (F3 : ffnd (rg_s3 s o ob)) by (unfold rg_s3; apply ffnd_halloc; unfold rg_s2; apply cset_ffnd; exact F1).
    assert (H3 : hget (rg_s3 s o ob) (length (heap (rg_s2 s o ob))) = Some (rg_ref s o ob)).
    { unfold rg_s3. rewrite hget_halloc. rewrite Nat.eqb_refl. reflexivity. }
    destruct (regen_frames s o ob F) as [(A1 & A2 & A3 & A4 & A5 & A6 & A7) _].
    unfold regen, hget. sst. fold (hget (rg_s4 s o ob) o'). unfold rg_s4.
    rewrite (hget_cset _ _ _ _ F3 H3).
    destruct (Nat.eqb (length (heap (rg_s2 s o ob))) o') eqn:E; [apply Nat.eqb_eq in E; lia|].
    unfold rg_s3. rewrite hget_halloc_old by lia. unfold rg_s2.
    rewrite (hget_cset _ _ _ _ F1 H1). destruct (Nat.eqb o o') eqn:E2; [apply Nat.eqb_eq in E2; congruence|].
    unfold rg_s1. rewrite hget_hput_other by congruence. reflexivity.
  Qed.

  Lemma regen_Step b base D s o ob :
    inv b base NX D s -> hget s o = Some ob -> b <= o -> ~ D (o_id ob) ->
    G P K s -> CLs s -> P (o_id ob) (o_rec ob) -> ~ K (o_id ob) ->
    Step s (regen s o ob).
  Proof.
    intros I Ho Hbo HnD HG C HP HnK. assert (F : ffnd s) by (eapply inv_ffnd; exact I).
    destruct (regen_invs _ _ _ _ _ _ I Ho Hbo HnD) as (I1 & I2 & I3 & I4 & I5).
    destruct (regen_frames s o ob F) as [(A1 & A2 & A3 & A4 & A5 & A6 & A7) (B1 & B2 & B3 & B4 & B5 & B6 & B7)].
    assert (Pn : P (KGen (supply s)) (set_created (o_rec ob) (now s))).
    { apply (cl_created _ _ _ C). apply (cl_rekey _ _ _ C (o_id ob)); [lia | exact HP]. }
    assert (G1 : G P K (rg_s1 s o ob)).
    { unfold rg_s1. eapply G_hput; [apply G_drawn1; exact HG | exact Ho |].
      intros k Hl. cbn [rg_ob1 o_rec]. apply (cl_created _ _ _ C). eapply (g_c _ _ _ HG); eauto. }
    assert (H1 : hget (rg_s1 s o ob) o = Some (rg_ob1 s ob)).
    { unfold rg_s1. apply hget_hput_same. apply hget_Some_lt in Ho. exact Ho. }
    assert (G2 : G P K (rg_s2 s o ob)).
    { unfold rg_s2. eapply G_cset; [exact I1 | exact G1 | exact (cl_codec _ _ _ C) | intros k r; apply (cl_touch _ _ _ C) | exact H1 | exact Pn]. }
    assert (G3 : G P K (rg_s3 s o ob)).
    { unfold rg_s3. apply G_halloc; [eapply inv_cache_valid; exact I2 | exact G2]. }
    assert (H3 : hget (rg_s3 s o ob) (length (heap (rg_s2 s o ob))) = Some (rg_ref s o ob)).
    { unfold rg_s3. rewrite hget_halloc. rewrite Nat.eqb_refl. reflexivity. }
    assert (G4 : G P K (rg_s4 s o ob)).
    { unfold rg_s4. eapply G_cset; [exact I3 | exact G3 | | | exact H3 |].
      - change (conf (rg_s3 s o ob)) with (conf (rg_s2 s o ob)). rewrite A3. exact (cl_codec _ _ _ C).
      - change (now (rg_s3 s o ob)) with (now (rg_s2 s o ob)). rewrite A2. intros k r. apply (cl_touch _ _ _ C).
      - cbn [rg_ref o_id o_rec]. rewrite A2. apply (cl_ref _ _ _ C). exact HnK. }
    split; [|split; [|apply regen_fr; exact F]].
    - unfold regen. apply G_set_pending; [exact G4|]. intros d k Hin. apply in_app_iff in Hin. destruct Hin as [Hin|[Hin|[]]].
      + apply (g_p _ _ _ G4 d k Hin).
      + apply (f_equal snd) in Hin. cbn [snd] in Hin. subst k. exact HnK.
    - intros nk o' [ob' (A & B & Cn)]. destruct (Nat.eq_dec o' o) as [->|Hne].
      + exists (rg_ob2 s o ob). split; [apply regen_handle; assumption|]. cbn [rg_ob2 touched rg_ob1 o_id o_rec].
        split; [apply (cl_touch _ _ _ C) in Pn; exact Pn | intros _; apply (cl_K _ _ _ C); lia].
      + exists ob'. split; [|split; assumption]. rewrite regen_other; try assumption. eapply hget_Some_lt; exact A.
  Qed.

  (* ------------------------------------------------- creation, Destroy *)

  Lemma created_Step b base D s q : inv b base NX D s -> G P K s -> CLs s ->
    Step s (created s q) /\ HPf true (created s q) (length (heap s)).
  Proof.
    intros I HG C. assert (F : ffnd s) by (eapply inv_ffnd; exact I).
    assert (I1 : inv b base NX D (fst (halloc (drawn1 s) (newobj s q)))).
    { apply inv_halloc; [apply inv_drawn1; exact I | simpl; lia | exact Logic.I]. }
    assert (H1 : hget (fst (halloc (drawn1 s) (newobj s q))) (length (heap s)) = Some (newobj s q)).
    { rewrite hget_halloc. sst. rewrite Nat.eqb_refl. reflexivity. }
    assert (G1 : G P K (fst (halloc (drawn1 s) (newobj s q)))).
    { apply G_halloc; [intros k o Hl; apply (inv_cache_valid _ _ _ _ _ I k o Hl) | apply G_drawn1; exact HG]. }
    assert (Pn : P (KGen (supply s)) (o_rec (newobj s q))) by (cbn [newobj o_rec]; apply (cl_new _ _ _ C); lia).
    assert (C1 : CLs (fst (halloc (drawn1 s) (newobj s q)))).
    { eapply CLs_fr; [|exact C]. unfold fr, halloc, drawn1. sst. repeat split. lia. }
    destruct (cset_Step _ _ _ _ _ _ _ I1 G1 C1 H1 Pn) as (A1 & A2 & A3).
    split.
    - split; [exact A1|]. split.
      + eapply hp_pres_trans; [|exact A2]. apply hp_pres_objs. intros o ob Ho.
        rewrite hget_halloc_old; [exact Ho | eapply hget_Some_lt; exact Ho].
      + eapply fr_trans; [|exact A3]. unfold fr, halloc, drawn1. sst. repeat split. lia.
    - exists (newobj s q). split; [apply created_handle; exact F|]. split; [exact Pn | intros _; apply (cl_K _ _ _ C); cbn [newobj o_id]; lia].
  Qed.

  Definition res_HP (s : st) (res : result (option nat)) : Prop :=
    match res with Ok (Some o) => HPf false s o | _ => True end.

  Lemma start_none_Step b base D s q cks s' res cks' :
    inv b base NX D s -> G P K s -> CLs s -> start_none s q cks = (s', res, cks') ->
    Step s s' /\ res_HP s' res.
  Proof.
    intros I HG C. unfold start_none. destruct (q_create q).
    - rewrite create_session_ff by (eapply inv_ffnd; exact I). intro E. injection E as <- <- _.
      destruct (created_Step _ _ _ _ q I HG C) as [A B]. split; [exact A | apply HPf_false in B; exact B].
    - intro E. injection E as <- <- _. split; [|exact Logic.I].
      split; [exact HG | split; [apply hp_pres_refl | apply fr_refl]].
  Qed.

  (* --------------------------------------------------------------- Start *)

  Lemma follow_Step b base D : forall fuel s o lk s' r,
    inv b base NX D s -> hok b D s o -> G P K s -> CLs s -> HPf false s o ->
    follow fuel s o lk = (s', r) ->
    Step s s' /\ match r with Ok (o', _) => HPf false s' o' | _ => True end.
  Proof.
    induction fuel as [|f IH]; intros s o lk s' r I [Hbo [ob [Ho HnD]]] HG C HP; cbn [follow]; rewrite Ho.
    - destruct (r_ref (o_rec ob)); intro E; injection E as <- <-;
        (split; [split; [exact HG | split; [apply hp_pres_refl | apply fr_refl]]|]); [exact Logic.I | exact HP].
    - destruct (r_ref (o_rec ob)) as [t|].
      + destruct (cache_get_inv _ _ _ _ _ t I) as (s1 & r1 & E1 & I1 & Hr1). rewrite E1.
        destruct (cache_get_Step _ _ _ _ _ _ _ I HG C E1) as [S1 Hr2].
        destruct r1 as [o'|].
        * destruct Hr1 as [Hbo' [ob' (Ho' & _ & HnD' & _)]]. destruct Hr2 as [ob2 (Ho2 & Hid2 & HP2)].
          intro E. destruct (IH s1 o' t s' r I1) as [S2 Hr]; try exact E.
          -- split; [exact Hbo' | exists ob'; split; assumption].
          -- apply S1.
          -- eapply CLs_fr; [apply S1 | exact C].
          -- exists ob2. split; [exact Ho2|]. split; [rewrite Hid2; exact HP2 | discriminate].
          -- split; [eapply Step_trans; eassumption | exact Hr].
        * intro E. injection E as <- <-. split; [exact S1 | exact Logic.I].
      + intro E. injection E as <- <-. split; [|exact HP]. split; [exact HG | split; [apply hp_pres_refl | apply fr_refl]].
  Qed.

  Lemma hupd_Step s o f : G P K s -> (forall k r, P k r -> P k (f r)) -> Step s (hupd s o f).
  Proof.
    intros HG Hf. split; [apply G_hupd; assumption|]. split; [apply hp_pres_hupd; exact Hf|].
    unfold fr, hupd. destruct (hget s o); sst; repeat split; lia.
  Qed.

  Lemma start_found_Step b base D c s q k o ob cks s' res cks' :
    inv b base NX D s -> hget s o = Some ob -> b <= o -> ~ D (o_id ob) ->
    G P K s -> CLs s -> P (o_id ob) (o_rec ob) -> ~ K k -> ~ K (o_id ob) ->
    start_found c s q k o ob cks = (s', res, cks') ->
    Step s s' /\ res_HP s' res.
  Proof.
    intros I Ho Hbo HnD HG C HP HnKk HnK. assert (F : ffnd s) by (eapply inv_ffnd; exact I).
    assert (Hp : plan s = []) by apply F.
    assert (HPo : HPf true s o) by (exists ob; split; [exact Ho | split; [exact HP | intros _; exact HnK]]).
    destruct (rec_valid c (now s) q (o_rec ob)) eqn:Hv.
    - destruct (r_ref (o_rec ob)) as [t|] eqn:Hr.
      + destruct (sat_add (c_idexpiry c) (c_grace c) <=? since (r_created (o_rec ob)) (now s))%Z eqn:Hb.
        * rewrite sf_backstop; [| exact Hp | exact Hv | unfold isref; rewrite Hr; reflexivity | exact Hb].
          intro E. injection E as <- <- _. split; [apply cache_delete_Step; assumption | exact Logic.I].
        * rewrite (sf_ref _ _ _ _ _ _ _ t Hv Hr Hb).
          destruct (follow (S (N.to_nat (supply s))) s o k) as [s1 fr1] eqn:Ef.
          destruct (follow_Step b base D _ _ _ _ _ _ I (conj Hbo (ex_intro _ ob (conj Ho HnD))) HG C (HPf_false _ _ _ HPo) Ef) as [S1 Hfr].
          destruct fr1 as [[o' lk']|e|e]; intro E; injection E as <- <- _; [|split; [exact S1 | exact Logic.I]..].
          assert (C1 : CLs s1) by (eapply CLs_fr; [apply S1 | exact C]).
          assert (S2 : Step s1 (hupd s1 o' (upd_req s1 q))) by (apply hupd_Step; [apply S1 | apply cl_upd; exact C1]).
          split; [eapply Step_trans; eassumption|]. cbn [res_HP]. apply S2. exact Hfr.
      + destruct (c_idexpiry c <=? since (r_created (o_rec ob)) (now s))%Z eqn:Ha.
        * rewrite (sf_rotate _ _ _ _ _ _ _ F Ho Hv Hr Ha). intro E. injection E as <- <- _.
          assert (S1 : Step s (regen s o ob)) by (eapply regen_Step; eassumption).
          assert (C1 : CLs (regen s o ob)) by (eapply CLs_fr; [apply S1 | exact C]).
          assert (S2 : Step (regen s o ob) (hupd (regen s o ob) o (upd_req (regen s o ob) q))).
          { apply hupd_Step; [apply S1 | apply cl_upd; exact C1]. }
          split; [eapply Step_trans; eassumption|]. cbn [res_HP]. apply S2. apply S1. apply HPf_false in HPo. exact HPo.
        * destruct (sat_add (c_idexpiry c) (c_grace c) <=? since (r_created (o_rec ob)) (now s))%Z eqn:Hb.
          -- rewrite sf_backstop; [| exact Hp | exact Hv | rewrite Ha; apply andb_false_r | exact Hb].
             intro E. injection E as <- <- _. split; [apply cache_delete_Step; assumption | exact Logic.I].
          -- rewrite (sf_plain _ _ _ _ _ _ _ Hv Hr Ha Hb). intro E. injection E as <- <- _.
             assert (S2 : Step s (hupd s o (upd_req s q))) by (apply hupd_Step; [exact HG | apply cl_upd; exact C]).
             split; [exact S2|]. cbn [res_HP]. apply S2. apply HPf_false in HPo. exact HPo.
    - rewrite (sf_invalid _ _ _ _ _ _ _ Hp Ho Hv).
      assert (I1 : inv b base NX D (fst (cache_delete s (o_id ob)))) by (apply inv_cache_delete; exact I).
      assert (S1 : Step s (fst (cache_delete s (o_id ob)))) by (apply cache_delete_Step; assumption).
      assert (C1 : CLs (fst (cache_delete s (o_id ob)))) by (eapply CLs_fr; [apply S1 | exact C]).
      destruct (q_create q).
      + rewrite create_session_ff by (eapply inv_ffnd; exact I1). intro E. injection E as <- <- _.
        destruct (created_Step _ _ _ _ q I1 (proj1 S1) C1) as [A B].
        split; [eapply Step_trans; eassumption | apply HPf_false in B; exact B].
      + intro E. injection E as <- <- _. split; [exact S1 | exact Logic.I].
  Qed.

  Lemma start_Step b base D s q s' res cks :
    inv b base NX D s -> G P K s -> CLs s -> (forall k, q_cookie q = CKey k -> ~ K k) ->
    start s q = (s', res, cks) -> Step s s' /\ res_HP s' res.
  Proof.
    intros I HG C Hq. rewrite start_eq. destruct (q_cookie q) as [|k|n] eqn:Eq;
      try (apply (start_none_Step _ _ _ _ _ _ _ _ _ I HG C)).
    destruct (cache_get_inv _ _ _ _ _ k I) as (s1 & r & E & I1 & Hr). rewrite E.
    destruct (cache_get_Step _ _ _ _ _ _ _ I HG C E) as [S1 Hr2].
    assert (C1 : CLs s1) by (eapply CLs_fr; [apply S1 | exact C]).
    destruct r as [o|].
    - destruct Hr as [Hbo [ob (Ho & _ & HnD & _)]]. rewrite Ho. destruct Hr2 as [ob2 (Ho2 & Hid2 & HP2)].
      rewrite Ho in Ho2. injection Ho2 as <-. intro E2.
      assert (HPo : P (o_id ob) (o_rec ob)) by (rewrite Hid2; exact HP2).
      assert (HnKk : ~ K k) by (apply Hq; reflexivity).
      assert (HnKo : ~ K (o_id ob)) by (rewrite Hid2; exact HnKk).
      destruct (start_found_Step _ _ _ _ _ _ _ _ _ _ _ _ _ I1 Ho Hbo HnD (proj1 S1) C1 HPo HnKk HnKo E2) as [S2 Hres].
      split; [eapply Step_trans; eassumption | exact Hres].
    - intro E2. destruct (start_none_Step _ _ _ _ _ _ _ _ _ I1 (proj1 S1) C1 E2) as [S2 Hres].
      split; [eapply Step_trans; eassumption | exact Hres].
  Qed.
End Api.
