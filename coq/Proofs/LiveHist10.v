(* C03 at the history level, part 10 (audit finding 6): the client that holds an
   ID is served ITS OWN session, not merely "a session".

   C03H_live concluded ob_res = RSess, which a request with createIfNew also
   gets when its session was destroyed for staleness and replaced by a fresh
   one. Here the conclusion about each request of the client is served_own:

     - Start returned a session and NO deletion cookie is among the Set-Cookie
       headers of the response (Start's invalid branch and its miss branch send
       one before anything else);
     - the record the client's ID resolved to before the step (cached object,
       else stored record) is a session's, not idle for SessionExpiry and not
       Expired(); the session Start returned carries its data and its user, is
       not a replaced-ID record, has access time now, and its ID is the
       client's ID or the ID drawn for it in this step (rotation);
       if the ID was cached, Start returned that very object (own_same_object);
     - at the end of the step the handler's session is the one the jar's ID
       names, it is not a replaced-ID record, and the store was not asked to
       delete that ID at any point of the step (nor, along the step, the ID the
       session had at that moment: Dok below).

   Built on owns_own/own_finish (LiveHist5/6.v) for "served" and on the
   no-deletion frames of LiveHist9.v. *)
From Sessions Require Import Model.Base Model.Sess Model.Hist Proofs.SessDefs
  Proofs.HistInv Proofs.HistInv2 Proofs.HistInv3
  Proofs.LiveHist Proofs.LiveHist2 Proofs.LiveHist3 Proofs.LiveHist4 Proofs.LiveHist5 Proofs.LiveHist6
  Proofs.LiveHist9.
From Sessions Require Proofs.StartLaws Proofs.StartLaws2 Proofs.StartLaws4 Proofs.RotateLaws2 Proofs.RotateLaws3
  Proofs.DeadLaws Proofs.CrashFault8.
From Coq Require Import Lia.

(* every deletion logged so far is of a drawn ID other than cur *)
Definition Dok (s : st) (cur : key) : Prop :=
  forall kk b, In (EvDelete kk b) (evs s) -> kk <> cur /\ kd (supply s) kk.

Lemma Dok_nds s s' cur : nds s s' -> Dok s cur -> Dok s' cur.
Proof.
  intros N D kk b Hin. destruct (D kk b (nds_dels _ _ _ _ N Hin)) as [A B]. split; [exact A|].
  eapply kd_mono; [apply N | exact B].
Qed.

(* an ID not drawn yet is none of them *)
Lemma Dok_fresh s cur n : Dok s cur -> (supply s <= n)%N -> Dok s (KGen n).
Proof. intros D Hn kk b Hin. destruct (D kk b Hin) as [_ B]. split; [|exact B]. intros ->. simpl in B. lia. Qed.

Lemma Dok_fire_due base s cur : inv 0 base NX ND s -> Dok s cur ->
  (forall d k, In (d, k) (pending s) -> k <> cur) -> Dok (fire_due s) cur.
Proof.
  intros I D Hp kk b Hin. destruct (fire_due_dels s) as (es & E & F & Hs). rewrite Hs. rewrite E in Hin.
  apply in_app_iff in Hin. destruct Hin as [Hin|Hin]; [|exact (D kk b Hin)].
  rewrite Forall_forall in F. destruct (F _ Hin) as [d Hd]. split; [exact (Hp d kk Hd) | exact (i_fp _ _ _ _ _ I d kk Hd)].
Qed.

Lemma is_destroy_ne op : is_destroy op = false -> op <> SDestroy.
Proof. intros H ->. discriminate H. Qed.

(* the script: no deletion cookie; the handler's current ID is never deleted *)
Lemma own_script_dels j base hc : forall ops s o,
  inv 0 base NX ND s -> hok 0 ND s o -> c_json (conf s) = j -> OwnH j s o -> existsb is_destroy ops = false ->
  forall s' rs cks, run_script s o hc ops = (s', rs, cks) ->
  forall ob, hget s o = Some ob -> Dok s (o_id ob) ->
  ~ In CkDelete cks /\ exists ob', hget s' o = Some ob' /\ Dok s' (o_id ob').
Proof.
  induction ops as [|op t IH]; intros s o I H Hj HO Hnd s' rs cks; cbn [run_script].
  - intro E. injection E as <- <- <-. intros ob Ho D. split; [intros []|]. exists ob. split; assumption.
  - cbn [existsb] in Hnd. apply orb_false_iff in Hnd. destruct Hnd as [Hnd1 Hndt].
    destruct (own_sop j base s o hc op I H Hj HO Hnd1) as (s1 & r & ck1 & ob & ob1 & E1 & Ho & Ho1 & Hck & I1 & H1 & F1 & HO1).
    destruct (do_sop_nds s o hc op (is_destroy_ne op Hnd1)) as [N1 Hsh]. rewrite E1 in N1, Hsh. cbn [fst snd] in N1, Hsh.
    rewrite E1.
    destruct (fire_due_inv _ _ _ _ I1) as (I2 & Hh & _).
    assert (H2 : hok 0 ND (fire_due s1) o) by (eapply hok_ids; [apply ids_pres_heap; exact Hh | exact H1]).
    pose proof (OwnH_fire_due j base s1 o I1 HO1) as HO2.
    destruct (fire_due_Step PT KE _ _ _ _ I1 (G_T s1)) as (_ & _ & F2).
    assert (Ho2 : hget (fire_due s1) o = Some ob1) by (unfold hget; rewrite Hh; exact Ho1).
    assert (Hj2 : c_json (conf (fire_due s1)) = j).
    { destruct F2 as (-> & _). destruct F1 as (-> & _). exact Hj. }
    assert (Hnck : ~ In CkDelete ck1).
    { destruct Hsh as [->|(n & _ & ->)]; [intros [] | intros [X|[]]; discriminate X]. }
    assert (Dstep : forall ob0, hget s o = Some ob0 -> Dok s (o_id ob0) -> Dok (fire_due s1) (o_id ob1)).
    { intros ob0 Ho0 D. rewrite Ho in Ho0. injection Ho0 as <-.
      assert (D1 : Dok s1 (o_id ob1)).
      { destruct Hsh as [->|(n & Hn & ->)]; cbn in Hck; injection Hck as Hck; rewrite <- Hck.
        - eapply Dok_nds; eassumption.
        - eapply Dok_nds; [exact N1|]. eapply Dok_fresh; eassumption. }
      eapply Dok_fire_due; [exact I1 | exact D1|].
      destruct HO1 as (obx & Hox & _ & _ & HG). rewrite Ho1 in Hox. injection Hox as <-.
      intros d k Hin E. apply (g_p _ _ _ HG d k Hin). split; [reflexivity | exact E]. }
    match goal with |- context [if ?c then _ else _] => destruct c end.
    + intro E. injection E as <- <- <-. intros ob0 Ho0 D. split; [exact Hnck|]. exists ob1. split; [exact Ho2 | eapply Dstep; eassumption].
    + destruct (run_script (fire_due s1) o hc t) as [[s3 rs3] ck3] eqn:E3.
      intro E. injection E as <- <- <-. intros ob0 Ho0 D.
      destruct (IH (fire_due s1) o I2 H2 Hj2 HO2 Hndt _ _ _ E3 ob1 Ho2 (Dstep ob0 Ho0 D)) as (Hn3 & ob3 & Ho3 & D3).
      split; [|exists ob3; split; assumption].
      intro Hin. apply in_app_iff in Hin. destruct Hin; contradiction.
Qed.

(* ------------------------------------------- what Start hands the client *)

(* own_start, the observable side: the object Start returns carries the data
   and user of the record the presented ID resolved to; the response has no
   cookie (ID kept) or exactly the live cookie of the fresh ID (rotation) *)
Lemma own_start_shape j base s q k a r0 :
  inv 0 base NX ND s -> c_json (conf s) = j -> q_cookie q = CKey k ->
  G (Pk true j k a) (Kk true k) s -> L s k = Some r0 ->
  (0 <= c_grace (conf s))%Z -> (c_idexpiry (conf s) <= max64)%Z ->
  (now s - a < c_expiry (conf s))%Z -> (a <= fl j (now s))%Z ->
  ip_ok (c_acceptip (conf s)) (r_ip r0) (q_addr q) = true -> ua_ok (c_acceptua (conf s)) (r_ua r0) (q_ua q) = true ->
  exists s2 o ck id rc,
    start s q = (s2, Ok (Some o), ck) /\ hget s2 o = Some (mkObj id rc) /\
    (ck = [] /\ id = k \/ ck = [CkLive (KGen (supply s))] /\ id = KGen (supply s)) /\
    r_ref rc = None /\ r_data rc = r_data r0 /\ r_user rc = r_user r0 /\ r_access rc = now s /\
    r_ref r0 = None /\ StartLaws.stale (conf s) r0 (now s) = false /\ expired (conf s) r0 (now s) = false.
Proof.
  intros I Hj Hq HG HL Hgr Hid Hgap Ha Hip Hua.
  destruct (inv_sess_inv _ _ I) as (Hp & Hc & Hn & Hf).
  destruct (G_L HG HL eq_refl) as [Hr Hlb]. specialize (Hr eq_refl).
  assert (Hst : (c_expiry (conf s) <=? since (r_access r0) (now s))%Z = false) by exact (not_stale _ _ _ _ _ Hlb Ha Hgap).
  assert (Hval : RotateLaws3.valid_for (conf s) r0 (now s) q = true).
  { unfold RotateLaws3.valid_for. rewrite Hst, Hip, Hua. reflexivity. }
  assert (Hexp : expired (conf s) r0 (now s) = false) by (unfold expired; rewrite Hr, Hst; reflexivity).
  destruct (Z_lt_le_dec (since (r_created r0) (now s)) (c_idexpiry (conf s))) as [Hage|Hage].
  - destruct (RotateLaws3.start_keep s q k r0 Hp Hc Hn Hf (conj Hgr Hid) Hq HL Hr Hval Hage) as (s2 & o & Hs & _ & _ & Hg & _).
    eexists s2, o, [], k, _. split; [exact Hs|]. split; [exact Hg|]. split; [left; split; reflexivity|].
    cbn. repeat split; assumption.
  - pose proof (RotateLaws3.start_rotate s q k r0 Hp Hc Hn Hf Hq HL Hr Hval Hage) as H. cbv zeta in H.
    destruct H as (s2 & o & Hs & _ & _ & Hg & _).
    eexists s2, o, _, _, _. split; [exact Hs|]. split; [exact Hg|]. split; [right; split; reflexivity|].
    cbn. repeat split; assumption.
Qed.

(* if the presented ID is cached, the object Start returns is the cached one *)
Lemma start_same_object s q k o0 s' o cks :
  q_cookie q = CKey k -> lookup (cache s) k = Some o0 ->
  start s q = (s', Ok (Some o), cks) -> ~ In CkDelete cks ->
  (forall ob, hget s o0 = Some ob -> r_ref (o_rec ob) = None) -> o = o0.
Proof.
  intros Hq Hl E Hnd Hrf. rewrite CrashFault8.start_unfold, Hq in E. unfold cache_get in E. rewrite Hl in E.
  unfold CrashFault8.start_found in E. destruct (hget s o0) as [ob|] eqn:Ho; [|discriminate].
  assert (Hir : CrashFault8.is_ref (o_rec ob) = false) by (unfold CrashFault8.is_ref; rewrite (Hrf ob eq_refl); reflexivity).
  assert (Hfin : forall s1 cks1, CrashFault8.start_finish s1 q k o0 false cks1 = (s', Ok (Some o), cks) -> o = o0).
  { intros s1 cks1 E1. unfold CrashFault8.start_finish in E1. injection E1 as _ E1 _. congruence. }
  destruct (negb (CrashFault8.rec_valid (conf s) (o_rec ob) q (now s))).
  { exfalso. unfold destroy in E. rewrite Ho in E.
    destruct (cache_delete s (o_id ob)) as [s2 ok]. destruct ok; cbn [negb] in E; [|discriminate].
    unfold CrashFault8.start_none in E. destruct (q_create q); [|discriminate].
    destruct (create_session s2 q) as [[s3 r3] nck]. injection E as _ _ <-. apply Hnd. left. reflexivity. }
  rewrite Hir in E. destruct (_ && _).
  - destruct (regenerate s o0) as [[s2 res] rck]. destruct res as [[]|e|e]; try discriminate. eapply Hfin; exact E.
  - destruct (_ <=? _)%Z; [destruct (cache_delete s k) as [s2 ok]; discriminate | eapply Hfin; exact E].
Qed.

(* ----------------------------------------------- the client's request *)

(* what the observation of an own request says beyond "a session was returned" *)
Definition served_own (c : N) (w : world) (r : reqstep) : Prop :=
  let ob := snd (step w (HReq r)) in
  ob_res ob = RSess /\
  ~ In CkDelete (ob_cookies ob) /\
  (forall k r0, jar_of (w_jars w) c = CKey k -> L (w_st w) k = Some r0 ->
     r_ref r0 = None /\ StartLaws.stale (conf (w_st w)) r0 (now (w_st w)) = false /\
     expired (conf (w_st w)) r0 (now (w_st w)) = false /\
     exists id rc, ob_start ob = Some (id, rc) /\ (id = k \/ id = KGen (supply (w_st w))) /\
       r_ref rc = None /\ r_data rc = r_data r0 /\ r_user rc = r_user r0 /\ r_access rc = now (w_st w)) /\
  exists k' rf, ob_jar ob = CKey k' /\ ob_final ob = Some (k', rf) /\ r_ref rf = None /\
    (forall b, ~ In (EvDelete k' b) (ob_evs ob)) /\
    exists r', L (w_st (fst (step w (HReq r)))) k' = Some r' /\ r_ref r' = None.

(* the part after Start, observed *)
Lemma own_finish_obs j c w r s2 o ck ob2 :
  W j w -> rq_client r = c -> rq_present r = PJar -> rq_plan r = [] -> rq_crash r = None ->
  existsb is_destroy (rq_script r) = false ->
  start (req_s1 w r) (req_q w r) = (s2, Ok (Some o), ck) -> hget s2 o = Some ob2 ->
  r_ref (o_rec ob2) = None -> r_access (o_rec ob2) = now (w_st w) ->
  apply_cookies (jar_of (w_jars w) c) ck = CKey (o_id ob2) ->
  G (Pk true j (o_id ob2) (fl j (now (w_st w)))) (Kk true (o_id ob2)) s2 ->
  ~ In CkDelete ck ->
  ~ In CkDelete (ob_cookies (snd (step w (HReq r)))) /\
  ob_start (snd (step w (HReq r))) = Some (o_id ob2, o_rec ob2) /\
  exists k' rf, ob_jar (snd (step w (HReq r))) = CKey k' /\ ob_final (snd (step w (HReq r))) = Some (k', rf) /\
    r_ref rf = None /\ forall b, ~ In (EvDelete k' b) (ob_evs (snd (step w (HReq r)))).
Proof.
  intros Hw Hcl Hpj Hpl Hcr Hscr Est Ho2 Hr2 Hac2 Hck G2 Hnd.
  pose proof Hw as (Wi & Hj & HU). set (s := w_st w) in *.
  pose proof (inv_of_winv 0 ND s (rq_tb r) Wi : inv 0 (supply s, []) NX ND (req_s1 w r)) as I1.
  destruct (start_inv _ _ _ _ (req_q w r) I1) as (s2' & res & cks0 & E0 & I2 & Hres & _).
  rewrite Est in E0. injection E0 as <- <- <-. cbn [res_ok] in Hres.
  pose proof (start_fr _ _ _ _ _ _ _ _ I1 Est) as (F1 & F2 & F3).
  change (now (req_s1 w r)) with (now s) in F2. change (conf (req_s1 w r)) with (conf s) in F1.
  destruct (fire_due_inv _ _ _ _ I2) as (I3 & Hh & _).
  assert (H3 : hok 0 ND (fire_due s2) o) by (eapply hok_ids; [apply ids_pres_heap; exact Hh | exact Hres]).
  assert (HO2 : OwnH j s2 o).
  { exists ob2. split; [exact Ho2|]. split; [exact Hr2|]. rewrite F2, Hac2. split; [lia | exact G2]. }
  pose proof (OwnH_fire_due j _ s2 o I2 HO2) as HO3.
  destruct (fire_due_Step PT KE _ _ _ _ I2 (G_T s2)) as (_ & _ & F4 & F5 & F6).
  assert (Hj3 : c_json (conf (fire_due s2)) = j) by (rewrite F4, F1; exact Hj).
  (* no deletion up to the end of Start; the clean-ups do not touch the ID *)
  assert (D2 : Dok s2 (o_id ob2)).
  { pose proof (start_nds _ _ _ _ _ Est Hnd) as N. intros kk b Hin. exfalso.
    exact (nds_dels _ _ _ _ N Hin). }
  assert (D3 : Dok (fire_due s2) (o_id ob2)).
  { eapply Dok_fire_due; [exact I2 | exact D2|]. intros d k Hin E. apply (g_p _ _ _ G2 d k Hin). split; [reflexivity | exact E]. }
  assert (HoA' : hget (fire_due s2) o = Some ob2) by (unfold hget; rewrite Hh; exact Ho2).
  destruct (run_script (fire_due s2) o (had_cookie (req_q w r)) (rq_script r)) as [[s3 sr] cks'] eqn:Esc.
  destruct (own_script j _ _ (rq_script r) (fire_due s2) o I3 H3 Hj3 HO3 Hscr _ _ _ Esc)
    as (obA & obB & HoA & HoB & Hck2 & I4 & (F7 & F8 & F9) & HO4).
  rewrite HoA' in HoA. injection HoA as <-.
  destruct (own_script_dels j _ _ (rq_script r) (fire_due s2) o I3 H3 Hj3 HO3 Hscr _ _ _ Esc ob2 HoA' D3)
    as (Hnd' & obB' & HoB' & D4).
  rewrite HoB in HoB'. injection HoB' as <-.
  assert (Ebody : req_body (req_s1 w r) (req_q w r) (rq_script r) =
                  (s3, RSess, handle_view (fire_due s2) o, sr, handle_view s3 o, ck ++ cks')).
  { unfold req_body. rewrite Est. cbv zeta. rewrite Esc. reflexivity. }
  pose proof (step_req_calm _ _ _ _ _ _ _ _ Hpl Hcr Ebody) as Estep.
  assert (Hjar' : jar_after w r (ck ++ cks') = CKey (o_id obB)).
  { unfold jar_after. rewrite Hpj, Hcl, DeadLaws.apply_cookies_app, Hck. exact Hck2. }
  rewrite Estep. cbn [fst snd mk_obs ob_cookies ob_start ob_jar ob_final ob_evs].
  split; [intro Hin; apply in_app_iff in Hin; destruct Hin; contradiction|].
  split; [unfold handle_view; rewrite HoA'; reflexivity|].
  exists (o_id obB), (o_rec obB). split; [exact Hjar'|]. split; [unfold handle_view; rewrite HoB; reflexivity|].
  destruct HO4 as (obx & Hox & Hrx & _). rewrite HoB in Hox. injection Hox as <-. split; [exact Hrx|].
  intros b Hin. apply in_rev in Hin. change (evs (set_tb (set_plan s3 []) [])) with (evs s3) in Hin.
  destruct (D4 _ _ Hin) as [X _]. apply X. reflexivity.
Qed.

(* One request of the client that holds k: it is served its own session. *)
Theorem owns_own_served j c k tl w r :
  owns j c k (fl j tl) w ->
  rq_client r = c -> rq_present r = PJar -> rq_plan r = [] -> rq_crash r = None ->
  okreq j c tl w r ->
  served_own c w r.
Proof.
  intros Hown Hcl Hpj Hpl Hcr Hok.
  destruct (owns_own j c k tl w r Hown Hcl Hpj Hpl Hcr Hok) as (Hres & k1 & Hjar1 & Hown1 & r1 & HL1 & Hr1 & _).
  destruct Hown as (Hw & Hjar & HG & Ha). destruct Hok as [Hmx Hgr Hid Hgap Hpeer Hscr].
  pose proof Hw as (Wi & Hj & HU).
  pose proof (inv_of_winv 0 ND (w_st w) (rq_tb r) Wi : inv 0 (supply (w_st w), []) NX ND (req_s1 w r)) as I1.
  assert (Hq : q_cookie (req_q w r) = CKey k).
  { cbn [req_q q_cookie]. unfold pres. rewrite Hpj, Hcl. exact Hjar. }
  assert (G1 : G (Pk true j k (fl j tl)) (Kk true k) (req_s1 w r)) by (eapply G_same; [| | | |exact HG]; reflexivity).
  assert (Hgap' : (now (req_s1 w r) - fl j tl < c_expiry (conf (req_s1 w r)))%Z).
  { change (now (req_s1 w r)) with (now (w_st w)). change (conf (req_s1 w r)) with (conf (w_st w)).
    pose proof (fl_slack j tl). unfold slackj in Hgap. destruct j; lia. }
  destruct (own_start j _ (req_s1 w r) (req_q w r) k (fl j tl) I1 Hj Hq G1 Hmx Hgr Hid Hgap' Ha)
    as (s2 & o & ck & ob2 & Est & Ho2 & Hr2 & Hac2 & Hck & G2).
  { intros r0 HL0. apply (Hpeer k r0 Hjar). exact HL0. }
  assert (Hv : cache_valid (w_st w)) by (eapply winv_cache_valid; exact Wi).
  destruct (L (w_st w) k) as [r0|] eqn:HL;
    [|exfalso; apply (G_present _ _ _ _ Hv HG (conj eq_refl eq_refl)); exact HL].
  destruct (Hpeer k r0 Hjar HL) as [Hip Hua].
  destruct (own_start_shape j _ (req_s1 w r) (req_q w r) k (fl j tl) r0 I1 Hj Hq G1 HL Hgr Hid Hgap' Ha Hip Hua)
    as (s2' & o' & ck' & id & rc & Est' & Hg' & Hsh & Hrc & Hdat & Husr & Hacc & Hr0 & Hst0 & Hex0).
  rewrite Est in Est'. injection Est' as <- <- <-. rewrite Ho2 in Hg'. injection Hg' as ->.
  assert (Hnd : ~ In CkDelete ck).
  { destruct Hsh as [[-> _]|[-> _]]; [intros [] | intros [X|[]]; discriminate X]. }
  destruct (own_finish_obs j c w r s2 o ck _ Hw Hcl Hpj Hpl Hcr Hscr Est Ho2 Hr2 Hac2) as (A & B & k' & rf & C1 & C2 & C3 & C4);
    [rewrite Hjar; exact Hck | exact G2 | exact Hnd |].
  unfold served_own. cbv zeta. split; [exact Hres|]. split; [exact A|]. split.
  - intros k0 r0' Hjar0 HL0. rewrite Hjar in Hjar0. injection Hjar0 as <-. rewrite HL in HL0. injection HL0 as <-.
    split; [exact Hr0|]. split; [exact Hst0|]. split; [exact Hex0|].
    exists id, rc. split; [exact B|]. cbn [o_id o_rec] in *.
    split; [destruct Hsh as [[_ ->]|[_ ->]]; [left | right]; reflexivity|].
    repeat split; assumption.
  - exists k', rf. split; [exact C1|]. split; [exact C2|]. split; [exact C3|]. split; [exact C4|].
    rewrite Hjar1 in C1. injection C1 as <-. exists r1. split; assumption.
Qed.

(* with the ID cached, Start hands back the very object the cache held *)
Theorem own_same_object j c k tl w r o0 :
  owns j c k (fl j tl) w ->
  rq_client r = c -> rq_present r = PJar -> okreq j c tl w r ->
  lookup (cache (w_st w)) k = Some o0 ->
  exists s2 ck, start (req_s1 w r) (req_q w r) = (s2, Ok (Some o0), ck) /\ ~ In CkDelete ck.
Proof.
  intros Hown Hcl Hpj Hok Hl0.
  destruct (owns_L _ _ _ _ _ Hown) as (r0 & HL & Hrf & _).
  destruct Hown as (Hw & Hjar & HG & Ha). destruct Hok as [Hmx Hgr Hid Hgap Hpeer Hscr].
  pose proof Hw as (Wi & Hj & HU).
  pose proof (inv_of_winv 0 ND (w_st w) (rq_tb r) Wi : inv 0 (supply (w_st w), []) NX ND (req_s1 w r)) as I1.
  assert (Hq : q_cookie (req_q w r) = CKey k).
  { cbn [req_q q_cookie]. unfold pres. rewrite Hpj, Hcl. exact Hjar. }
  assert (G1 : G (Pk true j k (fl j tl)) (Kk true k) (req_s1 w r)) by (eapply G_same; [| | | |exact HG]; reflexivity).
  assert (Hgap' : (now (req_s1 w r) - fl j tl < c_expiry (conf (req_s1 w r)))%Z).
  { change (now (req_s1 w r)) with (now (w_st w)). change (conf (req_s1 w r)) with (conf (w_st w)).
    pose proof (fl_slack j tl). unfold slackj in Hgap. destruct j; lia. }
  destruct (Hpeer k r0 Hjar HL) as [Hip Hua].
  destruct (own_start_shape j _ (req_s1 w r) (req_q w r) k (fl j tl) r0 I1 Hj Hq G1 HL Hgr Hid Hgap' Ha Hip Hua)
    as (s2 & o & ck & id & rc & Est & _ & Hsh & _).
  assert (Hnd : ~ In CkDelete ck).
  { destruct Hsh as [[-> _]|[-> _]]; [intros [] | intros [X|[]]; discriminate X]. }
  assert (o = o0).
  { eapply (start_same_object (req_s1 w r) (req_q w r) k o0); [exact Hq | exact Hl0 | exact Est | exact Hnd|].
    intros ob Hob. unfold L in HL. change (cache (req_s1 w r)) with (cache (w_st w)) in *.
    rewrite Hl0 in HL. change (hget (req_s1 w r) o0) with (hget (w_st w) o0) in Hob. rewrite Hob in HL.
    injection HL as <-. exact Hrf. }
  subst o. exists s2, ck. split; assumption.
Qed.

(* The request that creates the client's session: no deletion cookie, and the
   new ID is not deleted in the step. *)
Theorem owns_create_served j c w r :
  W j w -> rq_client r = c -> rq_present r = PJar -> rq_plan r = [] -> rq_crash r = None ->
  (forall k, jar_of (w_jars w) c <> CKey k) -> rq_create r = true ->
  existsb is_destroy (rq_script r) = false ->
  served_own c w r.
Proof.
  intros Hw Hcl Hpj Hpl Hcr Hjar Hcreate Hscr.
  destruct (owns_create j c w r Hw Hcl Hpj Hpl Hcr Hjar Hcreate Hscr) as (Hres & k1 & Hjar1 & Hown1 & r1 & HL1 & Hr1 & _).
  pose proof Hw as (Wi & Hj & HU).
  pose proof (inv_of_winv 0 ND (w_st w) (rq_tb r) Wi : inv 0 (supply (w_st w), []) NX ND (req_s1 w r)) as I1.
  destruct (own_create j _ (req_s1 w r) (req_q w r) I1 Hj) as (s2 & o & ck & ob2 & Est & Ho2 & Hr2 & Hac2 & Hck & G2).
  { cbn [req_q q_cookie]. unfold pres. rewrite Hpj, Hcl. exact Hjar. }
  { exact Hcreate. }
  assert (Hnd : ~ In CkDelete ck).
  { intro Hin. pose proof (Hck CNone) as H1. pose proof (Hck (CKey (KJunk 0))) as H2.
    (* a deletion cookie cannot be followed to the same jar from both *)
    rewrite CrashFault8.start_unfold in Est. unfold req_q at 1 in Est. cbn [q_cookie] in Est.
    unfold pres in Est. rewrite Hpj, Hcl in Est.
    destruct (jar_of (w_jars w) c) as [|k0|n0] eqn:Ej; [|exfalso; exact (Hjar k0 eq_refl)|];
      (destruct (start_none_nds (req_s1 w r) (req_q w r) []) as [_ X]; rewrite Est in X; exact (X _ Hin eq_refl)). }
  destruct (own_finish_obs j c w r s2 o ck ob2 Hw Hcl Hpj Hpl Hcr Hscr Est Ho2 Hr2 Hac2 (Hck _) G2 Hnd)
    as (A & B & k' & rf & C1 & C2 & C3 & C4).
  unfold served_own. cbv zeta. split; [exact Hres|]. split; [exact A|]. split.
  - intros k0 r0 Hjar0. exfalso. exact (Hjar k0 Hjar0).
  - exists k', rf. split; [exact C1|]. split; [exact C2|]. split; [exact C3|]. split; [exact C4|].
    rewrite Hjar1 in C1. injection C1 as <-. exists r1. split; assumption.
Qed.

(* ------------------------------------------------------------ along a run *)

Fixpoint all_own (c : N) (w : world) (hs : list hop) : Prop :=
  match hs with
  | [] => True
  | h :: t => match h with
              | HReq r => is_own c h = true -> served_own c w r
              | _ => True
              end /\ all_own c (fst (step w h)) t
  end.

Lemma all_own_served c : forall hs w, all_own c w hs -> all_served c w hs.
Proof.
  induction hs as [|h t IH]; intros w H; cbn [all_own all_served] in *; [exact I|].
  destruct H as [H1 H2]. split; [|apply IH; exact H2].
  destruct h; try discriminate. intro Ho. apply (H1 Ho).
Qed.

Theorem live_run_own j c : forall hs k tl w,
  owns j c k (fl j tl) w -> live_run j c tl w hs -> all_own c w hs.
Proof.
  induction hs as [|h t IH]; intros k tl w Ho Hl; cbn [live_run all_own] in *; [exact I|].
  destruct Hl as [Hc Hl]. destruct (is_own c h) eqn:Eown.
  - destruct Hl as [Hok Hl]. destruct h as [r| | | | | | |]; try discriminate.
    cbn [is_own] in Eown. apply andb_true_iff in Eown. destruct Eown as [E1 E2].
    apply N.eqb_eq in E1. destruct (rq_present r) eqn:Epj; [|discriminate]. destruct Hc as [Hpl Hcr].
    destruct (owns_own j c k tl w r Ho E1 Epj Hpl Hcr Hok) as (_ & k' & _ & Ho' & _).
    split; [intros _; eapply owns_own_served; eassumption|]. eapply IH; eassumption.
  - destruct Hl as [Hresp Hl]. split; [destruct h; try exact I; discriminate|].
    eapply (IH k tl); [|exact Hl]. apply owns_foreign; try assumption.
    apply Hresp. apply Ho.
Qed.
