(* B2 (C05): the hooks of Model/StartSteps.v stand where the source has its
   cache operations. Read off the tables the translator regenerates from
   session.go on every run (Gen/LockPos.v: the statements of Start that touch
   the session table, in source order; Gen/SessShape.v: the conditions of
   RegenerateID and Destroy): Start calls, in this order in the source,
   sessions.Get(id), session.Destroy, session.RegenerateID, sessions.Delete(id),
   sessions.Get(currentID) (in the reference loop) and sessions.Set(session);
   RegenerateID makes two sessions.Set, Destroy one sessions.Delete. These are
   the places after which start_body / regenerate_h / destroy_h / follow_h /
   create_session_h apply the hook. A cache operation added to or removed from
   Start, RegenerateID or Destroy breaks one of these equations. *)
From Coq Require Import List String Bool.
From Sessions Require Import Gen.LockPos Gen.SessShape Proofs.ShapePinned.
Import ListNotations.
Local Open Scope string_scope.

Definition is_cache_kind (k : string) : bool :=
  existsb (String.eqb k) ["get"; "destroy"; "regenerate"; "delete"; "set"].

(* (kind, argument) of the statements that are cache operations or contain them *)
Definition cache_ops_of (evs : list (nat * nat * string * string)) : list (string * string) :=
  map (fun e => (snd (fst e), snd e)) (filter (fun e => is_cache_kind (snd (fst e))) evs).

Fixpoint conds_of (f : string) (tbl : list (string * list string)) : list string :=
  match tbl with
  | [] => []
  | (g, cs) :: t => if String.eqb f g then cs else conds_of f t
  end.

Fixpoint mentions (sub s : string) : bool :=
  match s with
  | EmptyString => prefix sub s
  | String _ t => prefix sub s || mentions sub t
  end.

(* the conditions of f that call a method of the session table *)
Definition table_calls (f : string) : list string :=
  filter (mentions "sessions.") (conds_of f sess_conditions).

Lemma start_cache_ops_pinned :
  cache_ops_of (events_of "Start" lock_events) =
  [("get", "id"); ("destroy", "session"); ("regenerate", "session"); ("delete", "id");
   ("get", "currentID"); ("set", "session")].
Proof. vm_compute. reflexivity. Qed.

Lemma regenerate_cache_ops_pinned :
  table_calls "Session.RegenerateID" =
  ["if err = sessions.Set(s); err != nil"; "if err = sessions.Set(refSession); err != nil"].
Proof. vm_compute. reflexivity. Qed.

Lemma destroy_cache_ops_pinned :
  table_calls "Session.Destroy" = ["if err := sessions.Delete(id); err != nil"].
Proof. vm_compute. reflexivity. Qed.
