(* C11_ack for Session.GetAndDelete (after the repair of D6 it makes one direct
   save when it finds the key). The function has no error result: the value is
   returned whether or not the save succeeded. What holds for every fault plan:
   the key is deleted in memory, and the deletion is in the store unless that
   one save failed (ack_getdel_partial). What does not hold: "a GetAndDelete
   that returned a value has written the session through" — refuted by a
   reachable state and the fault plan that fails the next persistence call
   (the residual, narrower finding D6b). *)
From Sessions Require Import Model.Base Model.Sess Model.Hist Proofs.SessDefs Proofs.CrashFault
  Proofs.CrashFault2 Proofs.CrashFault9 Proofs.CrashFault11.

(* the acknowledgement property as C11_ack_set / C11_ack_del state it, for GetAndDelete *)
Definition ack_getdel_statement : Prop :=
  forall s o hc k v s' cks,
    do_sop s o hc (SGetDel k) = (s', SVal (Some v), cks) -> written s' o.

Theorem ack_getdel_partial s o hc k v s' cks :
  do_sop s o hc (SGetDel k) = (s', SVal (Some v), cks) ->
  (exists d, data_of s o = Some d /\ kv_get d k = Some v /\ data_of s' o = Some (kv_del d k)) /\
  (written s' o \/
   exists ob r, hget s o = Some ob /\ evs s' = EvSave (o_id ob) r false :: evs s /\ store s' = store s).
Proof.
  cbn [do_sop]. destruct (data_of s o) as [d|] eqn:Ed; [|discriminate].
  destruct (kv_get d k) as [v0|] eqn:Ek; [|discriminate].
  destruct (save_direct _ o) as [s1 r1] eqn:ES. intro H. injection H as <- <- _.
  unfold data_of in Ed. destruct (hget s o) as [ob|] eqn:Ho; [|discriminate].
  pose proof (hget_Some_lt _ _ _ Ho) as Hlt.
  assert (Ho1 : hget (hupd s o (fun r => set_data r (Some (kv_del d k)))) o =
                Some (mkObj (o_id ob) (set_data (o_rec ob) (Some (kv_del d k)))))
    by (rewrite (hupd_spec _ _ _ _ Ho); apply hget_hput_same; exact Hlt).
  assert (Hh : heap s1 = heap (hupd s o (fun r => set_data r (Some (kv_del d k))))).
  { unfold save_direct in ES. rewrite Ho1 in ES.
    destruct (p_save _ _ _) as [s2 b] eqn:EP. apply p_save_spec in EP. destruct EP as ((Hh & _) & _).
    injection ES as <- _. exact Hh. }
  split.
  - exists d. split; [reflexivity|]. split; [exact Ek|].
    unfold data_of. rewrite (hget_eq _ _ _ Hh), Ho1. reflexivity.
  - destruct r1 as [[]|e|e].
    + left. apply (save_direct_ack _ _ _ ES).
    + right. unfold save_direct in ES. rewrite Ho1 in ES. cbn [o_id o_rec] in ES.
      destruct (p_save _ _ _) as [s2 b] eqn:EP. apply p_save_spec in EP.
      destruct EP as (_ & X & _ & Hst & _). destruct b; [discriminate|]. injection ES as <- _.
      exists ob. eexists. split; [reflexivity|]. split; [|rewrite Hst; rewrite (hupd_spec _ _ _ _ Ho); reflexivity].
      rewrite (x_evs _ _ _ X). rewrite (hupd_spec _ _ _ _ Ho). reflexivity.
    + exfalso. eapply (save_direct_nopanic _ o s1 (Panic e)); [|exact ES|reflexivity]. congruence.
Qed.

(* ---- the refutation ---- *)

Definition cfgF : cfg :=
  mkCfg 3600000000000 1800000000000 60000000000 600000000000 10 0 true false.
Definition rqF (scr : list sop) (pl : list bool) : reqstep :=
  mkReqStep 1 PJar true (V4 10 0 0 1 80) 7 scr [] pl None.

(* reachable: a client created a session and Set key 1 := 2 (written through);
   the next persistence call is going to fail *)
Definition stateF : st :=
  set_plan (w_st (fst (step (mkWorld (init_st cfgF) []) (HReq (rqF [SSet 1 2] []))))) [true].

Theorem getdel_unreported :
  exists s o hc k v s' ob r d,
    written s o /\ plan s = [true] /\
    do_sop s o hc (SGetDel k) = (s', SVal (Some v), []) /\
    (* its one save failed ... *)
    hd_error (evs s') = Some (EvSave (o_id ob) (codec (conf s) (o_rec ob)) false) /\
    (* ... the key is gone in memory, but the stored record still holds it *)
    hget s' o = Some ob /\ r_data (o_rec ob) = Some [] /\
    lookup (store s') (o_id ob) = Some r /\ r_data r = Some d /\ kv_get d k = Some v /\
    ~ written s' o.
Proof.
  exists stateF, 0%nat, true, 1%N, 2%N, (fst (fst (do_sop stateF 0 true (SGetDel 1)))),
    (mkObj (KGen 0) (mkRec 0 0 (V4 10 0 0 1 80) 7 None None (Some []))),
    (mkRec 0 0 (V4 10 0 0 1 80) 7 None None (Some [(1, 2)%N])), [(1, 2)%N].
  split; [eexists; split; vm_compute; reflexivity|].
  split; [reflexivity|]. split; [vm_compute; reflexivity|].
  split; [vm_compute; reflexivity|]. split; [vm_compute; reflexivity|]. split; [reflexivity|].
  split; [vm_compute; reflexivity|]. split; [reflexivity|]. split; [reflexivity|].
  intros (ob & Hg & Hl). vm_compute in Hg. injection Hg as <-. vm_compute in Hl. discriminate Hl.
Qed.

Theorem ack_getdel_refuted : ~ ack_getdel_statement.
Proof.
  intro H. destruct getdel_unreported as (s & o & hc & k & v & s' & ob & r & d & _ & _ & E & _ & _ & _ & _ & _ & _ & Hn).
  apply Hn. apply (H s o hc k v s' [] E).
Qed.

(* What a client sees: Set 1:=2; GetAndDelete 1 whose save fails — the value is
   returned, no error anywhere in the step; cache loss; Get 1: the value is back. *)
Definition histF : list hop :=
  [HReq (rqF [SSet 1 2] []); HReq (rqF [SGetDel 1] [true]); HDropCache; HReq (rqF [SGet 1] [])].

Theorem getdel_fault_value_returns :
  map ob_script (run cfgF histF) = [[SOk]; [SVal (Some 2%N)]; []; [SVal (Some 2%N)]] /\
  map ob_res (run cfgF histF) = [RSess; RSess; RVoid; RSess] /\
  (* the only failed persistence call of the history: the save of GetAndDelete *)
  map (fun o => filter (fun e => match e with EvSave _ _ false => true | _ => false end) (ob_evs o)) (run cfgF histF)
  = [[]; [EvSave (KGen 0) (mkRec 0 0 (V4 10 0 0 1 80) 7 None None (Some [])) false]; []; []].
Proof. vm_compute. repeat split. Qed.

(* with the same plan Delete reports the failure *)
Example del_fault_reported :
  map ob_script (run cfgF [HReq (rqF [SSet 1 2] []); HReq (rqF [SDel 1] [true])]) = [[SOk]; [SErr ESave]].
Proof. vm_compute. reflexivity. Qed.
