(* C13/C14 for timed runs (audit task A7), in the form stated in
   Properties/C13T.v and C14T.v: for every timed schedule from every initial
   state, with the time proviso `tadm_run` (holds are short at purge instants;
   no Unlock of a key held by somebody else) in place of `adm_run`. *)
From Sessions Require Import Model.Base Model.Mutex Model.MutexTimed Gen.MutexTbl Gen.MutexTime
  Proofs.MutexBasics Proofs.MutexSafety Proofs.MutexProgress Proofs.MutexIndep Proofs.MutexTheorems
  Proofs.MutexTimed.
From Coq Require Import Lia String.

Lemma erase_run_length stale evs : forall ts1 ts2,
  trun stale ts1 evs = Some ts2 -> List.length (erase_run stale ts1 evs) = List.length evs.
Proof.
  induction evs as [|ev evs IH]; intros ts1 ts2 H; simpl in *; [reflexivity|].
  destruct (tstep stale ts1 ev) as [ts3|]; [|discriminate]. f_equal. eapply IH; eauto.
Qed.

Lemma tstep_TL_enabled stale ts t l st' :
  (now ts <= t)%N -> (forall d, l <> LPurge d) -> step (ust ts) l = Some st' ->
  exists ts', tstep stale ts (t, TL l) = Some ts'.
Proof.
  intros Ht Hn Hs. unfold tstep. cbn [fst snd].
  destruct (N.ltb_spec t (now ts)) as [Hlt|_]; [lia|].
  destruct l; try (rewrite Hs; eexists; reflexivity). exfalso; eapply Hn; reflexivity.
Qed.

Section TimedFinal.
  Variables (stale : N) (scripts : list (list op)) (purges : nat) (t0 : N).
  Variables (evs : list tevent) (ts : tstate).
  Hypothesis Hrun : trun stale (tinit scripts purges t0) evs = Some ts.
  Hypothesis Hadm : tadm_run stale (tinit scripts purges t0) evs.

  (* the erased schedule is an admissible run of the untimed protocol *)
  Theorem c13t_transfer :
    run (init scripts purges) (erase_run stale (tinit scripts purges t0) evs) = Some (ust ts) /\
    adm_run (init scripts purges) (erase_run stale (tinit scripts purges t0) evs).
  Proof.
    split.
    - exact (trun_erases stale evs _ ts Hrun).
    - exact (trun_adm stale evs _ ts (tinv_init scripts purges t0) Hrun Hadm).
  Qed.

  Theorem c13t_exclusion k g1 g2 : holds (ust ts) g1 k -> holds (ust ts) g2 k -> g1 = g2.
  Proof. destruct c13t_transfer as [R A]. exact (c13_exclusion _ _ _ _ R A k g1 g2). Qed.

  Theorem c13t_count k :
    cH (ust ts) k <= 1 /\
    (forall c, mgr (ust ts) = MAcqSend c k \/ mgr (ust ts) = MRelSend c k -> cH (ust ts) k = 0).
  Proof. destruct c13t_transfer as [R A]. exact (c13_count _ _ _ _ R A k). Qed.

  Theorem c13t_tinv : TInv ts.
  Proof. exact (trun_tinv stale evs _ ts (tinv_init scripts purges t0) Hrun Hadm). Qed.

  (* lastAccess of the entry of a held key lies between the start of the
     holder's hold and the clock *)
  Theorem c13t_lastaccess_covers_hold g k v :
    holds (ust ts) g k -> mget (la ts) k = Some v -> (hstart ts g <= v <= now ts)%N.
  Proof.
    intros Hh Hv. split.
    - exact (ti_hold _ c13t_tinv _ _ _ Hh Hv).
    - exact (ti_la_now _ c13t_tinv _ _ Hv).
  Qed.

  (* a purge loop at an instant the proviso allows leaves every entry with a
     positive lock count - a held key's entry, with all its waiters, however
     long they have been queued - exactly as it was *)
  Theorem c13t_purge_keeps_locked t vis ts' :
    tstep stale ts (t, TPurge vis) = Some ts' -> hold_within stale ts t ->
    forall k, 0 < lk (ust ts) k ->
      tget (tbl (ust ts')) k = tget (tbl (ust ts)) k /\ mget (la ts') k = mget (la ts) k.
  Proof.
    intros Hs Hw k Hl.
    pose proof (tadm_adm stale ts (t, TPurge vis) ts' c13t_tinv Hs Hw) as Ha.
    destruct (tstep_TPurge _ _ _ _ _ Hs) as (_ & st' & Hst & ->). cbn [ust la].
    unfold erase in Ha; cbn [fst snd] in Ha. cbn [adm] in Ha. cbn [step] in Hst.
    destruct (mgr (ust ts)); try discriminate. injection Hst as <-.
    assert (E : tget (purge_tbl (purge_dels stale t (la ts) vis) (tbl (ust ts))) k = tget (tbl (ust ts)) k).
    { destruct (purge_spec _ (tbl (ust ts)) Ha k) as [H|[_ H]]; [exact H|]. unfold lk in Hl. lia. }
    split; [exact E|].
    rewrite mget_mkeep. unfold has_entry. cbn [tbl]. rewrite E.
    destruct (tget (tbl (ust ts)) k) as [e|] eqn:Ek; [reflexivity|].
    unfold lk, lkt in Hl. rewrite Ek in Hl. lia.
  Qed.

  (* ---- C14 for timed runs ---- *)

  Theorem c14t_no_deadlock :
    finished (ust ts) = false -> exists l st', step (ust ts) l = Some st' /\ adm (ust ts) l.
  Proof. destruct c13t_transfer as [R A]. exact (c14_no_deadlock _ _ _ _ R A). Qed.

  (* in timed terms: unless some hold is already older than `stale`, a timed
     event at the current instant is enabled and within the proviso *)
  Theorem c14t_timed_progress :
    finished (ust ts) = false -> hold_within stale ts (now ts) ->
    exists ev ts', fst ev = now ts /\ tstep stale ts ev = Some ts' /\ tadm stale ts ev.
  Proof.
    intros Hf Hw. destruct (c14t_no_deadlock Hf) as (l & st' & Hs & Ha).
    destruct l as [g|g|ov|g ov|g|g|g| |dels].
    9: { (* the purge loop, visiting the whole table *)
      set (vis := map (fun p : nat * entry => (fst p, false)) (tbl (ust ts))).
      assert (Hm : mgr (ust ts) = MPurge).
      { cbn [step] in Hs. destruct (mgr (ust ts)); try discriminate. reflexivity. }
      exists (now ts, TPurge vis). unfold tstep, tadm. cbn [fst snd].
      destruct (N.ltb_spec (now ts) (now ts)) as [Hlt|_]; [lia|].
      cbn [step]. rewrite Hm. eexists. split; [reflexivity|]. split; [reflexivity|exact Hw]. }
    all: match goal with
         | [ H : step _ ?l = Some _ |- _ ] =>
             destruct (tstep_TL_enabled stale ts (now ts) l st') as [ts' Hts];
               [lia | discriminate | exact H |];
               exists (now ts, TL l), ts'; split; [reflexivity|]; split; [exact Hts|];
               unfold tadm; cbn [fst snd no_spurious]; try exact Logic.I
         end.
    exact Ha.
  Qed.

  Theorem c14t_bounded : List.length evs <= measure (init scripts purges).
  Proof.
    destruct c13t_transfer as [R A]. pose proof (c14_bounded _ _ _ _ R A) as H.
    rewrite (erase_run_length _ _ _ _ Hrun) in H. exact H.
  Qed.

  Theorem c14t_maximal_finished :
    (forall l st', step (ust ts) l = Some st' -> ~ adm (ust ts) l) -> finished (ust ts) = true.
  Proof. destruct c13t_transfer as [R A]. exact (c14_maximal_finished _ _ _ _ R A). Qed.

  Theorem c14t_completes :
    exists ls' st', run (ust ts) ls' = Some st' /\ adm_run (ust ts) ls' /\ finished st' = true.
  Proof. destruct c13t_transfer as [R A]. exact (c14_completes _ _ _ _ R A). Qed.

  Theorem c14t_one_per_release tr st' k :
    atrace (ust ts) tr st' ->
    cnt (is_grant k) tr <= cnt (is_release k) tr + 1 /\
    (cnt (is_release k) tr = 0 -> cnt (is_grant k) tr <= 1).
  Proof. destruct c13t_transfer as [R A]. exact (c14_one_per_release _ _ _ _ R A tr st' k). Qed.

  Theorem c14t_hands_over k ov st1 :
    mgr (ust ts) = MRel k -> 0 < cA (ust ts) k -> step (ust ts) (LMgrGet ov) = Some st1 ->
    exists c, mgr st1 = MRelSend c k.
  Proof. destruct c13t_transfer as [R A]. exact (c14_hands_over _ _ _ _ R A k ov st1). Qed.
End TimedFinal.

(* under the stronger reading "every hold, up to the Unlock that ends it, lasts
   at most `stale`" *)
Theorem c13t_exclusion_short stale scripts purges t0 evs ts :
  trun stale (tinit scripts purges t0) evs = Some ts ->
  tshort_run stale (tinit scripts purges t0) evs ->
  forall k g1 g2, holds (ust ts) g1 k -> holds (ust ts) g2 k -> g1 = g2.
Proof.
  intros R S. eapply c13t_exclusion; [exact R|]. apply tshort_run_tadm. exact S.
Qed.

(* ---- the source forms the timed layer was written against ---- *)

Definition mutex_time_pinned_statement : Prop :=
  nth_error mtx_getitem_body 4 = Some "item.lastAccess = time.Now()"%string /\
  nth_error mtx_getitem_body 5 = Some "return item"%string /\ List.length mtx_getitem_body = 6 /\
  nth_error mtx_acquire_case 0 = Some "item := m.getItem(key)"%string /\
  nth_error mtx_release_case 0 = Some "item := m.getItem(key)"%string /\
  mtx_lock_body = ["m.acquire <- key"; "<-m.getItem(key).release"]%string /\
  mtx_unlock_body = ["m.release <- key"]%string /\
  mtx_acquire_case = ["item := m.getItem(key)"; "if item.locks == 0 { item.release <- struct{}{} }"; "item.locks++"]%string /\
  mtx_release_case = ["item := m.getItem(key)";
                      "if item.locks > 0 { item.locks-- if item.locks > 0 { item.release <- struct{}{} } }"]%string /\
  mtx_purge_cond = "time.Since(item.lastAccess) > mutexStaleMutexes || len(m.items) > mutexMaxCacheSize && item.locks == 0"%string /\
  mtx_purge_cond_shape = "[e || [e && e]]"%string /\
  mtx_funcs = [".newMutexes"; "mutexes.getItem"; "mutexes.Lock"; "mutexes.Unlock"]%string.

Theorem mutex_time_pinned : mutex_time_pinned_statement.
Proof. unfold mutex_time_pinned_statement. repeat split; reflexivity. Qed.

(* package-wide facts (Gen/MutexTime.v, translator/mutex_time.go): lastAccess of
   a lock item is written in exactly one place, getItem, from time.Now(), and
   read in exactly one place, the purge condition; the clock is consulted
   nowhere else in mutexes.go (time.Sleep is the ticker); getItem is called
   exactly by the acquire case, the release case and Lock; nothing outside
   mutexes.go mentions the item type, getItem, a field `.items` or the staleness
   tunable, which is compared only in the purge condition. (`stale` is a parameter of the timed
   model; its declared value is recorded, not used.) *)
Definition mutex_time_uses_pinned_statement : Prop :=
  mtt_lastaccess_uses = [".newMutexes: read: item.lastAccess";
                         "mutexes.getItem: write: item.lastAccess = time.Now()"]%string /\
  mtt_clock_calls = [".newMutexes: time.Since(item.lastAccess)"; ".newMutexes: time.Sleep(mutexCleanupFrequency)";
                     "mutexes.getItem: time.Now()"]%string /\
  mtt_stale_users = [".newMutexes"]%string /\
  mtt_stale_decl = "time.Hour"%string /\
  mtt_item_fields = ["locks int"; "lastAccess time.Time"; "release chan struct{}"]%string /\
  mtt_getitem_calls = ["mutexes.go: .newMutexes: item := m.getItem(key)";
                       "mutexes.go: .newMutexes: item := m.getItem(key)";
                       "mutexes.go: mutexes.Lock: <-m.getItem(key).release"]%string /\
  mtt_foreign_mentions = [].

Theorem mutex_time_uses_pinned : mutex_time_uses_pinned_statement.
Proof. unfold mutex_time_uses_pinned_statement. repeat split; reflexivity. Qed.
