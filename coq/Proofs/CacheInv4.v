(* C12, part 4: the remaining entry-point facts (Get's order/idle/flush; the
   statements for states with cache_ok, where access times of other entries are
   untouched by a write; "forever"), the bound as an invariant, and the lift to
   arbitrary sequences of cache operations. *)
From Sessions Require Import Model.Base Model.Sess Model.Hist Proofs.SessDefs
  Proofs.CacheInv Proofs.CacheInv2 Proofs.CacheInv3.
From Coq Require Import Lia.
Local Open Scope Z_scope.

Lemma In_upsert_inv {A} (l : list (key * A)) k v e : In e (upsert l k v) -> fst e <> k -> In e l.
Proof.
  intros He Hne. induction l as [|[k' v'] l IH]; simpl in He.
  - destruct He as [He|[]]. subst e. simpl in Hne. congruence.
  - destruct (key_eqb k k') eqn:E.
    + destruct He as [He|He]; [subst e; simpl in Hne; congruence | right; exact He].
    + destruct He as [He|He]; [left; exact He | right; apply IH; exact He].
Qed.

Lemma In_upsert_other {A} (l : list (key * A)) k v e : In e l -> fst e <> k -> In e (upsert l k v).
Proof.
  intros He Hne. induction l as [|[k' v'] l IH]; [contradiction|]. simpl.
  destruct (key_eqb k k') eqn:E.
  - apply key_eqb_eq in E. subst k'. destruct He as [He|He]; [subst e; simpl in Hne; congruence | right; exact He].
  - destruct He as [He|He]; [left; exact He | right; apply IH; exact He].
Qed.

Lemma filter_none {A} (f : A -> bool) l : (forall x, In x l -> f x = false) -> filter f l = [].
Proof.
  induction l as [|x l IH]; intro H; simpl; [reflexivity|].
  rewrite (H x (or_introl eq_refl)). apply IH. intros y Hy. apply H. right. exact Hy.
Qed.

Lemma filter_all {A} (f : A -> bool) l : (forall x, In x l -> f x = true) -> filter f l = l.
Proof.
  induction l as [|x l IH]; intro H; simpl; [reflexivity|].
  rewrite (H x (or_introl eq_refl)). f_equal. apply IH. intros y Hy. apply H. right. exact Hy.
Qed.

(* ------------------------------------------------------------------------ *)
(* compact: idle entries are gone; "forever" never sweeps *)

Lemma compact_idle_gone s r k o :
  cinv s -> lookup (cache s) k = Some o -> is_idle s (k, o) = true ->
  lookup (cache (compact s r)) k = None.
Proof.
  intros Hi Hk Hidle. destruct (lookup (cache (compact s r)) k) as [o'|] eqn:E; [|reflexivity].
  apply lookup_In in E. destruct (compact_survivor s r (k, o') Hi E) as [Hin Hn].
  destruct Hi as [_ [_ Hnd]]. rewrite (In_lookup _ _ _ Hnd Hin) in Hk. injection Hk as ->. congruence.
Qed.

Lemma is_idle_forever s e : c_cacheexpiry (conf s) = max64 -> is_idle s e = false.
Proof.
  intro H. unfold is_idle. rewrite H. apply Z.ltb_ge. unfold since, clamp64, max64, min64.
  destruct (Z.ltb_spec (now s - obj_access s (snd e)) (-9223372036854775808)); [lia|].
  destruct (Z.ltb_spec 9223372036854775807 (now s - obj_access s (snd e))); lia.
Qed.

Lemma sweep_forever s :
  cinv s -> c_cacheexpiry (conf s) = max64 -> cache (sweep_phase s) = cache s.
Proof.
  intros [Hp [Hl Hnd]] H. destruct (sweep_phase_spec s Hp Hl Hnd) as [D [_ [_ [Hc _]]]].
  rewrite Hc. apply filter_all. intros e _. rewrite is_idle_forever by exact H. reflexivity.
Qed.

(* an entry leaves the sweep only if its age exceeds the limit: spelled out *)
Lemma is_idle_iff s k o :
  is_idle s (k, o) = true <-> c_cacheexpiry (conf s) < since (obj_access s o) (now s).
Proof. unfold is_idle. cbn [snd]. apply Z.ltb_lt. Qed.

(* ------------------------------------------------------------------------ *)
(* Get that loads: order, idle, flush, in terms of the state before *)

Section GetFacts2.
  Variables (s : st) (k : key) (r : rec).
  Hypothesis Hi : cinv s.
  Hypothesis Hc : lookup (cache s) k = None.
  Hypothesis Hs : lookup (store s) k = Some r.
  Hypothesis Hmx : c_maxcache (conf s) <> 0.

  Lemma get_load_struct :
    exists s2, cinv s2 /\ cache s2 = cache s /\ store s2 = store s /\ conf s2 = conf s /\
      now s2 = now s /\ heap s2 = heap s ++ [mkObj k r] /\
      cache (fst (cache_get s k)) = upsert (cache (compact s2 1)) k (length (heap s)) /\
      store (fst (cache_get s k)) = store (compact s2 1).
  Proof.
    destruct Hi as [Hp _]. destruct (cache_get_load s k r Hp Hc Hs) as [s1 [He Hg]].
    destruct (same_but_evs_fields s s1 He) as [Hh [Hc1 [Hs1 [Hcf [_ [Hn _]]]]]].
    exists (get_mid s1 k r). split; [exact (get_mid_cinv s s1 k r Hi He)|].
    split; [exact Hc1|]. split; [exact Hs1|]. split; [exact Hcf|]. split; [exact Hn|].
    split; [cbn; rewrite Hh; reflexivity|].
    rewrite Hg. cbn [fst]. destruct (Z.eqb_spec (c_maxcache (conf s)) 0) as [E|_]; [contradiction|].
    split; reflexivity.
  Qed.

  Lemma ext_obj s2 v o' ob' :
    heap s2 = heap s ++ [v] -> hget s o' = Some ob' -> hget s2 o' = Some ob'.
  Proof.
    intros Hh Hob'. unfold hget. rewrite Hh. rewrite nth_error_app1; [exact Hob'|].
    exact (hget_Some_lt s o' ob' Hob').
  Qed.

  Lemma ext_idle s2 v e :
    heap s2 = heap s ++ [v] -> conf s2 = conf s -> now s2 = now s -> In e (cache s) ->
    is_idle s2 e = is_idle s e /\ obj_access s2 (snd e) = obj_access s (snd e).
  Proof.
    intros Hh Hcf Hn He. destruct Hi as [_ [Hl Hnd]]. destruct e as [k' o'].
    pose proof (In_lookup _ _ _ Hnd He) as Hk'. destruct (Hl k' o' Hk') as [ob' Hob'].
    assert (Ha : obj_access s2 o' = obj_access s o').
    { unfold obj_access. rewrite (ext_obj s2 v o' ob' Hh Hob'), Hob'. reflexivity. }
    split; [|exact Ha]. unfold is_idle. cbn [snd]. rewrite Hcf, Hn, Ha. reflexivity.
  Qed.

  (* another ID still cached afterwards was cached before and is not idle *)
  Lemma get_survivor e :
    In e (cache (fst (cache_get s k))) -> fst e <> k -> In e (cache s) /\ is_idle s e = false.
  Proof.
    intros He Hne. destruct get_load_struct as [s2 [Hi2 [Hc2 [_ [Hcf [Hn [Hh [Hcg _]]]]]]]].
    rewrite Hcg in He. apply In_upsert_inv in He; [|exact Hne].
    destruct (compact_survivor s2 1 e Hi2 He) as [H1 H2]. rewrite Hc2 in H1. split; [exact H1|].
    destruct (ext_idle s2 _ e Hh Hcf Hn H1) as [E _]. rewrite <- E. exact H2.
  Qed.

  (* ... and is no older than any ID that left *)
  Lemma get_lru k' o' e :
    lookup (cache s) k' = Some o' -> lookup (cache (fst (cache_get s k))) k' = None ->
    In e (cache (fst (cache_get s k))) -> fst e <> k ->
    obj_access s o' <= obj_access s (snd e).
  Proof.
    intros Hk' Hgone He Hne. destruct get_load_struct as [s2 [Hi2 [Hc2 [_ [Hcf [Hn [Hh [Hcg _]]]]]]]].
    assert (Hkk : k' <> k) by (intro E; subst; congruence).
    rewrite Hcg in Hgone, He. rewrite lookup_upsert_other in Hgone by exact Hkk.
    apply In_upsert_inv in He; [|exact Hne].
    destruct (compact_survivor s2 1 e Hi2 He) as [H1 _]. rewrite Hc2 in H1.
    destruct (ext_idle s2 _ e Hh Hcf Hn H1) as [_ Ea].
    destruct (ext_idle s2 _ (k', o') Hh Hcf Hn (lookup_In _ _ _ Hk')) as [_ Ea'].
    cbn [snd] in Ea'. rewrite <- Ea, <- Ea'. destruct Hi2 as [Hp2 [Hl2 Hnd2]].
    apply (compact_order s2 1 Hp2 Hl2 Hnd2 k' o'); [rewrite Hc2; exact Hk' | exact Hgone | exact He].
  Qed.

  (* C12_flush for Get *)
  Lemma get_flush k' o' ob' :
    lookup (cache s) k' = Some o' -> hget s o' = Some ob' ->
    lookup (cache (fst (cache_get s k))) k' = None ->
    lookup (store (fst (cache_get s k))) k' = Some (codec (conf s) (o_rec ob')).
  Proof.
    intros Hk' Hob' Hgone. destruct get_load_struct as [s2 [Hi2 [Hc2 [_ [Hcf [Hn [Hh [Hcg Hsg]]]]]]]].
    assert (Hkk : k' <> k) by (intro E; subst; congruence).
    rewrite Hcg in Hgone. rewrite lookup_upsert_other in Hgone by exact Hkk. rewrite Hsg, <- Hcf.
    apply (compact_flush s2 1 k' o' ob' Hi2); [rewrite Hc2; exact Hk' | | exact Hgone].
    exact (ext_obj s2 _ o' ob' Hh Hob').
  Qed.

  Lemma get_unbounded' :
    c_maxcache (conf s) < 0 ->
    cache (fst (cache_get s k)) =
    upsert (filter (fun e => negb (is_idle s e)) (cache s)) k (length (heap s)).
  Proof.
    intro Hneg. destruct get_load_struct as [s2 [Hi2 [Hc2 [_ [Hcf [Hn [Hh [Hcg _]]]]]]]].
    rewrite Hcg. destruct (compact_unbounded s2 1 Hi2) as [_ Hcu]; [rewrite Hcf; exact Hneg|].
    rewrite Hcu, Hc2. f_equal. apply filter_ext_in. intros e He.
    destruct (ext_idle s2 _ e Hh Hcf Hn He) as [E _]. rewrite E. reflexivity.
  Qed.
End GetFacts2.

(* ------------------------------------------------------------------------ *)
(* Set on a state with cache_ok: the write refreshes only the written object *)

Lemma touch_access_same s o ob : hget s o = Some ob -> obj_access (touch s o) o = now s.
Proof. intro H. unfold obj_access. rewrite (hget_touch_same s o ob H). reflexivity. Qed.

Lemma touch_access_other s o o' : o <> o' -> obj_access (touch s o) o' = obj_access s o'.
Proof. intro H. unfold obj_access. rewrite hget_touch_other by exact H. reflexivity. Qed.

Lemma ok_other_obj s o ob k' o' :
  cache_ok s -> hget s o = Some ob -> lookup (cache s) k' = Some o' -> k' <> o_id ob -> o <> o'.
Proof.
  intros Hok Hob Hk' Hne E. subst o'. destruct (Hok k' o Hk') as [ob' [Hob' Hid]]. congruence.
Qed.

Section SetOk.
  Variables (s : st) (o : nat) (ob : obj).
  Hypothesis Hp : plan s = [].
  Hypothesis Hok : cache_ok s.
  Hypothesis Hnd : NoDup (map fst (cache s)).
  Hypothesis Hob : hget s o = Some ob.
  Let k := o_id ob.
  Let mx := c_maxcache (conf s).

  Lemma setok_cinv : cinv s.
  Proof. apply cinv_of_ok; assumption. Qed.

  Lemma setok_other e :
    In e (cache s) -> fst e <> k ->
    obj_access (touch s o) (snd e) = obj_access s (snd e) /\ is_idle (touch s o) e = is_idle s e.
  Proof.
    intros He Hne. destruct e as [k' o']. cbn [fst snd] in *.
    pose proof (In_lookup _ _ _ Hnd He) as Hk'.
    pose proof (ok_other_obj s o ob k' o' Hok Hob Hk' Hne) as Hoo.
    pose proof (touch_access_other s o o' Hoo) as Ha. split; [exact Ha|].
    unfold is_idle. cbn [snd]. rewrite Ha. destruct (touch_frame s o) as [_ [_ [Hcf [_ [Hn _]]]]].
    rewrite Hcf, Hn. reflexivity.
  Qed.

  (* other IDs whose access time is not below the instant of the write *)
  Definition late_others : list (key * nat) :=
    filter (fun e => negb (key_eqb k (fst e)) && (now s <=? obj_access s (snd e))) (cache s).

  Lemma setok_rivals : lookup (cache s) k = Some o -> rivals s o ob o = late_others.
  Proof.
    intro Hk. unfold rivals, late_others. fold k. apply filter_ext_in. intros e He.
    destruct (key_eqb k (fst e)) eqn:E; [reflexivity|]. cbn [negb andb].
    apply key_eqb_neq in E. destruct (setok_other e He) as [Ha _]; [congruence|].
    rewrite Ha, (touch_access_same s o ob Hob). reflexivity.
  Qed.

  (* C12_bound, cached case, under cache_ok with the cached object being the
     one written: enough that fewer than N other entries tie with (or are newer
     than) the instant of the write — or that the cache was within N already *)
  Lemma setok_bound_cached :
    0 < mx -> lookup (cache s) k = Some o ->
    (Z.of_nat (length (cache s)) <= mx \/ Z.of_nat (length late_others) < mx) ->
    Z.of_nat (length (cache (fst (cache_set s o)))) <= mx.
  Proof.
    intros Hmx Hk Hside. apply (set_bound_cached s o ob setok_cinv Hob o Hmx Hk).
    rewrite (setok_rivals Hk). exact Hside.
  Qed.

  (* the property's wording: operations are spaced in time *)
  Lemma setok_bound_spaced :
    0 < mx -> lookup (cache s) k = Some o ->
    (forall k' o', lookup (cache s) k' = Some o' -> k' <> k -> obj_access s o' < now s) ->
    Z.of_nat (length (cache (fst (cache_set s o)))) <= mx.
  Proof.
    intros Hmx Hk Hsp. apply (setok_bound_cached Hmx Hk). right.
    assert (E : late_others = []).
    { unfold late_others. apply filter_none. intros [k' o'] He. cbn [fst snd].
      destruct (key_eqb k k') eqn:E; [reflexivity|]. cbn [negb andb]. apply key_eqb_neq in E.
      apply Z.leb_gt. apply (Hsp k' o'); [apply In_lookup; assumption | congruence]. }
    rewrite E. simpl. lia.
  Qed.

  Lemma setok_survivor e :
    In e (cache (fst (cache_set s o))) -> fst e <> k -> In e (cache s) /\ is_idle s e = false.
  Proof.
    intros He Hne. destruct (set_survivor s o ob setok_cinv Hob e He Hne) as [H1 H2].
    split; [exact H1|]. destruct (setok_other e H1 Hne) as [_ E]. rewrite <- E. exact H2.
  Qed.

  Lemma setok_lru k' o' e :
    lookup (cache s) k' = Some o' -> k' <> k -> lookup (cache (fst (cache_set s o))) k' = None ->
    In e (cache (fst (cache_set s o))) -> fst e <> k ->
    obj_access s o' <= obj_access s (snd e).
  Proof.
    intros Hk' Hne Hgone He Hne'.
    pose proof (set_lru s o ob setok_cinv Hob k' o' e Hk' Hne Hgone He Hne') as H.
    destruct (setok_survivor e He Hne') as [He0 _].
    destruct (setok_other e He0 Hne') as [Ea _].
    destruct (setok_other (k', o') (lookup_In _ _ _ Hk') Hne) as [Ea' _]. cbn [snd] in Ea'.
    rewrite Ea, Ea' in H. exact H.
  Qed.

  Lemma setok_flush k' o' ob' :
    lookup (cache s) k' = Some o' -> hget s o' = Some ob' -> k' <> k ->
    lookup (cache (fst (cache_set s o))) k' = None ->
    lookup (store (fst (cache_set s o))) k' = Some (codec (conf s) (o_rec ob')).
  Proof.
    intros Hk' Hob' Hne Hgone. apply (set_flush s o ob setok_cinv Hob k' o' ob' Hk'); try assumption.
    rewrite hget_touch_other; [exact Hob'|]. exact (ok_other_obj s o ob k' o' Hok Hob Hk' Hne).
  Qed.

  Lemma setok_unbounded :
    mx < 0 ->
    forall e, In e (cache s) -> fst e <> k -> is_idle s e = false -> In e (cache (fst (cache_set s o))).
  Proof.
    intros Hneg e He Hne Hni. rewrite (set_unbounded s o ob setok_cinv Hob Hneg).
    apply In_upsert_other; [|exact Hne]. apply filter_In. split; [exact He|].
    destruct (setok_other e He Hne) as [_ E]. rewrite E, Hni. reflexivity.
  Qed.

  (* cache_ok and unique keys are kept by Set *)
  Lemma setok_cache_ok : cache_ok (fst (cache_set s o)).
  Proof.
    intros k' o' Hk'. rewrite (cache_set_eq s o ob Hob) in *. fold k in Hk' |- *.
    destruct (p_save_cache (set_mid s o k) k (set_access (o_rec ob) (now s))) as [Hc [_ Hh]].
    rewrite Hc in Hk'. rewrite (hget_heap (set_mid s o k)) by exact Hh.
    pose proof (set_s1_inv s o setok_cinv) as Hi1.
    set (rq := if has (cache s) k then 0 else 1) in *.
    destruct (compact_inv (touch s o) rq Hi1) as [_ Hf2].
    assert (Hh2 : forall x, hget (set_mid s o k) x = hget (touch s o) x).
    { intro x. unfold set_mid. fold rq. destruct (c_maxcache (conf (compact (touch s o) rq)) =? 0);
        apply hget_heap; apply Hf2. }
    rewrite Hh2.
    assert (Hold : forall k2 o2, lookup (cache (compact (touch s o) rq)) k2 = Some o2 ->
                   exists ob2, hget (touch s o) o2 = Some ob2 /\ o_id ob2 = k2).
    { intros k2 o2 H2. apply lookup_In in H2. destruct (compact_survivor _ _ _ Hi1 H2) as [H3 _].
      destruct (touch_frame s o) as [Hct _]. rewrite Hct in H3.
      pose proof (In_lookup _ _ _ Hnd H3) as H4. destruct (Hok k2 o2 H4) as [ob2 [Hob2 Hid2]].
      destruct (Nat.eq_dec o o2) as [E|E].
      - subst o2. exists (touched s ob2). split; [apply hget_touch_same; exact Hob2 | exact Hid2].
      - exists ob2. rewrite hget_touch_other by exact E. tauto. }
    unfold set_mid in Hk'. fold rq in Hk'.
    destruct (c_maxcache (conf (compact (touch s o) rq)) =? 0); [exact (Hold k' o' Hk')|].
    cbn [set_cache cache] in Hk'. destruct (key_eq_dec k' k) as [E|E].
    - subst k'. rewrite lookup_upsert_same in Hk'. injection Hk' as <-.
      exists (touched s ob). split; [apply hget_touch_same; exact Hob | reflexivity].
    - rewrite lookup_upsert_other in Hk' by exact E. exact (Hold k' o' Hk').
  Qed.
End SetOk.

(* ------------------------------------------------------------------------ *)
(* The bound as an invariant: once within N, the cache stays within N under
   every cache operation; only a configuration change can break it, and the
   next write of an uncached ID (or a spaced write of a cached one) restores it *)

Definition within (s : st) : Prop :=
  0 <= c_maxcache (conf s) -> Z.of_nat (length (cache s)) <= c_maxcache (conf s).

Lemma cache_set_conf s o : cinv s -> conf (fst (cache_set s o)) = conf s.
Proof.
  intro Hi. destruct (hget s o) as [ob|] eqn:Hob; [|rewrite cache_set_none by exact Hob; reflexivity].
  rewrite (cache_set_eq s o ob Hob).
  destruct (p_save_cache (set_mid s o (o_id ob)) (o_id ob) (set_access (o_rec ob) (now s))) as [_ [Hcf _]].
  rewrite Hcf. unfold set_mid.
  pose proof (set_conf2 s o ob Hi) as H2.
  destruct (c_maxcache (conf (compact (touch s o) (if has (cache s) (o_id ob) then 0 else 1))) =? 0);
    exact H2.
Qed.

Lemma set_within s o : cinv s -> within s -> within (fst (cache_set s o)).
Proof.
  intros Hi Hw. unfold within. rewrite cache_set_conf by exact Hi. intro Hmx.
  destruct (hget s o) as [ob|] eqn:Hob; [|rewrite cache_set_none by exact Hob; exact (Hw Hmx)].
  destruct (Z.eq_dec (c_maxcache (conf s)) 0) as [E0|E0].
  - rewrite (set_zero s o ob Hi Hob E0). simpl. lia.
  - destruct (lookup (cache s) (o_id ob)) as [o0|] eqn:Hk.
    + apply (set_bound_cached s o ob Hi Hob o0); [lia | exact Hk | left; exact (Hw Hmx)].
    + apply (set_bound_new s o ob Hi Hob); [lia | exact Hk].
Qed.

(* what a Get does to cache and configuration, in the three cases *)
Lemma cache_get_conf s k : cinv s -> conf (fst (cache_get s k)) = conf s.
Proof.
  intros Hi. pose proof Hi as [Hp _]. destruct (lookup (cache s) k) as [o|] eqn:Hc.
  { rewrite (cache_get_hit s k o Hc). reflexivity. }
  destruct (lookup (store s) k) as [r|] eqn:Hs.
  2:{ destruct (cache_get_absent s k Hp Hc Hs) as [s' [Hg He]]. rewrite Hg.
      apply (same_but_evs_fields s s' He). }
  destruct (cache_get_load s k r Hp Hc Hs) as [s1 [He Hg]]. rewrite Hg. cbn [fst].
  destruct (same_but_evs_fields s s1 He) as [_ [_ [_ [Hcf _]]]].
  destruct (c_maxcache (conf s) =? 0); [exact Hcf|].
  destruct (compact_inv (get_mid s1 k r) 1 (get_mid_cinv s s1 k r Hi He)) as [_ Hf].
  cbn [conf set_cache]. rewrite (fr_conf _ _ Hf). exact Hcf.
Qed.

Lemma get_within s k : cinv s -> within s -> within (fst (cache_get s k)).
Proof.
  intros Hi Hw. unfold within. rewrite cache_get_conf by exact Hi. intro Hmx.
  pose proof Hi as [Hp _].
  destruct (lookup (cache s) k) as [o|] eqn:Hc.
  { rewrite get_nogrow; [exact (Hw Hmx) | exact Hp | left; congruence]. }
  destruct (lookup (store s) k) as [r|] eqn:Hs.
  2:{ rewrite get_nogrow; [exact (Hw Hmx) | exact Hp | right; exact Hs]. }
  destruct (Z.eq_dec (c_maxcache (conf s)) 0) as [E0|E0].
  - rewrite get_zero by exact E0. exact (Hw Hmx).
  - apply (get_bound s k r Hi Hc Hs). lia.
Qed.

Lemma get_cinv_all s k : cinv s -> cinv (fst (cache_get s k)).
Proof.
  intros Hi. pose proof Hi as [Hp [Hl Hnd]]. destruct (lookup (cache s) k) as [o|] eqn:Hc.
  { rewrite (cache_get_hit s k o Hc). exact Hi. }
  destruct (lookup (store s) k) as [r|] eqn:Hs.
  - exact (get_cinv s k r Hi Hc Hs).
  - destruct (cache_get_absent s k Hp Hc Hs) as [s' [Hg [l ->]]]. rewrite Hg. exact Hi.
Qed.

Lemma set_cinv_all s o : cinv s -> cinv (fst (cache_set s o)).
Proof.
  intro Hi. destruct (hget s o) as [ob|] eqn:Hob.
  - exact (set_cinv s o ob Hi Hob).
  - rewrite cache_set_none by exact Hob. exact Hi.
Qed.

(* ------------------------------------------------------------------------ *)
(* Sequences of cache operations *)

(* What can happen to the cache and to the objects it points at: the cache's
   own entry points, the clock, the configuration, the tie-break oracle, and
   arbitrary allocation and mutation of session objects (handlers change
   fields, Start refreshes access times, RegenerateID changes IDs). *)
Inductive cop :=
  | OGet (k : key) | OSet (o : nat) | ODelete (k : key) | OPurge
  | OTick (d : Z) | OCfg (c : cfg) | OTb (l : list key)
  | ONew (ob : obj) | OPut (o : nat) (ob : obj).

Definition step_cop (s : st) (op : cop) : st :=
  match op with
  | OGet k => fst (cache_get s k)
  | OSet o => fst (cache_set s o)
  | ODelete k => fst (cache_delete s k)
  | OPurge => purge s
  | OTick d => set_now s (now s + d)
  | OCfg c => set_conf s c
  | OTb l => set_tb s l
  | ONew ob => fst (halloc s ob)
  | OPut o ob => hput s o ob
  end.

Definition run_cops (s : st) (ops : list cop) : st := fold_left step_cop ops s.

Lemma hput_live s o ob : cache_live s -> cache_live (hput s o ob).
Proof.
  intros Hl k o' Hk. change (cache (hput s o ob)) with (cache s) in Hk.
  destruct (Hl k o' Hk) as [ob' Hob']. destruct (Nat.eq_dec o o') as [E|E].
  - subst o'. exists ob. apply hget_hput_same. exact (hget_Some_lt s o ob' Hob').
  - exists ob'. rewrite hget_hput_other by exact E. exact Hob'.
Qed.

Lemma halloc_live s ob : cache_live s -> cache_live (fst (halloc s ob)).
Proof.
  intros Hl k o' Hk. change (cache (fst (halloc s ob))) with (cache s) in Hk.
  destruct (Hl k o' Hk) as [ob' Hob']. exists ob'.
  rewrite hget_halloc_old; [exact Hob' | exact (hget_Some_lt s o' ob' Hob')].
Qed.

Lemma step_cop_cinv s op : cinv s -> cinv (step_cop s op).
Proof.
  intro Hi. destruct op; cbn [step_cop].
  - apply get_cinv_all. exact Hi.
  - apply set_cinv_all. exact Hi.
  - apply delete_cinv. exact Hi.
  - apply purge_cinv. exact Hi.
  - exact Hi.
  - exact Hi.
  - exact Hi.
  - destruct Hi as [Hp [Hl Hnd]]. split; [exact Hp|]. split; [apply halloc_live; exact Hl | exact Hnd].
  - destruct Hi as [Hp [Hl Hnd]]. split; [exact Hp|]. split; [apply hput_live; exact Hl | exact Hnd].
Qed.

Lemma run_cops_cinv ops : forall s, cinv s -> cinv (run_cops s ops).
Proof.
  induction ops as [|op ops IH]; intros s Hi; [exact Hi|]. apply IH. apply step_cop_cinv. exact Hi.
Qed.

Lemma cinv_init c : cinv (init_st c).
Proof. split; [reflexivity|]. split; [intros k o H; discriminate | constructor]. Qed.

(* every operation other than a configuration change keeps the cache within N *)
Lemma step_cop_within s op :
  cinv s -> within s -> (forall c, op = OCfg c -> within (set_conf s c)) -> within (step_cop s op).
Proof.
  intros Hi Hw Hcfg. destruct op; cbn [step_cop].
  - apply get_within; assumption.
  - apply set_within; assumption.
  - unfold within. destruct (p_delete_cache (set_cache s (remove (cache s) k)) k) as [Hc [_ Hcf]].
    unfold cache_delete. rewrite Hc, Hcf. cbn [cache conf set_cache]. intro Hmx.
    pose proof (length_remove_le (cache s) k). specialize (Hw Hmx). lia.
  - unfold within. destruct (purge_spec s Hi) as [Hf [Hc _]]. rewrite Hc, (fr_conf _ _ Hf). simpl. lia.
  - exact Hw.
  - apply Hcfg. reflexivity.
  - exact Hw.
  - exact Hw.
  - exact Hw.
Qed.

(* a sequence keeps the cache within N as long as each configuration change in
   it is to a size the cache then fits in *)
Lemma run_cops_within ops : forall s,
  cinv s -> within s ->
  (forall pre c post, ops = pre ++ OCfg c :: post -> within (set_conf (run_cops s pre) c)) ->
  within (run_cops s ops).
Proof.
  induction ops as [|op ops IH]; intros s Hi Hw Hcfg; [exact Hw|]. cbn [run_cops fold_left].
  apply IH.
  - apply step_cop_cinv. exact Hi.
  - apply step_cop_within; [exact Hi | exact Hw|]. intros c ->. exact (Hcfg [] c ops eq_refl).
  - intros pre c post E. apply (Hcfg (op :: pre) c post). rewrite E. reflexivity.
Qed.

(* the operations that are not writes never add an entry *)
Definition is_write (s : st) (op : cop) : bool :=
  match op with
  | OSet o => match hget s o with Some _ => true | None => false end
  | OGet k => match lookup (cache s) k, lookup (store s) k with None, Some _ => true | _, _ => false end
  | _ => false
  end.

Lemma step_cop_nogrow s op :
  cinv s -> is_write s op = false -> (length (cache (step_cop s op)) <= length (cache s))%nat.
Proof.
  intros Hi Hnw. pose proof Hi as [Hp _]. destruct op; cbn [step_cop is_write] in *; try apply le_n.
  - rewrite get_nogrow; [apply le_n | exact Hp|].
    destruct (lookup (cache s) k); [left; congruence|]. destruct (lookup (store s) k); [discriminate | right; reflexivity].
  - destruct (hget s o) eqn:E; [discriminate|]. rewrite cache_set_none by exact E. apply le_n.
  - apply delete_nogrow.
  - destruct (purge_spec s Hi) as [_ [Hc _]]. rewrite Hc. simpl. lia.
Qed.

(* C12_bound after any sequence *)
Lemma seq_set_bound s0 ops o ob :
  cinv s0 -> let s := run_cops s0 ops in
  hget s o = Some ob -> 0 < c_maxcache (conf s) ->
  Z.of_nat (length (cache (fst (cache_set s o)))) <= c_maxcache (conf s) + 1 /\
  (lookup (cache s) (o_id ob) = None \/ within s \/
   (exists o0, lookup (cache s) (o_id ob) = Some o0 /\
               Z.of_nat (length (rivals s o ob o0)) < c_maxcache (conf s)) ->
   Z.of_nat (length (cache (fst (cache_set s o)))) <= c_maxcache (conf s)).
Proof.
  intros Hi0 s Hob Hmx. pose proof (run_cops_cinv ops s0 Hi0) as Hi. fold s in Hi. split.
  - apply (set_bound_weak s o ob Hi Hob). lia.
  - intros [Hnew|[Hw|[o0 [Hk Hfew]]]].
    + exact (set_bound_new s o ob Hi Hob Hmx Hnew).
    + pose proof (set_within s o Hi Hw) as H. unfold within in H. rewrite cache_set_conf in H by exact Hi.
      apply H. lia.
    + apply (set_bound_cached s o ob Hi Hob o0 Hmx Hk). right. exact Hfew.
Qed.

Lemma seq_get_bound s0 ops k r :
  cinv s0 -> let s := run_cops s0 ops in
  lookup (cache s) k = None -> lookup (store s) k = Some r -> 0 < c_maxcache (conf s) ->
  Z.of_nat (length (cache (fst (cache_get s k)))) <= c_maxcache (conf s).
Proof.
  intros Hi0 s Hc Hs Hmx. pose proof (run_cops_cinv ops s0 Hi0) as Hi. fold s in Hi.
  exact (get_bound s k r Hi Hc Hs Hmx).
Qed.

Lemma seq_zero s0 ops op :
  cinv s0 -> let s := run_cops s0 ops in
  c_maxcache (conf s) = 0 ->
  match op with
  | OSet o => hget s o <> None -> cache (step_cop s op) = []
  | OGet k => cache (step_cop s op) = cache s
  | _ => True
  end.
Proof.
  intros Hi0 s Hmx. pose proof (run_cops_cinv ops s0 Hi0) as Hi. fold s in Hi.
  destruct op; try exact I; cbn [step_cop].
  - apply get_zero. exact Hmx.
  - intro Hob. destruct (hget s o) as [ob|] eqn:E; [|congruence]. exact (set_zero s o ob Hi E Hmx).
Qed.
