(* R10, C10: no dangling reference, ABSOLUTE form along histories. In every state
   reached by a fault-free history (requests stopping after any number of their
   persistence calls, waits, purges, cache loss, restarts, user-wide calls,
   configuration changes) every replaced-ID record of the store names an ID that the
   store holds or that has been deleted (is in the index of deleted IDs). The
   excuse "already dangling before" of no_dangling_any is not needed: the initial
   store is empty.

   New here: nd_ok (CrashAny.v) of RefreshUser and PurgeSessions.

   No axioms; standard library only. *)
From Sessions Require Import Model.Base Model.Sess Model.Hist Proofs.SessDefs
  Proofs.HistInv Proofs.HistInv2 Proofs.HistInv3 Proofs.HistLift Proofs.HistLift2 Proofs.HistLift3
  Proofs.HistLift4 Proofs.HistLiftB Proofs.LineageB Proofs.LineageK Proofs.LineageK3 Proofs.LineageF
  Proofs.CrashAny Proofs.CrashAny2 Proofs.CrashAny9.
From Sessions Require Proofs.CrashFault Proofs.CrashFault2 Proofs.CrashFault3 Proofs.CrashFault4.
From Coq Require Import Lia.

Section Abs.
  Variable b : nat.
  Variable X0 : key -> Prop.
  Notation GQ := (Gb b Q0).
  Notation ref_in := CrashFault3.ref_in.
  Notation QK := CrashFault2.QK.

  Lemma nd_refresh_user base s u s' r : GQ base s -> refresh_user s u = (s', r) -> nd_ok X0 s s'.
  Proof.
    intros Hg E H0. unfold refresh_user in E. destruct (p_usersessions s (fst u)) as [s1 lst] eqn:EU.
    apply CrashFault.p_usersessions_spec in EU. destruct EU as ((Hh & Hca & _) & Hst & _ & ok & X & _).
    assert (HQ1 : Forall (QK (ref_in (T X0 s))) [EvUserSessions (fst u) ok]) by (constructor; [apply CrashFault2.QK_read; reflexivity | constructor]).
    destruct lst as [ids|]; [|injection E as <- _; exact (nd_saves X0 s s1 _ X HQ1 H0)].
    assert (HJ1 : CrashFault2.J (ref_in (T X0 s)) s1) by (eapply CrashFault2.J_same; [exact Hh | exact Hca | exact Hst | exact (G_JT b X0 _ _ Hg H0)]).
    assert (Hc1 : CrashFault4.cok s1).
    { intros k0 o0 ob0 H H1. rewrite Hca in H. unfold hget in H1. rewrite Hh in H1. exact (G_cok b _ _ Hg k0 o0 ob0 H H1). }
    destruct (CrashFault4.each_user_session_safe (ref_in (T X0 s)) (CrashFault3.ref_in_codec (T X0 s)) (CrashFault3.ref_in_access (T X0 s))
                (CrashFault3.ref_in_user (T X0 s)) ids (Some u) s1 s' r HJ1 Hc1 E) as (l & X2 & HQ & _).
    apply (nd_saves X0 s s' ([EvUserSessions (fst u) ok] ++ l)); [eapply CrashFault.ext_trans; eassumption | apply Forall_app; split; assumption | exact H0].
  Qed.

  Lemma purge_saves_QK (Tt : key -> Prop) s0 : CrashFault2.cacheK (ref_in Tt) s0 ->
    forall entries s, heap s = heap s0 -> (forall k o, In (k, o) entries -> In (k, o) (cache s0)) ->
    exists l, CrashFault.ext s (purge_saves s entries) l /\ Forall (QK (ref_in Tt)) l.
  Proof.
    intro HcK. induction entries as [|[k o] t IH]; intros s Hh Hin; cbn [purge_saves].
    - exists []. split; [apply CrashFault.ext_refl | constructor].
    - destruct (hget s o) as [ob|] eqn:Ho; [|apply IH; [exact Hh | intros k' o' H; apply Hin; right; exact H]].
      destruct (p_save s k (o_rec ob)) as [s1 ok] eqn:E. cbn [fst].
      apply CrashFault.p_save_spec in E. destruct E as ((Hh1 & _) & X & _).
      destruct (IH s1) as (l & X2 & HQ); [congruence | intros k' o' H; apply Hin; right; exact H|].
      exists ([EvSave k (codec (conf s) (o_rec ob)) ok] ++ l). split; [eapply CrashFault.ext_trans; eassumption|].
      constructor; [|exact HQ]. apply CrashFault2.QK_save. apply CrashFault3.ref_in_codec.
      apply (HcK k o ob); [apply Hin; left; reflexivity | unfold hget in *; rewrite <- Hh; exact Ho].
  Qed.

  Lemma nd_purge base s : GQ base s -> nd_ok X0 s (purge s).
  Proof.
    intros Hg H0. pose proof (G_JT b X0 _ _ Hg H0) as (_ & HcK & _).
    destruct (purge_saves_QK (T X0 s) s HcK (order_by_tb (tb s) (cache s)) s eq_refl) as (l & X & HQ).
    { intros k o H. exact (CrashFault.In_order_by_tb _ _ _ H). }
    unfold purge. eapply (nd_ok_trans X0); [exact (nd_saves X0 s _ l X HQ) | apply nd_ok_mem; apply CrashFault.ext_set_cache | exact H0].
  Qed.
End Abs.

Definition NDabs (s : st) : Prop := NoDang (fun _ => False) (store s, graves s).

Lemma nocrash_id r : rq_crash r = None -> nocrash r = r.
Proof. destruct r. cbn. intros ->. reflexivity. Qed.

Theorem NDabs_step w h : LIx (w_st w) -> NDabs (w_st w) -> ff_hop h -> NDabs (w_st (fst (step w h))).
Proof.
  intros [b Hl] H0 Hff. set (X0 := fun _ : key => False) in *.
  assert (Hsame : forall sF, store sF = store (w_st w) -> graves sF = graves (w_st w) -> NDabs sF).
  { intros sF A B. unfold NDabs. rewrite A, B. exact H0. }
  destruct h as [r|d|tbl pl| | |u tbl pl|u tbl pl|c]; cbn [ff_hop] in Hff.
  - pose proof (step_nodangling b X0 w r Hl Hff H0) as S.
    destruct (rq_crash r) as [n|] eqn:Hcr.
    + pose proof (CrashFault2.steps_ok_prefix _ _ _ n S) as Hn. unfold CrashFault.replay in Hn.
      rewrite <- (crash_sg w r n Hcr) in Hn. exact Hn.
    + rewrite (nocrash_id r Hcr) in S. pose proof (CrashAny.steps_ok_last _ _ _ S) as Hn. unfold CrashFault.replay in Hn.
      destruct (step_replays w (HReq r)) as (l & Hsg & Hevs & _).
      assert (l = ob_evs (snd (step w (HReq r)))) by (rewrite ob_evs_final, Hevs, rev_involutive; reflexivity). subst l.
      unfold NDabs. rewrite Hsg. exact Hn.
  - cbn [step fst w_st]. set (sn := set_now (set_evs (w_st w) []) (now (set_evs (w_st w) []) + d)).
    exact (nd_ND X0 sn (fire_due sn) (nd_fire_due X0 sn) H0).
  - subst pl. cbn [step fst w_st].
    pose proof (GWb_Gb b Q0 Q0_qt (w_st w) [] tbl Hl eq_refl) as G1.
    exact (nd_ND X0 _ _ (nd_purge b X0 _ _ G1) H0).
  - apply Hsame; reflexivity.
  - apply Hsame; reflexivity.
  - subst pl. cbn [step].
    pose proof (GWb_Gb b Q0 Q0_qt (w_st w) [] tbl Hl eq_refl) as G1.
    destruct (logout_user _ u) as [s1 r0] eqn:E. cbn [fst w_st].
    pose proof (nd_ND X0 _ _ (nd_logout_user b X0 _ _ _ _ _ G1 E) H0) as H1.
    exact (nd_ND X0 _ _ (nd_fire_due X0 (set_tb (set_plan s1 []) [])) H1).
  - subst pl. cbn [step].
    pose proof (GWb_Gb b Q0 Q0_qt (w_st w) [] tbl Hl eq_refl) as G1.
    destruct (refresh_user _ u) as [s1 r0] eqn:E. cbn [fst w_st].
    pose proof (nd_ND X0 _ _ (nd_refresh_user b X0 _ _ _ _ _ G1 E) H0) as H1.
    exact (nd_ND X0 _ _ (nd_fire_due X0 (set_tb (set_plan s1 []) [])) H1).
  - apply Hsame; reflexivity.
Qed.

Theorem NDabs_after : forall hs w, LIx (w_st w) -> NDabs (w_st w) -> Forall ff_hop hs -> NDabs (w_st (after w hs)).
Proof.
  induction hs as [|h t IH]; intros w Hl H0 Hff; cbn [after]; [exact H0|]. inversion Hff; subst.
  apply IH; [apply LIx_step; assumption | apply NDabs_step; assumption | assumption].
Qed.

(* every replaced-ID record names a stored or a deleted ID, in every reachable state *)
Theorem no_dangling_reach_abs c hs : Forall ff_hop hs ->
  forall k r t, lookup (store (w_st (reach c hs))) k = Some r -> r_ref r = Some t ->
    lookup (store (w_st (reach c hs))) t <> None \/ lookup (graves (w_st (reach c hs))) t <> None.
Proof.
  intros Hff k r t Hk Hr.
  assert (H : NDabs (w_st (reach c hs))).
  { apply NDabs_after; [exists 0; apply LI_LIb0; apply LI_init | intros k' r' t' Hl; cbn in Hl; discriminate | exact Hff]. }
  destruct (H k r t Hk Hr) as [A|[[]|A]]; [left; exact A | right; exact A].
Qed.
