(* C10 at the level of histories, part 5 (C10L): the ID change made by LogIn in
   the handler script. The scenario of CrashRestart4.v with the script as a
   parameter (hcrash), the state in which the handler starts (hcrash_setup), and
   the theorems for the script [LogIn u ex], built on PE's C10_resolves_login. *)
From Sessions Require Import Model.Base Model.Sess Model.Hist Proofs.SessDefs
  Proofs.HistInv Proofs.HistInv2 Proofs.HistInv3.
From Sessions Require Proofs.CrashFault Proofs.CrashFault2 Proofs.CrashFault3 Proofs.CrashFault4 Proofs.CrashFault5
  Proofs.CrashFault6 Proofs.LiveHist4 Proofs.LiveHist8 Proofs.UserHist Proofs.UserHist2 Proofs.RotateLaws6.
From Sessions Require Import Proofs.CrashRestart Proofs.CrashRestart2 Proofs.CrashRestart3 Proofs.CrashRestart4.
From Coq Require Import Lia.
Import CrashFault CrashFault2 CrashFault3 CrashFault5 CrashFault6 LiveHist4.
Local Open Scope Z_scope.

(* ------------------------------------------------ persistence-call counts *)

(* number of persistence calls among events (draws are not persistence calls) *)
Fixpoint pcalls (l : list ev) : nat :=
  match l with
  | [] => 0
  | EvDraw _ :: t => pcalls t
  | _ :: t => S (pcalls t)
  end.

Definition is_call (e : ev) : Prop := match e with EvDraw _ => False | _ => True end.

(* the prefix up to a crash point behind the call e *)
Lemma ev_prefix_past e b : is_call e -> forall a n,
  ev_prefix (a ++ e :: b) (pcalls a + 1 + n) = a ++ e :: ev_prefix b n.
Proof.
  intros He. induction a as [|x a IH]; intro n.
  - cbn [pcalls app Nat.add]. destruct e; try contradiction; reflexivity.
  - cbn [app]. destruct x; cbn [pcalls];
      try (replace (S (pcalls a) + 1 + n)%nat with (S (pcalls a + 1 + n)) by lia; cbn [ev_prefix]; rewrite IH; reflexivity).
    replace (pcalls a + 1 + n)%nat with (S (pcalls a + n)) by lia. cbn [ev_prefix].
    replace (S (pcalls a + n)) with (pcalls a + 1 + n)%nat by lia. rewrite IH. reflexivity.
Qed.

Lemma ev_prefix_0 l : ev_prefix l 0 = [].
Proof. destruct l; reflexivity. Qed.

(* ------------------------------------------------------------ the scenario *)

(* As regen_crash (CrashRestart4.v), the handler script being a parameter: in
   world w — satisfying the invariants of SessDefs.v — request step r,
   fault-free, presents k; k is cached as object o (content ob, a session
   record), the store holds its durable part (write-through), the record is
   acceptable and neither due nor past the backstop — Start makes no persistence
   call —; the script is given; the process stops after n persistence calls; the
   grace period is positive and no clean-up of w is due. *)
Record hcrash (w : world) (r : reqstep) (n : nat) (k : key) (o : nat) (ob : obj) (script : list sop) : Prop := mkHC {
  hc_inv : sess_inv (w_st w);
  hc_plan : rq_plan r = [];
  hc_crash : rq_crash r = Some n;
  hc_script : rq_script r = script;
  hc_pres : pres w r = CKey k;
  hc_cached : lookup (cache (w_st w)) k = Some o;
  hc_obj : hget (w_st w) o = Some ob;
  hc_nonref : r_ref (o_rec ob) = None;
  hc_stored : exists r0, lookup (store (w_st w)) k = Some r0 /\
                         durable r0 = durable (codec (conf (w_st w)) (o_rec ob));
  hc_valid : rec_valid (conf (w_st w)) (now (w_st w)) (req_q w r) (o_rec ob) = true;
  hc_notdue : (c_idexpiry (conf (w_st w)) <=? since (r_created (o_rec ob)) (now (w_st w))) = false;
  hc_backstop : (sat_add (c_idexpiry (conf (w_st w))) (c_grace (conf (w_st w))) <=?
                 since (r_created (o_rec ob)) (now (w_st w))) = false;
  hc_grace : 0 < c_grace (conf (w_st w));
  hc_pending : forall d k', In (d, k') (pending (w_st w)) -> now (w_st w) < d }.

Lemma hcrash_regen w r n k o ob : hcrash w r n k o ob [SRegen] <-> regen_crash w r n k o ob.
Proof.
  split.
  - intros [H1 H2 H3 H4 H5 H6 H7 H8 H9 H10 H11 H12 H13 H14]. exact (mkGC _ _ _ _ _ _ H1 H2 H3 H4 H5 H6 H7 H8 H9 H10 H11 H12 H13 H14).
  - intros [H1 H2 H3 H4 H5 H6 H7 H8 H9 H10 H11 H12 H13 H14]. exact (mkHC _ _ _ _ _ _ _ H1 H2 H3 H4 H5 H6 H7 H8 H9 H10 H11 H12 H13 H14).
Qed.

(* The state s0 in which the handler starts: Start was a cache hit and touched
   nothing in the store, no clean-up fired; the handle o holds the session (its
   record ob0 is ob with this request's bookkeeping), the store holds its
   durable part. *)
Lemma hcrash_setup w r n k o ob script : hcrash w r n k o ob script ->
  exists s0 ob0,
    UserHist.handler_at w r [] s0 o /\ sess_inv s0 /\ holds s0 o ob0 /\ o_id ob0 = k /\
    r_user (o_rec ob0) = r_user (o_rec ob) /\ r_data (o_rec ob0) = r_data (o_rec ob) /\
    store s0 = store (w_st w) /\ graves s0 = graves (w_st w) /\ evs s0 = [] /\ now s0 = now (w_st w) /\
    conf s0 = conf (w_st w) /\ supply s0 = supply (w_st w) /\ pending s0 = pending (w_st w) /\
    req_end w r = fst (fst (run_script s0 o (had_cookie (req_q w r)) script)).
Proof.
  intros [Hinv Hpl Hcr Hsc Hk Hca Hob Hnr (r0 & Hs0 & Hd0) Hv Hnd Hbs Hg Hpend].
  destruct (LiveHist8.req_s1_sess_inv w r Hinv) as (Hp1 & Hc1 & Hn1 & Hf1).
  set (s1 := req_s1 w r) in *. set (q := req_q w r) in *.
  assert (Hid : o_id ob = k).
  { destruct Hinv as (_ & Hc & _). destruct (Hc k o Hca) as [ob' [Ho' Hid']]. congruence. }
  assert (E : start s1 q = (hupd s1 o (upd_req s1 q), Ok (Some o), [])).
  { rewrite start_eq. change (q_cookie q) with (pres w r). rewrite Hk.
    pose proof (cache_get_ff s1 k Hp1) as Hg1. change (cache s1) with (cache (w_st w)) in Hg1. rewrite Hca in Hg1.
    rewrite Hg1. change (hget s1 o) with (hget (w_st w) o). rewrite Hob.
    apply sf_plain; assumption. }
  set (s2 := hupd s1 o (upd_req s1 q)) in *.
  set (ob2 := mkObj (o_id ob) (upd_req s1 q (o_rec ob))).
  assert (Ho2 : hget s2 o = Some ob2).
  { unfold s2. rewrite hget_hupd, Nat.eqb_refl. change (hget s1 o) with (hget (w_st w) o). rewrite Hob. reflexivity. }
  assert (Hs2 : cache s2 = cache (w_st w) /\ store s2 = store (w_st w) /\ graves s2 = graves (w_st w) /\
                pending s2 = pending (w_st w) /\ now s2 = now (w_st w) /\ conf s2 = conf (w_st w) /\
                supply s2 = supply (w_st w) /\ evs s2 = [] /\ plan s2 = []).
  { unfold s2, hupd. change (hget s1 o) with (hget (w_st w) o). rewrite Hob. repeat split. }
  destruct Hs2 as (A1 & A2 & A3 & A4 & A5 & A6 & A7 & A8 & A9).
  assert (Hq2 : forall d k', In (d, k') (pending s2) -> now s2 < d) by (rewrite A4, A5; exact Hpend).
  destruct (fire_due_same s2 Hq2) as (B1 & B2 & B3 & B4 & B5 & B6 & B7 & B8 & B9 & B10).
  set (s2' := fire_due s2) in *.
  assert (Hat : UserHist.handler_at w r [] s2' o).
  { exists s2, [], [], []. split; [exact E|]. split; reflexivity. }
  destruct (UserHist.handler_at_inv w r [] s2' o Hinv Hat) as [Hsi _].
  assert (Ho2' : hget s2' o = Some ob2) by (unfold hget; rewrite B1; exact Ho2).
  assert (Hh : holds s2' o ob2).
  { split; [exact Ho2'|]. split; [exact Hnr|]. split.
    - intros o' Hl. rewrite B2, A1 in Hl. cbn [ob2 o_id] in Hl. rewrite Hid, Hca in Hl. congruence.
    - exists r0. cbn [ob2 o_id o_rec]. rewrite Hid, B3, A2, B8, A6. split; [exact Hs0|].
      rewrite durable_upd. exact Hd0. }
  exists s2', ob2. split; [exact Hat|]. split; [exact Hsi|]. split; [exact Hh|]. split; [exact Hid|].
  split; [reflexivity|]. split; [reflexivity|].
  split; [rewrite B3; exact A2|]. split; [rewrite B4; exact A3|]. split; [rewrite B10; exact A8|].
  split; [rewrite B6; exact A5|]. split; [rewrite B8; exact A6|]. split; [rewrite B7; exact A7|].
  split; [rewrite B5; exact A4|].
  unfold req_end. rewrite Hpl, Hsc. unfold req_body.
  change (set_tb (set_plan (set_evs (w_st w) []) []) (rq_tb r)) with s1. fold q. rewrite E. cbv zeta.
  fold s2'. destruct (run_script s2' o (had_cookie q) script) as [[s3 sr] cks']. reflexivity.
Qed.

(* ---------------------------------------------------- LogIn: state changes *)

Lemma login_ext s o ob u ex s' res cks :
  cache_ok s -> nodup_ok s -> fresh_ok s -> holds s o ob ->
  login s o u ex = (s', res, cks) -> exists l, ext s s' l.
Proof.
  intros Hc Hn Hf Hh HL.
  assert (HF0 : forall r0, durable r0 = durable (codec (conf s) (o_rec ob)) -> dat r0 = dat (o_rec ob)).
  { intros r0 H. apply durable_content in H. apply H. }
  assert (HJ := J_res_init s o ob (fun r => dat r = dat (o_rec ob)) Hc Hn Hf Hh eq_refl HF0).
  destruct (cache_ok_cv _ Hc (proj1 Hn)) as [_ Hcok].
  pose proof Hh as (Ho & Hr & Hheld & r0 & Hs0 & _).
  assert (Ht : CrashFault4.tracked (not_key (KGen (supply s)) (at_keys (fun k => k = o_id ob) (fun r => r_ref r = None /\ dat r = dat (o_rec ob)))) s o (o_id ob)).
  { apply tracked_init; [exact Ho|]. split; [eapply holds_id_drawn; eassumption|]. intros _. split; [exact Hr | reflexivity]. }
  assert (Hold : lookup (store s) (o_id ob) <> None) by congruence.
  destruct (login_resolves s (o_id ob) (dat (o_rec ob)) o u ex s' res cks HJ Hcok Ht Hold HL) as (l & X & _).
  exists l. exact X.
Qed.

(* ------------------------------------------------- the world after the crash *)

Theorem crash_store_login w r n k o ob u ex :
  hcrash w r n k o ob [SLogIn u ex] ->
  let D := dat (o_rec ob) in let U := uid (o_rec ob) in
  let s' := w_st (fst (step w (HReq r))) in
  exists l,
    l = rev (evs (req_end w r)) /\
    cache s' = [] /\ plan s' = [] /\ now s' = now (w_st w) /\ conf s' = conf (w_st w) /\
    store s' = frozen (w_st w) l n /\
    resolves_to (fun x => dat x = D) (store s') k /\
    (n = 0%nat -> resolves_to (full D U) (store s') k) /\
    ((length l <= n)%nat ->
       resolves_to (fun x => dat x = D /\ uid x = Some (fst u)) (store s') (KGen (supply (w_st w)))) /\
    exists l0' r0 lR,
      l = (l0' ++ [EvSave k r0 true]) ++ lR /\ uid r0 = Some (fst u) /\ dat r0 = D /\ r_ref r0 = None /\
      ((pcalls l0' < n)%nat -> resolves_to (fun x => dat x = D /\ uid x = Some (fst u)) (store s') k).
Proof.
  intros H. cbv zeta. pose proof H as [Hinv Hpl Hcr Hsc Hk Hca Hob Hnr (r0 & Hs0 & Hd0) Hv Hnd Hbs Hg Hpend].
  destruct (hcrash_setup w r n k o ob _ H)
    as (s0 & ob0 & Hat & Hsi & Hh & Hid & Hu0 & Hda0 & A2 & A3 & A8 & A5 & A6 & A7 & A4 & Hend).
  pose proof Hsi as (Hp0 & Hc0 & Hn0 & Hf0).
  assert (HD : dat (o_rec ob0) = dat (o_rec ob)) by (unfold dat; rewrite Hda0; reflexivity).
  destruct (login s0 o u ex) as [[s3 res] cks3] eqn:EL.
  destruct (resolves_login s0 o ob0 u ex s3 res cks3 Hc0 Hn0 Hf0 Hh EL) as (l & Hl & Hold & Hnew & Huser).
  destruct (RotateLaws6.login_C04 s0 o ob0 u ex Hp0 Hc0 Hn0 Hf0 (proj1 Hh))
    as (s3' & r' & E2 & _ & _ & _ & _ & _ & _ & _ & _ & _ & _ & _ & Hpe3).
  rewrite EL in E2. injection E2 as <- -> ->.
  destruct (login_ext s0 o ob0 u ex s3 _ _ Hc0 Hn0 Hf0 Hh EL) as (l2 & X).
  assert (Hq3 : forall d k', In (d, k') (pending s3) -> now s3 < d).
  { intros d k' Hin. rewrite Hpe3 in Hin. rewrite (x_now _ _ _ X), A5.
    apply in_app_iff in Hin. destruct Hin as [Hin|[Hin|[]]].
    - rewrite A4 in Hin. exact (Hpend d k' Hin).
    - injection Hin as <- _. rewrite A5, A6. lia. }
  destruct (fire_due_same s3 Hq3) as (D1 & D2 & D3 & D4 & D5 & D6 & D7 & D8 & D9 & D10).
  assert (Hend' : req_end w r = fire_due s3).
  { rewrite Hend. cbn [run_script do_sop]. rewrite EL. reflexivity. }
  destruct (crash_world w r n Hcr) as (_ & W1 & W2 & W3 & W4 & W5 & W6). cbv zeta in *.
  rewrite Hend' in W4, W5, W6. rewrite D10 in W6.
  assert (El : l = rev (evs s3)).
  { unfold appended in Hl. rewrite A8, app_nil_r in Hl. rewrite Hl, rev_involutive. reflexivity. }
  assert (Hfz : forall m, frozen s0 l m = frozen (w_st w) l m).
  { intro m. unfold frozen. rewrite A2, A3. reflexivity. }
  assert (Hst : store (w_st (fst (step w (HReq r)))) = frozen (w_st w) l n) by (rewrite W6, El; reflexivity).
  rewrite HD in *.
  exists l. split; [rewrite Hend', D10; exact El|]. split; [exact W1|]. split; [exact W2|].
  split; [rewrite W4, D6, (x_now _ _ _ X); exact A5|].
  split; [rewrite W5, D8, (x_conf _ _ _ X); exact A6|].
  split; [exact Hst|]. split; [rewrite Hst, <- Hfz, <- Hid; apply Hold|]. split; [|split].
  - intros ->. rewrite Hst. unfold frozen. rewrite ev_prefix_0. cbn [fold_left fst].
    apply (resolves_here _ _ _ r0 Hs0).
    + apply durable_ref in Hd0. cbn [codec r_ref] in Hd0. congruence.
    + apply durable_content in Hd0. exact Hd0.
  - intro Hle. destruct (Hnew eq_refl) as (Hfa & Hres & _). rewrite Hst, <- Hfz.
    unfold frozen. rewrite ev_prefix_all by exact Hle. rewrite <- (ev_prefix_all l (length l)) by lia.
    fold (frozen s0 l (length l)). rewrite Hfa. rewrite A7 in Hres. exact Hres.
  - destruct Huser as [[e He]|(l0' & r1 & lR & El' & Hu1 & Hd1 & Hr1 & Hm)]; [discriminate|].
    rewrite Hid in El', Hm. exists l0', r1, lR. split; [exact El'|]. split; [exact Hu1|]. split; [exact Hd1|].
    split; [exact Hr1|]. intro Hlt. rewrite Hst. unfold frozen. rewrite El'.
    replace n with (pcalls l0' + 1 + (n - pcalls l0' - 1))%nat by lia.
    rewrite <- app_assoc. cbn [app]. rewrite (ev_prefix_past (EvSave k r1 true) lR Logic.I).
    destruct (ev_prefix_firstn lR (n - pcalls l0' - 1)) as [m ->].
    specialize (Hm m). rewrite <- app_assoc in Hm. cbn [app] in Hm. rewrite <- A2, <- A3. exact Hm.
Qed.

(* -------------------------------------------------- the request after the crash *)

(* The old ID, at every crash point: the session is served with the data it had
   when LogIn was called. The user: the pre-call user when no persistence call
   was made; the new user from the save of the session under its old ID with the
   new user attached (call number pcalls l0' + 1 of the step, which every run
   makes) onwards. *)
Theorem restart_old_login w r n k o ob u ex r2 :
  hcrash w r n k o ob [SLogIn u ex] ->
  let w' := fst (step w (HReq r)) in
  rq_plan r2 = [] -> rq_crash r2 = None -> pres w' r2 = CKey k ->
  (forall rk, lookup (store (w_st w')) k = Some rk ->
     probe_ok (conf (w_st w)) (now (w_st w)) (probe_q k r2) rk) ->
  ob_res (snd (step w' (HReq r2))) = RSess /\
  exists id rc, ob_start (snd (step w' (HReq r2))) = Some (id, rc) /\ r_ref rc = None /\
    dat rc = dat (o_rec ob) /\
    (n = 0%nat -> uid rc = uid (o_rec ob)) /\
    exists l0' r0 lR,
      rev (evs (req_end w r)) = (l0' ++ [EvSave k r0 true]) ++ lR /\ uid r0 = Some (fst u) /\
      ((pcalls l0' < n)%nat -> uid rc = Some (fst u)).
Proof.
  intros H w' Hpl Hcr Hk Hok.
  destruct (crash_store_login w r n k o ob u ex H)
    as (l & El & C1 & C2 & C3 & C4 & _ & Hold & H0 & _ & l0' & r0 & lR & Hdec & Hu0 & _ & _ & Hlate).
  fold w' in C1, C2, C3, C4, Hold, H0, Hlate.
  assert (Hok' : forall rk, lookup (store (w_st w')) k = Some rk ->
     probe_ok (conf (w_st w')) (now (w_st w')) (mkReq (CKey k) (rq_create r2) (rq_addr r2) (rq_ua r2)) rk).
  { rewrite C3, C4. exact Hok. }
  destruct (UserHist2.probe_step_gen (fun x => dat x = dat (o_rec ob)) w' r2 k
              (fun _ _ H => H) (fun _ _ H => H) (fun _ _ H => H) (fun _ _ H => H) C2 C1 Hpl Hcr Hk Hold Hok')
    as (R1 & id & rc & Hst & Href & Hd).
  split; [exact R1|]. exists id, rc. split; [exact Hst|]. split; [exact Href|]. split; [exact Hd|]. split.
  - intro Hn. destruct (UserHist2.probe_step_gen (full (dat (o_rec ob)) (uid (o_rec ob))) w' r2 k
              (fun _ _ H => H) (fun _ _ H => H) (fun _ _ H => H) (fun _ _ H => H) C2 C1 Hpl Hcr Hk (H0 Hn) Hok')
      as (_ & id' & rc' & Hst' & _ & _ & Hu').
    rewrite Hst in Hst'. injection Hst' as _ <-. exact Hu'.
  - exists l0', r0, lR. split; [rewrite <- El; exact Hdec|]. split; [exact Hu0|]. intro Hlt.
    destruct (UserHist2.probe_step_gen (fun x => dat x = dat (o_rec ob) /\ uid x = Some (fst u)) w' r2 k
              (fun _ _ H => H) (fun _ _ H => H) (fun _ _ H => H) (fun _ _ H => H) C2 C1 Hpl Hcr Hk (Hlate Hlt) Hok')
      as (_ & id' & rc' & Hst' & _ & _ & Hu').
    rewrite Hst in Hst'. injection Hst' as _ <-. exact Hu'.
Qed.

(* The new ID, when the process stopped after the last persistence call of the
   step: the session is served with the data and the new user. *)
Theorem restart_new_login w r n k o ob u ex r2 :
  hcrash w r n k o ob [SLogIn u ex] ->
  let w' := fst (step w (HReq r)) in let nid := KGen (supply (w_st w)) in
  (length (evs (req_end w r)) <= n)%nat ->
  rq_plan r2 = [] -> rq_crash r2 = None -> pres w' r2 = CKey nid ->
  (forall rk, lookup (store (w_st w')) nid = Some rk ->
     probe_ok (conf (w_st w)) (now (w_st w)) (probe_q nid r2) rk) ->
  ob_res (snd (step w' (HReq r2))) = RSess /\
  exists id rc, ob_start (snd (step w' (HReq r2))) = Some (id, rc) /\ r_ref rc = None /\
                dat rc = dat (o_rec ob) /\ uid rc = Some (fst u).
Proof.
  intros H w' nid Hn Hpl Hcr Hk Hok.
  destruct (crash_store_login w r n k o ob u ex H)
    as (l & El & C1 & C2 & C3 & C4 & _ & _ & _ & Hnew & _).
  fold w' in C1, C2, C3, C4, Hnew.
  assert (Hok' : forall rk, lookup (store (w_st w')) nid = Some rk ->
     probe_ok (conf (w_st w')) (now (w_st w')) (mkReq (CKey nid) (rq_create r2) (rq_addr r2) (rq_ua r2)) rk).
  { rewrite C3, C4. exact Hok. }
  assert (Hle : (length l <= n)%nat) by (rewrite El, rev_length; exact Hn).
  destruct (UserHist2.probe_step_gen (fun x => dat x = dat (o_rec ob) /\ uid x = Some (fst u)) w' r2 nid
              (fun _ _ H => H) (fun _ _ H => H) (fun _ _ H => H) (fun _ _ H => H) C2 C1 Hpl Hcr Hk (Hnew Hle) Hok')
    as (R1 & id & rc & Hst & Href & Hd & Hu).
  split; [exact R1|]. exists id, rc. auto.
Qed.

Lemma hcrash_meaning w r n k o ob script :
  hcrash w r n k o ob script <->
  sess_inv (w_st w) /\ rq_plan r = [] /\ rq_crash r = Some n /\ rq_script r = script /\
  pres w r = CKey k /\ lookup (cache (w_st w)) k = Some o /\ hget (w_st w) o = Some ob /\
  r_ref (o_rec ob) = None /\
  (exists r0, lookup (store (w_st w)) k = Some r0 /\ durable r0 = durable (codec (conf (w_st w)) (o_rec ob))) /\
  rec_valid (conf (w_st w)) (now (w_st w)) (req_q w r) (o_rec ob) = true /\
  (c_idexpiry (conf (w_st w)) <=? since (r_created (o_rec ob)) (now (w_st w))) = false /\
  (sat_add (c_idexpiry (conf (w_st w))) (c_grace (conf (w_st w))) <=? since (r_created (o_rec ob)) (now (w_st w))) = false /\
  0 < c_grace (conf (w_st w)) /\
  (forall d k', In (d, k') (pending (w_st w)) -> now (w_st w) < d).
Proof.
  split.
  - intros [H1 H2 H3 H4 H5 H6 H7 H8 H9 H10 H11 H12 H13 H14].
    exact (conj H1 (conj H2 (conj H3 (conj H4 (conj H5 (conj H6 (conj H7 (conj H8 (conj H9 (conj H10 (conj H11 (conj H12 (conj H13 H14))))))))))))).
  - intros (H1&H2&H3&H4&H5&H6&H7&H8&H9&H10&H11&H12&H13&H14).
    exact (mkHC _ _ _ _ _ _ _ H1 H2 H3 H4 H5 H6 H7 H8 H9 H10 H11 H12 H13 H14).
Qed.
