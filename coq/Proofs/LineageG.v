(* Round 4, task R4(a), second follow-up: the development of LineageE.v,
   LineageE2.v (the events of a step) and of the crash step of LineageF.v for ANY
   predicate QX riding with C05H's invariant (Section Ride of Lineage5.v) that
   comes with a constraint KX on (key, reference field) of written records:

   QX s            a state predicate kept by quiet changes, creation, replacement,
                   deletion and the clean-up pass (the hypotheses of Ride);
   KX k x          what the reference field x of a record written under k must
                   satisfy; QX gives it of every stored record (KX_sref), of the
                   next ID with no reference (KX_fresh), of a session's ID with a
                   reference to the next ID (KX_repl); and a store all of whose
                   records satisfy KX re-establishes QX (QX_crash).
   Instances: the lineage (QD D; LineageE.v does it directly) and, in
   LineageG2.v, one immutable replaced-ID record (QI k j of Lineage5.v).

   LXb s = GWb hb (Q2 QX) s, the invariant between steps at heap mark hb:
   LXb_step (crash-free steps), step_events, crash_LXb (a stop after any number of
   persistence calls). The proofs are those of the files named; read them there.

   No axioms; standard library only. *)
From Sessions Require Import Model.Base Model.Sess Model.Hist Proofs.SessDefs
  Proofs.HistInv Proofs.HistInv2 Proofs.HistInv3 Proofs.HistLift Proofs.HistLift2 Proofs.HistLift3
  Proofs.HistLift4 Proofs.HistLiftB Proofs.Lineage Proofs.Lineage2 Proofs.Lineage5 Proofs.LineageB
  Proofs.LineageK Proofs.LineageK2 Proofs.LineageK3 Proofs.LineageK4.
From Sessions Require Proofs.CrashFault Proofs.CrashFault2 Proofs.CrashFault3 Proofs.CrashFault4 Proofs.CrashFault13.
From Coq Require Import Lia.

Section Gen.
  Variable hb : nat.    (* the heap mark *)
  Variable QX : st -> Prop.
  Hypothesis QX_same : forall s s', (forall k, sref s' k = sref s k) -> supply s' = supply s -> QX s -> QX s'.
  Hypothesis QX_new : forall s s' k, eff_new s s' k -> QX s -> QX s'.
  Hypothesis QX_repl : forall s s' k, eff_repl s s' k -> QX s -> QX s'.
  Hypothesis QX_del : forall s s' k, eff_del s s' k -> QX s -> QX s'.
  Hypothesis QX_fire : forall s s', eff_fire s s' -> QX s -> QX s'.
  Variable KX : key -> option key -> Prop.
  Hypothesis KX_sref : forall s k x, QX s -> sref s k = Some x -> KX k x.
  Hypothesis KX_fresh : forall s, QX s -> KX (KGen (supply s)) None.
  Hypothesis KX_repl : forall s k, QX s -> sref s k = Some None -> KX k (Some (KGen (supply s))).
  Hypothesis QX_crash : forall s s', QX s -> (supply s <= supply s')%N ->
    (forall k r, lookup (store s') k = Some r -> KX k (r_ref r)) -> QX s'.

  Notation QQ := (Q2 QX).
  Definition QQ_qt := Q2_qt QX QX_same.
  Definition QQ_new := Q2_new QX QX_new.
  Definition QQ_repl := Q2_repl QX QX_repl.
  Definition QQ_del := Q2_del QX QX_del.
  Definition QQ_fire := Q2_fire QX QX_fire.
  Definition QQ_same := Q2_same QX QX_same.

  Definition LXb (s : st) : Prop := GWb hb QQ s.

  Definition K (k : key) (r : rec) : Prop :=
    KX k (r_ref r) /\
    (forall x, r_ref r = Some x -> exists m, x = KGen m /\ forall j, k = KGen j -> (j < m)%N).

  Definition EL (e : ev) : Prop := match e with EvSave k r _ => K k r | _ => True end.

  Definition evs_ok (s s' : st) : Prop := exists l, CrashFault.ext s s' l /\ Forall EL l.

  Lemma K_ref k r r' : r_ref r' = r_ref r -> K k r -> K k r'.
  Proof. intros E H. unfold K. rewrite E. exact H. Qed.

  Lemma K_codec cf k r : K k r -> K k (codec cf r).
  Proof. apply K_ref. reflexivity. Qed.
  Lemma K_access k r t : K k r -> K k (set_access r t).
  Proof. apply K_ref. reflexivity. Qed.
  Lemma K_created k r t : K k r -> K k (set_created r t).
  Proof. apply K_ref. reflexivity. Qed.
  Lemma K_user k r u : K k r -> K k (set_user r u).
  Proof. apply K_ref. reflexivity. Qed.

  Lemma K_sess k r : KX k None -> r_ref r = None -> K k r.
  Proof. intros Hn Hr. split; [rewrite Hr; exact Hn | intros x Hx; rewrite Hr in Hx; discriminate]. Qed.

  Lemma QK_EL e : CrashFault2.QK K e -> EL e.
  Proof. intros (_ & _ & H). destruct e; try exact Logic.I. cbn [EL]. eapply H. reflexivity. Qed.

  Lemma QKs_EL l : Forall (CrashFault2.QK K) l -> Forall EL l.
  Proof. apply Forall_impl. exact QK_EL. Qed.

  Lemma evs_ok_refl s : evs_ok s s.
  Proof. exists []. split; [apply CrashFault.ext_refl | constructor]. Qed.

  Lemma evs_ok_trans s1 s2 s3 : evs_ok s1 s2 -> evs_ok s2 s3 -> evs_ok s1 s3.
  Proof.
    intros (l1 & X1 & H1) (l2 & X2 & H2). exists (l1 ++ l2).
    split; [eapply CrashFault.ext_trans; eassumption | apply Forall_app; split; assumption].
  Qed.

  Lemma evs_ok_mem s s' : CrashFault.ext s s' [] -> evs_ok s s'.
  Proof. intro X. exists []. split; [exact X | constructor]. Qed.

  Lemma evs_ok_hupd s o f : evs_ok s (hupd s o f).
  Proof. apply evs_ok_mem. apply CrashFault.ext_hupd. Qed.

  (* ------------------------------------------------ what G gives *)

  Lemma G_cok base s : Gb hb QQ base s -> CrashFault4.cok s.
  Proof.
    intros (I & _) k o ob Hin Ho.
    pose proof (CrashFault.NoDup_lookup _ _ _ (i_ndc _ _ _ _ _ I) Hin) as Hl.
    destruct (i_cok _ _ _ _ _ I k o Hl) as (ob' & Ho' & [E|[]]). congruence.
  Qed.

  Lemma sref_K s k x : QX s -> RWs s -> sref s k = Some x -> forall r, r_ref r = x -> K k r.
  Proof.
    intros Hq Hw Hs r Hr. split.
    - rewrite Hr. exact (KX_sref s k x Hq Hs).
    - intros y Hy. rewrite Hr in Hy. subst x. rewrite Hy in Hs. destruct (Hw k y Hs) as (m & -> & _ & Hj). exists m. split; [reflexivity | exact Hj].
  Qed.

  Lemma G_J base s : Gb hb QQ base s -> CrashFault2.J K s.
  Proof.
    intros (I & Kc & _ & [[Hw _] Hq]). split; [|split].
    - intros k o Hin. pose proof (CrashFault.NoDup_lookup _ _ _ (i_ndc _ _ _ _ _ I) Hin) as Hl.
      destruct (i_cok _ _ _ _ _ I k o Hl) as (ob & Ho & _). eapply hget_Some_lt. exact Ho.
    - intros k o ob Hin Ho. pose proof (CrashFault.NoDup_lookup _ _ _ (i_ndc _ _ _ _ _ I) Hin) as Hl.
      exact (sref_K s k _ Hq Hw (Kc k o ob Hl Ho) _ eq_refl).
    - intros k r Hl. exact (sref_K s k _ Hq Hw (sref_lookup _ _ _ Hl) _ eq_refl).
  Qed.

  (* the next ID may carry a session *)
  Lemma G_fresh base s : Gb hb QQ base s -> KX (KGen (supply s)) None.
  Proof. intros (_ & _ & _ & [_ Hq]). exact (KX_fresh s Hq). Qed.

  (* the handler's session may be written under its ID, and that ID is drawn *)
  Lemma hg_K base s o ob : Gb hb QQ base s -> hg s o -> hget s o = Some ob ->
    K (o_id ob) (o_rec ob) /\ KX (o_id ob) (Some (KGen (supply s))) /\ key_drawn s (o_id ob).
  Proof.
    intros Hg (ob' & Ho' & Hr & Hs) Ho. rewrite Ho in Ho'. injection Ho' as <-.
    pose proof Hg as (I & _ & _ & [_ Hq]).
    split; [apply K_sess; [exact (KX_sref s _ _ Hq Hs) | exact Hr]|]. split; [exact (KX_repl s _ Hq Hs)|].
    unfold sref in Hs. destruct (lookup (store s) (o_id ob)) as [r|] eqn:Hl; [|discriminate].
    apply lookup_In in Hl. apply (i_fs _ _ _ _ _ I _ _ Hl).
  Qed.

  (* ------------------------------------------------ the building blocks *)

  Lemma E_cache_get base s k s' r : Gb hb QQ base s -> cache_get s k = (s', r) -> evs_ok s s'.
  Proof.
    intros Hg E. destruct (CrashFault2.cache_get_safe K K_codec s k s' r (G_J _ _ Hg) E) as (l & X & HQ & _).
    exists l. split; [exact X | apply QKs_EL; exact HQ].
  Qed.

  Lemma E_cache_delete s k s' b : cache_delete s k = (s', b) -> evs_ok s s'.
  Proof.
    unfold cache_delete. intro E. apply CrashFault.p_delete_spec in E. destruct E as (_ & X & _).
    exists ([] ++ [EvDelete k b]). split; [eapply CrashFault.ext_trans; [apply CrashFault.ext_set_cache | exact X]|].
    repeat constructor.
  Qed.

  Lemma E_cache_set base s o ob s' b : Gb hb QQ base s -> hget s o = Some ob -> K (o_id ob) (o_rec ob) ->
    cache_set s o = (s', b) -> evs_ok s s'.
  Proof.
    intros Hg Ho HK E.
    destruct (CrashFault2.cache_set_safe K K_codec K_access s o ob s' b (G_J _ _ Hg) Ho E)
      as (l & X & HQ & _ & _ & _ & _ & _ & _ & HJ & _).
    destruct (HJ HK) as [_ HQp].
    exists (l ++ [CrashFault2.prim_save s ob b]). split; [exact X|].
    apply Forall_app. split; [apply QKs_EL; exact HQ | constructor; [apply QK_EL; exact HQp | constructor]].
  Qed.

  Lemma E_save_direct s o ob s' r : hget s o = Some ob -> K (o_id ob) (o_rec ob) ->
    save_direct s o = (s', r) -> evs_ok s s'.
  Proof.
    intros Ho HK. unfold save_direct. rewrite Ho.
    destruct (p_save s (o_id ob) (o_rec ob)) as [s1 ok] eqn:E. intro E'. injection E' as <- _.
    apply CrashFault.p_save_spec in E. destruct E as (_ & X & _).
    eexists. split; [exact X|]. constructor; [|constructor]. cbn [EL]. apply K_codec. exact HK.
  Qed.

  Lemma E_regenerate base s o s' res cks : Gb hb QQ base s -> hg s o -> regenerate s o = (s', res, cks) -> evs_ok s s'.
  Proof.
    intros Hg Hh E. pose proof Hh as (ob & Ho & Hr & Hs). pose proof Hg as (I & _).
    destruct (hg_K _ _ _ _ Hg Hh Ho) as (HK & HnD & Hkd).
    assert (Hnc : forall o', ~ In (KGen (supply s), o') (cache s)).
    { intros o' Hin. destruct (i_fc _ _ _ _ _ I _ _ Hin) as [Hk _]. cbn [kd] in Hk. lia. }
    assert (HKn : K (KGen (supply s)) (o_rec ob)) by (apply K_sess; [exact (G_fresh _ _ Hg) | exact Hr]).
    destruct (CrashFault3.regenerate_safe K K K_codec K_access K_created K_codec K_access K_created
                s o ob s' res cks (G_J _ _ Hg) Ho E Hnc HKn HKn (fun _ _ _ H => H)) as (l1 & b1 & HQ1 & HK1 & _ & Hcase).
    cbv zeta in Hcase.
    destruct Hcase as [(_ & X & _)|(_ & l2 & rr & b2 & HQ2 & Hrr & X & _)].
    - eexists. split; [exact X|]. constructor; [exact Logic.I|].
      apply Forall_app. split; [apply QKs_EL; exact HQ1 | constructor; [exact HK1 | constructor]].
    - eexists. split; [exact X|]. constructor; [exact Logic.I|].
      apply Forall_app. split; [apply QKs_EL; exact HQ1|]. constructor; [exact HK1|].
      apply Forall_app. split; [apply QKs_EL; exact HQ2|]. constructor; [|constructor].
      cbn [EL]. split; [rewrite Hrr; exact HnD|].
      intros x Hx. rewrite Hrr in Hx. injection Hx as <-. exists (supply s). split; [reflexivity|].
      intros j Hj. unfold key_drawn in Hkd. rewrite Hj in Hkd. exact Hkd.
  Qed.

  Lemma E_create base s q s' res cks : Gb hb QQ base s -> create_session s q = (s', res, cks) -> evs_ok s s'.
  Proof.
    intros Hg E. pose proof Hg as (I & _). assert (F : ffnd s) by (eapply inv_ffnd; exact I).
    rewrite (create_session_ff s q F) in E. injection E as <- _ _.
    (* events: the draw, then cache.Set of the new object *)
    set (s1 := drawn1 s). set (s2 := fst (halloc s1 (newobj s q))).
    assert (X1 : CrashFault.ext s s1 [EvDraw (supply s)]) by apply (CrashFault.gen_id_spec s).
    assert (HJ2 : CrashFault2.J K s2).
    { apply CrashFault2.J_halloc. eapply CrashFault2.J_same; [| | |exact (G_J _ _ Hg)]; reflexivity. }
    assert (H2 : hget s2 (length (heap s)) = Some (newobj s q)) by (unfold s2, s1; rewrite hget_halloc; sst; rewrite Nat.eqb_refl; reflexivity).
    assert (F2 : ffnd s2) by exact F.
    pose proof (cache_set_ff s2 _ _ F2 H2) as E2.
    destruct (CrashFault2.cache_set_safe K K_codec K_access s2 _ _ _ _ HJ2 H2 E2)
      as (l & X & HQ & _ & _ & _ & _ & _ & _ & HJ & _).
    assert (HKn : K (KGen (supply s)) (o_rec (newobj s q))) by (apply K_sess; [exact (G_fresh _ _ Hg) | reflexivity]).
    destruct (HJ HKn) as [_ HQp].
    eexists. split.
    - eapply CrashFault.ext_trans; [exact X1|]. eapply CrashFault.ext_trans; [apply CrashFault.ext_halloc | exact X].
    - constructor; [exact Logic.I|]. cbn [app]. apply Forall_app.
      split; [apply QKs_EL; exact HQ | constructor; [apply QK_EL; exact HQp | constructor]].
  Qed.

  Lemma E_fire : forall l s s' rest, fire s l = (s', rest) -> evs_ok s s'.
  Proof.
    induction l as [|[due k] t IH]; intros s s' rest E; cbn [fire] in E.
    - injection E as <- _. apply evs_ok_refl.
    - destruct (due <=? now s)%Z.
      + destruct (cache_delete s k) as [s1 b] eqn:Ed. eapply evs_ok_trans; [exact (E_cache_delete _ _ _ _ Ed) | exact (IH _ _ _ E)].
      + destruct (fire s t) as [s1 r1] eqn:Ef. injection E as <- _. exact (IH _ _ _ Ef).
  Qed.

  Lemma E_fire_due s : evs_ok s (fire_due s).
  Proof.
    unfold fire_due. destruct (fire (set_pending s []) (pending s)) as [s1 rest] eqn:E.
    eapply evs_ok_trans; [apply evs_ok_mem; apply CrashFault.ext_set_pending|].
    eapply evs_ok_trans; [exact (E_fire _ _ _ _ E) | apply evs_ok_mem; apply CrashFault.ext_set_pending].
  Qed.

  (* following replaced-ID records *)
  Lemma E_follow base : forall fuel s o lk, Gb hb QQ base s -> hok hb ND s o -> sc s o ->
    evs_ok s (fst (follow fuel s o lk)).
  Proof.
    induction fuel as [|f IH]; intros s o lk Hg Hok Hsc; pose proof Hok as [_ [ob [Ho _]]]; cbn [follow]; rewrite Ho.
    - destruct (r_ref (o_rec ob)); apply evs_ok_refl.
    - destruct (r_ref (o_rec ob)) as [t|] eqn:Hr; [|apply evs_ok_refl].
      pose proof Hg as (I & Kc & _).
      destruct (cache_get_inv _ _ _ _ _ t I) as (s1 & r & E & I1 & Hres).
      destruct (cache_get_qt _ _ _ _ t I Kc) as (Qt & K1 & Hobj).
      pose proof (E_cache_get _ _ _ _ _ Hg E) as Ev1. rewrite E in *. cbn [fst snd] in *.
      assert (G1 : Gb hb QQ base s1) by (eapply (Gb_qt hb QQ QQ_qt); eassumption).
      destruct r as [o'|]; [|exact Ev1].
      destruct Hres as [Hbo (ob' & Ho' & _ & Hn & _)]. destruct (Hobj o' eq_refl) as (ob2 & Ho2 & Hid & Hs).
      eapply evs_ok_trans; [exact Ev1|]. apply IH; [exact G1 | split; [exact Hbo | exists ob'; split; [exact Ho' | intros []]]|].
      exists ob2. split; [exact Ho2 | rewrite Hid; exact Hs].
  Qed.

  (* LogOut(userID) (also inside an exclusive LogIn) *)
  Lemma E_logout_user base s u s' r : Gb hb QQ base s -> logout_user s u = (s', r) -> evs_ok s s'.
  Proof.
    intros Hg E.
    destruct (CrashFault4.logout_user_safe K K_codec K_access K_user s u s' r (G_J _ _ Hg) (G_cok _ _ Hg) E) as (l & X & HQ & _).
    exists l. split; [exact X | apply QKs_EL; exact HQ].
  Qed.
  (* RefreshUser(user) *)
  Lemma E_refresh_user base s u s' r : Gb hb QQ base s -> refresh_user s u = (s', r) -> evs_ok s s'.
  Proof.
    intros Hg E. unfold refresh_user in E. destruct (p_usersessions s (fst u)) as [s1 lst] eqn:EU.
    apply CrashFault.p_usersessions_spec in EU. destruct EU as ((Hh & Hca & _) & Hst & _ & ok & X & _).
    assert (Ev1 : evs_ok s s1) by (exists [EvUserSessions (fst u) ok]; split; [exact X | repeat constructor]).
    destruct lst as [ids|]; [|injection E as <- _; exact Ev1].
    assert (HJ1 : CrashFault2.J K s1) by (eapply CrashFault2.J_same; [exact Hh | exact Hca | exact Hst | exact (G_J _ _ Hg)]).
    assert (Hc1 : CrashFault4.cok s1).
    { intros k0 o0 ob0 H H0. rewrite Hca in H. unfold hget in H0. rewrite Hh in H0. exact (G_cok _ _ Hg k0 o0 ob0 H H0). }
    destruct (CrashFault4.each_user_session_safe K K_codec K_access K_user ids (Some u) s1 s' r HJ1 Hc1 E) as (l & X2 & HQ & _).
    eapply evs_ok_trans; [exact Ev1|]. exists l. split; [exact X2 | apply QKs_EL; exact HQ].
  Qed.

  Lemma G_qt1 base s s' : inv hb base NX ND s' -> Kcs s' -> qt s s' -> Gb hb QQ base s -> Gb hb QQ base s'.
  Proof. apply (Gb_qt hb QQ QQ_qt). Qed.

  Lemma hget_hupd_same s o ob f : hget s o = Some ob -> hget (hupd s o f) o = Some (mkObj (o_id ob) (f (o_rec ob))).
  Proof. intro Ho. rewrite (CrashFault.hupd_spec _ _ _ _ Ho). apply hget_hput_same. eapply hget_Some_lt. exact Ho. Qed.

  (* update the handler's object, then save it directly *)
  Lemma E_upd_save s o ob f : hget s o = Some ob -> K (o_id ob) (o_rec ob) -> (forall r, r_ref (f r) = r_ref r) ->
    evs_ok s (fst (save_direct (hupd s o f) o)).
  Proof.
    intros Ho HK Hf. destruct (save_direct (hupd s o f) o) as [s' r] eqn:E. cbn [fst].
    eapply evs_ok_trans; [apply evs_ok_hupd|].
    eapply (E_save_direct _ o _ s' r (hget_hupd_same s o ob f Ho)); [|exact E].
    cbn [o_id o_rec]. eapply K_ref; [apply Hf | exact HK].
  Qed.

  (* ---------------------------------------------------------------- Start *)

  Lemma E_start_none base s q cks0 : Gb hb QQ base s -> evs_ok s (fst (fst (start_none s q cks0))).
  Proof.
    intro Hg. unfold start_none. destruct (q_create q); [|apply evs_ok_refl].
    destruct (create_session s q) as [[s1 r1] c1] eqn:E. cbn [fst]. exact (E_create _ _ _ _ _ _ Hg E).
  Qed.

  Lemma E_start_found base c s q k o ob cks :
    Gb hb QQ base s -> hb <= o -> hget s o = Some ob -> o_id ob = k -> sc s o ->
    evs_ok s (fst (fst (start_found c s q k o ob cks))).
  Proof.
    intros Hg Hbo Ho Hid Hsc. pose proof Hg as (I & Kc & P & Hq).
    assert (F : ffnd s) by (eapply inv_ffnd; exact I). assert (Hp : plan s = []) by apply F.
    assert (Hs : sref s (o_id ob) = Some (r_ref (o_rec ob))).
    { destruct Hsc as (ob' & Ho' & Hs). rewrite Ho in Ho'. injection Ho' as <-. exact Hs. }
    assert (Hdel : forall k', evs_ok s (fst (cache_delete s k'))).
    { intro k'. destruct (cache_delete s k') as [s1 okd] eqn:Ed. exact (E_cache_delete _ _ _ _ Ed). }
    destruct (rec_valid c (now s) q (o_rec ob)) eqn:Hv.
    - destruct (r_ref (o_rec ob)) as [t|] eqn:Hr.
      + destruct (sat_add (c_idexpiry c) (c_grace c) <=? since (r_created (o_rec ob)) (now s))%Z eqn:Hb.
        * rewrite sf_backstop; [| exact Hp | exact Hv | unfold isref; rewrite Hr; reflexivity | exact Hb]. apply Hdel.
        * rewrite (sf_ref _ _ _ _ _ _ _ t Hv Hr Hb).
          assert (Hok : hok hb ND s o) by (split; [exact Hbo | exists ob; split; [exact Ho | intros []]]).
          pose proof (E_follow base (S (N.to_nat (supply s))) s o k Hg Hok Hsc) as Ef.
          destruct (follow (S (N.to_nat (supply s))) s o k) as [s1 [[o' lk']|e|e]]; cbn [fst] in *; try exact Ef.
          eapply evs_ok_trans; [exact Ef | apply evs_ok_hupd].
      + assert (Hh : hg s o) by (exists ob; split; [exact Ho | split; [exact Hr | exact Hs]]).
        destruct (c_idexpiry c <=? since (r_created (o_rec ob)) (now s))%Z eqn:Ha.
        * rewrite (sf_rotate _ _ _ _ _ _ _ F Ho Hv Hr Ha). cbn [fst].
          eapply evs_ok_trans; [|apply evs_ok_hupd].
          exact (E_regenerate _ _ _ _ _ _ Hg Hh (regenerate_ff _ _ _ F Ho)).
        * destruct (sat_add (c_idexpiry c) (c_grace c) <=? since (r_created (o_rec ob)) (now s))%Z eqn:Hb.
          -- rewrite sf_backstop; [| exact Hp | exact Hv | rewrite Ha; apply andb_false_r | exact Hb]. apply Hdel.
          -- rewrite (sf_plain _ _ _ _ _ _ _ Hv Hr Ha Hb). apply evs_ok_hupd.
    - rewrite (sf_invalid c s q k o ob cks Hp Ho Hv).
      destruct (cdel_Gb hb QQ DEL0 QQ_del base s (o_id ob) Hg Logic.I) as (G1 & _).
      destruct (q_create q); [|apply Hdel].
      destruct (create_session (fst (cache_delete s (o_id ob))) q) as [[s2 r2] c2] eqn:Ec. cbn [fst].
      eapply evs_ok_trans; [apply Hdel | exact (E_create _ _ _ _ _ _ G1 Ec)].
  Qed.

  Theorem E_start base s q : Gb hb QQ base s -> evs_ok s (fst (fst (start s q))).
  Proof.
    intros Hg. pose proof Hg as (I & Kc & P & Hq). rewrite start_eq.
    destruct (q_cookie q) as [|k|n]; try (apply (E_start_none base); exact Hg).
    destruct (cache_get_inv _ _ _ _ _ k I) as (s1 & r & E & I1 & Hr).
    destruct (cache_get_qt _ _ _ _ k I Kc) as (Qt & K1 & Hobj).
    pose proof (E_cache_get _ _ _ _ _ Hg E) as Ev1. rewrite E in *. cbn [fst snd] in *.
    assert (G1 : Gb hb QQ base s1) by (eapply G_qt1; eassumption).
    destruct r as [o|].
    - destruct Hr as [Hbo [ob (Ho & _)]]. destruct (Hobj o eq_refl) as (ob' & Ho' & Hid & Hs).
      rewrite Ho in Ho'. injection Ho' as <-. rewrite Ho.
      eapply evs_ok_trans; [exact Ev1|]. apply (E_start_found base); [exact G1 | exact Hbo | exact Ho | exact Hid|].
      exists ob. split; [exact Ho | rewrite Hid; exact Hs].
    - eapply evs_ok_trans; [exact Ev1 | apply (E_start_none base); exact G1].
  Qed.

  (* ----------------------------------------------------- handler operations *)

  Lemma E_logout base s o : Gb hb QQ base s -> hg s o -> evs_ok s (fst (logout s o)).
  Proof.
    intros Hg Hh. pose proof Hh as (ob & Ho & _). destruct (hg_K _ _ _ _ Hg Hh Ho) as (HK & _).
    unfold logout. rewrite Ho. destruct (r_user (o_rec ob)); [|apply evs_ok_refl].
    apply (E_upd_save s o ob); [exact Ho | exact HK | reflexivity].
  Qed.

  Lemma E_login base s o u ex : Gb hb QQ base s -> hb <= o -> hg s o -> evs_ok s (fst (fst (login s o u ex))).
  Proof.
    intros Hg Hbo Hh. pose proof Hg as (I & Kc & P & Hq). pose proof (hg_hokb _ _ _ Hbo Hh) as Hok. unfold login.
    assert (Hpre : exists s1, (if ex then logout_user s (fst u) else let '(s0, _) := logout s o in (s0, Ok tt)) = (s1, Ok tt)
                              /\ inv hb base NX ND s1 /\ Kcs s1 /\ qt s s1 /\ evs_ok s s1).
    { destruct ex.
      - destruct (logout_user_inv _ _ _ _ (fst u) I) as (s1 & E & I1 & _).
        destruct (logout_user_qt _ _ _ _ (fst u) I Kc) as [Qa Ka].
        pose proof (E_logout_user _ _ _ _ _ Hg E) as Ev. rewrite E in *. cbn [fst] in *.
        exists s1. auto.
      - destruct (logout_inv _ _ _ _ _ I Hok) as (s1 & E & I1 & _).
        destruct (logout_qt s o (i_plan _ _ _ _ _ I) Kc (hg_sc _ _ Hh)) as [Qa Ka].
        pose proof (E_logout base s o Hg Hh) as Ev. rewrite E in *. cbn [fst] in *.
        exists s1. auto. }
    destruct Hpre as (s1 & E1 & I1 & Ka & Qa & Ev1). rewrite E1.
    assert (H1 : hg s1 o) by (eapply hg_qt; eassumption).
    destruct (hupd_qt s1 o (fun r => set_user r (Some u)) (fun _ => eq_refl) Ka) as [Qb Kb].
    set (s2 := hupd s1 o (fun r => set_user r (Some u))) in *.
    assert (I2 : inv hb base NX ND s2) by (apply inv_hupd; [exact I1 | reflexivity]).
    assert (H2 : hg s2 o) by (eapply hg_qt; eassumption).
    assert (Q12 : qt s s2) by (eapply qt_trans; eassumption).
    assert (G2 : Gb hb QQ base s2) by (eapply G_qt1; eassumption).
    pose proof H2 as (ob2 & Ho2 & Hr2 & Hs2).
    assert (F2 : ffnd s2) by (eapply inv_ffnd; exact I2).
    pose proof (cache_set_ff _ _ _ F2 Ho2) as Ecs. rewrite Ecs. cbn [negb].
    destruct (hg_K _ _ _ _ G2 H2 Ho2) as (HK2 & _).
    pose proof (E_cache_set _ _ _ _ _ _ G2 Ho2 HK2 Ecs) as Ev3.
    assert (Hs2' : sref s2 (o_id ob2) = Some (r_ref (o_rec ob2))) by (rewrite Hs2, Hr2; reflexivity).
    destruct (cset_qt _ _ _ _ _ _ _ I2 Kb Ho2 Hs2') as [Qc Kc3].
    assert (I3 : inv hb base NX ND (cset s2 o ob2)) by (apply inv_cset; [exact I2 | exact Ho2 | exact Hbo | intros []]).
    assert (Q13 : qt s (cset s2 o ob2)) by (eapply qt_trans; eassumption).
    assert (G3 : Gb hb QQ base (cset s2 o ob2)) by (eapply G_qt1; eassumption).
    assert (H3 : hg (cset s2 o ob2) o) by (eapply hg_qt; eassumption).
    destruct (regenerate (cset s2 o ob2) o) as [[s4 r4] c4] eqn:E4.
    pose proof (E_regenerate _ _ _ _ _ _ G3 H3 E4) as Ev4.
    assert (Ev : evs_ok s s4).
    { eapply evs_ok_trans; [exact Ev1|]. eapply evs_ok_trans; [apply evs_ok_hupd|]. fold s2.
      eapply evs_ok_trans; [exact Ev3 | exact Ev4]. }
    destruct r4; exact Ev.
  Qed.

  Theorem E_do_sop base s o hc op : Gb hb QQ base s -> hb <= o -> hg s o -> evs_ok s (fst (fst (do_sop s o hc op))).
  Proof.
    intros Hg Hbo Hh. pose proof Hh as (ob & Ho & _). destruct (hg_K _ _ _ _ Hg Hh Ho) as (HK & _).
    pose proof Hg as (I & _). assert (Hp : plan s = []) by apply (i_plan _ _ _ _ _ I).
    destruct op as [k v|k|k|k|u ex| | |]; cbn [do_sop].
    - unfold data_of. rewrite Ho. destruct (r_data (o_rec ob)) as [d|]; [|apply evs_ok_refl].
      pose proof (E_upd_save s o ob (fun r => set_data r (Some (kv_set d k v))) Ho HK (fun _ => eq_refl)) as Ev.
      destruct (save_direct _ o) as [s' r]. exact Ev.
    - unfold data_of. rewrite Ho. destruct (r_data (o_rec ob)) as [d|].
      + pose proof (E_upd_save s o ob (fun r => set_data r (Some (kv_del d k))) Ho HK (fun _ => eq_refl)) as Ev.
        destruct (save_direct _ o) as [s' r]. exact Ev.
      + destruct (save_direct s o) as [s' r] eqn:E. exact (E_save_direct _ _ _ _ _ Ho HK E).
    - apply evs_ok_refl.
    - unfold data_of. rewrite Ho. destruct (r_data (o_rec ob)) as [d|]; [|apply evs_ok_refl].
      destruct (kv_get d k); [|apply evs_ok_refl].
      pose proof (E_upd_save s o ob (fun r => set_data r (Some (kv_del d k))) Ho HK (fun _ => eq_refl)) as Ev.
      destruct (save_direct _ o) as [s' r]. exact Ev.
    - pose proof (E_login base s o u ex Hg Hbo Hh) as Ev. destruct (login s o u ex) as [[s' r] c]. exact Ev.
    - pose proof (E_logout base s o Hg Hh) as Ev. destruct (logout s o) as [s' r]. exact Ev.
    - destruct (regenerate s o) as [[s' r] c] eqn:E. exact (E_regenerate _ _ _ _ _ _ Hg Hh E).
    - rewrite (destroy_ff _ _ _ _ Hp Ho). cbn [fst].
      destruct (cache_delete s (o_id ob)) as [s1 okd] eqn:Ed. exact (E_cache_delete _ _ _ _ Ed).
  Qed.

  (* ---------------------------------------------------------------- scripts *)

  Theorem E_run_script base hc : forall ops s o, Gb hb QQ base s -> hb <= o -> hg s o ->
    evs_ok s (fst (fst (run_script s o hc ops))).
  Proof.
    induction ops as [|op t IH]; intros s o Hg Hbo Hh; cbn [run_script]; [apply evs_ok_refl|].
    pose proof (E_do_sop base s o hc op Hg Hbo Hh) as Ev1.
    destruct (do_sop_Gb hb QQ DEL0 QQ_qt QQ_repl QQ_del base s o hc op Hg Hbo Hh) as (s1 & r & cks & E & G1 & _ & H1 & _).
    { intros _ ob _. exact Logic.I. }
    rewrite E in *. cbn [fst] in Ev1.
    destruct (fire_due_Gb hb QQ FOK0 QQ_fire _ _ G1 Logic.I) as (G2 & _ & H2 & _).
    assert (Ev2 : evs_ok s (fire_due s1)) by (eapply evs_ok_trans; [exact Ev1 | apply E_fire_due]).
    assert (Hdec : op = SDestroy \/ op <> SDestroy) by (destruct op; ((left; reflexivity) || (right; discriminate))).
    destruct Hdec as [->|Hop]; [exact Ev2|].
    match goal with |- context [if ?c then _ else _] => destruct c end; [exact Ev2|].
    pose proof (IH (fire_due s1) o G2 Hbo (H2 o (H1 Hop))) as Ev3.
    destruct (run_script (fire_due s1) o hc t) as [[s' rs] cks']. cbn [fst] in *.
    eapply evs_ok_trans; eassumption.
  Qed.

  Theorem E_req_body base s q script : Gb hb QQ base s ->
    evs_ok s (fst (fst (fst (fst (fst (req_body s q script)))))).
  Proof.
    intro Hg. unfold req_body. pose proof (E_start base s q Hg) as Ev1.
    destruct (start_Gb hb QQ DEL0 QQ_qt QQ_new QQ_repl QQ_del base s q Hg) as (s2 & res & cks & E & G2 & _ & H2 & _).
    { intros; exact Logic.I. }
    rewrite E in *. cbn [fst] in Ev1.
    destruct (fire_due_Gb hb QQ FOK0 QQ_fire _ _ G2 Logic.I) as (G3 & _ & H3 & _).
    assert (Ev2 : evs_ok s (fire_due s2)) by (eapply evs_ok_trans; [exact Ev1 | apply E_fire_due]).
    destruct res as [[o|]|e|e]; try exact Ev2.
    pose proof (E_run_script base (had_cookie q) script (fire_due s2) o G3 (proj1 (H2 o eq_refl)) (H3 o (proj1 (proj2 (H2 o eq_refl))))) as Ev3.
    cbv zeta. destruct (run_script (fire_due s2) o (had_cookie q) script) as [[s3 sr] cks']. cbn [fst] in *.
    eapply evs_ok_trans; eassumption.
  Qed.

  (* ---------------------------------------------------------------- whole steps *)

  Theorem step_events w r : LXb (w_st w) -> rq_plan r = [] ->
    Forall EL (ob_evs (snd (step w (HReq (nocrash r))))).
  Proof.
    intros Hl Hpl. rewrite <- req_final_evs. unfold req_final.
    pose proof (GWb_Gb hb QQ QQ_qt (w_st w) (rq_plan r) (rq_tb r) Hl Hpl) as G1. fold (pre_of w r) in G1.
    destruct (E_req_body _ (pre_of w r) (req_of w r) (rq_script r) G1) as (l & X & HF).
    pose proof (CrashFault.x_evs _ _ _ X) as Xe. unfold pre_of in Xe at 2. sst. rewrite app_nil_r in Xe.
    rewrite Xe, rev_involutive. exact HF.
  Qed.


  (* the hops outside the generic part: waiting, reconfiguration, restart *)
  Lemma LXb_step_wait w d : LXb (w_st w) -> LXb (w_st (fst (step w (HWait d)))).
  Proof.
    intros (W & K & P & Hq). cbn [step fst w_st].
    set (s0 := set_now (set_evs (w_st w) []) (now (set_evs (w_st w) []) + d)).
    assert (G0 : Gb hb QQ (supply (w_st w), []) s0).
    { split; [apply inv_set_now; exact W|]. split; [eapply Kcs_same; [| | |exact K]; reflexivity|].
      split; [intros d' k Hin; exact (P d' k Hin) | eapply QQ_same; [| | |exact Hq]; reflexivity]. }
    destruct (fire_due_Gb hb QQ FOK0 QQ_fire _ _ G0 Logic.I) as (G1 & _).
    exact (Gb_GWbp hb _ _ _ G1).
  Qed.

  Lemma LXb_step_cfg w c : LXb (w_st w) -> LXb (w_st (fst (step w (HSetCfg c)))).
  Proof.
    intros (W & K & P & Hq). cbn [step fst w_st].
    split; [eapply winv_of_inv'; apply inv_set_conf; exact W|].
    split; [eapply Kcs_same; [| | |exact K]; reflexivity|].
    split; [intros d' k Hin; exact (P d' k Hin) | eapply QQ_same; [| | |exact Hq]; reflexivity].
  Qed.

  Lemma LXb_step_restart w : LXb (w_st w) -> LXb (w_st (fst (step w HRestart))).
  Proof.
    intros (W & K & P & [[R Kq] Hd]). cbn [step fst w_st].
    split; [eapply winv_of_inv'; unfold restart; apply inv_set_pending; [apply inv_set_cache_nil; exact W | intros d k []]|].
    split; [intros k o ob Hl; discriminate|]. split; [intros d k []|].
    split; [split; [exact R | constructor] | eapply QX_same; [| |exact Hd]; reflexivity].
  Qed.

  (* every fault-free, crash-free step preserves LXb *)
  Theorem LXb_step w h : LXb (w_st w) -> ff_hop h -> crash_free h -> LXb (w_st (fst (step w h))).
  Proof.
    intros Hl Hff Hcf. destruct h as [r|d|tbl pl| | |u tbl pl|u tbl pl|c].
    - apply (step_req_GWb hb QQ DEL0 FOK0 QQ_qt QQ_new QQ_repl QQ_del QQ_fire w r Hl Hff Hcf Logic.I).
      + intros; exact Logic.I.
      + intros o _ s ob _ _ _. exact Logic.I.
    - apply LXb_step_wait. exact Hl.
    - apply (step_gen_GWb hb QQ FOK0 QQ_qt QQ_fire w _ Hl Hff Logic.I Logic.I).
    - apply (step_gen_GWb hb QQ FOK0 QQ_qt QQ_fire w _ Hl Hff Logic.I Logic.I).
    - apply LXb_step_restart. exact Hl.
    - apply (step_gen_GWb hb QQ FOK0 QQ_qt QQ_fire w _ Hl Hff Logic.I Logic.I).
    - apply (step_gen_GWb hb QQ FOK0 QQ_qt QQ_fire w _ Hl Hff Logic.I Logic.I).
    - apply LXb_step_cfg. exact Hl.
  Qed.

  Theorem LXb_after : forall hs w, LXb (w_st w) -> Forall ff_hop hs -> Forall crash_free hs -> LXb (w_st (after w hs)).
  Proof.
    induction hs as [|h t IH]; intros w Hl Hff Hcf; cbn [after]; [exact Hl|].
    inversion Hff; inversion Hcf; subst. apply IH; [apply LXb_step; assumption | assumption | assumption].
  Qed.


  Definition SK (stor : list (key * rec)) : Prop := forall k r, lookup stor k = Some r -> K k r.

  Lemma SK_apply sg e : SK (fst sg) -> EL e -> SK (fst (apply_ev sg e)).
  Proof.
    destruct sg as [stor gr]. intros H He. destruct e as [k ok|u ok|k r ok|k ok|u ok|d]; try exact H; cbn [apply_ev].
    - destruct ok; [|exact H]. cbn [fst]. intros k' r' Hl. destruct (key_eq_dec k' k) as [->|Hne].
      + rewrite lookup_upsert_same in Hl. injection Hl as <-. exact He.
      + rewrite lookup_upsert_other in Hl by exact Hne. exact (H k' r' Hl).
    - destruct ok; [|exact H]. cbn [fst]. intros k' r' Hl. destruct (key_eq_dec k' k) as [->|Hne].
      + rewrite lookup_remove_same in Hl. discriminate.
      + rewrite lookup_remove_other in Hl by exact Hne. exact (H k' r' Hl).
  Qed.

  Lemma SK_replay : forall l sg, SK (fst sg) -> Forall EL l -> SK (fst (fold_left apply_ev l sg)).
  Proof.
    induction l as [|e l IH]; intros sg H HF; [exact H|]. inversion HF; subst. cbn [fold_left].
    apply IH; [apply SK_apply; assumption | assumption].
  Qed.

  Lemma LXb_SK s : LXb s -> SK (store s).
  Proof.
    intros (_ & _ & _ & [[Hw _] Hq]) k r Hl.
    exact (sref_K s k _ Hq Hw (sref_lookup _ _ _ Hl) _ eq_refl).
  Qed.

  Theorem crash_LXb w r n : LXb (w_st w) -> rq_plan r = [] -> rq_crash r = Some n ->
    exists hb', GWb hb' QQ (w_st (fst (step w (HReq r)))).
  Proof.
    intros Hl Hpl Hcr. pose proof Hl as (W & _ & _ & [_ Hq]).
    destruct (step_winv hb ND w (HReq r) W Hpl) as (hb' & W' & _).
    destruct (crash_store w r n Hcr) as (Hc & Hp & Hs & Hst).
    set (s' := w_st (fst (step w (HReq r)))) in *.
    assert (HSK : SK (store s')).
    { rewrite Hst. apply SK_replay; [exact (LXb_SK _ Hl)|].
      apply CrashFault13.ev_prefix_Forall. exact (step_events w r Hl Hpl). }
    exists hb'. split; [exact W'|].
    split; [intros k o ob Hlk; rewrite Hc in Hlk; discriminate|].
    split; [intros d k Hin; rewrite Hp in Hin; contradiction|].
    split; [split|].
    - (* RWs *)
      intros k x Hx. unfold sref in Hx. destruct (lookup (store s') k) as [r0|] eqn:Hl0; [|discriminate].
      cbn [option_map] in Hx. injection Hx as Hx.
      destruct (HSK k r0 Hl0) as [_ Hup]. destruct (Hup x Hx) as (m & -> & Hj).
      exists m. split; [reflexivity|]. split; [|exact Hj].
      apply lookup_In in Hl0. destruct (i_fs _ _ _ _ _ W' k r0 Hl0) as [_ Hrd]. unfold refd in Hrd. rewrite Hx in Hrd.
      exact Hrd.
    - unfold Kp. rewrite Hp. constructor.
    - (* QX *)
      apply (QX_crash (w_st w) s' Hq Hs). intros k r0 Hl0. exact (proj1 (HSK k r0 Hl0)).
  Qed.


End Gen.
