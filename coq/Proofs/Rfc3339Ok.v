(* The RFC 3339 instance of Model/Rfc3339.v satisfies what Properties/C17.v
   assumes of time.Format / time.Parse (clauses 2 and 3 of json_lib_ok):
   the text is ASCII for every instant, and within RFC 3339's domain it
   parses back to the instant floored to the second with the same offset.
   The calendar round trip is proved for all days: one 400-year era is
   checked exhaustively by computation (146097 days), the rest follows by
   periodicity. Audit task A8. *)
From Sessions Require Import Model.Base Model.Codec Model.Rfc3339 Proofs.BaseLemmas Proofs.CodecText.
From Coq Require Import Lia ZifyBool ZifyN ZifyNat.
Local Open Scope Z_scope.

Ltac Zify.zify_post_hook ::= Z.div_mod_to_equations.

(* ------------------------------------------------ exhaustive check helper *)

Fixpoint upto (fuel : nat) (i : Z) (f : Z -> bool) : bool :=
  match fuel with
  | O => true
  | S k => f i && upto k (i + 1) f
  end.

Lemma upto_spec (fuel : nat) (i : Z) (f : Z -> bool) :
  upto fuel i f = true -> forall j, i <= j < i + Z.of_nat fuel -> f j = true.
Proof.
  revert i. induction fuel as [|k IH]; intros i H j Hj; [lia|].
  cbn [upto] in H. apply andb_true_iff in H as [Hi Hr].
  destruct (Z.eq_dec j i) as [->|Hne]; [exact Hi|].
  apply (IH (i + 1) Hr). lia.
Qed.

(* ------------------------------------------------------- one era, checked *)

Definition era_check (doe : Z) : bool :=
  match civ_doe doe with
  | (y4, m, d) =>
      let yoe := y4 - (if m <=? 2 then 1 else 0) in
      (1 <=? m) && (m <=? 12) && (1 <=? d) && (d <=? days_in_month y4 m) &&
      (0 <=? yoe) && (yoe <? 400) && (doe_of yoe m d =? doe) &&
      (0 <=? y4) && (y4 <=? 400) &&
      ((y4 <=? 399) || negb (doe <=? 146036)) && ((doe <=? 146036) || negb (y4 <=? 399))
  end.

Lemma era_all_checked : upto (N.to_nat 146097) 0 era_check = true.
Proof. vm_compute. reflexivity. Qed.

Lemma era_check_all (doe : Z) : 0 <= doe < 146097 -> era_check doe = true.
Proof.
  intro H. apply (upto_spec _ _ _ era_all_checked).
  replace (Z.of_nat (N.to_nat 146097)) with 146097 by (vm_compute; reflexivity). lia.
Qed.

Lemma leap_period (e y : Z) : leap (e * 400 + y) = leap y.
Proof.
  unfold leap.
  replace ((e * 400 + y) mod 4) with (y mod 4) by lia.
  replace ((e * 400 + y) mod 100) with (y mod 100) by lia.
  replace ((e * 400 + y) mod 400) with (y mod 400) by lia.
  reflexivity.
Qed.

Lemma dim_period (e y m : Z) : days_in_month (e * 400 + y) m = days_in_month y m.
Proof. unfold days_in_month. rewrite leap_period. reflexivity. Qed.

(* ------------------------------------------- the calendar, for every day *)

Lemma civil_roundtrip (z : Z) :
  match civil_from_days z with
  | (y, m, d) =>
      1 <= m <= 12 /\ 1 <= d <= days_in_month y m /\ d <= 31 /\ days_from_civil y m d = z /\
      (-719528 <= z <= 2932896 -> 0 <= y <= 9999)
  end.
Proof.
  unfold civil_from_days.
  set (z' := z + 719468).
  assert (Hdoe : 0 <= z' mod 146097 < 146097) by (apply Z.mod_pos_bound; lia).
  assert (Hdm : z' = 146097 * (z' / 146097) + z' mod 146097) by (apply Z.div_mod; lia).
  assert (Hc := era_check_all _ Hdoe). unfold era_check in Hc.
  set (doe := z' mod 146097) in *. set (era := z' / 146097) in *.
  destruct (civ_doe doe) as [[y4 m] d].
  rewrite dim_period.
  assert (Hdim : days_in_month y4 m <= 31).
  { unfold days_in_month. repeat match goal with |- context [if ?c then _ else _] => destruct c end; lia. }
  set (dim := days_in_month y4 m) in *.
  set (dd := doe_of (y4 - (if m <=? 2 then 1 else 0)) m d) in *.
  assert (Hdd : dd = doe) by lia.
  split; [lia|]. split; [lia|]. split; [lia|]. split.
  - unfold days_from_civil.
    set (y' := if m <=? 2 then era * 400 + y4 - 1 else era * 400 + y4).
    assert (Hy' : y' = era * 400 + (y4 - (if m <=? 2 then 1 else 0))).
    { unfold y'. destruct (m <=? 2); lia. }
    set (yoe := y4 - (if m <=? 2 then 1 else 0)) in *.
    assert (Hyoe : 0 <= yoe < 400) by lia.
    assert (Hq : y' / 400 = era) by (rewrite Hy'; lia).
    assert (Hr : y' mod 400 = yoe) by (rewrite Hy'; lia).
    rewrite Hq, Hr. fold dd. lia.
  - intro Hz. lia.
Qed.

(* ---------------------------------------------------------------- digits *)

Lemma dch_dig (n : Z) : is_dig (dch n) = true.
Proof. unfold is_dig, in_rng, dch. lia. Qed.

Lemma dch_val (n : Z) : dv (dch n) = n mod 10.
Proof. unfold dv, dch. lia. Qed.

Lemma dch_ascii (n : Z) : (dch n <? 128)%N = true.
Proof. unfold dch. lia. Qed.

Lemma rd2_d2 (n : Z) : 0 <= n < 100 -> rd2 (dch (n / 10)) (dch n) = Some n.
Proof.
  intro H. unfold rd2. rewrite !dch_dig. cbn [andb]. rewrite !dch_val. f_equal. lia.
Qed.

Lemma rd4_d4 (n : Z) :
  0 <= n < 10000 -> rd4 (dch (n / 1000)) (dch (n / 100)) (dch (n / 10)) (dch n) = Some n.
Proof.
  intro H. unfold rd4. rewrite !dch_dig. cbn [andb]. rewrite !dch_val. f_equal. lia.
Qed.

(* ------------------------------------------------------------------ zone *)

Lemma zone_roundtrip (off : Z) :
  Z.rem off 60 = 0 -> -86400 < off < 86400 -> parse_zone (fmt_zone off) = Some off.
Proof.
  intros Hr Hb. unfold fmt_zone.
  destruct (off =? 0) eqn:H0.
  - assert (off = 0) by lia. subst off. reflexivity.
  - assert (Hrem : Z.abs off mod 60 = 0).
    { assert (Hq := Z.quot_rem' off 60). rewrite Hr in Hq.
      destruct (Z_lt_le_dec off 0) as [Hn|Hp].
      - replace (Z.abs off) with (60 * (- Z.quot off 60)) by lia.
        rewrite Z.mul_comm. apply Z.mod_mul. lia.
      - replace (Z.abs off) with (60 * Z.quot off 60) by lia.
        rewrite Z.mul_comm. apply Z.mod_mul. lia. }
    set (a := Z.abs off) in *.
    assert (Ha : 0 < a < 86400) by lia.
    unfold d2. cbn [app parse_zone].
    rewrite (rd2_d2 (a / 3600)) by lia.
    rewrite (rd2_d2 (a / 60 mod 60)) by lia.
    replace (58 =? 58)%N with true by reflexivity.
    replace (a / 3600 <? 24) with true by lia.
    replace (a / 60 mod 60 <? 60) with true by lia.
    cbn [andb].
    destruct (off <? 0) eqn:Hs.
    + replace (45 =? 43)%N with false by reflexivity. replace (45 =? 45)%N with true by reflexivity.
      f_equal. lia.
    + replace (43 =? 43)%N with true by reflexivity. f_equal. lia.
Qed.

Lemma zone_ascii (off : Z) : all_ascii (fmt_zone off) = true.
Proof.
  unfold fmt_zone. destruct (off =? 0); [reflexivity|].
  unfold d2. cbn [app all_ascii forallb]. rewrite !dch_ascii.
  destruct (off <? 0); reflexivity.
Qed.

(* -------------------------------------------------------- the whole text *)

Lemma all_ascii_app (a b : bytes) : all_ascii (a ++ b) = all_ascii a && all_ascii b.
Proof. unfold all_ascii. apply forallb_app. Qed.

Lemma repeat_ascii (n : nat) : all_ascii (repeat 48%N n) = true.
Proof. induction n as [|n IH]; [reflexivity|]. cbn [repeat all_ascii forallb]. exact IH. Qed.

Lemma fmt_year_ascii (y : Z) : all_ascii (fmt_year y) = true.
Proof.
  unfold fmt_year. destruct ((0 <=? y) && (y <? 10000)).
  - unfold d4. cbn [all_ascii forallb]. rewrite !dch_ascii. reflexivity.
  - rewrite !all_ascii_app, repeat_ascii, format_radix_ascii by reflexivity.
    destruct (y <? 0); reflexivity.
Qed.

Lemma rfc3339_format_ascii (t : gtime) : all_ascii (rfc3339_format t) = true.
Proof.
  unfold rfc3339_format. destruct (civil_from_days _) as [[y m] d].
  rewrite !all_ascii_app, fmt_year_ascii, zone_ascii.
  unfold d2. cbn [all_ascii forallb]. rewrite !dch_ascii. reflexivity.
Qed.

(* the shape the parser takes apart *)
Lemma rfc3339_parse_shape (y m d hh mi ss : Z) (zone : bytes) :
  rfc3339_parse (d4 y ++ [45%N] ++ d2 m ++ [45%N] ++ d2 d ++ [84%N] ++
                 d2 hh ++ [58%N] ++ d2 mi ++ [58%N] ++ d2 ss ++ zone) =
  match rd4 (dch (y / 1000)) (dch (y / 100)) (dch (y / 10)) (dch y),
        rd2 (dch (m / 10)) (dch m), rd2 (dch (d / 10)) (dch d), rd2 (dch (hh / 10)) (dch hh),
        rd2 (dch (mi / 10)) (dch mi), rd2 (dch (ss / 10)) (dch ss), parse_zone zone with
  | Some y, Some m, Some d, Some hh, Some mi, Some ss, Some off =>
      if (1 <=? m) && (m <=? 12) && (1 <=? d) && (d <=? days_in_month y m) &&
         (hh <? 24) && (mi <? 60) && (ss <? 60)
      then Some (mkTime (days_from_civil y m d * 86400 + hh * 3600 + mi * 60 + ss - off) 0 off)
      else None
  | _, _, _, _, _, _, _ => None
  end.
Proof. reflexivity. Qed.

Lemma rfc3339_roundtrip (t : gtime) :
  rfc_dom t = true -> rfc3339_parse (rfc3339_format t) = Some (floor_sec t).
Proof.
  unfold rfc_dom. intro H.
  assert (Hlo : -62167219200 <= t_sec t + t_off t) by lia.
  assert (Hhi : t_sec t + t_off t < 253402300800) by lia.
  assert (Hrem : Z.rem (t_off t) 60 = 0) by lia.
  assert (Hoff : -86400 < t_off t < 86400) by lia.
  clear H. unfold rfc3339_format, floor_sec.
  set (l := t_sec t + t_off t) in *.
  assert (Hc := civil_roundtrip (l / 86400)).
  destruct (civil_from_days (l / 86400)) as [[y m] d].
  destruct Hc as [Hm [Hd [Hd31 [Hback Hy]]]].
  assert (Hyr : 0 <= y <= 9999) by (apply Hy; lia).
  unfold fmt_year. replace ((0 <=? y) && (y <? 10000)) with true by lia.
  rewrite rfc3339_parse_shape.
  set (sod := l mod 86400) in *.
  assert (Hsod : 0 <= sod < 86400) by (apply Z.mod_pos_bound; lia).
  rewrite rd4_d4 by lia.
  rewrite (rd2_d2 m), (rd2_d2 d), (rd2_d2 (sod / 3600)), (rd2_d2 (sod / 60 mod 60)), (rd2_d2 (sod mod 60)) by lia.
  rewrite zone_roundtrip by assumption.
  set (dim := days_in_month y m) in *.
  replace ((1 <=? m) && (m <=? 12) && (1 <=? d) && (d <=? dim) &&
           (sod / 3600 <? 24) && (sod / 60 mod 60 <? 60) && (sod mod 60 <? 60)) with true by lia.
  rewrite Hback. f_equal. f_equal.
  assert (Hl : l = 86400 * (l / 86400) + sod) by (apply Z.div_mod; lia).
  lia.
Qed.

(* ------------------------------------- the parameters of Model/Codec.v *)

Lemma lib_fmt_ascii (t : gtime) : all_ascii (lib_fmt_time lay_rfc3339 t) = true.
Proof. apply rfc3339_format_ascii. Qed.

Lemma lib_time_roundtrip (t : gtime) :
  rfc_dom t = true -> lib_parse_time lay_rfc3339 (lib_fmt_time lay_rfc3339 t) = Some (floor_sec t).
Proof. apply rfc3339_roundtrip. Qed.

(* the parser refuses what is not a date *)
Example rfc3339_examples :
  rfc3339_format (mkTime 1577934245 6 20700) =
    [50;48;50;48;45;48;49;45;48;50;84;48;56;58;52;57;58;48;53;43;48;53;58;52;53]%N /\   (* 2020-01-02T08:49:05+05:45 *)
  rfc3339_parse [50;48;50;48;45;48;49;45;48;50;84;48;56;58;52;57;58;48;53;43;48;53;58;52;53]%N =
    Some (mkTime 1577934245 0 20700) /\
  rfc3339_format (mkTime 951782400 0 0) = [50;48;48;48;45;48;50;45;50;57;84;48;48;58;48;48;58;48;48;90]%N /\   (* 2000-02-29T00:00:00Z *)
  rfc3339_parse [50;48;48;49;45;48;50;45;50;57;84;48;48;58;48;48;58;48;48;90]%N = None /\   (* 2001-02-29 *)
  rfc3339_parse [50;48;48;48;45;48;50;45;50;57;84;50;52;58;48;48;58;48;48;90]%N = None /\   (* hour 24 *)
  rfc3339_parse [50;48;48;48;45;48;50;45;50;57;84;48;48;58;48;48;58;48;48]%N = None /\      (* no zone *)
  rfc_dom (mkTime 1577934245 6 20700) = true.
Proof. repeat split; vm_compute; reflexivity. Qed.
