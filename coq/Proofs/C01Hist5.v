(* C01, history level, part 5: Start, for a presented ID that resolves to a
   session (not a replaced-ID record) or to nothing — which is what the jar of
   a cookie-following client holds. The returned session is a newly created
   empty one under a fresh ID, or holds exactly what the presented ID resolved
   to; no other drawn ID's view changes. *)
From Sessions Require Import Model.Base Model.Sess Model.Hist Model.Corr Proofs.SessDefs
  Proofs.WriteThrough Proofs.WriteThrough2 Proofs.WriteThrough3 Proofs.WriteThrough4
  Proofs.RotateLaws Proofs.RotateLaws2 Proofs.RotateLaws3 Proofs.RotateLaws5 Proofs.RotateLaws6
  Proofs.C01Spec Proofs.C01Hist Proofs.C01Hist2 Proofs.C01Hist3 Proofs.C01Hist4.
From Coq Require Import Lia.

(* what a Start call hands back, given the state s0 it began in *)
Definition start_res (s0 : st) (q : request) (s' : st) (res : result (option nat)) (cks : list cookie) : Prop :=
  match res with
  | Ok (Some o) =>
    exists id d, hand s' o id d /\ apply_cookies (q_cookie q) cks = CKey id /\
      ((~ key_drawn s0 id /\ d = ([], None)) \/
       (exists k, q_cookie q = CKey k /\ view s0 k = Some (None, d) /\ (id = k \/ ~ key_drawn s0 id)))
  | Ok None => (forall n, q_cookie q <> COther n) -> apply_cookies (q_cookie q) cks = CNone
  | Err _ => cks = [] /\ pending s' = pending s0 /\ (forall k, q_cookie q = CKey k -> view s' k = None)
  | Panic _ => False
  end.

Definition start_post (s0 : st) (q : request) (x : st * result (option nat) * list cookie) : Prop :=
  let s' := fst (fst x) in
  Inv noex s' /\ GR s' /\ conf s' = conf s0 /\ (supply s0 <= supply s')%N /\
  (forall k, CKey k <> q_cookie q -> key_drawn s0 k -> view s' k = view s0 k) /\
  (forall dd k, In (dd, k) (pending s') -> In (dd, k) (pending s0) \/ CKey k = q_cookie q) /\
  start_res s0 q s' (snd (fst x)) (snd x).

(* the bookkeeping of an accepted request changes no view *)
Lemma book_eff s o id d (a : addr) (u : N) :
  Inv noex s -> GR s -> hand s o id d ->
  let s' := hupd s o (fun r => set_ua (set_ip (set_access r (now s)) a) u) in
  Inv noex s' /\ GR s' /\ hand s' o id d /\ (forall k, view s' k = view s k) /\
  pending s' = pending s /\ conf s' = conf s /\ supply s' = supply s.
Proof.
  intros HI HG (ob & Hg & Hid & Hc & HH & Hpe). cbv zeta.
  set (f := fun r => set_ua (set_ip (set_access r (now s)) a) u).
  assert (Hd : durable (codec (conf s) (f (o_rec ob))) = durable (codec (conf s) (o_rec ob))).
  { unfold f. rewrite durable_codec_ua, durable_codec_ip, durable_codec_access. reflexivity. }
  assert (Hco : cont (f (o_rec ob)) = cont (o_rec ob)).
  { unfold f. rewrite cont_set_ua, cont_set_ip, cont_set_access. reflexivity. }
  assert (Hfr : pending (hupd s o f) = pending s /\ graves (hupd s o f) = graves s /\
                supply (hupd s o f) = supply s /\ conf (hupd s o f) = conf s /\ store (hupd s o f) = store s).
  { rewrite (hupd_eq _ _ _ _ Hg). repeat split; reflexivity. }
  destruct Hfr as (F1 & F2 & F3 & F4 & F5).
  assert (Hv : forall k, view (hupd s o f) k = view s k) by (intro k; apply (hupd_view_benign s o ob f k Hg Hco)).
  split; [apply (hupd_Inv_benign noex s o ob); auto|].
  split; [|split; [|split; [exact Hv|auto]]].
  - apply (GR_pres s _ (fun _ => False) HG).
    + exact F2.
    + intros dd k. rewrite F1. auto.
    + rewrite F3. lia.
    + intros k _. apply Hv.
    + intros k x [].
    + rewrite F5. apply HG.
  - exists (mkObj (o_id ob) (f (o_rec ob))). split; [apply hget_hupd_same; exact Hg|].
    split; [exact Hid|]. split; [cbn [o_rec]; congruence|]. split; [|rewrite F1; exact Hpe].
    apply (hupd_Held_benign s o ob); auto.
Qed.

(* the part of Start that runs when no session was found, or it was destroyed *)
Lemma tail_eff s0 s1 q cks0 :
  Inv noex s1 -> GR s1 -> conf s1 = conf s0 -> supply s1 = supply s0 ->
  (forall k, CKey k <> q_cookie q -> key_drawn s0 k -> view s1 k = view s0 k) ->
  pending s1 = pending s0 ->
  (cks0 = [] /\ (forall k, q_cookie q <> CKey k)) \/ (cks0 = [CkDelete]) \/ cks0 = [] ++ [CkDelete] ->
  start_post s0 q (if q_create q
                   then let '(s, res, nck) := create_session s1 q in (s, res, cks0 ++ nck)
                   else (s1, Ok None, cks0)).
Proof.
  intros HI HG Hc Hu Hv Hpe Hck. destruct (q_create q).
  - destruct (create_eff s1 q HI HG)
      as (s' & o & ob & Hs & HI' & HG' & HH' & Hg' & Hid & Hco & Hvk & Fpe & Fc & Fu & Fn).
    rewrite Hs. unfold start_post. cbn [fst snd].
    split; [exact HI'|]. split; [exact HG'|]. split; [congruence|]. split; [lia|].
    split; [|split].
    + intros k H1 H2. rewrite Hvk; [apply Hv; assumption|]. rewrite Hu. apply key_drawn_not_next. exact H2.
    + intros dd k. rewrite Fpe, Hpe. auto.
    + unfold start_res. exists (KGen (supply s0)), ([], None). rewrite Hu in *. split; [|split].
      * exists ob. split; [exact Hg'|]. split; [exact Hid|]. split; [exact Hco|]. split; [exact HH'|].
        intros dd H. rewrite Fpe in H. destruct HG as (_ & P & _). specialize (P _ _ H). cbn in P. lia.
      * rewrite apply_cookies_app. reflexivity.
      * left. split; [cbn; lia | reflexivity].
  - unfold start_post. cbn [fst snd].
    split; [exact HI|]. split; [exact HG|]. split; [exact Hc|]. split; [lia|]. split; [exact Hv|].
    split; [intros dd k; rewrite Hpe; auto|].
    unfold start_res. intro Hno. destruct Hck as [[-> Hk]|[->| ->]]; try reflexivity.
    destruct (q_cookie q) as [|k|n]; [reflexivity | exfalso; apply (Hk k); reflexivity | exfalso; apply (Hno n); reflexivity].
Qed.

Lemma start_eff s q :
  Inv noex s -> GR s ->
  (forall k, q_cookie q = CKey k ->
     (forall dd, ~ In (dd, k) (pending s)) /\ (view s k = None \/ exists d, view s k = Some (None, d))) ->
  start_post s q (start s q).
Proof.
  intros HI HG Hjar. unfold start.
  destruct (q_cookie q) as [|k|n] eqn:Eq.
  - cbv beta iota. apply tail_eff; auto.
    left. split; [reflexivity|]. rewrite Eq. discriminate.
  - destruct (Hjar k eq_refl) as (Hkp & Hkv).
    destruct (cache_get_view s k (inv_plan _ _ HI) (inv_nodup _ _ HI) (Inv_cache_heap s HI))
      as (Gv & Gpe & Gg & Gu & Gc & Gn & Gnd).
    destruct (cache_get s k) as [s1 r1] eqn:Hcg. cbn [fst] in *.
    destruct (cache_get_spec s k s1 r1 HI Hcg) as (HI1 & _ & ro & -> & Hro).
    assert (HG1 : GR s1).
    { apply (GR_pres s s1 (fun _ => False) HG).
      - exact Gg.
      - intros d k'. rewrite Gpe. auto.
      - rewrite Gu. lia.
      - intros k' _. apply Gv.
      - intros k' x [].
      - apply Gnd. apply HG. }
    destruct ro as [o|]; cbv beta iota.
    + destruct (Hro o eq_refl) as (HH1 & ob & Hg1 & Hid). rewrite Hg1.
      assert (Hvk1 : view s k = Some (cont (o_rec ob))).
      { rewrite <- (Gv k), <- Hid. apply (Held_view s1 o ob HH1 Hg1). }
      destruct Hkv as [Hkv|(d & Hkv)]; [congruence|].
      assert (Hco : cont (o_rec ob) = (None, d)) by congruence.
      assert (Hrf : r_ref (o_rec ob) = None) by (apply (f_equal fst) in Hco; exact Hco).
      assert (HD1 : hand s1 o k d).
      { exists ob. split; [exact Hg1|]. split; [exact Hid|]. split; [exact Hco|]. split; [exact HH1|].
        rewrite Gpe. exact Hkp. }
      match goal with |- context [negb ?v] => destruct v end; cbn [negb].
      * (* valid *)
        rewrite Hrf. cbn [negb andb].
        destruct (c_idexpiry (conf s) <=? since (r_created (o_rec ob)) (now s1))%Z.
        -- (* rotation *)
           destruct (regenerate_eff s1 o ob HI1 HG1 HH1 Hg1)
             as (s2 & Hs2 & HI2 & HG2 & HH2 & (ob2 & Hg2 & Hid2 & Hc2) & Hvk2 & Hvo2 & Fpe & Fc & Fu & Fn).
           rewrite Hs2. cbv beta iota.
           assert (HD2 : hand s2 o (KGen (supply s1)) d).
           { exists ob2. split; [exact Hg2|]. split; [exact Hid2|]. split; [congruence|]. split; [exact HH2|].
             intros dd H. rewrite Fpe in H. apply in_app_or in H. destruct H as [H|[H|[]]].
             - destruct HG1 as (_ & P & _). specialize (P _ _ H). cbn in P. lia.
             - injection H as _ H. pose proof (hand_drawn s1 o k d HI1 HD1) as Hx. rewrite Hid in H.
               rewrite H in Hx. cbn in Hx. lia. }
           destruct (book_eff s2 o _ d (q_addr q) (q_ua q) HI2 HG2 HD2) as (HI3 & HG3 & HD3 & Hv3 & Bpe & Bc & Bu).
           unfold start_post. cbn [fst snd].
           split; [exact HI3|]. split; [exact HG3|]. split; [congruence|]. split; [lia|].
           split; [|split].
           ++ intros k' H1 H2. rewrite Hv3, Hvk2; [apply Gv | rewrite Hid; congruence |].
              rewrite Gu. apply key_drawn_not_next. exact H2.
           ++ intros dd k'. rewrite Bpe, Fpe, Gpe. intro H. apply in_app_or in H.
              destruct H as [H|[H|[]]]; [left; exact H|]. injection H as _ <-. right. congruence.
           ++ unfold start_res. exists (KGen (supply s1)), d. split; [exact HD3|]. split; [reflexivity|].
              right. exists k. split; [exact Eq|]. split; [congruence|]. right. rewrite Gu. cbn. lia.
        -- destruct (_ <=? _)%Z.
           ++ (* a session past the backstop age (negative grace period): removed *)
              destruct (cache_delete_eff s1 k HI1 HG1) as (Hok & HI2 & HG2 & Hvo & Hvk & Fh & Fpe & Fu & Fc & Fn).
              destruct (cache_delete s1 k) as [s2 ok]. cbn [fst snd] in *. subst ok.
              unfold start_post. cbn [fst snd].
              split; [exact HI2|]. split; [exact HG2|]. split; [congruence|]. split; [lia|].
              split; [|split].
              ** intros k' H1 H2. rewrite Hvk by congruence. apply Gv.
              ** intros dd k'. rewrite Fpe, Gpe. auto.
              ** unfold start_res. split; [reflexivity|]. split; [congruence|].
                 intros k0 Hk0. rewrite Eq in Hk0. injection Hk0 as <-. exact Hvo.
           ++ (* the plain case *)
              destruct (book_eff s1 o k d (q_addr q) (q_ua q) HI1 HG1 HD1) as (HI3 & HG3 & HD3 & Hv3 & Bpe & Bc & Bu).
              unfold start_post. cbn [fst snd].
              split; [exact HI3|]. split; [exact HG3|]. split; [congruence|]. split; [lia|].
              split; [|split].
              ** intros k' H1 H2. rewrite Hv3. apply Gv.
              ** intros dd k'. rewrite Bpe, Gpe. auto.
              ** unfold start_res. exists k, d. split; [exact HD3|]. split; [rewrite Eq; reflexivity|].
                 right. exists k. split; [exact Eq|]. split; [congruence|]. left. reflexivity.
      * (* anomaly or idle too long: destroyed *)
        unfold destroy. rewrite Hg1, Hid.
        destruct (cache_delete_eff s1 k HI1 HG1) as (Hok & HI2 & HG2 & Hvo & Hvk & Fh & Fpe & Fu & Fc & Fn).
        destruct (cache_delete s1 k) as [s2 ok]. cbn [fst snd] in *. subst ok. cbn [negb].
        pose proof (tail_eff s s2 q ([] ++ [CkDelete])) as HT. cbn [app] in HT |- *.
        apply HT; auto; try congruence.
        intros k' H1 H2. rewrite Hvk; [apply Gv|]. rewrite Eq in H1. congruence.
    + apply tail_eff; auto; try congruence.
  - cbv beta iota. apply tail_eff; auto.
    left. split; [reflexivity|]. rewrite Eq. discriminate.
Qed.
