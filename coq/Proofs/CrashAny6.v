(* R10, C10: what a fault-free request step writes under the IDs of the handler's
   session - the DATA of every session record it saves there is one of a given set
   of data states - part 1: the notions and the building blocks.

   S                a set of IDs (below: the session's ID before the step and the
                    IDs the step draws);
   PSd d            d is an allowed data state (below: the states of the handler's
                    data after 0, 1, 2, .. operations of the script);
   KC k r           what may be written under k: if k is in S and r is a session's
                    record (no reference) then its data is allowed;
   ELC e            every save e writes such a record;
   dk_ok s s'       the call from s to s' appended events l (CrashFault.ext), and if
                    every cached object and stored record of s satisfies KC under
                    its key (CrashFault2.J) then every event of l BEFORE ITS FIRST
                    DELETION (ndp l) satisfies ELC, and if l contains no deletion
                    J KC holds of s' again.

   The safe-save lemmas of CrashFault2/4.v do the work inside cache.Get, cache.Set
   and LogOut(userID); RegenerateID is taken apart along CrashFault2.regenerate_spec.
   Arbitrary fault plans.

   No axioms; standard library only. *)
From Sessions Require Import Model.Base Model.Sess Model.Hist Proofs.SessDefs.
From Sessions Require Proofs.CrashFault Proofs.CrashFault2 Proofs.CrashFault3 Proofs.CrashFault4 Proofs.CrashFault5
  Proofs.CrashFault8 Proofs.CrashFault9 Proofs.CrashFault13 Proofs.CrashFault14.
From Coq Require Import Lia.

Definition no_del (l : list ev) : Prop := Forall (fun e => CrashFault.is_delete e = false) l.

(* the events of a log before its first deletion *)
Fixpoint ndp (l : list ev) : list ev :=
  match l with
  | [] => []
  | e :: t => if CrashFault.is_delete e then [] else e :: ndp t
  end.

Lemma ndp_nodel l : no_del l -> ndp l = l.
Proof. induction 1 as [|e l He _ IH]; [reflexivity|]. cbn [ndp]. rewrite He, IH. reflexivity. Qed.

Lemma ndp_Forall (P : ev -> Prop) l : Forall P l -> Forall P (ndp l).
Proof. induction 1 as [|e l He _ IH]; [constructor|]. cbn [ndp]. destruct (CrashFault.is_delete e); [constructor | constructor; assumption]. Qed.

Lemma ndp_app_Forall (P : ev -> Prop) a b : Forall P (ndp a) -> (no_del a -> Forall P (ndp b)) -> Forall P (ndp (a ++ b)).
Proof.
  induction a as [|e a IH]; intros Ha Hb; cbn [app]; [apply Hb; constructor|]. cbn [ndp] in *.
  destruct (CrashFault.is_delete e) eqn:He; [constructor|]. inversion Ha; subst. constructor; [assumption|].
  apply IH; [assumption|]. intro Hn. apply Hb. constructor; assumption.
Qed.

(* a deletion-free prefix of a log lies inside ndp *)
Lemma ndp_prefix_In a b e : no_del a -> In e a -> In e (ndp (a ++ b)).
Proof.
  induction 1 as [|x a Hx _ IH]; intro Hin; [contradiction|]. cbn [app ndp]. rewrite Hx.
  destruct Hin as [->|Hin]; [left; reflexivity | right; apply IH; exact Hin].
Qed.

Section DK.
  Variable S : key -> Prop.
  Variable PSd : list (N * N) -> Prop.

  Notation ext := CrashFault.ext.
  Notation J := CrashFault2.J.
  Notation QK := CrashFault2.QK.
  Notation dat := CrashFault3.dat.

  Definition KC (k : key) (r : rec) : Prop := S k -> r_ref r = None -> PSd (dat r).

  Definition ELC (e : ev) : Prop := match e with EvSave k r _ => KC k r | _ => True end.

  Definition dk_ok (s s' : st) : Prop :=
    exists l, ext s s' l /\ (J KC s -> Forall ELC (ndp l) /\ (no_del l -> J KC s')).

  Lemma KC_same k r r' : r_ref r' = r_ref r -> dat r' = dat r -> KC k r -> KC k r'.
  Proof. intros E1 E2 H Hs Hr. rewrite E2. apply H; [exact Hs | rewrite <- E1; exact Hr]. Qed.

  Lemma KC_codec cf k r : KC k r -> KC k (codec cf r).
  Proof. apply KC_same; [reflexivity | apply CrashFault5.dat_codec]. Qed.
  Lemma KC_access k r t : KC k r -> KC k (set_access r t).
  Proof. apply KC_same; reflexivity. Qed.
  Lemma KC_created k r t : KC k r -> KC k (set_created r t).
  Proof. apply KC_same; reflexivity. Qed.
  Lemma KC_user k r u : KC k r -> KC k (set_user r u).
  Proof. apply KC_same; reflexivity. Qed.

  Lemma KC_of_data k r : PSd (dat r) -> KC k r.
  Proof. intros H _ _. exact H. Qed.

  Lemma KC_ref k r t : r_ref r = Some t -> KC k r.
  Proof. intros H _ Hr. rewrite H in Hr. discriminate. Qed.

  Lemma QK_ELC e : QK KC e -> ELC e.
  Proof. intros (_ & _ & H). destruct e; try exact Logic.I. cbn [ELC]. eapply H. reflexivity. Qed.

  Lemma QKs_ELC l : Forall (QK KC) l -> Forall ELC l.
  Proof. apply Forall_impl. exact QK_ELC. Qed.

  (* ------------------------------------------------ refl, trans, patterns *)

  Lemma dk_refl s : dk_ok s s.
  Proof. exists []. split; [apply CrashFault.ext_refl | intros H; split; [constructor | intros _; exact H]]. Qed.

  Lemma no_del_app a b : no_del (a ++ b) <-> no_del a /\ no_del b.
  Proof. unfold no_del. apply Forall_app. Qed.

  Lemma dk_trans s1 s2 s3 : dk_ok s1 s2 -> dk_ok s2 s3 -> dk_ok s1 s3.
  Proof.
    intros (l1 & X1 & H1) (l2 & X2 & H2). exists (l1 ++ l2). split; [eapply CrashFault.ext_trans; eassumption|].
    intros HJ. destruct (H1 HJ) as [A1 J2]. split.
    - apply ndp_app_Forall; [exact A1|]. intro N1. exact (proj1 (H2 (J2 N1))).
    - intro Hnd. apply no_del_app in Hnd. destruct Hnd as [N1 N2]. exact (proj2 (H2 (J2 N1)) N2).
  Qed.

  (* the log is determined by the two states: an unconditional ext and a conditional
     analysis may be proved separately *)
  Lemma dk_of_safe s s' :
    (exists l0, ext s s' l0) ->
    (J KC s -> exists l, ext s s' l /\ Forall ELC l /\ J KC s') -> dk_ok s s'.
  Proof.
    intros (l0 & X0) H. exists l0. split; [exact X0|]. intros HJ.
    destruct (H HJ) as (l & X & Hl & HJ'). assert (l = l0) by (eapply CrashFault8.appended_unique_ext; eassumption). subst l.
    split; [apply ndp_Forall; exact Hl | intros _; exact HJ'].
  Qed.

  (* a call that deletes, followed by anything *)
  Lemma dk_after_delete s1 s2 s3 :
    (exists l1, ext s1 s2 l1 /\ ~ no_del l1 /\ ndp l1 = []) -> (exists l2, ext s2 s3 l2) -> dk_ok s1 s3.
  Proof.
    intros (l1 & X1 & Hn & He) (l2 & X2). exists (l1 ++ l2). split; [eapply CrashFault.ext_trans; eassumption|].
    intros _. split.
    - apply ndp_app_Forall; [rewrite He; constructor | intro N1; contradiction].
    - intro Hnd. apply no_del_app in Hnd. exfalso. apply Hn. apply Hnd.
  Qed.

  Lemma dk_same s s' : ext s s' [] -> heap s' = heap s -> cache s' = cache s -> store s' = store s -> dk_ok s s'.
  Proof.
    intros X Hh Hc Hs. exists []. split; [exact X|]. intros HJ. split; [constructor|]. intros _.
    eapply CrashFault2.J_same; eassumption.
  Qed.

  Lemma dk_hupd s o f : (forall k r, KC k r -> KC k (f r)) -> dk_ok s (hupd s o f).
  Proof.
    intro Hf. exists []. split; [apply CrashFault.ext_hupd|]. intros HJ. split; [constructor|]. intros _.
    destruct (hget s o) as [ob|] eqn:Ho.
    - rewrite (CrashFault.hupd_spec _ _ _ _ Ho). eapply CrashFault2.J_hput; [exact HJ | exact Ho|]. intros k Hk. cbn [o_rec]. apply Hf. exact Hk.
    - rewrite (CrashFault.hupd_none _ _ _ Ho). exact HJ.
  Qed.

  (* ------------------------------------------------ the building blocks *)

  Lemma dk_cache_get s k s' r : cache_get s k = (s', r) -> dk_ok s s'.
  Proof.
    intro E. apply dk_of_safe; [exact (CrashFault13.cache_get_ext _ _ _ _ E)|]. intro HJ.
    destruct (CrashFault2.cache_get_safe KC KC_codec s k s' r HJ E) as (l & X & HQ & HJ' & _).
    exists l. split; [exact X|]. split; [apply QKs_ELC; exact HQ | exact HJ'].
  Qed.

  Lemma dk_cache_set s o ob s' ok : hget s o = Some ob -> KC (o_id ob) (o_rec ob) -> cache_set s o = (s', ok) -> dk_ok s s'.
  Proof.
    intros Ho HK E. apply dk_of_safe; [exact (proj1 (CrashFault13.keeps_cache_set _ _ _ _ E))|]. intro HJ.
    destruct (CrashFault2.cache_set_safe KC KC_codec KC_access s o ob s' ok HJ Ho E) as (l & X & HQ & _ & _ & _ & _ & _ & _ & HJ' & _).
    destruct (HJ' HK) as [J' HQp].
    eexists. split; [exact X|]. split; [|exact J'].
    apply Forall_app. split; [apply QKs_ELC; exact HQ | constructor; [apply QK_ELC; exact HQp | constructor]].
  Qed.

  Lemma dk_save_direct s o ob s' r : hget s o = Some ob -> KC (o_id ob) (o_rec ob) -> save_direct s o = (s', r) -> dk_ok s s'.
  Proof.
    intros Ho HK. unfold save_direct. rewrite Ho.
    destruct (p_save s (o_id ob) (o_rec ob)) as [s1 ok] eqn:E. intro E'. injection E' as <- _.
    apply CrashFault.p_save_spec in E. destruct E as ((Hh & Hc & _) & X & _ & Hst & _).
    eexists. split; [exact X|]. intros (Hcv & HcK & HsK). split; [cbn [ndp CrashFault.is_delete]; constructor; [cbn [ELC]; apply KC_codec; exact HK | constructor]|].
    intros _. split; [|split].
    - intros k' o' Hin. rewrite Hh. rewrite Hc in Hin. exact (Hcv k' o' Hin).
    - intros k' o' ob' Hin Ho'. rewrite Hc in Hin. unfold hget in Ho'. rewrite Hh in Ho'. exact (HcK k' o' ob' Hin Ho').
    - intros k' r' Hl. rewrite Hst in Hl. destruct ok; [|exact (HsK k' r' Hl)].
      destruct (key_eq_dec k' (o_id ob)) as [->|Hne].
      + rewrite lookup_upsert_same in Hl. injection Hl as <-. apply KC_codec. exact HK.
      + rewrite lookup_upsert_other in Hl by exact Hne. exact (HsK k' r' Hl).
  Qed.

  Lemma dk_cache_delete_del s k s' ok : cache_delete s k = (s', ok) -> exists l, ext s s' l /\ ~ no_del l /\ ndp l = [].
  Proof.
    unfold cache_delete. intro E. apply CrashFault.p_delete_spec in E. destruct E as (_ & X & _).
    exists ([] ++ [EvDelete k ok]). split; [eapply CrashFault.ext_trans; [apply CrashFault.ext_set_cache | exact X]|].
    split; [intro H; inversion H as [|? ? He _]; discriminate He | reflexivity].
  Qed.

  Lemma dk_cache_delete s k s' ok : cache_delete s k = (s', ok) -> dk_ok s s'.
  Proof.
    intro E. destruct (dk_cache_delete_del _ _ _ _ E) as (l & X & Hn & He). exists l. split; [exact X|].
    intros _. split; [rewrite He; constructor | intro Hnd; contradiction].
  Qed.

  (* RegenerateID on an object whose data is allowed *)
  Lemma dk_regenerate s o ob s' res cks : hget s o = Some ob -> PSd (dat (o_rec ob)) ->
    regenerate s o = (s', res, cks) -> dk_ok s s'.
  Proof.
    intros Ho Hd HR. apply dk_of_safe; [exact (proj1 (CrashFault13.keeps_regenerate _ _ _ _ _ HR))|]. intro HJ.
    pose proof (CrashFault2.regenerate_spec _ _ _ _ _ _ Ho HR) as HS. cbv zeta in HS.
    set (nid := KGen (supply s)) in *.
    set (ob1 := mkObj nid (set_created (o_rec ob) (now s))) in *.
    set (s0 := fst (gen_id s)) in *. set (s1 := hput s0 o ob1) in *.
    destruct HS as (s2 & b1 & EC1 & Ho1 & HS).
    assert (X0 : ext s s0 [EvDraw (supply s)]) by apply CrashFault.gen_id_spec.
    assert (HJ0 : J KC s0) by (eapply CrashFault2.J_same; [..|exact HJ]; reflexivity).
    assert (HJ1 : J KC s1).
    { eapply CrashFault2.J_hput; [exact HJ0 | exact Ho|]. intros k Hk. apply KC_created. exact Hk. }
    destruct (CrashFault2.cache_set_safe KC KC_codec KC_access _ _ _ _ _ HJ1 Ho1 EC1)
      as (l1 & X1 & HQ1 & _ & _ & _ & _ & _ & _ & HJ2 & _).
    assert (HK1 : KC (o_id ob1) (o_rec ob1)) by (apply KC_of_data; exact Hd).
    destruct (HJ2 HK1) as [J2 HQp1].
    assert (X2 : ext s s2 ([EvDraw (supply s)] ++ [] ++ (l1 ++ [CrashFault2.prim_save s1 ob1 b1]))).
    { eapply CrashFault.ext_trans; [exact X0|]. eapply CrashFault.ext_trans; [apply CrashFault.ext_hput | exact X1]. }
    assert (E2 : Forall ELC ([EvDraw (supply s)] ++ [] ++ (l1 ++ [CrashFault2.prim_save s1 ob1 b1]))).
    { constructor; [exact Logic.I|]. cbn [app]. apply Forall_app. split; [apply QKs_ELC; exact HQ1 | constructor; [apply QK_ELC; exact HQp1 | constructor]]. }
    destruct b1.
    - destruct HS as (Ho2 & s4 & b2 & EC2 & HS).
      set (obr := mkObj (o_id ob) (CrashFault2.ref_rec (o_rec (CrashFault.touch s1 ob1)) (now s2) nid)) in *.
      set (s3 := fst (halloc s2 obr)) in *.
      assert (J3 : J KC s3) by (apply CrashFault2.J_halloc; exact J2).
      assert (Hor : hget s3 (length (heap s2)) = Some obr) by apply (hget_halloc_new s2).
      destruct (CrashFault2.cache_set_safe KC KC_codec KC_access _ _ _ _ _ J3 Hor EC2)
        as (l2 & X4 & HQ2 & _ & _ & _ & _ & _ & _ & HJ4 & _).
      assert (HKr : KC (o_id obr) (o_rec obr)) by (apply (KC_ref _ _ nid); reflexivity).
      destruct (HJ4 HKr) as [J4 HQp2].
      assert (X5 : ext s s4 (([EvDraw (supply s)] ++ [] ++ (l1 ++ [CrashFault2.prim_save s1 ob1 true])) ++ [] ++ (l2 ++ [CrashFault2.prim_save s3 obr b2]))).
      { eapply CrashFault.ext_trans; [exact X2|]. eapply CrashFault.ext_trans; [apply CrashFault.ext_halloc | exact X4]. }
      assert (E5 : Forall ELC (([EvDraw (supply s)] ++ [] ++ (l1 ++ [CrashFault2.prim_save s1 ob1 true])) ++ [] ++ (l2 ++ [CrashFault2.prim_save s3 obr b2]))).
      { apply Forall_app. split; [exact E2|]. cbn [app]. apply Forall_app.
        split; [apply QKs_ELC; exact HQ2 | constructor; [apply QK_ELC; exact HQp2 | constructor]]. }
      destruct b2; destruct HS as (-> & _ & _).
      + eexists. split; [eapply CrashFault3.ext_nil_r; [exact X5 | apply CrashFault.ext_set_pending]|].
        split; [exact E5|]. eapply CrashFault2.J_same; [..|exact J4]; reflexivity.
      + eexists. split; [exact X5|]. split; [exact E5 | exact J4].
    - destruct HS as (-> & _ & _). eexists. split; [exact X2|]. split; [exact E2 | exact J2].
  Qed.

  Lemma dk_follow : forall fuel s o lk, dk_ok s (fst (follow fuel s o lk)).
  Proof.
    induction fuel as [|f IH]; intros s o lk; cbn [follow].
    - destruct (hget s o) as [ob|]; [destruct (r_ref (o_rec ob))|]; apply dk_refl.
    - destruct (hget s o) as [ob|]; [|apply dk_refl]. destruct (r_ref (o_rec ob)) as [t|]; [|apply dk_refl].
      destruct (cache_get s t) as [s1 r] eqn:E. pose proof (dk_cache_get _ _ _ _ E) as D1.
      destruct r as [[o'|]|]; cbn [fst]; try exact D1. eapply dk_trans; [exact D1 | apply IH].
  Qed.

  Lemma dk_logout_user s u s' r : CrashFault4.cok s -> logout_user s u = (s', r) -> dk_ok s s'.
  Proof.
    intros Hc E. apply dk_of_safe; [exact (proj1 (CrashFault13.keeps_logout_user _ _ _ _ E))|]. intro HJ.
    destruct (CrashFault4.logout_user_safe KC KC_codec KC_access KC_user s u s' r HJ Hc E) as (l & X & HQ & HJ' & _).
    exists l. split; [exact X|]. split; [apply QKs_ELC; exact HQ | exact HJ'].
  Qed.

  Lemma dk_fire : forall l s s' rest, fire s l = (s', rest) -> dk_ok s s'.
  Proof.
    induction l as [|[due k] t IH]; intros s s' rest E; cbn [fire] in E.
    - injection E as <- _. apply dk_refl.
    - destruct (due <=? now s)%Z.
      + destruct (cache_delete s k) as [s1 okd] eqn:Ed.
        apply (dk_after_delete s s1 s'); [exact (dk_cache_delete_del _ _ _ _ Ed) | exact (proj1 (CrashFault13.keeps_fire _ _ _ _ E))].
      + destruct (fire s t) as [s1 r1] eqn:Ef. injection E as <- _. exact (IH _ _ _ Ef).
  Qed.

  Lemma dk_fire_due s : dk_ok s (fire_due s).
  Proof.
    unfold fire_due. destruct (fire (set_pending s []) (pending s)) as [s1 rest] eqn:E.
    eapply dk_trans; [apply dk_same; [apply CrashFault.ext_set_pending | reflexivity..]|].
    eapply dk_trans; [exact (dk_fire _ _ _ _ E) | apply dk_same; [apply CrashFault.ext_set_pending | reflexivity..]].
  Qed.
End DK.
