(* The composed system of Model/StartConc.v, part 5: task R2 (a) assembled into
   one statement about runs, (c) likewise, and the vocabulary spelled out. *)
From Sessions Require Import Model.Base Model.Sess Model.Hist Model.Mutex Model.StartConc
  Proofs.MutexBasics Proofs.StartConc Proofs.StartConc2 Proofs.StartConc3 Proofs.StartConc4.
From Coq Require Import Lia Permutation.

Theorem serial_order kk reqs w cs0 ls cs :
  CI0 kk reqs w cs0 -> crun true reqs cs0 ls = Some cs -> cadm_run true reqs cs0 ls ->
  (forall g1 g2, holds_key (c_lock cs) g1 kk = true -> holds_key (c_lock cs) g2 kk = true -> g1 = g2) /\
  (forall g, is_looked (nth g (c_ph cs) PIdle) = true -> holds_key (c_lock cs) g kk = true) /\
  c_acts cs = rev (acts_of ls) /\
  let W := fst (serial reqs w (c_acts cs)) in
  let res := snd (serial reqs w (c_acts cs)) in
  (existsb is_looked (c_ph cs) = false -> mkWorld (c_st cs) (c_jars cs) = W) /\
  (forall g s0 jar f c b r,
     nth_error (c_ph cs) g = Some (PLooked s0 jar f c b) -> nth_error reqs g = Some r ->
     s0 = set_evs (w_st W) [] /\ jar = jar_of (w_jars W) (rq_client r) /\ c_jars cs = w_jars W /\
     start_lookup (rq_prepare s0 r) (rq_request jar r) = (c_st cs, f, c, b)) /\
  (forall g o, nth_error (c_ph cs) g = Some (PDone o) <-> In (g, o) res) /\
  NoDup (map fst res) /\
  (forallb is_done (c_ph cs) = true -> Permutation (map fst res) (seq 0 (length reqs))).
Proof.
  intros H0 Hrun Hadm.
  pose proof (ci_run kk reqs w ls cs0 cs (ci0_ci _ _ _ _ H0) Hrun Hadm) as HC.
  split; [intros g1 g2; exact (no_overlap kk reqs w cs g1 g2 HC)|].
  split; [intro g; exact (looked_inside kk reqs w cs g HC)|].
  split.
  { destruct (crun_acts _ _ _ _ _ Hrun) as [E _]. destruct H0 as (_ & _ & _ & Ha & _).
    rewrite E, Ha, app_nil_r. reflexivity. }
  cbv zeta. pose proof HC as (_ & _ & W1 & W2 & W3 & W4).
  split; [exact W2|]. split; [exact W1|]. split; [exact W3|]. split; [exact W4|].
  exact (all_served_perm kk reqs w cs HC).
Qed.

Theorem progress kk reqs w :
  (* every step other than a clock tick decreases the measure *)
  (forall cs lab cs', cstep true reqs cs lab = Some cs' ->
     match lab with CTick _ => cmeasure cs' = cmeasure cs | _ => cmeasure cs' < cmeasure cs end) /\
  (forall ls cs cs', crun true reqs cs ls = Some cs' ->
     length (filter (fun lab => match lab with CTick _ => false | _ => true end) ls) + cmeasure cs' <= cmeasure cs) /\
  forall cs0 ls cs,
    CI0 kk reqs w cs0 -> crun true reqs cs0 ls = Some cs -> cadm_run true reqs cs0 ls ->
    (* no deadlock *)
    (all_done cs = false ->
       exists lab cs', no_tick lab /\ cstep true reqs cs lab = Some cs' /\ cadm cs lab) /\
    (* a run that only clock ticks can extend has let everybody finish *)
    ((forall lab cs', no_tick lab -> cstep true reqs cs lab = Some cs' -> ~ cadm cs lab) -> all_done cs = true) /\
    (* and can be so extended *)
    (exists ls' cs', crun true reqs cs ls' = Some cs' /\ cadm_run true reqs cs ls' /\
                     Forall no_tick ls' /\ all_done cs' = true) /\
    (* when everybody has finished every goroutine's Start has returned *)
    (all_done cs = true -> forall g, g < length reqs -> exists o, nth_error (c_ph cs) g = Some (PDone o)).
Proof.
  split; [exact (cmeasure_decreases kk reqs)|]. split; [exact (c_bounded kk reqs)|].
  intros cs0 ls cs H0 Hrun Hadm.
  pose proof (ci_run kk reqs w ls cs0 cs (ci0_ci _ _ _ _ H0) Hrun Hadm) as HC.
  split; [exact (c_no_deadlock kk reqs w cs HC)|]. split; [exact (c_maximal_finished kk reqs w cs HC)|].
  split; [exact (c_completes kk reqs w cs HC) | exact (all_done_reported kk reqs w cs HC)].
Qed.

(* ---- vocabulary ---- *)

Lemma CI0_meaning kk reqs w cs :
  CI0 kk reqs w cs <->
  Inv (c_lock cs) /\
  (length (c_ph cs) = length (gs (c_lock cs)) /\ length reqs = length (gs (c_lock cs)) /\
   (forall g x p, nth_error (gs (c_lock cs)) g = Some x -> nth_error (c_ph cs) g = Some p -> gp_ok kk x p = true) /\
   Forall (plain_on kk) reqs) /\
  Forall (fun p => p = PIdle) (c_ph cs) /\ c_acts cs = [] /\ mkWorld (c_st cs) (c_jars cs) = w.
Proof. reflexivity. Qed.

(* the lock key determines the ID: every request of an initial state is a plain
   call of Start (empty handler script) carrying the SAME ID as a forged cookie *)
Lemma key_code_inj k1 k2 : key_code k1 = key_code k2 -> k1 = k2.
Proof. destruct k1, k2; cbn [key_code]; intro H; try (f_equal; lia); exfalso; lia. Qed.

Lemma plain_on_meaning k r :
  plain_on (key_code k) r <-> rq_script r = [] /\ rq_present r = PForge (CKey k).
Proof.
  unfold plain_on. split.
  - intros (Hs & k0 & Hp & Hk). apply key_code_inj in Hk. subst k0. auto.
  - intros (Hs & Hp). eauto.
Qed.

Lemma lock_key_meaning :
  (forall k, lock_key (CKey k) = Some (key_code k)) /\
  (forall c, (forall k, c <> CKey k) -> lock_key c = None) /\
  (forall k1 k2, key_code k1 = key_code k2 -> k1 = k2).
Proof.
  split; [reflexivity|]. split; [|exact key_code_inj].
  intros c H. destruct c; try reflexivity. exfalso. eapply H. reflexivity.
Qed.

Lemma gp_ok_idle_meaning kk x :
  gp_ok kk x PIdle = true <->
  (gc x = GIdle /\ gscript x = [OLock kk]) \/
  (gscript x = [] /\ (gc x = GSendAcq kk \/ gc x = GGetItem kk \/ (exists c, gc x = GWait c kk) \/ gc x = GHold kk)).
Proof.
  destruct x as [c scr]. cbn [gp_ok gc gscript]. split.
  - destruct c, scr as [|[k'|k'] [|o2 r]]; try discriminate; intro H; apply Nat.eqb_eq in H; subst; eauto 8.
  - intros [[E1 E2]|[E1 [E2|[E2|[[c0 E2]|E2]]]]]; subst; apply Nat.eqb_refl.
Qed.

Lemma serial_meaning reqs w0 :
  serial reqs w0 [] = (w0, []) /\
  (forall d t, serial reqs w0 (ATick d :: t) =
     (fst (Hist.step (fst (serial reqs w0 t)) (HWait d)), snd (serial reqs w0 t))) /\
  (forall g r t, nth_error reqs g = Some r ->
     serial reqs w0 (AReq g :: t) =
     (fst (Hist.step (fst (serial reqs w0 t)) (HReq r)),
      (g, snd (Hist.step (fst (serial reqs w0 t)) (HReq r))) :: snd (serial reqs w0 t))).
Proof.
  split; [reflexivity|]. split.
  - intros d t. cbn [serial]. destruct (serial reqs w0 t). reflexivity.
  - intros g r t Hr. cbn [serial]. destruct (serial reqs w0 t). rewrite Hr. reflexivity.
Qed.

Lemma log_meaning :
  (forall l, act_of (CL l) = []) /\ (forall g, act_of (CLook g) = []) /\
  (forall g, act_of (CRest g) = [AReq g]) /\ (forall d, act_of (CTick d) = [ATick d]) /\
  (forall ls, acts_of ls = flat_map act_of ls) /\
  ticks [] = 0%Z /\ (forall d t, ticks (ATick d :: t) = (d + ticks t)%Z) /\ (forall g t, ticks (AReq g :: t) = ticks t) /\
  (forall d, tick_nonneg (ATick d) <-> (0 <= d)%Z) /\ (forall g, tick_nonneg (AReq g) <-> True) /\
  (forall acts, request_first acts <-> (acts = [] \/ exists g t, acts = t ++ [AReq g])).
Proof.
  repeat (split; [reflexivity|]).
  induction acts as [|a [|a' t] IH].
  - cbn. split; [auto | intros _; exact Logic.I].
  - destruct a as [d|g]; cbn [request_first]; split.
    + intros [].
    + intros [E|(g & [|x t] & E)]; [discriminate | discriminate | destruct t; discriminate].
    + intros _. right. exists g, []. reflexivity.
    + intros _. exact Logic.I.
  - change (request_first (a :: a' :: t)) with (request_first (a' :: t)). rewrite IH. split.
    + intros [E|(g & t' & E)]; [discriminate|]. right. exists g, (a :: t'). rewrite E. reflexivity.
    + intros [E|(g & [|x t'] & E)]; [discriminate | discriminate|].
      right. injection E as _ E. exists g, t'. exact E.
Qed.

(* the requests of an initial state whose lock key is that of the ID k *)
Lemma initial_requests k reqs w cs : CI0 (key_code k) reqs w cs ->
  Forall (fun r => rq_script r = [] /\ rq_present r = PForge (CKey k)) reqs.
Proof.
  intros (_ & (_ & _ & _ & HK) & _). eapply Forall_impl; [|exact HK].
  intros r Hr. apply plain_on_meaning. exact Hr.
Qed.

(* ... and a lock key that is not the code of the presented ID admits no request *)
Lemma initial_key_tied kk reqs w cs r k : CI0 kk reqs w cs -> In r reqs ->
  rq_present r = PForge (CKey k) -> kk = key_code k.
Proof.
  intros (_ & (_ & _ & _ & HK) & _) Hin Hp. rewrite Forall_forall in HK.
  destruct (HK r Hin) as (_ & k0 & Hp0 & <-). rewrite Hp in Hp0. injection Hp0 as ->. reflexivity.
Qed.
