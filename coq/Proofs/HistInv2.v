From Sessions Require Import Model.Base Model.Sess Model.Hist Proofs.SessDefs Proofs.HistInv.
From Coq Require Import Lia.

(* Task PF, part 2: fault-free closed forms of the session API (RegenerateID,
   Destroy, creation, Start by branches) and preservation of the invariant of
   HistInv.v by every API call. *)

(* a live handle: allocated since the last crash, its ID not in the dead set *)
Definition hok (b : nat) (D : key -> Prop) (s : st) (o : nat) : Prop :=
  b <= o /\ exists ob, hget s o = Some ob /\ ~ D (o_id ob).
Lemma cset_ffnd s o ob : ffnd s -> ffnd (cset s o ob).
Proof.
  intro F. split.
  - destruct (cset_frame s o ob F) as (_ & _ & _ & _ & -> & _). apply F.
  - unfold cset, saved. sst. unfold cset_mid.
    set (s1 := hput s o (touched s ob)). assert (F1 : ffnd s1) by exact F.
    set (req := (if has (cache s1) (o_id ob) then 0 else 1)%Z).
    pose proof (flushes_ffnd _ _ (compact_flushes s1 req F1) F1) as [_ Hn].
    destruct (c_maxcache _ =? 0)%Z; [exact Hn | sst; apply NoDup_upsert_keys; exact Hn].
Qed.

Definition rg_ob1 s ob := mkObj (KGen (supply s)) (set_created (o_rec ob) (now s)).
Definition rg_s1 s o ob := hput (drawn1 s) o (rg_ob1 s ob).
Definition rg_s2 s o ob := cset (rg_s1 s o ob) o (rg_ob1 s ob).
Definition rg_ob2 s o ob := touched (rg_s1 s o ob) (rg_ob1 s ob).
Definition rg_ref s o ob :=
  mkObj (o_id ob) (mkRec (r_created (o_rec (rg_ob2 s o ob))) (now (rg_s2 s o ob)) (r_ip (o_rec (rg_ob2 s o ob)))
                         (r_ua (o_rec (rg_ob2 s o ob))) (Some (KGen (supply s))) None None).
Definition rg_s3 s o ob := fst (halloc (rg_s2 s o ob) (rg_ref s o ob)).
Definition rg_s4 s o ob := cset (rg_s3 s o ob) (length (heap (rg_s2 s o ob))) (rg_ref s o ob).
Definition regen s o ob :=
  let s4 := rg_s4 s o ob in
  set_pending s4 (pending s4 ++ [((now s4 + c_grace (conf s4))%Z, o_id ob)]).

Lemma regenerate_ff s o ob : ffnd s -> hget s o = Some ob ->
  regenerate s o = (regen s o ob, Ok tt, [CkLive (KGen (supply s))]).
Proof.
  intros F Ho. unfold regenerate. rewrite Ho. cbn [gen_id].
  change (log (set_supply s (supply s + 1)%N) (EvDraw (supply s))) with (drawn1 s).
  change (now (drawn1 s)) with (now s).
  fold (rg_ob1 s ob). fold (rg_s1 s o ob).
  assert (F1 : ffnd (rg_s1 s o ob)) by exact F.
  assert (H1 : hget (rg_s1 s o ob) o = Some (rg_ob1 s ob)).
  { unfold rg_s1. apply hget_hput_same. apply hget_Some_lt in Ho. exact Ho. }
  rewrite (cache_set_ff _ _ _ F1 H1). fold (rg_s2 s o ob). cbn [negb].
  unfold rg_s2 at 1. rewrite (hget_cset _ _ _ _ F1 H1). rewrite Nat.eqb_refl. fold (rg_ob2 s o ob).
  fold (rg_ref s o ob).
  change (halloc (rg_s2 s o ob) (rg_ref s o ob)) with (rg_s3 s o ob, length (heap (rg_s2 s o ob))).
  assert (F3 : ffnd (rg_s3 s o ob)) by (apply (cset_ffnd _ o (rg_ob1 s ob) F1)).
  assert (H3 : hget (rg_s3 s o ob) (length (heap (rg_s2 s o ob))) = Some (rg_ref s o ob)).
  { unfold rg_s3. rewrite hget_halloc. rewrite Nat.eqb_refl. reflexivity. }
  cbv beta iota. rewrite (cache_set_ff _ _ _ F3 H3). reflexivity.
Qed.

Lemma regen_frames s o ob : ffnd s ->
  (supply (rg_s2 s o ob) = (supply s + 1)%N /\ now (rg_s2 s o ob) = now s /\ conf (rg_s2 s o ob) = conf s /\
   plan (rg_s2 s o ob) = plan s /\ length (heap (rg_s2 s o ob)) = length (heap s) /\
   pending (rg_s2 s o ob) = pending s /\ graves (rg_s2 s o ob) = graves s) /\
  (supply (rg_s4 s o ob) = (supply s + 1)%N /\ now (rg_s4 s o ob) = now s /\ conf (rg_s4 s o ob) = conf s /\
   plan (rg_s4 s o ob) = plan s /\ length (heap (rg_s4 s o ob)) = S (length (heap s)) /\
   pending (rg_s4 s o ob) = pending s /\ graves (rg_s4 s o ob) = graves s).
Proof.
  intros F. assert (F1 : ffnd (rg_s1 s o ob)) by exact F.
  pose proof (cset_frame _ o (rg_ob1 s ob) F1) as HA.
  assert (F3 : ffnd (rg_s3 s o ob)) by (apply (cset_ffnd _ o (rg_ob1 s ob) F1)).
  pose proof (cset_frame _ (length (heap (rg_s2 s o ob))) (rg_ref s o ob) F3) as HB.
  change (cset (rg_s1 s o ob) o (rg_ob1 s ob)) with (rg_s2 s o ob) in HA.
  change (cset (rg_s3 s o ob) (length (heap (rg_s2 s o ob))) (rg_ref s o ob)) with (rg_s4 s o ob) in HB.
  destruct HA as (A1 & A2 & A3 & A4 & A5 & A6 & A7).
  destruct HB as (B1 & B2 & B3 & B4 & B5 & B6 & B7).
  assert (Hlen : length (heap (rg_s2 s o ob)) = length (heap s)).
  { rewrite A7. unfold rg_s1, hput, drawn1. sst. apply replace_nth_length. }
  assert (C1 : supply (rg_s3 s o ob) = supply (rg_s2 s o ob)) by reflexivity.
  assert (C2 : pending (rg_s3 s o ob) = pending (rg_s2 s o ob)) by reflexivity.
  assert (C3 : conf (rg_s3 s o ob) = conf (rg_s2 s o ob)) by reflexivity.
  assert (C4 : now (rg_s3 s o ob) = now (rg_s2 s o ob)) by reflexivity.
  assert (C5 : plan (rg_s3 s o ob) = plan (rg_s2 s o ob)) by reflexivity.
  assert (C6 : graves (rg_s3 s o ob) = graves (rg_s2 s o ob)) by reflexivity.
  assert (C7 : length (heap (rg_s3 s o ob)) = S (length (heap (rg_s2 s o ob)))).
  { unfold rg_s3, halloc. sst. rewrite app_length. simpl. lia. }
  assert (D1 : supply (rg_s1 s o ob) = (supply s + 1)%N) by reflexivity.
  assert (D2 : pending (rg_s1 s o ob) = pending s) by reflexivity.
  assert (D3 : conf (rg_s1 s o ob) = conf s) by reflexivity.
  assert (D4 : now (rg_s1 s o ob) = now s) by reflexivity.
  assert (D5 : plan (rg_s1 s o ob) = plan s) by reflexivity.
  assert (D6 : graves (rg_s1 s o ob) = graves s) by reflexivity.
  split; repeat split; congruence.
Qed.

Lemma regen_inv b base D s o ob :
  inv b base NX D s -> hget s o = Some ob -> b <= o -> ~ D (o_id ob) -> inv b base NX D (regen s o ob).
Proof.
  intros I Ho Hbo HnD.
  pose (X' := fun (k : key) (o' : nat) => NX k o' \/ (k = o_id ob /\ o' = o)).
  assert (F : ffnd s) by (eapply inv_ffnd; exact I).
  assert (I1 : inv b base NX D (drawn1 s)) by (apply inv_drawn1; exact I).
  destruct (i_fh _ _ _ _ _ I1 o ob Hbo Ho) as [Hk1 Hr1].
  assert (HnDn : ~ D (KGen (supply s))).
  { intro HD. apply (i_Dd _ _ _ _ _ I) in HD. simpl in HD. lia. }
  assert (Hkn : kd (supply s + 1) (KGen (supply s))) by (simpl; lia).
  assert (I2 : inv b base X' D (rg_s1 s o ob)).
  { unfold rg_s1. apply inv_rekey; [exact I1 | exact Ho | exact Hkn | exact HnDn | exact Hr1]. }
  assert (F1 : ffnd (rg_s1 s o ob)) by exact F.
  assert (H1 : hget (rg_s1 s o ob) o = Some (rg_ob1 s ob)).
  { unfold rg_s1. apply hget_hput_same. apply hget_Some_lt in Ho. exact Ho. }
  assert (I3 : inv b base X' D (rg_s2 s o ob)).
  { unfold rg_s2. apply inv_cset; [exact I2 | exact H1 | exact Hbo | exact HnDn]. }
  destruct (regen_frames s o ob F) as [(A1 & A2 & A3 & A4 & A5 & A6 & A7) (B1 & B2 & B3 & B4 & B5 & B6 & B7)].
  assert (I4 : inv b base X' D (rg_s3 s o ob)).
  { unfold rg_s3. apply inv_halloc; [exact I3 | rewrite A1; exact Hk1 | rewrite A1; exact Hkn]. }
  assert (H3 : hget (rg_s3 s o ob) (length (heap (rg_s2 s o ob))) = Some (rg_ref s o ob)).
  { unfold rg_s3. rewrite hget_halloc. rewrite Nat.eqb_refl. reflexivity. }
  assert (I5 : inv b base X' D (rg_s4 s o ob)).
  { unfold rg_s4. apply inv_cset; [exact I4 | exact H3 | apply (i_b _ _ _ _ _ I3) | exact HnD]. }
  assert (I6 : inv b base NX D (rg_s4 s o ob)).
  { eapply inv_weaken_X; [exact I5|]. intros k o' ob' Hl Ho' [[]|[-> ->]].
    unfold rg_s4 in Hl. apply (cset_cache_own _ _ _ _ _ _ _ _ I4 H3) in Hl.
    apply hget_Some_lt in Ho. rewrite A5 in Hl. lia. }
  unfold regen. apply inv_set_pending; [exact I6|].
  intros d k Hin. apply in_app_iff in Hin. destruct Hin as [Hin|[Hin|[]]].
  - eapply (i_fp _ _ _ _ _ I6); exact Hin.
  - injection Hin as _ <-. rewrite B1. exact Hk1.
Qed.

(* the handle after RegenerateID *)
Lemma regen_handle s o ob : ffnd s -> hget s o = Some ob ->
  hget (regen s o ob) o = Some (rg_ob2 s o ob).
Proof.
  intros F Ho. assert (F1 : ffnd (rg_s1 s o ob)) by exact F.
  assert (H1 : hget (rg_s1 s o ob) o = Some (rg_ob1 s ob)).
  { unfold rg_s1. apply hget_hput_same. apply hget_Some_lt in Ho. exact Ho. }
  assert (F3 : ffnd (rg_s3 s o ob)) by (apply (cset_ffnd _ o (rg_ob1 s ob) F1)).
  assert (H3 : hget (rg_s3 s o ob) (length (heap (rg_s2 s o ob))) = Some (rg_ref s o ob)).
  { unfold rg_s3. rewrite hget_halloc. rewrite Nat.eqb_refl. reflexivity. }
  destruct (regen_frames s o ob F) as [(A1 & A2 & A3 & A4 & A5 & A6 & A7) _].
  assert (Hlt : o < length (heap (rg_s2 s o ob))) by (rewrite A5; eapply hget_Some_lt; exact Ho).
  change (hget (regen s o ob) o) with (hget (rg_s4 s o ob) o). unfold rg_s4.
  rewrite (hget_cset _ _ _ _ F3 H3).
  destruct (Nat.eqb (length (heap (rg_s2 s o ob))) o) eqn:E; [apply Nat.eqb_eq in E; lia|].
  unfold rg_s3. rewrite hget_halloc_old by exact Hlt. unfold rg_s2.
  rewrite (hget_cset _ _ _ _ F1 H1), Nat.eqb_refl. reflexivity.
Qed.

(* --------------------------------------------------- Destroy, creation *)

Lemma destroy_ff s o hc ob : plan s = [] -> hget s o = Some ob ->
  destroy s o hc = (fst (cache_delete s (o_id ob)), Ok tt, [CkDelete]).
Proof. intros H Ho. unfold destroy. rewrite Ho. rewrite cache_delete_ff by exact H. reflexivity. Qed.

Definition newobj (s : st) (q : request) : obj :=
  mkObj (KGen (supply s)) (mkRec (now s) (now s) (q_addr q) (q_ua q) None None (Some [])).

Definition created (s : st) (q : request) : st :=
  cset (fst (halloc (drawn1 s) (newobj s q))) (length (heap s)) (newobj s q).

Lemma create_session_ff s q : ffnd s ->
  create_session s q = (created s q, Ok (Some (length (heap s))), [CkLive (KGen (supply s))]).
Proof.
  intro F. unfold create_session. cbn [gen_id].
  change (log (set_supply s (supply s + 1)%N) (EvDraw (supply s))) with (drawn1 s).
  change (now (drawn1 s)) with (now s). fold (newobj s q).
  change (halloc (drawn1 s) (newobj s q)) with (fst (halloc (drawn1 s) (newobj s q)), length (heap s)).
  cbv beta iota.
  assert (F1 : ffnd (fst (halloc (drawn1 s) (newobj s q)))) by exact F.
  assert (H1 : hget (fst (halloc (drawn1 s) (newobj s q))) (length (heap s)) = Some (newobj s q)).
  { rewrite hget_halloc. sst. rewrite Nat.eqb_refl. reflexivity. }
  rewrite (cache_set_ff _ _ _ F1 H1). reflexivity.
Qed.

Lemma created_handle s q : ffnd s ->
  hget (created s q) (length (heap s)) = Some (newobj s q).
Proof.
  intro F. assert (F1 : ffnd (fst (halloc (drawn1 s) (newobj s q)))) by exact F.
  assert (H1 : hget (fst (halloc (drawn1 s) (newobj s q))) (length (heap s)) = Some (newobj s q)).
  { rewrite hget_halloc. sst. rewrite Nat.eqb_refl. reflexivity. }
  unfold created. rewrite (hget_cset _ _ _ _ F1 H1), Nat.eqb_refl. reflexivity.
Qed.

Lemma created_inv b base D s q : inv b base NX D s ->
  inv b base NX D (created s q) /\ hok b D (created s q) (length (heap s)).
Proof.
  intro I. assert (F : ffnd s) by (eapply inv_ffnd; exact I).
  assert (HnDn : ~ D (KGen (supply s))).
  { intro HD. apply (i_Dd _ _ _ _ _ I) in HD. simpl in HD. lia. }
  assert (I1 : inv b base NX D (fst (halloc (drawn1 s) (newobj s q)))).
  { apply inv_halloc; [apply inv_drawn1; exact I | simpl; lia | exact Logic.I]. }
  assert (H1 : hget (fst (halloc (drawn1 s) (newobj s q))) (length (heap s)) = Some (newobj s q)).
  { rewrite hget_halloc. sst. rewrite Nat.eqb_refl. reflexivity. }
  split.
  - unfold created. apply inv_cset; [exact I1 | exact H1 | apply (i_b _ _ _ _ _ I) | exact HnDn].
  - split; [apply (i_b _ _ _ _ _ I)|]. exists (newobj s q). split; [apply created_handle; exact F | exact HnDn].
Qed.
