From Sessions Require Import Model.Base Model.Sess Model.Hist Proofs.SessDefs Proofs.HistInv.
From Coq Require Import Lia.

(* Task PF, part 2: fault-free closed forms of the session API (RegenerateID,
   Destroy, creation, Start by branches) and preservation of the invariant of
   HistInv.v by every API call. *)

(* a live handle: allocated since the last crash, its ID not in the dead set *)
Definition hok (b : nat) (D : key -> Prop) (s : st) (o : nat) : Prop :=
  b <= o /\ exists ob, hget s o = Some ob /\ ~ D (o_id ob).
Lemma cset_ffnd s o ob : ffnd s -> ffnd (cset s o ob).
Proof.
  intro F. split.
  - destruct (cset_frame s o ob F) as (_ & _ & _ & _ & -> & _). apply F.
  - rewrite cset_eq. unfold saved. sst. unfold cset_mid.
    set (s1 := hput s o (touched s ob)). assert (F1 : ffnd s1) by exact F.
    set (req := (if has (cache s1) (o_id ob) then 0 else 1)%Z).
    pose proof (flushes_ffnd _ _ (compact_flushes s1 req F1) F1) as [_ Hn].
    destruct (c_maxcache _ =? 0)%Z; [exact Hn | sst; apply NoDup_upsert_keys; exact Hn].
Qed.

(* no live cookie for a dead ID *)
Definition cks_ok (D : key -> Prop) (cks : list cookie) : Prop := forall k, In (CkLive k) cks -> ~ D k.

Lemma cks_ok_nil D : cks_ok D [].
Proof. intros k []. Qed.
Lemma cks_ok_app D a b : cks_ok D a -> cks_ok D b -> cks_ok D (a ++ b).
Proof. intros Ha Hb k Hin. apply in_app_iff in Hin. destruct Hin; [apply Ha | apply Hb]; assumption. Qed.
Lemma cks_ok_del D : cks_ok D [CkDelete].
Proof. intros k [H|[]]. discriminate. Qed.
Lemma cks_ok_live D k : ~ D k -> cks_ok D [CkLive k].
Proof. intros H k' [E|[]]. injection E as <-. exact H. Qed.
Lemma inv_fresh_nD b base X D s : inv b base X D s -> ~ D (KGen (supply s)).
Proof. intros I HD. apply (i_Dd _ _ _ _ _ I) in HD. simpl in HD. lia. Qed.
#[global] Hint Resolve cks_ok_nil cks_ok_app cks_ok_del cks_ok_live : cks.

Lemma ffnd_same s s' : plan s' = plan s -> cache s' = cache s -> ffnd s -> ffnd s'.
Proof. unfold ffnd. intros -> ->. auto. Qed.

Lemma ffnd_halloc s v : ffnd s -> ffnd (fst (halloc s v)).
Proof. apply ffnd_same; reflexivity. Qed.

Definition rg_ob1 s ob := mkObj (KGen (supply s)) (set_created (o_rec ob) (now s)).
Definition rg_s1 s o ob := hput (drawn1 s) o (rg_ob1 s ob).
Definition rg_s2 s o ob := cset (rg_s1 s o ob) o (rg_ob1 s ob).
Definition rg_ob2 s o ob := touched (rg_s1 s o ob) (rg_ob1 s ob).
Definition rg_ref s o ob :=
  mkObj (o_id ob) (mkRec (r_created (o_rec (rg_ob2 s o ob))) (now (rg_s2 s o ob)) (r_ip (o_rec (rg_ob2 s o ob)))
                         (r_ua (o_rec (rg_ob2 s o ob))) (Some (KGen (supply s))) None None).
Definition rg_s3 s o ob := fst (halloc (rg_s2 s o ob) (rg_ref s o ob)).
Definition rg_s4 s o ob := cset (rg_s3 s o ob) (length (heap (rg_s2 s o ob))) (rg_ref s o ob).
Definition regen s o ob :=
  let s4 := rg_s4 s o ob in
  set_pending s4 (pending s4 ++ [((now s4 + c_grace (conf s4))%Z, o_id ob)]).

Lemma regenerate_ff s o ob : ffnd s -> hget s o = Some ob ->
  regenerate s o = (regen s o ob, Ok tt, [CkLive (KGen (supply s))]).
Proof.
  intros F Ho. unfold regenerate. rewrite Ho. cbn [gen_id].
  change (log (set_supply s (supply s + 1)%N) (EvDraw (supply s))) with (drawn1 s).
  change (now (drawn1 s)) with (now s).
  fold (rg_ob1 s ob). fold (rg_s1 s o ob).
  assert (F1 : ffnd (rg_s1 s o ob)) by exact F.
  assert (H1 : hget (rg_s1 s o ob) o = Some (rg_ob1 s ob)).
  { unfold rg_s1. apply hget_hput_same. apply hget_Some_lt in Ho. exact Ho. }
  rewrite (cache_set_ff _ _ _ F1 H1). fold (rg_s2 s o ob). cbn [negb].
  unfold rg_s2 at 1. rewrite (hget_cset _ _ _ _ F1 H1). rewrite Nat.eqb_refl. fold (rg_ob2 s o ob).
  fold (rg_ref s o ob).
  change (halloc (rg_s2 s o ob) (rg_ref s o ob)) with (rg_s3 s o ob, length (heap (rg_s2 s o ob))).
  assert (F3 : ffnd (rg_s3 s o ob)) by (unfold rg_s3; apply ffnd_halloc; unfold rg_s2; apply cset_ffnd; exact F1).
  assert (H3 : hget (rg_s3 s o ob) (length (heap (rg_s2 s o ob))) = Some (rg_ref s o ob)).
  { unfold rg_s3. rewrite hget_halloc. rewrite Nat.eqb_refl. reflexivity. }
  cbv beta iota. rewrite (cache_set_ff _ _ _ F3 H3). reflexivity.
Qed.

Lemma regen_frames s o ob : ffnd s ->
  (supply (rg_s2 s o ob) = (supply s + 1)%N /\ now (rg_s2 s o ob) = now s /\ conf (rg_s2 s o ob) = conf s /\
   plan (rg_s2 s o ob) = plan s /\ length (heap (rg_s2 s o ob)) = length (heap s) /\
   pending (rg_s2 s o ob) = pending s /\ graves (rg_s2 s o ob) = graves s) /\
  (supply (rg_s4 s o ob) = (supply s + 1)%N /\ now (rg_s4 s o ob) = now s /\ conf (rg_s4 s o ob) = conf s /\
   plan (rg_s4 s o ob) = plan s /\ length (heap (rg_s4 s o ob)) = S (length (heap s)) /\
   pending (rg_s4 s o ob) = pending s /\ graves (rg_s4 s o ob) = graves s).
Proof.
  intros F. assert (F1 : ffnd (rg_s1 s o ob)) by exact F.
  pose proof (cset_frame _ o (rg_ob1 s ob) F1) as HA.
  assert (F3 : ffnd (rg_s3 s o ob)) by (unfold rg_s3; apply ffnd_halloc; unfold rg_s2; apply cset_ffnd; exact F1).
  pose proof (cset_frame _ (length (heap (rg_s2 s o ob))) (rg_ref s o ob) F3) as HB.
  change (cset (rg_s1 s o ob) o (rg_ob1 s ob)) with (rg_s2 s o ob) in HA.
  change (cset (rg_s3 s o ob) (length (heap (rg_s2 s o ob))) (rg_ref s o ob)) with (rg_s4 s o ob) in HB.
  destruct HA as (A1 & A2 & A3 & A4 & A5 & A6 & A7).
  destruct HB as (B1 & B2 & B3 & B4 & B5 & B6 & B7).
  assert (Hlen : length (heap (rg_s2 s o ob)) = length (heap s)).
  { rewrite A7. unfold rg_s1, hput, drawn1. sst. apply replace_nth_length. }
  assert (C1 : supply (rg_s3 s o ob) = supply (rg_s2 s o ob)) by (unfold rg_s3, halloc; sst; reflexivity).
  assert (C2 : pending (rg_s3 s o ob) = pending (rg_s2 s o ob)) by (unfold rg_s3, halloc; sst; reflexivity).
  assert (C3 : conf (rg_s3 s o ob) = conf (rg_s2 s o ob)) by (unfold rg_s3, halloc; sst; reflexivity).
  assert (C4 : now (rg_s3 s o ob) = now (rg_s2 s o ob)) by (unfold rg_s3, halloc; sst; reflexivity).
  assert (C5 : plan (rg_s3 s o ob) = plan (rg_s2 s o ob)) by (unfold rg_s3, halloc; sst; reflexivity).
  assert (C6 : graves (rg_s3 s o ob) = graves (rg_s2 s o ob)) by (unfold rg_s3, halloc; sst; reflexivity).
  assert (C7 : length (heap (rg_s3 s o ob)) = S (length (heap (rg_s2 s o ob)))).
  { unfold rg_s3, halloc. sst. rewrite app_length. simpl. lia. }
  assert (D1 : supply (rg_s1 s o ob) = (supply s + 1)%N) by (unfold rg_s1, drawn1; sst; reflexivity).
  assert (D2 : pending (rg_s1 s o ob) = pending s) by (unfold rg_s1, drawn1; sst; reflexivity).
  assert (D3 : conf (rg_s1 s o ob) = conf s) by (unfold rg_s1, drawn1; sst; reflexivity).
  assert (D4 : now (rg_s1 s o ob) = now s) by (unfold rg_s1, drawn1; sst; reflexivity).
  assert (D5 : plan (rg_s1 s o ob) = plan s) by (unfold rg_s1, drawn1; sst; reflexivity).
  assert (D6 : graves (rg_s1 s o ob) = graves s) by (unfold rg_s1, drawn1; sst; reflexivity).
  split; repeat split; congruence.
Qed.

Definition rgX (o : nat) (ob : obj) : key -> nat -> Prop :=
  fun (k : key) (o' : nat) => NX k o' \/ (k = o_id ob /\ o' = o).

(* the invariant at the intermediate states of RegenerateID (with the excused
   cache entry) and at its end *)
Lemma regen_invs b base D s o ob :
  inv b base NX D s -> hget s o = Some ob -> b <= o -> ~ D (o_id ob) ->
  inv b base (rgX o ob) D (rg_s1 s o ob) /\ inv b base (rgX o ob) D (rg_s2 s o ob) /\
  inv b base (rgX o ob) D (rg_s3 s o ob) /\ inv b base NX D (rg_s4 s o ob) /\ inv b base NX D (regen s o ob).
Proof.
  intros I Ho Hbo HnD.
  pose (X' := rgX o ob).
  assert (F : ffnd s) by (eapply inv_ffnd; exact I).
  assert (I1 : inv b base NX D (drawn1 s)) by (apply inv_drawn1; exact I).
  destruct (i_fh _ _ _ _ _ I1 o ob Hbo Ho) as [Hk1 Hr1].
  assert (HnDn : ~ D (KGen (supply s))).
  { intro HD. apply (i_Dd _ _ _ _ _ I) in HD. simpl in HD. lia. }
  assert (Hkn : kd (supply s + 1) (KGen (supply s))) by (simpl; lia).
  assert (I2 : inv b base X' D (rg_s1 s o ob)).
  { unfold rg_s1. apply inv_rekey; [exact I1 | exact Ho | exact Hkn | exact HnDn | exact Hr1]. }
  assert (F1 : ffnd (rg_s1 s o ob)) by exact F.
  assert (H1 : hget (rg_s1 s o ob) o = Some (rg_ob1 s ob)).
  { unfold rg_s1. apply hget_hput_same. apply hget_Some_lt in Ho. exact Ho. }
  assert (I3 : inv b base X' D (rg_s2 s o ob)).
  { unfold rg_s2. apply inv_cset; [exact I2 | exact H1 | exact Hbo | exact HnDn]. }
  destruct (regen_frames s o ob F) as [(A1 & A2 & A3 & A4 & A5 & A6 & A7) (B1 & B2 & B3 & B4 & B5 & B6 & B7)].
  assert (I4 : inv b base X' D (rg_s3 s o ob)).
  { unfold rg_s3. apply inv_halloc; [exact I3 | rewrite A1; exact Hk1 | rewrite A1; exact Hkn]. }
  assert (H3 : hget (rg_s3 s o ob) (length (heap (rg_s2 s o ob))) = Some (rg_ref s o ob)).
  { unfold rg_s3. rewrite hget_halloc. rewrite Nat.eqb_refl. reflexivity. }
  assert (I5 : inv b base X' D (rg_s4 s o ob)).
  { unfold rg_s4. apply inv_cset; [exact I4 | exact H3 | apply (i_b _ _ _ _ _ I3) | exact HnD]. }
  assert (I6 : inv b base NX D (rg_s4 s o ob)).
  { eapply inv_weaken_X; [exact I5|]. intros k o' ob' Hl Ho' [[]|[-> ->]]. exfalso.
    unfold rg_s4 in Hl. apply (cset_cache_own _ _ _ _ _ _ _ _ I4 H3) in Hl.
    apply hget_Some_lt in Ho. rewrite A5 in Hl. lia. }
  split; [exact I2|]. split; [exact I3|]. split; [exact I4|]. split; [exact I6|].
  unfold regen. apply inv_set_pending; [exact I6|].
  intros d k Hin. apply in_app_iff in Hin. destruct Hin as [Hin|[Hin|[]]].
  - eapply (i_fp _ _ _ _ _ I6); exact Hin.
  - apply (f_equal snd) in Hin. cbn [snd] in Hin. subst k. rewrite B1. exact Hk1.
Qed.

Lemma regen_inv b base D s o ob :
  inv b base NX D s -> hget s o = Some ob -> b <= o -> ~ D (o_id ob) -> inv b base NX D (regen s o ob).
Proof. intros I Ho Hbo HnD. apply (regen_invs _ _ _ _ _ _ I Ho Hbo HnD). Qed.

(* the handle after RegenerateID *)
Lemma regen_handle s o ob : ffnd s -> hget s o = Some ob ->
  hget (regen s o ob) o = Some (rg_ob2 s o ob).
Proof.
  intros F Ho. assert (F1 : ffnd (rg_s1 s o ob)) by exact F.
  assert (H1 : hget (rg_s1 s o ob) o = Some (rg_ob1 s ob)).
  { unfold rg_s1. apply hget_hput_same. apply hget_Some_lt in Ho. exact Ho. }
  assert (F3 : ffnd (rg_s3 s o ob)) by (unfold rg_s3; apply ffnd_halloc; unfold rg_s2; apply cset_ffnd; exact F1).
  assert (H3 : hget (rg_s3 s o ob) (length (heap (rg_s2 s o ob))) = Some (rg_ref s o ob)).
  { unfold rg_s3. rewrite hget_halloc. rewrite Nat.eqb_refl. reflexivity. }
  destruct (regen_frames s o ob F) as [(A1 & A2 & A3 & A4 & A5 & A6 & A7) _].
  assert (Hlt : o < length (heap (rg_s2 s o ob))) by (rewrite A5; eapply hget_Some_lt; exact Ho).
  unfold regen, hget. sst. fold (hget (rg_s4 s o ob) o). unfold rg_s4.
  rewrite (hget_cset _ _ _ _ F3 H3).
  destruct (Nat.eqb (length (heap (rg_s2 s o ob))) o) eqn:E; [apply Nat.eqb_eq in E; lia|].
  unfold rg_s3. rewrite hget_halloc_old by exact Hlt. unfold rg_s2.
  rewrite (hget_cset _ _ _ _ F1 H1), Nat.eqb_refl. reflexivity.
Qed.

(* --------------------------------------------------- Destroy, creation *)

Lemma destroy_ff s o hc ob : plan s = [] -> hget s o = Some ob ->
  destroy s o hc = (fst (cache_delete s (o_id ob)), Ok tt, [CkDelete]).
Proof. intros H Ho. unfold destroy. rewrite Ho. rewrite cache_delete_ff by exact H. reflexivity. Qed.

Definition newobj (s : st) (q : request) : obj :=
  mkObj (KGen (supply s)) (mkRec (now s) (now s) (q_addr q) (q_ua q) None None (Some [])).

Definition created (s : st) (q : request) : st :=
  cset (fst (halloc (drawn1 s) (newobj s q))) (length (heap s)) (newobj s q).

Lemma create_session_ff s q : ffnd s ->
  create_session s q = (created s q, Ok (Some (length (heap s))), [CkLive (KGen (supply s))]).
Proof.
  intro F. unfold create_session. cbn [gen_id].
  change (log (set_supply s (supply s + 1)%N) (EvDraw (supply s))) with (drawn1 s).
  change (now (drawn1 s)) with (now s). fold (newobj s q).
  change (halloc (drawn1 s) (newobj s q)) with (fst (halloc (drawn1 s) (newobj s q)), length (heap s)).
  cbv beta iota.
  assert (F1 : ffnd (fst (halloc (drawn1 s) (newobj s q)))) by exact F.
  assert (H1 : hget (fst (halloc (drawn1 s) (newobj s q))) (length (heap s)) = Some (newobj s q)).
  { rewrite hget_halloc. sst. rewrite Nat.eqb_refl. reflexivity. }
  rewrite (cache_set_ff _ _ _ F1 H1). reflexivity.
Qed.

Lemma created_handle s q : ffnd s ->
  hget (created s q) (length (heap s)) = Some (newobj s q).
Proof.
  intro F. assert (F1 : ffnd (fst (halloc (drawn1 s) (newobj s q)))) by exact F.
  assert (H1 : hget (fst (halloc (drawn1 s) (newobj s q))) (length (heap s)) = Some (newobj s q)).
  { rewrite hget_halloc. sst. rewrite Nat.eqb_refl. reflexivity. }
  unfold created. rewrite (hget_cset _ _ _ _ F1 H1), Nat.eqb_refl. reflexivity.
Qed.

Lemma created_inv b base D s q : inv b base NX D s ->
  inv b base NX D (created s q) /\ hok b D (created s q) (length (heap s)).
Proof.
  intro I. assert (F : ffnd s) by (eapply inv_ffnd; exact I).
  assert (HnDn : ~ D (KGen (supply s))).
  { intro HD. apply (i_Dd _ _ _ _ _ I) in HD. simpl in HD. lia. }
  assert (I1 : inv b base NX D (fst (halloc (drawn1 s) (newobj s q)))).
  { apply inv_halloc; [apply inv_drawn1; exact I | simpl; lia | exact Logic.I]. }
  assert (H1 : hget (fst (halloc (drawn1 s) (newobj s q))) (length (heap s)) = Some (newobj s q)).
  { rewrite hget_halloc. sst. rewrite Nat.eqb_refl. reflexivity. }
  split.
  - unfold created. apply inv_cset; [exact I1 | exact H1 | apply (i_b _ _ _ _ _ I) | exact HnDn].
  - split; [apply (i_b _ _ _ _ _ I)|]. exists (newobj s q). split; [apply created_handle; exact F | exact HnDn].
Qed.

(* ------------------------------------------------------------- Start *)

Definition start_none (s : st) (q : request) (cks : list cookie) : st * result (option nat) * list cookie :=
  if q_create q then let '(s, res, nck) := create_session s q in (s, res, cks ++ nck) else (s, Ok None, cks).

Definition upd_req (s : st) (q : request) : rec -> rec :=
  fun r => set_ua (set_ip (set_access r (now s)) (q_addr q)) (q_ua q).

Definition rec_valid (c : cfg) (t : Z) (q : request) (r : rec) : bool :=
  negb (c_expiry c <=? since (r_access r) t)%Z && ip_ok (c_acceptip c) (r_ip r) (q_addr q)
  && ua_ok (c_acceptua c) (r_ua r) (q_ua q).

Definition start_found (c : cfg) (s : st) (q : request) (k : key) (o : nat) (ob : obj) (cks : list cookie)
  : st * result (option nat) * list cookie :=
  let r := o_rec ob in
  if negb (rec_valid c (now s) q r) then
    let '(s, res, dck) := destroy s o (had_cookie q) in
    match res with
    | Ok _ =>
      if q_create q then
        let '(s, res, nck) := create_session s q in (s, res, cks ++ dck ++ nck)
      else (s, Ok None, cks ++ dck)
    | Err e => (s, Err e, cks)
    | Panic e => (s, Panic e, cks)
    end
  else
    let age := since (r_created r) (now s) in
    let isref := match r_ref r with Some _ => true | None => false end in
    let '(s, step, cks) :=
      if negb isref && (c_idexpiry c <=? age)%Z then
        let '(s, res, rck) := regenerate s o in (s, res, cks ++ rck)
      else if (sat_add (c_idexpiry c) (c_grace c) <=? age)%Z then
        let '(s, ok) := cache_delete s k in
        (s, if ok then Err EExpiredID else Err EDeleteExpired, cks)
      else (s, Ok tt, cks) in
    match step with
    | Err e => (s, Err e, cks)
    | Panic e => (s, Panic e, cks)
    | Ok _ =>
      let '(s, fr) := if isref then follow (S (N.to_nat (supply s))) s o k else (s, Ok (o, k)) in
      match fr with
      | Err e => (s, Err e, cks)
      | Panic e => (s, Panic e, cks)
      | Ok (o', lk) =>
        let cks := if isref then cks ++ [CkLive lk] else cks in
        let s := hupd s o' (upd_req s q) in
        (s, Ok (Some o'), cks)
      end
    end.

Lemma start_eq s q :
  start s q =
  match q_cookie q with
  | CKey k =>
    let '(s1, r) := cache_get s k in
    match r with
    | None => (s1, Err EGet, [])
    | Some None => start_none s1 q [CkDelete]
    | Some (Some o) =>
      match hget s1 o with
      | None => (s1, Panic EGet, [])
      | Some ob => start_found (conf s) s1 q k o ob []
      end
    end
  | _ => start_none s q []
  end.
Proof.
  unfold start. destruct (q_cookie q) as [|k|n]; try reflexivity.
  destruct (cache_get s k) as [s1 [[o|]|]]; try reflexivity.
Qed.

Definition isref (r : rec) : bool := match r_ref r with Some _ => true | None => false end.

Lemma sf_invalid c s q k o ob cks : plan s = [] -> hget s o = Some ob ->
  rec_valid c (now s) q (o_rec ob) = false ->
  start_found c s q k o ob cks =
  (if q_create q then
     let '(s', res, nck) := create_session (fst (cache_delete s (o_id ob))) q in (s', res, cks ++ [CkDelete] ++ nck)
   else (fst (cache_delete s (o_id ob)), Ok None, cks ++ [CkDelete])).
Proof.
  intros Hp Ho Hv. unfold start_found. cbv zeta. rewrite Hv. cbn [negb].
  rewrite (destroy_ff _ _ _ _ Hp Ho). reflexivity.
Qed.

Lemma sf_rotate c s q k o ob cks : ffnd s -> hget s o = Some ob ->
  rec_valid c (now s) q (o_rec ob) = true -> r_ref (o_rec ob) = None ->
  (c_idexpiry c <=? since (r_created (o_rec ob)) (now s))%Z = true ->
  start_found c s q k o ob cks =
  (hupd (regen s o ob) o (upd_req (regen s o ob) q), Ok (Some o), cks ++ [CkLive (KGen (supply s))]).
Proof.
  intros F Ho Hv Hr Ha. unfold start_found. cbv zeta. rewrite Hv, Hr, Ha. cbn [negb andb].
  rewrite (regenerate_ff _ _ _ F Ho). reflexivity.
Qed.

Lemma sf_backstop c s q k o ob cks : plan s = [] ->
  rec_valid c (now s) q (o_rec ob) = true ->
  negb (isref (o_rec ob)) && (c_idexpiry c <=? since (r_created (o_rec ob)) (now s))%Z = false ->
  (sat_add (c_idexpiry c) (c_grace c) <=? since (r_created (o_rec ob)) (now s))%Z = true ->
  start_found c s q k o ob cks = (fst (cache_delete s k), Err EExpiredID, cks).
Proof.
  intros Hp Hv Hn Hb. unfold start_found. cbv zeta. rewrite Hv. cbn [negb]. unfold isref in Hn. rewrite Hn, Hb.
  rewrite (cache_delete_ff _ _ Hp). reflexivity.
Qed.

Lemma sf_plain c s q k o ob cks :
  rec_valid c (now s) q (o_rec ob) = true -> r_ref (o_rec ob) = None ->
  (c_idexpiry c <=? since (r_created (o_rec ob)) (now s))%Z = false ->
  (sat_add (c_idexpiry c) (c_grace c) <=? since (r_created (o_rec ob)) (now s))%Z = false ->
  start_found c s q k o ob cks = (hupd s o (upd_req s q), Ok (Some o), cks).
Proof.
  intros Hv Hr Ha Hb. unfold start_found. cbv zeta. rewrite Hv, Hr, Ha, Hb. reflexivity.
Qed.

Lemma sf_ref c s q k o ob cks t :
  rec_valid c (now s) q (o_rec ob) = true -> r_ref (o_rec ob) = Some t ->
  (sat_add (c_idexpiry c) (c_grace c) <=? since (r_created (o_rec ob)) (now s))%Z = false ->
  start_found c s q k o ob cks =
  (let '(s1, fr) := follow (S (N.to_nat (supply s))) s o k in
   match fr with
   | Err e => (s1, Err e, cks)
   | Panic e => (s1, Panic e, cks)
   | Ok (o', lk) => (hupd s1 o' (upd_req s1 q), Ok (Some o'), cks ++ [CkLive lk])
   end).
Proof.
  intros Hv Hr Hb. unfold start_found. cbv zeta. rewrite Hv, Hr, Hb. cbn [negb andb].
  destruct (follow _ s o k) as [s1 [[o' lk']| |]]; reflexivity.
Qed.

(* ---------------------------------------------- invariant through Start *)

Lemma hok_hupd b D s o o' f : hok b D s o -> hok b D (hupd s o' f) o.
Proof.
  intros [Hb [ob [Ho HnD]]]. split; [exact Hb|]. rewrite hget_hupd.
  destruct (Nat.eqb o' o) eqn:E.
  - apply Nat.eqb_eq in E. subst o'. rewrite Ho. eexists. split; [reflexivity | exact HnD].
  - exists ob. split; assumption.
Qed.

Lemma follow_inv b base D : forall fuel s o lk, inv b base NX D s -> hok b D s o ->
  exists s' r, follow fuel s o lk = (s', r) /\ inv b base NX D s' /\
    match r with Ok (o', _) => hok b D s' o' | Err _ => True | Panic _ => False end.
Proof.
  induction fuel as [|f IH]; intros s o lk I [Hbo [ob [Ho HnD]]]; cbn [follow]; rewrite Ho.
  - destruct (r_ref (o_rec ob)); eexists; eexists; (split; [reflexivity|]); (split; [exact I|]);
      [exact Logic.I | split; [exact Hbo | exists ob; split; assumption]].
  - destruct (r_ref (o_rec ob)) as [t|].
    + destruct (cache_get_inv _ _ _ _ _ t I) as (s1 & r & E & I1 & Hr). rewrite E.
      destruct r as [o'|].
      * destruct Hr as [Hbo' [ob' (Ho' & _ & HnD' & _)]]. apply IH; [exact I1|].
        split; [exact Hbo' | exists ob'; split; assumption].
      * eexists; eexists; (split; [reflexivity|]); split; [exact I1 | exact Logic.I].
    + eexists; eexists; (split; [reflexivity|]); split; [exact I | split; [exact Hbo | exists ob; split; assumption]].
Qed.

(* The last key followed is the ID of the object reached: the cache maps every
   key to an object with that ID (i_cok with NX), and a loaded object is built
   with the key it was loaded under. *)
Lemma follow_key b base D : forall fuel s o lk s' o' lk', inv b base NX D s ->
  (exists ob, hget s o = Some ob /\ o_id ob = lk) ->
  follow fuel s o lk = (s', Ok (o', lk')) ->
  exists ob', hget s' o' = Some ob' /\ o_id ob' = lk'.
Proof.
  induction fuel as [|f IH]; intros s o lk s' o' lk' I [ob [Ho Hid]]; cbn [follow]; rewrite Ho.
  - destruct (r_ref (o_rec ob)); [discriminate|]. intro H. injection H as <- <- <-. exists ob. auto.
  - destruct (r_ref (o_rec ob)) as [t|].
    + destruct (cache_get_inv _ _ _ _ _ t I) as (s1 & r & E & I1 & Hr). rewrite E.
      destruct r as [o1|]; [|discriminate].
      destruct Hr as [_ [ob1 (Ho1 & [Hid1|[]] & _)]]. apply (IH s1 o1 t s' o' lk' I1).
      exists ob1. auto.
    + intro H. injection H as <- <- <-. exists ob. auto.
Qed.

Definition res_ok (b : nat) (D : key -> Prop) (s : st) (res : result (option nat)) : Prop :=
  match res with Ok (Some o) => hok b D s o | Ok None => True | Err _ => True | Panic _ => False end.

Lemma start_none_inv b base D s q cks : inv b base NX D s -> cks_ok D cks ->
  exists s' res cks', start_none s q cks = (s', res, cks') /\ inv b base NX D s' /\ res_ok b D s' res /\ cks_ok D cks'.
Proof.
  intros I Hck. pose proof (inv_fresh_nD _ _ _ _ _ I) as Hn. unfold start_none. destruct (q_create q).
  - rewrite create_session_ff by (eapply inv_ffnd; exact I).
    destruct (created_inv _ _ _ _ q I) as [I' H']. do 3 eexists. split; [reflexivity|]. split; [exact I'|]. split; [exact H' | auto with cks].
  - do 3 eexists. split; [reflexivity|]. split; [exact I|]. split; [exact Logic.I | exact Hck].
Qed.

Lemma start_found_inv b base D c s q k o ob cks :
  inv b base NX D s -> hget s o = Some ob -> o_id ob = k -> b <= o -> ~ D (o_id ob) -> cks_ok D cks ->
  exists s' res cks', start_found c s q k o ob cks = (s', res, cks') /\ inv b base NX D s' /\ res_ok b D s' res /\ cks_ok D cks'.
Proof.
  intros I Ho Hidk Hbo HnD Hck. assert (F : ffnd s) by (eapply inv_ffnd; exact I).
  assert (Hp : plan s = []) by apply F. pose proof (inv_fresh_nD _ _ _ _ _ I) as Hn.
  destruct (rec_valid c (now s) q (o_rec ob)) eqn:Hv.
  - destruct (r_ref (o_rec ob)) as [t|] eqn:Hr.
    + (* reference record *)
      destruct (sat_add (c_idexpiry c) (c_grace c) <=? since (r_created (o_rec ob)) (now s))%Z eqn:Hb.
      * rewrite sf_backstop; [| exact Hp | exact Hv | unfold isref; rewrite Hr; reflexivity | exact Hb].
        do 3 eexists. split; [reflexivity|]. split; [apply inv_cache_delete; exact I|]. split; [exact Logic.I | exact Hck].
      * rewrite (sf_ref _ _ _ _ _ _ _ t Hv Hr Hb).
        destruct (follow_inv b base D (S (N.to_nat (supply s))) s o k I) as (s1 & fr & E & I1 & Hfr).
        { split; [exact Hbo | exists ob; split; assumption]. }
        rewrite E. destruct fr as [[o' lk']|e|e]; [|do 3 eexists; split; [reflexivity|]; split; [exact I1|]; split; [exact Logic.I | exact Hck] | contradiction].
        do 3 eexists. split; [reflexivity|]. split; [apply inv_hupd; [exact I1 | reflexivity]|].
        split; [apply hok_hupd; exact Hfr|].
        destruct (follow_key b base D _ _ _ _ _ _ _ I (ex_intro _ ob (conj Ho Hidk)) E) as [ob2 [Ho2 Hid2]].
        destruct Hfr as [_ [ob' [Ho' HnD']]]. assert (ob2 = ob') by congruence. subst ob2.
        rewrite Hid2 in HnD'. auto with cks.
    + destruct (c_idexpiry c <=? since (r_created (o_rec ob)) (now s))%Z eqn:Ha.
      * rewrite (sf_rotate _ _ _ _ _ _ _ F Ho Hv Hr Ha). do 3 eexists. split; [reflexivity|]. split; [|split].
        -- apply inv_hupd; [apply regen_inv; assumption | reflexivity].
        -- apply hok_hupd. split; [exact Hbo|]. exists (rg_ob2 s o ob). split; [apply regen_handle; assumption | exact Hn].
        -- auto with cks.
      * destruct (sat_add (c_idexpiry c) (c_grace c) <=? since (r_created (o_rec ob)) (now s))%Z eqn:Hb.
        -- rewrite sf_backstop; [| exact Hp | exact Hv | rewrite Ha; apply andb_false_r | exact Hb].
           do 3 eexists. split; [reflexivity|]. split; [apply inv_cache_delete; exact I|]. split; [exact Logic.I | exact Hck].
        -- rewrite (sf_plain _ _ _ _ _ _ _ Hv Hr Ha Hb). do 3 eexists. split; [reflexivity|]. split; [|split].
           ++ apply inv_hupd; [exact I | reflexivity].
           ++ apply hok_hupd. split; [exact Hbo | exists ob; split; assumption].
           ++ exact Hck.
  - rewrite (sf_invalid _ _ _ _ _ _ _ Hp Ho Hv).
    assert (I1 : inv b base NX D (fst (cache_delete s (o_id ob)))) by (apply inv_cache_delete; exact I).
    pose proof (inv_fresh_nD _ _ _ _ _ I1) as Hn1.
    destruct (q_create q).
    + rewrite create_session_ff by (eapply inv_ffnd; exact I1).
      destruct (created_inv _ _ _ _ q I1) as [I' H']. do 3 eexists. split; [reflexivity|]. split; [exact I'|]. split; [exact H' | auto with cks].
    + do 3 eexists. split; [reflexivity|]. split; [exact I1|]. split; [exact Logic.I | auto with cks].
Qed.

Lemma start_inv b base D s q : inv b base NX D s ->
  exists s' res cks, start s q = (s', res, cks) /\ inv b base NX D s' /\ res_ok b D s' res /\ cks_ok D cks.
Proof.
  intro I. rewrite start_eq. destruct (q_cookie q) as [|k|n]; try (apply start_none_inv; [exact I | apply cks_ok_nil]).
  destruct (cache_get_inv _ _ _ _ _ k I) as (s1 & r & E & I1 & Hr). rewrite E.
  destruct r as [o|]; [|apply start_none_inv; [exact I1 | apply cks_ok_del]].
  destruct Hr as [Hbo [ob (Ho & [Hidk|[]] & HnD & _)]]. rewrite Ho.
  apply start_found_inv; try assumption. apply cks_ok_nil.
Qed.

(* ------------------------------------------ objects keep their IDs (frame) *)

Definition ids_pres (s s' : st) : Prop :=
  forall o ob, hget s o = Some ob -> exists ob', hget s' o = Some ob' /\ o_id ob' = o_id ob.

Lemma ids_pres_refl s : ids_pres s s.
Proof. intros o ob H. exists ob. split; [exact H | reflexivity]. Qed.

Lemma ids_pres_trans s1 s2 s3 : ids_pres s1 s2 -> ids_pres s2 s3 -> ids_pres s1 s3.
Proof.
  intros H12 H23 o ob H. destruct (H12 o ob H) as [ob2 [H2 E2]]. destruct (H23 o ob2 H2) as [ob3 [H3 E3]].
  exists ob3. split; [exact H3 | congruence].
Qed.

Lemma ids_pres_heap s s' : heap s' = heap s -> ids_pres s s'.
Proof. intros E o ob H. exists ob. unfold hget in *. rewrite E. split; [exact H | reflexivity]. Qed.

Lemma ids_pres_hupd s o f : ids_pres s (hupd s o f).
Proof.
  intros o' ob H. rewrite hget_hupd. destruct (Nat.eqb o o') eqn:E.
  - apply Nat.eqb_eq in E. subst o'. rewrite H. eexists. split; reflexivity.
  - exists ob. split; [exact H | reflexivity].
Qed.

Lemma ids_pres_halloc s v : ids_pres s (fst (halloc s v)).
Proof.
  intros o ob H. exists ob. split; [|reflexivity]. rewrite hget_halloc_old; [exact H | eapply hget_Some_lt; exact H].
Qed.

Lemma ids_pres_cset s o ob : ffnd s -> hget s o = Some ob -> ids_pres s (cset s o ob).
Proof.
  intros F Ho o' ob' H. rewrite (hget_cset _ _ _ _ F Ho). destruct (Nat.eqb o o') eqn:E.
  - apply Nat.eqb_eq in E. subst o'. rewrite Ho in H. injection H as <-. eexists. split; reflexivity.
  - exists ob'. split; [exact H | reflexivity].
Qed.

Lemma hok_ids b D s s' o : ids_pres s s' -> hok b D s o -> hok b D s' o.
Proof.
  intros Hi [Hb [ob [Ho HnD]]]. split; [exact Hb|]. destruct (Hi o ob Ho) as [ob' [Ho' E]].
  exists ob'. split; [exact Ho' | rewrite E; exact HnD].
Qed.

Lemma cache_delete_heap s k : plan s = [] -> heap (fst (cache_delete s k)) = heap s.
Proof. intro H. rewrite cache_delete_ff by exact H. reflexivity. Qed.

Lemma loaded_heap s k r es : ffnd s -> heap (loaded s k r es) = heap s ++ [mkObj k r].
Proof.
  intro F. rewrite loaded_eq. cbv zeta. destruct (c_maxcache (conf s) =? 0)%Z; [reflexivity|]. sst.
  destruct (compact_frame (set_heap (set_evs s (es ++ evs s)) (heap s ++ [mkObj k r])) 1 F) as (-> & _). reflexivity.
Qed.

Lemma cache_get_ids s k : ffnd s -> ids_pres s (fst (cache_get s k)).
Proof.
  intro F. pose proof (cache_get_ff s k (proj1 F)) as H. destruct (lookup (cache s) k).
  - rewrite H. apply ids_pres_refl.
  - destruct H as [es [_ H]]. destruct (lookup (store s) k) as [r|]; rewrite H; cbn [fst].
    + intros o ob Ho. exists ob. split; [|reflexivity]. unfold hget in *. rewrite loaded_heap by exact F.
      rewrite nth_error_app1; [exact Ho | apply nth_error_Some; congruence].
    + apply ids_pres_heap. reflexivity.
Qed.

(* ------------------------------------------- the other session methods *)

Lemma save_direct_ff s o ob : plan s = [] -> hget s o = Some ob ->
  save_direct s o = (saved s (o_id ob) (o_rec ob), Ok tt).
Proof. intros H Ho. unfold save_direct. rewrite Ho. rewrite p_save_ff by exact H. reflexivity. Qed.

Lemma save_direct_inv b base D s o : inv b base NX D s -> hok b D s o ->
  exists s', save_direct s o = (s', Ok tt) /\ inv b base NX D s' /\ heap s' = heap s.
Proof.
  intros I [Hbo [ob [Ho HnD]]]. rewrite (save_direct_ff _ _ _ (i_plan _ _ _ _ _ I) Ho).
  eexists. split; [reflexivity|]. split; [|reflexivity].
  destruct (i_fh _ _ _ _ _ I o ob Hbo Ho). apply inv_saved; assumption.
Qed.

Lemma inv_hupd_hok b base D s o f : inv b base NX D s -> hok b D s o -> (forall r, r_ref (f r) = r_ref r) ->
  inv b base NX D (hupd s o f) /\ hok b D (hupd s o f) o.
Proof. intros I H Hf. split; [apply inv_hupd; assumption | apply hok_hupd; exact H]. Qed.

Lemma logout_inv b base D s o : inv b base NX D s -> hok b D s o ->
  exists s', logout s o = (s', Ok tt) /\ inv b base NX D s' /\ ids_pres s s'.
Proof.
  intros I H. pose proof H as [Hbo [ob [Ho HnD]]]. unfold logout. rewrite Ho.
  destruct (r_user (o_rec ob)).
  - destruct (inv_hupd_hok _ _ _ _ o (fun r => set_user r None) I H) as [I1 H1]; [reflexivity|].
    destruct (save_direct_inv _ _ _ _ _ I1 H1) as (s' & E & I' & Hh). exists s'. split; [exact E|]. split; [exact I'|].
    eapply ids_pres_trans; [apply ids_pres_hupd | apply ids_pres_heap; exact Hh].
  - exists s. split; [reflexivity|]. split; [exact I | apply ids_pres_refl].
Qed.

(* The loop of LogOut(userID)/RefreshUser never fails and never panics: listed
   IDs without a record are skipped. *)
Lemma eus_inv b base D u : forall ids s, inv b base NX D s ->
  exists s', each_user_session s ids u = (s', Ok tt) /\ inv b base NX D s' /\ ids_pres s s'.
Proof.
  induction ids as [|k t IH]; intros s I; cbn [each_user_session].
  - exists s. split; [reflexivity|]. split; [exact I | apply ids_pres_refl].
  - destruct (cache_get_inv _ _ _ _ _ k I) as (s1 & r & E & I1 & Hr).
    pose proof (cache_get_ids s k (inv_ffnd _ _ _ _ _ I)) as Hi1. rewrite E in *. cbn [fst] in Hi1.
    destruct r as [o|].
    + destruct Hr as [Hbo [ob (Ho & _ & HnD & _)]].
      assert (H1 : hok b D s1 o) by (split; [exact Hbo | exists ob; split; assumption]).
      destruct (inv_hupd_hok _ _ _ _ o (fun r => set_user r u) I1 H1) as [I2 H2]; [reflexivity|].
      destruct H2 as [_ [ob2 [Ho2 HnD2]]].
      assert (F2 : ffnd (hupd s1 o (fun r => set_user r u))) by (eapply inv_ffnd; exact I2).
      rewrite (cache_set_ff _ _ _ F2 Ho2).
      destruct (IH (cset (hupd s1 o (fun r => set_user r u)) o ob2)) as (s' & E' & I' & Hi').
      { apply inv_cset; assumption. }
      exists s'. split; [exact E'|]. split; [exact I'|].
      eapply ids_pres_trans; [exact Hi1|]. eapply ids_pres_trans; [apply ids_pres_hupd|].
      eapply ids_pres_trans; [apply ids_pres_cset; eassumption | exact Hi'].
    + destruct (IH s1 I1) as (s' & E' & I' & Hi'). exists s'. split; [exact E'|]. split; [exact I'|].
      eapply ids_pres_trans; eassumption.
Qed.

Lemma logout_user_inv b base D s u : inv b base NX D s ->
  exists s', logout_user s u = (s', Ok tt) /\ inv b base NX D s' /\ ids_pres s s'.
Proof.
  intro I. unfold logout_user. rewrite p_usersessions_ff by apply (i_plan _ _ _ _ _ I).
  destruct (eus_inv b base D None (listed s u) (set_evs s ([EvUserSessions u true] ++ evs s))) as (s' & E & I' & Hi).
  { apply inv_quiet; [repeat constructor | exact I]. }
  exists s'. split; [exact E|]. split; [exact I'|]. eapply ids_pres_trans; [|exact Hi]. apply ids_pres_heap. reflexivity.
Qed.

Lemma refresh_user_inv b base D s u : inv b base NX D s ->
  exists s', refresh_user s u = (s', Ok tt) /\ inv b base NX D s' /\ ids_pres s s'.
Proof.
  intro I. unfold refresh_user. rewrite p_usersessions_ff by apply (i_plan _ _ _ _ _ I).
  destruct (eus_inv b base D (Some u) (listed s (fst u)) (set_evs s ([EvUserSessions (fst u) true] ++ evs s))) as (s' & E & I' & Hi).
  { apply inv_quiet; [repeat constructor | exact I]. }
  exists s'. split; [exact E|]. split; [exact I'|]. eapply ids_pres_trans; [|exact Hi]. apply ids_pres_heap. reflexivity.
Qed.

Lemma regenerate_inv b base D s o : inv b base NX D s -> hok b D s o ->
  exists s', regenerate s o = (s', Ok tt, [CkLive (KGen (supply s))]) /\ inv b base NX D s' /\ hok b D s' o.
Proof.
  intros I [Hbo [ob [Ho HnD]]]. assert (F : ffnd s) by (eapply inv_ffnd; exact I).
  rewrite (regenerate_ff _ _ _ F Ho). eexists. split; [reflexivity|]. split; [apply regen_inv; assumption|].
  split; [exact Hbo|]. exists (rg_ob2 s o ob). split; [apply regen_handle; assumption|].
  intro HD. apply (i_Dd _ _ _ _ _ I) in HD. simpl in HD. lia.
Qed.

(* LogIn never fails without faults; the cookie carries the ID drawn last. *)
Lemma login_inv b base D s o u ex : inv b base NX D s -> hok b D s o ->
  exists s' n, login s o u ex = (s', Ok tt, [CkLive (KGen n)]) /\ inv b base NX D s' /\ hok b D s' o /\ ~ D (KGen n).
Proof.
  intros I H. unfold login.
  assert (Hpre : exists s1, (if ex then logout_user s (fst u) else let '(s0, _) := logout s o in (s0, Ok tt)) = (s1, Ok tt)
                            /\ inv b base NX D s1 /\ hok b D s1 o).
  { destruct ex.
    - destruct (logout_user_inv _ _ _ _ (fst u) I) as (s1 & E & I1 & Hi). exists s1. split; [exact E|].
      split; [exact I1 | eapply hok_ids; eassumption].
    - destruct (logout_inv _ _ _ _ _ I H) as (s1 & E & I1 & Hi). exists s1. rewrite E. split; [reflexivity|].
      split; [exact I1 | eapply hok_ids; eassumption]. }
  destruct Hpre as (s1 & E1 & I1 & H1). rewrite E1.
  destruct (inv_hupd_hok _ _ _ _ o (fun r => set_user r (Some u)) I1 H1) as [I2 H2]; [reflexivity|].
  pose proof H2 as [Hbo [ob2 [Ho2 HnD2]]].
  assert (F2 : ffnd (hupd s1 o (fun r => set_user r (Some u)))) by (eapply inv_ffnd; exact I2).
  rewrite (cache_set_ff _ _ _ F2 Ho2). cbn [negb].
  assert (I3 : inv b base NX D (cset (hupd s1 o (fun r => set_user r (Some u))) o ob2)) by (apply inv_cset; assumption).
  assert (H3 : hok b D (cset (hupd s1 o (fun r => set_user r (Some u))) o ob2) o).
  { eapply hok_ids; [apply ids_pres_cset; eassumption | exact H2]. }
  destruct (regenerate_inv _ _ _ _ _ I3 H3) as (s' & E' & I' & H'). rewrite E'.
  exists s'. eexists. split; [reflexivity|]. split; [exact I'|]. split; [exact H' | eapply inv_fresh_nD; exact I3].
Qed.
