(* B2 (C05), part (b), the statement in one piece: for every interruption point
   i >= 1 the interrupted request and the uninterrupted one (the serial order
   "request, then clean-up") return the same thing. *)
From Sessions Require Import Model.Base Model.Sess Model.Hist Model.StartSteps Proofs.SessDefs
  Proofs.RotateLaws Proofs.RotateLaws2 Proofs.RotateLaws3 Proofs.RotateLaws4 Proofs.StartSteps
  Proofs.StartSteps2 Proofs.StartSteps3 Proofs.StartSteps4.
From Sessions Require Proofs.C01Spec.
From Coq Require Import Lia.

Lemma content_codec c r : C01Spec.content_of (codec c r) = C01Spec.content_of r.
Proof. unfold C01Spec.content_of, codec. cbn. destruct (r_data r), (r_user r) as [[u v]|]; reflexivity. Qed.

Lemma content_seen r t q : C01Spec.content_of (seen_rec r t q) = C01Spec.content_of r.
Proof. reflexivity. Qed.

(* what a request is handed: the ID, data and user ID of the session object, its
   reference field, and the bookkeeping of this request on it *)
Definition handed (s : st) (o : nat) (k : key) (g : C01Spec.gdata) (t : Z) (q : request) : Prop :=
  exists ob, hget s o = Some ob /\ o_id ob = k /\ C01Spec.content_of (o_rec ob) = g /\
             r_ref (o_rec ob) = None /\
             r_access (o_rec ob) = t /\ r_ip (o_rec ob) = q_addr q /\ r_ua (o_rec ob) = q_ua q.

Lemma handed_of s o k r' rn c t q :
  hget s o = Some (mkObj k (seen_rec r' t q)) -> r_ref rn = None -> (r' = rn \/ r' = codec c rn) ->
  handed s o k (C01Spec.content_of rn) t q.
Proof.
  intros Hg Hr Hcase. exists (mkObj k (seen_rec r' t q)). split; [exact Hg|]. split; [reflexivity|].
  cbn [o_rec]. rewrite content_seen. destruct Hcase as [-> | ->]; [|rewrite content_codec]; repeat split; exact Hr.
Qed.

Theorem interrupted_served s q k r rest i :
  plan s = [] -> cache_ok s -> nodup_ok s -> fresh_ok s -> ref_wf s ->
  q_cookie q = CKey k -> L s k = Some r -> chain_rec s r rest -> rest <> [] ->
  valid_for (conf s) r (now s) q = true ->
  (since (r_created r) (now s) < sat_add (c_idexpiry (conf s)) (c_grace (conf s)))%Z ->
  (forall k', In k' rest -> notdue s k') ->
  1 <= i ->
  let kn := last rest k in
  exists rn si oi ss os,
    L s kn = Some rn /\ r_ref rn = None /\
    (* interrupted after the i-th cache operation *)
    start_interrupted s q (Some i) = (si, Ok (Some oi), [CkLive kn]) /\
    handed si oi kn (C01Spec.content_of rn) (now s) q /\
    (* not interrupted: the request, then the clean-up *)
    start s q = (ss, Ok (Some os), [CkLive kn]) /\
    handed ss os kn (C01Spec.content_of rn) (now s) q /\
    (* the session is still there, and whatever was due is gone *)
    (exists rk, L si kn = Some rk /\ r_ref rk = None) /\
    (i <= S (length rest) -> forall d k0, In (d, k0) (pending s) -> (d <= now s)%Z ->
       lookup (cache si) k0 = None /\ lookup (store si) k0 = None /\ ~ In (d, k0) (pending si)) /\
    (S (length rest) < i -> si = ss /\ oi = os).
Proof.
  intros Hp Hco Hnd Hf Hw Hq HL Hch Hne Hvalid Hage Hdue Hi kn.
  destruct (start_interrupted_chain s q k r rest i Hp Hco Hnd Hf Hw Hq HL Hch Hne Hvalid Hage Hdue Hi)
    as (si & oi & rn & r' & E & A & B & C & D & _ & _ & _ & G & H & I).
  destruct (start_chain s q k r rest Hp Hco Hnd Hf Hw Hq HL Hch Hne Hvalid Hage)
    as (ss & os & rn2 & r2 & E2 & A2 & B2 & C2 & D2 & _).
  fold kn in E, A, D, G, E2, A2, D2. assert (rn2 = rn) by congruence. subst rn2.
  exists rn, si, oi, ss, os. split; [exact A|]. split; [exact B|]. split; [exact E|].
  split; [exact (handed_of _ _ _ _ _ _ _ _ D B C)|]. split; [exact E2|].
  split; [exact (handed_of _ _ _ _ _ _ _ _ D2 B C2)|]. split; [exact G|]. split; [exact H|].
  intro Hi2. specialize (I Hi2). rewrite E, E2 in I. injection I as -> ->. split; reflexivity.
Qed.

Lemma handed_def s o k g t q : handed s o k g t q <->
  exists ob, hget s o = Some ob /\ o_id ob = k /\ C01Spec.content_of (o_rec ob) = g /\
             r_ref (o_rec ob) = None /\
             r_access (o_rec ob) = t /\ r_ip (o_rec ob) = q_addr q /\ r_ua (o_rec ob) = q_ua q.
Proof. reflexivity. Qed.

Lemma notdue_def s k : notdue s k <-> forall d, In (d, k) (pending s) -> (now s < d)%Z.
Proof. reflexivity. Qed.
