(* Round 4, task R4(a), C07, part 3: the notions of LineageK.v / LineageK2.v in
   readable form (quoted by Properties/C07K.v), and an executable form of
   dead_answer used by the tests of Proofs/LineageKEx.v.

   No axioms; standard library only. *)
From Sessions Require Import Model.Base Model.Sess Model.Hist Proofs.SessDefs
  Proofs.HistInv Proofs.HistInv2 Proofs.HistInv3 Proofs.HistLift Proofs.HistLift2 Proofs.HistLift3
  Proofs.HistLift4 Proofs.IsoLaws Proofs.DeadLaws Proofs.Lineage Proofs.Lineage2 Proofs.Lineage3 Proofs.Lineage4
  Proofs.Lineage5 Proofs.Lineage6 Proofs.LineageK Proofs.LineageK2.
From Coq Require Import Lia.

Definition is_call (e : ev) : bool := match e with EvDraw _ => false | _ => true end.

Lemma ncalls_meaning l : ncalls l = length (filter is_call l).
Proof. induction l as [|e l IH]; [reflexivity|]. destruct e; cbn [ncalls filter is_call length]; rewrite IH; reflexivity. Qed.

(* the events of the step, had it run to completion *)
Lemma req_final_evs w r : rev (evs (req_final w r)) = ob_evs (snd (step w (HReq (nocrash r)))).
Proof.
  unfold req_final, pre_of, req_of, presents. rewrite step_req_eq. cbv zeta.
  cbn [nocrash rq_client rq_present rq_create rq_addr rq_ua rq_script rq_tb rq_plan rq_crash].
  destruct (req_body _ _ (rq_script r)) as [[[[[s3 rc] st0] sr] fin] cks]. reflexivity.
Qed.

(* what a crash point cuts off *)
Lemma dropped_meaning l n : l = ev_prefix l n ++ dropped l n.
Proof. apply ev_prefix_split. Qed.

Lemma dropped_beyond l n : length (filter is_call l) < n -> dropped l n = [].
Proof. rewrite <- ncalls_meaning. apply dropped_full. Qed.

Definition is_read (e : ev) : bool :=
  match e with EvLoad _ _ | EvLoadUser _ _ | EvUserSessions _ _ => true | _ => false end.

Lemma late_crash_meaning w h :
  late_crash w h <->
  forall r n, h = HReq r -> rq_crash r = Some n ->
    forallb is_read (dropped (ob_evs (snd (step w (HReq (nocrash r))))) n) = true.
Proof.
  destruct h as [r|d|tbl pl| | |u tbl pl|u tbl pl|c]; cbn [late_crash];
    try (split; [intros _ r n E; discriminate | intros _; exact Logic.I]).
  split.
  - intros H r' n E Hcr. injection E as <-. rewrite Hcr in H. rewrite <- req_final_evs. exact H.
  - intro H. destruct (rq_crash r) as [n|] eqn:Hcr; [|exact Logic.I].
    rewrite req_final_evs. exact (H r n eq_refl Hcr).
Qed.

(* a crash point beyond the step's persistence calls is late *)
Lemma late_crash_beyond w r n :
  rq_crash r = Some n -> length (filter is_call (ob_evs (snd (step w (HReq (nocrash r)))))) < n -> late_crash w (HReq r).
Proof.
  intros Hcr H. apply (late_crash_calls w r n Hcr). rewrite req_final_evs, ncalls_meaning. exact H.
Qed.

(* any crash point of a step that only reads is late *)
Lemma late_crash_reads w r :
  forallb is_read (ob_evs (snd (step w (HReq (nocrash r))))) = true -> late_crash w (HReq r).
Proof.
  intro H. cbn [late_crash]. destruct (rq_crash r) as [n|]; [|exact Logic.I]. rewrite req_final_evs.
  set (l := ob_evs (snd (step w (HReq (nocrash r))))) in *.
  apply forallb_forall. intros e He. rewrite forallb_forall in H. apply H.
  rewrite (ev_prefix_split l n). apply in_or_app. right. exact He.
Qed.

Lemma late_hist_all_steps : forall hs w, late_hist w hs <-> all_steps (fun w h _ => late_crash w h) w hs.
Proof. induction hs as [|h t IH]; intro w; cbn [late_hist all_steps]; [tauto|]. rewrite IH. tauto. Qed.

Lemma late_hist_meaning hs w :
  late_hist w hs <-> forall hs1 h hs2, hs = hs1 ++ h :: hs2 -> late_crash (after w hs1) h.
Proof. rewrite late_hist_all_steps. apply (all_steps_pointwise (fun w h _ => late_crash w h)). Qed.

Lemma crashed_obs_meaning o :
  crashed_obs o <->
  ob_res o = RCrashed /\ ob_start o = None /\ ob_final o = None /\ ob_cookies o = [] /\ ob_script o = [].
Proof. reflexivity. Qed.

Lemma lin_claim_k_meaning D w h o :
  lin_claim_k D w h o <->
  lin_obs D o /\
  forall r k, h = HReq r -> presents w r = CKey k -> D k ->
    match rq_crash r with None => dead_answer o | Some _ => crashed_obs o end.
Proof. reflexivity. Qed.

(* what a late crash leaves, in terms of the step run to completion *)
Theorem late_step_meaning w r n :
  rq_crash r = Some n -> late_crash w (HReq r) ->
  (exists es, w_st (fst (step w (HReq r))) = set_evs (restart (w_st (fst (step w (HReq (nocrash r)))))) es) /\
  w_jars (fst (step w (HReq r))) = w_jars w /\
  crashed_obs (snd (step w (HReq r))) /\
  ob_store (snd (step w (HReq r))) = ob_store (snd (step w (HReq (nocrash r)))) /\
  ob_cache (snd (step w (HReq r))) = [] /\
  ob_drawn (snd (step w (HReq r))) = ob_drawn (snd (step w (HReq (nocrash r)))).
Proof.
  intros Hcr Hl. cbn [late_crash] in Hl. rewrite Hcr in Hl.
  destruct (late_state w r n Hcr Hl) as (E1 & E2 & E3).
  split; [eexists; exact E1|]. split; [exact E2|]. rewrite E3, E1.
  split; [repeat split|].
  assert (Eo : forall x, snd (step w (HReq (nocrash r))) = x -> exists rc st0 cks sr fin jar,
            x = mk_obs rc st0 cks sr fin (w_st (fst (step w (HReq (nocrash r))))) jar).
  { intros x <-. rewrite step_req_eq. cbv zeta. cbn [nocrash rq_crash].
    destruct (req_body _ _ _) as [[[[[s3 rc] st0] sr] fin] cks]. cbn [fst snd w_st]. do 6 eexists. reflexivity. }
  destruct (Eo _ eq_refl) as (rc & st0 & cks & sr & fin & jar & ->).
  unfold mk_obs, restart. cbn [ob_store ob_cache ob_drawn]. sst. repeat split.
Qed.

(* ------------------------------------------------ dead_answer, executable *)

Definition is_draw_of (n : N) (e : ev) : bool := match e with EvDraw m => N.eqb m n | _ => false end.

Definition dead_answerb (o : obs) : bool :=
  match ob_res o with
  | RNone => match ob_start o, ob_cookies o with None, [CkDelete] => true | _, _ => false end
  | RErr ERefMissing | RErr EExpiredID =>
    match ob_start o, ob_cookies o with None, [] => true | _, _ => false end
  | RSess =>
    match ob_start o, ob_cookies o with
    | Some (KGen n, rc), CkDelete :: CkLive (KGen m) :: _ =>
      N.eqb m n && existsb (is_draw_of n) (ob_evs o) &&
      match r_ref rc, r_user rc, r_data rc with None, None, Some [] => true | _, _, _ => false end
    | _, _ => false
    end
  | _ => false
  end.

Lemma dead_answerb_sound o : dead_answerb o = true -> dead_answer o.
Proof.
  unfold dead_answerb, dead_answer. destruct (ob_res o) as [| |e|e| |]; try discriminate.
  - destruct (ob_start o) as [[[n|j] rc]|]; try discriminate.
    destruct (ob_cookies o) as [|[k1| |b1] [|[[m|j]| |b2] rest]]; try discriminate.
    intro H. apply andb_prop in H. destruct H as [H H3]. apply andb_prop in H. destruct H as [H1 H2].
    apply N.eqb_eq in H1. subst m. apply existsb_exists in H2. destruct H2 as (e & Hin & He).
    destruct e; try discriminate. cbn [is_draw_of] in He. apply N.eqb_eq in He. subst n0.
    destruct (r_ref rc) eqn:E1; [discriminate|]. destruct (r_user rc) eqn:E2; [discriminate|].
    destruct (r_data rc) as [[|x y]|] eqn:E3; try discriminate.
    exists n, rc, rest. repeat split; assumption.
  - destruct (ob_start o); [discriminate|]. destruct (ob_cookies o) as [|[k1| |b1] [|c2 rest]]; try discriminate.
    intros _. split; reflexivity.
  - destruct e; try discriminate; (destruct (ob_start o); [discriminate|]); (destruct (ob_cookies o); [|discriminate]);
      intros _; (split; [auto | split; reflexivity]).
Qed.
