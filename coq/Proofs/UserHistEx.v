(* C08 at the level of histories: the theorems instantiated at the states that
   fault-free, crash-free histories reach, and a worked example. *)
From Sessions Require Import Model.Base Model.Sess Model.Hist Proofs.SessDefs
  Proofs.HistInv Proofs.HistInv2 Proofs.HistInv3 Proofs.UserLaws Proofs.UserHist Proofs.UserHist2.
From Sessions Require Proofs.LiveHist4 Proofs.LiveHist8 Proofs.CrashFault3 Proofs.CrashRestart.
Import LiveHist4.

Section Reach.
  Variables (c : cfg) (hs : list hop).
  Hypothesis Hff : Forall ff_hop hs.
  Hypothesis Hcf : Forall crash_free hs.
  Let w := reach c hs.

  Lemma reach_inv : sess_inv (w_st w).
  Proof. apply LiveHist8.reach_sess_inv; assumption. Qed.

  Theorem handler_inv_hist r pre s o : handler_at w r pre s o -> sess_inv s /\ exists ob, hget s o = Some ob.
  Proof. apply handler_at_inv. exact reach_inv. Qed.

  Theorem login_hist r pre s o u ex : handler_at w r pre s o ->
    exists ob s' n ob', hget s o = Some ob /\
      login s o u ex = (s', Ok tt, [CkLive (KGen n)]) /\ sess_inv s' /\
      hget s' o = Some ob' /\ o_id ob' = KGen n /\ KGen n <> o_id ob /\ r_user (o_rec ob') = Some u /\
      (exists rr, lookup (store s') (KGen n) = Some rr /\ r_user rr = Some (fst u, 0%N)) /\
      nouser_at s' (o_id ob) /\
      (ex = true -> forall k, In k (listed s (fst u)) -> k <> KGen n -> nouser_at s' k).
  Proof. intro H. exact (login_at w r pre s o reach_inv H u ex). Qed.

  Theorem logout_hist r pre s o : handler_at w r pre s o ->
    exists ob s' ob', hget s o = Some ob /\ logout s o = (s', Ok tt) /\ sess_inv s' /\ hget s' o = Some ob' /\
      o_id ob' = o_id ob /\ r_user (o_rec ob') = None /\
      (r_user (o_rec ob) = None -> s' = s) /\
      (r_user (o_rec ob) <> None ->
         lookup (store s') (o_id ob) = Some (codec (conf s) (set_user (o_rec ob) None))).
  Proof. intro H. exact (logout_at w r pre s o reach_inv H). Qed.

  Theorem tolerant_hist r pre s o : handler_at w r pre s o ->
    (forall u ex, exists s' cks, login s o u ex = (s', Ok tt, cks)) /\
    (exists s', logout s o = (s', Ok tt)) /\
    (forall u, exists s', logout_user s u = (s', Ok tt)) /\
    (forall u, exists s', refresh_user s u = (s', Ok tt)).
  Proof. intro H. exact (tolerant_at w r pre s o reach_inv H). Qed.

  Theorem login_reports_hist r pre s o u ex post : handler_at w r pre s o ->
    rq_plan r = [] -> rq_crash r = None -> rq_script r = pre ++ SLogIn u ex :: post ->
    nth_error (ob_script (snd (step w (HReq r)))) (length pre) = Some SOk.
  Proof. intro H. exact (login_reports w r pre s o u ex post reach_inv H). Qed.

  Theorem logout_reports_hist r pre s o post : handler_at w r pre s o ->
    rq_plan r = [] -> rq_crash r = None -> rq_script r = pre ++ SLogOut :: post ->
    nth_error (ob_script (snd (step w (HReq r)))) (length pre) = Some SOk.
  Proof. intro H. exact (logout_reports w r pre s o post reach_inv H). Qed.

  Theorem logout_user_hist u tbl :
    let w' := fst (step w (HLogoutUser u tbl [])) in
    ob_res (snd (step w (HLogoutUser u tbl []))) = RVoid /\ sess_inv (w_st w') /\
    forall k, In k (listed (w_st w) u) -> nouser_at (w_st w') k.
  Proof. exact (logout_user_step w u tbl reach_inv). Qed.

  Theorem refresh_user_hist u tbl :
    let w' := fst (step w (HRefreshUser u tbl [])) in
    ob_res (snd (step w (HRefreshUser u tbl []))) = RVoid /\ sess_inv (w_st w') /\
    forall k, In k (listed (w_st w) (fst u)) ->
      (forall rr, lookup (store (w_st w')) k = Some rr -> r_user rr = Some (fst u, 0%N)) /\
      (forall o ob, lookup (cache (w_st w')) k = Some o -> hget (w_st w') o = Some ob -> r_user (o_rec ob) = Some u).
  Proof. exact (refresh_user_step w u tbl reach_inv). Qed.

  Theorem login_survives_hist r pre s o u ex h : handler_at w r pre s o ->
    rq_plan r = [] -> rq_crash r = None -> rq_script r = pre ++ [SLogIn u ex] -> loses_cache h ->
    let n := supply s in
    let w1 := fst (step w (HReq r)) in let w2 := fst (step w1 h) in
    (exists rr, lookup (store (w_st w1)) (KGen n) = Some rr /\ r_user rr = Some (fst u, 0%N) /\
                L (w_st w2) (KGen n) = Some rr) /\
    cache (w_st w2) = [] /\
    (rq_present r = PJar -> jar_of (w_jars w2) (rq_client r) = CKey (KGen n)) /\
    (forall ob, hget s o = Some ob -> nouser_at (w_st w2) (o_id ob)) /\
    (ex = true -> forall k, In k (listed s (fst u)) -> k <> KGen n -> nouser_at (w_st w2) k).
  Proof. intro H. exact (login_survives w r pre s o u ex h reach_inv H). Qed.

  Theorem logout_user_survives_hist u tbl h k : loses_cache h -> In k (listed (w_st w) u) ->
    nouser_at (w_st (fst (step (fst (step w (HLogoutUser u tbl []))) h))) k.
  Proof.
    intros Hl Hin. apply nouser_survives; [exact Hl|]. apply (logout_user_step w u tbl reach_inv). exact Hin.
  Qed.
End Reach.

Lemma handler_at_meaning w r pre s o :
  handler_at w r pre s o <->
  exists s2 cks rs cks',
    start (req_s1 w r) (req_q w r) = (s2, Ok (Some o), cks) /\
    run_script (fire_due s2) o (had_cookie (req_q w r)) pre = (s, rs, cks') /\ ran pre rs = true.
Proof. reflexivity. Qed.

(* ------------------------------------------------------------- example *)

(* two browsers of user 5; the second logs in exclusively after setting a
   value; then the cache is dropped and each browser comes back *)
Definition cU : cfg := mkCfg 3600000000000 600000000000 60000000000 max64 10 1 true false.
Definition rqu (c : N) (sc : list sop) : reqstep := mkReqStep c PJar true (V4 1 2 3 4 5) 7 sc [] [] None.
Definition hU : list hop := [HReq (rqu 1 [SLogIn (5%N, 1%N) false]); HReq (rqu 2 [])].
Definition wU : world := Eval vm_compute in reach cU hU.
Lemma wU_eq : wU = reach cU hU.
Proof. vm_compute. reflexivity. Qed.
Definition rU : reqstep := rqu 2 [SSet 1 1; SLogIn (5%N, 2%N) true].
Definition sU : st := Eval vm_compute in
  fst (fst (run_script (fire_due (fst (fst (start (req_s1 wU rU) (req_q wU rU))))) 2 true [SSet 1 1])).

Example handler_at_ex : handler_at wU rU [SSet 1 1] sU 2.
Proof. do 4 eexists. split; [vm_compute; reflexivity|]. split; vm_compute; reflexivity. Qed.

Example login_survives_ex :
  let w1 := fst (step wU (HReq rU)) in let w2 := fst (step w1 HDropCache) in
  supply sU = 3%N /\ listed sU 5 = [KGen 1] /\
  ob_script (snd (step wU (HReq rU))) = [SOk; SOk] /\
  option_map r_user (L (w_st w2) (KGen 3)) = Some (Some (5%N, 0%N)) /\
  option_map r_user (L (w_st w2) (KGen 1)) = Some None /\
  jar_of (w_jars w2) 2 = CKey (KGen 3) /\
  option_map (fun x => r_user (snd x)) (ob_start (snd (step w2 (HReq (rqu 2 []))))) = Some (Some (5%N, 0%N)) /\
  option_map (fun x => r_user (snd x)) (ob_start (snd (step w2 (HReq (rqu 1 []))))) = Some None.
Proof. vm_compute. repeat split. Qed.
