(* C12 at the level of the public API: non-vacuity examples and the history
   witness that N + 1 is reached after N was lowered (vm_compute on concrete
   histories run through Hist.step). *)
From Sessions Require Import Model.Base Model.Sess Model.Hist Proofs.SessDefs
  Proofs.CacheInv2 Proofs.CacheInv3 Proofs.CacheInv4 Proofs.CacheHist Proofs.CacheHist2 Proofs.CacheHist3.
From Sessions Require Import Proofs.HistInv3.
Local Open Scope Z_scope.

Definition cN (n : Z) (j : bool) : cfg := mkCfg 100000 100000 100 100000 n 0 true j.
Definition mkr (c : N) (s : list sop) : hop := HReq (mkReqStep c PJar true (AOther 0) 7 s [] [] None).

(* three clients, N = 2: the bound is reached and kept; the oldest entry left *)
Definition h_three : list hop :=
  [mkr 1 [SSet 1 1]; HWait 5; mkr 2 []; HWait 5; mkr 3 []; HWait 5; mkr 1 [SSet 2 2]].

Example ex_bound :
  Forall ff_hop h_three /\ Forall (keeps_size 2) h_three /\ fits (mkWorld (init_st (cN 2 false)) []) h_three /\
  map fst (cache (w_st (reach (cN 2 false) h_three))) = [KGen 2; KGen 0].
Proof. split; [repeat constructor|]. split; [repeat constructor|]. vm_compute. repeat split. Qed.

(* N lowered from 3 to 1 with three entries of equal access time, then
   RefreshUser writes two cached sessions: the cache ends with N + 1 = 2 *)
Definition h_tie : list hop :=
  [mkr 1 [SLogIn (5%N, 1%N) false]; mkr 2 [SLogIn (5%N, 1%N) false]; HSetCfg (cN 1 false);
   HRefreshUser (5%N, 2%N) [KGen 1] []].

Lemma bound_tie_hist_refuted :
  exists c hs, Forall ff_hop hs /\ Forall crash_free hs /\
    let s := w_st (reach c hs) in
    0 < c_maxcache (conf s) /\ Z.of_nat (length (cache s)) = c_maxcache (conf s) + 1.
Proof.
  exists (cN 3 false), h_tie. split; [repeat constructor|]. split; [repeat constructor|].
  vm_compute. split; reflexivity.
Qed.

(* ... and that history does not satisfy fits *)
Example ex_tie_not_fits : ~ fits (mkWorld (init_st (cN 3 false)) []) h_tie.
Proof. vm_compute. intros (_ & _ & H & _). specialize (H ltac:(discriminate)). apply H. reflexivity. Qed.

(* N = 0 from the start: nothing is ever cached *)
Example ex_zero :
  cache (w_st (reach (cN 0 false) h_three)) = [] /\
  map ob_res (run (cN 0 false) h_three) = [RSess; RVoid; RSess; RVoid; RSess; RVoid; RSess].
Proof. vm_compute. split; reflexivity. Qed.

(* N set to 0 with two entries cached: a request that does not draw an ID
   leaves them, the next creation empties the cache *)
Definition h_to_zero : list hop := [mkr 1 []; HWait 5; mkr 2 []; HSetCfg (cN 0 false)].

Example ex_zero_later :
  length (cache (w_st (reach (cN 2 false) h_to_zero))) = 2%nat /\
  length (cache (w_st (reach (cN 2 false) (h_to_zero ++ [mkr 1 [SSet 1 1]])))) = 2%nat /\
  cache (w_st (reach (cN 2 false) (h_to_zero ++ [mkr 1 [SSet 1 1]; mkr 3 []]))) = [].
Proof. vm_compute. repeat split. Qed.

(* purge with the JSON codec: the access time of the last request (1.5 s) lives
   in memory only; HPurge stores it to the second; Lc is unchanged *)
Definition cJ : cfg := mkCfg 10000000000000 10000000000000 100 10000000000000 2 0 true true.
Definition h_json : list hop := [mkr 1 [SSet 1 1]; HWait 1500000000; mkr 1 []].

Example ex_purge_json :
  let w := reach cJ h_json in let w' := fst (step w (HPurge [] [])) in
  option_map r_access (L (w_st w) (KGen 0)) = Some 1500000000 /\
  option_map r_access (lookup (store (w_st w)) (KGen 0)) = Some 0 /\
  cache (w_st w') = [] /\
  option_map r_access (lookup (store (w_st w')) (KGen 0)) = Some 1000000000 /\
  Lc (w_st w') (KGen 0) = Lc (w_st w) (KGen 0) /\ Lc (w_st w) (KGen 0) <> None.
Proof. vm_compute. repeat split. discriminate. Qed.

(* a step that drew an ID after N was lowered: within N + 1 (here even N) *)
Example ex_weak :
  let w := reach (cN 3 false) [mkr 1 []; mkr 2 []; mkr 3 []; HSetCfg (cN 1 false)] in
  length (cache (w_st w)) = 3%nat /\
  ob_drawn (snd (step w (mkr 4 []))) <> supply (w_st w) /\
  length (cache (w_st (fst (step w (mkr 4 []))))) = 1%nat.
Proof. vm_compute. repeat split. discriminate. Qed.

(* N < 0, SessionCacheExpiry 50: two sessions idle for 60 and 65 are flushed by
   the next write, with their old access times; nothing leaves for size *)
Definition cNeg : cfg := mkCfg 100000 100000 100 50 (-1) 0 true false.
Definition h_neg : list hop := [mkr 1 []; HWait 5; mkr 2 []; HWait 60].

Example ex_unbounded_hist :
  let w := reach cNeg h_neg in let ob := snd (step w (mkr 3 [])) in
  map fst (cache (w_st w)) = [KGen 0; KGen 1] /\
  map fst (cache (w_st (fst (step w (mkr 3 []))))) = [KGen 2] /\
  (exists r, In (EvSave (KGen 0) r true) (ob_evs ob) /\ r_access r = 0) /\
  (exists r, In (EvSave (KGen 1) r true) (ob_evs ob) /\ r_access r = 5) /\
  ob_now ob = 65.
Proof.
  vm_compute. split; [reflexivity|]. split; [reflexivity|].
  split; [eexists; split; [right; left; reflexivity | reflexivity]|].
  split; [eexists; split; [right; right; left; reflexivity | reflexivity] | reflexivity].
Qed.
