(* C11, part 3: heap frame (objects keep their place, their reference field
   and their data through every cache/user/ID operation), acknowledged calls
   have written through (C11_ack), nothing panics from well-formed states
   (C11_nopanic). Arbitrary fault plans. *)
From Sessions Require Import Model.Base Model.Sess Model.Hist Proofs.SessDefs Proofs.CrashFault
  Proofs.CrashFault2 Proofs.CrashFault3 Proofs.CrashFault4 Proofs.CrashFault5 Proofs.CrashFault7 Proofs.CrashFault8.
From Coq Require Import Lia.

(* ------------------------------------------------------------- heap frame *)

(* every object stays where it is and keeps its reference field and its data *)
Definition stable (s s' : st) : Prop :=
  forall o ob, hget s o = Some ob ->
    exists ob', hget s' o = Some ob' /\ r_ref (o_rec ob') = r_ref (o_rec ob) /\ r_data (o_rec ob') = r_data (o_rec ob).

Lemma stable_refl s : stable s s.
Proof. intros o ob H. exists ob. auto. Qed.

Lemma stable_trans s1 s2 s3 : stable s1 s2 -> stable s2 s3 -> stable s1 s3.
Proof.
  intros H1 H2 o ob Ho. destruct (H1 _ _ Ho) as (ob1 & Ho1 & A1 & B1).
  destruct (H2 _ _ Ho1) as (ob2 & Ho2 & A2 & B2). exists ob2. split; [exact Ho2|]. split; congruence.
Qed.

Lemma stable_eq s s' : heap s' = heap s -> stable s s'.
Proof. intros Hh o ob H. exists ob. rewrite (hget_eq _ _ _ Hh). auto. Qed.

Lemma stable_ext s s' : heap_ext s s' -> stable s s'.
Proof. intros HE o ob H. exists ob. split; [eapply heap_ext_hget; eassumption | auto]. Qed.

Lemma stable_hput s o ob v :
  hget s o = Some ob -> r_ref (o_rec v) = r_ref (o_rec ob) -> r_data (o_rec v) = r_data (o_rec ob) ->
  stable s (hput s o v).
Proof.
  intros Ho A B o' ob' Ho'. destruct (Nat.eq_dec o o') as [<-|Hne].
  - exists v. rewrite hget_hput_same by (eapply hget_Some_lt; exact Ho). assert (ob' = ob) by congruence. subst. auto.
  - exists ob'. rewrite hget_hput_other by exact Hne. auto.
Qed.

Lemma stable_hupd s o f :
  (forall r, r_ref (f r) = r_ref r /\ r_data (f r) = r_data r) -> stable s (hupd s o f).
Proof.
  intro Hf. destruct (hget s o) as [ob|] eqn:Ho.
  - rewrite (hupd_spec _ _ _ _ Ho). eapply stable_hput; [exact Ho | apply Hf | apply Hf].
  - rewrite (hupd_none _ _ _ Ho). apply stable_refl.
Qed.

Lemma stable_cache_get s k s' r : cache_get s k = (s', r) -> stable s s'.
Proof.
  intro HG. apply cache_get_spec in HG. destruct HG as [(o & _ & -> & _)|(_ & s1 & lr & EP & HG)]; [apply stable_refl|].
  apply p_load_spec in EP. destruct EP as ((Hh & _) & _).
  destruct lr as [[rc|]|]; destruct HG as [-> _]; try (apply stable_eq; exact Hh).
  unfold after_load. eapply stable_trans; [apply stable_eq; exact Hh|].
  apply (stable_trans _ (fst (halloc s1 (mkObj k rc)))); [apply stable_ext; exists [mkObj k rc]; reflexivity|].
  destruct (_ =? _)%Z; [apply stable_refl|]. apply stable_eq. simpl.
  destruct (compact_flushes (fst (halloc s1 (mkObj k rc))) 1) as (_ & _ & _ & Hh3 & _). exact Hh3.
Qed.

Lemma stable_cache_set s o s' b : cache_set s o = (s', b) -> stable s s'.
Proof.
  intro HS. destruct (hget s o) as [ob|] eqn:Ho.
  - pose proof (cache_set_heap _ _ _ _ _ Ho HS) as Hh. eapply stable_trans; [|apply stable_eq; exact Hh].
    eapply stable_hput; [exact Ho | reflexivity | reflexivity].
  - apply cache_set_spec in HS. destruct HS as [(_ & -> & _)|(ob & Ho' & _)]; [apply stable_refl | congruence].
Qed.

Lemma stable_p_save s k r s' b : p_save s k r = (s', b) -> stable s s'.
Proof. intro H. apply p_save_spec in H. destruct H as ((Hh & _) & _). apply stable_eq. exact Hh. Qed.

Lemma stable_cache_delete s k s' b : cache_delete s k = (s', b) -> stable s s'.
Proof. unfold cache_delete. intro H. apply p_delete_spec in H. destruct H as ((Hh & _) & _). apply stable_eq. exact Hh. Qed.

Lemma stable_destroy s o hc s' res cks : destroy s o hc = (s', res, cks) -> stable s s'.
Proof.
  unfold destroy. destruct (hget s o) as [ob|]; [|intro H; injection H as <- _ _; apply stable_refl].
  destruct (cache_delete s (o_id ob)) as [s1 b] eqn:E. apply stable_cache_delete in E.
  destruct b; intro H; injection H as <- _ _; exact E.
Qed.

Lemma stable_save_direct s o s' r : save_direct s o = (s', r) -> stable s s'.
Proof.
  unfold save_direct. destruct (hget s o) as [ob|]; [|intro H; injection H as <- _; apply stable_refl].
  destruct (p_save s (o_id ob) (o_rec ob)) as [s1 b] eqn:E. apply stable_p_save in E.
  intro H. injection H as <- _. exact E.
Qed.

Lemma stable_logout s o s' r : logout s o = (s', r) -> stable s s'.
Proof.
  unfold logout. destruct (hget s o) as [ob|]; [|intro H; injection H as <- _; apply stable_refl].
  destruct (r_user (o_rec ob)); [|intro H; injection H as <- _; apply stable_refl].
  intro H. apply stable_save_direct in H. eapply stable_trans; [|exact H].
  apply stable_hupd. intro r0. split; reflexivity.
Qed.

Lemma stable_each ids u : forall s s' r, each_user_session s ids u = (s', r) -> stable s s' /\ forall e, r <> Panic e.
Proof.
  induction ids as [|k t IH]; intros s s' r HE; simpl in HE.
  - injection HE as <- <-. split; [apply stable_refl | discriminate].
  - destruct (cache_get s k) as [s1 g] eqn:EG. apply stable_cache_get in EG.
    destruct g as [[o|]|].
    + destruct (cache_set (hupd s1 o (fun r0 => set_user r0 u)) o) as [s2 b] eqn:ES. apply stable_cache_set in ES.
      assert (H2 : stable s s2).
      { eapply stable_trans; [exact EG|]. eapply stable_trans; [|exact ES]. apply stable_hupd. intro r0. split; reflexivity. }
      destruct b.
      * destruct (IH _ _ _ HE) as [A B]. split; [eapply stable_trans; eassumption | exact B].
      * injection HE as <- <-. split; [exact H2 | discriminate].
    + destruct (IH _ _ _ HE) as [A B]. split; [eapply stable_trans; eassumption | exact B].
    + injection HE as <- <-. split; [exact EG | discriminate].
Qed.

Lemma stable_p_usersessions s u s' r : p_usersessions s u = (s', r) -> stable s s'.
Proof. intro H. apply p_usersessions_spec in H. destruct H as ((Hh & _) & _). apply stable_eq. exact Hh. Qed.

(* LogOut(userID) and RefreshUser never panic *)
Theorem logout_user_nopanic s u s' r : logout_user s u = (s', r) -> stable s s' /\ forall e, r <> Panic e.
Proof.
  unfold logout_user. destruct (p_usersessions s u) as [s1 [ids|]] eqn:E; apply stable_p_usersessions in E.
  - intro H. destruct (stable_each _ _ _ _ _ H) as [A B]. split; [eapply stable_trans; eassumption | exact B].
  - intro H. injection H as <- <-. split; [exact E | discriminate].
Qed.

Theorem refresh_user_nopanic s u s' r : refresh_user s u = (s', r) -> stable s s' /\ forall e, r <> Panic e.
Proof.
  unfold refresh_user. destruct (p_usersessions s (fst u)) as [s1 [ids|]] eqn:E; apply stable_p_usersessions in E.
  - intro H. destruct (stable_each _ _ _ _ _ H) as [A B]. split; [eapply stable_trans; eassumption | exact B].
  - intro H. injection H as <- <-. split; [exact E | discriminate].
Qed.

Lemma stable_regenerate s o s' res cks :
  regenerate s o = (s', res, cks) -> stable s s' /\ (hget s o <> None -> forall e, res <> Panic e).
Proof.
  intro HR. destruct (hget s o) as [ob|] eqn:Ho.
  - destruct (regenerate_spec _ _ _ _ _ _ Ho HR) as (s2 & b1 & EC1 & Ho1 & HS). cbv zeta in HS.
    assert (S2 : stable s s2).
    { eapply stable_trans; [|eapply stable_cache_set; exact EC1].
      eapply stable_trans; [apply (stable_eq s (fst (gen_id s))); reflexivity|].
      eapply stable_hput; [exact Ho | reflexivity | reflexivity]. }
    destruct b1; [|destruct HS as (-> & -> & _); split; [exact S2 | discriminate]].
    destruct HS as (_ & s4 & b2 & EC2 & HS).
    assert (S4 : stable s s4).
    { eapply stable_trans; [exact S2|]. eapply stable_trans; [|eapply stable_cache_set; exact EC2].
      apply stable_ext. unfold halloc. simpl. eexists. reflexivity. }
    destruct b2; destruct HS as (-> & -> & _).
    + split; [|discriminate]. eapply stable_trans; [exact S4 | apply stable_eq; reflexivity].
    + split; [exact S4 | discriminate].
  - unfold regenerate in HR. rewrite Ho in HR. injection HR as <- <- _. split; [apply stable_refl | congruence].
Qed.

Lemma stable_login s o u ex s' res cks :
  login s o u ex = (s', res, cks) -> stable s s' /\ (hget s o <> None -> forall e, res <> Panic e).
Proof.
  unfold login. intro HL.
  assert (HA : exists sA r1, (if ex then logout_user s (fst u) else let '(s0, _) := logout s o in (s0, Ok tt)) = (sA, r1) /\
                             stable s sA /\ forall e, r1 <> Panic e).
  { destruct ex.
    - destruct (logout_user s (fst u)) as [sA r1] eqn:E. exists sA, r1. split; [reflexivity|]. eapply logout_user_nopanic; exact E.
    - destruct (logout s o) as [sA r0] eqn:E. exists sA, (Ok tt). split; [reflexivity|].
      split; [eapply stable_logout; exact E | discriminate]. }
  destruct HA as (sA & r1 & EA & SA & NA). rewrite EA in HL.
  destruct r1 as [[]|e|e]; [| injection HL as <- <- _; split; [exact SA | discriminate] | exfalso; eapply NA; reflexivity].
  destruct (cache_set (hupd sA o (fun r => set_user r (Some u))) o) as [sC b] eqn:ES.
  assert (SC : stable s sC).
  { eapply stable_trans; [exact SA|]. eapply stable_trans; [|eapply stable_cache_set; exact ES].
    apply stable_hupd. intro r0. split; reflexivity. }
  destruct b; simpl in HL; [|injection HL as <- <- _; split; [exact SC | discriminate]].
  destruct (regenerate sC o) as [[s2 r2] ck2] eqn:ER. destruct (stable_regenerate _ _ _ _ _ ER) as [S2 N2].
  assert (S' : stable s s2) by (eapply stable_trans; eassumption).
  destruct r2 as [[]|e|e]; injection HL as <- <- _; (split; [exact S'|]); try discriminate.
  intros Hne e0 _. destruct (hget s o) as [ob|] eqn:Ho; [|congruence].
  destruct (SC _ _ Ho) as (ob' & Ho' & _). eapply N2; [congruence | reflexivity].
Qed.

(* ------------------------------------------------------------ C11_nopanic *)

(* the handler's session: a live object with a data map *)
Definition handle_ok (s : st) (o : nat) : Prop :=
  exists ob, hget s o = Some ob /\ r_data (o_rec ob) <> None.

Lemma handle_ok_stable s s' o : stable s s' -> handle_ok s o -> handle_ok s' o.
Proof. intros HS (ob & Ho & Hd). destruct (HS _ _ Ho) as (ob' & Ho' & _ & E). exists ob'. split; [exact Ho' | congruence]. Qed.

Lemma save_direct_nopanic s o s' r : hget s o <> None -> save_direct s o = (s', r) -> forall e, r <> Panic e.
Proof.
  unfold save_direct. destruct (hget s o) as [ob|]; [|congruence]. intros _.
  destruct (p_save s (o_id ob) (o_rec ob)) as [s1 []]; intro H; injection H as _ <-; discriminate.
Qed.

Lemma set_data_handle s o d ob s' r :
  hget s o = Some ob -> save_direct (hupd s o (fun r0 => set_data r0 (Some d))) o = (s', r) ->
  (forall e, r <> Panic e) /\ handle_ok s' o.
Proof.
  intros Ho HS. rewrite (hupd_spec _ _ _ _ Ho) in HS.
  set (ob' := mkObj (o_id ob) (set_data (o_rec ob) (Some d))) in *.
  assert (Ho' : hget (hput s o ob') o = Some ob') by (apply hget_hput_same; eapply hget_Some_lt; exact Ho).
  split; [eapply save_direct_nopanic; [|exact HS]; congruence|].
  eapply handle_ok_stable; [eapply stable_save_direct; exact HS|]. exists ob'. split; [exact Ho' | discriminate].
Qed.

Theorem do_sop_nopanic s o hc op s' r cks :
  handle_ok s o -> do_sop s o hc op = (s', r, cks) -> (forall e, r <> SPanic e) /\ handle_ok s' o.
Proof.
  intros Hh HD. pose proof Hh as (ob & Ho & Hd). destruct op; simpl in HD.
  - unfold data_of in HD. rewrite Ho in HD. destruct (r_data (o_rec ob)) as [d|] eqn:Ed; [|congruence].
    destruct (save_direct _ o) as [s1 r1] eqn:ES. injection HD as <- <- _.
    destruct (set_data_handle _ _ _ _ _ _ Ho ES) as [A B]. split; [|exact B].
    intros e. destruct r1; simpl; try discriminate. intro E. injection E as ->. eapply A. reflexivity.
  - unfold data_of in HD. rewrite Ho in HD. destruct (r_data (o_rec ob)) as [d|] eqn:Ed; [|congruence].
    destruct (save_direct _ o) as [s1 r1] eqn:ES. injection HD as <- <- _.
    destruct (set_data_handle _ _ _ _ _ _ Ho ES) as [A B]. split; [|exact B].
    intros e. destruct r1; simpl; try discriminate. intro E. injection E as ->. eapply A. reflexivity.
  - injection HD as <- <- _. split; [discriminate | exact Hh].
  - unfold data_of in HD. rewrite Ho in HD. destruct (r_data (o_rec ob)) as [d|] eqn:Ed; [|congruence].
    destruct (kv_get d k) as [v|]; [|injection HD as <- <- _; split; [discriminate | exact Hh]].
    destruct (save_direct _ o) as [s1 r1] eqn:ES. injection HD as <- <- _.
    destruct (set_data_handle _ _ _ _ _ _ Ho ES) as [A B]. split; [discriminate | exact B].
  - destruct (login s o u exclusive) as [[s1 r1] c1] eqn:EL. injection HD as <- <- _.
    destruct (stable_login _ _ _ _ _ _ _ EL) as [A B]. split; [|eapply handle_ok_stable; eassumption].
    intros e. destruct r1; simpl; try discriminate. intro E. injection E as ->. eapply B; [congruence | reflexivity].
  - destruct (logout s o) as [s1 r1] eqn:EL. injection HD as <- <- _.
    split; [|eapply handle_ok_stable; [eapply stable_logout; exact EL | exact Hh]].
    unfold logout in EL. rewrite Ho in EL. destruct (r_user (o_rec ob)).
    + intros e. destruct r1; simpl; try discriminate. intro E. injection E as ->.
      eapply save_direct_nopanic; [|exact EL|reflexivity].
      rewrite (hupd_spec _ _ _ _ Ho), hget_hput_same by (eapply hget_Some_lt; exact Ho). discriminate.
    + injection EL as _ <-. discriminate.
  - destruct (regenerate s o) as [[s1 r1] c1] eqn:ER. injection HD as <- <- _.
    destruct (stable_regenerate _ _ _ _ _ ER) as [A B]. split; [|eapply handle_ok_stable; eassumption].
    intros e. destruct r1; simpl; try discriminate. intro E. injection E as ->. eapply B; [congruence | reflexivity].
  - destruct (destroy s o hc) as [[s1 r1] c1] eqn:ED. injection HD as <- <- _.
    split; [|eapply handle_ok_stable; [eapply stable_destroy; exact ED | exact Hh]].
    unfold destroy in ED. rewrite Ho in ED. destruct (cache_delete s (o_id ob)) as [s2 []]; injection ED as _ <- _; discriminate.
Qed.

Lemma stable_fire l : forall s s' rest, fire s l = (s', rest) -> stable s s'.
Proof.
  induction l as [|[due k] t IH]; intros s s' rest HF; simpl in HF.
  - injection HF as <- _. apply stable_refl.
  - destruct (due <=? now s)%Z.
    + destruct (cache_delete s k) as [s1 b] eqn:E. apply stable_cache_delete in E.
      eapply stable_trans; [exact E | eapply IH; exact HF].
    + destruct (fire s t) as [s1 r1] eqn:E. injection HF as <- _. eapply IH. exact E.
Qed.

Lemma stable_fire_due s : stable s (fire_due s).
Proof.
  unfold fire_due. destruct (fire (set_pending s []) (pending s)) as [s1 rest] eqn:E.
  apply stable_fire in E. eapply stable_trans; [apply (stable_eq s (set_pending s [])); reflexivity|].
  eapply stable_trans; [exact E | apply stable_eq; reflexivity].
Qed.

Theorem run_script_nopanic ops : forall s o hc s' rs cks,
  handle_ok s o -> run_script s o hc ops = (s', rs, cks) ->
  Forall (fun r => forall e, r <> SPanic e) rs /\ handle_ok s' o.
Proof.
  induction ops as [|op t IH]; intros s o hc s' rs cks Hh HR; simpl in HR.
  - injection HR as <- <- _. split; [constructor | exact Hh].
  - destruct (do_sop s o hc op) as [[s1 r1] c1] eqn:ED.
    destruct (do_sop_nopanic _ _ _ _ _ _ _ Hh ED) as [A B].
    assert (B' : handle_ok (fire_due s1) o) by (eapply handle_ok_stable; [apply stable_fire_due | exact B]).
    match type of HR with (if ?c then _ else _) = _ => destruct c end.
    + injection HR as <- <- _. split; [constructor; [exact A | constructor] | exact B'].
    + destruct (run_script (fire_due s1) o hc t) as [[s2 rs2] c2] eqn:E2. injection HR as <- <- _.
      destruct (IH _ _ _ _ _ _ B' E2) as [C D0]. split; [constructor; assumption | exact D0].
Qed.

(* following references from a live object never panics *)
Lemma follow_valid : forall fuel s o lk s' res,
  cv s -> hget s o <> None -> follow fuel s o lk = (s', res) ->
  (forall e, res <> Panic e) /\ stable s s' /\
  (forall o' lk', res = Ok (o', lk') -> exists ob', hget s' o' = Some ob' /\ r_ref (o_rec ob') = None).
Proof.
  induction fuel as [|f IH]; intros s o lk s' res Hcv Hne HF; simpl in HF;
    destruct (hget s o) as [ob|] eqn:Ho; try congruence.
  - destruct (r_ref (o_rec ob)) eqn:Er; injection HF as <- <-; (split; [discriminate|]; split; [apply stable_refl|]);
      intros o' lk' E; try discriminate. injection E as <- <-. exists ob. auto.
  - destruct (r_ref (o_rec ob)) as [t|] eqn:Er.
    + destruct (cache_get s t) as [s1 g] eqn:EG.
      destruct (cache_get_safe _ (fun _ _ _ _ => I) _ _ _ _ (J_true _ Hcv) EG) as (_ & _ & _ & (Hcv1 & _) & _ & _ & _ & _ & Hr).
      pose proof (stable_cache_get _ _ _ _ EG) as S1.
      destruct g as [[o1|]|].
      * destruct Hr as (ob1 & Ho1 & _). assert (Hne1 : hget s1 o1 <> None) by congruence.
        destruct (IH _ _ _ _ _ Hcv1 Hne1 HF) as (A & B & C).
        split; [exact A|]. split; [eapply stable_trans; eassumption | exact C].
      * injection HF as <- <-. split; [discriminate|]. split; [exact S1 | discriminate].
      * injection HF as <- <-. split; [discriminate|]. split; [exact S1 | discriminate].
    + injection HF as <- <-. split; [discriminate|]. split; [apply stable_refl|].
      intros o' lk' E. injection E as <- <-. exists ob. auto.
Qed.

Lemma create_session_obj s q s' res cks :
  create_session s q = (s', res, cks) ->
  (forall e, res <> Panic e) /\ stable s s' /\
  (forall o, res = Ok (Some o) -> exists ob, hget s' o = Some ob /\ r_ref (o_rec ob) = None /\ r_data (o_rec ob) = Some []).
Proof.
  unfold create_session. cbn [gen_id]. unfold halloc. cbn [fst snd].
  match goal with |- context [cache_set ?a ?b] => destruct (cache_set a b) as [s1 b1] eqn:E; set (sa := a) in * end.
  pose proof (stable_cache_set _ _ _ _ E) as S1.
  assert (Sa : stable s sa) by (apply stable_ext; eexists; reflexivity).
  intro H. destruct b1; simpl in H; injection H as <- <- _; (split; [discriminate|]; split; [eapply stable_trans; eassumption|]);
    intros o Eo; try discriminate. injection Eo as <-.
  assert (Hn : hget sa (length (heap s)) = Some (mkObj (KGen (supply s)) (mkRec (now s) (now s) (q_addr q) (q_ua q) None None (Some [])))).
  { unfold sa, hget. simpl. rewrite nth_error_app2 by lia. rewrite Nat.sub_diag. reflexivity. }
  destruct (S1 _ _ Hn) as (ob' & Ho' & A & B). exists ob'. auto.
Qed.

Lemma start_none_obj s q cks0 s' res cks :
  start_none s q cks0 = (s', res, cks) ->
  (forall e, res <> Panic e) /\ stable s s' /\
  (forall o, res = Ok (Some o) -> exists ob, hget s' o = Some ob /\ r_ref (o_rec ob) = None /\ r_data (o_rec ob) <> None).
Proof.
  unfold start_none. destruct (q_create q).
  - destruct (create_session s q) as [[s1 r1] c1] eqn:E. intro H. injection H as <- <- _.
    destruct (create_session_obj _ _ _ _ _ E) as (A & B & C). split; [exact A|]. split; [exact B|].
    intros o Eo. destruct (C o Eo) as (ob & H1 & H2 & H3). exists ob. split; [exact H1|]. split; [exact H2 | congruence].
  - intro H. injection H as <- <- _. split; [discriminate|]. split; [apply stable_refl | discriminate].
Qed.

Lemma bookkeep_stable s o q : stable s (hupd s o (fun r => set_ua (set_ip (set_access r (now s)) (q_addr q)) (q_ua q))).
Proof. apply stable_hupd. intro r. split; reflexivity. Qed.

Lemma start_finish_obj s q k o ob isref cks0 s' res cks :
  (isref = true -> cv s) -> hget s o = Some ob -> isref = is_ref (o_rec ob) -> start_finish s q k o isref cks0 = (s', res, cks) ->
  (forall e, res <> Panic e) /\ stable s s' /\
  (forall o', res = Ok (Some o') -> exists ob', hget s' o' = Some ob' /\ r_ref (o_rec ob') = None).
Proof.
  intros Hcv Ho Hir HS. unfold start_finish in HS. destruct isref.
  - destruct (follow (S (N.to_nat (supply s))) s o k) as [s2 fr] eqn:EF.
    assert (Hne : hget s o <> None) by congruence.
    destruct (follow_valid _ _ _ _ _ _ (Hcv eq_refl) Hne EF) as (A & B & C).
    destruct fr as [[o1 lk1]|e|e]; injection HS as <- <- _.
    + split; [discriminate|]. split; [eapply stable_trans; [exact B | apply bookkeep_stable]|].
      intros o' E. injection E as <-. destruct (C o1 lk1 eq_refl) as (ob1 & Ho1 & Hr1).
      destruct (bookkeep_stable s2 o1 q _ _ Ho1) as (ob2 & Ho2 & E2 & _). exists ob2. split; [exact Ho2 | congruence].
    + split; [discriminate|]. split; [exact B | discriminate].
    + exfalso. eapply A. reflexivity.
  - injection HS as <- <- _. split; [discriminate|]. split; [apply bookkeep_stable|].
    intros o' E. injection E as <-. destruct (bookkeep_stable s o q _ _ Ho) as (ob2 & Ho2 & E2 & _).
    exists ob2. split; [exact Ho2|]. rewrite E2. unfold is_ref in Hir. destruct (r_ref (o_rec ob)); [discriminate | reflexivity].
Qed.

Lemma cv_stable_quiet s s' : cv s -> stable s s' -> cache s' = cache s -> cv s'.
Proof.
  intros Hcv HS Hc k o Hi. rewrite Hc in Hi. pose proof (Hcv _ _ Hi) as Hlt.
  destruct (hget s o) as [ob|] eqn:E; [|unfold hget in E; apply nth_error_None in E; lia].
  destruct (HS _ _ E) as (ob' & Ho' & _). eapply hget_Some_lt. exact Ho'.
Qed.
