(* The remaining decision code of Start, translated from the Go AST on every
   run (Gen/PureFnIP.v, translator/purefn.go generator PureFnIP): the
   remote-address block (both guards and the loop) and the look-up guard, equal
   the model's decisions (Model/AddrRe.v: ip_ok_str; Model/Sess.v: ip_ok;
   Model/Ids.v: start_guard).

   gen_ip_ok works on Go's []string as FindStringSubmatch returns it: nil (no
   match) or [whole; g1; g2; g3; g4] - `caps`, built from AddrRe.submatch. Its
   result is an option: None = Go panics (index out of range) or the loop bound
   of the translation is exceeded; the theorems say it is Some of the model's
   decision, for every configuration and all strings.

   The proofs evaluate the translated loop for AcceptRemoteIP = 2, 3, 4 with the
   captured strings symbolic, and decide the guards by arithmetic for the other
   values; they do not depend on how the guards and the loop header are
   written, only on what they mean. *)
From Sessions Require Import Model.Base Model.Codec Model.Sess Model.AddrRe Model.Ids
  Gen.Consts Gen.PureFn Gen.PureFnIP Proofs.BaseLemmas Proofs.AddrRe2 Proofs.PureFnEquiv.
From Coq Require Import Lia ZifyBool ZifyN ZifyNat.
Local Open Scope Z_scope.

(* ipFormat.FindStringSubmatch(s) as a []string *)
Definition caps (s : bytes) : list bytes :=
  match submatch s with
  | None => []
  | Some (g1, g2, g3, g4) => [s; g1; g2; g3; g4]
  end.

Ltac ip_symbolic :=
  unfold gen_ip_ok; cbn [length c_acceptip]; cbv beta iota;
  split_ifs; first [ f_equal; lia | exfalso; lia ].

Lemma bytes_eqb_false_sym (a b : bytes) : bytes_eqb a b = false -> bytes_eqb b a = false.
Proof.
  intro H. destruct (bytes_eqb b a) eqn:E; [|reflexivity].
  apply bytes_eqb_eq in E. subst b. rewrite bytes_eqb_refl in H. discriminate.
Qed.

(* evaluate with the captured strings symbolic, then decide every comparison
   of two of them (in whichever order the source writes it) *)
Ltac ip_concrete valid :=
  cbv -[bytes_eqb]; destruct valid;
  repeat match goal with
         | |- context [bytes_eqb ?a ?a] => rewrite (bytes_eqb_refl a)
         | |- context [bytes_eqb ?a ?b] =>
           let E := fresh "E" in
           destruct (bytes_eqb a b) eqn:E;
           [ apply bytes_eqb_eq in E; subst
           | try rewrite (bytes_eqb_false_sym a b E) ]
         end;
  reflexivity.

Theorem gen_ip_ok_eq (c : cfg) (valid : bool) (p q : bytes) :
  gen_ip_ok c valid (caps p) (caps q) = Some (valid && ip_ok_str (c_acceptip c) p q).
Proof.
  unfold caps, ip_ok_str.
  destruct c as [ce ci cg cc cm n cu cj]. cbn [c_acceptip].
  assert (Hn : n <= 1 \/ n = 2 \/ n = 3 \/ n = 4 \/ 5 <= n) by lia.
  destruct (submatch p) as [[[[g1 g2] g3] g4]|], (submatch q) as [[[[h1 h2] h3] h4]|];
    (destruct Hn as [Hn | [-> | [-> | [-> | Hn]]]];
     [ ip_symbolic | ip_concrete valid | ip_concrete valid | ip_concrete valid | ip_symbolic ]).
Qed.

(* with C06A_refines: on printed addresses it is Sess.ip_ok *)
Theorem gen_ip_ok_render (c : cfg) (valid : bool) (a b : addr) :
  gen_ip_ok c valid (caps (render a)) (caps (render b)) = Some (valid && ip_ok (c_acceptip c) a b).
Proof. rewrite gen_ip_ok_eq, ip_ok_str_render. reflexivity. Qed.

(* ---- the look-up guard ---- *)

Theorem gen_lookup_guard_eq (id : bytes) : gen_lookup_guard id = start_guard id.
Proof. unfold gen_lookup_guard, start_guard, ids_start_guard_len. lia. Qed.

(* ---- Sess.start takes all five decisions with the translated conditions ---- *)

(* Sess.start with gen_stale / gen_ip_ok / gen_ua_ok / gen_rotate /
   gen_backstop in the place of its own expressions (a panic of the translated
   address block would be a panic of the request); nothing else differs *)
Definition start_gen2 (s : st) (q : request) : st * result (option nat) * list cookie :=
  let c := conf s in
  let '(s, found, cks, failed) :=
    match q_cookie q with
    | CKey k =>
      let '(s, r) := cache_get s k in
      match r with
      | None => (s, None, [], true)
      | Some None => (s, None, [CkDelete], false)
      | Some (Some o) => (s, Some (k, o), [], false)
      end
    | _ => (s, None, [], false)
    end in
  if failed then (s, Err EGet, [])
  else
    match found with
    | Some (k, o) =>
      match hget s o with
      | None => (s, Panic EGet, [])
      | Some ob =>
        let r := o_rec ob in
        match gen_ip_ok c (negb (gen_stale c r (now s))) (caps (render (r_ip r))) (caps (render (q_addr q))) with
        | None => (s, Panic EGet, [])
        | Some valid1 =>
        let valid := gen_ua_ok c r (now s) valid1 (q_ua q) in
        if negb valid then
          let '(s, res, dck) := destroy s o (had_cookie q) in
          match res with
          | Ok _ =>
            if q_create q then
              let '(s, res, nck) := create_session s q in (s, res, cks ++ dck ++ nck)
            else (s, Ok None, cks ++ dck)
          | Err e => (s, Err e, cks)
          | Panic e => (s, Panic e, cks)
          end
        else
          let isref := match r_ref r with Some _ => true | None => false end in
          let '(s, step, cks) :=
            if gen_rotate c r (now s) then
              let '(s, res, rck) := regenerate s o in (s, res, cks ++ rck)
            else if gen_backstop c r (now s) then
              let '(s, ok) := cache_delete s k in
              (s, if ok then Err EExpiredID else Err EDeleteExpired, cks)
            else (s, Ok tt, cks) in
          match step with
          | Err e => (s, Err e, cks)
          | Panic e => (s, Panic e, cks)
          | Ok _ =>
            let '(s, fr) := if isref then follow (S (N.to_nat (supply s))) s o k else (s, Ok (o, k)) in
            match fr with
            | Err e => (s, Err e, cks)
            | Panic e => (s, Panic e, cks)
            | Ok (o', lk) =>
              let cks := if isref then cks ++ [CkLive lk] else cks in
              let s := hupd s o' (fun r => set_ua (set_ip (set_access r (now s)) (q_addr q)) (q_ua q)) in
              (s, Ok (Some o'), cks)
            end
          end
        end
      end
    | None =>
      if q_create q then
        let '(s, res, nck) := create_session s q in (s, res, cks ++ nck)
      else (s, Ok None, cks)
    end.

Theorem start_uses_gen2 (s : st) (q : request) : dur_cfg (conf s) -> start s q = start_gen2 s q.
Proof.
  intro Hc. unfold start, start_gen2.
  destruct (q_cookie q) as [|k|n]; try reflexivity.
  destruct (cache_get s k) as [s1 res]. destruct res as [[o|]|]; try reflexivity.
  cbv beta iota zeta. destruct (hget s1 o) as [ob|]; [|reflexivity].
  rewrite gen_ip_ok_render.
  rewrite gen_ua_ok_eq, gen_stale_eq, gen_rotate_eq, (gen_backstop_eq _ _ _ Hc).
  unfold m_stale, m_rotate, m_backstop, m_isref. reflexivity.
Qed.

(* ---- the translated block evaluated ---- *)

(* "10.0.0.1:80", "10.0.9.9:81", "10.1.0.1:80", "[::1]:80" *)
Definition ex_a : bytes := [49;48;46;48;46;48;46;49;58;56;48]%N.
Definition ex_b : bytes := [49;48;46;48;46;57;46;57;58;56;49]%N.
Definition ex_c : bytes := [49;48;46;49;46;48;46;49;58;56;48]%N.
Definition ex_v6 : bytes := [91;58;58;49;93;58;56;48]%N.
Definition ex_ipcfg (n : Z) : cfg := mkCfg 1000 300 60 500 10 n false false.

Example ex_ip_block :
  gen_ip_ok (ex_ipcfg 3) true (caps ex_a) (caps ex_b) = Some true /\    (* differs from the third octet on *)
  gen_ip_ok (ex_ipcfg 4) true (caps ex_a) (caps ex_b) = Some false /\
  gen_ip_ok (ex_ipcfg 3) true (caps ex_a) (caps ex_c) = Some false /\   (* second octet differs *)
  gen_ip_ok (ex_ipcfg 2) true (caps ex_a) (caps ex_c) = Some true /\
  gen_ip_ok (ex_ipcfg 1) true (caps ex_a) (caps ex_c) = Some true /\
  gen_ip_ok (ex_ipcfg 5) true (caps ex_a) (caps ex_c) = Some true /\
  gen_ip_ok (ex_ipcfg 4) true (caps ex_a) (caps ex_v6) = Some true /\   (* no match: kept *)
  gen_ip_ok (ex_ipcfg 4) false (caps ex_a) (caps ex_a) = Some false.    (* already invalid *)
Proof. vm_compute. repeat split; reflexivity. Qed.

(* what None means: outside the guards the loop would index out of range *)
Example ex_ip_loop_panics :
  gen_ip_loop (ex_ipcfg 9) true (caps ex_a) (caps ex_a) 6%nat 1 = None /\
  gen_ip_loop (ex_ipcfg 4) true (caps ex_a) (caps ex_a) 6%nat 1 = Some true.
Proof. vm_compute. split; reflexivity. Qed.

Example ex_lookup_guard :
  gen_lookup_guard (repeat 65%N 24%nat) = true /\ gen_lookup_guard (repeat 65%N 23%nat) = false /\
  gen_lookup_guard (repeat 65%N 25%nat) = false /\ gen_lookup_guard [] = false.
Proof. vm_compute. repeat split; reflexivity. Qed.
