(* C10 for requests that presented a REPLACED ID (audit task A9), part 2:
   fault-free Start presenting the head k0 of a chain k0 -> k1 -> .. -> kn of
   replaced-ID records, in the safe-save discipline of CrashFault2.v: whatever
   the cache holds (any size, any tie-break), Start follows the chain through
   cache.Get - loading, and flushing other entries to make room -, every event
   it appends is a read or a K-safe save, the state stays K-safe, and it returns
   the session object of kn with the single cookie Live kn. K is a parameter:
   any save discipline that is closed under the codec and knows the chain. *)
From Sessions Require Import Model.Base Model.Sess Model.Hist Proofs.SessDefs Proofs.CrashFault
  Proofs.CrashFault2 Proofs.CrashFault3 Proofs.CrashFault4 Proofs.CrashFault5 Proofs.CrashFault6
  Proofs.CrashFault8 Proofs.CrashChain.
From Coq Require Import Lia.

(* the record cache.Get hands out is the logical content L of the ID *)
Lemma cache_get_L s k s' o :
  cv s -> cache_get s k = (s', Some (Some o)) ->
  exists ob, hget s' o = Some ob /\ L s k = Some (o_rec ob).
Proof.
  intros Hcv HG. apply cache_get_spec in HG. destruct HG as [(o1 & EL & -> & E)|(EL & s1 & lr & EP & HG)].
  - injection E as <-. pose proof (Hcv _ _ (lookup_In _ _ _ EL)) as Hlt.
    destruct (hget s o) as [ob|] eqn:Ho.
    + exists ob. split; [reflexivity|]. unfold L. rewrite EL, Ho. reflexivity.
    + unfold hget in Ho. apply nth_error_None in Ho. lia.
  - apply p_load_spec in EP. destruct EP as ((Hh & Hc & _) & _ & _ & l & _ & _ & _ & Hres).
    destruct lr as [[rc|]|]; destruct HG as [-> E]; try discriminate. injection E as ->.
    exists (mkObj k rc). split; [|unfold L; rewrite EL; exact Hres].
    unfold after_load. rewrite <- Hh.
    assert (H2 : hget (fst (halloc s1 (mkObj k rc))) (length (heap s1)) = Some (mkObj k rc)) by apply (hget_halloc_new s1).
    destruct (c_maxcache _ =? 0)%Z; [exact H2|].
    assert (Hcv1 : cv s1) by (intros k' o' H; rewrite Hh; rewrite Hc in H; eapply Hcv; exact H).
    pose proof (J_halloc (fun _ _ => True) s1 (mkObj k rc) (J_true _ Hcv1)) as HJ2.
    destruct (compact_safe (fun _ _ => True) (fun _ _ _ _ => I) _ 1 HJ2) as (_ & _ & _ & _ & Hh3 & _).
    change (hget (set_cache ?a ?b) ?c) with (hget a c). rewrite (hget_eq _ _ _ Hh3). exact H2.
Qed.

Section StartChain.
  Variable K : key -> rec -> Prop.
  Hypothesis K_codec : forall cf k r, K k r -> K k (codec cf r).

  (* fault-free cache.Get of a stored ID *)
  Lemma cache_get_ff_safe s k s' r :
    plan s = [] -> J K s -> cok s -> NoDup (map fst (cache s)) -> lookup (store s) k <> None ->
    cache_get s k = (s', r) ->
    exists o ob l, r = Some (Some o) /\ ext s s' l /\ Forall (QK K) l /\ J K s' /\ cok s' /\
      NoDup (map fst (cache s')) /\ plan s' = [] /\ pending s' = pending s /\ heap_ext s s' /\
      hget s' o = Some ob /\ o_id ob = k /\ K k (o_rec ob) /\
      (forall o', In (k, o') (cache s') -> o' = o).
  Proof.
    intros Hp HJ Hc Hn Hst HG.
    destruct (cache_get_safe K K_codec _ _ _ _ HJ HG) as (l & X & HQ & HJ' & Hpe & HE & Hi & Hn' & _).
    destruct (cache_get_cok K K_codec _ _ _ _ HJ Hc HG) as (Hc' & Hr).
    assert (Hsome : exists o, r = Some (Some o) /\ (forall o', In (k, o') (cache s') -> o' = o)).
    { pose proof HG as HG'. apply cache_get_spec in HG'. destruct HG' as [(o & EL & -> & ->)|(EL & s1 & lr & EP & HG')].
      - exists o. split; [reflexivity|]. intros o' Hin. pose proof (NoDup_lookup _ _ _ Hn Hin) as E. congruence.
      - apply p_load_spec in EP. destruct EP as (_ & _ & _ & l1 & _ & _ & _ & Hres).
        destruct lr as [[rc|]|]; destruct HG' as [-> ->].
        + exists (length (heap s)). split; [reflexivity|]. intros o' Hin.
          destruct (Hi _ _ Hin) as [Hin'|(_ & _ & E & _)]; [|congruence].
          exfalso. apply lookup_None_notin in EL. apply EL. apply (in_map fst) in Hin'. exact Hin'.
        + contradiction.
        + contradiction. }
    destruct Hsome as (o & -> & Huniq). destruct Hr as (ob & Ho & Hid & HK).
    exists o, ob, l. split; [reflexivity|]. split; [exact X|]. split; [exact HQ|]. split; [exact HJ'|].
    split; [exact Hc'|]. split; [apply Hn'; exact Hn|]. split; [apply (x_plan _ _ _ X); exact Hp|].
    split; [exact Hpe|]. split; [exact HE|]. auto.
  Qed.

  Lemma chainK_tail k k' t x r : chainK (path_edges k (k' :: t)) x r -> chainK (path_edges k' t) x r.
  Proof. intros H a Hin. apply H. right. exact Hin. Qed.

  (* following an intact chain *)
  Lemma follow_chain_safe : forall rest k fuel s o ob lk,
    plan s = [] -> J K s -> cok s -> NoDup (map fst (cache s)) ->
    hget s o = Some ob -> o_id ob = k -> K k (o_rec ob) ->
    (forall x r, K x r -> chainK (path_edges k rest) x r) ->
    (forall r, K (last rest k) r -> r_ref r = None) ->
    (forall x, In x rest -> lookup (store s) x <> None) ->
    length rest <= fuel ->
    exists s' o' ob' l,
      follow fuel s o lk = (s', Ok (o', last rest lk)) /\ ext s s' l /\ Forall (QK K) l /\ J K s' /\ cok s' /\
      NoDup (map fst (cache s')) /\ plan s' = [] /\ pending s' = pending s /\ heap_ext s s' /\
      hget s' o' = Some ob' /\ o_id ob' = last rest k /\ K (last rest k) (o_rec ob') /\
      (rest = [] -> s' = s /\ o' = o) /\
      (rest <> [] -> forall o'', In (last rest k, o'') (cache s') -> o'' = o').
  Proof.
    induction rest as [|k' t IH]; intros k fuel s o ob lk Hp HJ Hc Hn Ho Hid HK Hch Hend Hst Hlen.
    - cbn [last] in *. pose proof (Hend _ HK) as Hr.
      exists s, o, ob, []. split.
      { destruct fuel; cbn [follow]; rewrite Ho, Hr; reflexivity. }
      split; [apply ext_refl|]. split; [constructor|]. split; [exact HJ|]. split; [exact Hc|]. split; [exact Hn|].
      split; [exact Hp|]. split; [reflexivity|]. split; [apply heap_ext_refl|]. split; [exact Ho|].
      split; [exact Hid|]. split; [exact HK|]. split; [auto | congruence].
    - assert (Hr : r_ref (o_rec ob) = Some k') by (apply (Hch _ _ HK); left; reflexivity).
      cbn [length] in Hlen. destruct fuel as [|f]; [lia|]. cbn [follow]. rewrite Ho, Hr.
      destruct (cache_get s k') as [s1 g] eqn:EG.
      destruct (cache_get_ff_safe s k' s1 g Hp HJ Hc Hn (Hst k' (or_introl eq_refl)) EG)
        as (o1 & ob1 & l1 & -> & X1 & HQ1 & HJ1 & Hc1 & Hn1 & Hp1 & Hpe1 & HE1 & Ho1 & Hid1 & HK1 & Hu1).
      rewrite !last_cons in *.
      destruct (IH k' f s1 o1 ob1 k' Hp1 HJ1 Hc1 Hn1 Ho1 Hid1 HK1)
        as (s' & o' & ob' & l2 & EF & X2 & HQ2 & HJ2 & Hc2 & Hn2 & Hp2 & Hpe2 & HE2 & Ho2 & Hid2 & HK2 & Hnil & Hu2).
      + intros x r Hx. eapply chainK_tail. apply Hch. exact Hx.
      + exact Hend.
      + intros x Hin. eapply store_present_ext; [exact X1 | exact HQ1 | apply Hst; right; exact Hin].
      + lia.
      + exists s', o', ob', (l1 ++ l2). split; [exact EF|]. split; [eapply ext_trans; eassumption|].
        split; [apply Forall_app; split; assumption|]. split; [exact HJ2|]. split; [exact Hc2|]. split; [exact Hn2|].
        split; [exact Hp2|]. split; [congruence|]. split; [eapply heap_ext_trans; eassumption|].
        split; [exact Ho2|]. split; [exact Hid2|]. split; [exact HK2|]. split; [discriminate|].
        intros _. destruct t as [|k2 t'].
        * destruct (Hnil eq_refl) as [-> ->]. cbn [last]. exact Hu1.
        * apply Hu2. discriminate.
  Qed.

  Hypothesis K_book : forall k r t a u, K k r -> K k (set_ua (set_ip (set_access r t) a) u).

  (* Start presenting the head of the chain: the record L gives for k0 is
     acceptable (not idle for SessionExpiry, peer and agent rules met) and below
     the backstop age *)
  Theorem start_chain_safe s q k0 rest :
    plan s = [] -> J K s -> cok s -> NoDup (map fst (cache s)) ->
    q_cookie q = CKey k0 -> rest <> [] ->
    (forall x r, K x r -> chainK (path_edges k0 rest) x r) ->
    (forall r, K (last rest k0) r -> r_ref r = None) ->
    (forall x, In x (k0 :: rest) -> lookup (store s) x <> None) ->
    length rest <= S (N.to_nat (supply s)) ->
    (forall rk, L s k0 = Some rk ->
       rec_valid (conf s) rk q (now s) = true /\
       (sat_add (c_idexpiry (conf s)) (c_grace (conf s)) <=? since (r_created rk) (now s))%Z = false) ->
    exists s' o ob l,
      start s q = (s', Ok (Some o), [CkLive (last rest k0)]) /\ ext s s' l /\ Forall (QK K) l /\ J K s' /\ cok s' /\
      NoDup (map fst (cache s')) /\ plan s' = [] /\ pending s' = pending s /\
      hget s' o = Some ob /\ o_id ob = last rest k0 /\ K (last rest k0) (o_rec ob) /\
      r_ref (o_rec ob) = None /\
      (forall o'', In (last rest k0, o'') (cache s') -> o'' = o).
  Proof.
    intros Hp HJ Hc Hn Hq Hne Hch Hend Hst Hlen Hval.
    rewrite start_unfold, Hq.
    destruct (cache_get s k0) as [s1 g] eqn:EG.
    destruct (cache_get_ff_safe s k0 s1 g Hp HJ Hc Hn (Hst k0 (or_introl eq_refl)) EG)
      as (o1 & ob1 & l1 & -> & X1 & HQ1 & HJ1 & Hc1 & Hn1 & Hp1 & Hpe1 & HE1 & Ho1 & Hid1 & HK1 & _).
    destruct (cache_get_L s k0 s1 o1 (proj1 HJ) EG) as (ob1' & Ho1' & HL).
    assert (ob1' = ob1) by congruence. subst ob1'.
    destruct (Hval _ HL) as [Hv Hb].
    assert (Hr1 : exists k1, r_ref (o_rec ob1) = Some k1).
    { destruct rest as [|k1 t]; [congruence|]. exists k1. apply (Hch _ _ HK1). left. reflexivity. }
    destruct Hr1 as [k1 Hr1].
    pose proof (supply_ext _ _ _ _ X1 HQ1) as Hsup1.
    destruct (follow_chain_safe rest k0 (S (N.to_nat (supply s1))) s1 o1 ob1 k0 Hp1 HJ1 Hc1 Hn1 Ho1 Hid1 HK1 Hch Hend)
      as (s2 & o2 & ob2 & l2 & EF & X2 & HQ2 & HJ2 & Hc2 & Hn2 & Hp2 & Hpe2 & HE2 & Ho2 & Hid2 & HK2 & _ & Hu2).
    { intros x Hin. eapply store_present_ext; [exact X1 | exact HQ1 | apply Hst; right; exact Hin]. }
    { rewrite Hsup1. exact Hlen. }
    cbv beta iota zeta. unfold start_found. rewrite Ho1.
    rewrite (x_now _ _ _ X1). rewrite Hv. cbn [negb].
    unfold is_ref. rewrite Hr1. cbn [negb andb]. rewrite Hb.
    unfold start_finish. rewrite EF. cbn [app].
    pose proof (Hend _ HK2) as Hr2.
    pose proof (hget_Some_lt _ _ _ Ho2) as Hlt2.
    set (f := fun r0 : rec => set_ua (set_ip (set_access r0 (now s2)) (q_addr q)) (q_ua q)).
    exists (hupd s2 o2 f), o2, (mkObj (o_id ob2) (f (o_rec ob2))), (l1 ++ l2).
    split; [reflexivity|].
    assert (X3 : ext s2 (hupd s2 o2 f) []) by apply ext_hupd.
    split; [rewrite <- (app_nil_r (l1 ++ l2)); eapply ext_trans; [eapply ext_trans; eassumption | exact X3]|].
    split; [apply Forall_app; split; assumption|].
    rewrite (hupd_spec _ _ _ _ Ho2).
    split.
    { eapply J_hput; [exact HJ2 | exact Ho2 |]. intros k' Hk'. cbn [o_rec]. apply K_book. exact Hk'. }
    split; [eapply cok_hput; [exact Hc2 | exact Ho2 | reflexivity]|].
    split; [exact Hn2|]. split; [exact Hp2|]. split; [cbn [pending hput set_heap]; congruence|].
    split; [apply hget_hput_same; exact Hlt2|]. split; [exact Hid2|].
    split; [cbn [o_rec]; apply K_book; exact HK2|]. split; [exact Hr2|].
    intros o'' Hin. apply Hu2; [exact Hne | exact Hin].
  Qed.
End StartChain.
