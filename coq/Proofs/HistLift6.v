(* Lifting to histories, part 6 (C05 at history level, grace period):
   - where replaced-ID records come from: after a request step every such record
     is either the same record as before the step or has its clean-up queued for
     (time of the step) + (grace period at that time)   [placeholder_origin];
   - a replaced-ID record k -> j whose clean-up (d0, k) is queued survives every
     fault-free, crash-free, restart-free history during which the clock stays
     below d0 and no request presenting k itself is refused  [kept_after];
   - chains of such records resolve (C05_chain on the store's view)  [chain_live];
   - once the clock has passed d0 (a wait), k is in neither cache nor store, in
     every restart-free history  [dead_after_wait]. *)
From Sessions Require Import Model.Base Model.Sess Model.Hist Proofs.SessDefs
  Proofs.HistInv Proofs.HistInv2 Proofs.HistInv3 Proofs.HistLift Proofs.HistLift2 Proofs.HistLift3
  Proofs.HistLift4.
From Sessions Require Proofs.RotateLaws Proofs.RotateLaws2 Proofs.RotateLaws3 Proofs.RotateLaws4.
From Coq Require Import Lia.

(* ------------------------------------------------------------ utilities *)

Lemma NoDup_snd_inj {A B} (l : list (A * B)) a b k :
  NoDup (map snd l) -> In (a, k) l -> In (b, k) l -> a = b.
Proof.
  induction l as [|[x y] l IH]; intros Hn Ha Hb; [contradiction|]. cbn [map snd] in Hn.
  inversion Hn as [|? ? Hx Hn']; subst. destruct Ha as [Ha|Ha], Hb as [Hb|Hb].
  - congruence.
  - injection Ha as -> ->. exfalso. apply Hx. apply in_map_iff. exists (b, k). auto.
  - injection Hb as -> ->. exfalso. apply Hx. apply in_map_iff. exists (a, k). auto.
  - exact (IH Hn' Ha Hb).
Qed.

(* L and the store agree on the reference field *)
Lemma L_sref s k x : cache_ok s -> Kcs s -> ((exists r, L s k = Some r /\ r_ref r = x) <-> sref s k = Some x).
Proof.
  intros Hc K. unfold L. destruct (lookup (cache s) k) as [o|] eqn:Hl.
  - destruct (Hc _ _ Hl) as (ob & Ho & _). rewrite Ho. rewrite (K _ _ _ Hl Ho). split.
    + intros (r & E & Hr). injection E as <-. rewrite Hr. reflexivity.
    + intro E. injection E as E. exists (o_rec ob). auto.
  - unfold sref. destruct (lookup (store s) k) as [r|]; cbn [option_map]; split.
    + intros (r' & E & Hr). injection E as <-. rewrite Hr. reflexivity.
    + intro E. injection E as E. exists r. auto.
    + intros (r' & E & _). discriminate.
    + discriminate.
Qed.

(* the cookies of Start are among the cookies of the response *)
Lemma step_req_cookies_incl w r s2 res cks : rq_crash r = None ->
  start (pre_of w r) (req_of w r) = (s2, res, cks) ->
  forall ck, In ck cks -> In ck (ob_cookies (snd (step w (HReq r)))).
Proof.
  intros Hcr E ck Hin. rewrite step_req_eq. cbv zeta.
  change (match rq_present r with PJar => jar_of (w_jars w) (rq_client r) | PForge c => c end) with (presents w r).
  change (mkReq (presents w r) (rq_create r) (rq_addr r) (rq_ua r)) with (req_of w r).
  change (set_tb (set_plan (set_evs (w_st w) []) (rq_plan r)) (rq_tb r)) with (pre_of w r).
  unfold req_body. rewrite E, Hcr. destruct res as [[o|]|e|e]; try exact Hin. cbv zeta.
  destruct (run_script _ o _ _) as [[s3 sr] cks']. cbn [snd mk_obs ob_cookies]. apply in_or_app. left. exact Hin.
Qed.

(* histories whose every hop satisfies a condition on the world it starts from *)
Fixpoint hist_ok (ok : world -> hop -> Prop) (w : world) (hs : list hop) : Prop :=
  match hs with
  | [] => True
  | h :: t => ok w h /\ hist_ok ok (fst (step w h)) t
  end.

Lemma after_pres (P : world -> Prop) (ok : world -> hop -> Prop) :
  (forall w h, P w -> ok w h -> P (fst (step w h))) ->
  forall hs w, P w -> hist_ok ok w hs -> P (after w hs).
Proof.
  intros HP. induction hs as [|h t IH]; intros w Hw Hok; cbn [after]; [exact Hw|].
  destruct Hok as [H1 H2]. apply IH; [apply HP; assumption | exact H2].
Qed.

(* ----------------------------------- where replaced-ID records come from *)

Section Origin.
  Variable s0 : st.

  Definition QO (s : st) : Prop :=
    Q0 s /\ nc s0 s /\
    forall k j, sref s k = Some (Some j) ->
      sref s0 k = Some (Some j) \/ In ((now s0 + c_grace (conf s0))%Z, k) (pending s).

  Lemma QO_qt s s' : qt s s' -> QO s -> QO s'.
  Proof.
    intros Qt (H0 & N & H). split; [eapply Q0_qt; eassumption|]. split; [eapply nc_trans; [exact N | apply nc_qt; exact Qt]|].
    intros k j Hs. rewrite (qt_sref _ _ Qt) in Hs. rewrite (qt_pending _ _ Qt). exact (H k j Hs).
  Qed.

  Lemma QO_new s s' k : eff_new s s' k -> QO s -> QO s'.
  Proof.
    intros E (H0 & N & H). split; [eapply Q0_new; eassumption|].
    split; [eapply nc_trans; [exact N | split; [exact (en_now _ _ _ E) | exact (en_conf _ _ _ E)]]|].
    intros k' j Hs. rewrite (en_pending _ _ _ E). destruct (key_eq_dec k' k) as [->|Hne].
    - rewrite (en_new _ _ _ E) in Hs. discriminate.
    - rewrite (en_oth _ _ _ E k' Hne) in Hs. exact (H k' j Hs).
  Qed.

  Lemma QO_repl s s' k : eff_repl s s' k -> QO s -> QO s'.
  Proof.
    intros E (H0 & N & H). split; [eapply Q0_repl; eassumption|].
    split; [eapply nc_trans; [exact N | split; [exact (er_now _ _ _ E) | exact (er_conf _ _ _ E)]]|].
    intros k' j Hs. rewrite (er_pending _ _ _ E). destruct (key_eq_dec k' k) as [->|N1].
    - right. apply in_or_app. right. left. destruct N as [-> ->]. reflexivity.
    - destruct (key_eq_dec k' (KGen (supply s))) as [->|N2].
      + rewrite (er_new' _ _ _ E) in Hs. discriminate.
      + rewrite (er_oth _ _ _ E k' N1 N2) in Hs. destruct (H k' j Hs) as [Hl|Hr]; [left; exact Hl|].
        right. apply in_or_app. left. exact Hr.
  Qed.

  Lemma QO_del s s' k : eff_del s s' k -> DEL0 s k -> QO s -> QO s'.
  Proof.
    intros E Hd (H0 & N & H). split; [eapply Q0_del; eassumption|].
    split; [eapply nc_trans; [exact N | split; [exact (ed_now _ _ _ E) | exact (ed_conf _ _ _ E)]]|].
    intros k' j Hs. rewrite (ed_pending _ _ _ E). destruct (key_eq_dec k' k) as [->|Hne].
    - rewrite (ed_gone _ _ _ E) in Hs. discriminate.
    - rewrite (ed_oth _ _ _ E k' Hne) in Hs. exact (H k' j Hs).
  Qed.

  Lemma QO_fire s s' : eff_fire s s' -> FOK0 (now s) -> QO s -> QO s'.
  Proof.
    intros E Hf (H0 & N & H). split; [eapply Q0_fire; eassumption|].
    split; [eapply nc_trans; [exact N | split; [exact (ef_now _ _ E) | exact (ef_conf _ _ E)]]|].
    intros k j Hs. destruct (ef_sref _ _ E k) as [Es|[Es _]]; [|rewrite Es in Hs; discriminate].
    rewrite Es in Hs. destruct (H k j Hs) as [Hl|Hr]; [left; exact Hl|]. right.
    rewrite (ef_pending _ _ E). apply filter_In. split; [exact Hr|]. cbn [fst].
    destruct (now s0 + c_grace (conf s0) <=? now s)%Z eqn:Ed; [|reflexivity].
    apply Z.leb_le in Ed. rewrite (ef_due _ _ E _ _ Hr Ed) in Es. rewrite <- Es in Hs. discriminate.
  Qed.
End Origin.

(* After a fault-free, crash-free request step every replaced-ID record is
   either the record that was there before the step, or the record of an ID
   change made in this step, whose clean-up is queued for the time of the step
   plus the grace period configured at that time. *)
Theorem placeholder_origin w r : LI (w_st w) -> rq_plan r = [] -> rq_crash r = None ->
  let s := w_st w in let s' := w_st (fst (step w (HReq r))) in
  LI s' /\ now s' = now s /\ conf s' = conf s /\
  forall k j, sref s' k = Some (Some j) ->
    sref s k = Some (Some j) \/ In ((now s + c_grace (conf s))%Z, k) (pending s').
Proof.
  intros Hl Hpl Hcr. cbv zeta.
  assert (Hw : GW (QO (w_st w)) (w_st w)).
  { destruct Hl as (W & K & P & H0). split; [exact W|]. split; [exact K|]. split; [exact P|].
    split; [exact H0|]. split; [apply nc_refl|]. intros k j Hs. left. exact Hs. }
  destruct (step_req_GW (QO (w_st w)) DEL0 FOK0 (QO_qt _) (QO_new _) (QO_repl _) (QO_del _) (QO_fire _) w r Hw Hpl Hcr Logic.I)
    as ((W' & K' & P' & H0' & N' & H') & _).
  - intros; exact Logic.I.
  - intros o _ s ob _ _ _. exact Logic.I.
  - split; [split; [exact W' | split; [exact K' | split; [exact P' | exact H0']]]|].
    destruct N' as [Nn Nc]. split; [exact Nn|]. split; [exact Nc | exact H'].
Qed.

(* ------------------------------------- a queued replaced-ID record is kept *)

Section Kept.
  Variables (k0 j0 : key) (d0 : Z).

  Definition Q1 (s : st) : Prop := Q0 s /\ sref s k0 = Some (Some j0) /\ In (d0, k0) (pending s).
  Definition DEL1 (s : st) (k : key) : Prop := k <> k0.
  Definition FOK1 (t : Z) : Prop := (t < d0)%Z.

  Lemma Q1_qt s s' : qt s s' -> Q1 s -> Q1 s'.
  Proof.
    intros Qt (H0 & Hs & Hp). split; [eapply Q0_qt; eassumption|].
    split; [rewrite (qt_sref _ _ Qt); exact Hs | rewrite (qt_pending _ _ Qt); exact Hp].
  Qed.

  Lemma Q1_new s s' k : eff_new s s' k -> Q1 s -> Q1 s'.
  Proof.
    intros E (H0 & Hs & Hp). split; [eapply Q0_new; eassumption|].
    assert (Hne : k0 <> k) by (intros ->; rewrite (en_old _ _ _ E) in Hs; discriminate).
    split; [rewrite (en_oth _ _ _ E k0 Hne); exact Hs | rewrite (en_pending _ _ _ E); exact Hp].
  Qed.

  Lemma Q1_repl s s' k : eff_repl s s' k -> Q1 s -> Q1 s'.
  Proof.
    intros E (H0 & Hs & Hp). split; [eapply Q0_repl; eassumption|].
    assert (N1 : k0 <> k) by (intros ->; rewrite (er_old _ _ _ E) in Hs; discriminate).
    assert (N2 : k0 <> KGen (supply s)) by (intros E0; rewrite E0, (er_fresh _ _ _ E) in Hs; discriminate).
    split; [rewrite (er_oth _ _ _ E k0 N1 N2); exact Hs|]. rewrite (er_pending _ _ _ E). apply in_or_app. left. exact Hp.
  Qed.

  Lemma Q1_del s s' k : eff_del s s' k -> DEL1 s k -> Q1 s -> Q1 s'.
  Proof.
    intros E Hd (H0 & Hs & Hp). split; [eapply (Q0_del s s' k); [exact E | exact Logic.I | exact H0]|].
    split; [rewrite (ed_oth _ _ _ E k0 (fun e => Hd (eq_sym e))); exact Hs | rewrite (ed_pending _ _ _ E); exact Hp].
  Qed.

  Lemma Q1_fire s s' : eff_fire s s' -> FOK1 (now s) -> Q1 s -> Q1 s'.
  Proof.
    intros E Hf (H0 & Hs & Hp). split; [eapply (Q0_fire s s'); [exact E | exact Logic.I | exact H0]|]. split.
    - destruct (ef_sref _ _ E k0) as [Es|[_ (d & Hin & Hd)]]; [rewrite Es; exact Hs|].
      destruct H0 as [_ Hk]. rewrite (NoDup_snd_inj _ _ _ _ Hk Hin Hp) in Hd. unfold FOK1 in Hf. lia.
    - rewrite (ef_pending _ _ E). apply filter_In. split; [exact Hp|]. cbn [fst]. unfold FOK1 in Hf.
      destruct (d0 <=? now s)%Z eqn:Ed; [apply Z.leb_le in Ed; lia | reflexivity].
  Qed.

  Definition KI (s : st) : Prop := GW Q1 s.

  (* which hops keep the record, from which worlds *)
  Definition kept_hop (w : world) (h : hop) : Prop :=
    ff_hop h /\ crash_free h /\ (now (w_st w) < d0)%Z /\
    match h with
    | HReq r => presents w r = CKey k0 ->
                ~ In CkDelete (ob_cookies (snd (step w h))) /\ ob_res (snd (step w h)) <> RErr EExpiredID
    | HWait d => (now (w_st w) + d < d0)%Z
    | HRestart => False
    | _ => True
    end.

  Lemma KI_step w h : KI (w_st w) -> kept_hop w h -> KI (w_st (fst (step w h))).
  Proof.
    intros Hk (Hff & Hcf & Hnow & Hh). destruct h as [r|d|tbl pl| | |u tbl pl|u tbl pl|c]; cbn [ff_hop crash_free] in *.
    - apply (step_req_GW Q1 DEL1 FOK1 Q1_qt Q1_new Q1_repl Q1_del Q1_fire w r Hk Hff Hcf Hnow).
      + intros k s' res cks Hpres E Hor s1 _ _ ->. destruct (Hh Hpres) as [Hnd Hne]. destruct Hor as [Hin| ->].
        * apply Hnd. eapply step_req_cookies_incl; eassumption.
        * apply Hne. rewrite (step_req_res w r Hcf _ _ _ E). reflexivity.
      + intros o _ s ob (_ & Hs & _) _ Hlive E. rewrite E, Hs in Hlive. discriminate.
    - destruct Hk as (W & K & P & H0 & Hs & Hp). cbn [step fst w_st].
      set (s0 := set_now (set_evs (w_st w) []) (now (set_evs (w_st w) []) + d)).
      assert (G0 : G Q1 (supply (w_st w), []) s0).
      { split; [apply inv_set_now; exact W|]. split; [eapply Kcs_same; [| | |exact K]; reflexivity|].
        split; [intros d' k Hin; exact (P d' k Hin)|]. split; [eapply Q0_same; [| | |exact H0]; reflexivity | split; assumption]. }
      destruct (fire_due_G Q1 FOK1 Q1_fire _ _ G0 Hh) as (G1 & _). exact (G_GW' _ _ _ G1).
    - apply (step_gen_GW Q1 FOK1 Q1_qt Q1_fire w (HPurge tbl pl) Hk Hff Logic.I Hnow).
    - apply (step_gen_GW Q1 FOK1 Q1_qt Q1_fire w HDropCache Hk Hff Logic.I Hnow).
    - contradiction.
    - apply (step_gen_GW Q1 FOK1 Q1_qt Q1_fire w (HLogoutUser u tbl pl) Hk Hff Logic.I Hnow).
    - apply (step_gen_GW Q1 FOK1 Q1_qt Q1_fire w (HRefreshUser u tbl pl) Hk Hff Logic.I Hnow).
    - destruct Hk as (W & K & P & H0 & Hs & Hp). cbn [step fst w_st].
      split; [eapply winv_of_inv'; apply inv_set_conf; exact W|].
      split; [eapply Kcs_same; [| | |exact K]; reflexivity|].
      split; [intros d' k Hin; exact (P d' k Hin)|]. split; [eapply Q0_same; [| | |exact H0]; reflexivity | split; assumption].
  Qed.

  Theorem KI_after hs w : KI (w_st w) -> hist_ok kept_hop w hs -> KI (w_st (after w hs)).
  Proof. apply (after_pres (fun w => KI (w_st w)) kept_hop KI_step). Qed.
End Kept.

(* The history form: from a state (satisfying LI) in which k is a replaced-ID
   record naming j with its clean-up queued for d0, after any history of kept
   hops: k still resolves (L) to a replaced-ID record naming j, nothing else,
   and the clean-up is still queued. *)
Theorem kept_after k j d0 w hs :
  LI (w_st w) -> sref (w_st w) k = Some (Some j) -> In (d0, k) (pending (w_st w)) ->
  hist_ok (kept_hop k d0) w hs ->
  let s := w_st (after w hs) in
  LI s /\ (exists r, L s k = Some r /\ r_ref r = Some j) /\ sref s k = Some (Some j) /\ In (d0, k) (pending s).
Proof.
  intros Hl Hs Hp Hok. cbv zeta.
  assert (Hk : KI k j d0 (w_st w)).
  { destruct Hl as (W & K & P & H0). split; [exact W|]. split; [exact K|]. split; [exact P|]. split; [exact H0 | split; assumption]. }
  destruct (KI_after k j d0 hs w Hk Hok) as (W' & K' & P' & H0' & Hs' & Hp').
  assert (Hl' : LI (w_st (after w hs))) by (split; [exact W' | split; [exact K' | split; [exact P' | exact H0']]]).
  split; [exact Hl'|]. split; [|split; assumption].
  destruct (LI_sess_inv _ Hl') as (_ & Hc & _). apply (L_sref _ k (Some j) Hc K'). exact Hs'.
Qed.

(* ------------------------------------------------ chains on the store's view *)

Fixpoint schain (s : st) (k : key) (rest : list key) : Prop :=
  match rest with
  | [] => sref s k = Some None
  | k' :: t => sref s k = Some (Some k') /\ schain s k' t
  end.

Lemma schain_chain_rec s : cache_ok s -> Kcs s -> forall rest k, schain s k rest ->
  exists r, L s k = Some r /\ RotateLaws4.chain_rec s r rest.
Proof.
  intros Hc K. induction rest as [|k' t IH]; intros k H; cbn [schain] in H.
  - apply (L_sref s k None Hc K) in H. destruct H as (r & HL & Hr). exists r. split; [exact HL | exact Hr].
  - destruct H as [Hs Ht]. apply (L_sref s k (Some k') Hc K) in Hs. destruct Hs as (r & HL & Hr).
    destruct (IH k' Ht) as (r' & HL' & Hch). exists r. split; [exact HL|]. cbn [RotateLaws4.chain_rec].
    split; [exact Hr|]. exists r'. split; assumption.
Qed.

(* C05_chain in a state reachable by a fault-free, crash-free history: presenting
   the head of a chain of intact replaced-ID records (from an acceptable peer,
   not idle for SessionExpiry, not past the backstop age) returns the session at
   its end, and the only cookie is Live of that session's ID. *)
Theorem chain_live s q k rest r :
  LI s -> q_cookie q = CKey k -> schain s k rest -> rest <> [] -> L s k = Some r ->
  RotateLaws3.valid_for (conf s) r (now s) q = true ->
  (since (r_created r) (now s) < sat_add (c_idexpiry (conf s)) (c_grace (conf s)))%Z ->
  let kn := last rest k in
  exists s' o' rn r',
    start s q = (s', Ok (Some o'), [CkLive kn]) /\
    L s kn = Some rn /\ r_ref rn = None /\ (r' = rn \/ r' = codec (conf s) rn) /\
    hget s' o' = Some (mkObj kn (RotateLaws3.seen_rec r' (now s) q)) /\
    supply s' = supply s /\
    (exists rk, L s' kn = Some rk /\ r_ref rk = None).
Proof.
  intros Hl Hq Hch Hne HL Hv Hb. cbv zeta.
  destruct (LI_sess_inv _ Hl) as (Hp & Hc & Hn & Hf). pose proof Hl as (_ & K & _).
  destruct (schain_chain_rec s Hc K rest k Hch) as (r0 & HL0 & Hcr). rewrite HL in HL0. injection HL0 as <-.
  destruct (RotateLaws4.start_chain s q k r rest Hp Hc Hn Hf (LI_ref_wf _ Hl) Hq HL Hcr Hne Hv Hb)
    as (s' & o' & rn & r' & E & A & B & C & D & _ & F & H).
  exists s', o', rn, r'. auto 10.
Qed.

(* ------------------------------------------------- after the grace period *)

Section Dead.
  Variables (k0 : key) (d0 : Z).

  Definition Q2 (s : st) : Prop := Q0 s /\ key_drawn s k0 /\ (In (d0, k0) (pending s) \/ sref s k0 = None).

  Lemma Q2_qt s s' : qt s s' -> Q2 s -> Q2 s'.
  Proof.
    intros Qt (H0 & Hd & H). split; [eapply Q0_qt; eassumption|].
    split; [destruct k0; [cbn [key_drawn] in *; rewrite (qt_supply _ _ Qt); exact Hd | exact Logic.I]|].
    rewrite (qt_sref _ _ Qt), (qt_pending _ _ Qt). exact H.
  Qed.

  Lemma drawn_up s s' : supply s' = (supply s + 1)%N -> key_drawn s k0 -> key_drawn s' k0 /\ k0 <> KGen (supply s).
  Proof.
    intros E H. destruct k0 as [n|n]; cbn [key_drawn] in *; [|split; [exact Logic.I | discriminate]].
    rewrite E. split; [lia|]. intro Hx. injection Hx as ->. lia.
  Qed.

  Lemma Q2_new s s' k : eff_new s s' k -> Q2 s -> Q2 s'.
  Proof.
    intros E (H0 & Hd & H). split; [eapply Q0_new; eassumption|].
    destruct (drawn_up s s' (en_supply _ _ _ E) Hd) as [Hd' Hne]. split; [exact Hd'|].
    rewrite (en_pending _ _ _ E), (en_oth _ _ _ E k0); [exact H | rewrite (en_key _ _ _ E); exact Hne].
  Qed.

  Lemma Q2_repl s s' k : eff_repl s s' k -> Q2 s -> Q2 s'.
  Proof.
    intros E (H0 & Hd & H). split; [eapply Q0_repl; eassumption|].
    destruct (drawn_up s s' (er_supply _ _ _ E) Hd) as [Hd' Hne]. split; [exact Hd'|].
    rewrite (er_pending _ _ _ E). destruct H as [Hp|Hs]; [left; apply in_or_app; left; exact Hp|].
    right. rewrite (er_oth _ _ _ E k0); [exact Hs | | exact Hne].
    intros ->. rewrite (er_old _ _ _ E) in Hs. discriminate.
  Qed.

  Lemma Q2_del s s' k : eff_del s s' k -> DEL0 s k -> Q2 s -> Q2 s'.
  Proof.
    intros E Hx (H0 & Hd & H). split; [eapply Q0_del; eassumption|].
    split; [destruct k0; [cbn [key_drawn] in *; rewrite (ed_supply _ _ _ E); exact Hd | exact Logic.I]|].
    rewrite (ed_pending _ _ _ E). destruct H as [Hp|Hs]; [left; exact Hp|]. right.
    destruct (key_eq_dec k0 k) as [->|Hne]; [exact (ed_gone _ _ _ E) | rewrite (ed_oth _ _ _ E k0 Hne); exact Hs].
  Qed.

  Lemma Q2_fire s s' : eff_fire s s' -> FOK0 (now s) -> Q2 s -> Q2 s'.
  Proof.
    intros E Hx (H0 & Hd & H). split; [eapply Q0_fire; eassumption|].
    split; [destruct k0; [cbn [key_drawn] in *; rewrite (ef_supply _ _ E); exact Hd | exact Logic.I]|].
    destruct H as [Hp|Hs].
    - destruct (d0 <=? now s)%Z eqn:Ed.
      + right. apply Z.leb_le in Ed. exact (ef_due _ _ E _ _ Hp Ed).
      + left. rewrite (ef_pending _ _ E). apply filter_In. split; [exact Hp|]. cbn [fst]. rewrite Ed. reflexivity.
    - right. destruct (ef_sref _ _ E k0) as [Es|[Es _]]; [rewrite Es; exact Hs | exact Es].
  Qed.

  Definition DI (s : st) : Prop := GW Q2 s.

  Definition norestart_hop (w : world) (h : hop) : Prop :=
    ff_hop h /\ crash_free h /\ h <> HRestart.

  Lemma DI_wait w d : DI (w_st w) ->
    DI (w_st (fst (step w (HWait d)))) /\
    ((d0 <= now (w_st w) + d)%Z -> sref (w_st (fst (step w (HWait d)))) k0 = None).
  Proof.
    intros (W & K & P & H0 & Hd & H). cbn [step fst w_st].
    set (s0 := set_now (set_evs (w_st w) []) (now (set_evs (w_st w) []) + d)).
    assert (G0 : G Q2 (supply (w_st w), []) s0).
    { split; [apply inv_set_now; exact W|]. split; [eapply Kcs_same; [| | |exact K]; reflexivity|].
      split; [intros d' k Hin; exact (P d' k Hin)|]. split; [eapply Q0_same; [| | |exact H0]; reflexivity | split; assumption]. }
    destruct (fire_due_G Q2 FOK0 Q2_fire _ _ G0 Logic.I) as (G1 & _ & _ & E). split; [exact (G_GW' _ _ _ G1)|].
    intro Hle. destruct H as [Hp|Hs].
    - apply (ef_due _ _ E d0 k0 Hp). exact Hle.
    - destruct (ef_sref _ _ E k0) as [Es|[Es _]]; [rewrite Es; exact Hs | exact Es].
  Qed.

  Lemma DI_step w h : DI (w_st w) -> norestart_hop w h -> DI (w_st (fst (step w h))).
  Proof.
    intros Hk (Hff & Hcf & Hnr). destruct h as [r|d|tbl pl| | |u tbl pl|u tbl pl|c]; cbn [ff_hop crash_free] in *.
    - apply (step_req_GW Q2 DEL0 FOK0 Q2_qt Q2_new Q2_repl Q2_del Q2_fire w r Hk Hff Hcf Logic.I).
      + intros; exact Logic.I.
      + intros o _ s ob _ _ _. exact Logic.I.
    - apply DI_wait. exact Hk.
    - apply (step_gen_GW Q2 FOK0 Q2_qt Q2_fire w (HPurge tbl pl) Hk Hff Logic.I Logic.I).
    - apply (step_gen_GW Q2 FOK0 Q2_qt Q2_fire w HDropCache Hk Hff Logic.I Logic.I).
    - contradiction.
    - apply (step_gen_GW Q2 FOK0 Q2_qt Q2_fire w (HLogoutUser u tbl pl) Hk Hff Logic.I Logic.I).
    - apply (step_gen_GW Q2 FOK0 Q2_qt Q2_fire w (HRefreshUser u tbl pl) Hk Hff Logic.I Logic.I).
    - destruct Hk as (W & K & P & H0 & Hd & H). cbn [step fst w_st].
      split; [eapply winv_of_inv'; apply inv_set_conf; exact W|].
      split; [eapply Kcs_same; [| | |exact K]; reflexivity|].
      split; [intros d' k Hin; exact (P d' k Hin)|]. split; [eapply Q0_same; [| | |exact H0]; reflexivity | split; assumption].
  Qed.
End Dead.

(* From a state in which the clean-up of k is queued for d0: after any
   fault-free, crash-free, restart-free history, a wait that brings the clock to
   d0 or later leaves k in neither cache nor store. *)
Theorem dead_after_wait k d0 w hs d :
  LI (w_st w) -> In (d0, k) (pending (w_st w)) -> hist_ok norestart_hop w hs ->
  (d0 <= now (w_st (after w hs)) + d)%Z ->
  let s := w_st (fst (step (after w hs) (HWait d))) in
  LI s /\ lookup (cache s) k = None /\ lookup (store s) k = None /\ L s k = None.
Proof.
  intros Hl Hp Hok Hle. cbv zeta.
  assert (Hd : DI k d0 (w_st w)).
  { pose proof (LI_sess_inv _ Hl) as (_ & _ & _ & (_ & _ & _ & Hfp)).
    destruct Hl as (W & K & P & H0). split; [exact W|]. split; [exact K|]. split; [exact P|]. split; [exact H0|].
    split; [exact (Hfp _ _ Hp) | left; exact Hp]. }
  pose proof (after_pres (fun w => DI k d0 (w_st w)) norestart_hop (DI_step k d0) hs w Hd Hok) as Hd'.
  destruct (DI_wait k d0 (after w hs) d Hd') as [(W' & K' & P' & H0' & _) Hs]. specialize (Hs Hle).
  assert (Hl' : LI (w_st (fst (step (after w hs) (HWait d))))) by (split; [exact W' | split; [exact K' | split; [exact P' | exact H0']]]).
  split; [exact Hl'|]. destruct (LI_sess_inv _ Hl') as (_ & Hc & _).
  assert (Hst : lookup (store (w_st (fst (step (after w hs) (HWait d))))) k = None).
  { unfold sref in Hs. destruct (lookup (store _) k); [discriminate | reflexivity]. }
  assert (Hca : lookup (cache (w_st (fst (step (after w hs) (HWait d))))) k = None).
  { destruct (lookup (cache _) k) as [o|] eqn:Hlk; [|reflexivity]. destruct (Hc _ _ Hlk) as (ob & Ho & _).
    rewrite (K' _ _ _ Hlk Ho) in Hs. discriminate. }
  split; [exact Hca|]. split; [exact Hst|]. unfold L. rewrite Hca. exact Hst.
Qed.
