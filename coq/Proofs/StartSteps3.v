(* B2 (C05), part (b): the reference loop of Start, and Start itself, with the
   clean-ups firing after any cache operation, for a request presenting a
   replaced ID whose chain of replaced-ID records is intact and none of whose
   later members is due. *)
From Sessions Require Import Model.Base Model.Sess Model.Hist Model.StartSteps Proofs.SessDefs
  Proofs.RotateLaws Proofs.RotateLaws2 Proofs.RotateLaws3 Proofs.RotateLaws4 Proofs.StartSteps
  Proofs.StartSteps2.
From Sessions Require Proofs.StartLaws.
From Coq Require Import Lia.

(* Between s and s' only loads, flushes and clean-up passes happened. *)
Record qx (s s' : st) : Prop := mkQX {
  qx_ext : forall o ob, hget s o = Some ob -> hget s' o = Some ob;
  qx_plan : plan s' = [];
  qx_ndc : NoDup (map fst (cache s'));
  qx_cok : cache_ok s';
  qx_now : now s' = now s;
  qx_conf : conf s' = conf s;
  qx_supply : supply s' = supply s;
  qx_pending : forall e, In e (pending s') -> In e (pending s);
  qx_L : forall k, notdue s k -> L s' k = L s k \/ L s' k = option_map (codec (conf s)) (L s k);
  qx_none : forall k, L s k = None -> L s' k = None }.

Lemma notdue_qx s s' k : qx s s' -> notdue s k -> notdue s' k.
Proof. intros Q H d Hin. rewrite (qx_now _ _ Q). apply H. apply (qx_pending _ _ Q). exact Hin. Qed.

Lemma qx_of_quiet s s' : quiet s s' -> qx s s'.
Proof.
  intros [A1 A2 A3 A4 A5 A6 A7 A8 A9 A10 A11]. constructor; auto.
  - intros e H. rewrite <- A8. exact H.
  - intros k H. destruct (A11 k) as [E|E]; rewrite E, H; reflexivity.
Qed.

Lemma qx_of_fired s s' : plan s = [] -> cache_ok s -> NoDup (map fst (cache s)) -> fired s s' -> qx s s'.
Proof.
  intros Hp Hc Hn F. constructor.
  - intros o ob H. rewrite (fired_hget s s' o F). exact H.
  - exact (fd_plan _ _ F).
  - rewrite (fd_cache _ _ F). apply nodup_rm_due. exact Hn.
  - exact (fired_cache_ok s s' F Hc).
  - exact (fd_now _ _ F).
  - exact (fd_conf _ _ F).
  - exact (fd_supply _ _ F).
  - intros e H. rewrite (fd_pending _ _ F) in H. apply filter_In in H. exact (proj1 H).
  - intros k H. left. exact (fired_L_keep s s' k F H).
  - intros k H. exact (fired_L_None s s' k F Hc H).
Qed.

Lemma qx_refl s : plan s = [] -> cache_ok s -> NoDup (map fst (cache s)) -> qx s s.
Proof. intros. apply qx_of_quiet. apply quiet_refl; assumption. Qed.

Lemma qx_trans s s1 s2 : qx s s1 -> qx s1 s2 -> qx s s2.
Proof.
  intros A B. constructor.
  - intros o ob H. apply (qx_ext _ _ B). apply (qx_ext _ _ A). exact H.
  - exact (qx_plan _ _ B).
  - exact (qx_ndc _ _ B).
  - exact (qx_cok _ _ B).
  - rewrite (qx_now _ _ B). exact (qx_now _ _ A).
  - rewrite (qx_conf _ _ B). exact (qx_conf _ _ A).
  - rewrite (qx_supply _ _ B). exact (qx_supply _ _ A).
  - intros e H. apply (qx_pending _ _ A). apply (qx_pending _ _ B). exact H.
  - intros k H. pose proof (notdue_qx s s1 k A H) as H1.
    destruct (qx_L _ _ B k H1) as [E2|E2]; destruct (qx_L _ _ A k H) as [E1|E1]; rewrite E2, E1, ?(qx_conf _ _ A).
    + left. reflexivity.
    + right. reflexivity.
    + right. reflexivity.
    + right. destruct (L s k); cbn; [rewrite StartLaws.codec_idem|]; reflexivity.
  - intros k H. apply (qx_none _ _ B). apply (qx_none _ _ A). exact H.
Qed.

(* the hook of start_interrupted at one point *)
Lemma hook_qx i n s : plan s = [] -> cache_ok s -> NoDup (map fst (cache s)) ->
  let s' := fire_at i n s in
  qx s s' /\ (forall k, notdue s k -> L s' k = L s k) /\ heap s' = heap s /\
  (n = i -> fired s s') /\ (n <> i -> s' = s).
Proof.
  intros Hp Hc Hn. cbv zeta. unfold fire_at. destruct (Nat.eqb n i) eqn:E.
  - apply Nat.eqb_eq in E. pose proof (fire_due_fired s Hp) as F.
    split; [apply qx_of_fired; assumption|]. split; [intros k H; exact (fired_L_keep _ _ k F H)|].
    split; [exact (fd_heap _ _ F)|]. split; [intros _; exact F | intro H; contradiction].
  - apply Nat.eqb_neq in E. split; [apply qx_refl; assumption|]. split; [reflexivity|]. split; [reflexivity|].
    split; [intro H; contradiction | reflexivity].
Qed.

Lemma chain_rec_qx s s' rest : qx s s' -> (forall k, In k rest -> notdue s k) ->
  forall r, chain_rec s r rest -> chain_rec s' r rest.
Proof.
  intro Q. induction rest as [|k' t IH]; intros Hn r H; cbn [chain_rec] in *; [exact H|].
  destruct H as [Hr [r' [Hl Hc]]]. split; [exact Hr|].
  assert (Ht : forall k, In k t -> notdue s k) by (intros k Hk; apply Hn; right; exact Hk).
  destruct (qx_L _ _ Q k' (Hn k' (or_introl eq_refl))) as [E|E]; rewrite Hl in E.
  - exists r'. split; [exact E | apply (IH Ht); exact Hc].
  - exists (codec (conf s) r'). split; [exact E|]. apply (IH Ht).
    eapply chain_rec_ref; [|exact Hc]. reflexivity.
Qed.

Lemma last_in {A} (l : list A) : forall d, l <> [] -> In (last l d) l.
Proof.
  induction l as [|a l IH]; intros d H; [congruence|]. destruct l as [|b l]; [left; reflexivity|].
  right. change (last (a :: b :: l) d) with (last (b :: l) d). apply IH. discriminate.
Qed.

(* The reference loop with the clean-ups firing after the i-th cache operation
   of the request; n operations were made before the loop. On an intact chain
   whose members are not due it ends at the last ID, whatever i is. *)
Lemma follow_h_chain i rest : forall n fuel s o ob lk,
  length rest <= fuel ->
  plan s = [] -> cache_ok s -> NoDup (map fst (cache s)) ->
  (forall k, In k rest -> k <> KGen (supply s)) ->
  (forall k, In k rest -> notdue s k) ->
  hget s o = Some ob -> chain_rec s (o_rec ob) rest ->
  exists s' o' ob',
    follow_h (fire_at i) n fuel s o lk = (s', Ok (o', last rest lk)) /\ qx s s' /\
    hget s' o' = Some ob' /\ r_ref (o_rec ob') = None /\ o_id ob' = last rest (o_id ob) /\
    (rest = [] -> o' = o /\ s' = s) /\
    (rest <> [] -> L s' (o_id ob') = Some (o_rec ob') /\
                   exists rn, L s (o_id ob') = Some rn /\
                              (o_rec ob' = rn \/ o_rec ob' = codec (conf s) rn)) /\
    (n < i <= n + length rest -> forall d k0, In (d, k0) (pending s) -> (d <= now s)%Z ->
       L s' k0 = None /\ ~ In (d, k0) (pending s')) /\
    (i <= n \/ n + length rest < i -> follow_h (fire_at i) n fuel s o lk = follow fuel s o lk).
Proof.
  induction rest as [|k' t IH]; intros n fuel s o ob lk Hfuel Hp Hco Hnd Hnj Hdue Hg Hch.
  - cbn in Hch. exists s, o, ob.
    assert (E : follow_h (fire_at i) n fuel s o lk = (s, Ok (o, lk))) by (destruct fuel; cbn; rewrite Hg, Hch; reflexivity).
    assert (E' : follow fuel s o lk = (s, Ok (o, lk))) by (destruct fuel; cbn; rewrite Hg, Hch; reflexivity).
    split; [exact E|]. split; [apply qx_refl; assumption|].
    split; [exact Hg|]. split; [exact Hch|]. split; [reflexivity|]. split; [auto|].
    split; [congruence|]. split; [cbn [length]; lia|]. intros _. rewrite E, E'. reflexivity.
  - destruct Hch as [Hr [r' [Hl Hc]]]. destruct fuel as [|f]; [cbn in Hfuel; lia|].
    cbn [follow_h follow]. rewrite Hg, Hr.
    destruct (lookup_found s k' r' Hp Hco Hnd (Hnj k' (or_introl eq_refl)) Hl) as [s1 [o1 [Eg P]]].
    rewrite Eg. destruct P as [Q Pobj Pca PLk].
    destruct (hook_qx i (S n) s1 (qu_plan _ _ Q) (qu_cok _ _ Q) (qu_ndc _ _ Q)) as (X1 & X2 & X3 & X4 & X5).
    set (s1' := fire_at i (S n) s1) in *.
    assert (Hdue1 : forall k, In k (k' :: t) -> notdue s1 k).
    { intros k Hk. apply (notdue_qx s s1 k (qx_of_quiet _ _ Q)). apply Hdue. exact Hk. }
    assert (Hobj' : hget s1' o1 = Some (mkObj k' r')) by (apply (qx_ext _ _ X1); exact Pobj).
    destruct (IH (S n) f s1' o1 (mkObj k' r') k') as [s' [o' [ob' (E & Q' & Hg' & Hr' & Hid' & Hnil & Hcons & Hfd & Hsame)]]].
    + cbn in Hfuel. lia.
    + exact (qx_plan _ _ X1).
    + exact (qx_cok _ _ X1).
    + exact (qx_ndc _ _ X1).
    + intros k Hin. rewrite (qx_supply _ _ X1), (qu_supply _ _ Q). apply Hnj. right. exact Hin.
    + intros k Hin. apply (notdue_qx s1 s1' k X1). apply Hdue1. right. exact Hin.
    + exact Hobj'.
    + cbn [o_rec]. apply (chain_rec_qx s1 s1' t X1); [intros k Hk; apply Hdue1; right; exact Hk|].
      eapply chain_rec_pres; [exact (qu_L _ _ Q) | exact Hc].
    + exists s', o', ob'. split; [rewrite last_cons; exact E|].
      split; [eapply qx_trans; [apply qx_of_quiet; exact Q | eapply qx_trans; eassumption]|].
      split; [exact Hg'|]. split; [exact Hr'|].
      split; [rewrite last_cons; exact Hid'|]. split; [discriminate|]. split; [|split].
      * intros _. destruct t as [|k2 t'].
        -- destruct (Hnil eq_refl) as [-> ->].
           assert (ob' = mkObj k' r') by congruence. subst ob'. cbn [o_id o_rec].
           split; [rewrite (X2 k' (Hdue1 k' (or_introl eq_refl))); exact PLk|].
           exists r'. split; [exact Hl | left; reflexivity].
        -- destruct (Hcons ltac:(discriminate)) as [HL' [rn [Hrn Hcase]]]. split; [exact HL'|].
           assert (Hin : In (o_id ob') (k' :: k2 :: t')).
           { rewrite Hid'. cbn [o_id]. right. apply last_in. discriminate. }
           rewrite (X2 _ (Hdue1 _ Hin)) in Hrn. rewrite (qx_conf _ _ X1) in Hcase.
           destruct (qu_L _ _ Q (o_id ob')) as [EL|EL]; rewrite EL in Hrn.
           ++ exists rn. split; [exact Hrn|]. rewrite <- (qu_conf _ _ Q). exact Hcase.
           ++ destruct (L s (o_id ob')) as [r0|] eqn:E0; [|discriminate]. cbn in Hrn. injection Hrn as <-.
              exists r0. split; [reflexivity|]. right.
              destruct Hcase as [Hcase|Hcase]; rewrite Hcase; [reflexivity|].
              rewrite (qu_conf _ _ Q). apply StartLaws.codec_idem.
      * intros Hi d k0 Hin Hd. cbn [length] in Hi.
        destruct (Nat.eq_dec (S n) i) as [Ei|Ei].
        -- specialize (X4 Ei). rewrite <- (qu_pending _ _ Q) in Hin. rewrite <- (qu_now _ _ Q) in Hd.
           destruct (fired_due_gone s1 s1' d k0 X4 Hin Hd) as (_ & _ & G1 & G2).
           split; [apply (qx_none _ _ Q'); exact G1|]. intro H. apply G2. apply (qx_pending _ _ Q'). exact H.
        -- assert (Es : s1' = s1) by (apply X5; exact Ei).
           apply Hfd; [lia | rewrite Es, (qu_pending _ _ Q); exact Hin | rewrite Es, (qu_now _ _ Q); exact Hd].
      * intros Hi. cbn [length] in Hi. assert (Ei : S n <> i) by lia.
        assert (Es : s1' = s1) by (apply X5; exact Ei). rewrite Es in *. apply Hsame. lia.
Qed.
