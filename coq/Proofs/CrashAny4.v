(* R10, C10: where the record comes from that a chain resolves to after a process
   stop (CrashAny3.v): it is the record the store held under that ID before the
   step, or a record that a successful save of the step wrote under that ID.

   No axioms; standard library only. *)
From Sessions Require Import Model.Base Model.Sess Model.Hist Proofs.SessDefs
  Proofs.HistInv Proofs.HistInv3 Proofs.LineageK Proofs.LineageK3 Proofs.LineageF Proofs.CrashAny2 Proofs.CrashAny3.
From Sessions Require Proofs.CrashChain Proofs.CrashFault13.
From Coq Require Import Lia.

Lemma replay_lookup_src : forall l sg x r,
  lookup (fst (fold_left apply_ev l sg)) x = Some r ->
  lookup (fst sg) x = Some r \/ In (EvSave x r true) l.
Proof.
  induction l as [|e l IH]; intros sg x r H; [left; exact H|]. cbn [fold_left] in H.
  destruct (IH _ x r H) as [A|A]; [|right; right; exact A].
  destruct sg as [stor gr]. destruct e as [k ok|u ok|k rc ok|k ok|u ok|d]; cbn [apply_ev fst] in A; try (left; exact A).
  - destruct ok; [|left; exact A]. cbn [fst] in A. destruct (key_eq_dec x k) as [->|Hne].
    + rewrite lookup_upsert_same in A. injection A as ->. right. left. reflexivity.
    + rewrite lookup_upsert_other in A by exact Hne. left. exact A.
  - destruct ok; [|left; exact A]. cbn [fst] in A. destruct (key_eq_dec x k) as [->|Hne].
    + rewrite lookup_remove_same in A. discriminate.
    + rewrite lookup_remove_other in A by exact Hne. left. exact A.
Qed.

Lemma In_ev_prefix e l : forall n, In e (ev_prefix l n) -> In e l.
Proof.
  induction l as [|x l IH]; intros [|n] H; cbn [ev_prefix] in H; try contradiction.
  destruct x; cbn [In] in *; (destruct H as [H|H]; [left; exact H | right; eapply IH; exact H]).
Qed.

Lemma spath_end (F : rec -> Prop) stor : forall p k, CrashChain.spath F stor k p ->
  exists rend, lookup stor (last p k) = Some rend /\ r_ref rend = None /\ F rend.
Proof.
  induction p as [|k' t IH]; intros k H; [exact H|]. destruct H as [_ H]. rewrite CrashChain.last_cons. exact (IH k' H).
Qed.

(* every record of the store a stop leaves: there before, or written by the step *)
Lemma stop_record_src w r n x rx : rq_crash r = Some n ->
  lookup (store (w_st (fst (step w (HReq r))))) x = Some rx ->
  lookup (store (w_st w)) x = Some rx \/ In (EvSave x rx true) (ob_evs (snd (step w (HReq (nocrash r))))).
Proof.
  intros Hcr H. pose proof (crash_sg w r n Hcr) as E. apply (f_equal fst) in E. cbn [fst] in E. rewrite E in H.
  destruct (replay_lookup_src _ _ _ _ H) as [A|A]; [left; exact A | right; eapply In_ev_prefix; exact A].
Qed.

Lemma stop_record_src_pre w r n x rx : rq_crash r = Some n ->
  lookup (store (w_st (fst (step w (HReq r))))) x = Some rx ->
  lookup (store (w_st w)) x = Some rx \/ In (EvSave x rx true) (ev_prefix (ob_evs (snd (step w (HReq (nocrash r))))) n).
Proof.
  intros Hcr H. pose proof (crash_sg w r n Hcr) as E. apply (f_equal fst) in E. cbn [fst] in E. rewrite E in H.
  exact (replay_lookup_src _ _ _ _ H).
Qed.

Lemma no_deletes_prefix l n : no_deletes l -> no_deletes (ev_prefix l n).
Proof. apply CrashFault13.ev_prefix_Forall. Qed.

(* the chain, with the record it ends at: only the events the stop keeps matter *)
Theorem chain_resolves_stop_record_pre w r n k0 rest :
  LIx (w_st w) -> graves_drawn (w_st w) -> rq_plan r = [] -> rq_crash r = Some n ->
  no_deletes (ev_prefix (ob_evs (snd (step w (HReq (nocrash r))))) n) ->
  CrashChain.spath (fun _ => True) (store (w_st w)) k0 rest ->
  exists tl rend,
    CrashChain.spath (fun _ => True) (store (w_st (fst (step w (HReq r))))) k0 (rest ++ tl) /\
    Forall (fresh_from_n (supply (w_st w))) tl /\
    lookup (store (w_st (fst (step w (HReq r))))) (last (rest ++ tl) k0) = Some rend /\ r_ref rend = None /\
    (lookup (store (w_st w)) (last (rest ++ tl) k0) = Some rend \/
     In (EvSave (last (rest ++ tl) k0) rend true) (ev_prefix (ob_evs (snd (step w (HReq (nocrash r))))) n)).
Proof.
  intros Hl Hg Hpl Hcr Hnd Hp.
  destruct (chain_resolves_stop w r n Hl Hg Hpl Hcr Hnd k0 rest Hp) as (tl & Hs & Hfr).
  destruct (spath_end _ _ _ _ Hs) as (rend & A & B & _).
  exists tl, rend. split; [exact Hs|]. split; [exact Hfr|]. split; [exact A|]. split; [exact B|].
  exact (stop_record_src_pre w r n _ rend Hcr A).
Qed.

(* the chain, with the record it ends at *)
Theorem chain_resolves_stop_record w r n k0 rest :
  LIx (w_st w) -> graves_drawn (w_st w) -> rq_plan r = [] -> rq_crash r = Some n ->
  no_deletes (ob_evs (snd (step w (HReq (nocrash r))))) ->
  CrashChain.spath (fun _ => True) (store (w_st w)) k0 rest ->
  exists tl rend,
    CrashChain.spath (fun _ => True) (store (w_st (fst (step w (HReq r))))) k0 (rest ++ tl) /\
    Forall (fresh_from_n (supply (w_st w))) tl /\
    lookup (store (w_st (fst (step w (HReq r))))) (last (rest ++ tl) k0) = Some rend /\ r_ref rend = None /\
    (lookup (store (w_st w)) (last (rest ++ tl) k0) = Some rend \/
     In (EvSave (last (rest ++ tl) k0) rend true) (ob_evs (snd (step w (HReq (nocrash r)))))).
Proof.
  intros Hl Hg Hpl Hcr Hnd Hp.
  destruct (chain_resolves_stop w r n Hl Hg Hpl Hcr (no_deletes_prefix _ n Hnd) k0 rest Hp) as (tl & Hs & Hfr).
  destruct (spath_end _ _ _ _ Hs) as (rend & A & B & _).
  exists tl, rend. split; [exact Hs|]. split; [exact Hfr|]. split; [exact A|]. split; [exact B|].
  exact (stop_record_src w r n _ rend Hcr A).
Qed.

Lemma no_deletes_meaning l :
  no_deletes l <-> Forall (fun e => match e with EvDelete _ _ => false | _ => true end = true) l.
Proof. unfold no_deletes. split; apply Forall_impl; intros e; destruct e; cbn; intro H; congruence. Qed.

Lemma steps_ok_prefix_fold (I : CrashFault2.sgT -> Prop) l sg :
  CrashFault2.steps_ok I sg l -> forall n, I (fold_left apply_ev (ev_prefix l n) sg).
Proof. intros H n. exact (CrashFault2.steps_ok_prefix I sg l n H). Qed.

(* in C10C's terms *)
Theorem resolves_chain_stop w r n k0 :
  LIx (w_st w) -> graves_drawn (w_st w) -> rq_plan r = [] -> rq_crash r = Some n ->
  no_deletes (ob_evs (snd (step w (HReq (nocrash r))))) ->
  CrashChain.resolves_chain (fun _ => True) (store (w_st w)) k0 ->
  CrashChain.resolves_chain (fun _ => True) (store (w_st (fst (step w (HReq r))))) k0.
Proof.
  intros Hl Hg Hpl Hcr Hnd Hr.
  destruct (proj1 (CrashChain.resolves_chain_meaning _ _ _) Hr) as (rest & Hp).
  destruct (chain_resolves_stop w r n Hl Hg Hpl Hcr (no_deletes_prefix _ n Hnd) k0 rest Hp) as (tl & Hs & _).
  exact (CrashChain.spath_resolves_chain _ _ _ _ Hs).
Qed.
