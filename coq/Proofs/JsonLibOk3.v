(* The concrete library (Model/JsonLib.v, Model/Rfc3339.v) is an instance of
   everything Properties/C17.v assumes of encoding/json and time, and the
   byte-level MarshalJSON/UnmarshalJSON built on it coincide with the
   tree-level ones of Model/Codec.v. Audit task A8. *)
From Sessions Require Import Model.Base Model.Codec Model.JsonLib Model.Rfc3339 Gen.Layout
  Proofs.BaseLemmas Proofs.CodecText Proofs.CodecDefs Proofs.CodecLaws2 Proofs.CodecLaws3 Proofs.CodecLaws4
  Proofs.Rfc3339Ok Proofs.JsonLibOk Proofs.JsonLibOk2.
Local Open Scope N_scope.

(* the hypothesis of C17_roundtrip & co. has an instance *)
Lemma json_lib_ok_instance : json_lib_ok lib_fmt_time lib_parse_time u8_coerce.
Proof.
  split; [exact u8_coerce_ascii|]. split; [exact lib_fmt_ascii | exact lib_time_roundtrip].
Qed.

(* the integer literals of MarshalJSON's table are Go ints *)
Definition enc_lits_ok (enc : list mblock) : bool :=
  forallb (fun b => match mb_val b with MLit z => num_wf (DInt z) | _ => true end) enc.

(* the map MarshalJSON builds holds only 64-bit numbers if the session does *)
Lemma json_tree_wf fmt_time (enc : list mblock) (s : csess) (t : list (bytes * dval)) :
  enc_lits_ok enc = true ->
  sess_num_wf s = true -> json_tree fmt_time enc s = Ok t -> num_wf (DMap t) = true.
Proof.
  intros Hlits Hwf. unfold enc_lits_ok in Hlits. rewrite forallb_forall in Hlits.
  assert (Hlit : forall b z, In b enc -> mb_val b = MLit z -> num_wf (DInt z) = true).
  { intros b z Hin Hb. specialize (Hlits b Hin). rewrite Hb in Hlits. exact Hlits. }
  clear Hlits. revert Hlit. unfold sess_num_wf in Hwf. apply andb_true_iff in Hwf as [Hu Hd].
  rewrite num_wf_DMap in Hd. revert t.
  induction enc as [|b enc IH]; intros t Hlit H; cbn [json_tree] in H.
  - injection H as <-. reflexivity.
  - assert (Hlit' : forall b' z, In b' enc -> mb_val b' = MLit z -> num_wf (DInt z) = true).
    { intros b' z Hin. apply Hlit. right. exact Hin. }
    destruct (mcond_holds (mb_cond b) s); [|exact (IH t Hlit' H)].
    destruct (mval_tree fmt_time (mb_val b) s) as [v| |] eqn:Hv; cbn [rbind] in H; try discriminate H.
    destruct (json_tree fmt_time enc s) as [t'| |]; cbn [rbind] in H; try discriminate H.
    injection H as <-. specialize (IH t' Hlit' eq_refl).
    assert (Hb := Hlit b).
    rewrite num_wf_DMap in *. cbn [forallb snd]. rewrite IH, andb_true_r.
    destruct (mb_val b) as [z|lay f|f|r| |]; cbn [mval_tree] in Hv.
    + injection Hv as <-. apply (Hb z); [left; reflexivity | reflexivity].
    + injection Hv as <-. reflexivity.
    + injection Hv as <-. reflexivity.
    + destruct (radix_ok r); [injection Hv as <-; reflexivity | discriminate Hv].
    + destruct (cs_user s) as [u|]; [injection Hv as <-; exact Hu | discriminate Hv].
    + injection Hv as <-. destruct (cs_data s) as [m|]; [|reflexivity].
      rewrite num_wf_DMap. exact Hd.
Qed.

(* bytes and trees agree *)
Lemma json_roundtrip_bytes_eq load fmt_time parse_time (enc : list mblock) (dec : list ublock) (s : csess) :
  enc_lits_ok enc = true -> sess_num_wf s = true ->
  json_roundtrip_bytes load fmt_time parse_time enc dec s =
  json_roundtrip load fmt_time parse_time u8_coerce enc dec s.
Proof.
  intros Hlits Hwf. unfold json_roundtrip_bytes, json_roundtrip, json_marshal_bytes, json_marshal.
  destruct (json_tree fmt_time enc s) as [t| |] eqn:Ht; cbn [rbind]; try reflexivity.
  assert (Hj := jparse_jmarshal (DMap t) (json_tree_wf _ _ _ _ Hlits Hwf Ht)).
  rewrite reparse_DMap in Hj.
  destruct (jmarshal (DMap t)) as [b|]; destruct (reparse_map u8_coerce t) as [t'|]; cbn [rbind];
    try discriminate Hj; try reflexivity.
  - unfold json_unmarshal_bytes. rewrite Hj. reflexivity.
  - unfold json_unmarshal_bytes. rewrite Hj. reflexivity.
Qed.

Lemma json_roundtrip_bytes_thm :
  json_da_null_ok = true ->
  forall load s, json_dom s = true -> sess_num_wf s = true ->
    json_roundtrip_bytes load lib_fmt_time lib_parse_time json_enc json_dec s = jnorm load u8_coerce s.
Proof.
  intros Hok load s Hd Hwf. rewrite json_roundtrip_bytes_eq by (first [reflexivity | exact Hwf]).
  exact (json_roundtrip_thm Hok load _ _ _ json_lib_ok_instance s Hd).
Qed.

Lemma json_roundtrip_bytes_nonnil_thm :
  forall load s, cs_data s <> None -> json_dom s = true -> sess_num_wf s = true ->
    json_roundtrip_bytes load lib_fmt_time lib_parse_time json_enc json_dec s = jnorm load u8_coerce s.
Proof.
  intros load s Hnn Hd Hwf. rewrite json_roundtrip_bytes_eq by (first [reflexivity | exact Hwf]).
  exact (json_roundtrip_nonnil_thm load _ _ _ json_lib_ok_instance s Hnn Hd).
Qed.

Lemma json_roundtrip_bytes_refuted_thm :
  json_da_null_ok = false ->
  forall load,
  exists s, json_dom s = true /\ sess_num_wf s = true /\ cs_data s = None /\ cs_ref s <> [] /\ cs_user s = None /\
            json_roundtrip_bytes load lib_fmt_time lib_parse_time json_enc json_dec s = Err /\
            jnorm load u8_coerce s =
              Ok (mkSess (floor_sec (cs_created s)) (floor_sec (cs_access s)) (u8_coerce (cs_ip s))
                         (cs_ua s) (u8_coerce (cs_ref s)) None (Some [])).
Proof.
  intros Hno load.
  destruct (json_roundtrip_refuted_thm Hno load _ _ _ json_lib_ok_instance) as [s [Hd [Hda [Hrf [Hus [Hrt Hn]]]]]].
  assert (Hwf : sess_num_wf s = true) by (unfold sess_num_wf; rewrite Hus, Hda; reflexivity).
  exists s. repeat (split; [assumption|]). split; [|exact Hn].
  rewrite json_roundtrip_bytes_eq by (first [reflexivity | exact Hwf]). exact Hrt.
Qed.

(* UnmarshalJSON on arbitrary bytes: an error or a session, never a panic *)
Lemma json_unmarshal_bytes_total load parse_time (b : bytes) :
  json_unmarshal_bytes load parse_time json_dec b <> Panic.
Proof.
  unfold json_unmarshal_bytes. destruct (jparse b) as [j|]; [apply json_total_lemma | discriminate].
Qed.

(* non-vacuity: a session with invalid UTF-8, a Go int, a float and a nested
   value, through the bytes; and the bytes MarshalJSON writes for it *)
Definition ex_json_sess2 : csess :=
  mkSess ex_time (mkTime (-62135596800) 5 (-12600)) [49;46;50;46;51;46;52;58;53] 18446744073709551615
         [110;101;119] (Some ex_user)
         (Some [([107], DStr [118; 255]); ([110], DInt 7); ([102], DFloat 4591870180066957722);
                ([108], DList [DNull; DBool false; DMap [([97], DStr [34; 10])]])]).

Example json_bytes_nonvacuous :
  json_dom ex_json_sess2 = true /\ sess_num_wf ex_json_sess2 = true /\
  json_roundtrip_bytes (case_load 0) lib_fmt_time lib_parse_time json_enc json_dec ex_json_sess2 =
    Ok (mkSess (mkTime 1577934245 0 20700) (mkTime (-62135596800) 0 (-12600)) [49;46;50;46;51;46;52;58;53]
               18446744073709551615 [110;101;119] (Some (mkUser (DFloat 4631107791820423168) 7))
               (Some [([107], DStr [118; 239; 191; 189]); ([110], DFloat 4619567317775286272);
                      ([102], DFloat 4591870180066957722);
                      ([108], DList [DNull; DBool false; DMap [([97], DStr [34; 10])]])])) /\
  json_marshal_bytes lib_fmt_time json_enc_v1 ex_placeholder =
    Ok [123;34;118;34;58;49;44;                                                       (* {"v":1, *)
        34;99;114;34;58;34;50;48;50;48;45;48;49;45;48;50;84;48;56;58;52;57;58;48;53;43;48;53;58;52;53;34;44;  (* "cr":"2020-01-02T08:49:05+05:45", *)
        34;108;97;34;58;34;50;48;50;48;45;48;49;45;48;50;84;48;56;58;52;57;58;48;53;43;48;53;58;52;53;34;44;
        34;105;112;34;58;34;49;46;50;46;51;46;52;58;53;34;44;                          (* "ip":"1.2.3.4:5", *)
        34;117;97;34;58;34;50;53;34;44;                                               (* "ua":"25", *)
        34;100;97;34;58;110;117;108;108;44;                                           (* "da":null, *)
        34;114;102;34;58;34;110;101;119;45;105;100;34;125] /\                         (* "rf":"new-id"} *)
  json_unmarshal_bytes (case_load 0) lib_parse_time json_dec [123; 125] = Err /\
  json_unmarshal_bytes (case_load 0) lib_parse_time json_dec [123; 34; 118; 34; 58] = Err.
Proof. repeat match goal with |- _ /\ _ => split end; vm_compute; reflexivity. Qed.
