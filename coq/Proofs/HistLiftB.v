(* Round 4, task R4(a), follow-up: the lifting of Proofs/HistLift3.v (Section
   Rider) for an ARBITRARY heap mark b: PF's invariant inv b (heap indices from b
   on are live; what a crash leaves has b = the length of the heap), so that the
   invariants between steps survive a process stop at any point. The statements
   and proofs are those of HistLift3.v with `b <= o` added for the handler's
   object; read the comments there.

   No axioms; standard library only. *)
From Sessions Require Import Model.Base Model.Sess Model.Hist Proofs.SessDefs
  Proofs.HistInv Proofs.HistInv2 Proofs.HistInv3 Proofs.HistLift Proofs.HistLift2 Proofs.HistLift3.
From Coq Require Import Lia.

Lemma hg_hokb b s o : b <= o -> hg s o -> hok b ND s o.
Proof. intros Hb (ob & Ho & _). split; [exact Hb | exists ob; split; [exact Ho | intros []]]. Qed.

Section RiderB.
  Variable b : nat.
  Variable Q : st -> Prop.
  Variable DEL : st -> key -> Prop.
  Variable FOK : Z -> Prop.
  Hypothesis Q_qt : forall s s', qt s s' -> Q s -> Q s'.
  Hypothesis Q_new : forall s s' k, eff_new s s' k -> Q s -> Q s'.
  Hypothesis Q_repl : forall s s' k, eff_repl s s' k -> Q s -> Q s'.
  Hypothesis Q_del : forall s s' k, eff_del s s' k -> DEL s k -> Q s -> Q s'.
  Hypothesis Q_fire : forall s s', eff_fire s s' -> FOK (now s) -> Q s -> Q s'.

  Definition Gb (base : N * list ev) (s : st) : Prop := inv b base NX ND s /\ Kcs s /\ PRs s /\ Q s.

  Lemma Gb_qt base s s' : inv b base NX ND s' -> Kcs s' -> qt s s' -> Gb base s -> Gb base s'.
  Proof.
    intros I' K' Qt (I & K & P & Hq). split; [exact I'|]. split; [exact K'|].
    split; [eapply PRs_qt; eassumption | eapply Q_qt; eassumption].
  Qed.

  Lemma created_Gb base s q : Gb base s ->
    Gb base (created s q) /\ nc s (created s q) /\ hg (created s q) (length (heap s)) /\
    hid (created s q) (length (heap s)) = Some (KGen (supply s)) /\ supply (created s q) = (supply s + 1)%N.
  Proof.
    intros (I & K & P & Hq). destruct (created_eff _ _ _ _ q I K P) as (K' & P' & E & _ & Hh).
    destruct (created_inv _ _ _ _ q I) as [I' _].
    split; [split; [exact I' | split; [exact K' | split; [exact P' | eapply Q_new; eassumption]]]|].
    split; [split; [exact (en_now _ _ _ E) | exact (en_conf _ _ _ E)]|]. split; [exact Hh|].
    split; [unfold hid; rewrite (created_handle s q (inv_ffnd _ _ _ _ _ I)); reflexivity | exact (en_supply _ _ _ E)].
  Qed.

  Lemma regen_Gb base s o ob : Gb base s -> b <= o -> hget s o = Some ob -> hg s o ->
    Gb base (regen s o ob) /\ nc s (regen s o ob) /\ hg (regen s o ob) o /\
    hid (regen s o ob) o = Some (KGen (supply s)) /\ supply (regen s o ob) = (supply s + 1)%N.
  Proof.
    intros (I & K & P & Hq) Hbo Ho Hh.
    destruct (regen_eff _ _ _ _ _ _ I K P Ho Hbo (fun x => x) Hh) as (K' & P' & E & Hh').
    pose proof (regen_inv _ _ _ _ _ _ I Ho Hbo (fun x => x)) as I'.
    split; [split; [exact I' | split; [exact K' | split; [exact P' | eapply Q_repl; eassumption]]]|].
    split; [split; [exact (er_now _ _ _ E) | exact (er_conf _ _ _ E)]|]. split; [exact Hh'|].
    split; [unfold hid; rewrite (regen_handle s o ob (inv_ffnd _ _ _ _ _ I) Ho); reflexivity | exact (er_supply _ _ _ E)].
  Qed.

  Lemma cdel_Gb base s k : Gb base s -> DEL s k ->
    Gb base (fst (cache_delete s k)) /\ nc s (fst (cache_delete s k)) /\
    eff_del s (fst (cache_delete s k)) k /\ heap (fst (cache_delete s k)) = heap s.
  Proof.
    intros (I & K & P & Hq) Hd. destruct (cdel_eff s k (i_plan _ _ _ _ _ I) K P) as (K' & P' & E & Hh & _).
    split; [split; [apply inv_cache_delete; exact I | split; [exact K' | split; [exact P' | eapply Q_del; eassumption]]]|].
    split; [split; [exact (ed_now _ _ _ E) | exact (ed_conf _ _ _ E)] | split; [exact E | exact Hh]].
  Qed.

  Lemma fire_due_Gb base s : Gb base s -> FOK (now s) ->
    Gb base (fire_due s) /\ nc s (fire_due s) /\ (forall o, hg s o -> hg (fire_due s) o) /\ eff_fire s (fire_due s).
  Proof.
    intros (I & K & P & Hq) Hf. destruct (fire_due_eff s (i_plan _ _ _ _ _ I) K P) as (K' & P' & E & Hh & _).
    destruct (HistInv3.fire_due_inv _ _ _ _ I) as (I' & _).
    split; [split; [exact I' | split; [exact K' | split; [exact P' | eapply Q_fire; eassumption]]]|].
    split; [split; [exact (ef_now _ _ E) | exact (ef_conf _ _ E)]|].
    split; [intros o Ho; exact (hg_fire _ _ o P E Hh Ho) | exact E].
  Qed.

  (* ---------------------------------------------------------------- Start *)

  (* the session Start returns: a handle that agrees with the store, whose ID
     stands in relation R to the cookies *)
  Definition sres_okb (s' : st) (res : result (option nat)) (R : key -> Prop) : Prop :=
    forall o, res = Ok (Some o) -> b <= o /\ hg s' o /\ exists k, hid s' o = Some k /\ R k.



  Lemma start_none_Gb base s q cks : Gb base s ->
    exists s' res cks', start_none s q cks = (s', res, cks') /\ Gb base s' /\ nc s s' /\
      sres_okb s' res (fun k => cks' = cks ++ [CkLive k]) /\ cr s s' cks cks'.
  Proof.
    intros Hg. unfold start_none. destruct (q_create q).
    - rewrite create_session_ff by (eapply inv_ffnd; apply Hg).
      destruct (created_Gb _ _ q Hg) as (Gb' & N' & H' & Hi' & Hsu). do 3 eexists. split; [reflexivity|].
      split; [exact Gb'|]. split; [exact N'|]. split; [|apply cr_new; exact Hsu]. intros o E. injection E as <-. split; [apply (i_b _ _ _ _ _ (proj1 Hg))|]. split; [exact H'|].
      eexists. split; [exact Hi' | reflexivity].
    - do 3 eexists. split; [reflexivity|]. split; [exact Hg|]. split; [apply nc_refl|].
      split; [intros o E; discriminate | apply cr_same; reflexivity].
  Qed.

  Lemma start_found_Gb base c s q k o ob cks :
    Gb base s -> b <= o -> hget s o = Some ob -> o_id ob = k -> sc s o ->
    (forall s' res cks', start_found c s q k o ob cks = (s', res, cks') ->
       In CkDelete cks' \/ res = Err EExpiredID -> DEL s k) ->
    exists s' res cks', start_found c s q k o ob cks = (s', res, cks') /\ Gb base s' /\ nc s s' /\
      sres_okb s' res (ck_found k cks cks') /\ cr s s' cks cks'.
  Proof.
    intros Hg Hbo Ho Hid Hsc Hdel. pose proof Hg as (I & K & P & Hq).
    assert (F : ffnd s) by (eapply inv_ffnd; exact I). assert (Hp : plan s = []) by apply F.
    assert (Hs : sref s (o_id ob) = Some (r_ref (o_rec ob))).
    { destruct Hsc as (ob' & Ho' & Hs). rewrite Ho in Ho'. injection Ho' as <-. exact Hs. }
    destruct (rec_valid c (now s) q (o_rec ob)) eqn:Hv.
    - destruct (r_ref (o_rec ob)) as [t|] eqn:Hr.
      + destruct (sat_add (c_idexpiry c) (c_grace c) <=? since (r_created (o_rec ob)) (now s))%Z eqn:Hb.
        * assert (E : start_found c s q k o ob cks = (fst (cache_delete s k), Err EExpiredID, cks)).
          { apply sf_backstop; [exact Hp | exact Hv | unfold isref; rewrite Hr; reflexivity | exact Hb]. }
          destruct (cdel_Gb _ _ k Hg (Hdel _ _ _ E (or_intror eq_refl))) as (Gb' & N' & Ed & _).
          do 3 eexists. split; [exact E|]. split; [exact Gb'|]. split; [exact N'|].
          split; [intros o' E'; discriminate | apply cr_same; exact (ed_supply _ _ _ Ed)].
        * rewrite (sf_ref _ _ _ _ _ _ _ t Hv Hr Hb).
          assert (Hok : hok b ND s o) by (split; [exact Hbo | exists ob; split; [exact Ho | intros []]]).
          destruct (follow_inv b base ND (S (N.to_nat (supply s))) s o k I Hok) as (s1 & fr & E & I1 & Hfr).
          destruct (follow_qt b base ND (S (N.to_nat (supply s))) s o k I K Hok Hsc) as (Q1 & K1 & Hh1).
          rewrite E in *. cbn [fst snd] in *.
          destruct fr as [[o' lk']|e|e]; [| | contradiction].
          -- (* the last key followed is the ID of the object reached *)
             destruct (follow_key b base ND _ _ _ _ _ _ _ I (ex_intro _ ob (conj Ho Hid)) E) as (obk & Hok' & Hidk).
             subst lk'.
             destruct (hupd_qt s1 o' (upd_req s1 q) (fun _ => eq_refl) K1) as [Q2 K2].
             do 3 eexists. split; [reflexivity|]. split; [|split; [|split]].
             ++ eapply Gb_qt; [apply inv_hupd; [exact I1 | reflexivity] | exact K2 | exact (qt_trans _ _ _ Q1 Q2) | exact Hg].
             ++ apply nc_qt. exact (qt_trans _ _ _ Q1 Q2).
             ++ intros o2 E2. injection E2 as <-. pose proof (Hh1 o' _ eq_refl) as Hh'.
                split; [exact (proj1 Hfr)|]. split; [eapply hg_qt; eassumption|]. destruct Hh' as (ob' & Ho' & _).
                assert (ob' = obk) by congruence. subst ob'.
                exists (o_id obk). split; [|right; left; reflexivity].
                rewrite (hid_qt _ _ o' Q2); unfold hid; rewrite Ho'; [reflexivity | discriminate].
             ++ apply cr_old; [rewrite hupd_supply; exact (qt_supply _ _ Q1)|].
                destruct (i_fh _ _ _ _ _ I1 o' obk (proj1 Hfr) Hok') as [Hkd _]. rewrite (qt_supply _ _ Q1) in Hkd.
                destruct (o_id obk); exact Hkd.
          -- do 3 eexists. split; [reflexivity|]. split; [eapply Gb_qt; eassumption|].
             split; [apply nc_qt; exact Q1|]. split; [intros o2 E2; discriminate | apply cr_same; exact (qt_supply _ _ Q1)].
      + assert (Hh : hg s o) by (exists ob; split; [exact Ho | split; [exact Hr | exact Hs]]).
        destruct (c_idexpiry c <=? since (r_created (o_rec ob)) (now s))%Z eqn:Ha.
        * rewrite (sf_rotate _ _ _ _ _ _ _ F Ho Hv Hr Ha).
          destruct (regen_Gb _ _ _ _ Hg Hbo Ho Hh) as (G1 & N1 & H1 & Hi1 & Hsu1). pose proof G1 as (I1 & K1 & _).
          destruct (hupd_qt (regen s o ob) o (upd_req (regen s o ob) q) (fun _ => eq_refl) K1) as [Q2 K2].
          do 3 eexists. split; [reflexivity|]. split; [|split; [|split; [|apply cr_new; rewrite hupd_supply; exact Hsu1]]].
          -- eapply Gb_qt; [apply inv_hupd; [exact I1 | reflexivity] | exact K2 | exact Q2 | exact G1].
          -- eapply nc_trans; [exact N1 | apply nc_qt; exact Q2].
          -- intros o2 E2. injection E2 as <-. split; [exact Hbo|]. split; [eapply hg_qt; eassumption|].
             exists (KGen (supply s)). split; [|right; left; reflexivity].
             rewrite (hid_qt _ _ o Q2); [exact Hi1 | rewrite Hi1; discriminate].
        * destruct (sat_add (c_idexpiry c) (c_grace c) <=? since (r_created (o_rec ob)) (now s))%Z eqn:Hb.
          -- assert (E : start_found c s q k o ob cks = (fst (cache_delete s k), Err EExpiredID, cks)).
             { apply sf_backstop; [exact Hp | exact Hv | rewrite Ha; apply andb_false_r | exact Hb]. }
             destruct (cdel_Gb _ _ k Hg (Hdel _ _ _ E (or_intror eq_refl))) as (Gb' & N' & Ed & _).
             do 3 eexists. split; [exact E|]. split; [exact Gb'|]. split; [exact N'|].
             split; [intros o' E'; discriminate | apply cr_same; exact (ed_supply _ _ _ Ed)].
          -- rewrite (sf_plain _ _ _ _ _ _ _ Hv Hr Ha Hb).
             destruct (hupd_qt s o (upd_req s q) (fun _ => eq_refl) K) as [Q2 K2].
             do 3 eexists. split; [reflexivity|]. split; [|split; [|split; [|apply cr_same; apply hupd_supply]]].
             ++ eapply Gb_qt; [apply inv_hupd; [exact I | reflexivity] | exact K2 | exact Q2 | exact Hg].
             ++ apply nc_qt. exact Q2.
             ++ intros o2 E2. injection E2 as <-. split; [exact Hbo|]. split; [eapply hg_qt; eassumption|].
                exists k. split; [|left; split; reflexivity].
                rewrite (hid_qt _ _ o Q2); unfold hid; rewrite Ho; [cbn [option_map]; rewrite Hid; reflexivity | discriminate].
    - pose proof (sf_invalid c s q k o ob cks Hp Ho Hv) as E. rewrite Hid in E.
      assert (Hd : DEL s k).
      { destruct (q_create q).
        - destruct (create_session (fst (cache_delete s k)) q) as [[s2 res2] nck] eqn:Ec.
          apply (Hdel _ _ _ E). left. apply in_or_app. right. left. reflexivity.
        - apply (Hdel _ _ _ E). left. apply in_or_app. right. left. reflexivity. }
      destruct (cdel_Gb _ _ k Hg Hd) as (G1 & N1 & Ed1 & _). rewrite E. pose proof (ed_supply _ _ _ Ed1) as Hsu1.
      destruct (q_create q).
      + rewrite create_session_ff by (eapply inv_ffnd; apply G1).
        destruct (created_Gb _ _ q G1) as (Gb' & N' & H' & Hi' & Hsu'). do 3 eexists. split; [reflexivity|].
        split; [exact Gb'|]. split; [eapply nc_trans; eassumption|]. rewrite Hsu1 in *. split.
        * intros o2 E2. injection E2 as <-. split; [apply (i_b _ _ _ _ _ (proj1 G1))|]. split; [exact H'|]. eexists. split; [exact Hi' | right; right; reflexivity].
        * apply cr_delnew. exact Hsu'.
      + do 3 eexists. split; [reflexivity|]. split; [exact G1|]. split; [exact N1|].
        split; [intros o2 E2; discriminate | apply cr_del; exact Hsu1].
  Qed.

  Lemma start_Gb base s q : Gb base s ->
    (forall k s' res cks, q_cookie q = CKey k -> start s q = (s', res, cks) ->
       In CkDelete cks \/ res = Err EExpiredID -> forall s1, qt s s1 -> Q s1 -> DEL s1 k) ->
    exists s' res cks, start s q = (s', res, cks) /\ Gb base s' /\ nc s s' /\ sres_okb s' res (ck_start q cks) /\
      cr s s' [] cks.
  Proof.
    intros Hg Hdel. pose proof Hg as (I & K & P & Hq). rewrite start_eq in *.
    assert (Hnone : forall s0 pre, Gb base s0 -> nc s s0 -> supply s0 = supply s -> pre = [] \/ pre = [CkDelete] ->
              exists s' res cks, start_none s0 q pre = (s', res, cks) /\ Gb base s' /\ nc s s' /\ sres_okb s' res (ck_start q cks) /\
                cr s s' [] cks).
    { intros s0 pre G0 N0 Hsu Hpre. destruct (start_none_Gb base s0 q pre G0) as (s' & res & cks & E' & Gb' & N' & H' & C').
      exists s', res, cks. split; [exact E'|]. split; [exact Gb'|]. split; [eapply nc_trans; eassumption|]. split.
      - intros o Eo. destruct (H' o Eo) as (Hb' & Hh & k0 & Hk & ->). split; [exact Hb'|]. split; [exact Hh|]. exists k0. split; [exact Hk|].
        destruct Hpre as [-> | ->]; [right; left; reflexivity | right; right; reflexivity].
      - apply (cr_shift s s0 s' pre cks Hsu) in C'. destruct C' as (mid & -> & Hm). exists (pre ++ mid). split; [reflexivity|].
        rewrite flv_app. destruct Hpre as [-> | ->]; exact Hm. }
    destruct (q_cookie q) as [|k|n] eqn:Eq; try (apply Hnone; [exact Hg | apply nc_refl | reflexivity | left; reflexivity]).
    destruct (cache_get_inv _ _ _ _ _ k I) as (s1 & r & E & I1 & Hr).
    destruct (cache_get_qt _ _ _ _ k I K) as (Q1 & K1 & Hobj). rewrite E in *. cbn [fst snd] in *.
    assert (G1 : Gb base s1) by (eapply Gb_qt; eassumption).
    destruct r as [o|].
    - destruct Hr as [Hbo [ob (Ho & _ & _ & _)]]. destruct (Hobj o eq_refl) as (ob' & Ho' & Hid & Hs).
      rewrite Ho in Ho'. injection Ho' as <-. rewrite Ho in *.
      destruct (start_found_Gb base (conf s) s1 q k o ob [] G1 Hbo Ho Hid) as (s' & res & cks & E' & Gb' & N' & H' & C').
      + exists ob. split; [exact Ho | rewrite Hid; exact Hs].
      + intros s' res cks E' Hor. apply (Hdel k s' res cks eq_refl E' Hor s1 Q1). apply G1.
      + exists s', res, cks. split; [exact E'|]. split; [exact Gb'|].
        split; [eapply nc_trans; [apply nc_qt; exact Q1 | exact N']|]. split; [|exact (cr_shift _ _ _ _ _ (qt_supply _ _ Q1) C')].
        intros o2 Eo. destruct (H' o2 Eo) as (Hb' & Hh & k0 & Hk & Hck). split; [exact Hb'|]. split; [exact Hh|]. exists k0. split; [exact Hk|].
        destruct Hck as [[-> ->]|[->| ->]]; [left; split; [reflexivity | exact Eq] | right; left; reflexivity | right; right; reflexivity].
    - apply Hnone; [exact G1 | apply nc_qt; exact Q1 | exact (qt_supply _ _ Q1) | right; reflexivity].
  Qed.

  (* ----------------------------------------------------- handler operations *)

  Lemma regenerate_Gb base s o : Gb base s -> b <= o -> hg s o ->
    exists s', regenerate s o = (s', Ok tt, [CkLive (KGen (supply s))]) /\ Gb base s' /\ nc s s' /\ hg s' o /\
      hid s' o = Some (KGen (supply s)) /\ supply s' = (supply s + 1)%N.
  Proof.
    intros Hg Hbo Hh. pose proof Hh as (ob & Ho & _). pose proof Hg as (I & _).
    rewrite (regenerate_ff _ _ _ (inv_ffnd _ _ _ _ _ I) Ho). eexists. split; [reflexivity|].
    apply regen_Gb; assumption.
  Qed.

  Lemma login_Gb base s o u ex : Gb base s -> b <= o -> hg s o ->
    exists s' n, login s o u ex = (s', Ok tt, [CkLive (KGen n)]) /\ Gb base s' /\ nc s s' /\ hg s' o /\
      hid s' o = Some (KGen n) /\ n = supply s /\ supply s' = (supply s + 1)%N.
  Proof.
    intros Hg Hbo Hh. pose proof Hg as (I & K & P & Hq). pose proof (hg_hokb _ _ _ Hbo Hh) as Hok. unfold login.
    assert (Hpre : exists s1, (if ex then logout_user s (fst u) else let '(s0, _) := logout s o in (s0, Ok tt)) = (s1, Ok tt)
                              /\ inv b base NX ND s1 /\ Kcs s1 /\ qt s s1).
    { destruct ex.
      - destruct (logout_user_inv _ _ _ _ (fst u) I) as (s1 & E & I1 & _).
        destruct (logout_user_qt _ _ _ _ (fst u) I K) as [Q1 K1]. rewrite E in *. cbn [fst] in *.
        exists s1. auto.
      - destruct (logout_inv _ _ _ _ _ I Hok) as (s1 & E & I1 & _).
        destruct (logout_qt s o (i_plan _ _ _ _ _ I) K (hg_sc _ _ Hh)) as [Q1 K1]. rewrite E in *. cbn [fst] in *.
        exists s1. auto. }
    destruct Hpre as (s1 & E1 & I1 & K1 & Q1). rewrite E1.
    assert (H1 : hg s1 o) by (eapply hg_qt; eassumption).
    destruct (hupd_qt s1 o (fun r => set_user r (Some u)) (fun _ => eq_refl) K1) as [Q2 K2].
    set (s2 := hupd s1 o (fun r => set_user r (Some u))) in *.
    assert (I2 : inv b base NX ND s2) by (apply inv_hupd; [exact I1 | reflexivity]).
    assert (H2 : hg s2 o) by (eapply hg_qt; eassumption).
    pose proof H2 as (ob2 & Ho2 & Hr2 & Hs2).
    assert (F2 : ffnd s2) by (eapply inv_ffnd; exact I2).
    rewrite (cache_set_ff _ _ _ F2 Ho2). cbn [negb].
    assert (Hs2' : sref s2 (o_id ob2) = Some (r_ref (o_rec ob2))) by (rewrite Hs2, Hr2; reflexivity).
    destruct (cset_qt _ _ _ _ _ _ _ I2 K2 Ho2 Hs2') as [Q3 K3].
    assert (I3 : inv b base NX ND (cset s2 o ob2)) by (apply inv_cset; [exact I2 | exact Ho2 | exact Hbo | intros []]).
    assert (Q13 : qt s (cset s2 o ob2)) by (eapply qt_trans; [exact Q1|]; eapply qt_trans; eassumption).
    assert (G3 : Gb base (cset s2 o ob2)) by (eapply Gb_qt; eassumption).
    assert (H3 : hg (cset s2 o ob2) o) by (eapply hg_qt; eassumption).
    destruct (regenerate_Gb _ _ _ G3 Hbo H3) as (s' & E' & Gb' & N' & H' & Hi' & Hsu'). rewrite E'.
    exists s'. eexists. split; [reflexivity|]. split; [exact Gb'|].
    split; [eapply nc_trans; [apply nc_qt; exact Q13 | exact N']|]. split; [exact H'|]. split; [exact Hi'|].
    rewrite (qt_supply _ _ Q13) in Hsu'. split; [exact (qt_supply _ _ Q13) | exact Hsu'].
  Qed.

  Lemma do_sop_Gb base s o hc op : Gb base s -> b <= o -> hg s o ->
    (op = SDestroy -> forall ob, hget s o = Some ob -> DEL s (o_id ob)) ->
    exists s' r cks, do_sop s o hc op = (s', r, cks) /\ Gb base s' /\ nc s s' /\ (op <> SDestroy -> hg s' o) /\ nr s' o /\
      (op <> SDestroy -> Forall islive cks) /\ lastl (hid s o) cks = hid s' o /\
      cr s s' [] cks /\ (forall m, In (CkLive (KGen m)) cks -> (supply s <= m)%N).
  Proof.
    intros Hg Hbo Hh Hd. pose proof Hg as (I & K & P & Hq). pose proof Hh as (ob & Ho & Hr & Hs).
    assert (Hp : plan s = []) by apply (i_plan _ _ _ _ _ I).
    (* the common ending of the operations that are quiet and set no cookie *)
    assert (Hquiet : forall s' (r : sres), Gb base s' -> qt s s' ->
              exists s'' r' cks, (s', r, @nil cookie) = (s'', r', cks) /\ Gb base s'' /\ nc s s'' /\ (op <> SDestroy -> hg s'' o) /\
                nr s'' o /\ (op <> SDestroy -> Forall islive cks) /\ lastl (hid s o) cks = hid s'' o /\
                cr s s'' [] cks /\ (forall m, In (CkLive (KGen m)) cks -> (supply s <= m)%N)).
    { intros s' r Gb' Q'. do 3 eexists. split; [reflexivity|]. split; [exact Gb'|]. split; [apply nc_qt; exact Q'|].
      assert (H' : hg s' o) by (eapply hg_qt; eassumption).
      split; [intros _; exact H'|]. split; [apply hg_nr; exact H'|]. split; [intros _; constructor|].
      split; [cbn [lastl fold_left]; symmetry; apply hid_qt; [exact Q'|]; unfold hid; rewrite Ho; discriminate|].
      split; [apply cr_same; exact (qt_supply _ _ Q') | intros m []]. }
    assert (Hupd : forall f, (forall r, r_ref (f r) = r_ref r) ->
               Gb base (hupd s o f) /\ qt s (hupd s o f) /\ hg (hupd s o f) o).
    { intros f Hf. destruct (hupd_qt s o f Hf K) as [Q1 K1].
      split; [eapply Gb_qt; [apply inv_hupd; assumption | exact K1 | exact Q1 | exact Hg]|].
      split; [exact Q1 | eapply hg_qt; eassumption]. }
    assert (Hsave : forall s1, Gb base s1 -> qt s s1 -> hg s1 o ->
               exists s', save_direct s1 o = (s', Ok tt) /\ Gb base s' /\ qt s s').
    { intros s1 G1 Q1 H1. pose proof G1 as (I1 & K1 & _).
      destruct (save_direct_inv _ _ _ _ _ I1 (hg_hokb _ _ _ Hbo H1)) as (s' & E & I' & _).
      destruct (save_direct_qt s1 o (i_plan _ _ _ _ _ I1) K1 (hg_sc _ _ H1)) as [Q2 K2]. rewrite E in *. cbn [fst] in *.
      exists s'. split; [reflexivity|]. split; [eapply Gb_qt; eassumption | eapply qt_trans; eassumption]. }
    destruct op as [k v|k|k|k|u ex| | |]; cbn [do_sop].
    - unfold data_of. rewrite Ho. destruct (r_data (o_rec ob)) as [d|].
      + destruct (Hupd (fun r => set_data r (Some (kv_set d k v))) (fun _ => eq_refl)) as (G1 & Q1 & H1).
        destruct (Hsave _ G1 Q1 H1) as (s' & E & Gb' & Q'). rewrite E. apply Hquiet; assumption.
      + apply Hquiet; [exact Hg | apply qt_refl].
    - unfold data_of. rewrite Ho.
      assert (Hx : exists s1, (match r_data (o_rec ob) with
                               | Some d => hupd s o (fun r => set_data r (Some (kv_del d k)))
                               | None => s end) = s1 /\ Gb base s1 /\ qt s s1 /\ hg s1 o).
      { destruct (r_data (o_rec ob)) as [d|].
        - destruct (Hupd (fun r => set_data r (Some (kv_del d k))) (fun _ => eq_refl)) as (G1 & Q1 & H1).
          eexists. split; [reflexivity|]. auto.
        - exists s. split; [reflexivity|]. split; [exact Hg|]. split; [apply qt_refl | exact Hh]. }
      destruct Hx as (s1 & -> & G1 & Q1 & H1).
      destruct (Hsave _ G1 Q1 H1) as (s' & E & Gb' & Q'). rewrite E. apply Hquiet; assumption.
    - apply Hquiet; [exact Hg | apply qt_refl].
    - unfold data_of. rewrite Ho. destruct (r_data (o_rec ob)) as [d|].
      + destruct (kv_get d k).
        * destruct (Hupd (fun r => set_data r (Some (kv_del d k))) (fun _ => eq_refl)) as (G1 & Q1 & H1).
          destruct (Hsave _ G1 Q1 H1) as (s' & E & Gb' & Q'). rewrite E. apply Hquiet; assumption.
        * apply Hquiet; [exact Hg | apply qt_refl].
      + apply Hquiet; [exact Hg | apply qt_refl].
    - destruct (login_Gb _ _ _ u ex Hg Hbo Hh) as (s' & n & E & Gb' & N' & H' & Hi' & -> & Hsu'). rewrite E.
      do 3 eexists. split; [reflexivity|]. split; [exact Gb'|]. split; [exact N'|]. split; [intros _; exact H'|].
      split; [apply hg_nr; exact H'|]. split; [intros _; repeat constructor|]. split; [rewrite Hi'; reflexivity|].
      split; [apply (cr_new s s' []); exact Hsu' | intros m [Em|[]]; injection Em as <-; lia].
    - destruct (logout_inv _ _ _ _ _ I (hg_hokb _ _ _ Hbo Hh)) as (s' & E & I' & _).
      destruct (logout_qt s o Hp K (hg_sc _ _ Hh)) as [Q1 K1]. rewrite E in *. cbn [fst] in *.
      apply Hquiet; [eapply Gb_qt; eassumption | exact Q1].
    - destruct (regenerate_Gb _ _ _ Hg Hbo Hh) as (s' & E & Gb' & N' & H' & Hi' & Hsu'). rewrite E.
      do 3 eexists. split; [reflexivity|]. split; [exact Gb'|]. split; [exact N'|]. split; [intros _; exact H'|].
      split; [apply hg_nr; exact H'|]. split; [intros _; repeat constructor|]. split; [rewrite Hi'; reflexivity|].
      split; [apply (cr_new s s' []); exact Hsu' | intros m [Em|[]]; injection Em as <-; lia].
    - rewrite (destroy_ff _ _ _ _ Hp Ho).
      destruct (cdel_Gb _ _ (o_id ob) Hg (Hd eq_refl ob Ho)) as (Gb' & N' & Ed & Hheap).
      do 3 eexists. split; [reflexivity|]. split; [exact Gb'|]. split; [exact N'|]. split; [intros Hne; contradiction|].
      split; [eapply nr_heap; [exact Hheap | apply hg_nr; exact Hh]|]. split; [intros Hne; contradiction|].
      split; [cbn [lastl fold_left]; symmetry; apply hid_heap; exact Hheap|].
      split; [apply (cr_del s _ []); exact (ed_supply _ _ _ Ed) | intros m [Em|[]]; discriminate].
  Qed.

  (* ---------------------------------------------------------------- scripts *)

  Definition dpermb (o : nat) (ops : list sop) : Prop :=
    In SDestroy ops -> forall s ob, Q s -> hget s o = Some ob -> sref s (o_id ob) = Some None -> DEL s (o_id ob).

  Lemma run_script_Gb base hc : forall ops s o, Gb base s -> b <= o -> hg s o -> FOK (now s) -> dpermb o ops ->
    exists s' rs cks, run_script s o hc ops = (s', rs, cks) /\ Gb base s' /\ nc s s' /\
      (~ In SDestroy (firstn (length rs) ops) -> hg s' o /\ Forall islive cks) /\ nr s' o /\
      lastl (hid s o) cks = hid s' o /\
      (exists c, supply s' = (supply s + N.of_nat c)%N /\ flv (supply s) cks = nseq (supply s) c) /\
      (forall m, In (CkLive (KGen m)) cks -> (supply s <= m)%N).
  Proof.
    induction ops as [|op t IH]; intros s o Hg Hbo Hh Hf Hd; cbn [run_script].
    - do 3 eexists. split; [reflexivity|]. split; [exact Hg|]. split; [apply nc_refl|].
      split; [intros _; split; [exact Hh | constructor]|]. split; [apply hg_nr; exact Hh|]. split; [reflexivity|].
      split; [exists 0; split; [cbn [N.of_nat]; lia | reflexivity] | intros m []].
    - destruct (do_sop_Gb base s o hc op Hg Hbo Hh) as (s1 & r & cks & E & G1 & N1 & H1 & R1 & L1 & C1 & D1 & M1).
      { intros -> ob Ho. destruct Hh as (ob' & Ho' & _ & Hs). rewrite Ho in Ho'. injection Ho' as <-.
        apply (Hd (or_introl eq_refl) s ob); [apply Hg | exact Ho | exact Hs]. }
      rewrite E. destruct N1 as [Nn Nc].
      destruct (fire_due_Gb _ _ G1) as (G2 & N2 & H2 & Ef); [rewrite Nn; exact Hf|].
      assert (D2 : exists c, supply (fire_due s1) = (supply s + N.of_nat c)%N /\ flv (supply s) cks = nseq (supply s) c).
      { rewrite (ef_supply _ _ Ef). destruct D1 as (mid & -> & [[A B]|[A B]]); cbn [app].
        - exists 0. split; [cbn [N.of_nat]; lia | exact B].
        - exists 1. split; [cbn [N.of_nat]; lia | exact B]. }
      assert (Hheap : heap (fire_due s1) = heap s1) by (destruct G1 as (I1 & _); apply (HistInv3.fire_due_inv _ _ _ _ I1)).
      assert (R2 : nr (fire_due s1) o) by (eapply nr_heap; eassumption).
      assert (C2 : lastl (hid s o) cks = hid (fire_due s1) o) by (rewrite (hid_heap _ _ o Hheap); exact C1).
      assert (N12 : nc s (fire_due s1)) by (eapply nc_trans; [split; eassumption | exact N2]).
      match goal with |- context [if ?c then _ else _] => destruct c eqn:Estop end.
      + do 3 eexists. split; [reflexivity|]. split; [exact G2|]. split; [exact N12|].
        split; [|split; [exact R2 | split; [exact C2 | split; [exact D2 | exact M1]]]]. cbn [length firstn]. intro Hn.
        assert (Hop : op <> SDestroy) by (intros ->; apply Hn; left; reflexivity).
        split; [apply H2; apply H1; exact Hop | apply L1; exact Hop].
      + assert (Hop : op <> SDestroy) by (intros ->; discriminate).
        destruct (IH (fire_due s1) o G2 Hbo (H2 o (H1 Hop))) as (s' & rs & cks' & E' & Gb' & N' & H' & R' & C' & D' & M').
        { destruct N12 as [-> _]. exact Hf. }
        { intros Hin. apply Hd. right. exact Hin. }
        rewrite E'. do 3 eexists. split; [reflexivity|]. split; [exact Gb'|].
        split; [eapply nc_trans; eassumption|]. split; [|split; [exact R'|split; [|split]]].
        * cbn [length firstn]. intro Hn. destruct H' as [Hh' Hl']; [intro Hin; apply Hn; right; exact Hin|].
          split; [exact Hh' | apply Forall_app; split; [apply L1; exact Hop | exact Hl']].
        * rewrite lastl_app, C2. exact C'.
        * destruct D2 as (c1 & S1 & F1). destruct D' as (c2 & S2 & F2). exists (c1 + c2). split; [rewrite S2, S1; lia|].
          rewrite flv_app, nseq_app, F1. f_equal. rewrite <- S1, <- F2. apply flv_ge; [lia | exact M'].
        * intros m Hin. apply in_app_or in Hin. destruct Hin as [Hin|Hin]; [exact (M1 m Hin)|].
          pose proof (M' m Hin). destruct D2 as (c1 & S1 & _). lia.
  Qed.

  (* ----------------------------------------------------------- request body *)

  Lemma req_body_Gb base s q script : Gb base s -> FOK (now s) ->
    (forall k s' res cks, q_cookie q = CKey k -> start s q = (s', res, cks) ->
       In CkDelete cks \/ res = Err EExpiredID -> forall s1, qt s s1 -> Q s1 -> DEL s1 k) ->
    (forall o, dpermb o script) ->
    exists s3 rc st0 sr fin cks, req_body s q script = (s3, rc, st0, sr, fin, cks) /\ Gb base s3 /\ nc s s3 /\
      (forall k r, st0 = Some (k, r) -> r_ref r = None) /\ (forall k r, fin = Some (k, r) -> r_ref r = None).
  Proof.
    intros Hg Hf Hdel Hdp. unfold req_body.
    destruct (start_Gb base s q Hg Hdel) as (s2 & res & cks & E & G2 & N2 & H2 & _). rewrite E.
    destruct (fire_due_Gb _ _ G2) as (G3 & N3 & H3 & _); [destruct N2 as [-> _]; exact Hf|].
    assert (N23 : nc s (fire_due s2)) by (eapply nc_trans; eassumption).
    destruct res as [[o|]|e|e].
    - destruct (run_script_Gb base (had_cookie q) script (fire_due s2) o G3 (proj1 (H2 o eq_refl)) (H3 o (proj1 (proj2 (H2 o eq_refl))))) as (s3 & rs & cks' & E' & Gb' & N' & _ & R' & _ & _ & _).
      { destruct N23 as [-> _]. exact Hf. }
      { apply Hdp. }
      cbv zeta. rewrite E'. do 6 eexists. split; [reflexivity|]. split; [exact Gb'|]. split; [eapply nc_trans; eassumption|].
      split; intros k r Hv; unfold handle_view in Hv.
      + destruct (hg_nr _ _ (H3 o (proj1 (proj2 (H2 o eq_refl))))) as (ob & Ho & Hr). rewrite Ho in Hv. injection Hv as _ <-. exact Hr.
      + destruct R' as (ob & Ho & Hr). rewrite Ho in Hv. injection Hv as _ <-. exact Hr.
    - do 6 eexists. split; [reflexivity|]. split; [assumption|]. split; [assumption|]. split; intros; discriminate.
    - do 6 eexists. split; [reflexivity|]. split; [assumption|]. split; [assumption|]. split; intros; discriminate.
    - do 6 eexists. split; [reflexivity|]. split; [assumption|]. split; [assumption|]. split; intros; discriminate.
  Qed.
  (* ------------------------------------------------------------ whole steps *)

  (* the invariant between steps (the event log is cut at every step) *)
  Definition GWb (s : st) : Prop := winv b ND s /\ Kcs s /\ PRs s /\ Q s.

  Lemma GWb_Gb s pl t : GWb s -> pl = [] -> Gb (supply s, []) (set_tb (set_plan (set_evs s []) pl) t).
  Proof.
    intros (W & K & P & Hq) ->. split; [apply inv_of_winv; exact W|].
    assert (Qt : qt s (set_tb (set_plan (set_evs s []) []) t)) by (apply qt_same; reflexivity).
    split; [eapply Kcs_same; [| | |exact K]; reflexivity|]. split; [eapply PRs_qt; eassumption | eapply Q_qt; eassumption].
  Qed.

  Lemma Gb_GWb base s t : Gb base s -> GWb (set_tb (set_plan s []) t).
  Proof.
    intros (I & K & P & Hq). split; [eapply winv_of_inv; exact I|].
    assert (Qt : qt s (set_tb (set_plan s []) t)) by (apply qt_same; reflexivity).
    split; [eapply Kcs_same; [| | |exact K]; reflexivity|]. split; [eapply PRs_qt; eassumption | eapply Q_qt; eassumption].
  Qed.

  Lemma Gb_GWbp base s : Gb base s -> GWb s.
  Proof. intros (I & K & P & Hq). split; [eapply winv_of_inv'; exact I | auto]. Qed.


  Lemma step_req_GWb w r : GWb (w_st w) -> rq_plan r = [] -> rq_crash r = None -> FOK (now (w_st w)) ->
    (forall k s' res cks, presents w r = CKey k -> start (pre_of w r) (req_of w r) = (s', res, cks) ->
       In CkDelete cks \/ res = Err EExpiredID -> forall s1, qt (pre_of w r) s1 -> Q s1 -> DEL s1 k) ->
    (forall o, dpermb o (rq_script r)) ->
    GWb (w_st (fst (step w (HReq r)))) /\ nc (w_st w) (w_st (fst (step w (HReq r)))) /\
    (forall k rc, ob_start (snd (step w (HReq r))) = Some (k, rc) -> r_ref rc = None) /\
    (forall k rc, ob_final (snd (step w (HReq r))) = Some (k, rc) -> r_ref rc = None).
  Proof.
    intros Hw Hpl Hcr Hf Hdel Hdp. rewrite step_req_eq. cbv zeta.
    change (match rq_present r with PJar => jar_of (w_jars w) (rq_client r) | PForge c => c end) with (presents w r).
    change (mkReq (presents w r) (rq_create r) (rq_addr r) (rq_ua r)) with (req_of w r).
    change (set_tb (set_plan (set_evs (w_st w) []) (rq_plan r)) (rq_tb r)) with (pre_of w r).
    pose proof (GWb_Gb (w_st w) (rq_plan r) (rq_tb r) Hw Hpl) as G1. fold (pre_of w r) in G1.
    destruct (req_body_Gb _ (pre_of w r) (req_of w r) (rq_script r) G1 Hf Hdel Hdp) as (s3 & rc & st0 & sr & fin & cks & E & G3 & N3 & Hst & Hfin).
    rewrite E, Hcr. cbn [fst snd w_st mk_obs ob_start ob_final]. split; [eapply Gb_GWb; exact G3|]. split; [exact N3|]. split; assumption.
  Qed.


  Lemma step_gen_GWb w h : GWb (w_st w) -> ff_hop h -> gen_hop h -> FOK (now (w_st w)) ->
    GWb (w_st (fst (step w h))) /\ nc (w_st w) (w_st (fst (step w h))).
  Proof.
    intros Hw Hff Hgen Hf. destruct h as [r|d|tbl pl| | |u tbl pl|u tbl pl|c]; cbn [gen_hop ff_hop] in *; try contradiction.
    - subst pl. cbn [step fst w_st].
      pose proof (GWb_Gb (w_st w) [] tbl Hw eq_refl) as G1. pose proof G1 as (I1 & K1 & _).
      destruct (purge_qt _ (inv_ffnd _ _ _ _ _ I1) K1) as [Q2 K2].
      assert (G2 : Gb (supply (w_st w), []) (purge (set_tb (set_plan (set_evs (w_st w) []) []) tbl))).
      { eapply Gb_qt; [apply inv_purge; exact I1 | exact K2 | exact Q2 | exact G1]. }
      split; [eapply Gb_GWb; exact G2|].
      split; cbn [now conf set_tb set_plan]; [rewrite (qt_now _ _ Q2) | rewrite (qt_conf _ _ Q2)]; reflexivity.
    - cbn [step fst w_st]. pose proof (GWb_Gb (w_st w) [] [] Hw eq_refl) as G1. pose proof G1 as (I1 & K1 & _).
      assert (Qt : qt (w_st w) (set_cache (set_evs (w_st w) []) [])) by (apply qt_same; reflexivity).
      destruct Hw as (W & K & P & Hq).
      split; [|apply nc_qt; exact Qt]. split; [|split; [|split; [eapply PRs_qt; eassumption | eapply Q_qt; eassumption]]].
      + eapply winv_of_inv'. apply inv_set_cache_nil. exact W.
      + intros k o ob Hl. discriminate.
    - subst pl. cbn [step].
      pose proof (GWb_Gb (w_st w) [] tbl Hw eq_refl) as G1. pose proof G1 as (I1 & K1 & _).
      destruct (logout_user_inv _ _ _ _ u I1) as (s1 & E & I2 & _).
      destruct (logout_user_qt _ _ _ _ u I1 K1) as [Q2 K2]. rewrite E in *. cbn [fst snd w_st] in *.
      assert (G2 : Gb (supply (w_st w), []) s1) by (eapply Gb_qt; eassumption).
      assert (G3' : Gb (supply (w_st w), []) (set_tb (set_plan s1 []) [])).
      { pose proof G2 as (I & K & P & Hq). assert (Qt : qt s1 (set_tb (set_plan s1 []) [])) by (apply qt_same; reflexivity).
        eapply Gb_qt; [apply inv_set_tb; apply inv_set_plan_nil; exact I | eapply Kcs_same; [| | |exact K]; reflexivity | exact Qt | exact G2]. }
      destruct (fire_due_Gb _ _ G3') as (G4 & N4 & _); [cbn [now set_tb set_plan]; rewrite (qt_now _ _ Q2); exact Hf|].
      split; [eapply Gb_GWbp; exact G4|]. destruct N4 as [Nn Nc].
      split; [rewrite Nn | rewrite Nc]; cbn [now conf set_tb set_plan]; [rewrite (qt_now _ _ Q2) | rewrite (qt_conf _ _ Q2)]; reflexivity.
    - subst pl. cbn [step].
      pose proof (GWb_Gb (w_st w) [] tbl Hw eq_refl) as G1. pose proof G1 as (I1 & K1 & _).
      destruct (refresh_user_inv _ _ _ _ u I1) as (s1 & E & I2 & _).
      destruct (refresh_user_qt _ _ _ _ u I1 K1) as [Q2 K2]. rewrite E in *. cbn [fst snd w_st] in *.
      assert (G2 : Gb (supply (w_st w), []) s1) by (eapply Gb_qt; eassumption).
      assert (G3' : Gb (supply (w_st w), []) (set_tb (set_plan s1 []) [])).
      { pose proof G2 as (I & K & P & Hq). assert (Qt : qt s1 (set_tb (set_plan s1 []) [])) by (apply qt_same; reflexivity).
        eapply Gb_qt; [apply inv_set_tb; apply inv_set_plan_nil; exact I | eapply Kcs_same; [| | |exact K]; reflexivity | exact Qt | exact G2]. }
      destruct (fire_due_Gb _ _ G3') as (G4 & N4 & _); [cbn [now set_tb set_plan]; rewrite (qt_now _ _ Q2); exact Hf|].
      split; [eapply Gb_GWbp; exact G4|]. destruct N4 as [Nn Nc].
      split; [rewrite Nn | rewrite Nc]; cbn [now conf set_tb set_plan]; [rewrite (qt_now _ _ Q2) | rewrite (qt_conf _ _ Q2)]; reflexivity.
  Qed.
End RiderB.
