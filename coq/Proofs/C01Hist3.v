(* C01, history level, part 3: LogOut(userID) removes the user from exactly the
   sessions that carry it (write-through makes the store's user index exact for
   live sessions; deleted IDs it still lists resolve to nothing); RefreshUser
   changes no view; LogOut, LogIn and the clean-up pass. *)
From Sessions Require Import Model.Base Model.Sess Model.Hist Model.Corr Proofs.SessDefs
  Proofs.WriteThrough Proofs.WriteThrough2 Proofs.WriteThrough3 Proofs.WriteThrough4
  Proofs.RotateLaws Proofs.RotateLaws2 Proofs.RotateLaws3 Proofs.RotateLaws5 Proofs.RotateLaws6
  Proofs.C01Spec Proofs.C01Hist Proofs.C01Hist2.
From Coq Require Import Lia.

(* the view after a user-wide logout of u *)
Definition dropu (u : N) (v : option vw) : option vw :=
  option_map (fun w : vw => match snd (snd w) with
                            | Some x => if N.eqb u x then (fst w, (fst (snd w), None)) else w
                            | None => w
                            end) v.

(* what UserSessions(u) returns *)
Definition listed (s : st) (u : N) : list key :=
  map fst (filter (fun kg : key * option N => match snd kg with Some v => N.eqb u v | None => false end) (graves s)) ++
  map fst (filter (fun kr => user_is u (r_user (snd kr))) (store s)).

Lemma p_usersessions_listed s u : plan s = [] ->
  p_usersessions s u = (log s (EvUserSessions u true), Some (listed s u)).
Proof. intro H. unfold p_usersessions, next_fault. rewrite H. reflexivity. Qed.

Lemma user_is_content u r : user_is u (r_user r) = true <-> snd (content_of r) = Some u.
Proof.
  unfold user_is, content_of. destruct (r_user r) as [[v w]|]; cbn; split; intro H; try discriminate.
  - apply N.eqb_eq in H. congruence.
  - injection H as ->. apply N.eqb_refl.
Qed.

(* a listed ID resolves to nothing or carries u; an ID carrying u is listed *)
Lemma listed_sound s u k : Inv noex s -> GR s -> In k (listed s u) ->
  view s k = None \/ exists rf d, view s k = Some (rf, (d, Some u)).
Proof.
  intros HI (G & _ & Hnd) Hin. unfold listed in Hin. apply in_app_or in Hin. destruct Hin as [Hin|Hin].
  - left. apply in_map_iff in Hin. destruct Hin as ([k' x] & <- & Hf). apply filter_In in Hf.
    apply (G k' x (proj1 Hf)).
  - right. apply in_map_iff in Hin. destruct Hin as ([k' r] & <- & Hf). apply filter_In in Hf.
    destruct Hf as [Hf Hu]. cbn [fst snd] in *.
    rewrite (view_store s k' HI), (In_lookup_nodup _ _ _ Hnd Hf). cbn [option_map].
    apply user_is_content in Hu. exists (r_ref r), (fst (content_of r)). unfold cont.
    rewrite <- Hu. rewrite <- surjective_pairing. reflexivity.
Qed.

Lemma listed_complete s u k rf d : Inv noex s -> view s k = Some (rf, (d, Some u)) -> In k (listed s u).
Proof.
  intros HI Hv. rewrite (view_store s k HI) in Hv.
  destruct (lookup (store s) k) as [r|] eqn:Es; [|discriminate]. cbn [option_map] in Hv.
  assert (Hc : content_of r = (d, Some u)) by (unfold cont in Hv; congruence).
  unfold listed. apply in_or_app. right. apply in_map_iff. exists (k, r). split; [reflexivity|].
  apply filter_In. split; [apply lookup_In; exact Es|]. cbn [snd]. apply user_is_content. rewrite Hc. reflexivity.
Qed.

Lemma Inv_ready s : Inv noex s -> ready s.
Proof.
  intro HI. constructor.
  - apply (inv_plan _ _ HI).
  - apply Inv_cache_ok. exact HI.
  - apply (inv_nodup _ _ HI).
  - unfold next_free, L. rewrite (Inv_next_uncached s HI). apply Inv_next_unstored. exact HI.
Qed.

(* objects keep ID, reference and data *)
Definition osim (s s' : st) : Prop :=
  forall o ob, hget s o = Some ob -> exists ob', hget s' o = Some ob' /\
    o_id ob' = o_id ob /\ r_ref (o_rec ob') = r_ref (o_rec ob) /\ r_data (o_rec ob') = r_data (o_rec ob).

Lemma calm_osim s s' : calm s s' -> osim s s'.
Proof.
  intros C o ob Hg. destruct (ca_objs _ _ C o ob Hg) as (ob' & Hg' & Hid & _ & _ & _ & Hrf & Hda).
  exists ob'. split; [exact Hg'|]. repeat split; congruence.
Qed.

Lemma logout_user_eff s u : Inv noex s -> GR s ->
  exists s', logout_user s u = (s', Ok tt) /\ Inv noex s' /\ GR s' /\
    (forall k, view s' k = dropu u (view s k)) /\ osim s s' /\
    pending s' = pending s /\ conf s' = conf s /\ supply s' = supply s /\ now s' = now s.
Proof.
  intros HI HG. destruct (logout_user_calm s u (Inv_ready s HI)) as (s0 & Hs0 & HC).
  revert Hs0. unfold logout_user. rewrite (p_usersessions_listed s u (inv_plan _ _ HI)).
  set (s1 := log s (EvUserSessions u true)).
  assert (Hcore : WriteThrough.core s = WriteThrough.core s1) by reflexivity.
  assert (HI1 : Inv noex s1) by (apply (Inv_core noex s s1 Hcore HI)).
  assert (HG1 : GR s1) by (apply (GR_core s s1 Hcore); auto).
  destruct (eus_eff (listed s u) s1 None HI1 HG1) as (s' & Hs & HI' & HG' & Hin & Hout & Fpe & Fc & Fu & Fn).
  rewrite Hs. intros [= <-]. exists s'. split; [reflexivity|]. split; [exact HI'|]. split; [exact HG'|].
  split; [|split; [apply calm_osim; exact HC | repeat split; assumption]].
  intro k. destruct (in_dec key_eq_dec k (listed s u)) as [Hk|Hk].
  - rewrite (Hin k Hk), (view_core s s1 k Hcore).
    destruct (listed_sound s u k HI HG Hk) as [->|(rf & d & ->)]; [reflexivity|].
    cbn. rewrite N.eqb_refl. reflexivity.
  - rewrite (Hout k Hk), (view_core s s1 k Hcore).
    destruct (view s k) as [[rf [d [x|]]]|] eqn:Ev; try reflexivity.
    cbn. destruct (N.eqb u x) eqn:E; [|reflexivity]. apply N.eqb_eq in E. subst x.
    exfalso. apply Hk. apply (listed_complete s u k rf d HI Ev).
Qed.

Lemma refresh_user_eff s u : Inv noex s -> GR s ->
  exists s', refresh_user s u = (s', Ok tt) /\ Inv noex s' /\ GR s' /\
    (forall k, view s' k = view s k) /\
    pending s' = pending s /\ conf s' = conf s /\ supply s' = supply s /\ now s' = now s.
Proof.
  intros HI HG. unfold refresh_user. rewrite (p_usersessions_listed s (fst u) (inv_plan _ _ HI)).
  set (s1 := log s (EvUserSessions (fst u) true)).
  assert (Hcore : WriteThrough.core s = WriteThrough.core s1) by reflexivity.
  assert (HI1 : Inv noex s1) by (apply (Inv_core noex s s1 Hcore HI)).
  assert (HG1 : GR s1) by (apply (GR_core s s1 Hcore); auto).
  destruct (eus_eff (listed s (fst u)) s1 (Some u) HI1 HG1) as (s' & Hs & HI' & HG' & Hin & Hout & Fpe & Fc & Fu & Fn).
  exists s'. split; [exact Hs|]. split; [exact HI'|]. split; [exact HG'|].
  split; [|repeat split; assumption].
  intro k. destruct (in_dec key_eq_dec k (listed s (fst u))) as [Hk|Hk].
  - rewrite (Hin k Hk), (view_core s s1 k Hcore).
    destruct (listed_sound s (fst u) k HI HG Hk) as [->|(rf & d & ->)]; [reflexivity|].
    destruct u as [x y]. reflexivity.
  - rewrite (Hout k Hk). apply view_core. exact Hcore.
Qed.

(* ---------------------------------------------------------------- LogOut *)

Lemma logout_eff s o ob :
  Inv noex s -> GR s -> Held s o -> hget s o = Some ob ->
  exists s' ob', logout s o = (s', Ok tt) /\ Inv noex s' /\ GR s' /\ Held s' o /\
    hget s' o = Some ob' /\ o_id ob' = o_id ob /\
    cont (o_rec ob') = (r_ref (o_rec ob), (fst (content_of (o_rec ob)), None)) /\
    (forall k, k <> o_id ob -> view s' k = view s k) /\
    pending s' = pending s /\ conf s' = conf s /\ supply s' = supply s /\ now s' = now s.
Proof.
  intros HI HG HH Hg. unfold logout. rewrite Hg. destruct (r_user (o_rec ob)) as [x|] eqn:Eu.
  - destruct (modify_save_eff s o ob (fun r => set_user r None) HI HG HH Hg)
      as (s' & Hs & HI' & HG' & HH' & Hg' & Hv & Fr).
    exists s'. eexists. split; [exact Hs|]. split; [exact HI'|]. split; [exact HG'|]. split; [exact HH'|].
    split; [exact Hg'|]. split; [reflexivity|]. split; [|split; [exact Hv | exact Fr]].
    cbn [o_rec]. rewrite cont_set_user. reflexivity.
  - exists s, ob. split; [reflexivity|]. split; [exact HI|]. split; [exact HG|]. split; [exact HH|].
    split; [exact Hg|]. split; [reflexivity|]. split; [|split; [reflexivity | repeat split; reflexivity]].
    unfold cont, content_of. rewrite Eu. reflexivity.
Qed.

(* ----------------------------------------------------------------- LogIn *)

(* the tail of LogIn: attach the user, cache.Set, RegenerateID *)
Lemma attach_regen_eff s o ob u :
  Inv noex s -> GR s -> hget s o = Some ob -> view s (o_id ob) <> None ->
  let s2 := hupd s o (fun r => set_user r (Some u)) in
  exists s3 s4, cache_set s2 o = (s3, true) /\
    regenerate s3 o = (s4, Ok tt, [CkLive (KGen (supply s))]) /\
    Inv noex s4 /\ GR s4 /\ Held s4 o /\
    (exists ob', hget s4 o = Some ob' /\ o_id ob' = KGen (supply s) /\
       cont (o_rec ob') = (r_ref (o_rec ob), (fst (content_of (o_rec ob)), Some (fst u)))) /\
    (forall k, k <> o_id ob -> k <> KGen (supply s) -> view s4 k = view s k) /\
    view s4 (o_id ob) = Some (ref_view (KGen (supply s))) /\
    pending s4 = pending s ++ [((now s + c_grace (conf s))%Z, o_id ob)] /\
    conf s4 = conf s /\ supply s4 = (supply s + 1)%N /\ now s4 = now s.
Proof.
  intros HI HG Hg Hal. cbv zeta.
  pose proof (hupd_Inv noex s o ob (fun r => set_user r (Some u)) HI Hg) as HI2.
  pose proof (hget_hupd_same s o ob (fun r => set_user r (Some u)) Hg) as Hg2.
  set (s2 := hupd s o (fun r => set_user r (Some u))) in *.
  destruct (cache_set_spec _ _ o _ HI2 Hg2) as (s3 & Hs3 & HI3 & HH3 & Hg3 & _).
  destruct (cache_set_view s2 o _ (inv_plan _ _ HI2) (inv_nodup _ _ HI2) (InvE_cache_heap _ s2 HI2) Hg2)
    as (_ & Hvk & Hvo & Fpe & Fg & Fu & Fc & Fn & Fnd).
  rewrite Hs3 in *. cbn [fst o_id o_rec] in *.
  assert (HI3' : Inv noex s3).
  { eapply Inv_weaken; [|exact HI3]. cbn [o_id]. intros k' [[[]|H1] H2]. contradiction. }
  assert (Hf2 : pending s2 = pending s /\ graves s2 = graves s /\ supply s2 = supply s /\
                conf s2 = conf s /\ now s2 = now s /\ store s2 = store s).
  { unfold s2. rewrite (hupd_eq _ _ _ _ Hg). repeat split; reflexivity. }
  destruct Hf2 as (F1 & F2 & F3 & F4 & F5 & F6).
  assert (Hv3 : forall k, k <> o_id ob -> view s3 k = view s k).
  { intros k Hne. rewrite (Hvk k Hne). unfold s2. apply hupd_view_other. intro Hck.
    apply Hne. symmetry. apply (Inv_cached_id s k o ob HI Hck Hg). }
  assert (HG3 : GR s3).
  { apply (GR_pres s s3 (fun k => k = o_id ob) HG).
    - congruence.
    - intros d k. rewrite Fpe, F1. auto.
    - rewrite Fu, F3. lia.
    - exact Hv3.
    - intros k x ->. apply GR_alive; assumption.
    - apply Fnd. rewrite F6. apply HG. }
  destruct (regenerate_eff s3 o _ HI3' HG3 HH3 Hg3)
    as (s4 & Hs4 & HI4 & HG4 & HH4 & (ob4 & Hg4 & Hid4 & Hc4) & Hvk4 & Hvo4 & Rpe & Rc & Ru & Rn).
  cbn [o_id o_rec] in *.
  assert (Eu : supply s3 = supply s) by congruence. rewrite Eu in *.
  exists s3, s4. split; [reflexivity|]. split; [exact Hs4|]. split; [exact HI4|]. split; [exact HG4|].
  split; [exact HH4|]. split; [|split; [|split; [exact Hvo4|]]].
  - exists ob4. split; [exact Hg4|]. split; [exact Hid4|]. rewrite Hc4, cont_set_access, cont_set_user.
    destruct u; reflexivity.
  - intros k H1 H2. rewrite (Hvk4 k H1 H2). apply Hv3. exact H1.
  - repeat split; try congruence. all: rewrite Rpe, Fpe, F1; repeat f_equal; congruence.
Qed.

Lemma login_eff s o ob u ex :
  Inv noex s -> GR s -> Held s o -> hget s o = Some ob ->
  exists s', login s o u ex = (s', Ok tt, [CkLive (KGen (supply s))]) /\
    Inv noex s' /\ GR s' /\ Held s' o /\
    (exists ob', hget s' o = Some ob' /\ o_id ob' = KGen (supply s) /\
       cont (o_rec ob') = (r_ref (o_rec ob), (fst (content_of (o_rec ob)), Some (fst u)))) /\
    (forall k, k <> o_id ob -> k <> KGen (supply s) ->
       view s' k = if ex then dropu (fst u) (view s k) else view s k) /\
    view s' (o_id ob) = Some (ref_view (KGen (supply s))) /\
    pending s' = pending s ++ [((now s + c_grace (conf s))%Z, o_id ob)] /\
    conf s' = conf s /\ supply s' = (supply s + 1)%N /\ now s' = now s.
Proof.
  intros HI HG HH Hg. unfold login.
  assert (Hal : view s (o_id ob) <> None) by (rewrite (Held_view s o ob HH Hg); discriminate).
  destruct ex.
  - destruct (logout_user_eff s (fst u) HI HG) as (s1 & Hs1 & HI1 & HG1 & Hv1 & Ho1 & Fpe & Fc & Fu & Fn).
    rewrite Hs1. destruct (Ho1 o ob Hg) as (ob1 & Hg1 & Hid1 & Hrf1 & Hda1).
    assert (Hal1 : view s1 (o_id ob1) <> None).
    { rewrite Hid1, Hv1. destruct (view s (o_id ob)); [discriminate | contradiction]. }
    destruct (attach_regen_eff s1 o ob1 u HI1 HG1 Hg1 Hal1)
      as (s3 & s4 & Hs3 & Hs4 & HI4 & HG4 & HH4 & (ob4 & Hg4 & Hid4 & Hc4) & Hvk4 & Hvo4 & Rpe & Rc & Ru & Rn).
    rewrite Hs3. cbn [negb]. rewrite Hs4. rewrite Fu in *. rewrite Hid1 in *.
    exists s4. split; [reflexivity|]. split; [exact HI4|]. split; [exact HG4|]. split; [exact HH4|].
    split; [|split; [|split; [exact Hvo4|]]].
    + exists ob4. split; [exact Hg4|]. split; [exact Hid4|]. rewrite Hc4. unfold content_of.
      rewrite Hrf1, Hda1. reflexivity.
    + intros k H1 H2. rewrite (Hvk4 k H1 H2). apply Hv1.
    + repeat split; congruence.
  - destruct (logout_eff s o ob HI HG HH Hg)
      as (s1 & ob1 & Hs1 & HI1 & HG1 & HH1 & Hg1 & Hid1 & Hc1 & Hv1 & Fpe & Fc & Fu & Fn).
    rewrite Hs1.
    assert (Hal1 : view s1 (o_id ob1) <> None) by (rewrite (Held_view s1 o ob1 HH1 Hg1); discriminate).
    destruct (attach_regen_eff s1 o ob1 u HI1 HG1 Hg1 Hal1)
      as (s3 & s4 & Hs3 & Hs4 & HI4 & HG4 & HH4 & (ob4 & Hg4 & Hid4 & Hc4) & Hvk4 & Hvo4 & Rpe & Rc & Ru & Rn).
    rewrite Hs3. cbn [negb]. rewrite Hs4. rewrite Fu in *. rewrite Hid1 in *.
    exists s4. split; [reflexivity|]. split; [exact HI4|]. split; [exact HG4|]. split; [exact HH4|].
    split; [|split; [|split; [exact Hvo4|]]].
    + exists ob4. split; [exact Hg4|]. split; [exact Hid4|]. rewrite Hc4.
      unfold cont in Hc1.
      assert (E1 : r_ref (o_rec ob1) = r_ref (o_rec ob)) by (apply (f_equal fst) in Hc1; exact Hc1).
      assert (E2 : fst (content_of (o_rec ob1)) = fst (content_of (o_rec ob)))
        by (apply (f_equal (fun x => fst (snd x))) in Hc1; exact Hc1).
      rewrite E1, E2. reflexivity.
    + intros k H1 H2. rewrite (Hvk4 k H1 H2). apply Hv1. exact H1.
    + repeat split; congruence.
Qed.
