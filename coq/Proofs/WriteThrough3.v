(* C09, part 3: Destroy, session creation, reference following and Start
   re-establish the write-through invariant and hand out a held object. *)
From Sessions Require Import Model.Base Model.Sess Model.Hist Proofs.SessDefs
  Proofs.WriteThrough Proofs.WriteThrough2.
From Coq Require Import Lia.

Lemma destroy_spec s o hc s' r cks : Inv noex s -> destroy s o hc = (s', r, cks) ->
  Inv noex s' /\ evo s s' /\ (forall h, Unsh s h -> Unsh s' h) /\ (forall e, r <> Err e).
Proof.
  intros HI. unfold destroy. destruct (hget s o) as [ob|].
  - destruct (cache_delete_spec noex s (o_id ob) HI) as (H1 & H2 & H3 & H4 & _).
    destruct (cache_delete s (o_id ob)) as [s1 ok]. cbn [fst snd] in *. subst ok. cbn [negb].
    intros [= <- <- <-]. split; [|split; [|split]]; auto. intro; discriminate.
  - intros [= <- <- <-]. split; [|split; [|split]]; auto; [apply evo_refl | intro; discriminate].
Qed.

Lemma create_session_spec s q : Inv noex s ->
  exists s' o, create_session s q = (s', Ok (Some o), [CkLive (KGen (supply s))]) /\
    Inv noex s' /\ Held s' o /\ conf s' = conf s /\ (supply s <= supply s')%N /\
    exists ob, hget s' o = Some ob /\ o_id ob = KGen (supply s) /\
               r_data (o_rec ob) = Some [] /\ r_user (o_rec ob) = None /\ r_ref (o_rec ob) = None.
Proof.
  intro HI. unfold create_session.
  destruct (gen_id_Inv noex s HI) as (HI1 & Hnid).
  set (nid := KGen (supply s)) in *. set (s1 := fst (gen_id s)) in *.
  change (gen_id s) with (s1, nid). cbv beta iota.
  set (v := mkObj nid (mkRec (now s1) (now s1) (q_addr q) (q_ua q) None None (Some []))).
  set (s2 := fst (halloc s1 v)). set (o := snd (halloc s1 v)).
  change (halloc s1 v) with (s2, o). cbv beta iota.
  assert (HI2 : Inv noex s2) by (apply halloc_Inv; auto).
  assert (Hg2 : hget s2 o = Some v) by apply hget_halloc_new.
  destruct (cache_set_spec _ s2 o v HI2 Hg2) as (s3 & Hs3 & HI3 & HH3 & Hg3 & _ & Hc3 & Hu3 & _).
  rewrite Hs3. cbn [negb]. exists s3, o. split; [reflexivity|].
  split; [eapply Inv_weaken; [|exact HI3]; intros k [[] _]|].
  split; [exact HH3|]. split; [rewrite Hc3; reflexivity|].
  split; [rewrite Hu3; cbn; lia|].
  eexists. split; [exact Hg3|]. cbn. auto.
Qed.

Lemma follow_spec f : forall s o lk s' r,
  Inv noex s -> Held s o -> follow f s o lk = (s', r) ->
  Inv noex s' /\ conf s' = conf s /\ (supply s <= supply s')%N /\ forall o' lk', r = Ok (o', lk') -> Held s' o'.
Proof.
  induction f as [|f IH]; intros s o lk s' r HI HH; cbn [follow].
  - destruct (hget s o) as [ob|].
    + destruct (r_ref (o_rec ob)); intros [= <- <-]; (split; [|split; [|split]]); auto; try lia.
      * intros o' lk' H; discriminate.
      * intros o' lk' [= <- <-]. exact HH.
    + intros [= <- <-]; (split; [|split; [|split]]); auto; try lia. intros o' lk' H; discriminate.
  - destruct (hget s o) as [ob|].
    + destruct (r_ref (o_rec ob)) as [target|].
      * destruct (cache_get s target) as [s1 r1] eqn:Hcg.
        destruct (cache_get_spec s target s1 r1 HI Hcg) as (HI1 & (Hc1 & Hu1 & _) & ro & -> & Hro).
        destruct ro as [o1|].
        -- destruct (Hro o1 eq_refl) as (HH1 & _). intro Hf.
           destruct (IH s1 o1 target s' r HI1 HH1 Hf) as (A & B & C & D).
           split; [|split; [|split]]; auto; [congruence | lia].
        -- intros [= <- <-]; (split; [|split; [|split]]); auto. intros o' lk' H; discriminate.
      * intros [= <- <-]; (split; [|split; [|split]]); auto; try lia. intros o' lk' [= <- <-]. exact HH.
    + intros [= <- <-]; (split; [|split; [|split]]); auto; try lia. intros o' lk' H; discriminate.
Qed.

Lemma hupd_Held_benign s o ob f :
  hget s o = Some ob -> Held s o ->
  durable (codec (conf s) (f (o_rec ob))) = durable (codec (conf s) (o_rec ob)) ->
  Held (hupd s o f) o.
Proof.
  intros Hg (ob' & H1 & H2) Hd. assert (ob' = ob) by congruence. subst ob'.
  exists (mkObj (o_id ob) (f (o_rec ob))). split; [apply hget_hupd_same; exact Hg|].
  rewrite (hupd_eq _ _ _ _ Hg). cbn [o_id o_rec]. change (conf (hput s o _)) with (conf s).
  change (cache (hput s o _)) with (cache s). change (store (hput s o _)) with (store s).
  rewrite Hd. exact H2.
Qed.

(* ---------------------------------------------------------------- Start *)

Definition StartPost (s0 : st) (x : st * result (option nat) * list cookie) : Prop :=
  Inv noex (fst (fst x)) /\ conf (fst (fst x)) = conf s0 /\ (supply s0 <= supply (fst (fst x)))%N /\
  forall o, snd (fst x) = Ok (Some o) -> Held (fst (fst x)) o.

Lemma create_or_none s0 s1 q cks :
  Inv noex s1 -> conf s1 = conf s0 -> (supply s0 <= supply s1)%N ->
  StartPost s0 (if q_create q
                then let '(s, res, nck) := create_session s1 q in (s, res, cks ++ nck)
                else (s1, Ok None, cks)).
Proof.
  intros HI Hc Hu. destruct (q_create q).
  - destruct (create_session_spec s1 q HI) as (s' & o & Hs & HI' & HH & Hc' & Hu' & _).
    rewrite Hs. unfold StartPost. cbn [fst snd]. split; [exact HI'|]. split; [congruence|].
    split; [lia|]. intros o' [= <-]. exact HH.
  - unfold StartPost. cbn [fst snd]. split; [exact HI|]. split; [exact Hc|]. split; [exact Hu|].
    intros o' H. discriminate.
Qed.

Lemma StartPost_err s0 s1 (e : site) cks :
  Inv noex s1 -> conf s1 = conf s0 -> (supply s0 <= supply s1)%N -> StartPost s0 (s1, Err e, cks).
Proof.
  intros HI Hc Hu. unfold StartPost. cbn [fst snd]. split; [exact HI|]. split; [exact Hc|].
  split; [exact Hu|]. intros o H. discriminate.
Qed.

Lemma StartPost_panic s0 s1 (e : site) cks :
  Inv noex s1 -> conf s1 = conf s0 -> (supply s0 <= supply s1)%N -> StartPost s0 (s1, Panic e, cks).
Proof.
  intros HI Hc Hu. unfold StartPost. cbn [fst snd]. split; [exact HI|]. split; [exact Hc|].
  split; [exact Hu|]. intros o H. discriminate.
Qed.

Lemma bookkeeping_spec s0 s o (a : addr) (u : N) cks :
  Inv noex s -> conf s = conf s0 -> (supply s0 <= supply s)%N -> Held s o ->
  StartPost s0 (hupd s o (fun r => set_ua (set_ip (set_access r (now s)) a) u), Ok (Some o), cks).
Proof.
  intros HI Hc Hu HH. destruct HH as (ob & Hg & HH').
  assert (Hd : durable (codec (conf s) (set_ua (set_ip (set_access (o_rec ob) (now s)) a) u))
               = durable (codec (conf s) (o_rec ob))).
  { rewrite durable_codec_ua, durable_codec_ip, durable_codec_access. reflexivity. }
  unfold StartPost. cbn [fst snd]. split; [|split; [|split]].
  - apply (hupd_Inv_benign noex s o ob); auto.
  - rewrite <- Hc. unfold hupd. rewrite Hg. reflexivity.
  - unfold hupd. rewrite Hg. exact Hu.
  - intros o' [= <-]. apply (hupd_Held_benign s o ob); auto. exists ob. auto.
Qed.

Lemma start_spec s q : Inv noex s -> StartPost s (start s q).
Proof.
  intro HI. unfold start.
  destruct (q_cookie q) as [|k|n].
  - cbv beta iota. apply create_or_none; auto; lia.
  - destruct (cache_get s k) as [s1 r1] eqn:Hcg.
    destruct (cache_get_spec s k s1 r1 HI Hcg) as (HI1 & (Hc1 & Hu1 & _) & ro & -> & Hro).
    destruct ro as [o|]; cbv beta iota.
    + destruct (Hro o eq_refl) as (HH1 & ob & Hg1 & Hid). rewrite Hg1.
      match goal with |- context [negb ?v] => destruct v end; cbn [negb].
      * (* valid *)
        destruct (r_ref (o_rec ob)) as [tgt|] eqn:Eref; cbn [negb andb].
        -- (* reference record: never rotated *)
           destruct (_ <=? _)%Z.
           ++ destruct (cache_delete_spec noex s1 k HI1) as (D1 & D2 & (D3 & D4 & _) & _).
              destruct (cache_delete s1 k) as [s2 ok]. cbn [fst snd] in *. subst ok.
              apply StartPost_err; auto; [congruence | lia].
           ++ destruct (follow _ s1 o k) as [s2 fr] eqn:Hf.
              destruct (follow_spec _ s1 o k s2 fr HI1 HH1 Hf) as (F1 & F2 & F3 & F4).
              destruct fr as [[o' lk']|e|e].
              ** apply bookkeeping_spec; eauto; [congruence | lia].
              ** apply StartPost_err; auto; [congruence | lia].
              ** apply StartPost_panic; auto; [congruence | lia].
        -- destruct (c_idexpiry (conf s) <=? since (r_created (o_rec ob)) (now s1))%Z.
           ++ destruct (regenerate_spec s1 o ob HI1 Hg1) as (s2 & Hs2 & HI2 & HH2 & _ & Hc2 & Hu2).
              rewrite Hs2. apply bookkeeping_spec; auto; [congruence | lia].
           ++ destruct (_ <=? _)%Z.
              ** destruct (cache_delete_spec noex s1 k HI1) as (D1 & D2 & (D3 & D4 & _) & _).
                 destruct (cache_delete s1 k) as [s2 ok]. cbn [fst snd] in *. subst ok.
                 apply StartPost_err; auto; [congruence | lia].
              ** apply bookkeeping_spec; auto.
      * (* anomaly or idle too long: destroyed *)
        destruct (destroy s1 o (had_cookie q)) as [[s2 res] dck] eqn:Hd.
        destruct (destroy_spec s1 o _ s2 res dck HI1 Hd) as (D1 & (D2 & D3 & _) & _ & D4).
        destruct res as [u|e|e].
        -- apply create_or_none; auto; [congruence | lia].
        -- exfalso. apply (D4 e). reflexivity.
        -- apply StartPost_panic; auto; [congruence | lia].
    + apply create_or_none; auto.
  - cbv beta iota. apply create_or_none; auto; lia.
Qed.
