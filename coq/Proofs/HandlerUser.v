(* Round 4 R1 (audit task B1), C08: a user-wide call made by a handler that holds
   its own *Session. Part 1: the cache entry of the handle survives the loop of
   LogOut(userID) / RefreshUser when nothing can evict it, and the handle itself
   is then the object the loop updates. Fault-free, on the invariant of
   Proofs/HistInv*.v. *)
From Sessions Require Import Model.Base Model.Sess Model.Hist Model.HandlerUser Proofs.SessDefs
  Proofs.HistInv Proofs.HistInv2 Proofs.HistInv3 Proofs.UserLaws.
From Coq Require Import Lia.

(* The handle o is what the cache holds under k, and it is not idle (the idle
   sweep of compact would flush it). *)
Definition pinned (s : st) (k : key) (o : nat) : Prop :=
  lookup (cache s) k = Some o /\ (since (obj_access s o) (now s) <= c_cacheexpiry (conf s))%Z.

(* every cached ID is in K *)
Definition ksub (s : st) (K : list key) : Prop := forall x v, lookup (cache s) x = Some v -> In x K.

(* the cache is unbounded, or large enough for all of K *)
Definition bigK (K : list key) (c : cfg) : Prop :=
  (c_maxcache c < 0 \/ Z.of_nat (length K) <= c_maxcache c)%Z.

Lemma since_refl t : since t t = 0%Z.
Proof. unfold since. rewrite Z.sub_diag. reflexivity. Qed.

Lemma ksub_length s K : NoDup (map fst (cache s)) -> ksub s K -> length (cache s) <= length K.
Proof.
  intros Hnd Hk. rewrite <- (map_length fst). apply NoDup_incl_length; [exact Hnd|].
  intros x Hin. destruct (lookup (cache s) x) as [v|] eqn:E; [eapply Hk; exact E|].
  apply lookup_None_notin in E. contradiction.
Qed.

Lemma ksub_length_S s K k : NoDup (map fst (cache s)) -> ksub s K -> lookup (cache s) k = None -> In k K ->
  S (length (cache s)) <= length K.
Proof.
  intros Hnd Hk Hn Hin. rewrite <- (map_length fst). change (length (k :: map fst (cache s)) <= length K).
  apply NoDup_incl_length.
  - constructor; [apply lookup_None_notin; exact Hn | exact Hnd].
  - intros x [<-|Hx]; [exact Hin|]. destruct (lookup (cache s) x) as [v|] eqn:E; [eapply Hk; exact E|].
    apply lookup_None_notin in E. contradiction.
Qed.

(* the idle sweep touches only the entries it is given *)
Lemma sweep_keeps : forall entries s k, plan s = [] -> ~ In k (map fst entries) ->
  lookup (cache (fst (sweep s entries))) k = lookup (cache s) k.
Proof.
  induction entries as [|[k' o'] t IH]; intros s k Hp Hn; cbn [sweep]; [reflexivity|].
  simpl in Hn. destruct (hget s o') as [ob|].
  - rewrite p_save_ff by exact Hp. cbv iota beta.
    rewrite IH; [|exact Hp | tauto]. unfold saved. sst. apply lookup_remove_other. intro E. apply Hn. left. congruence.
  - apply IH; [exact Hp | tauto].
Qed.

(* compact keeps a pinned entry when it has room *)
Lemma compact_pin s req k o : ffnd s -> pinned s k o ->
  (c_maxcache (conf s) < 0 \/ Z.of_nat (length (cache s)) + req <= c_maxcache (conf s))%Z ->
  lookup (cache (compact s req)) k = Some o.
Proof.
  intros [Hp Hnd] [Hl Hf] Hroom. unfold compact.
  assert (Hn : ~ In k (map fst (order_by_tb (tb s) (filter (is_idle s) (cache s))))).
  { intro Hin. apply in_map_iff in Hin. destruct Hin as [[k' o'] [E Hin]]. simpl in E. subst k'.
    apply order_by_tb_lookup in Hin; [|apply NoDup_filter_keys; exact Hnd].
    apply lookup_In in Hin. apply filter_In in Hin. destruct Hin as [Hin Hid].
    apply In_lookup in Hin; [|exact Hnd]. rewrite Hl in Hin. injection Hin as <-.
    unfold is_idle in Hid. cbn [snd] in Hid. apply Z.ltb_lt in Hid. lia. }
  pose proof (sweep_keeps _ s k Hp Hn) as Hk.
  destruct (sweep_flushes (order_by_tb (tb s) (filter (is_idle s) (cache s))) s Hp) as [Hfl Ht].
  - apply order_by_tb_NoDup. apply NoDup_filter_keys. exact Hnd.
  - intros k' o' Hin. apply order_by_tb_lookup in Hin; [|apply NoDup_filter_keys; exact Hnd].
    apply lookup_filter_In in Hin. apply In_lookup; assumption.
  - destruct (sweep s _) as [s1 ok]. cbn [fst snd] in *. subst ok. cbn [negb].
    destruct (flushes_frame _ _ Hfl) as (_ & _ & _ & Hcf & _). pose proof (flushes_length _ _ Hfl) as Hlen.
    assert (Hb : ((c_maxcache (conf s1) <? 0)%Z || (Z.of_nat (length (cache s1)) + req <=? c_maxcache (conf s1))%Z) = true).
    { rewrite Hcf. apply orb_true_iff. destruct Hroom as [H|H]; [left; apply Z.ltb_lt; lia | right; apply Z.leb_le; lia]. }
    rewrite Hb. rewrite Hk. exact Hl.
Qed.

Lemma compact_ksub s req K : ffnd s -> ksub s K -> ksub (compact s req) K.
Proof. intros F Hk x v H. apply (flushes_cache_sub _ _ (compact_flushes s req F)) in H. eapply Hk. exact H. Qed.

(* cache.Set of an object whose ID is in K *)
Lemma cset_pin base K s o' ob' k0 o :
  inv 0 base NX ND s -> hget s o' = Some ob' -> In (o_id ob') K -> ksub s K -> bigK K (conf s) ->
  (0 <= c_cacheexpiry (conf s))%Z -> pinned s k0 o -> (o_id ob' = k0 -> o' = o) ->
  pinned (cset s o' ob') k0 o /\ ksub (cset s o' ob') K /\ conf (cset s o' ob') = conf s.
Proof.
  intros I Ho' HinK Hks Hbig Hce [Hl Hf] Hown.
  assert (F : ffnd s) by (eapply inv_ffnd; exact I).
  assert (F1 : ffnd (hput s o' (touched s ob'))) by exact F.
  assert (P1 : pinned (hput s o' (touched s ob')) k0 o).
  { split; [exact Hl|]. unfold obj_access. rewrite hget_hput. sst. destruct (Nat.eqb o' o).
    - rewrite Ho'. cbn [touched o_rec r_access set_access]. rewrite since_refl. exact Hce.
    - exact Hf. }
  assert (R : (c_maxcache (conf (hput s o' (touched s ob'))) < 0 \/
               Z.of_nat (length (cache (hput s o' (touched s ob')))) +
               (if has (cache (hput s o' (touched s ob'))) (o_id ob') then 0 else 1) <= c_maxcache (conf (hput s o' (touched s ob'))))%Z).
  { sst. destruct Hbig as [Hneg|Hb]; [left; exact Hneg|]. right.
    unfold has. destruct (lookup (cache s) (o_id ob')) as [v|] eqn:El.
    - pose proof (ksub_length s K (proj2 F) Hks). lia.
    - pose proof (ksub_length_S s K _ (proj2 F) Hks El HinK). lia. }
  pose proof (compact_pin _ _ k0 o F1 P1 R) as Hl2.
  pose proof (compact_ksub _ (if has (cache (hput s o' (touched s ob'))) (o_id ob') then 0 else 1)%Z K F1 Hks) as Hk2.
  assert (Hc : cache (cset s o' ob') = cache (cset_mid s o' ob')) by (rewrite cset_eq; reflexivity).
  destruct (cset_frame s o' ob' F) as (_ & _ & Hcf' & Hnow' & _).
  split; [split|split].
  - rewrite Hc. unfold cset_mid. cbv zeta. destruct (c_maxcache _ =? 0)%Z; [exact Hl2|]. sst.
    destruct (key_eq_dec k0 (o_id ob')) as [E|Hne].
    + rewrite E, lookup_upsert_same. f_equal. apply Hown. congruence.
    + rewrite lookup_upsert_other by exact Hne. exact Hl2.
  - unfold obj_access. rewrite (hget_cset _ _ _ _ F Ho'), Hnow', Hcf'. destruct (Nat.eqb o' o).
    + cbn [touched o_rec r_access set_access]. rewrite since_refl. exact Hce.
    + exact Hf.
  - intros x v. rewrite Hc. unfold cset_mid. cbv zeta. destruct (c_maxcache _ =? 0)%Z; [apply Hk2|]. sst.
    destruct (key_eq_dec x (o_id ob')) as [->|Hne]; [intros _; exact HinK|].
    rewrite lookup_upsert_other by exact Hne. apply Hk2.
  - exact Hcf'.
Qed.

(* cache.Get of an ID of K that is not cached *)
Lemma loaded_pin base K s k r es k0 o :
  inv 0 base NX ND s -> lookup (cache s) k = None -> In k K -> ksub s K -> bigK K (conf s) ->
  pinned s k0 o -> o < length (heap s) ->
  pinned (loaded s k r es) k0 o /\ ksub (loaded s k r es) K /\ conf (loaded s k r es) = conf s /\
  hget (loaded s k r es) o = hget s o.
Proof.
  intros I Hn HinK Hks Hbig [Hl Hf] Hlt.
  assert (F : ffnd s) by (eapply inv_ffnd; exact I).
  rewrite loaded_eq. cbv zeta.
  set (s1 := fst (halloc (set_evs s (es ++ evs s)) (mkObj k r))).
  assert (F1 : ffnd s1) by exact F.
  assert (Hg1 : hget s1 o = hget s o).
  { unfold s1. rewrite hget_halloc_old by exact Hlt. reflexivity. }
  assert (P1 : pinned s1 k0 o).
  { split; [exact Hl|]. unfold obj_access. rewrite Hg1. exact Hf. }
  destruct (c_maxcache (conf s) =? 0)%Z.
  - split; [exact P1|]. split; [exact Hks|]. split; [reflexivity | exact Hg1].
  - assert (R : (c_maxcache (conf s1) < 0 \/ Z.of_nat (length (cache s1)) + 1 <= c_maxcache (conf s1))%Z).
    { change (conf s1) with (conf s). change (cache s1) with (cache s).
      destruct Hbig as [Hneg|Hb]; [left; exact Hneg|]. right.
      pose proof (ksub_length_S s K _ (proj2 F) Hks Hn HinK). lia. }
    pose proof (compact_pin _ _ k0 o F1 P1 R) as Hl2.
    pose proof (compact_ksub _ 1%Z K F1 Hks) as Hk2.
    destruct (compact_frame s1 1 F1) as (Hh & _ & _ & Hcf & Hnow & _).
    assert (Hne : k0 <> k) by (intro E; subst k0; congruence).
    split; [split|split; [|split]].
    + sst. rewrite lookup_upsert_other by exact Hne. exact Hl2.
    + unfold obj_access, hget. sst. rewrite Hh, Hnow, Hcf. fold (hget s1 o). rewrite Hg1. exact Hf.
    + intros x v. sst. destruct (key_eq_dec x k) as [->|Hx]; [intros _; exact HinK|].
      rewrite lookup_upsert_other by exact Hx. apply Hk2.
    + sst. exact Hcf.
    + unfold hget. sst. rewrite Hh. exact Hg1.
Qed.

(* ------------------------------------------------ the loop keeps the pin *)

(* what the handler sees on its handle: its ID is k0 *)
Definition handle_is (s : st) (o : nat) (k0 : key) : Prop := exists ob, hget s o = Some ob /\ o_id ob = k0.
Definition handle_user (s : st) (o : nat) (u : option user) : Prop :=
  exists ob, hget s o = Some ob /\ r_user (o_rec ob) = u.

Lemma eus_pin base u K k0 o : forall ids s, inv 0 base NX ND s -> incl ids K -> ksub s K -> bigK K (conf s) ->
  (0 <= c_cacheexpiry (conf s))%Z -> pinned s k0 o -> handle_is s o k0 ->
  pinned (fst (each_user_session s ids u)) k0 o /\
  ((In k0 ids \/ handle_user s o u) -> handle_user (fst (each_user_session s ids u)) o u).
Proof.
  induction ids as [|k t IH]; intros s I Hincl Hks Hbig Hce Hpin Hh; cbn [each_user_session].
  - split; [exact Hpin|]. intros [[]|H]. exact H.
  - assert (F : ffnd s) by (eapply inv_ffnd; exact I).
    assert (HkK : In k K) by (apply Hincl; left; reflexivity).
    assert (HtK : incl t K) by (intros x Hx; apply Hincl; right; exact Hx).
    destruct Hh as [obh [Hoh Hidh]].
    pose proof (hget_Some_lt _ _ _ Hoh) as Hlt.
    destruct (cache_get_inv _ _ _ _ _ k I) as (s1 & r & E & I1 & Hr).
    pose proof (cache_get_ff s k (proj1 F)) as Hff.
    (* the state after cache.Get: still pinned, the handle untouched *)
    assert (A1 : pinned s1 k0 o /\ ksub s1 K /\ conf s1 = conf s /\ hget s1 o = hget s o).
    { destruct (lookup (cache s) k) as [o1|] eqn:Hlk.
      - rewrite Hff in E. injection E as <- <-. repeat split; assumption || reflexivity || apply Hpin.
      - destruct Hff as [es [_ Hff]]. destruct (lookup (store s) k) as [rr|] eqn:Hst; rewrite Hff in E; injection E as <- <-.
        + eapply loaded_pin; eassumption.
        + repeat split; try reflexivity; try exact Hks; apply Hpin. }
    destruct A1 as (P1 & K1 & C1 & G1).
    rewrite E. destruct r as [o1|].
    + destruct Hr as [_ [ob1 (Ho1 & [Hid1|[]] & _ & _)]].
      assert (H1 : hok 0 ND s1 o1) by (split; [lia | exists ob1; split; [exact Ho1 | intros []]]).
      destruct (inv_hupd_hok _ _ _ _ o1 (fun r => set_user r u) I1 H1) as [I2 _]; [reflexivity|].
      set (s2 := hupd s1 o1 (fun r => set_user r u)) in *.
      assert (Ho2 : hget s2 o1 = Some (mkObj (o_id ob1) (set_user (o_rec ob1) u))).
      { unfold s2. rewrite hget_hupd, Nat.eqb_refl, Ho1. reflexivity. }
      assert (F2 : ffnd s2) by (eapply inv_ffnd; exact I2).
      rewrite (cache_set_ff _ _ _ F2 Ho2). cbv iota beta.
      (* which object was updated: the handle iff k = k0 *)
      assert (Hsame : k = k0 -> o1 = o).
      { intro Ek. rewrite Ek in E. destruct P1 as [Hl1 _].
        pose proof (cache_get_ff s k0 (proj1 F)) as Hff0. destruct Hpin as [Hl0 _]. rewrite Hl0 in Hff0.
        rewrite Hff0 in E. injection E as _ E2. congruence. }
      assert (Hdiff : k <> k0 -> o1 <> o).
      { intros Hne Eo. subst o1. rewrite G1, Hoh in Ho1. injection Ho1 as <-. congruence. }
      assert (P2 : pinned s2 k0 o).
      { destruct P1 as [Hl1 Hf1]. split; [unfold s2, hupd; rewrite Ho1; exact Hl1|].
        unfold obj_access. unfold s2 at 1. rewrite hget_hupd. unfold s2, hupd. rewrite Ho1. sst.
        destruct (Nat.eqb o1 o) eqn:Eb.
        - apply Nat.eqb_eq in Eb. subst o1. unfold obj_access in Hf1. rewrite Ho1 in *. exact Hf1.
        - exact Hf1. }
      assert (K2 : ksub s2 K) by (unfold s2, hupd; rewrite Ho1; exact K1).
      assert (C2 : conf s2 = conf s) by (unfold s2, hupd; rewrite Ho1; exact C1).
      destruct (cset_pin base K s2 o1 _ k0 o I2 Ho2) as (P3 & K3 & C3).
      { cbn [o_id]. rewrite Hid1. exact HkK. }
      { exact K2. } { rewrite C2. exact Hbig. } { rewrite C2. exact Hce. } { exact P2. }
      { cbn [o_id]. rewrite Hid1. exact Hsame. }
      set (s3 := cset s2 o1 (mkObj (o_id ob1) (set_user (o_rec ob1) u))) in *.
      assert (I3 : inv 0 base NX ND s3).
      { unfold s3. apply inv_cset; [exact I2 | exact Ho2 | lia | intros []]. }
      assert (G3 : hget s3 o = if Nat.eqb o1 o then Some (touched s2 (mkObj (o_id ob1) (set_user (o_rec ob1) u)))
                               else hget s o).
      { unfold s3. rewrite (hget_cset _ _ _ _ F2 Ho2). destruct (Nat.eqb o1 o) eqn:Eb; [reflexivity|].
        unfold s2. rewrite hget_hupd, Eb. exact G1. }
      assert (H3 : handle_is s3 o k0).
      { unfold handle_is. rewrite G3. destruct (Nat.eqb o1 o) eqn:Eb.
        - apply Nat.eqb_eq in Eb. subst o1. eexists. split; [reflexivity|]. cbn [touched o_id].
          rewrite G1, Hoh in Ho1. injection Ho1 as <-. exact Hidh.
        - exists obh. split; assumption. }
      destruct (IH s3 I3 HtK K3) as [P4 U4].
      { rewrite C3, C2. exact Hbig. } { rewrite C3, C2. exact Hce. } { exact P3. } { exact H3. }
      split; [exact P4|]. intros Hor. apply U4.
      destruct (key_eq_dec k k0) as [Ek|Hne].
      * right. unfold handle_user. rewrite G3. rewrite (Hsame Ek), Nat.eqb_refl. eexists. split; reflexivity.
      * destruct Hor as [[Ek|Hin]|[obu [Hou Huu]]]; [congruence | left; exact Hin | right].
        unfold handle_user. rewrite G3. apply Hdiff in Hne. apply Nat.eqb_neq in Hne. rewrite Hne.
        exists obu. split; assumption.
    + destruct Hr as [Hcn Hsn].
      assert (H1 : handle_is s1 o k0) by (exists obh; rewrite G1; split; assumption).
      destruct (IH s1 I1 HtK K1) as [P4 U4].
      { rewrite C1. exact Hbig. } { rewrite C1. exact Hce. } { exact P1. } { exact H1. }
      split; [exact P4|]. intros Hor. apply U4.
      destruct Hor as [[Ek|Hin]|[obu [Hou Huu]]].
      * exfalso. subst k. destruct Hpin as [Hl0 _]. congruence.
      * left. exact Hin.
      * right. exists obu. rewrite G1. split; assumption.
Qed.
