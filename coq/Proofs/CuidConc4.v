(* C19K, part 4: progress. Every action other than a clock tick uses up one
   unit of the measure (7 per goroutine), so a schedule contains at most 7K of
   them; in every reachable state of the system as the code is, some goroutine
   that has not returned can move (the holder of the mutex always can), so a
   schedule that does not stop moving goroutines lets every goroutine return. *)
From Sessions Require Import Model.Base Model.Ids Model.Mutex Model.CuidConc Gen.Consts
  Proofs.MutexBasics Proofs.CuidConc Proofs.CuidConc2.
From Coq Require Import Lia.

Lemma measure_done (l : list phase) : list_sum (map p_weight l) = 0 <-> forallb is_done l = true.
Proof.
  induction l as [|p r IH]; [split; reflexivity|].
  change (list_sum (map p_weight (p :: r))) with (p_weight p + list_sum (map p_weight r)).
  cbn [forallb]. rewrite andb_true_iff, <- IH.
  destruct p; cbn [p_weight is_done]; (split; [intro H | intros [H1 H2]]);
    try discriminate; try lia; try (exfalso; lia); (split; [reflexivity | lia]).
Qed.

Lemma cmeasure_done cs : cmeasure cs = 0 <-> all_done cs = true.
Proof. apply measure_done. Qed.

Lemma cmeasure_init st0 c0 K : cmeasure (cinit st0 c0 K) = 7 * K.
Proof.
  unfold cmeasure, cinit. cbn [k_ph]. induction K as [|K IH]; [reflexivity|].
  change (list_sum (map p_weight (repeat PIdle (S K)))) with (7 + list_sum (map p_weight (repeat PIdle K))).
  rewrite IH. lia.
Qed.

Lemma forallb_false_ex {A} (f : A -> bool) (l : list A) :
  forallb f l = false -> exists i x, nth_error l i = Some x /\ f x = false.
Proof.
  induction l as [|a r IH]; [discriminate|]. cbn [forallb].
  destruct (f a) eqn:E.
  - intro H. destruct (IH H) as (i & x & Hi & Hx). exists (S i), x. auto.
  - intros _. exists 0, a. auto.
Qed.

Section Progress.
  Variables (mac : bytes) (st0 : cuid_state) (c0 : Z) (K : nat).

  (* no deadlock; the goroutine holding the mutex is never blocked *)
  Lemma no_deadlock cs :
    CI mac st0 c0 K cs -> all_done cs = false ->
    exists lab cs', no_tick lab /\ cstep false true mac cs lab = Some cs' /\
                    (forall g, k_mutex cs = Some g -> actor lab = Some g).
  Proof.
    intros HI Hnd. destruct (k_mutex cs) as [g|] eqn:Hm.
    - destruct (ci_holder _ _ _ _ _ HI g Hm) as (p & Hp & Hheld).
      destruct p; try discriminate Hheld.
      + exists (CNow g). cbn [cstep]. rewrite Hp. eexists. split; [exact I|]. split; [reflexivity|].
        intros g' E. injection E as <-. reflexivity.
      + exists (CCmp g). cbn [cstep]. rewrite Hp. eexists. split; [exact I|]. split; [reflexivity|].
        intros g' E. injection E as <-. reflexivity.
      + exists (CCnt g). cbn [cstep]. rewrite Hp. eexists. split; [exact I|]. split; [reflexivity|].
        intros g' E. injection E as <-. reflexivity.
      + exists (CSet g). cbn [cstep]. rewrite Hp. eexists. split; [exact I|]. split; [reflexivity|].
        intros g' E. injection E as <-. reflexivity.
      + exists (CAsm g). cbn [cstep]. rewrite Hp. eexists. split; [exact I|]. split; [reflexivity|].
        intros g' E. injection E as <-. reflexivity.
      + exists (CRel g). cbn [cstep]. rewrite Hp, Hm. eexists. split; [exact I|]. split; [reflexivity|].
        intros g' E. injection E as <-. reflexivity.
    - unfold all_done in Hnd. destruct (forallb_false_ex _ _ Hnd) as (g & p & Hp & Hd).
      pose proof (ci_ph _ _ _ _ _ HI _ _ Hp) as O. rewrite Hm in O.
      destruct p; cbn [ph_ok is_done] in O, Hd; try discriminate; try contradiction;
        try (destruct O; discriminate).
      exists (CAcq g). cbn [cstep]. rewrite Hp, Hm. eexists. split; [exact I|]. split; [reflexivity|].
      intros g' E. discriminate.
  Qed.

  Lemma completes_from n : forall cs,
    CI mac st0 c0 K cs -> cmeasure cs = n ->
    exists ls cs', crun false true mac cs ls = Some cs' /\ Forall no_tick ls /\ all_done cs' = true.
  Proof.
    induction n as [|n IH]; intros cs HI Hn.
    - exists [], cs. split; [reflexivity|]. split; [constructor | apply cmeasure_done, Hn].
    - destruct (all_done cs) eqn:Hd.
      + exists [], cs. split; [reflexivity|]. split; [constructor | exact Hd].
      + destruct (no_deadlock _ HI Hd) as (lab & mid & Hnt & Hs & _).
        pose proof (cstep_measure _ _ _ _ _ _ Hs) as M.
        assert (is_tick lab = false) as T by (destruct lab; [reflexivity..|destruct Hnt]).
        rewrite T in M.
        destruct (IH mid (ci_step _ _ _ _ _ _ _ HI Hs) ltac:(lia)) as (ls & cs' & Hr & Hf & Ha).
        exists (lab :: ls), cs'. split; [cbn [crun]; rewrite Hs; exact Hr|].
        split; [constructor; assumption | exact Ha].
  Qed.

  Theorem progress :
    (forall narrow locked cs lab cs', cstep narrow locked mac cs lab = Some cs' ->
       if is_tick lab then cmeasure cs' = cmeasure cs else S (cmeasure cs') = cmeasure cs) /\
    (forall narrow locked cs ls cs', crun narrow locked mac cs ls = Some cs' ->
       length (filter (fun lab => negb (is_tick lab)) ls) + cmeasure cs' = cmeasure cs) /\
    cmeasure (cinit st0 c0 K) = 7 * K /\
    (forall cs, cmeasure cs = 0 <-> all_done cs = true) /\
    forall ls cs, crun false true mac (cinit st0 c0 K) ls = Some cs ->
      (all_done cs = false ->
         exists lab cs', no_tick lab /\ cstep false true mac cs lab = Some cs' /\
                         (forall g, k_mutex cs = Some g -> actor lab = Some g)) /\
      ((forall lab cs', no_tick lab -> cstep false true mac cs lab <> Some cs') -> all_done cs = true) /\
      (length (filter (fun lab => negb (is_tick lab)) ls) = 7 * K -> all_done cs = true) /\
      (exists ls' cs', crun false true mac cs ls' = Some cs' /\ Forall no_tick ls' /\ all_done cs' = true) /\
      (all_done cs = true -> k_mutex cs = None /\
         forall g, g < K -> exists c id, nth_error (k_ph cs) g = Some (PDone c id)).
  Proof.
    split; [intros; eapply cstep_measure; eassumption|].
    split; [intros; eapply crun_measure; eassumption|].
    split; [apply cmeasure_init|].
    split; [apply cmeasure_done|].
    intros ls cs H.
    pose proof (ci_run mac st0 c0 K ls _ _ (cinit_ci mac st0 c0 K) H) as HI.
    split; [apply (no_deadlock _ HI)|].
    split.
    { intro Hstuck. destruct (all_done cs) eqn:Hd; [reflexivity|].
      destruct (no_deadlock _ HI Hd) as (lab & cs' & Hnt & Hs & _). destruct (Hstuck _ _ Hnt Hs). }
    split.
    { intro Hlen. pose proof (crun_measure _ _ _ _ _ _ H) as M. rewrite cmeasure_init in M.
      apply cmeasure_done. lia. }
    split; [apply (completes_from _ _ HI eq_refl)|].
    intro Hd. split.
    - destruct (k_mutex cs) as [g|] eqn:Hm; [|reflexivity].
      destruct (ci_holder _ _ _ _ _ HI g Hm) as (p & Hp & Hheld).
      unfold all_done in Hd. rewrite forallb_forall in Hd.
      pose proof (Hd _ (nth_error_In _ _ Hp)) as D. destruct p; discriminate.
    - intros g Hg. rewrite <- (ci_len _ _ _ _ _ HI) in Hg.
      destruct (nth_error (k_ph cs) g) as [p|] eqn:E; [|apply nth_error_None in E; lia].
      unfold all_done in Hd. rewrite forallb_forall in Hd.
      pose proof (Hd _ (nth_error_In _ _ E)) as D. destruct p; try discriminate. eauto.
  Qed.
End Progress.
