(* Task PD, part 6: LogIn (C04 for login; cookies of handler operations, C18).
   The user-wide logout loop in front of the ID change only loads, flushes,
   and rewrites user and access time of objects; it draws no ID. *)
From Sessions Require Import Model.Base Model.Sess Model.Hist Proofs.SessDefs
  Proofs.RotateLaws Proofs.RotateLaws2 Proofs.RotateLaws3 Proofs.RotateLaws4 Proofs.RotateLaws5.
From Coq Require Import Lia.

(* two versions of an object that differ at most in user and access time *)
Definition same_core (a b : obj) : Prop :=
  o_id a = o_id b /\ r_created (o_rec a) = r_created (o_rec b) /\ r_ip (o_rec a) = r_ip (o_rec b) /\
  r_ua (o_rec a) = r_ua (o_rec b) /\ r_ref (o_rec a) = r_ref (o_rec b) /\ r_data (o_rec a) = r_data (o_rec b).

Lemma same_core_refl a : same_core a a.
Proof. repeat split. Qed.

Lemma same_core_trans a b c : same_core a b -> same_core b c -> same_core a c.
Proof. unfold same_core. intuition congruence. Qed.

(* the state invariants the ID change needs *)
Record ready (s : st) : Prop := mkReady {
  rd_plan : plan s = [];
  rd_cok : cache_ok s;
  rd_ndc : NoDup (map fst (cache s));
  rd_free : next_free s }.

(* s' is ready again, no ID was drawn, objects kept their cores *)
Record calm (s s' : st) : Prop := mkCalm {
  ca_ready : ready s';
  ca_supply : supply s' = supply s;
  ca_now : now s' = now s;
  ca_conf : conf s' = conf s;
  ca_pending : pending s' = pending s;
  ca_draws : draws (evs s') = draws (evs s);
  ca_objs : forall o ob, hget s o = Some ob -> exists ob', hget s' o = Some ob' /\ same_core ob ob' }.

Lemma calm_refl s : ready s -> calm s s.
Proof. intro H. constructor; auto. intros o ob Hg. exists ob. split; [exact Hg | apply same_core_refl]. Qed.

Lemma calm_trans s s1 s2 : calm s s1 -> calm s1 s2 -> calm s s2.
Proof.
  intros [A1 A2 A3 A4 A5 A6 A7] [B1 B2 B3 B4 B5 B6 B7]. constructor; try congruence.
  intros o ob Hg. destruct (A7 o ob Hg) as [ob1 [Hg1 Hc1]]. destruct (B7 o ob1 Hg1) as [ob2 [Hg2 Hc2]].
  exists ob2. split; [exact Hg2 | eapply same_core_trans; eassumption].
Qed.

Lemma quiet_calm s s' : ready s -> quiet s s' -> calm s s'.
Proof.
  intros R Q. constructor; try apply Q.
  - constructor; try apply Q. apply (next_free_quiet _ _ Q). apply R.
  - intros o ob Hg. exists ob. split; [apply (qu_ext _ _ Q); exact Hg | apply same_core_refl].
Qed.

(* appending events that are not draws *)
Lemma calm_evs s l : ready s -> draws l = [] -> calm s (set_evs s (l ++ evs s)).
Proof.
  intros [R1 R2 R3 R4] Hl. constructor; cbn; auto.
  - constructor; cbn; auto.
  - rewrite draws_app, Hl. reflexivity.
  - intros o ob Hg. exists ob. split; [exact Hg | apply same_core_refl].
Qed.

(* rewriting user/access of one object *)
Lemma calm_hupd s o f :
  ready s -> (forall r, same_core (mkObj (KGen 0) r) (mkObj (KGen 0) (f r))) -> calm s (hupd s o f).
Proof.
  intros [R1 R2 R3 R4] Hf.
  destruct (hupd_fields s o f) as (Hc & Hs & Hpe & He & Hsu & Hn & Hcf & Hpl).
  assert (Hobj : forall o' ob, hget s o' = Some ob ->
            exists ob', hget (hupd s o f) o' = Some ob' /\ same_core ob ob').
  { intros o' ob Hg. destruct (Nat.eq_dec o o') as [<-|Hne].
    - rewrite (hget_hupd_same s o ob f Hg). eexists. split; [reflexivity|].
      destruct (Hf (o_rec ob)) as (_ & H2 & H3 & H4 & H5 & H6). repeat split; assumption.
    - rewrite hget_hupd_other by exact Hne. exists ob. split; [exact Hg | apply same_core_refl]. }
  constructor; try congruence; [|exact Hobj].
  constructor; try congruence.
  - intros k o' Hl. rewrite Hc in Hl. destruct (R2 k o' Hl) as [ob [Hg Hid]].
    destruct (Hobj o' ob Hg) as [ob' [Hg' Hsc]]. exists ob'. split; [exact Hg'|].
    destruct Hsc as [Hi _]. congruence.
  - unfold next_free, L. rewrite Hc, Hs, Hsu. rewrite (next_free_cache s R2 R4).
    unfold next_free in R4. rewrite (L_uncached _ _ (next_free_cache s R2 R4)) in R4. exact R4.
Qed.

Lemma same_core_set_user r x : same_core (mkObj (KGen 0) r) (mkObj (KGen 0) (set_user r x)).
Proof. repeat split. Qed.

(* cache_set of an object whose ID is not the next one *)
Lemma calm_cache_set s o ob :
  ready s -> hget s o = Some ob -> o_id ob <> KGen (supply s) ->
  snd (cache_set s o) = true /\ calm s (fst (cache_set s o)) /\
  hget (fst (cache_set s o)) o = Some (touch ob (now s)).
Proof.
  intros [R1 R2 R3 R4] Hg Hid.
  destruct (cache_set_ff s o ob R1 R3 Hg) as [Hok P]. split; [exact Hok|].
  destruct (cache_set s o) as [s' ok]. cbn [fst snd] in *.
  destruct P as [Ch Cg Cp Cn Csu Cc Cpl [l [Ce Cl]] Cndc Cnds Cst Cca Csub Ck].
  pose proof (hget_Some_lt _ _ _ Hg) as Hlt.
  assert (Hobj : forall o' ob0, hget s o' = Some ob0 ->
            exists ob', hget s' o' = Some ob' /\ same_core ob0 ob').
  { intros o' ob0 Hg0. unfold hget. rewrite Ch. destruct (Nat.eq_dec o o') as [<-|Hne].
    - rewrite nth_replace_nth_same by exact Hlt. eexists. split; [reflexivity|].
      assert (ob0 = ob) by congruence. subst ob0. repeat split.
    - rewrite nth_replace_nth_other by exact Hne. exists ob0. split; [exact Hg0 | apply same_core_refl]. }
  assert (Ho : hget s' o = Some (touch ob (now s))).
  { unfold hget. rewrite Ch. apply nth_replace_nth_same. exact Hlt. }
  split; [|exact Ho].
  constructor; try congruence; [|rewrite Ce, draws_app, (draws_saves l Cl); reflexivity|exact Hobj].
  constructor; try assumption.
  - intros k o' Hl. apply lookup_In in Hl. apply Csub in Hl as [Hl|Hl].
    + apply In_lookup_nodup in Hl; [|exact R3]. destruct (R2 k o' Hl) as [ob0 [Hg0 Hid0]].
      destruct (Hobj o' ob0 Hg0) as [ob' [Hg' [Hi _]]]. exists ob'. split; [exact Hg' | congruence].
    + injection Hl as -> ->. eexists. split; [exact Ho | reflexivity].
  - unfold next_free. rewrite Csu.
    assert (Hne : KGen (supply s) <> o_id ob) by congruence.
    pose proof (next_free_cache s R2 R4) as Hcj.
    destruct (Ck _ Hne) as [[K1 K2]|[_ [o' [ob' [K2 _]]]]]; [|congruence].
    rewrite Hcj in K1. rewrite (L_uncached _ _ K1), K2.
    unfold next_free in R4. rewrite (L_uncached _ _ Hcj) in R4. exact R4.
Qed.

(* a direct save of an object whose ID is not the next one *)
Lemma calm_save s k r : ready s -> k <> KGen (supply s) ->
  snd (p_save s k r) = true /\ calm s (fst (p_save s k r)).
Proof.
  intros [R1 R2 R3 R4] Hne. rewrite (p_save_ff s k r R1). cbn [fst snd]. split; [reflexivity|].
  constructor; cbn; auto.
  - constructor; cbn; auto. unfold next_free, L. cbn.
    rewrite (next_free_cache s R2 R4). rewrite lookup_upsert_other by congruence.
    unfold next_free in R4. rewrite (L_uncached _ _ (next_free_cache s R2 R4)) in R4. exact R4.
  - intros o ob Hg. exists ob. split; [exact Hg | apply same_core_refl].
Qed.

(* ------------------------------------------------- the user-wide loop *)

Lemma each_user_session_calm ids : forall s u, ready s ->
  exists s', each_user_session s ids u = (s', Ok tt) /\ calm s s'.
Proof.
  induction ids as [|k t IH]; intros s u R; cbn [each_user_session].
  - exists s. split; [reflexivity | apply calm_refl; exact R].
  - destruct R as [R1 R2 R3 R4]. destruct (L s k) as [r|] eqn:El.
    + destruct (lookup_found s k r R1 R2 R3 (next_free_ne s k r R4 El) El) as [s1 [o1 [Eg [Q Pobj _ _]]]].
      rewrite Eg.
      pose proof (quiet_calm s s1 (mkReady s R1 R2 R3 R4) Q) as C1.
      pose proof (calm_hupd s1 o1 (fun r0 => set_user r0 u) (ca_ready _ _ C1)
                    (fun r0 => same_core_set_user r0 u)) as C2.
      set (s2 := hupd s1 o1 (fun r0 => set_user r0 u)) in *.
      assert (Hg2 : hget s2 o1 = Some (mkObj k (set_user r u))) by (apply (hget_hupd_same s1 o1 (mkObj k r) (fun r0 => set_user r0 u) Pobj)).
      assert (Hid2 : o_id (mkObj k (set_user r u)) <> KGen (supply s2)).
      { cbn. rewrite (ca_supply _ _ C2), (ca_supply _ _ C1). apply (next_free_ne s k r R4 El). }
      destruct (calm_cache_set s2 o1 _ (ca_ready _ _ C2) Hg2 Hid2) as [Hok [C3 _]].
      destruct (cache_set s2 o1) as [s3 ok]. cbn [fst snd] in *. subst ok.
      destruct (IH s3 u (ca_ready _ _ C3)) as [s' [E C4]].
      exists s'. split; [exact E|].
      eapply calm_trans; [exact C1|]. eapply calm_trans; [exact C2|]. eapply calm_trans; eassumption.
    + assert (Hc : lookup (cache s) k = None).
      { unfold L in El. destruct (lookup (cache s) k) as [ox|] eqn:Ec; [|reflexivity].
        destruct (R2 _ _ Ec) as [obx [Hgx _]]. rewrite Hgx in El. discriminate. }
      rewrite (L_uncached _ _ Hc) in El. rewrite (cache_get_absent s k R1 Hc El).
      pose proof (calm_evs s [EvLoad k true] (mkReady s R1 R2 R3 R4) eq_refl) as C1. cbn [app] in C1.
      destruct (IH _ u (ca_ready _ _ C1)) as [s' [E C2]].
      exists s'. split; [exact E | eapply calm_trans; eassumption].
Qed.

Lemma logout_user_calm s u : ready s -> exists s', logout_user s u = (s', Ok tt) /\ calm s s'.
Proof.
  intros R. unfold logout_user, p_usersessions, next_fault. rewrite (rd_plan _ R).
  set (ids := _ ++ _).
  pose proof (calm_evs s [EvUserSessions u true] R eq_refl) as C1. cbn [app] in C1.
  destruct (each_user_session_calm ids _ None (ca_ready _ _ C1)) as [s' [E C2]].
  exists s'. split; [exact E | eapply calm_trans; eassumption].
Qed.

Lemma logout_calm s o ob : ready s -> hget s o = Some ob -> o_id ob <> KGen (supply s) ->
  exists s', fst (logout s o) = s' /\ calm s s'.
Proof.
  intros R Hg Hid. unfold logout. rewrite Hg. destruct (r_user (o_rec ob)).
  - pose proof (calm_hupd s o (fun r0 => set_user r0 None) R (fun r0 => same_core_set_user r0 None)) as C1.
    set (s1 := hupd s o (fun r0 => set_user r0 None)) in *.
    unfold save_direct. assert (Hg1 : hget s1 o = Some (mkObj (o_id ob) (set_user (o_rec ob) None)))
      by (apply (hget_hupd_same s o ob (fun r0 => set_user r0 None) Hg)).
    rewrite Hg1. cbn [o_id o_rec].
    assert (Hne : o_id ob <> KGen (supply s1)) by (rewrite (ca_supply _ _ C1); exact Hid).
    destruct (calm_save s1 (o_id ob) (set_user (o_rec ob) None) (ca_ready _ _ C1) Hne) as [_ C2].
    destruct (p_save s1 (o_id ob) (set_user (o_rec ob) None)) as [s2 ok]. cbn [fst] in *.
    exists s2. split; [reflexivity | eapply calm_trans; eassumption].
  - exists s. split; [reflexivity | apply calm_refl; exact R].
Qed.

(* ------------------------------------------------------------ C04 for LogIn *)

Lemma ready_of s : plan s = [] -> cache_ok s -> nodup_ok s -> fresh_ok s -> ready s.
Proof. intros Hp Hco [Hnd _] Hf. constructor; auto. apply fresh_next_free. exact Hf. Qed.

(* login from a ready state whose handle does not carry the next ID *)
Lemma login_ready s o ob u ex :
  ready s -> hget s o = Some ob -> o_id ob <> KGen (supply s) ->
  let j := KGen (supply s) in
  let t := now s in
  exists s' r',
    login s o u ex = (s', Ok tt, [CkLive j]) /\
    draws (evs s') = supply s :: draws (evs s) /\
    hget s' o = Some (mkObj j r') /\
    r_user r' = Some u /\ r_data r' = r_data (o_rec ob) /\ r_ref r' = r_ref (o_rec ob) /\
    r_created r' = t /\ r_access r' = t /\ r_ip r' = r_ip (o_rec ob) /\ r_ua r' = r_ua (o_rec ob) /\
    L s' j = Some (if cached s' j then r' else codec (conf s) r') /\
    L s' (o_id ob) = Some (if cached s' (o_id ob) then ref_rec (o_rec ob) t j
                           else codec (conf s) (ref_rec (o_rec ob) t j)) /\
    pending s' = pending s ++ [((t + c_grace (conf s))%Z, o_id ob)].
Proof.
  intros R Hg Hid j t.
  assert (H1 : exists sA, (if ex then logout_user s (fst u)
                           else let '(s0, _) := logout s o in (s0, Ok tt)) = (sA, Ok tt) /\ calm s sA).
  { destruct ex.
    - apply logout_user_calm. exact R.
    - destruct (logout_calm s o ob R Hg Hid) as [sA [E C]]. exists sA. split; [|exact C].
      destruct (logout s o) as [s0 r0]. cbn in E. subst s0. reflexivity. }
  destruct H1 as [sA [E1 C1]]. unfold login. rewrite E1.
  destruct (ca_objs _ _ C1 o ob Hg) as [obA [HgA ScA]].
  pose proof (calm_hupd sA o (fun r0 => set_user r0 (Some u)) (ca_ready _ _ C1)
                (fun r0 => same_core_set_user r0 (Some u))) as C2.
  set (sB := hupd sA o (fun r0 => set_user r0 (Some u))) in *.
  assert (HgB : hget sB o = Some (mkObj (o_id obA) (set_user (o_rec obA) (Some u))))
    by (apply (hget_hupd_same sA o obA (fun r0 => set_user r0 (Some u)) HgA)).
  assert (HidA : o_id obA = o_id ob) by (symmetry; apply ScA).
  assert (HidB : o_id (mkObj (o_id obA) (set_user (o_rec obA) (Some u))) <> KGen (supply sB)).
  { cbn [o_id]. rewrite (ca_supply _ _ C2), (ca_supply _ _ C1), HidA. exact Hid. }
  destruct (calm_cache_set sB o _ (ca_ready _ _ C2) HgB HidB) as [Hok [C3 HgC]].
  destruct (cache_set sB o) as [sC ok]. cbn [fst snd] in *. subst ok. cbn [negb].
  pose proof (calm_trans _ _ _ C1 (calm_trans _ _ _ C2 C3)) as C.
  destruct (ca_ready _ _ C) as [RC1 RC2 RC3 RC4].
  assert (HsuC : supply sC = supply s) by apply C.
  assert (HidC : o_id (touch (mkObj (o_id obA) (set_user (o_rec obA) (Some u))) (now sB)) <> KGen (supply sC)).
  { cbn [o_id touch]. rewrite HsuC, HidA. exact Hid. }
  destruct (regenerate_ff sC o _ RC1 RC3 (cache_ok_heap sC RC2 RC3) HgC (next_free_cache sC RC2 RC4) HidC)
    as [sD [Er P]].
  rewrite Er. rewrite HsuC. fold j.
  destruct (regen_post_view sC o _ sD HgC P) as (V1 & V2 & V3 & V4 & V5 & V6 & V7 & V8).
  cbn [o_id o_rec touch] in V3, V4, V5, V8.
  rewrite HsuC in V1, V3, V4, V5. fold j in V3, V4, V5.
  rewrite (ca_now _ _ C), (ca_conf _ _ C), (ca_pending _ _ C) in *. fold t in V3, V4, V5, V8.
  rewrite HidA in V5, V8.
  set (r' := rot_rec (set_access (set_user (o_rec obA) (Some u)) (now sB)) t) in *.
  destruct ScA as (_ & Sc2 & Sc3 & Sc4 & Sc5 & Sc6).
  assert (Hrr : ref_rec (set_access (set_user (o_rec obA) (Some u)) (now sB)) t j = ref_rec (o_rec ob) t j).
  { unfold ref_rec. cbn. rewrite <- Sc3, <- Sc4. reflexivity. }
  rewrite Hrr in V5.
  exists sD, r'. split; [reflexivity|].
  split; [rewrite V1, (ca_draws _ _ C); reflexivity|].
  split; [exact V3|].
  split; [reflexivity|]. split; [cbn; symmetry; exact Sc6|]. split; [cbn; symmetry; exact Sc5|].
  split; [reflexivity|]. split; [reflexivity|].
  split; [cbn; symmetry; exact Sc3|]. split; [cbn; symmetry; exact Sc4|].
  split; [exact V4|]. split; [exact V5 | exact V8].
Qed.

Theorem login_C04 s o ob u ex :
  plan s = [] -> cache_ok s -> nodup_ok s -> fresh_ok s -> hget s o = Some ob ->
  let j := KGen (supply s) in
  let t := now s in
  exists s' r',
    login s o u ex = (s', Ok tt, [CkLive j]) /\
    draws (evs s') = supply s :: draws (evs s) /\
    hget s' o = Some (mkObj j r') /\
    r_user r' = Some u /\ r_data r' = r_data (o_rec ob) /\ r_ref r' = r_ref (o_rec ob) /\
    r_created r' = t /\ r_access r' = t /\ r_ip r' = r_ip (o_rec ob) /\ r_ua r' = r_ua (o_rec ob) /\
    L s' j = Some (if cached s' j then r' else codec (conf s) r') /\
    L s' (o_id ob) = Some (if cached s' (o_id ob) then ref_rec (o_rec ob) t j
                           else codec (conf s) (ref_rec (o_rec ob) t j)) /\
    pending s' = pending s ++ [((t + c_grace (conf s))%Z, o_id ob)].
Proof.
  intros Hp Hco Hnd Hf Hg. apply login_ready; [apply ready_of; assumption | exact Hg|].
  eapply fresh_obj_id; eassumption.
Qed.

(* ------------------------------------------ C18 for handler operations *)

(* Every live cookie a handler operation sets carries the ID the handler's
   session has at the end of the call, and that ID resolves to a record that is
   not a reference (the handler's session is one: Start never returns a
   reference record, follow_ok). *)
Theorem do_sop_cookies_ok s o ob hc op s' r cks :
  plan s = [] -> cache_ok s -> nodup_ok s -> fresh_ok s ->
  hget s o = Some ob -> r_ref (o_rec ob) = None ->
  do_sop s o hc op = (s', r, cks) ->
  forall v, In (CkLive v) cks ->
    exists ob' rv, hget s' o = Some ob' /\ o_id ob' = v /\ L s' v = Some rv /\ r_ref rv = None.
Proof.
  intros Hp Hco Hnd Hf Hg Href E v Hin. destruct op; cbn [do_sop] in E.
  - destruct (data_of s o); [|injection E as <- <- <-; contradiction].
    destruct (save_direct _ o). injection E as <- <- <-. contradiction.
  - destruct (save_direct _ o). injection E as <- <- <-. contradiction.
  - injection E as <- <- <-. contradiction.
  - destruct (data_of s o) as [d|]; [destruct (kv_get d k); [destruct (save_direct _ o)|]|];
      injection E as <- <- <-; contradiction.
  - destruct (login_C04 s o ob u exclusive Hp Hco Hnd Hf Hg)
      as [s2 [r' (E2 & _ & Ho & _ & _ & Hr & _ & _ & _ & _ & HL & _)]].
    rewrite E2 in E. injection E as <- <- <-. destruct Hin as [Hin|[]]. injection Hin as <-.
    eexists _, _. split; [exact Ho|]. split; [reflexivity|]. split; [exact HL|].
    destruct (cached s2 (KGen (supply s))); cbn; congruence.
  - destruct (logout s o). injection E as <- <- <-. contradiction.
  - destruct (regenerate_C04 s o ob Hp Hco Hnd Hf Hg) as [s2 (E2 & _ & _ & Ho & HL & _)].
    rewrite E2 in E. injection E as <- <- <-. destruct Hin as [Hin|[]]. injection Hin as <-.
    eexists _, _. split; [exact Ho|]. split; [reflexivity|]. split; [exact HL|].
    destruct (cached s2 (KGen (supply s))); cbn; exact Href.
  - pose proof (destroy_plain s o hc) as _. unfold destroy in E. rewrite Hg in E.
    destruct (cache_delete s (o_id ob)) as [s1 ok]. destruct ok; injection E as <- <- <-;
      [destruct Hin as [Hin|[]]; discriminate | contradiction].
Qed.
