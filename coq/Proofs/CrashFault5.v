(* C10 for LogIn and for the automatic rotation in Start: no dangling
   reference at any crash point, the presented ID keeps resolving to the
   session's content, the new ID resolves once the call has returned.
   Arbitrary fault plans. *)
From Sessions Require Import Model.Base Model.Sess Model.Hist Proofs.SessDefs Proofs.CrashFault
  Proofs.CrashFault2 Proofs.CrashFault3 Proofs.CrashFault4.
From Coq Require Import Lia.

(* K restricted to keys other than a given one *)
Definition not_key (n : key) (K : key -> rec -> Prop) (k : key) (r : rec) : Prop := k <> n /\ K k r.

Lemma J_not_key_uncached n K s : J (not_key n K) s -> forall o, ~ In (n, o) (cache s).
Proof.
  intros (Hcv & HcK & _) o Hin. pose proof (Hcv _ _ Hin) as Hlt.
  destruct (hget s o) as [ob|] eqn:E.
  - destruct (HcK _ _ _ Hin E) as [H _]. congruence.
  - unfold hget in E. apply nth_error_None in E. lia.
Qed.

Lemma store_present_ext K s s' l t :
  ext s s' l -> Forall (QK K) l -> lookup (store s) t <> None -> lookup (store s') t <> None.
Proof.
  intros X HQ H. rewrite (store_of_ext _ _ _ X). apply present_replay; [exact H|].
  eapply QK_no_deletes. exact HQ.
Qed.

Lemma supply_ext K s s' l : ext s s' l -> Forall (QK K) l -> supply s' = supply s.
Proof. intros X HQ. rewrite (x_supply _ _ _ X), (QK_no_draws _ _ HQ). lia. Qed.

Lemma sg_ext s s' l : ext s s' l -> sg_of s' = replay l (sg_of s).
Proof. apply x_sg. Qed.

Section LoginND.
  Variables (s : st) (X : key -> Prop).
  Let nid := KGen (supply s).
  Let T1 (t : key) : Prop := (lookup (store s) t <> None \/ X t) /\ t <> nid.
  Let K := not_key nid (ref_in T1).

  Lemma K_codec_nd cf k r : K k r -> K k (codec cf r). Proof. exact (fun H => H). Qed.
  Lemma K_access_nd k r t : K k r -> K k (set_access r t). Proof. exact (fun H => H). Qed.
  Lemma K_user_nd k r u : K k r -> K k (set_user r u). Proof. exact (fun H => H). Qed.

  (* phase before the ID change: every event is a K-safe save or a read *)
  Lemma pre_nodangling l0 :
    J K s -> Forall (QK K) l0 -> steps_ok (fun sg => nodangling_rel X (fst sg)) (sg_of s) l0.
  Proof.
    intros HJ HQ.
    assert (HI0 : ndI s T1 (sg_of s)).
    { split; [auto|]. intros k r Hl. destruct HJ as (_ & _ & C). apply (C _ _ Hl). }
    eapply steps_ok_impl; [|eapply steps_inv; [apply (ndI_step s T1) | exact HI0 |]].
    - intro sg. apply ndI_nd. intros t [Ht _]. tauto.
    - eapply Forall_impl; [|exact HQ]. intros e. apply QK_mono. intros k r [_ H]. exact H.
  Qed.

  (* the ID change proper, started in a later state sC of the same call *)
  Lemma regen_nodangling_from l0 sC o obC s' res cks :
    ext s sC l0 -> Forall (QK K) l0 -> J K sC -> hget sC o = Some obC -> ref_in T1 nid (o_rec obC) ->
    regenerate sC o = (s', res, cks) ->
    exists lR, ext sC s' lR /\ steps_ok (fun sg => nodangling_rel X (fst sg)) (sg_of sC) lR.
  Proof.
    intros X0 HQ0 HJC Ho Hob HR.
    pose proof (supply_ext _ _ _ _ X0 HQ0) as Hsup.
    assert (Hmono : forall t, T1 t -> (lookup (store sC) t <> None \/ X t) /\ t <> KGen (supply sC)).
    { intros t [[H|H] Hn]; rewrite Hsup; (split; [|exact Hn]); [left | right; exact H].
      eapply store_present_ext; eassumption. }
    eapply (regenerate_nodangling_rel sC X); try eassumption.
    - eapply J_mono; [|exact HJC]. intros k r [_ H] t Ht. apply Hmono. apply H. exact Ht.
    - intros t Ht. apply Hmono. apply Hob. exact Ht.
    - rewrite Hsup. eapply J_not_key_uncached. exact HJC.
  Qed.

  Lemma login_nodangling_rel o i u ex s' res cks :
    J K s -> cok s -> tracked K s o i -> login s o u ex = (s', res, cks) ->
    exists l, ext s s' l /\ steps_ok (fun sg => nodangling_rel X (fst sg)) (sg_of s) l.
  Proof.
    intros HJ Hc Ht HL.
    destruct (login_pre K K_codec_nd K_access_nd K_user_nd _ _ _ _ _ _ _ _ HJ Hc Ht HL)
      as (l0 & HQ0 & [(X0 & _)|(sC & obC & r2 & X0 & HJC & _ & HtC & _ & HoC & _ & _ & _ & _ & _ & HR & _ & _)]).
    - exists l0. split; [exact X0|]. apply pre_nodangling; assumption.
    - destruct HtC as (ob' & Ho' & _ & [_ HK']). assert (ob' = obC) by congruence. subst ob'.
      destruct (regen_nodangling_from _ _ _ _ _ _ _ X0 HQ0 HJC HoC HK' HR) as (lR & XR & SR).
      exists (l0 ++ lR). split; [eapply ext_trans; eassumption|].
      apply steps_ok_app. split; [apply pre_nodangling; assumption|].
      rewrite <- (sg_ext _ _ _ X0). exact SR.
  Qed.
End LoginND.

(* ---------------------------------------------------- LogIn: the IDs resolve *)

Lemma dat_codec cf r : dat (codec cf r) = dat r.
Proof. unfold dat. simpl. destruct (r_data r); reflexivity. Qed.

Lemma uid_codec cf r : uid (codec cf r) = uid r.
Proof. unfold uid. simpl. destruct (r_user r) as [[u v]|]; reflexivity. Qed.

Section LoginRes.
  Variables (s : st) (old : key) (D : list (N * N)).
  Let nid := KGen (supply s).
  Let F0 (r : rec) : Prop := dat r = D.
  Let F (r : rec) : Prop := r_ref r = None /\ F0 r.
  Let K := not_key nid (at_keys (fun k => k = old) F).

  Lemma F0_codec_d cf r : F0 r -> F0 (codec cf r).
  Proof. unfold F0. rewrite dat_codec. auto. Qed.
  Lemma K_codec_d cf k r : K k r -> K k (codec cf r).
  Proof. intros [A B]. split; [exact A|]. intro Hk. destruct (B Hk) as [B1 B2]. split; [exact B1 | apply F0_codec_d; exact B2]. Qed.
  Lemma K_access_d k r t : K k r -> K k (set_access r t). Proof. exact (fun H => H). Qed.
  Lemma K_user_d k r u : K k r -> K k (set_user r u). Proof. exact (fun H => H). Qed.

  Lemma pre_resolves l0 :
    J K s -> lookup (store s) old <> None -> Forall (QK K) l0 ->
    steps_ok (fun sg => resolves_to F0 (fst sg) old) (sg_of s) l0.
  Proof.
    intros HJ Hold HQ.
    set (I1 := fun sg : sgT => storeK K (fst sg) /\ lookup (fst sg) old <> None).
    assert (Hstep : forall sg e, I1 sg -> QK K e -> I1 (apply_ev sg e)).
    { intros sg e [A B] He. split; [apply storeK_apply; assumption | apply present_apply; [exact B | apply He]]. }
    eapply steps_ok_impl; [|eapply steps_inv; [exact Hstep | split; [apply HJ | exact Hold] | exact HQ]].
    intros sg [A B]. destruct (lookup (fst sg) old) as [r|] eqn:E; [|congruence].
    destruct (A _ _ E) as [_ Hf]. destruct (Hf eq_refl) as [Hr Hd].
    exists old, r. split; [|split; assumption]. simpl. rewrite E, Hr. reflexivity.
  Qed.

  Lemma login_resolves o u ex s' res cks :
    J K s -> cok s -> tracked K s o old -> lookup (store s) old <> None ->
    login s o u ex = (s', res, cks) ->
    exists l, ext s s' l /\
      steps_ok (fun sg => resolves_to F0 (fst sg) old) (sg_of s) l /\
      (res = Ok tt -> exists r rr, lookup (store s') nid = Some r /\ r_ref r = None /\ dat r = D /\
                                   uid r = Some (fst u) /\
                                   lookup (store s') old = Some rr /\ r_ref rr = Some nid).
  Proof.
    intros HJ Hc Ht Hold HL.
    destruct (login_pre K K_codec_d K_access_d K_user_d _ _ _ _ _ _ _ _ HJ Hc Ht HL)
      as (l0 & HQ0 & [(X0 & [e ->] & _)|(sC & obC & r2 & X0 & HJC & _ & HtC & _ & HoC & HidC & HuC & HstC & _ & _ & HR & -> & _)]).
    - exists l0. split; [exact X0|]. split; [apply pre_resolves; assumption | discriminate].
    - pose proof (supply_ext _ _ _ _ X0 HQ0) as Hsup.
      destruct HtC as (ob' & Ho' & _ & [Hne HK']). assert (ob' = obC) by congruence. subst ob'.
      pose proof (HK' eq_refl) as [HrC HdC].
      (* the content now includes the user *)
      set (F0u := fun r : rec => dat r = D /\ uid r = Some (fst u)).
      assert (F0u_codec : forall cf r, F0u r -> F0u (codec cf r)).
      { intros cf r [A B]. split; [rewrite dat_codec | rewrite uid_codec]; assumption. }
      (* for the data: regenerate from sC *)
      destruct (regenerate_resolves sC old F0 F0_codec_d (fun r t H => H) (fun r t H => H) o obC s' r2 cks)
        as (lR & XR & SR & _); try assumption.
      + eapply J_mono; [|exact HJC]. intros k r [_ H]. exact H.
      + split; assumption.
      + eapply store_present_ext; eassumption.
      + rewrite Hsup. exact Hne.
      + rewrite Hsup. eapply J_not_key_uncached. exact HJC.
      + exists (l0 ++ lR). split; [eapply ext_trans; eassumption|]. split.
        * apply steps_ok_app. split; [apply pre_resolves; assumption|].
          rewrite <- (sg_ext _ _ _ X0). exact SR.
        * (* the new ID: its record is the session's, with the user *)
          intro Hok. destruct r2 as [[]|?|?]; try discriminate. clear Hok.
          assert (Hnc : forall o', ~ In (KGen (supply sC), o') (cache sC)).
          { rewrite Hsup. eapply J_not_key_uncached. exact HJC. }
          assert (Hne' : o_id obC <> KGen (supply sC)) by (rewrite Hsup, HidC; exact Hne).
          destruct (regenerate_ack sC o obC s' cks (proj1 HJC) HoC HR Hnc Hne') as (_ & A & B & _).
          rewrite Hsup in A, B. fold nid in A, B. rewrite HidC in B.
          eexists. eexists. split; [exact A|]. split; [exact HrC|]. split; [rewrite dat_codec; exact HdC|].
          split; [|split; [exact B | reflexivity]].
          rewrite uid_codec. unfold uid. simpl. rewrite HuC. destruct u. reflexivity.
  Qed.

  (* From the save that precedes the rotation on, the presented ID resolves
     to a record that carries the user. *)
  Lemma login_user_resolves o u ex s' res cks :
    J K s -> cok s -> tracked K s o old -> lookup (store s) old <> None ->
    NoDup (map fst (cache s)) -> (forall o', In (old, o') (cache s) -> o' = o) ->
    login s o u ex = (s', res, cks) ->
    (exists e, res = Err e) \/
    exists l0' r0 lR,
      ext s s' ((l0' ++ [EvSave old r0 true]) ++ lR) /\ uid r0 = Some (fst u) /\ dat r0 = D /\ r_ref r0 = None /\
      steps_ok (fun sg => resolves_to (fun r => dat r = D /\ uid r = Some (fst u)) (fst sg) old)
               (replay (l0' ++ [EvSave old r0 true]) (sg_of s)) lR.
  Proof.
    intros HJ Hc Ht Hold Hnd Hheld HL.
    destruct (login_pre K K_codec_d K_access_d K_user_d _ _ _ _ _ _ _ _ HJ Hc Ht HL)
      as (l0 & HQ0 & [(X0 & He & _)|(sC & obC & r2 & X0 & HJC & _ & HtC & HnC & HoC & HidC & HuC & HstC & HmxC & Hm0C & HR & -> & l0' & ->)]).
    - left. exact He.
    - right. pose proof (supply_ext _ _ _ _ X0 HQ0) as Hsup.
      destruct HtC as (ob' & Ho' & _ & [Hne HK']). assert (ob' = obC) by congruence. subst ob'.
      pose proof (HK' eq_refl) as [HrC HdC].
      set (F0u := fun r : rec => dat r = D /\ uid r = Some (fst u)).
      assert (F0u_codec : forall cf r, F0u r -> F0u (codec cf r)).
      { intros cf r [A B]. split; [rewrite dat_codec | rewrite uid_codec]; assumption. }
      assert (HFC : r_ref (o_rec obC) = None /\ F0u (o_rec obC)).
      { split; [exact HrC|]. split; [exact HdC|]. unfold uid. rewrite HuC. destruct u. reflexivity. }
      assert (HJu : J (at_keys (fun k => k = old) (fun r => r_ref r = None /\ F0u r)) sC).
      { split; [apply HJC|]. split.
        - intros k' o' ob' Hin Hg ->.
          assert (o' = o).
          { destruct (Z.eq_dec (c_maxcache (conf s)) 0) as [Hz|Hz].
            - apply Hheld. apply (Hm0C Hz). exact Hin.
            - pose proof (NoDup_lookup _ _ _ (HnC Hnd) Hin) as Hl. rewrite (HmxC Hz) in Hl. congruence. }
          subst o'. assert (ob' = obC) by congruence. subst ob'. exact HFC.
        - intros k' r Hl ->. rewrite HstC in Hl. injection Hl as <-.
          destruct HFC as [A B]. split; [exact A | apply F0u_codec; exact B]. }
      destruct (regenerate_resolves sC old F0u F0u_codec (fun r t H => H) (fun r t H => H) o obC s' r2 cks)
        as (lR & XR & SR & _); try assumption.
      + eapply store_present_ext; eassumption.
      + rewrite Hsup. exact Hne.
      + rewrite Hsup. eapply J_not_key_uncached. exact HJC.
      + exists l0', (codec (conf s) (o_rec obC)), lR.
        split; [eapply ext_trans; eassumption|].
        split; [rewrite uid_codec; apply HFC|]. split; [rewrite dat_codec; exact HdC|]. split; [exact HrC|].
        rewrite <- (sg_ext _ _ _ X0). exact SR.
  Qed.
End LoginRes.

(* --------------------------------------------- automatic rotation in Start *)

(* Start accepts the record and its ID is due for replacement. *)
Definition rot_due (c : cfg) (r : rec) (q : request) (t : Z) : bool :=
  negb (c_expiry c <=? since (r_access r) t)%Z
  && ip_ok (c_acceptip c) (r_ip r) (q_addr q)
  && ua_ok (c_acceptua c) (r_ua r) (q_ua q)
  && match r_ref r with Some _ => false | None => true end
  && (c_idexpiry c <=? since (r_created r) t)%Z.

Definition bookkeep (s : st) (q : request) (r : rec) : rec :=
  set_ua (set_ip (set_access r (now s)) (q_addr q)) (q_ua q).

Lemma start_rotate_spec s q k s1 o ob s' res cks :
  q_cookie q = CKey k -> cache_get s k = (s1, Some (Some o)) -> hget s1 o = Some ob ->
  rot_due (conf s) (o_rec ob) q (now s1) = true ->
  start s q = (s', res, cks) ->
  exists s2 r2, regenerate s1 o = (s2, r2, cks) /\
    match r2 with
    | Ok _ => res = Ok (Some o) /\ s' = hupd s2 o (bookkeep s2 q)
    | Err e => res = Err e /\ s' = s2
    | Panic e => res = Panic e /\ s' = s2
    end.
Proof.
  intros Hq HG Ho Hdue HS. unfold rot_due in Hdue.
  apply andb_true_iff in Hdue. destruct Hdue as [Hdue Hage].
  apply andb_true_iff in Hdue. destruct Hdue as [Hvalid Hnr].
  destruct (r_ref (o_rec ob)) eqn:Eref; [discriminate|].
  unfold start in HS. rewrite Hq, HG in HS. cbv beta iota zeta in HS. rewrite Ho in HS.
  rewrite Hvalid in HS. cbv beta iota zeta in HS. cbn [negb] in HS.
  rewrite Eref, Hage in HS. cbn [negb andb] in HS.
  destruct (regenerate s1 o) as [[s2 r2] rck] eqn:ER.
  exists s2, r2. cbn [app] in HS.
  destruct r2 as [[]|e|e]; injection HS as <- <- <-; split; auto.
Qed.

Definition start_rotates (s : st) (q : request) : bool :=
  match q_cookie q with
  | CKey k =>
    let '(s1, r) := cache_get s k in
    match r with
    | Some (Some o) =>
      match hget s1 o with
      | Some ob => rot_due (conf s) (o_rec ob) q (now s1)
      | None => false
      end
    | _ => false
    end
  | _ => false
  end.

Lemma start_rotates_inv s q :
  start_rotates s q = true ->
  exists k s1 o ob, q_cookie q = CKey k /\ cache_get s k = (s1, Some (Some o)) /\ hget s1 o = Some ob /\
                    rot_due (conf s) (o_rec ob) q (now s1) = true.
Proof.
  unfold start_rotates. destruct (q_cookie q) as [|k|]; try discriminate.
  destruct (cache_get s k) as [s1 [[o|]|]] eqn:E; try discriminate.
  destruct (hget s1 o) as [ob|] eqn:Eo; try discriminate. intro H. exists k, s1, o, ob. auto.
Qed.

Lemma start_rotate_tail o q s2 (r2 : result unit) s' (res : result (option nat)) :
  match r2 with
  | Ok _ => res = Ok (Some o) /\ s' = hupd s2 o (bookkeep s2 q)
  | Err e => res = Err e /\ s' = s2
  | Panic e => res = Panic e /\ s' = s2
  end -> ext s2 s' [] /\ (res = Ok (Some o) <-> r2 = Ok tt).
Proof.
  destruct r2 as [[]|e|e]; intros [-> ->]; (split; [try apply ext_hupd; try apply ext_refl|]);
    split; intro; try reflexivity; discriminate.
Qed.

Section StartND.
  Variables (s : st) (X : key -> Prop).
  Let nid := KGen (supply s).
  Let T1 (t : key) : Prop := (lookup (store s) t <> None \/ X t) /\ t <> nid.
  Let K := not_key nid (ref_in T1).

  Lemma start_rotate_nodangling_rel q s' res cks :
    J K s -> start_rotates s q = true -> start s q = (s', res, cks) ->
    exists l, ext s s' l /\ steps_ok (fun sg => nodangling_rel X (fst sg)) (sg_of s) l.
  Proof.
    intros HJ Hrot HS. destruct (start_rotates_inv _ _ Hrot) as (k & s1 & o & ob & Hq & HG & Ho & Hdue).
    destruct (start_rotate_spec _ _ _ _ _ _ _ _ _ Hq HG Ho Hdue HS) as (s2 & r2 & HR & Htail).
    destruct (start_rotate_tail o q _ _ _ _ Htail) as (Xt & _).
    destruct (cache_get_safe K (K_codec_nd s X) _ _ _ _ HJ HG) as (l0 & X0 & HQ0 & HJ1 & _ & _ & _ & _ & (ob' & Ho' & [_ HK'] & _)).
    assert (ob' = ob) by congruence. subst ob'.
    destruct (regen_nodangling_from s X _ _ _ _ _ _ _ X0 HQ0 HJ1 Ho HK' HR) as (lR & XR & SR).
    exists (l0 ++ lR). split; [eapply ext_trans; [exact X0 | eapply ext_nil_r; eassumption]|].
    apply steps_ok_app. split; [apply pre_nodangling; assumption|].
    rewrite <- (sg_ext _ _ _ X0). exact SR.
  Qed.
End StartND.

Section StartRes.
  Variables (s : st) (old : key) (F0 : rec -> Prop).
  Hypothesis F0_codec : forall cf r, F0 r -> F0 (codec cf r).
  Hypothesis F0_access : forall r t, F0 r -> F0 (set_access r t).
  Hypothesis F0_created : forall r t, F0 r -> F0 (set_created r t).
  Let nid := KGen (supply s).
  Let F (r : rec) : Prop := r_ref r = None /\ F0 r.
  Let K := not_key nid (at_keys (fun k => k = old) F).

  Lemma K_codec_s cf k r : K k r -> K k (codec cf r).
  Proof. intros [A B]. split; [exact A|]. intro Hk. destruct (B Hk) as [B1 B2]. split; [exact B1 | apply F0_codec; exact B2]. Qed.

  Lemma pre_resolves_gen l0 :
    J K s -> lookup (store s) old <> None -> Forall (QK K) l0 ->
    steps_ok (fun sg => resolves_to F0 (fst sg) old) (sg_of s) l0.
  Proof.
    intros HJ Hold HQ.
    set (I1 := fun sg : sgT => storeK K (fst sg) /\ lookup (fst sg) old <> None).
    assert (Hstep : forall sg e, I1 sg -> QK K e -> I1 (apply_ev sg e)).
    { intros sg e [A B] He. split; [apply storeK_apply; assumption | apply present_apply; [exact B | apply He]]. }
    eapply steps_ok_impl; [|eapply steps_inv; [exact Hstep | split; [apply HJ | exact Hold] | exact HQ]].
    intros sg [A B]. destruct (lookup (fst sg) old) as [r|] eqn:E; [|congruence].
    destruct (A _ _ E) as [_ Hf]. destruct (Hf eq_refl) as [Hr Hd].
    exists old, r. split; [|split; assumption]. simpl. rewrite E, Hr. reflexivity.
  Qed.

  Lemma start_rotate_resolves q s' res cks :
    J K s -> cok s -> q_cookie q = CKey old -> lookup (store s) old <> None ->
    start_rotates s q = true -> start s q = (s', res, cks) ->
    exists l, ext s s' l /\
      steps_ok (fun sg => resolves_to F0 (fst sg) old) (sg_of s) l /\
      (forall o, res = Ok (Some o) ->
         exists r rr, lookup (store s') nid = Some r /\ r_ref r = None /\ F0 r /\
                      lookup (store s') old = Some rr /\ r_ref rr = Some nid).
  Proof.
    intros HJ Hc Hq Hold Hrot HS. destruct (start_rotates_inv _ _ Hrot) as (k & s1 & o & ob & Hq' & HG & Ho & Hdue).
    assert (k = old) by congruence. subst k.
    destruct (start_rotate_spec _ _ _ _ _ _ _ _ _ Hq HG Ho Hdue HS) as (s2 & r2 & HR & Htail).
    destruct (start_rotate_tail o q _ _ _ _ Htail) as (Xt & Hres).
    destruct (cache_get_safe K K_codec_s _ _ _ _ HJ HG) as (l0 & X0 & HQ0 & HJ1 & _ & _ & _ & _ & _).
    destruct (cache_get_cok K K_codec_s _ _ _ _ HJ Hc HG) as (_ & ob' & Ho' & Hid & [Hne HK']).
    assert (ob' = ob) by congruence. subst ob'.
    pose proof (supply_ext _ _ _ _ X0 HQ0) as Hsup.
    destruct (regenerate_resolves s1 old F0 F0_codec F0_access F0_created o ob s2 r2 cks)
      as (lR & XR & SR & Hnew); try assumption.
    - eapply J_mono; [|exact HJ1]. intros k r [_ H]. exact H.
    - apply HK'. reflexivity.
    - eapply store_present_ext; eassumption.
    - rewrite Hsup. exact Hne.
    - rewrite Hsup. eapply J_not_key_uncached. exact HJ1.
    - exists (l0 ++ lR). split; [eapply ext_trans; [exact X0 | eapply ext_nil_r; eassumption]|]. split.
      + apply steps_ok_app. split; [apply pre_resolves_gen; assumption|].
        rewrite <- (sg_ext _ _ _ X0). exact SR.
      + intros o' Hok. assert (o' = o) by (destruct r2 as [[]|?|?]; destruct Htail as [E _]; congruence). subst o'.
        apply Hres in Hok. destruct (Hnew Hok) as (r & rr & A & [B1 B2] & C & D0).
        rewrite Hsup in A, D0. fold nid in A, D0.
        assert (Hst : store s' = store s2) by (apply (f_equal fst (x_sg _ _ _ Xt))).
        rewrite Hst. exists r, rr. auto 6.
  Qed.
End StartRes.
