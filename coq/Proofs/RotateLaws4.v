(* Task PD, part 4: replaced IDs (C05): the Expired() predicate on reference
   records, the delayed clean-up, the backstop age, and the resolution of chains
   of reference records with the fuel argument. *)
From Sessions Require Import Model.Base Model.Sess Model.Hist Proofs.SessDefs
  Proofs.RotateLaws Proofs.RotateLaws2 Proofs.RotateLaws3.
From Coq Require Import Lia.

(* ---------------------------------------------------- C05_expired_ref *)

(* what Expired() computes for a reference record *)
Lemma expired_ref_exact c r t j : r_ref r = Some j ->
  (expired c r t = true <->
   (c_grace c <= since (r_access r) t)%Z \/
   ((c_expiry c <= since (r_access r) t)%Z /\
    (sat_add (c_idexpiry c) (c_grace c) <= since (r_created r) t)%Z)).
Proof.
  intro H. unfold expired. rewrite H. cbn [andb].
  rewrite orb_true_iff, andb_true_iff, !Z.leb_le. reflexivity.
Qed.

(* and for a session's own record: only the second disjunct *)
Lemma expired_nonref_exact c r t : r_ref r = None ->
  (expired c r t = true <->
   (c_expiry c <= since (r_access r) t)%Z /\
   (sat_add (c_idexpiry c) (c_grace c) <= since (r_created r) t)%Z).
Proof.
  intro H. unfold expired. rewrite H. cbn [andb orb]. rewrite andb_true_iff, !Z.leb_le. reflexivity.
Qed.

Lemma grace_le_backstop c : (0 <= c_idexpiry c)%Z -> (c_grace c <= max64)%Z ->
  (c_grace c <= sat_add (c_idexpiry c) (c_grace c))%Z.
Proof.
  intros Hi Hg. unfold sat_add, clamp64.
  destruct (Z.ltb_spec (c_idexpiry c + c_grace c) min64); [lia|].
  destruct (Z.ltb_spec max64 (c_idexpiry c + c_grace c)); lia.
Qed.

(* A reference record is written with created = lastAccess = the instant of the
   replacement (ref_rec_shape, also after the codec), and nothing updates it:
   Expired() turns true exactly when the grace period has ended. *)
Theorem expired_ref_grace c r t j :
  r_ref r = Some j -> r_created r = r_access r ->
  (0 <= c_idexpiry c)%Z -> (c_grace c <= max64)%Z ->
  (expired c r t = true <-> (c_grace c <= since (r_access r) t)%Z).
Proof.
  intros Hr Hca Hi Hg. rewrite (expired_ref_exact c r t j Hr). split.
  - intros [H|[_ H]]; [exact H|]. rewrite Hca in H. pose proof (grace_le_backstop c Hi Hg). lia.
  - intro H. left. exact H.
Qed.

(* --------------------------------------------- C05_grace_dead: fire_due *)

Lemma fire_spec l : forall s, plan s = [] ->
  let s' := fst (fire s l) in
  plan s' = [] /\ now s' = now s /\ pending s' = pending s /\ heap s' = heap s /\
  conf s' = conf s /\ supply s' = supply s /\
  snd (fire s l) = filter (fun e => negb (fst e <=? now s)%Z) l /\
  (forall k, lookup (cache s) k = None -> lookup (cache s') k = None) /\
  (forall k, lookup (store s) k = None -> lookup (store s') k = None) /\
  (forall d k, In (d, k) l -> (d <= now s)%Z ->
     lookup (cache s') k = None /\ lookup (store s') k = None).
Proof.
  induction l as [|[d0 k0] l IH]; intros s Hp; cbn [fire].
  - cbn. repeat split; auto; contradiction.
  - cbn [filter fst]. destruct (d0 <=? now s)%Z eqn:Ed; cbn [negb].
    + destruct (cache_delete_ff s k0 Hp) as [_ (Dh & Dc & Ds & Dpe & Dn & Dsu & Dcf & Dpl & De)].
      destruct (cache_delete s k0) as [s1 ok]. cbn [fst] in *.
      destruct (IH s1 Dpl) as (I1 & I2 & I3 & I4 & I5 & I6 & I7 & I8 & I9 & I10).
      cbn zeta in *. split; [exact I1|]. split; [congruence|]. split; [congruence|].
      split; [congruence|]. split; [congruence|]. split; [congruence|].
      split; [rewrite I7, Dn; reflexivity|].
      split; [intros k H; apply I8; rewrite Dc; apply lookup_remove_None; exact H|].
      split; [intros k H; apply I9; rewrite Ds; apply lookup_remove_None; exact H|].
      intros d k [H|H] Hd.
      * injection H as <- <-. split; [apply I8; rewrite Dc | apply I9; rewrite Ds]; apply lookup_remove_same.
      * rewrite <- Dn in Hd. apply (I10 _ _ H Hd).
    + destruct (IH s Hp) as (I1 & I2 & I3 & I4 & I5 & I6 & I7 & I8 & I9 & I10).
      destruct (fire s l) as [s1 rest]. cbn [fst snd] in *.
      split; [exact I1|]. split; [exact I2|]. split; [exact I3|]. split; [exact I4|].
      split; [exact I5|]. split; [exact I6|]. split; [rewrite I7; reflexivity|].
      split; [exact I8|]. split; [exact I9|].
      intros d k [H|H] Hd.
      * injection H as <- <-. apply Z.leb_gt in Ed. lia.
      * apply (I10 _ _ H Hd).
Qed.

Theorem fire_due_dead s d k :
  plan s = [] -> In (d, k) (pending s) -> (d <= now s)%Z ->
  let s' := fire_due s in
  lookup (cache s') k = None /\ lookup (store s') k = None /\ L s' k = None /\
  pending s' = filter (fun e => negb (fst e <=? now s)%Z) (pending s).
Proof.
  intros Hp Hin Hd. unfold fire_due.
  pose proof (fire_spec (pending s) (set_pending s []) Hp) as H. cbn zeta in H.
  destruct (fire (set_pending s []) (pending s)) as [s1 rest]. cbn [fst snd] in H.
  destruct H as (I1 & I2 & I3 & I4 & I5 & I6 & I7 & I8 & I9 & I10).
  destruct (I10 d k Hin Hd) as [Hc Hs]. cbn.
  repeat split; try assumption.
  - unfold L. cbn. rewrite Hc. exact Hs.
  - rewrite I3. cbn. exact I7.
Qed.

(* not yet due: the clean-up stays queued *)
Corollary fire_due_keeps s d k :
  plan s = [] -> In (d, k) (pending s) -> (now s < d)%Z -> In (d, k) (pending (fire_due s)).
Proof.
  intros Hp Hin Hd. unfold fire_due.
  pose proof (fire_spec (pending s) (set_pending s []) Hp) as H. cbn zeta in H.
  destruct (fire (set_pending s []) (pending s)) as [s1 rest]. cbn [fst snd] in H.
  destruct H as (I1 & I2 & I3 & I4 & I5 & I6 & I7 & _). cbn. rewrite I3, I7. cbn.
  apply filter_In. split; [exact Hin|]. cbn. apply negb_true_iff. apply Z.leb_gt. exact Hd.
Qed.

(* ------------------------------------------------------- C05_backstop *)

Theorem start_backstop s q k r tgt :
  plan s = [] -> cache_ok s -> nodup_ok s -> fresh_ok s ->
  q_cookie q = CKey k -> L s k = Some r -> r_ref r = Some tgt ->
  valid_for (conf s) r (now s) q = true ->
  (sat_add (c_idexpiry (conf s)) (c_grace (conf s)) <= since (r_created r) (now s))%Z ->
  exists s',
    start s q = (s', Err EExpiredID, []) /\
    lookup (cache s') k = None /\ lookup (store s') k = None /\ L s' k = None /\
    draws (evs s') = draws (evs s).
Proof.
  intros Hp Hco [Hndc Hnds] Hf Hq HL Href Hvalid Hage.
  pose proof (drawn_not_next s k (L_drawn s k r Hf HL)) as Hkj.
  destruct (lookup_found s k r Hp Hco Hndc Hkj HL) as [s1 [o0 [Eg P]]].
  pose proof (fp_quiet _ _ _ _ _ P) as Q.
  unfold start. rewrite Hq, Eg. cbn [negb]. rewrite (fp_obj _ _ _ _ _ P). cbn [o_rec].
  rewrite (qu_now _ _ Q).
  unfold valid_for in Hvalid. rewrite Hvalid. cbn [negb]. rewrite Href. cbn [negb andb].
  replace (sat_add (c_idexpiry (conf s)) (c_grace (conf s)) <=? since (r_created r) (now s))%Z with true
    by (symmetry; apply Z.leb_le; exact Hage).
  destruct (cache_delete_ff s1 k (qu_plan _ _ Q)) as [Hok (Dh & Dc & Ds & Dpe & Dn & Dsu & Dcf & Dpl & De)].
  destruct (cache_delete s1 k) as [s2 ok]. cbn [fst snd] in *. subst ok.
  exists s2. split; [reflexivity|].
  assert (Hc : lookup (cache s2) k = None) by (rewrite Dc; apply lookup_remove_same).
  assert (Hs : lookup (store s2) k = None) by (rewrite Ds; apply lookup_remove_same).
  repeat split; try assumption.
  - rewrite (L_uncached _ _ Hc). exact Hs.
  - rewrite De. cbn. exact (qu_draws _ _ Q).
Qed.

(* --------------------------------------------------- chains of references *)

(* r is the head of a chain of intact reference records through the IDs in
   rest, ending at a record that is not a reference *)
Fixpoint chain_rec (s : st) (r : rec) (rest : list key) : Prop :=
  match rest with
  | [] => r_ref r = None
  | k' :: t => r_ref r = Some k' /\ exists r', L s k' = Some r' /\ chain_rec s r' t
  end.

Definition chain_from (s : st) (k : key) (rest : list key) : Prop :=
  exists r, L s k = Some r /\ chain_rec s r rest.

Lemma chain_rec_ref s r1 r2 rest : r_ref r1 = r_ref r2 -> chain_rec s r1 rest -> chain_rec s r2 rest.
Proof. intro H. destruct rest; cbn; rewrite H; auto. Qed.

Lemma chain_rec_pres s s' rest : Lpres s s' -> forall r, chain_rec s r rest -> chain_rec s' r rest.
Proof.
  intro HL. induction rest as [|k' t IH]; intros r H; cbn in *; [exact H|].
  destruct H as [Hr [r' [Hl Hc]]]. split; [exact Hr|].
  destruct (HL k') as [E|E]; rewrite Hl in E.
  - exists r'. split; [exact E | apply IH; exact Hc].
  - exists (codec (conf s) r'). split; [exact E|]. apply IH.
    eapply chain_rec_ref; [|exact Hc]. reflexivity.
Qed.

Lemma last_cons {A} (a : A) l d : last (a :: l) d = last l a.
Proof.
  revert a d; induction l as [|b l IH]; intros a d; [reflexivity|].
  change (last (a :: b :: l) d) with (last (b :: l) d). rewrite (IH b d), (IH b a). reflexivity.
Qed.

(* follow on the head object of an intact chain: it ends at the last ID, at
   an object that is not a reference and is what L maps that ID to *)
Lemma follow_chain rest : forall fuel s o ob lk,
  length rest <= fuel ->
  plan s = [] -> cache_ok s -> NoDup (map fst (cache s)) ->
  (forall k, In k rest -> k <> KGen (supply s)) ->
  hget s o = Some ob -> chain_rec s (o_rec ob) rest ->
  exists s' o' ob',
    follow fuel s o lk = (s', Ok (o', last rest lk)) /\ quiet s s' /\
    hget s' o' = Some ob' /\ r_ref (o_rec ob') = None /\ o_id ob' = last rest (o_id ob) /\
    (rest = [] -> o' = o /\ s' = s) /\
    (rest <> [] -> L s' (o_id ob') = Some (o_rec ob') /\
                   exists rn, L s (o_id ob') = Some rn /\
                              (o_rec ob' = rn \/ o_rec ob' = codec (conf s) rn)).
Proof.
  induction rest as [|k' t IH]; intros fuel s o ob lk Hfuel Hp Hco Hnd Hnj Hg Hch.
  - cbn in Hch. exists s, o, ob.
    assert (E : follow fuel s o lk = (s, Ok (o, lk))) by (destruct fuel; cbn; rewrite Hg, Hch; reflexivity).
    split; [exact E|]. split; [apply quiet_refl; assumption|].
    repeat split; auto; congruence.
  - destruct Hch as [Hr [r' [Hl Hc]]]. destruct fuel as [|f]; [cbn in Hfuel; lia|].
    cbn [follow]. rewrite Hg, Hr.
    destruct (lookup_found s k' r' Hp Hco Hnd (Hnj k' (or_introl eq_refl)) Hl) as [s1 [o1 [Eg P]]].
    rewrite Eg. destruct P as [Q Pobj Pca PLk].
    destruct (IH f s1 o1 (mkObj k' r') k') as [s' [o' [ob' (E & Q' & Hg' & Hr' & Hid' & Hnil & Hcons)]]].
    + cbn in Hfuel. lia.
    + exact (qu_plan _ _ Q).
    + exact (qu_cok _ _ Q).
    + exact (qu_ndc _ _ Q).
    + intros k Hin. rewrite (qu_supply _ _ Q). apply Hnj. right. exact Hin.
    + exact Pobj.
    + cbn [o_rec]. eapply chain_rec_pres; [exact (qu_L _ _ Q) | exact Hc].
    + exists s', o', ob'. split; [rewrite last_cons; exact E|]. split; [eapply quiet_trans; eassumption|].
      split; [exact Hg'|]. split; [exact Hr'|].
      split; [rewrite last_cons; exact Hid'|]. split; [discriminate|]. intros _.
      destruct t as [|k2 t'].
      * (* the found object is the end of the chain *)
        destruct (Hnil eq_refl) as [-> ->].
        assert (ob' = mkObj k' r') by congruence. subst ob'. cbn [o_id o_rec].
        split; [exact PLk|]. exists r'. split; [exact Hl | left; reflexivity].
      * destruct (Hcons ltac:(discriminate)) as [HL' [rn [Hrn Hcase]]]. split; [exact HL'|].
        (* L s1 and L s agree up to the codec *)
        destruct (qu_L _ _ Q (o_id ob')) as [EL|EL]; rewrite EL in Hrn.
        -- exists rn. split; [exact Hrn|]. rewrite <- (qu_conf _ _ Q). exact Hcase.
        -- destruct (L s (o_id ob')) as [r0|] eqn:E0; [|discriminate]. cbn in Hrn. injection Hrn as <-.
           exists r0. split; [reflexivity|]. right.
           destruct Hcase as [Hcase|Hcase]; rewrite Hcase; [reflexivity|].
           rewrite (qu_conf _ _ Q). apply codec_idem.
Qed.

(* ------------------------------------------ fuel: references point upwards *)

(* Every reference names a generated ID that has been drawn, with a strictly
   larger ordinal than the ID it is stored under. (RegenerateID writes
   KGen n -> KGen (supply), n < supply.) *)
Definition ref_wf (s : st) : Prop :=
  forall k r t, L s k = Some r -> r_ref r = Some t ->
    exists m, t = KGen m /\ (m < supply s)%N /\ (forall n, k = KGen n -> (n < m)%N).

Lemma ref_wf_pres s s' : Lpres s s' -> supply s' = supply s -> ref_wf s -> ref_wf s'.
Proof.
  intros HL Hs H k r t Hl Hr. rewrite Hs. destruct (HL k) as [E|E]; rewrite Hl in E.
  - apply (H k r t); [symmetry; exact E | exact Hr].
  - destruct (L s k) as [r0|] eqn:E0; [|discriminate]. cbn in E. injection E as ->.
    apply (H k r0 t); [exact E0 | exact Hr].
Qed.

(* an intact chain is shorter than the number of IDs drawn *)
Lemma chain_len s : ref_wf s -> forall t k r k1,
  L s k = Some r -> chain_rec s r (k1 :: t) ->
  exists m1, k1 = KGen m1 /\ N.to_nat m1 + length (k1 :: t) <= N.to_nat (supply s).
Proof.
  intros Hw. induction t as [|k2 t' IH]; intros k r k1 Hl [Hr [r1 [Hl1 Hc1]]].
  - destruct (Hw k r k1 Hl Hr) as [m [-> [Hm _]]]. exists m. split; [reflexivity|]. cbn. lia.
  - destruct (Hw k r k1 Hl Hr) as [m [-> [Hm _]]]. exists m. split; [reflexivity|].
    destruct (IH (KGen m) r1 k2 Hl1 Hc1) as [m2 [E2 Hlen]].
    destruct Hc1 as [Hr1 _]. destruct (Hw (KGen m) r1 k2 Hl1 Hr1) as [m2' [E2' [_ Hlt]]].
    assert (m2' = m2) by congruence. subst m2'. specialize (Hlt m eq_refl).
    cbn [length] in *. lia.
Qed.

Lemma chain_rec_L s rest : forall r k', chain_rec s r rest -> In k' rest -> exists r', L s k' = Some r'.
Proof.
  induction rest as [|k1 t IH]; intros r k' Hc Hin; [contradiction|].
  destruct Hc as [_ [r1 [Hl1 Hc1]]]. destruct Hin as [<-|Hin]; [exists r1; exact Hl1 | eapply IH; eassumption].
Qed.

(* ERefLoop is unreachable: S supply hops are never used up *)
Lemma follow_no_loop fuel : forall s o ob lk,
  plan s = [] -> cache_ok s -> NoDup (map fst (cache s)) -> ref_wf s ->
  hget s o = Some ob ->
  (forall t, r_ref (o_rec ob) = Some t ->
     exists m, t = KGen m /\ (m < supply s)%N /\ N.to_nat (supply s) - N.to_nat m <= fuel) ->
  snd (follow fuel s o lk) <> Err ERefLoop.
Proof.
  induction fuel as [|f IH]; intros s o ob lk Hp Hco Hnd Hw Hg Ht; cbn [follow]; rewrite Hg.
  - destruct (r_ref (o_rec ob)) as [t|] eqn:Er; [|discriminate].
    destruct (Ht t eq_refl) as [m [_ [Hm Hf]]]. lia.
  - destruct (r_ref (o_rec ob)) as [t|] eqn:Er; [|discriminate].
    destruct (Ht t eq_refl) as [m [-> [Hm Hf]]].
    destruct (L s (KGen m)) as [r'|] eqn:El.
    + assert (Hnj : KGen m <> KGen (supply s)) by (intro E; injection E as E; lia).
      destruct (lookup_found s (KGen m) r' Hp Hco Hnd Hnj El) as [s1 [o1 [Eg [Q Pobj _ _]]]].
      rewrite Eg. apply (IH s1 o1 (mkObj (KGen m) r') (KGen m)).
      * exact (qu_plan _ _ Q).
      * exact (qu_cok _ _ Q).
      * exact (qu_ndc _ _ Q).
      * exact (ref_wf_pres s s1 (qu_L _ _ Q) (qu_supply _ _ Q) Hw).
      * exact Pobj.
      * cbn [o_rec]. intros t' Hr'. destruct (Hw (KGen m) r' t' El Hr') as [m' [-> [Hm' Hnm]]].
        specialize (Hnm m eq_refl).
        exists m'. rewrite (qu_supply _ _ Q). split; [reflexivity|]. split; [exact Hm' | lia].
    + (* the target is gone: a different error *)
      unfold L in El. destruct (lookup (cache s) (KGen m)) as [o'|] eqn:Ec.
      * destruct (Hco _ _ Ec) as [ob' [Hg' _]]. rewrite Hg' in El. discriminate.
      * rewrite (cache_get_absent s (KGen m) Hp Ec El). cbn. discriminate.
Qed.

Corollary follow_fuel_suffices s o ob lk :
  plan s = [] -> cache_ok s -> nodup_ok s -> ref_wf s -> hget s o = Some ob ->
  L s (o_id ob) = Some (o_rec ob) ->
  snd (follow (S (N.to_nat (supply s))) s o lk) <> Err ERefLoop.
Proof.
  intros Hp Hco [Hnd _] Hw Hg Hl. apply (follow_no_loop _ s o ob lk Hp Hco Hnd Hw Hg).
  intros t Hr. destruct (Hw _ _ t Hl Hr) as [m [-> [Hm _]]].
  exists m. split; [reflexivity|]. split; [exact Hm | lia].
Qed.

(* ------------------------------------------- C05_chain for Start *)

Theorem start_chain s q k r rest :
  plan s = [] -> cache_ok s -> nodup_ok s -> fresh_ok s -> ref_wf s ->
  q_cookie q = CKey k -> L s k = Some r -> chain_rec s r rest -> rest <> [] ->
  valid_for (conf s) r (now s) q = true ->
  (since (r_created r) (now s) < sat_add (c_idexpiry (conf s)) (c_grace (conf s)))%Z ->
  let kn := last rest k in
  exists s' o' rn r',
    start s q = (s', Ok (Some o'), [CkLive kn]) /\
    L s kn = Some rn /\ r_ref rn = None /\ (r' = rn \/ r' = codec (conf s) rn) /\
    hget s' o' = Some (mkObj kn (seen_rec r' (now s) q)) /\
    draws (evs s') = draws (evs s) /\ supply s' = supply s /\
    (exists rk, L s' kn = Some rk /\ r_ref rk = None).
Proof.
  intros Hp Hco [Hndc Hnds] Hf Hw Hq HL Hch Hne Hvalid Hage kn.
  pose proof (drawn_not_next s k (L_drawn s k r Hf HL)) as Hkj.
  destruct (lookup_found s k r Hp Hco Hndc Hkj HL) as [s1 [o0 [Eg [Q Pobj Pca PLk]]]].
  assert (Href : exists k1, r_ref r = Some k1).
  { destruct rest as [|k1 t]; [congruence|]. exists k1. apply Hch. }
  destruct Href as [k1 Href].
  unfold start. rewrite Hq, Eg. cbn [negb]. rewrite Pobj. cbn [o_rec]. rewrite (qu_now _ _ Q).
  unfold valid_for in Hvalid. rewrite Hvalid. cbn [negb]. rewrite Href. cbn [negb andb].
  replace (sat_add (c_idexpiry (conf s)) (c_grace (conf s)) <=? since (r_created r) (now s))%Z with false
    by (symmetry; apply Z.leb_gt; exact Hage).
  assert (Hlen : length rest <= N.to_nat (supply s)).
  { destruct rest as [|k1' t']; [congruence|].
    destruct (chain_len s Hw t' k r k1' HL Hch) as [m1 [_ Hl1]]. lia. }
  destruct (follow_chain rest (S (N.to_nat (supply s1))) s1 o0 (mkObj k r) k)
    as [s2 [o' [ob' (Ef & Q2 & Hg2 & Hr2 & Hid2 & _ & Hcons)]]].
  - rewrite (qu_supply _ _ Q). lia.
  - exact (qu_plan _ _ Q).
  - exact (qu_cok _ _ Q).
  - exact (qu_ndc _ _ Q).
  - intros k' Hin. rewrite (qu_supply _ _ Q). destruct (chain_rec_L s rest r k' Hch Hin) as [r' Hl'].
    apply drawn_not_next. eapply L_drawn; eassumption.
  - exact Pobj.
  - cbn [o_rec]. eapply chain_rec_pres; [exact (qu_L _ _ Q) | exact Hch].
  - rewrite Ef. fold kn. cbn [o_id] in Hid2. fold kn in Hid2. cbn [app].
    destruct (Hcons Hne) as [HL2 [rn1 [Hrn1 Hcase1]]]. rewrite Hid2 in HL2, Hrn1.
    (* back from s1 to s *)
    assert (Hrn : exists rn, L s kn = Some rn /\ (o_rec ob' = rn \/ o_rec ob' = codec (conf s) rn)).
    { destruct (qu_L _ _ Q kn) as [EL|EL]; rewrite EL in Hrn1.
      - exists rn1. split; [exact Hrn1|]. rewrite <- (qu_conf _ _ Q). exact Hcase1.
      - destruct (L s kn) as [r0|] eqn:E0; [|discriminate]. cbn in Hrn1. injection Hrn1 as <-.
        exists r0. split; [reflexivity|]. right.
        destruct Hcase1 as [Hc1|Hc1]; rewrite Hc1; [reflexivity|].
        rewrite (qu_conf _ _ Q). apply codec_idem. }
    destruct Hrn as [rn [Hrn Hcase]].
    set (s' := hupd s2 o' _).
    exists s', o', rn, (o_rec ob'). split; [reflexivity|].
    destruct (hupd_fields s2 o' (fun r0 => set_ua (set_ip (set_access r0 (now s2)) (q_addr q)) (q_ua q)))
      as (Hc & Hs & Hpe & He & Hsu & Hn & Hcf & Hpl).
    fold s' in Hc, Hs, Hpe, He, Hsu, Hn, Hcf, Hpl.
    assert (Ho : hget s' o' = Some (mkObj kn (seen_rec (o_rec ob') (now s) q))).
    { unfold s'. rewrite (hget_hupd_same s2 o' _ _ Hg2). rewrite Hid2.
      rewrite (qu_now _ _ Q2), (qu_now _ _ Q). reflexivity. }
    split; [exact Hrn|]. split.
    { destruct Hcase as [Hc0|Hc0]; rewrite Hc0 in Hr2; exact Hr2. }
    split; [exact Hcase|]. split; [exact Ho|].
    split; [rewrite He, (qu_draws _ _ Q2); exact (qu_draws _ _ Q)|].
    split; [rewrite Hsu, (qu_supply _ _ Q2); exact (qu_supply _ _ Q)|].
    (* L s' kn: the cached object (updated) or the stored record *)
    unfold L. rewrite Hc, Hs. unfold L in HL2.
    destruct (lookup (cache s2) kn) as [ox|] eqn:Ecx.
    + destruct (Nat.eq_dec o' ox) as [<-|Hnx].
      * rewrite Ho. eexists. split; [reflexivity|]. exact Hr2.
      * unfold s'. rewrite hget_hupd_other by exact Hnx.
        destruct (hget s2 ox) as [obx|]; [|discriminate]. injection HL2 as HL2.
        eexists. split; [reflexivity|]. rewrite HL2. exact Hr2.
    + exists (o_rec ob'). split; [exact HL2 | exact Hr2].
Qed.

(* ------------------------------- RegenerateID keeps references pointing up *)

Lemma regenerate_ref_wf s o ob s' res cks :
  plan s = [] -> cache_ok s -> nodup_ok s -> fresh_ok s -> ref_wf s ->
  hget s o = Some ob -> r_ref (o_rec ob) = None ->
  regenerate s o = (s', res, cks) -> ref_wf s'.
Proof.
  intros Hp Hco [Hndc Hnds] Hf Hw Hg Href E.
  destruct (regenerate_ff s o ob Hp Hndc (cache_ok_heap s Hco Hndc) Hg (fresh_cache_none s Hf)
              (fresh_obj_id s o ob Hf Hg)) as [s2 [E2 P]].
  rewrite E in E2. injection E2 as <- _ _.
  destruct (regen_post_view s o ob s' Hg P) as (_ & V2 & _ & V4 & V5 & _).
  pose proof (hget_Some_lt _ _ _ Hg) as Hlt.
  assert (Hother : forall o' ob', o' <> o -> hget s o' = Some ob' -> hget s' o' = Some ob').
  { intros o' ob' Hne Hg'. pose proof (hget_Some_lt _ _ _ Hg') as Hlt'.
    unfold hget in *. rewrite (rg_heap _ _ _ _ P).
    rewrite nth_error_app1 by (rewrite replace_nth_length; exact Hlt').
    rewrite nth_replace_nth_other by congruence. exact Hg'. }
  intros k r t Hl Hr. rewrite V2.
  destruct (key_eq_dec k (KGen (supply s))) as [->|Hkj].
  { rewrite V4 in Hl. injection Hl as <-.
    destruct (cached s' (KGen (supply s))); cbn in Hr; congruence. }
  destruct (key_eq_dec k (o_id ob)) as [->|Hko].
  { rewrite V5 in Hl. injection Hl as <-.
    assert (t = KGen (supply s)) by (destruct (cached s' (o_id ob)); cbn in Hr; congruence). subst t.
    exists (supply s). split; [reflexivity|]. split; [lia|].
    intros n En. destruct Hf as [_ [_ [F3 _]]]. destruct (F3 o ob Hg) as [Hd _].
    rewrite En in Hd. exact Hd. }
  assert (Hs : exists r0, L s k = Some r0 /\ r_ref r0 = r_ref r).
  { destruct (rg_keys _ _ _ _ P k Hko Hkj) as [[K1 K2]|[K1 [o' [ob' [K2 [K3 K4]]]]]].
    - unfold L in Hl |- *. rewrite K1, K2 in Hl. destruct (lookup (cache s) k) as [o'|] eqn:Ec.
      + destruct (Hco _ _ Ec) as [ob' [Hg' Hid']].
        assert (o' <> o) by (intros ->; congruence).
        rewrite Hg'. rewrite (Hother o' ob' H Hg') in Hl. exists (o_rec ob'). split; congruence.
      + exists r. auto.
    - destruct (Hco _ _ K2) as [ob0 [Hg0 Hid0]].
      assert (o' <> o) by (intros ->; congruence).
      pose proof (Hother o' ob0 H Hg0) as Hg0'. assert (ob0 = ob') by congruence. subst ob0.
      rewrite (L_uncached _ _ K1), K4 in Hl. injection Hl as <-.
      exists (o_rec ob'). split; [apply (L_cached s k o' ob' K2 Hg0) | reflexivity]. }
  destruct Hs as [r0 [Hl0 Hr0]]. rewrite <- Hr0 in Hr.
  destruct (Hw k r0 t Hl0 Hr) as [m [-> [Hm Hn]]].
  exists m. split; [reflexivity|]. split; [lia | exact Hn].
Qed.

Lemma ref_wf_init c : ref_wf (init_st c).
Proof. intros k r t H. discriminate. Qed.

(* right after an ID change the replaced ID heads an intact chain of length 1 *)
Lemma regenerate_chain s o ob s' res cks :
  plan s = [] -> cache_ok s -> nodup_ok s -> fresh_ok s ->
  hget s o = Some ob -> r_ref (o_rec ob) = None ->
  regenerate s o = (s', res, cks) -> chain_from s' (o_id ob) [KGen (supply s)].
Proof.
  intros Hp Hco Hnd Hf Hg Href E.
  destruct (regenerate_C04 s o ob Hp Hco Hnd Hf Hg) as [s2 (E2 & _ & _ & _ & V4 & V5 & _)].
  rewrite E in E2. injection E2 as <- _ _.
  eexists. split; [exact V5|]. cbn [chain_rec]. split.
  - destruct (cached s' (o_id ob)); reflexivity.
  - eexists. split; [exact V4|]. destruct (cached s' (KGen (supply s))); cbn; exact Href.
Qed.
