(* Laws of Start, part 5: C03_live along a run. A client keeps presenting its
   ID; between its requests anything may happen that leaves the logical content
   of that ID (modulo codec) and the configuration alone ("quiet" steps:
   evictions, idle sweeps, the clock, other clients' requests). If the gaps are
   below SessionExpiry (minus the codec's resolution), each request's peer and
   agent are acceptable relative to the previous one, and no rotation falls
   due, every request is served with the same durable content. *)
From Sessions Require Import Model.Base Model.Sess Model.Hist
  Proofs.SessDefs Proofs.StartLaws Proofs.StartLaws2 Proofs.StartLaws3 Proofs.StartLaws4.
From Coq Require Import Lia ZifyBool.

(* ------------------------------------------------------------ quiet steps *)

Definition quiet (k : key) (s s' : st) : Prop :=
  conf s' = conf s /\ Lc s' k = Lc s k /\ (ok s -> ok s').

Lemma quiet_refl k s : quiet k s s.
Proof. split; [reflexivity|]. split; [reflexivity|]. intro H; exact H. Qed.

Lemma quiet_trans k a b c : quiet k a b -> quiet k b c -> quiet k a c.
Proof. intros (H1 & H2 & H3) (H4 & H5 & H6). split; [congruence|]. split; [congruence | auto]. Qed.

Lemma flush_quiet k s s' : flush s s' -> plan s = [] -> quiet k s s'.
Proof.
  intros Hf Hp. destruct (flush_props s s' Hf Hp) as [h1 h2 h3 h4 h5 h6 h7 h8 h9 h9' h10 h10' h11 h12 h13].
  split; [exact h6|]. split; [apply h8|]. intros (_ & Hc & Hn). split; [exact h7|]. split; [|apply h10; exact Hn].
  intros k' o' H. apply h9 in H. destruct (Hc k' o' H) as (ob & Ho & Hid). exists ob.
  split; [|exact Hid]. unfold hget in *. rewrite h1. exact Ho.
Qed.

Lemma compact_quiet k s req : ok s -> quiet k s (compact s req).
Proof.
  intros (Hp & Hc & Hn). apply flush_quiet; [|exact Hp]. apply compact_flush_nodup; assumption.
Qed.

Lemma set_now_quiet k s t : quiet k s (set_now s t).
Proof. split; [reflexivity|]. split; [reflexivity|]. intro H; exact H. Qed.

Lemma set_tb_quiet k s l : quiet k s (set_tb s l).
Proof. split; [reflexivity|]. split; [reflexivity|]. intro H; exact H. Qed.

Lemma set_evs_quiet k s l : quiet k s (set_evs s l).
Proof. split; [reflexivity|]. split; [reflexivity|]. intro H; exact H. Qed.

(* other clients' requests that get no session, for any drawn k they do not present *)
Lemma unknown_request_quiet s q k0 k :
  plan s = [] -> cache_ok s -> nodup_ok s -> fresh_ok s ->
  q_cookie q = CKey k0 -> L s k0 = None -> key_drawn s k ->
  quiet k s (fst (fst (start s q))).
Proof.
  intros Hp Hc Hn Hf Hq HL Hd.
  destruct (unknown_cookie s q k0 Hp Hc Hn Hf Hq HL) as (s' & res & nck & new & Hst & _ & Hfr & _ & Hok & Hcf & _).
  rewrite Hst. cbn [fst]. split; [exact Hcf|]. split; [|intros _; exact Hok].
  apply Hfr. apply drawn_not_next. exact Hd.
Qed.

Lemma nolookup_request_quiet s q k :
  plan s = [] -> cache_ok s -> nodup_ok s -> fresh_ok s ->
  (forall k0, q_cookie q <> CKey k0) -> key_drawn s k ->
  quiet k s (fst (fst (start s q))).
Proof.
  intros Hp Hc Hn Hf Hq Hd.
  destruct (no_lookup s q Hp Hc Hn Hf Hq) as (s' & res & nck & new & Hst & _ & Hfr & _ & Hok & Hcf & _).
  rewrite Hst. cbn [fst]. split; [exact Hcf|]. split; [|intros _; exact Hok].
  apply Hfr. apply drawn_not_next. exact Hd.
Qed.

Lemma invalid_request_quiet s q k0 r0 k :
  plan s = [] -> cache_ok s -> nodup_ok s -> fresh_ok s ->
  q_cookie q = CKey k0 -> L s k0 = Some r0 -> start_valid (conf s) r0 q (now s) = false ->
  k <> k0 -> key_drawn s k ->
  quiet k s (fst (fst (start s q))).
Proof.
  intros Hp Hc Hn Hf Hq HL Hv Hne Hd.
  destruct (invalid_destroys s q k0 r0 Hp Hc Hn Hf Hq HL Hv) as (s' & res & nck & Hst & _ & _ & _ & Hfr & _ & Hok & Hcf).
  rewrite Hst. cbn [fst]. split; [exact Hcf|]. split; [|intros _; exact Hok].
  apply Hfr; [exact Hne | apply drawn_not_next; exact Hd].
Qed.

Lemma plain_request_quiet s q k0 r0 k :
  plan s = [] -> cache_ok s -> nodup_ok s ->
  q_cookie q = CKey k0 -> L s k0 = Some r0 -> r_ref r0 = None ->
  start_valid (conf s) r0 q (now s) = true ->
  (c_idexpiry (conf s) <=? since (r_created r0) (now s))%Z = false ->
  (sat_add (c_idexpiry (conf s)) (c_grace (conf s)) <=? since (r_created r0) (now s))%Z = false ->
  k <> k0 ->
  quiet k s (fst (fst (start s q))).
Proof.
  intros Hp Hc Hn Hq HL Hr Hv H1 H2 Hne.
  destruct (live_touch s q k0 r0 Hp Hc Hn Hq HL Hr Hv H1 H2) as (s' & o & Hst & _ & _ & _ & Hfr & Hok & Hcf & _).
  rewrite Hst. cbn [fst]. split; [exact Hcf|]. split; [|intros _; exact Hok]. apply Hfr. exact Hne.
Qed.

(* ----------------------------------------------------------- pure facts *)

Lemma clamp64_mono a b : (a <= b)%Z -> (clamp64 a <= clamp64 b)%Z.
Proof.
  intro H. unfold clamp64, min64, max64.
  destruct (a <? -9223372036854775808)%Z eqn:E1; destruct (b <? -9223372036854775808)%Z eqn:E2;
    destruct (9223372036854775807 <? a)%Z eqn:E3; destruct (9223372036854775807 <? b)%Z eqn:E4; lia.
Qed.

Lemma since_anti c1 c2 t : (c1 <= c2)%Z -> (since c2 t <= since c1 t)%Z.
Proof. intro H. unfold since. apply clamp64_mono. lia. Qed.

Lemma codec_created_le c r : (r_created (codec c r) <= r_created r)%Z.
Proof.
  unfold codec. cbn [r_created]. destruct (c_json c); [|lia]. unfold second.
  pose proof (Z.mod_pos_bound (r_created r) 1000000000 ltac:(lia)). lia.
Qed.

Lemma durable_codec_touch c s q r : durable (codec c (touch s q r)) = durable (codec c r).
Proof. reflexivity. Qed.

Lemma ip_ok_same n a : ip_ok n a a = true.
Proof.
  unfold ip_ok. destruct (1 <? n)%Z; [|reflexivity]. destruct a; [|reflexivity].
  destruct (n <=? 4)%Z; [|reflexivity]. rewrite !N.eqb_refl.
  destruct (2 <=? n)%Z, (3 <=? n)%Z, (4 <=? n)%Z; reflexivity.
Qed.

Lemma ua_ok_same b u : ua_ok b u u = true.
Proof. unfold ua_ok. rewrite N.eqb_refl. rewrite !orb_true_r. reflexivity. Qed.

(* -------------------------------------------------------- the invariant *)

(* The logical content of k is (modulo codec) the ghost record rl — the record
   as the client's last accepted request left it — and its durable part is d. *)
Definition live_inv (k : key) (d : Z * option key * option N * option (list (N * N)))
           (s : st) (rl : rec) : Prop :=
  ok s /\ Lc s k = Some (codec (conf s) rl) /\ durable (codec (conf s) rl) = d /\ r_ref rl = None.

Lemma live_inv_quiet k d s s' rl : live_inv k d s rl -> quiet k s s' -> live_inv k d s' rl.
Proof.
  intros (Hok & HL & Hd & Hr) (Hcf & HLc & Hok'). split; [auto|]. rewrite Hcf, HLc. auto.
Qed.

Lemma live_inv_init k s r : ok s -> L s k = Some r -> r_ref r = None ->
  live_inv k (durable (codec (conf s) r)) s r.
Proof. intros Hok HL Hr. split; [exact Hok|]. unfold Lc. rewrite HL. auto. Qed.

Definition created_of (d : Z * option key * option N * option (list (N * N))) : Z :=
  fst (fst (fst d)).

(* One accepted request. *)
Theorem live_round k d s rl q :
  live_inv k d s rl ->
  c_maxcache (conf s) <> 0%Z ->
  (0 <= c_expiry (conf s))%Z -> (0 <= c_grace (conf s))%Z -> (c_idexpiry (conf s) <= max64)%Z ->
  q_cookie q = CKey k ->
  (now s - r_access rl + slack (conf s) < c_expiry (conf s))%Z ->
  ip_ok (c_acceptip (conf s)) (r_ip rl) (q_addr q) = true ->
  ua_ok (c_acceptua (conf s)) (r_ua rl) (q_ua q) = true ->
  (c_idexpiry (conf s) <=? since (created_of d) (now s))%Z = false ->
  exists s' o r,
    start s q = (s', Ok (Some o), []) /\
    hget s' o = Some (mkObj k (touch s q r)) /\
    durable (codec (conf s) (touch s q r)) = d /\
    conf s' = conf s /\ now s' = now s /\
    live_inv k d s' (touch s q r).
Proof.
  intros ((Hp & Hc & Hn) & HL & Hd & Hr) Hmx He Hg Hi Hq Hgap Hip Hua Hrot.
  unfold Lc in HL. destruct (L s k) as [r|] eqn:HLk; [|discriminate]. cbn [option_map] in HL.
  assert (Hcd : codec (conf s) r = codec (conf s) rl) by congruence. clear HL.
  assert (Hrr : r_ref r = None).
  { apply (f_equal r_ref) in Hcd. cbn in Hcd. congruence. }
  assert (Hipr : r_ip r = r_ip rl) by (apply (f_equal r_ip) in Hcd; exact Hcd).
  assert (Huar : r_ua r = r_ua rl) by (apply (f_equal r_ua) in Hcd; exact Hcd).
  pose proof (codec_access _ _ _ Hcd) as Hacc.
  assert (Hst : stale (conf s) r (now s) = false).
  { unfold stale, since, clamp64, min64, max64.
    destruct (now s - r_access r <? -9223372036854775808)%Z eqn:E1; [lia|].
    destruct (9223372036854775807 <? now s - r_access r)%Z eqn:E2; lia. }
  assert (Hv : start_valid (conf s) r q (now s) = true).
  { rewrite start_valid_meaning, Hst, Hipr, Huar, Hip, Hua. reflexivity. }
  assert (Hcr : (created_of d <= r_created r)%Z).
  { rewrite <- Hd, <- Hcd. unfold created_of, durable. cbn [fst]. apply codec_created_le. }
  assert (Hrot' : (c_idexpiry (conf s) <=? since (r_created r) (now s))%Z = false).
  { pose proof (since_anti _ _ (now s) Hcr). lia. }
  assert (Hback : (sat_add (c_idexpiry (conf s)) (c_grace (conf s)) <=? since (r_created r) (now s))%Z = false).
  { apply backstop_not_before_rotation; auto. apply since_le_max. }
  assert (Hok : ok s) by (repeat split; assumption).
  destruct (live_touch_ok s q k r Hok Hq HLk Hrr Hv Hrot' Hback)
    as (s' & o & Hstart & Hob & Hcached & _ & _ & Hok' & Hcf' & Hnow').
  exists s', o, r. split; [exact Hstart|]. split; [exact Hob|].
  assert (Hdur : durable (codec (conf s) (touch s q r)) = d).
  { rewrite durable_codec_touch, Hcd. exact Hd. }
  split; [exact Hdur|]. split; [exact Hcf'|]. split; [exact Hnow'|].
  split; [exact Hok'|]. destruct (Hcached (or_intror Hmx)) as [_ HL']. split.
  - unfold Lc. rewrite HL'. reflexivity.
  - rewrite Hcf'. split; [exact Hdur | exact Hrr].
Qed.

(* ----------------------------------------------------------------- runs *)

(* the client's requests: instant, peer, agent, createIfNew *)
Record areq := mkAReq { a_time : Z; a_addr : addr; a_ua : N; a_create : bool }.

Definition req_of (k : key) (x : areq) : request := mkReq (CKey k) (a_create x) (a_addr x) (a_ua x).

(* every gap is short enough, every peer/agent acceptable relative to the
   previous request's, and no rotation falls due *)
Fixpoint spaced (c : cfg) (created tlast : Z) (alast : addr) (ulast : N) (l : list areq) : Prop :=
  match l with
  | [] => True
  | x :: t =>
    (a_time x - tlast + slack c < c_expiry c)%Z /\
    ip_ok (c_acceptip c) alast (a_addr x) = true /\
    ua_ok (c_acceptua c) ulast (a_ua x) = true /\
    (c_idexpiry c <=? since created (a_time x))%Z = false /\
    spaced c created (a_time x) (a_addr x) (a_ua x) t
  end.

(* whatever quiet steps come before each request, it is served: same ID, no
   cookie, same durable content *)
Fixpoint always_served (k : key) (d : Z * option key * option N * option (list (N * N)))
         (l : list areq) (s : st) : Prop :=
  match l with
  | [] => True
  | x :: t =>
    forall s1, quiet k s s1 -> now s1 = a_time x ->
      exists s' o ob,
        start s1 (req_of k x) = (s', Ok (Some o), []) /\
        hget s' o = Some ob /\ o_id ob = k /\ durable (codec (conf s) (o_rec ob)) = d /\
        always_served k d t s'
  end.

Theorem live_run k d l : forall s rl,
  live_inv k d s rl ->
  c_maxcache (conf s) <> 0%Z ->
  (0 <= c_expiry (conf s))%Z -> (0 <= c_grace (conf s))%Z -> (c_idexpiry (conf s) <= max64)%Z ->
  spaced (conf s) (created_of d) (r_access rl) (r_ip rl) (r_ua rl) l ->
  always_served k d l s.
Proof.
  induction l as [|x t IH]; intros s rl Hinv Hmx He Hg Hi Hsp; cbn [always_served]; [exact I|].
  intros s1 Hq Hnow. destruct Hsp as (Hgap & Hip & Hua & Hrot & Hsp).
  pose proof (live_inv_quiet _ _ _ _ _ Hinv Hq) as Hinv1. destruct Hq as (Hcf & _ & _).
  destruct (live_round k d s1 rl (req_of k x) Hinv1) as (s' & o & r & Hst & Hob & Hd & Hcf' & Hnow' & Hinv');
    try (rewrite Hcf; assumption); try reflexivity.
  - rewrite Hcf, Hnow. exact Hgap.
  - rewrite Hcf, Hnow. exact Hrot.
  - exists s', o, (mkObj k (touch s1 (req_of k x) r)). split; [exact Hst|]. split; [exact Hob|].
    split; [reflexivity|]. split; [rewrite <- Hcf; exact Hd|].
    apply (IH s' (touch s1 (req_of k x) r) Hinv'); try (rewrite Hcf', Hcf; assumption).
    rewrite Hcf', Hcf. cbn. rewrite Hnow. exact Hsp.
Qed.

(* the vocabulary, unfolded *)
Lemma quiet_meaning k s s' : quiet k s s' <-> conf s' = conf s /\ Lc s' k = Lc s k /\ (ok s -> ok s').
Proof. reflexivity. Qed.

Lemma live_inv_meaning k d s rl :
  live_inv k d s rl <->
  ok s /\ Lc s k = Some (codec (conf s) rl) /\ durable (codec (conf s) rl) = d /\ r_ref rl = None.
Proof. reflexivity. Qed.

Lemma always_served_meaning k d x t s :
  always_served k d (x :: t) s <->
  forall s1, quiet k s s1 -> now s1 = a_time x ->
    exists s' o ob,
      start s1 (mkReq (CKey k) (a_create x) (a_addr x) (a_ua x)) = (s', Ok (Some o), []) /\
      hget s' o = Some ob /\ o_id ob = k /\ durable (codec (conf s) (o_rec ob)) = d /\
      always_served k d t s'.
Proof. reflexivity. Qed.

Lemma spaced_meaning c created tlast alast ulast x t :
  spaced c created tlast alast ulast (x :: t) <->
  (a_time x - tlast + slack c < c_expiry c)%Z /\
  ip_ok (c_acceptip c) alast (a_addr x) = true /\
  ua_ok (c_acceptua c) ulast (a_ua x) = true /\
  (c_idexpiry c <=? since created (a_time x))%Z = false /\
  spaced c created (a_time x) (a_addr x) (a_ua x) t.
Proof. reflexivity. Qed.

(* ------------------------------------------------------------ examples *)

Module Examples5.
  Import StartLaws4.Examples.

  Definition r0 : rec := mkRec 0 0 peer 7 None None (Some []).

  Definition m1 : st := Eval vm_compute in made 1.

  Lemma m1_is_run : m1 = made 1.
  Proof. vm_compute. reflexivity. Qed.

  Lemma made1_ok : ok m1.
  Proof.
    split; [reflexivity|]. split.
    - intros k o H. vm_compute in H. destruct k as [n|n]; [|discriminate].
      destruct n; [|discriminate]. injection H as <-. eexists. split; reflexivity.
    - vm_compute. constructor; [intros []|constructor].
  Qed.

  Example made1_live : live_inv (KGen 0) (durable r0) m1 r0.
  Proof.
    split; [exact made1_ok|]. split; [vm_compute; reflexivity|]. split; vm_compute; reflexivity.
  Qed.

  (* requests at 60, 150, 240 (gaps 60, 90, 90 < 100), the peer drifting in
     the last octets only, the agent unchanged *)
  Example spaced_example :
    spaced (conf m1) 0 0 peer 7
           [mkAReq 60 peer 7 false; mkAReq 150 peer' 7 false; mkAReq 240 (V4 10 0 200 1 9) 7 true].
  Proof. vm_compute. repeat split. Qed.

  Example live_run_applies :
    always_served (KGen 0) (durable r0)
      [mkAReq 60 peer 7 false; mkAReq 150 peer' 7 false; mkAReq 240 (V4 10 0 200 1 9) 7 true] m1.
  Proof.
    apply (live_run _ _ _ m1 r0 made1_live); try (vm_compute; congruence).
    exact spaced_example.
  Qed.

  (* a run of the model that is an instance: eviction by another client's
     session between the requests (cache size 1) *)
  Example run_instance :
    let '(s1, r1, _) := start (made 1) (mkReq (CKey (KGen 0)) false peer 7) in
    let '(s2, _, _) := start s1 (mkReq CNone true (AOther 1) 1) in           (* evicts KGen 0 *)
    let '(s3, r3, c3) := start (set_now s2 150) (mkReq (CKey (KGen 0)) false peer' 7) in
    r1 = Ok (Some 0) /\ map fst (cache s2) = [KGen 1] /\ r3 = Ok (Some 2) /\ c3 = [] /\
    option_map r_access (L s3 (KGen 0)) = Some 150%Z.
  Proof. vm_compute. repeat split; reflexivity. Qed.

  (* the hypotheses of the per-call theorems hold together in a state produced
     by the model (two sessions, one evicted to the store) *)
  Definition s2 : st := Eval vm_compute in StartLaws3.Examples.s2.

  Lemma s2_is_run : s2 = StartLaws3.Examples.s2.
  Proof. vm_compute. reflexivity. Qed.

  Lemma s2_cache_ok : cache_ok s2.
  Proof.
    intros k o H. vm_compute in H. destruct k as [n|n]; [|discriminate].
    destruct n as [|[p|p|]]; try discriminate. injection H as <-. eexists. split; reflexivity.
  Qed.

  Lemma s2_nodup : nodup_ok s2.
  Proof.
    split; vm_compute.
    - constructor; [intros []|constructor].
    - constructor; [intros [H|[]]; discriminate|]. constructor; [intros []|constructor].
  Qed.

  Lemma s2_fresh : fresh_ok s2.
  Proof.
    split; [|split; [|split]].
    - intros k v H. vm_compute in H. destruct H as [H|[]]. injection H as <- <-. reflexivity.
    - intros k r H. vm_compute in H. destruct H as [H|[H|[]]]; injection H as <- <-; split; reflexivity.
    - intros o ob H. destruct o as [|[|o]]; vm_compute in H.
      + injection H as <-. split; reflexivity.
      + injection H as <-. split; reflexivity.
      + destruct o; discriminate.
    - intros d k H. vm_compute in H. destruct H.
  Qed.

  Example unknown_applies :
    exists s' o, start s2 (mkReq (CKey (KJunk 3)) true peer 9) = (s', Ok (Some o), [CkDelete; CkLive (KGen 2)])
                 /\ Lc s' (KGen 0) = Lc s2 (KGen 0) /\ Lc s' (KGen 1) = Lc s2 (KGen 1) /\ L s' (KJunk 3) = None.
  Proof.
    destruct (unknown_cookie s2 (mkReq (CKey (KJunk 3)) true peer 9) (KJunk 3)
                             eq_refl s2_cache_ok s2_nodup s2_fresh eq_refl eq_refl)
      as (s' & res & nck & new & Hst & Hno & Hfr & _ & _ & _ & _ & Hd).
    unfold no_session in Hno. cbn [q_create] in Hno. destruct Hno as (o & -> & -> & _).
    exists s', o. split; [exact Hst|]. split; [apply Hfr; discriminate|]. split; [apply Hfr; discriminate|].
    apply (Hd I).
  Qed.

  Example dead_applies :
    exists s', start (set_now s2 100) (mkReq (CKey (KGen 0)) false peer 7) = (s', Ok None, [CkDelete])
               /\ lookup (store s') (KGen 0) = None /\ Lc s' (KGen 1) = Lc (set_now s2 100) (KGen 1).
  Proof.
    destruct (dead_destroys (set_now s2 100) (mkReq (CKey (KGen 0)) false peer 7) (KGen 0)
                            (mkRec 0 0 peer 7 None None (Some [])) eq_refl s2_cache_ok s2_nodup s2_fresh
                            eq_refl eq_refl eq_refl)
      as (s' & res & nck & Hst & Hno & _ & Hs & Hfr & _).
    unfold no_session in Hno. cbn [q_create] in Hno. destruct Hno as [-> ->].
    exists s'. split; [exact Hst|]. split; [exact Hs|]. apply Hfr; discriminate.
  Qed.
End Examples5.
