(* Task A6, C11/C08, part 4: the acknowledgement theorems for LogOut(userID),
   RefreshUser and the exclusive LogIn, for ARBITRARY fault plans, in the form
   Properties/C11U.v states them. *)
From Sessions Require Import Model.Base Model.Sess Model.Hist Proofs.SessDefs Proofs.CrashFault
  Proofs.CrashFault2 Proofs.CrashFault3 Proofs.CrashFault4 Proofs.CrashFault5 Proofs.CrashFault6
  Proofs.CrashFault9 Proofs.CrashFault11 Proofs.UserFault Proofs.UserFault2 Proofs.UserFault3.
From Coq Require Import Lia.

(* the condition of the generic theorems, spelled out *)
Lemma uc_unfold Ps Pm s k :
  uc Ps Pm s k <->
  (forall r, lookup (store s) k = Some r -> Ps (r_user r)) /\
  (forall o ob, lookup (cache s) k = Some o -> hget s o = Some ob -> Pm (r_user (o_rec ob))).
Proof. reflexivity. Qed.

(* ------------------------------------------------------ (a) LogOut(userID) *)
Theorem ack_logout_user s u s' :
  wfc s -> logout_user s u = (s', Ok tt) ->
  wfc s' /\
  (forall k, In k (ulisted s u) -> uc no_user no_user s' k) /\
  (forall k, uc no_user no_user s k -> uc no_user no_user s' k) /\
  (forall Qs Qm, codec_closed Qs Qm -> forall k, ~ In k (ulisted s u) -> uc Qs Qm s k -> uc Qs Qm s' k).
Proof.
  intros W HL. rewrite logout_user_call in HL.
  destruct (user_call_fault no_user no_user _ _ _ _ _ no_user_closed W eq_refl HL) as (W' & Hk & Hl & Hf).
  auto.
Qed.

(* -------------------------------------------------------- (b) RefreshUser *)
Theorem ack_refresh_user s u s' :
  wfc s -> refresh_user s u = (s', Ok tt) ->
  wfc s' /\
  (forall k, In k (ulisted s (fst u)) -> uc (user_stored u) (user_cached u) s' k) /\
  (forall k, uc (user_stored u) (user_cached u) s k -> uc (user_stored u) (user_cached u) s' k) /\
  (forall Qs Qm, codec_closed Qs Qm -> forall k, ~ In k (ulisted s (fst u)) -> uc Qs Qm s k -> uc Qs Qm s' k).
Proof.
  intros W HL. rewrite refresh_user_call in HL.
  destruct (user_call_fault (user_stored u) (user_cached u) _ _ _ _ _ (user_closed u) W eq_refl HL) as (W' & Hk & Hl & Hf).
  auto.
Qed.

(* ------------------------------------- (d), (e) the error results of both *)
(* what an error result of the loop means, for a target condition Ps/Pm *)
Definition loop_stopped (Ps Pm : option user -> Prop) (s : st) (i : N) (s' : st) (e : site) : Prop :=
  exists pre k post, ulisted s i = pre ++ k :: post /\
    (forall k', In k' pre -> uc Ps Pm s' k') /\
    (e = ECacheGet \/ (e = ECacheSet /\ uM Pm s' k)) /\
    (forall Qs Qm, codec_closed Qs Qm ->
       forall k', ~ In k' pre -> (e = ECacheSet -> k' <> k) -> uc Qs Qm s k' -> uc Qs Qm s' k').

Definition index_failed (s : st) (i : N) (s' : st) (e : site) : Prop :=
  e = EUserSessions /\ only_logged s s' (EvUserSessions i false) /\ exists p, plan s = true :: p /\ plan s' = p.

Theorem err_logout_user s u s' e :
  wfc s -> logout_user s u = (s', Err e) ->
  wfc s' /\ plan s <> [] /\
  (forall k, uc no_user no_user s k -> uc no_user no_user s' k) /\
  (index_failed s u s' e \/ loop_stopped no_user no_user s u s' e).
Proof.
  intros W HL. rewrite logout_user_call in HL.
  destruct (user_call_fault no_user no_user _ _ _ _ _ no_user_closed W eq_refl HL) as (W' & Hk & Hr).
  split; [exact W'|]. split; [|split; [exact Hk | exact Hr]].
  intro Hp. destruct (user_call_ok_ff s u None (proj1 W) Hp) as (s2 & E). congruence.
Qed.

Theorem err_refresh_user s u s' e :
  wfc s -> refresh_user s u = (s', Err e) ->
  wfc s' /\ plan s <> [] /\
  (forall k, uc (user_stored u) (user_cached u) s k -> uc (user_stored u) (user_cached u) s' k) /\
  (index_failed s (fst u) s' e \/ loop_stopped (user_stored u) (user_cached u) s (fst u) s' e).
Proof.
  intros W HL. rewrite refresh_user_call in HL.
  destruct (user_call_fault (user_stored u) (user_cached u) _ _ _ _ _ (user_closed u) W eq_refl HL) as (W' & Hk & Hr).
  split; [exact W'|]. split; [|split; [exact Hk | exact Hr]].
  intro Hp. destruct (user_call_ok_ff s (fst u) (Some u) (proj1 W) Hp) as (s2 & E). congruence.
Qed.

Theorem user_calls_nopanic_ff s :
  cv s -> plan s = [] ->
  (forall u, exists s', logout_user s u = (s', Ok tt)) /\ (forall u, exists s', refresh_user s u = (s', Ok tt)).
Proof.
  intros Hcv Hp. split; intro u.
  - rewrite logout_user_call. apply user_call_ok_ff; assumption.
  - rewrite refresh_user_call. apply user_call_ok_ff; assumption.
Qed.

(* ------------------------------------------------- (c) the exclusive LogIn *)
Lemma wfc_of_ok s : cache_ok s -> nodup_ok s -> wfc s.
Proof. intros Hc [Hn _]. destruct (cache_ok_cv _ Hc Hn) as [A B]. split; [exact A | split; [exact B | exact Hn]]. Qed.

Theorem ack_login_excl s o ob u s' cks :
  cache_ok s -> nodup_ok s -> fresh_ok s -> hget s o = Some ob ->
  login s o u true = (s', Ok tt, cks) ->
  let i := o_id ob in
  let nid := KGen (supply s) in
  written s' o /\
  (exists ob', hget s' o = Some ob' /\ o_id ob' = nid /\ r_user (o_rec ob') = Some u) /\
  (exists r, lookup (store s') nid = Some r /\ r_user r = Some (fst u, 0%N)) /\
  cks = [CkLive nid] /\
  (exists rr, lookup (store s') i = Some rr /\ r_ref rr = Some nid /\ r_user rr = None) /\
  (forall k, In k (ulisted s (fst u)) -> k <> i -> k <> nid -> uc no_user no_user s' k) /\
  i <> nid /\ (forall k, lookup (store s) k <> None -> k <> nid).
Proof.
  intros Hc Hn Hf Ho EL i nid. pose proof (wfc_of_ok _ Hc Hn) as W.
  destruct (cache_ok_cv _ Hc (proj1 Hn)) as [Hcv Hcok]. destruct (fresh_nid _ Hf) as (F1 & F2 & F3).
  set (K := not_key nid (fun _ _ => True)).
  assert (HJ : J K s).
  { split; [exact Hcv|]. split.
    - intros k o' ob' Hi _. split; [eapply F1; exact Hi | exact I].
    - intros k r Hl. split; [eapply F2; exact Hl | exact I]. }
  assert (Ht : tracked K s o (o_id ob)) by (apply tracked_init; [exact Ho | split; [eapply F3; exact Ho | exact I]]).
  destruct (login_pre K (fun _ _ _ H => H) (fun _ _ _ H => H) (fun _ _ _ H => H) _ _ _ _ _ _ _ _ HJ Hcok Ht EL)
    as (l0 & HQ0 & [(_ & [e E] & _)|(sC & obC & r2 & X0 & HJC & _ & _ & _ & HoC & HidC & HuC & _ & _ & _ & HR & Hres & _)]);
    [discriminate|].
  destruct r2 as [[]|e|e]; try discriminate.
  pose proof (supply_ext _ _ _ _ X0 HQ0) as Hsup.
  assert (Hnc : forall o', ~ In (KGen (supply sC), o') (cache sC)) by (rewrite Hsup; eapply J_not_key_uncached; exact HJC).
  assert (Hne : o_id obC <> KGen (supply sC)) by (rewrite Hsup, HidC; eapply F3; exact Ho).
  destruct (regenerate_ack sC o obC s' cks (proj1 HJC) HoC HR Hnc Hne) as (A & B & C & D0 & Hcf & _).
  rewrite Hsup in A, B, C, D0. fold nid in A, B, C, D0. rewrite HidC in C. fold i in C.
  split; [|split; [|split; [|split; [exact D0|split; [|split; [|split]]]]]].
  - eexists. split; [exact A|]. cbn [o_id o_rec]. rewrite Hcf. exact B.
  - eexists. split; [exact A|]. split; [reflexivity | exact HuC].
  - eexists. split; [exact B|]. rewrite codec_user. cbn [set_access set_created r_user]. rewrite HuC. destruct u. reflexivity.
  - eexists. split; [exact C|]. split; reflexivity.
  - intros k Hin Hne1 Hne2.
    destruct (login_excl_phases _ _ _ _ _ _ _ W Ho EL) as [(e & _ & E & _)|(sA & ELo & WA & _ & _ & Hfr)]; [discriminate|].
    apply (Hfr no_user no_user no_user_closed k Hne1 Hne2).
    destruct (ack_logout_user _ _ _ W ELo) as (_ & Hl & _). apply Hl. exact Hin.
  - eapply F3. exact Ho.
  - intros k Hk. destruct (lookup (store s) k) as [r|] eqn:E; [|congruence]. eapply F2. exact E.
Qed.

(* (d) for the exclusive LogIn: what an error result means *)
Theorem err_login_excl s o ob u s' e cks :
  wfc s -> hget s o = Some ob -> login s o u true = (s', Err e, cks) ->
  let i := o_id ob in
  let nid := KGen (supply s) in
  cks = [] /\
  ((e = ELoginLogout /\ exists e', logout_user s (fst u) = (s', Err e')) \/
   ((e = ELoginSave \/ e = ELoginRegen) /\
    (exists ob', hget s' o = Some ob' /\ r_user (o_rec ob') = Some u) /\
    (forall k, In k (ulisted s (fst u)) -> k <> i -> k <> nid -> uc no_user no_user s' k))).
Proof.
  intros W Ho EL i nid.
  destruct (login_excl_phases _ _ _ _ _ _ _ W Ho EL) as [(e' & ELo & E & ->)|(sA & ELo & WA & Hres & Hob & Hfr)].
  - injection E as ->. split; [reflexivity|]. left. split; [reflexivity|]. exists e'. exact ELo.
  - assert (Hc : cks = [] /\ (e = ELoginSave \/ e = ELoginRegen)).
    { destruct Hres as [E|[[E ->]|[E ->]]]; [discriminate| |]; injection E as ->; auto. }
    destruct Hc as [-> He]. split; [reflexivity|]. right. split; [exact He|]. split; [exact Hob|].
    intros k Hin Hne1 Hne2. apply (Hfr no_user no_user no_user_closed k Hne1 Hne2).
    destruct (ack_logout_user _ _ _ W ELo) as (_ & Hl & _). apply Hl. exact Hin.
Qed.
