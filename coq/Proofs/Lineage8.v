(* Audit task A5, C07, part 8: the ending request itself may change the session's
   ID before it destroys it (LogIn or RegenerateID in the handler, then Destroy).
   The ID Start handed to the handler is then linked to the destroyed ID by the
   replaced-ID records made in that very step:

   lreach s cur k     on the store's view: k is cur, or k was drawn and is not
                      stored, or k is stored as a replaced-ID record whose
                      reference reaches cur (the shape of a lineage whose last ID
                      cur may still be alive);
   TR s o k           k reaches the current ID of the handler's object o;
   do_sop_tr          every handler operation other than Destroy keeps TR
                      (RegenerateID and LogIn move the current ID on and leave a
                      replaced-ID record behind; everything else is quiet);
   script_link        after a script whose last executed operation is Destroy,
                      everything that reached the handler's ID when the script
                      began is in the lineage of the ID it was destroyed under;
   destroyed_start_link  for a whole request step: the ID of the session Start
                      returned (ob_start) is in the lineage of the ID the
                      handler destroyed (ob_final), taken right after the step;
                      and so is every chain that led to it before the step.

   No axioms; standard library only. *)
From Sessions Require Import Model.Base Model.Sess Model.Hist Proofs.SessDefs
  Proofs.HistInv Proofs.HistInv2 Proofs.HistInv3 Proofs.HistLift Proofs.HistLift2 Proofs.HistLift3
  Proofs.HistLift4 Proofs.HistLift6 Proofs.IsoLaws Proofs.DeadLaws
  Proofs.Lineage Proofs.Lineage3 Proofs.Lineage4 Proofs.Lineage5 Proofs.Lineage7.
From Coq Require Import Lia.

Inductive lreach (s : st) (cur : key) : key -> Prop :=
| lr_here : lreach s cur cur
| lr_gone k : kd (supply s) k -> sref s k = None -> lreach s cur k
| lr_ref k t : kd (supply s) k -> sref s k = Some (Some t) -> lreach s cur t -> lreach s cur k.

(* transitions after which every drawn ID is stored as before, or not at all *)
Lemma lreach_weak s s' cur k :
  (supply s <= supply s')%N ->
  (forall k, kd (supply s) k -> sref s' k = sref s k \/ sref s' k = None) ->
  lreach s cur k -> lreach s' cur k.
Proof.
  intros Hle Hs H. induction H as [|k Hk Hn|k t Hk Hr Ht IH]; [constructor| |].
  - apply lr_gone; [eapply kd_mono; eassumption|]. destruct (Hs k Hk) as [E|E]; [rewrite E; exact Hn | exact E].
  - destruct (Hs k Hk) as [E|E].
    + eapply lr_ref; [eapply kd_mono; eassumption | rewrite E; exact Hr | exact IH].
    + apply lr_gone; [eapply kd_mono; eassumption | exact E].
Qed.

Lemma lreach_qt s s' cur k : qt s s' -> lreach s cur k -> lreach s' cur k.
Proof.
  intro Qt. apply lreach_weak; [rewrite (qt_supply _ _ Qt); lia|]. intros k' _. left. apply (qt_sref _ _ Qt).
Qed.

Lemma lreach_del s s' k0 cur k : eff_del s s' k0 -> lreach s cur k -> lreach s' cur k.
Proof.
  intro E. apply lreach_weak; [rewrite (ed_supply _ _ _ E); lia|]. intros k' _.
  destruct (key_eq_dec k' k0) as [->|Hne]; [right; exact (ed_gone _ _ _ E) | left; exact (ed_oth _ _ _ E k' Hne)].
Qed.

Lemma lreach_fire s s' cur k : eff_fire s s' -> lreach s cur k -> lreach s' cur k.
Proof.
  intro E. apply lreach_weak; [rewrite (ef_supply _ _ E); lia|]. intros k' _.
  destruct (ef_sref _ _ E k') as [H|[H _]]; [left; exact H | right; exact H].
Qed.

(* RegenerateID: what reached old reaches the new ID, through the record left under old *)
Lemma lreach_repl s s' old k : eff_repl s s' old -> lreach s old k -> lreach s' (KGen (supply s)) k.
Proof.
  intros E H. assert (Hle : (supply s <= supply s')%N) by (rewrite (er_supply _ _ _ E); lia).
  induction H as [|k Hk Hn|k t Hk Hr Ht IH].
  - eapply lr_ref; [eapply kd_mono; [exact Hle | exact (er_drawn _ _ _ E)] | exact (er_old' _ _ _ E) | constructor].
  - apply lr_gone; [eapply kd_mono; eassumption|]. rewrite (er_oth _ _ _ E); [exact Hn | |].
    + intro Heq. subst k. rewrite (er_old _ _ _ E) in Hn. discriminate.
    + intro Heq. subst k. cbn [kd] in Hk. lia.
  - eapply lr_ref; [eapply kd_mono; eassumption | | exact IH]. rewrite (er_oth _ _ _ E); [exact Hr | |].
    + intro Heq. subst k. rewrite (er_old _ _ _ E) in Hr. discriminate.
    + intro Heq. subst k. cbn [kd] in Hk. lia.
Qed.

Definition TR (s : st) (o : nat) (k : key) : Prop := exists cur, hid s o = Some cur /\ lreach s cur k.

Lemma TR_qt s s' o k : qt s s' -> hg s o -> TR s o k -> TR s' o k.
Proof.
  intros Qt Hh (cur & Hc & Hl). exists cur. split; [|eapply lreach_qt; eassumption].
  rewrite (hid_qt _ _ o Qt); [exact Hc | rewrite Hc; discriminate].
Qed.

Notation GQ := (G Q0).

Lemma regen_tr base s o ob : GQ base s -> hget s o = Some ob -> hg s o ->
  GQ base (regen s o ob) /\ hg (regen s o ob) o /\ forall k, TR s o k -> TR (regen s o ob) o k.
Proof.
  intros Hg Ho Hh. pose proof Hg as (I & K & P & _).
  destruct (regen_G Q0 Q0_repl base s o ob Hg Ho Hh) as (G' & _ & H' & Hi' & _).
  destruct (regen_eff _ _ _ _ _ _ I K P Ho (Nat.le_0_l o) (fun x => x) Hh) as (_ & _ & E & _).
  split; [exact G'|]. split; [exact H'|]. intros k (cur & Hc & Hl).
  unfold hid in Hc. rewrite Ho in Hc. cbn [option_map] in Hc. injection Hc as <-.
  exists (KGen (supply s)). split; [exact Hi' | eapply lreach_repl; eassumption].
Qed.

(* every handler operation other than Destroy *)
Lemma do_sop_tr base s o hc op : GQ base s -> hg s o -> op <> SDestroy ->
  exists s' r cks, do_sop s o hc op = (s', r, cks) /\ GQ base s' /\ hg s' o /\ forall k, TR s o k -> TR s' o k.
Proof.
  intros Hg Hh Hop. pose proof Hg as (I & K & P & Hq). pose proof Hh as (ob & Ho & Hr & Hs).
  assert (Hp : plan s = []) by apply (i_plan _ _ _ _ _ I).
  assert (Hquiet : forall s' (r : sres), GQ base s' -> qt s s' ->
            exists s'' r' cks, (s', r, @nil cookie) = (s'', r', cks) /\ GQ base s'' /\ hg s'' o /\
              forall k, TR s o k -> TR s'' o k).
  { intros s' r G' Q'. do 3 eexists. split; [reflexivity|]. split; [exact G'|].
    split; [eapply hg_qt; eassumption | intros k Hk; eapply TR_qt; eassumption]. }
  assert (Hupd : forall f, (forall r, r_ref (f r) = r_ref r) ->
             GQ base (hupd s o f) /\ qt s (hupd s o f) /\ hg (hupd s o f) o).
  { intros f Hf. destruct (hupd_qt s o f Hf K) as [Q1 K1].
    split; [eapply (G_qt Q0 Q0_qt); [apply inv_hupd; assumption | exact K1 | exact Q1 | exact Hg]|].
    split; [exact Q1 | eapply hg_qt; eassumption]. }
  assert (Hsave : forall s1, GQ base s1 -> qt s s1 -> hg s1 o ->
             exists s', save_direct s1 o = (s', Ok tt) /\ GQ base s' /\ qt s s').
  { intros s1 G1 Q1 H1. pose proof G1 as (I1 & K1 & _).
    destruct (save_direct_inv _ _ _ _ _ I1 (hg_hok _ _ H1)) as (s' & E & I' & _).
    destruct (save_direct_qt s1 o (i_plan _ _ _ _ _ I1) K1 (hg_sc _ _ H1)) as [Q2 K2]. rewrite E in *. cbn [fst] in *.
    exists s'. split; [reflexivity|]. split; [eapply (G_qt Q0 Q0_qt); eassumption | eapply qt_trans; eassumption]. }
  destruct op as [k v|k|k|k|u ex| | |]; cbn [do_sop].
  - unfold data_of. rewrite Ho. destruct (r_data (o_rec ob)) as [d|].
    + destruct (Hupd (fun r => set_data r (Some (kv_set d k v))) (fun _ => eq_refl)) as (G1 & Q1 & H1).
      destruct (Hsave _ G1 Q1 H1) as (s' & E & G' & Q'). rewrite E. apply Hquiet; assumption.
    + apply Hquiet; [exact Hg | apply qt_refl].
  - unfold data_of. rewrite Ho.
    assert (Hx : exists s1, (match r_data (o_rec ob) with
                             | Some d => hupd s o (fun r => set_data r (Some (kv_del d k)))
                             | None => s end) = s1 /\ GQ base s1 /\ qt s s1 /\ hg s1 o).
    { destruct (r_data (o_rec ob)) as [d|].
      - destruct (Hupd (fun r => set_data r (Some (kv_del d k))) (fun _ => eq_refl)) as (G1 & Q1 & H1).
        eexists. split; [reflexivity|]. auto.
      - exists s. split; [reflexivity|]. split; [exact Hg|]. split; [apply qt_refl | exact Hh]. }
    destruct Hx as (s1 & -> & G1 & Q1 & H1).
    destruct (Hsave _ G1 Q1 H1) as (s' & E & G' & Q'). rewrite E. apply Hquiet; assumption.
  - apply Hquiet; [exact Hg | apply qt_refl].
  - unfold data_of. rewrite Ho. destruct (r_data (o_rec ob)) as [d|].
    + destruct (kv_get d k).
      * destruct (Hupd (fun r => set_data r (Some (kv_del d k))) (fun _ => eq_refl)) as (G1 & Q1 & H1).
        destruct (Hsave _ G1 Q1 H1) as (s' & E & G' & Q'). rewrite E. apply Hquiet; assumption.
      * apply Hquiet; [exact Hg | apply qt_refl].
    + apply Hquiet; [exact Hg | apply qt_refl].
  - (* LogIn: quiet up to the write-through, then RegenerateID *)
    pose proof (hg_hok _ _ Hh) as Hok. unfold login.
    assert (Hpre : exists s1, (if ex then logout_user s (fst u) else let '(s0, _) := logout s o in (s0, Ok tt)) = (s1, Ok tt)
                              /\ inv 0 base NX ND s1 /\ Kcs s1 /\ qt s s1).
    { destruct ex.
      - destruct (logout_user_inv _ _ _ _ (fst u) I) as (s1 & E & I1 & _).
        destruct (logout_user_qt _ _ _ _ (fst u) I K) as [Q1 K1]. rewrite E in *. cbn [fst] in *.
        exists s1. auto.
      - destruct (logout_inv _ _ _ _ _ I Hok) as (s1 & E & I1 & _).
        destruct (logout_qt s o (i_plan _ _ _ _ _ I) K (hg_sc _ _ Hh)) as [Q1 K1]. rewrite E in *. cbn [fst] in *.
        exists s1. auto. }
    destruct Hpre as (s1 & E1 & I1 & K1 & Q1). rewrite E1.
    assert (H1 : hg s1 o) by (eapply hg_qt; eassumption).
    destruct (hupd_qt s1 o (fun r => set_user r (Some u)) (fun _ => eq_refl) K1) as [Q2 K2].
    set (s2 := hupd s1 o (fun r => set_user r (Some u))) in *.
    assert (I2 : inv 0 base NX ND s2) by (apply inv_hupd; [exact I1 | reflexivity]).
    assert (H2 : hg s2 o) by (eapply hg_qt; eassumption).
    pose proof H2 as (ob2 & Ho2 & Hr2 & Hs2).
    assert (F2 : ffnd s2) by (eapply inv_ffnd; exact I2).
    rewrite (cache_set_ff _ _ _ F2 Ho2). cbn [negb].
    assert (Hs2' : sref s2 (o_id ob2) = Some (r_ref (o_rec ob2))) by (rewrite Hs2, Hr2; reflexivity).
    destruct (cset_qt _ _ _ _ _ _ _ I2 K2 Ho2 Hs2') as [Q3 K3].
    assert (I3 : inv 0 base NX ND (cset s2 o ob2)) by (apply inv_cset; [exact I2 | exact Ho2 | lia | intros []]).
    assert (Q13 : qt s (cset s2 o ob2)) by (eapply qt_trans; [exact Q1|]; eapply qt_trans; eassumption).
    assert (G3 : GQ base (cset s2 o ob2)) by (eapply (G_qt Q0 Q0_qt); eassumption).
    assert (H3 : hg (cset s2 o ob2) o) by (eapply hg_qt; eassumption).
    pose proof H3 as (ob3 & Ho3 & _).
    rewrite (regenerate_ff _ _ _ (inv_ffnd _ _ _ _ _ I3) Ho3).
    destruct (regen_tr base _ o ob3 G3 Ho3 H3) as (G' & H' & T').
    do 3 eexists. split; [reflexivity|]. split; [exact G'|]. split; [exact H'|].
    intros k Hk. apply T'. eapply TR_qt; eassumption.
  - destruct (logout_inv _ _ _ _ _ I (hg_hok _ _ Hh)) as (s' & E & I' & _).
    destruct (logout_qt s o Hp K (hg_sc _ _ Hh)) as [Q1 K1]. rewrite E in *. cbn [fst] in *.
    apply Hquiet; [eapply (G_qt Q0 Q0_qt); eassumption | exact Q1].
  - rewrite (regenerate_ff _ _ _ (inv_ffnd _ _ _ _ _ I) Ho).
    destruct (regen_tr base s o ob Hg Ho Hh) as (G' & H' & T').
    do 3 eexists. split; [reflexivity|]. split; [exact G'|]. split; [exact H' | exact T'].
  - exfalso. apply Hop. reflexivity.
Qed.

Lemma fire_due_tr base s o : GQ base s -> hg s o ->
  GQ base (fire_due s) /\ hg (fire_due s) o /\ heap (fire_due s) = heap s /\ forall k, TR s o k -> TR (fire_due s) o k.
Proof.
  intros Hg Hh. destruct (fire_due_G Q0 FOK0 Q0_fire _ _ Hg Logic.I) as (G2 & _ & H2 & Ef).
  assert (Hheap : heap (fire_due s) = heap s) by (destruct Hg as (I1 & _); apply (HistInv3.fire_due_inv _ _ _ _ I1)).
  split; [exact G2|]. split; [apply H2; exact Hh|]. split; [exact Hheap|].
  intros k (cur & Hc & Hl). exists cur. split; [rewrite (hid_heap _ _ o Hheap); exact Hc | eapply lreach_fire; eassumption].
Qed.

(* a script whose last executed operation is Destroy *)
Lemma script_link base hc : forall ops s o s' rs cks, GQ base s -> hg s o ->
  run_script s o hc ops = (s', rs, cks) -> rs <> [] -> nth_error ops (length rs - 1) = Some SDestroy ->
  exists kn, hid s' o = Some kn /\ forall k, TR s o k -> lreach s' kn k.
Proof.
  induction ops as [|op t IH]; intros s o s' rs cks Hg Hh E Hne Hn; cbn [run_script] in E.
  - injection E as <- <- <-. congruence.
  - assert (Hdec : op = SDestroy \/ op <> SDestroy) by (destruct op; ((left; reflexivity) || (right; discriminate))).
    destruct Hdec as [->|Hop].
    + pose proof Hh as (ob & Ho & _). pose proof Hg as (I & K & P & _).
      assert (Hp : plan s = []) by apply (i_plan _ _ _ _ _ I).
      cbn [do_sop] in E. rewrite (destroy_ff _ _ _ _ Hp Ho) in E.
      destruct (cdel_eff s (o_id ob) Hp K P) as (K1 & P1 & Ed & Hheap1 & Hp1).
      destruct (fire_due_eff _ Hp1 K1 P1) as (_ & _ & Ef & Hheap2 & _).
      injection E as <- <- <-. exists (o_id ob).
      split; [rewrite (hid_heap _ _ o Hheap2), (hid_heap _ _ o Hheap1); unfold hid; rewrite Ho; reflexivity|].
      intros k (cur & Hc & Hl). unfold hid in Hc. rewrite Ho in Hc. cbn [option_map] in Hc. injection Hc as <-.
      eapply lreach_fire; [exact Ef|]. eapply lreach_del; eassumption.
    + destruct (do_sop_tr base s o hc op Hg Hh Hop) as (s1 & r & c1 & E1 & G1 & H1 & T1). rewrite E1 in E.
      destruct (fire_due_tr base s1 o G1 H1) as (G2 & H2 & _ & T2).
      assert (Hstop : (match op, r with SDestroy, _ => true | _, SPanic _ => true | _, _ => false end)
                      = match r with SPanic _ => true | _ => false end) by (destruct op; try reflexivity; congruence).
      rewrite Hstop in E. destruct (match r with SPanic _ => true | _ => false end).
      * injection E as <- <- <-. cbn [length Nat.sub nth_error] in Hn. congruence.
      * destruct (run_script (fire_due s1) o hc t) as [[s2 rs2] cks2] eqn:E2. injection E as <- <- <-.
        destruct rs2 as [|r2 rs2'].
        -- cbn [length Nat.sub nth_error] in Hn. congruence.
        -- destruct (IH (fire_due s1) o s2 (r2 :: rs2') cks2 G2 H2 E2) as (kn & Hk & Hl).
           ++ discriminate.
           ++ cbn [length] in Hn. cbn [length]. replace (S (S (length rs2')) - 1) with (S (length rs2')) in Hn by lia.
              cbn [nth_error] in Hn. replace (S (length rs2') - 1) with (length rs2') by lia. exact Hn.
           ++ exists kn. split; [exact Hk|]. intros k Hk'. apply Hl. apply T2. apply T1. exact Hk'.
Qed.

(* from the store's view to L, under LI *)
Lemma lreach_lineage s kn k : LI s -> sref s kn = None -> lreach s kn k -> lineage s kn k.
Proof.
  intros Hl Hn H. induction H as [|k Hk Hg|k t Hk Hr Ht IH]; [constructor| |].
  - apply lin_gone; [exact Hk | apply (LI_L_none s k Hl); exact Hg].
  - destruct (proj2 (LI_Lref_iff s k (Some t) Hl) Hr) as (r & HL & Hr').
    eapply lin_ref; [exact HL | exact Hr' | exact IH].
Qed.

(* a whole request step whose script ends with Destroy *)
Theorem destroyed_start_link w r :
  LI (w_st w) -> rq_plan r = [] -> rq_crash r = None ->
  ob_script (snd (step w (HReq r))) <> [] ->
  nth_error (rq_script r) (length (ob_script (snd (step w (HReq r)))) - 1) = Some SDestroy ->
  exists id0 rc0 kn rcf,
    ob_start (snd (step w (HReq r))) = Some (id0, rc0) /\
    ob_final (snd (step w (HReq r))) = Some (kn, rcf) /\
    lineage (w_st (fst (step w (HReq r)))) kn id0.
Proof.
  intros Hl Hpl Hcr.
  pose proof (LI_step w (HReq r) Hl Hpl Hcr) as Hl'.
  pose proof (step_destroy 0 w r (LI_winv _ Hl) Hpl Hcr) as Hsd.
  revert Hl' Hsd. rewrite step_req_eq. cbv zeta. rewrite Hcr.
  change (match rq_present r with PJar => jar_of (w_jars w) (rq_client r) | PForge c => c end) with (presents w r).
  change (mkReq (presents w r) (rq_create r) (rq_addr r) (rq_ua r)) with (req_of w r).
  change (set_tb (set_plan (set_evs (w_st w) []) (rq_plan r)) (rq_tb r)) with (pre_of w r).
  pose proof (GW_G Q0 Q0_qt (w_st w) (rq_plan r) (rq_tb r) Hl Hpl) as G1. fold (pre_of w r) in G1.
  unfold req_body.
  destruct (start_G Q0 DEL0 Q0_qt Q0_new Q0_repl Q0_del _ (pre_of w r) (req_of w r) G1) as (s2 & res & cks & E & G2 & _ & H2 & _).
  { intros; exact Logic.I. }
  rewrite E.
  destruct res as [[o|]|e|e]; try (cbn [fst snd mk_obs ob_script]; intros _ _ Hne; congruence).
  destruct (fire_due_tr _ s2 o G2 (proj1 (H2 o eq_refl))) as (G3 & H3 & _ & _).
  destruct (run_script (fire_due s2) o (had_cookie (req_of w r)) (rq_script r)) as [[s3 sr] cks'] eqn:E'.
  cbn [fst snd mk_obs ob_script ob_start ob_final w_st]. intros Hl' Hsd Hne Hn.
  destruct (Hsd Hne Hn) as (kn' & rc' & A1 & _ & [_ A3] & _).
  destruct (script_link _ _ _ _ _ _ _ _ G3 H3 E' Hne Hn) as (kn & Hk & Hlr).
  pose proof H3 as (ob3 & Ho3 & _).
  exists (o_id ob3), (o_rec ob3). unfold hid in Hk. destruct (hget s3 o) as [obf|] eqn:Hof; [|discriminate].
  cbn [option_map] in Hk. injection Hk as Hk.
  exists kn, (o_rec obf). split; [unfold handle_view; rewrite Ho3; reflexivity|].
  split; [unfold handle_view; rewrite Hof, Hk; reflexivity|].
  unfold handle_view in A1. rewrite Hof in A1. injection A1 as A1 _. rewrite Hk in A1. subst kn'.
  apply lreach_lineage; [exact Hl' | unfold sref; sst; rewrite A3; reflexivity|].
  eapply (lreach_weak s3); [sst; lia | intros k' _; left; reflexivity|].
  apply Hlr. exists (o_id ob3). split; [unfold hid; rewrite Ho3; reflexivity | constructor].
Qed.

(* with the chains that led to the returned ID before the step *)
Theorem destroyed_start_chain w r :
  LI (w_st w) -> rq_plan r = [] -> rq_crash r = None ->
  ob_script (snd (step w (HReq r))) <> [] ->
  nth_error (rq_script r) (length (ob_script (snd (step w (HReq r)))) - 1) = Some SDestroy ->
  exists id0 rc0 kn rcf,
    ob_start (snd (step w (HReq r))) = Some (id0, rc0) /\
    ob_final (snd (step w (HReq r))) = Some (kn, rcf) /\
    forall k, rchain (w_st w) k id0 -> lineage (w_st (fst (step w (HReq r)))) kn k.
Proof.
  intros Hl Hpl Hcr Hne Hn.
  destruct (destroyed_start_link w r Hl Hpl Hcr Hne Hn) as (id0 & rc0 & kn & rcf & A1 & A2 & A3).
  exists id0, rc0, kn, rcf. split; [exact A1|]. split; [exact A2|]. intros k Hch.
  apply (chain_into_lineage w [HReq r] kn k id0 Hl); [repeat constructor; assumption | repeat constructor; assumption | exact Hch | exact A3].
Qed.
