(* Round 4, task R4(a), second follow-up: replaced-ID records stay immutable along
   EVERY fault-free history (the process may stop after any number of persistence
   calls of any request step), hence the lineage taken when a session ends absorbs
   every chain that existed earlier - C07H's ref_fate, chain_into_lineage,
   destroyed_chain and invalidated_chain without crash_free.

   The instance of LineageG.v: QX = QI k0 j0 of Lineage5.v (k0 is drawn and stored
   as nothing or as a replaced-ID record naming j0), KX k x = "if k is k0 then x
   names j0".

   No axioms; standard library only. *)
From Sessions Require Import Model.Base Model.Sess Model.Hist Proofs.SessDefs
  Proofs.HistInv Proofs.HistInv2 Proofs.HistInv3 Proofs.HistLift Proofs.HistLift2 Proofs.HistLift3
  Proofs.HistLift4 Proofs.HistLift6 Proofs.HistLiftB Proofs.IsoLaws Proofs.DeadLaws
  Proofs.Lineage Proofs.Lineage2 Proofs.Lineage3 Proofs.Lineage4 Proofs.Lineage5 Proofs.LineageB
  Proofs.LineageK Proofs.LineageK2 Proofs.LineageF.
From Sessions Require Proofs.LineageG.
From Coq Require Import Lia.

(* ------------------------------------------------ L and the store's view, at any heap mark *)

Lemma LIb_Lref_iff b s k x : LIb b s -> ((exists r, L s k = Some r /\ r_ref r = x) <-> sref s k = Some x).
Proof.
  intros Hl. pose proof Hl as (W & Kc & _). destruct (winv_sessdefs _ _ _ W) as (_ & Hc & _).
  apply L_sref; assumption.
Qed.

Lemma LIb_L_none b s k : LIb b s -> (L s k = None <-> sref s k = None).
Proof.
  intros Hl. pose proof Hl as (W & Kc & _). destruct (winv_sessdefs _ _ _ W) as (_ & Hc & _). split.
  - apply L_none_sref. exact Hc.
  - intro Hs. destruct (L s k) as [r|] eqn:HL; [|reflexivity]. exfalso.
    assert (H : sref s k = Some (r_ref r)) by (apply (LIb_Lref_iff b s k (r_ref r) Hl); exists r; split; [exact HL | reflexivity]).
    rewrite Hs in H. discriminate.
Qed.

Lemma LIb_stored_drawn b s k x : LIb b s -> sref s k = Some x -> key_drawn s k.
Proof.
  intros (W & _) Hs. destruct (winv_sessdefs _ _ _ W) as (_ & _ & _ & (_ & Hfs & _)).
  unfold sref in Hs. destruct (lookup (store s) k) as [r|] eqn:Hst; [|discriminate].
  apply lookup_In in Hst. apply (Hfs k r Hst).
Qed.

(* ------------------------------------------------ one replaced-ID record *)

Section ImmK.
  Variables k0 j0 : key.

  Definition KI (k : key) (x : option key) : Prop := k = k0 -> x = Some j0.

  Lemma KI_sref s k x : QI k0 j0 s -> sref s k = Some x -> KI k x.
  Proof. intros [_ [H|H]] Hs ->; rewrite Hs in H; [discriminate | injection H as ->; reflexivity]. Qed.

  Lemma KI_fresh s : QI k0 j0 s -> KI (KGen (supply s)) None.
  Proof. intros H E. exfalso. exact (QI_not_fresh k0 j0 s H (eq_sym E)). Qed.

  Lemma KI_repl s k : QI k0 j0 s -> sref s k = Some None -> KI k (Some (KGen (supply s))).
  Proof. intros H Hs ->. exfalso. exact (QI_not_sess k0 j0 s H Hs). Qed.

  Lemma QI_crash s s' : QI k0 j0 s -> (supply s <= supply s')%N ->
    (forall k r, lookup (store s') k = Some r -> KI k (r_ref r)) -> QI k0 j0 s'.
  Proof.
    intros [Hk _] Hs Hst. split; [eapply kd_mono; eassumption|].
    unfold sref. destruct (lookup (store s') k0) as [r|] eqn:Hl; [|left; reflexivity].
    right. cbn [option_map]. rewrite (Hst k0 r Hl eq_refl). reflexivity.
  Qed.

  (* the invariant: C05H's LI and QI, at some heap mark *)
  Definition LXI (b : nat) (s : st) : Prop := LineageG.LXb b (QI k0 j0) s.
  Definition LXIx (s : st) : Prop := exists b, LXI b s.

  Lemma LIb_LXI b s : LIb b s -> QI k0 j0 s -> LXI b s.
  Proof. intros (W & Kc & P & A) B. split; [exact W|]. split; [exact Kc|]. split; [exact P | split; assumption]. Qed.

  Lemma LXI_LIb b s : LXI b s -> LIb b s.
  Proof. intros (W & Kc & P & [A _]). split; [exact W|]. split; [exact Kc|]. split; [exact P | exact A]. Qed.

  Lemma LXI_QI b s : LXI b s -> QI k0 j0 s.
  Proof. intros (_ & _ & _ & [_ B]). exact B. Qed.

  Theorem LXIx_step w h : LXIx (w_st w) -> ff_hop h -> LXIx (w_st (fst (step w h))).
  Proof.
    intros [b Hl] Hff.
    assert (Hfree : crash_free h -> LXIx (w_st (fst (step w h)))).
    { intro Hcf. exists b.
      apply (LineageG.LXb_step b (QI k0 j0) (QI_same k0 j0) (QI_new k0 j0) (QI_repl k0 j0) (QI_del k0 j0) (QI_fire k0 j0)); assumption. }
    destruct h as [r|d|tbl pl| | |u tbl pl|u tbl pl|c]; try (apply Hfree; exact Logic.I).
    destruct (rq_crash r) as [n|] eqn:Hcr; [|apply Hfree; exact Hcr].
    exact (LineageG.crash_LXb b (QI k0 j0) (QI_same k0 j0) (QI_new k0 j0) (QI_repl k0 j0) (QI_del k0 j0) (QI_fire k0 j0)
             KI KI_sref KI_fresh KI_repl QI_crash w r n Hl Hff Hcr).
  Qed.

  Theorem LXIx_after : forall hs w, LXIx (w_st w) -> Forall ff_hop hs -> LXIx (w_st (after w hs)).
  Proof.
    induction hs as [|h t IH]; intros w Hl Hff; cbn [after]; [exact Hl|].
    inversion Hff; subst. apply IH; [apply LXIx_step; assumption | assumption].
  Qed.
End ImmK.

(* A replaced-ID record is never re-pointed and never becomes a session: it stays
   what it is, or disappears - along every fault-free history. *)
Theorem ref_fate_any w hs k j r :
  LIx (w_st w) -> L (w_st w) k = Some r -> r_ref r = Some j -> Forall ff_hop hs ->
  LIx (w_st (after w hs)) /\ key_drawn (w_st (after w hs)) k /\
  (L (w_st (after w hs)) k = None \/ exists r', L (w_st (after w hs)) k = Some r' /\ r_ref r' = Some j).
Proof.
  intros [b Hl] HL Hr Hff.
  assert (Hs : sref (w_st w) k = Some (Some j)) by (apply (LIb_Lref_iff b _ k (Some j) Hl); exists r; split; assumption).
  assert (H0 : LXIx k j (w_st w)).
  { exists b. apply LIb_LXI; [exact Hl|]. split; [exact (LIb_stored_drawn b _ _ _ Hl Hs) | right; exact Hs]. }
  destruct (LXIx_after k j hs w H0 Hff) as [b' H1].
  pose proof (LXI_LIb k j b' _ H1) as Hl'. split; [exists b'; exact Hl'|].
  destruct (LXI_QI k j b' _ H1) as [Hk Hd]. split; [exact Hk|].
  destruct Hd as [Hd|Hd]; [left; apply (LIb_L_none b' _ k Hl'); exact Hd | right].
  apply (LIb_Lref_iff b' _ k (Some j) Hl'). exact Hd.
Qed.

Theorem chain_into_lineage_any w hs kn k m :
  LIx (w_st w) -> Forall ff_hop hs ->
  rchain (w_st w) k m -> lineage (w_st (after w hs)) kn m -> lineage (w_st (after w hs)) kn k.
Proof.
  intros Hl Hff Hch Hm. induction Hch as [k|k r t m HL Hr Hch IH]; [exact Hm|].
  destruct (ref_fate_any w hs k t r Hl HL Hr Hff) as (_ & Hk & [Hg|(r' & HL' & Hr')]).
  - apply lin_gone; assumption.
  - eapply lin_ref; [exact HL' | exact Hr' | apply IH; exact Hm].
Qed.

(* ------------------------------------------------ the chain before the ending request *)

Lemma prechain_in_lineage_any w r kn k :
  LIx (w_st w) -> rq_plan r = [] ->
  rchain (w_st w) k kn -> lineage (w_st (fst (step w (HReq r)))) kn k.
Proof.
  intros Hl Hpl Hch.
  apply (chain_into_lineage_any w [HReq r] kn k kn Hl); [repeat constructor; assumption | exact Hch | constructor].
Qed.

Theorem destroyed_chain_any c hs1 r :
  Forall ff_hop hs1 -> rq_plan r = [] -> rq_crash r = None ->
  ob_script (snd (step (reach c hs1) (HReq r))) <> [] ->
  nth_error (rq_script r) (length (ob_script (snd (step (reach c hs1) (HReq r)))) - 1) = Some SDestroy ->
  exists kn rc, ob_final (snd (step (reach c hs1) (HReq r))) = Some (kn, rc) /\
    forall k hs2 r2,
      rchain (w_st (reach c hs1)) k kn ->
      Forall ff_hop hs2 -> rq_plan r2 = [] -> rq_crash r2 = None ->
      presents (after (fst (step (reach c hs1) (HReq r))) hs2) r2 = CKey k ->
      dead_answer (snd (step (after (fst (step (reach c hs1) (HReq r))) hs2) (HReq r2))).
Proof.
  intros H1 Hpl Hcr Hne Hn.
  pose proof (LIx_reach c hs1 H1) as Hl. pose proof Hl as [b (W & _)].
  destruct (step_destroy b _ r W Hpl Hcr Hne Hn) as (kn & rc & A1 & A2 & A3 & _).
  exists kn, rc. split; [exact A1|].
  intros k hs2 r2 Hch H2 Hpl2 Hcr2 Hpr.
  apply (lineage_probe_any (fst (step (reach c hs1) (HReq r))) kn hs2 r2 k); try assumption.
  - apply LIx_step; assumption.
  - apply prechain_in_lineage_any; assumption.
Qed.

Theorem invalidated_chain_any c hs1 r k0 r0 :
  Forall ff_hop hs1 -> rq_plan r = [] -> rq_crash r = None ->
  presented (reach c hs1) r = CKey k0 -> L (w_st (reach c hs1)) k0 = Some r0 ->
  rec_valid (conf (w_st (reach c hs1))) (now (w_st (reach c hs1)))
            (mkReq (presented (reach c hs1) r) (rq_create r) (rq_addr r) (rq_ua r)) r0 = false ->
  forall k hs2 r2,
    rchain (w_st (reach c hs1)) k k0 ->
    Forall ff_hop hs2 -> rq_plan r2 = [] -> rq_crash r2 = None ->
    presents (after (fst (step (reach c hs1) (HReq r))) hs2) r2 = CKey k ->
    dead_answer (snd (step (after (fst (step (reach c hs1) (HReq r))) hs2) (HReq r2))).
Proof.
  intros H1 Hpl Hcr Hpr0 HL Hv k hs2 r2 Hch H2 Hpl2 Hcr2 Hpr.
  pose proof (LIx_reach c hs1 H1) as Hl. pose proof Hl as [b (W & _)].
  destruct (step_invalid_dead b _ r k0 r0 W Hpl Hcr Hpr0 HL Hv) as (A1 & A2 & _).
  apply (lineage_probe_any (fst (step (reach c hs1) (HReq r))) k0 hs2 r2 k); try assumption.
  - apply LIx_step; assumption.
  - apply prechain_in_lineage_any; assumption.
Qed.
