(* The text sub-codecs of C16/C17, independent of the generated tables: the
   base-36 round trip of FormatUint/ParseUint (proved, not assumed) and zone
   offsets through time's binary form. *)
From Sessions Require Import Model.Base Model.Codec Proofs.BaseLemmas.
From Coq Require Import Lia ZifyBool ZifyN ZifyNat.
Local Open Scope N_scope.

(* ------------------------------------------------ FormatUint / ParseUint *)

Lemma char_digit_digit_char (d : N) : d < 36 -> char_digit (digit_char d) = Some d.
Proof.
  intro Hd. unfold digit_char, char_digit, in_rng.
  destruct (d <? 10) eqn:H10.
  - replace ((48 <=? 48 + d) && (48 + d <=? 57)) with true by lia.
    f_equal. lia.
  - replace ((48 <=? 87 + d) && (87 + d <=? 57)) with false by lia.
    replace ((97 <=? 87 + d) && (87 + d <=? 122)) with true by lia.
    f_equal. lia.
Qed.

Lemma digit_char_ascii (d : N) : d < 36 -> digit_char d < 128.
Proof. intro Hd. unfold digit_char. destruct (d <? 10); lia. Qed.

(* value of a digit string, most significant first *)
Definition eval_digits (r a : N) (ds : list N) : N := fold_left (fun x d => x * r + d) ds a.

Lemma eval_digits_app r a ds d : eval_digits r a (ds ++ [d]) = eval_digits r a ds * r + d.
Proof. unfold eval_digits. rewrite fold_left_app. reflexivity. Qed.

Lemma eval_digits_ge r a ds : 1 <= r -> a <= eval_digits r a ds.
Proof.
  intro Hr. revert a. induction ds as [|d ds IH]; intro a; cbn [eval_digits fold_left].
  - lia.
  - specialize (IH (a * r + d)). unfold eval_digits in IH. nia.
Qed.

Lemma digits_fuel_spec (fuel : nat) (r n : N) (acc : list N) :
  2 <= r -> n < 2 ^ N.of_nat fuel -> fuel <> O ->
  exists ds, digits_fuel fuel r n acc = ds ++ acc /\ eval_digits r 0 ds = n /\
             Forall (fun d => d < r) ds /\ ds <> [].
Proof.
  intros Hr. revert n acc. induction fuel as [|f IH]; intros n acc Hn Hf; [congruence|].
  cbn [digits_fuel].
  assert (Hmod : n mod r < r) by (apply N.mod_lt; lia).
  destruct (n / r =? 0) eqn:Hq.
  - exists [n mod r]. repeat split.
    + cbn. apply N.eqb_eq in Hq. assert (n < r) by (apply N.div_small_iff; [lia | exact Hq]).
      rewrite N.mod_small by assumption. reflexivity.
    + constructor; [assumption | constructor].
    + discriminate.
  - apply N.eqb_neq in Hq. assert (Hq' : n / r <> 0) by exact Hq.
    assert (Hlt : n / r < 2 ^ N.of_nat f).
    { replace (N.of_nat (S f)) with (N.succ (N.of_nat f)) in Hn by lia.
      rewrite N.pow_succ_r' in Hn.
      apply N.div_lt_upper_bound; [lia|].
      assert (2 * 2 ^ N.of_nat f <= r * 2 ^ N.of_nat f) by (apply N.mul_le_mono_r; lia). lia. }
    assert (Hf' : f <> O).
    { intro E. subst f. cbn in Hlt. set (q := n / r) in *. lia. }
    destruct (IH (n / r) (n mod r :: acc) Hlt Hf') as [ds [Heq [Hev [Hall Hne]]]].
    exists (ds ++ [n mod r]). repeat split.
    + rewrite Heq. rewrite <- app_assoc. reflexivity.
    + rewrite eval_digits_app, Hev. rewrite N.mul_comm. symmetry. apply N.div_mod. lia.
    + apply Forall_app. split; [assumption | constructor; [assumption | constructor]].
    + intro E. apply app_eq_nil in E. destruct E; discriminate.
Qed.

Lemma log2_fuel (n : N) : n < 2 ^ N.of_nat (S (N.to_nat (N.log2 n))).
Proof.
  replace (N.of_nat (S (N.to_nat (N.log2 n)))) with (N.succ (N.log2 n)) by lia.
  destruct n as [|p]; [cbn; lia|].
  apply N.log2_spec. lia.
Qed.

Lemma format_radix_digits (r n : N) :
  2 <= r ->
  exists ds, format_radix r n = map digit_char ds /\ eval_digits r 0 ds = n /\
             Forall (fun d => d < r) ds /\ ds <> [].
Proof.
  intro Hr. unfold format_radix.
  destruct (digits_fuel_spec (S (N.to_nat (N.log2 n))) r n [] Hr (log2_fuel n)) as [ds [Heq H]];
    [discriminate|].
  exists ds. rewrite Heq, app_nil_r. split; [reflexivity | exact H].
Qed.

Lemma parse_chars_digits (r bound : N) (ds : list N) (a : N) :
  1 <= r -> r <= 36 -> Forall (fun d => d < r) ds -> eval_digits r a ds < bound ->
  parse_chars r bound a (map digit_char ds) = Some (eval_digits r a ds).
Proof.
  intros Hr1 Hr. revert a. induction ds as [|d ds IH]; intros a Hall Hev.
  - reflexivity.
  - inversion Hall as [|? ? Hd Hall']; subst.
    cbn [map parse_chars]. rewrite char_digit_digit_char by lia.
    replace (r <=? d) with false by lia.
    assert (Hge := eval_digits_ge r (a * r + d) ds Hr1).
    change (eval_digits r a (d :: ds)) with (eval_digits r (a * r + d) ds) in *.
    replace (bound <=? a * r + d) with false by lia.
    apply IH; assumption.
Qed.

Lemma parse_chars_bound (r bound : N) (s : bytes) (a n : N) :
  a < bound -> parse_chars r bound a s = Some n -> n < bound.
Proof.
  revert a. induction s as [|c s IH]; intros a Ha H; cbn [parse_chars] in H.
  - injection H as <-. exact Ha.
  - destruct (char_digit c) as [d|]; [|discriminate].
    destruct (r <=? d); [discriminate|].
    destruct (bound <=? a * r + d) eqn:Hb; [discriminate|].
    apply (IH (a * r + d)); [lia | exact H].
Qed.

Lemma parse_format_radix (r bits n : N) :
  radix_ok r = true -> 0 < bits -> bits <= 64 -> n < 2 ^ bits ->
  parse_radix r bits (format_radix r n) = Some n.
Proof.
  intros Hr Hb0 Hb Hn. unfold radix_ok in Hr.
  destruct (format_radix_digits r n) as [ds [Heq [Hev [Hall Hne]]]]; [lia|].
  unfold parse_radix. rewrite Heq.
  replace (negb (radix_ok r) || (64 <? bits)) with false by (unfold radix_ok; lia).
  replace (bits =? 0) with false by lia.
  destruct ds as [|d ds]; [congruence|].
  cbn [map]. change (digit_char d :: map digit_char ds) with (map digit_char (d :: ds)).
  rewrite parse_chars_digits; [congruence | lia | lia | assumption | rewrite Hev; assumption].
Qed.

Lemma parse_radix_bound (r bits : N) (s : bytes) (n : N) :
  parse_radix r bits s = Some n -> n < 2 ^ (if bits =? 0 then 64 else bits).
Proof.
  unfold parse_radix. destruct (negb (radix_ok r) || (64 <? bits)); [discriminate|].
  destruct s as [|c s]; [discriminate|].
  apply parse_chars_bound.
  assert (2 ^ (if bits =? 0 then 64 else bits) <> 0) by (apply N.pow_nonzero; lia). lia.
Qed.

Lemma format_radix_ascii (r n : N) : radix_ok r = true -> all_ascii (format_radix r n) = true.
Proof.
  intro Hr. unfold radix_ok in Hr.
  destruct (format_radix_digits r n) as [ds [Heq [_ [Hall _]]]]; [lia|].
  rewrite Heq. unfold all_ascii. rewrite forallb_forall. intros c Hc.
  apply in_map_iff in Hc as [d [<- Hd]].
  rewrite Forall_forall in Hall. specialize (Hall d Hd).
  assert (digit_char d < 128) by (apply digit_char_ascii; lia). lia.
Qed.

(* C17, the fingerprint sub-codec *)
Lemma base36_roundtrip_lemma :
  (forall n, n < 2 ^ 64 -> parse36 (format36 n) = Some n) /\
  (forall s n, parse36 s = Some n -> n < 2 ^ 64).
Proof.
  split.
  - intros n Hn. apply parse_format_radix; [reflexivity | lia | lia | exact Hn].
  - intros s n H. apply parse_radix_bound in H. exact H.
Qed.

(* a digit string that denotes 2^64 or more is refused *)
Lemma parse_chars_overflow (r bound : N) (ds : list N) (a : N) :
  1 <= r -> r <= 36 -> Forall (fun d => d < r) ds -> bound <= eval_digits r a ds -> a < bound ->
  ds <> [] -> parse_chars r bound a (map digit_char ds) = None.
Proof.
  intros Hr1 Hr. revert a. induction ds as [|d ds IH]; intros a Hall Hev Ha Hne; [congruence|].
  inversion Hall as [|? ? Hd Hall']; subst.
  cbn [map parse_chars]. rewrite char_digit_digit_char by lia.
  replace (r <=? d) with false by lia.
  change (eval_digits r a (d :: ds)) with (eval_digits r (a * r + d) ds) in Hev.
  destruct (bound <=? a * r + d) eqn:Hb; [reflexivity|].
  destruct ds as [|d' ds'].
  - cbn in Hev. lia.
  - apply IH; [assumption | assumption | lia | discriminate].
Qed.

Lemma parse36_rejects_large (ds : list N) :
  Forall (fun d => d < 36) ds -> 2 ^ 64 <= eval_digits 36 0 ds ->
  parse36 (map digit_char ds) = None.
Proof.
  intros Hall Hev. unfold parse36, parse_radix.
  change (negb (radix_ok 36) || (64 <? 64)) with false. cbv iota.
  destruct ds as [|d ds]; [reflexivity|].
  change (64 =? 0) with false. cbv iota.
  change (map digit_char (d :: ds)) with (digit_char d :: map digit_char ds).
  change (digit_char d :: map digit_char ds) with (map digit_char (d :: ds)).
  apply parse_chars_overflow; [lia | lia | assumption | assumption | | discriminate].
  assert (2 ^ 64 <> 0) by (apply N.pow_nonzero; lia). lia.
Qed.

Example base36_max :
  format36 18446744073709551615 = [51;119;53;101;49;49;50;54;52;115;103;115;102] /\
  parse36 [51;119;53;101;49;49;50;54;52;115;103;115;102] = Some 18446744073709551615 /\
  parse36 [51;119;53;101;49;49;50;54;52;115;103;115;103] = None /\
  parse36 [] = None /\ parse36 [45;49] = None /\ parse36 [90] = Some 35.
Proof. repeat split; vm_compute; reflexivity. Qed.

(* ---------------------------------------- zone offsets in time's binary form *)

Lemma gob_off_back_exact (off : Z) : gob_off_exact off = true -> gob_off_back off = off.
Proof.
  unfold gob_off_exact, gob_off_ok, gob_off_back. intro H.
  assert (Hqr := Z.quot_rem' off 60).
  assert (Hr : (0 <= Z.rem off 60 < 60)%Z).
  { split; [lia|]. assert (Hb := Z.rem_bound_abs off 60). lia. }
  rewrite Z.mod_small by lia.
  replace (Z.quot off 60 * 60 + Z.rem off 60)%Z with off by lia.
  destruct (off =? -60)%Z eqn:E; [|reflexivity].
  assert (off = (-60)%Z) by lia. subst off. vm_compute in H. discriminate.
Qed.

Lemma gob_time_exact (t : gtime) : gob_off_exact (t_off t) = true -> gob_time t = Ok t.
Proof.
  intro H. unfold gob_time. rewrite (gob_off_back_exact _ H).
  unfold gob_off_exact in H. apply andb_true_iff in H as [-> _]. destruct t; reflexivity.
Qed.


(* ------------------------------------------- a value through encoding/json *)

Section Reparse.
  Variable jstr : bytes -> bytes.

  Lemma reparse_DMap (m : list (bytes * dval)) :
    reparse jstr (DMap m) =
    match reparse_map jstr m with Some m' => Some (DMap m') | None => None end.
  Proof.
    cbn [reparse].
    match goal with |- match ?f m with _ => _ end = _ => assert (E : f m = reparse_map jstr m) end.
    { induction m as [|[k x] t IH]; [reflexivity|]. cbn [reparse_map]. rewrite <- IH. reflexivity. }
    rewrite E. reflexivity.
  Qed.

  Lemma reparse_DInt z : reparse jstr (DInt z) = Some (DFloat (f64_of_Z z)).
  Proof. reflexivity. Qed.
  Lemma reparse_DStr x : reparse jstr (DStr x) = Some (DStr (jstr x)).
  Proof. reflexivity. Qed.
  Lemma reparse_DNull : reparse jstr DNull = Some DNull.
  Proof. reflexivity. Qed.
End Reparse.

(* ------------------------------------------------- UnmarshalJSON is total *)

Section JsonTotal.
  Variable load : loader.
  Variable parse_time : bytes -> bytes -> option gtime.

  Ltac destr_matches :=
    repeat match goal with
           | |- context [match ?x with _ => _ end] => destruct x
           end.

  (* one block of the cascade, when its assertion is typed and in comma-ok
     form, yields Ok or Err whatever the value under the key is *)
  Lemma block_no_panic (b : ublock) (v : dval) (s : csess) :
    ublock_checked b = true ->
    rbind (run_guard (ub_guard b) v) (fun v' => run_use load parse_time (ub_use b) v' s) <> Panic.
  Proof.
    destruct b as [key mand g u]. unfold ublock_checked, ublock_typed.
    cbn [ub_guard ub_use]. intro H.
    destruct g as [|t ok|t ok]; destruct u; cbn in H; try discriminate H;
      try (destruct t; cbn in H; try discriminate H);
      try (destruct ok; cbn in H; try discriminate H);
      destruct v; cbn; destr_matches; discriminate.
  Qed.

  Lemma json_blocks_panic (dec : list ublock) (obj : list (bytes * dval)) (s : csess) :
    json_blocks load parse_time dec obj s = Panic ->
    exists b, In b dec /\ ublock_checked b = false.
  Proof.
    revert s. induction dec as [|b dec IH]; intros s H; cbn [json_blocks] in H; [discriminate|].
    destruct (ublock_checked b) eqn:Hb; [|exists b; split; [left; reflexivity | exact Hb]].
    assert (Hnp := block_no_panic b).
    destruct (assoc (ub_key b) obj) as [v|].
    - specialize (Hnp v s Hb).
      destruct (run_guard (ub_guard b) v) as [v'| |]; cbn [rbind] in H, Hnp; try discriminate H.
      + destruct (run_use load parse_time (ub_use b) v' s) as [s'| |]; cbn [rbind] in H; try discriminate H.
        * destruct (IH s' H) as [b' [Hin Hb']]. exists b'. split; [right; exact Hin | exact Hb'].
        * congruence.
      + congruence.
    - destruct (ub_mandatory b); [discriminate|].
      destruct (IH s H) as [b' [Hin Hb']]. exists b'. split; [right; exact Hin | exact Hb'].
  Qed.

  (* a panic can only come from a type assertion that is not in comma-ok form
     (or from a table that no Go compiler would have accepted) *)
  Lemma json_unmarshal_panic (dec : list ublock) (j : dval) :
    json_unmarshal load parse_time dec j = Panic ->
    exists b, In b dec /\ ublock_checked b = false.
  Proof.
    unfold json_unmarshal. destruct j; try discriminate; apply json_blocks_panic.
  Qed.
End JsonTotal.
