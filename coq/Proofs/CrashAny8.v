(* R10, C10: the DATA of the record that the presented ID resolves to after a process
   stop at any point of a fault-free request step with any handler script: the data
   the store held before the step, or one of the data states of the script starting
   from the data of the session Start returned ("all previously acknowledged data",
   possibly plus a prefix of this request's own writes).

   step_saves_data     every save of the step, under the session's old ID or an ID
                       drawn by the step, of a session's record, writes such data
                       (CrashAny7.v over the whole request body);
   presented_data_any  with chain_resolves_stop_record (CrashAny4.v): the record at
                       the end of the chain was there before or was written by such
                       a save.

   No axioms; standard library only. *)
From Sessions Require Import Model.Base Model.Sess Model.Hist Proofs.SessDefs
  Proofs.HistInv Proofs.HistInv2 Proofs.HistInv3 Proofs.HistLift Proofs.HistLift2 Proofs.HistLift3
  Proofs.HistLift4 Proofs.HistLiftB Proofs.LineageB Proofs.LineageK Proofs.LineageK3 Proofs.LineageF
  Proofs.CrashAny Proofs.CrashAny2 Proofs.CrashAny3 Proofs.CrashAny4 Proofs.CrashAny6 Proofs.CrashAny7.
From Sessions Require Proofs.CrashFault Proofs.CrashFault2 Proofs.CrashFault3 Proofs.CrashFault9 Proofs.CrashChain.
From Coq Require Import Lia.

Lemma ob_start_of_start w r s2 o cks :
  start (pre_of w r) (req_of w r) = (s2, Ok (Some o), cks) ->
  ob_start (snd (step w (HReq (nocrash r)))) = handle_view (fire_due s2) o.
Proof.
  intro E. rewrite step_req_eq. cbv zeta.
  cbn [nocrash rq_client rq_present rq_create rq_addr rq_ua rq_script rq_tb rq_plan rq_crash].
  change (match rq_present r with PJar => jar_of (w_jars w) (rq_client r) | PForge c => c end) with (presents w r).
  change (mkReq (presents w r) (rq_create r) (rq_addr r) (rq_ua r)) with (req_of w r).
  change (set_tb (set_plan (set_evs (w_st w) []) (rq_plan r)) (rq_tb r)) with (pre_of w r).
  unfold req_body. rewrite E. cbv zeta.
  destruct (run_script (fire_due s2) o (had_cookie (req_of w r)) (rq_script r)) as [[s3 sr] cks']. reflexivity.
Qed.

Theorem step_saves_data_pre b (S : key -> Prop) (PSd : list (N * N) -> Prop) w r k0 d0 :
  LIb b (w_st w) -> rq_plan r = [] -> presents w r = CKey k0 -> lookup (store (w_st w)) k0 <> None ->
  CrashFault2.J (KC S PSd) (w_st w) ->
  (forall id0 rc0, ob_start (snd (step w (HReq (nocrash r)))) = Some (id0, rc0) -> r_data rc0 = Some d0) ->
  (forall x, In x (script_data d0 (rq_script r)) -> PSd x) ->
  Forall (ELC S PSd) (ndp (ob_evs (snd (step w (HReq (nocrash r)))))).
Proof.
  intros Hl Hpl Hpr Hst HJ Hd0 Hps. rewrite <- req_final_evs. unfold req_final.
  pose proof (GWb_Gb b Q0 Q0_qt (w_st w) (rq_plan r) (rq_tb r) Hl Hpl) as G1. fold (pre_of w r) in G1.
  assert (Hh : forall s2 o cks, start (pre_of w r) (req_of w r) = (s2, Ok (Some o), cks) -> hdat s2 o d0).
  { intros s2 o cks E.
    destruct (start_Gb b Q0 DEL0 Q0_qt Q0_new Q0_repl Q0_del _ (pre_of w r) (req_of w r) G1) as (s2' & res & cks' & E' & _ & _ & H2 & _).
    { intros; exact Logic.I. }
    rewrite E in E'. injection E' as <- <- <-. destruct (H2 o eq_refl) as (_ & (ob & Ho & _) & _).
    destruct (CrashFault9.stable_fire_due s2 o ob Ho) as (ob' & Ho' & _ & Hd').
    pose proof (ob_start_of_start w r s2 o cks E) as Es. unfold handle_view in Es. rewrite Ho' in Es.
    exists ob. split; [exact Ho|]. rewrite <- Hd'. exact (Hd0 _ _ Es). }
  destruct (dk_req_body b S PSd _ (pre_of w r) (req_of w r) (rq_script r) k0 G1 Hpr Hst) as (l & X & Hc).
  - intros s2 o cks d1 E Hd1 x Hx. pose proof (Hh _ _ _ E) as (ob & Ho & Hd). destruct Hd1 as (ob1 & Ho1 & Hd1).
    assert (d1 = d0) by congruence. subst d1. exact (Hps x Hx).
  - intros s2 o cks E. exists d0. exact (Hh _ _ _ E).
  - pose proof (CrashFault.x_evs _ _ _ X) as Xe. unfold pre_of in Xe at 2. sst. rewrite app_nil_r in Xe.
    rewrite Xe, rev_involutive. apply Hc.
    eapply CrashFault2.J_same; [| | |exact HJ]; reflexivity.
Qed.

(* the form for a step that deletes nothing at all *)
Theorem step_saves_data b (S : key -> Prop) (PSd : list (N * N) -> Prop) w r k0 d0 :
  LIb b (w_st w) -> rq_plan r = [] -> presents w r = CKey k0 -> lookup (store (w_st w)) k0 <> None ->
  CrashFault2.J (KC S PSd) (w_st w) ->
  (forall id0 rc0, ob_start (snd (step w (HReq (nocrash r)))) = Some (id0, rc0) -> r_data rc0 = Some d0) ->
  (forall x, In x (script_data d0 (rq_script r)) -> PSd x) ->
  no_del (ob_evs (snd (step w (HReq (nocrash r))))) ->
  Forall (ELC S PSd) (ob_evs (snd (step w (HReq (nocrash r))))).
Proof.
  intros Hl Hpl Hpr Hst HJ Hd0 Hps Hnd. rewrite <- (ndp_nodel _ Hnd).
  exact (step_saves_data_pre b S PSd w r k0 d0 Hl Hpl Hpr Hst HJ Hd0 Hps).
Qed.

(* ------------------------------------------------ small list facts *)

Lemma last_app_ne {A} (a b : list A) d : b <> [] -> last (a ++ b) d = last b d.
Proof.
  intro Hb. induction a as [|x a IH]; [reflexivity|]. cbn [app]. rewrite <- IH.
  destruct (a ++ b) eqn:E; [exfalso; destruct a; cbn in E; [congruence | discriminate] | reflexivity].
Qed.

Lemma last_In_ne {A} (b : list A) d : b <> [] -> In (last b d) b.
Proof.
  induction b as [|x b IH]; [congruence|]. intros _. destruct b as [|y b]; [left; reflexivity|].
  right. apply IH. discriminate.
Qed.

Lemma spath_end_upgrade (F : rec -> Prop) stor : forall p k,
  CrashChain.spath (fun _ => True) stor k p ->
  (forall rend, lookup stor (last p k) = Some rend -> r_ref rend = None -> F rend) ->
  CrashChain.spath F stor k p.
Proof.
  induction p as [|k' t IH]; intros k H HF.
  - destruct H as (r & A & B & _). exists r. split; [exact A|]. split; [exact B | exact (HF r A B)].
  - destruct H as [A B]. split; [exact A|]. apply IH; [exact B|]. rewrite CrashChain.last_cons in HF. exact HF.
Qed.

(* ------------------------------------------------ the theorem *)

Theorem presented_data_pre w r n k0 rest rn d0 :
  LIx (w_st w) -> graves_drawn (w_st w) -> rq_plan r = [] -> rq_crash r = Some n ->
  no_deletes (ev_prefix (ob_evs (snd (step w (HReq (nocrash r))))) n) ->
  presents w r = CKey k0 ->
  CrashChain.spath (fun _ => True) (store (w_st w)) k0 rest ->
  lookup (store (w_st w)) (last rest k0) = Some rn ->
  (* a cached copy of the session agrees with the store on the data *)
  (forall o ob, In (last rest k0, o) (cache (w_st w)) -> hget (w_st w) o = Some ob -> r_ref (o_rec ob) = None ->
     CrashFault3.dat (o_rec ob) = CrashFault3.dat rn) ->
  (* the data of the session Start returns in the step run to completion *)
  (forall id0 rc0, ob_start (snd (step w (HReq (nocrash r)))) = Some (id0, rc0) -> r_data rc0 = Some d0) ->
  CrashChain.resolves_chain
    (fun rd => CrashFault3.dat rd = CrashFault3.dat rn \/ In (CrashFault3.dat rd) (script_data d0 (rq_script r)))
    (store (w_st (fst (step w (HReq r))))) k0.
Proof.
  intros Hlx Hg Hpl Hcr Hnd Hpr Hp Hrn Hca Hd0. pose proof Hlx as [b Hl].
  set (kn := last rest k0) in *. set (D := CrashFault3.dat rn) in *.
  set (S := fun k => k = kn \/ fresh_from_n (supply (w_st w)) k).
  set (PSd := fun x => x = D \/ In x (script_data d0 (rq_script r))).
  pose proof Hl as (W & _).
  assert (Hfresh_unstored : forall k rk, fresh_from_n (supply (w_st w)) k -> lookup (store (w_st w)) k = Some rk -> False).
  { intros k rk (m & -> & Hm) Hk. apply lookup_In in Hk. destruct (i_fs _ _ _ _ _ W _ _ Hk) as [Hkd _]. cbn [kd] in Hkd. sst. lia. }
  assert (Hk0 : lookup (store (w_st w)) k0 <> None).
  { destruct rest as [|k1 t]; [destruct Hp as (r0 & A & _) | destruct Hp as [(r0 & A & _) _]]; rewrite A; discriminate. }
  assert (HJ : CrashFault2.J (KC S PSd) (w_st w)).
  { split; [|split].
    - intros k o Hin. pose proof (CrashFault.NoDup_lookup _ _ _ (i_ndc _ _ _ _ _ W) Hin) as Hlk.
      destruct (i_cok _ _ _ _ _ W k o Hlk) as (ob & Ho & _). eapply hget_Some_lt. exact Ho.
    - intros k o ob Hin Ho [->|Hf] Hr.
      + left. exact (Hca o ob Hin Ho Hr).
      + exfalso. destruct Hf as (m & -> & Hm). destruct (i_fc _ _ _ _ _ W _ _ Hin) as [Hkd _]. cbn [kd] in Hkd. sst. lia.
    - intros k rk Hk [->|Hf] Hr.
      + left. unfold kn in Hk. fold kn in Hk. rewrite Hrn in Hk. injection Hk as <-. reflexivity.
      + exfalso. exact (Hfresh_unstored k rk Hf Hk). }
  assert (Hev : Forall (ELC S PSd) (ndp (ob_evs (snd (step w (HReq (nocrash r))))))).
  { apply (step_saves_data_pre b S PSd w r k0 d0 Hl Hpl Hpr Hk0 HJ Hd0). intros x Hx; right; exact Hx. }
  destruct (chain_resolves_stop_record_pre w r n k0 rest Hlx Hg Hpl Hcr Hnd Hp) as (tl & rend & Hs & Hfr & Hend & Hre & Hsrc).
  eapply CrashChain.spath_resolves_chain. eapply spath_end_upgrade; [exact Hs|].
  intros rend' Hl' Hr'. rewrite Hend in Hl'. injection Hl' as <-.
  assert (HSx : S (last (rest ++ tl) k0) /\ (tl = [] -> last (rest ++ tl) k0 = kn)).
  { destruct tl as [|t0 tl'].
    - rewrite app_nil_r. split; [left; reflexivity | reflexivity].
    - split; [|discriminate]. right. rewrite last_app_ne by discriminate.
      rewrite Forall_forall in Hfr. apply Hfr. apply last_In_ne. discriminate. }
  destruct HSx as [HS Hkn]. destruct Hsrc as [Hpre|Hin].
  - left. destruct tl as [|t0 tl'].
    + rewrite (Hkn eq_refl) in Hpre. rewrite Hrn in Hpre. injection Hpre as <-. reflexivity.
    + exfalso. destruct HS as [E|Hf]; [|exact (Hfresh_unstored _ _ Hf Hpre)].
      (* the end of a non-empty fresh tail is fresh, hence not stored before *)
      rewrite last_app_ne in Hpre by discriminate.
      rewrite Forall_forall in Hfr. exact (Hfresh_unstored _ _ (Hfr _ (last_In_ne (t0 :: tl') k0 ltac:(discriminate))) Hpre).
  - rewrite Forall_forall in Hev.
    assert (Hin' : In (EvSave (last (rest ++ tl) k0) rend true) (ndp (ob_evs (snd (step w (HReq (nocrash r))))))).
    { rewrite (ev_prefix_split (ob_evs (snd (step w (HReq (nocrash r))))) n). apply ndp_prefix_In; [exact Hnd | exact Hin]. }
    specialize (Hev _ Hin'). cbn [ELC] in Hev. exact (Hev HS Hre).
Qed.

(* the form for a step that deletes nothing at all *)
Theorem presented_data_any w r n k0 rest rn d0 :
  LIx (w_st w) -> graves_drawn (w_st w) -> rq_plan r = [] -> rq_crash r = Some n ->
  no_deletes (ob_evs (snd (step w (HReq (nocrash r))))) ->
  presents w r = CKey k0 ->
  CrashChain.spath (fun _ => True) (store (w_st w)) k0 rest ->
  lookup (store (w_st w)) (last rest k0) = Some rn ->
  (forall o ob, In (last rest k0, o) (cache (w_st w)) -> hget (w_st w) o = Some ob -> r_ref (o_rec ob) = None ->
     CrashFault3.dat (o_rec ob) = CrashFault3.dat rn) ->
  (forall id0 rc0, ob_start (snd (step w (HReq (nocrash r)))) = Some (id0, rc0) -> r_data rc0 = Some d0) ->
  CrashChain.resolves_chain
    (fun rd => CrashFault3.dat rd = CrashFault3.dat rn \/ In (CrashFault3.dat rd) (script_data d0 (rq_script r)))
    (store (w_st (fst (step w (HReq r))))) k0.
Proof.
  intros Hl Hg Hpl Hcr Hnd. exact (presented_data_pre w r n k0 rest rn d0 Hl Hg Hpl Hcr (no_deletes_prefix _ n Hnd)).
Qed.
