(* C03 at the history level, part 6: C03H_live. A client that holds an ID keeps
   being served as long as its requests are spaced by less than SessionExpiry
   (minus the codec's resolution), its peer/agent stay acceptable, and no other
   request is given its session or presents its ID.

     owns j c k a w   between steps: the invariants W, client c's jar holds k,
                      k is present, resolves to a session (not a replaced-ID
                      record) whose access time read through the codec is >= a,
                      k awaits no clean-up, and a is not ahead of the clock
     is_own c h       h is a cookie-following request of client c
     okreq            what such a request must satisfy (spacing, peer/agent,
                      cache enabled, sane rotation settings, no Destroy)
     respects         what every other step must respect (LiveHist4.v)
     live_run         these requirements along a list of hops
     all_served       every request of the client in the list returns a session *)
From Sessions Require Import Model.Base Model.Sess Model.Hist Proofs.SessDefs
  Proofs.HistInv Proofs.HistInv2 Proofs.HistInv3
  Proofs.LiveHist Proofs.LiveHist2 Proofs.LiveHist3 Proofs.LiveHist4 Proofs.LiveHist5.
From Sessions Require Proofs.DeadLaws.
From Coq Require Import Lia.

(* ------------------------------------------------------------------ jars *)

Lemma jar_of_set_same jars c v : jar_of (jar_set jars c v) c = v.
Proof.
  induction jars as [|[c' v'] t IH]; cbn [jar_set jar_of]; [rewrite N.eqb_refl; reflexivity|].
  destruct (N.eqb c c') eqn:E; cbn [jar_of]; rewrite ?N.eqb_refl, ?E; [reflexivity | exact IH].
Qed.

Lemma jar_of_set_other jars c c' v : c <> c' -> jar_of (jar_set jars c' v) c = jar_of jars c.
Proof.
  intro Hne. induction jars as [|[c2 v2] t IH]; cbn [jar_set jar_of].
  - apply N.eqb_neq in Hne. rewrite Hne. reflexivity.
  - destruct (N.eqb c' c2) eqn:E; cbn [jar_of].
    + apply N.eqb_eq in E. subst c2. apply N.eqb_neq in Hne. rewrite Hne. reflexivity.
    + destruct (N.eqb c c2); [reflexivity | exact IH].
Qed.

Definition is_own (c : N) (h : hop) : bool :=
  match h with
  | HReq r => N.eqb (rq_client r) c && match rq_present r with PJar => true | PForge _ => false end
  | _ => false
  end.

Lemma jar_kept j c w h : calm j h -> winv 0 ND (w_st w) -> is_own c h = false ->
  jar_of (w_jars (fst (step w h))) c = jar_of (w_jars w) c.
Proof.
  intros Hc Wi Hown. destruct h as [r|d|tbl pl| | |u tbl pl|u tbl pl|cf]; cbn [calm is_own] in *; try contradiction.
  - destruct Hc as [Hpl Hcr].
    pose proof (inv_of_winv 0 ND (w_st w) (rq_tb r) Wi : inv 0 (supply (w_st w), []) NX ND (req_s1 w r)) as I1.
    destruct (req_body_inv 0 (supply (w_st w), []) ND (req_s1 w r) (req_q w r) (rq_script r) I1)
      as (s3 & rc & st0 & sr & fin & cks & E & _).
    rewrite (step_req_calm _ _ _ _ _ _ _ _ Hpl Hcr E). cbn [fst w_jars].
    destruct (N.eqb (rq_client r) c) eqn:Ec.
    + apply N.eqb_eq in Ec. subst c. cbn [andb] in Hown. unfold jar_after.
      destruct (rq_present r); [discriminate|]. apply jar_of_set_same.
    + apply N.eqb_neq in Ec. apply jar_of_set_other. congruence.
  - reflexivity.
  - reflexivity.
  - cbn [step]. destruct (logout_user _ u) as [s1 r]. reflexivity.
  - cbn [step]. destruct (refresh_user _ u) as [s1 r]. reflexivity.
  - reflexivity.
Qed.

(* ------------------------------------------------------------- holding *)

Definition owns (j : bool) (c : N) (k : key) (a : Z) (w : world) : Prop :=
  W j w /\ jar_of (w_jars w) c = CKey k /\
  G (Pk true j k a) (Kk true k) (w_st w) /\ (a <= fl j (now (w_st w)))%Z.

Lemma owns_L j c k a w : owns j c k a w ->
  exists r, L (w_st w) k = Some r /\ r_ref r = None /\ (a <= fl j (r_access r))%Z /\ (r_access r <= now (w_st w))%Z.
Proof.
  intros ((Wi & Hj & HU) & _ & HG & _).
  destruct (L (w_st w) k) as [r|] eqn:HL.
  - exists r. split; [reflexivity|]. destruct (G_L HG HL eq_refl) as [Hr Ha].
    split; [apply Hr; reflexivity|]. split; [exact Ha | exact (G_L HU HL)].
  - exfalso. eapply (G_present _ _ _ _ (winv_cache_valid _ _ _ Wi) HG (conj eq_refl eq_refl)). exact HL.
Qed.

(* an ID in a jar that resolves to a session and awaits no clean-up is held *)
Lemma owns_adopt j c k w r :
  W j w -> jar_of (w_jars w) c = CKey k -> L (w_st w) k = Some r -> r_ref r = None ->
  (forall d k', In (d, k') (pending (w_st w)) -> k' <> k) ->
  owns j c k (fl j (r_access r)) w.
Proof.
  intros Hw Hjar HL Hr Hp. pose proof Hw as (Wi & Hj & HU). split; [exact Hw|]. split; [exact Hjar|]. split.
  - apply G_adopt; [eapply winv_cache_valid; exact Wi | | exact Hp]. exists r. split; [exact HL|]. split; [exact Hr | lia].
  - apply fl_mono. exact (G_L HU HL).
Qed.

(* every step that is not a request of the client and respects its ID *)
Theorem owns_foreign j c k a w h :
  owns j c k a w -> calm j h -> is_own c h = false -> respects (Kk true k) w h ->
  owns j c k a (fst (step w h)).
Proof.
  intros (Hw & Hjar & HG & Ha) Hc Hown Hresp. pose proof Hw as (Wi & Hj & HU).
  destruct (owns_L j c k a w (conj Hw (conj Hjar (conj HG Ha)))) as (r & HL & _).
  destruct (step_G (Pk true j k a) (Kk true k) 0 ND j w h Wi HG) as (G' & Hn & _).
  - apply CL_k; [exact Hj | exact Ha | eapply winv_L_drawn; eassumption].
  - exact Hc.
  - exact Hresp.
  - split; [apply W_step; assumption|]. split; [rewrite (jar_kept j c w h Hc Wi Hown); exact Hjar|].
    split; [exact G'|]. pose proof (fl_mono j _ _ Hn). lia.
Qed.

(* ------------------------------------------------- the client's requests *)

Definition slackj (j : bool) : Z := if j then (second - 1)%Z else 0%Z.

Record okreq (j : bool) (c : N) (tl : Z) (w : world) (r : reqstep) : Prop := mkOkReq {
  ok_cache : c_maxcache (conf (w_st w)) <> 0%Z;
  ok_grace : (0 <= c_grace (conf (w_st w)))%Z;
  ok_idexp : (c_idexpiry (conf (w_st w)) <= max64)%Z;
  ok_gap : (now (w_st w) - tl + slackj j < c_expiry (conf (w_st w)))%Z;
  ok_peer : forall k r0, jar_of (w_jars w) c = CKey k -> L (w_st w) k = Some r0 ->
              ip_ok (c_acceptip (conf (w_st w))) (r_ip r0) (rq_addr r) = true /\
              ua_ok (c_acceptua (conf (w_st w))) (r_ua r0) (rq_ua r) = true;
  ok_script : existsb is_destroy (rq_script r) = false }.

(* the part of the client's request after Start: clean-ups, script, jar *)
Lemma own_finish j c w r s2 o ck ob2 :
  W j w -> rq_client r = c -> rq_present r = PJar -> rq_plan r = [] -> rq_crash r = None ->
  existsb is_destroy (rq_script r) = false ->
  start (req_s1 w r) (req_q w r) = (s2, Ok (Some o), ck) -> hget s2 o = Some ob2 ->
  r_ref (o_rec ob2) = None -> r_access (o_rec ob2) = now (w_st w) ->
  apply_cookies (jar_of (w_jars w) c) ck = CKey (o_id ob2) ->
  G (Pk true j (o_id ob2) (fl j (now (w_st w)))) (Kk true (o_id ob2)) s2 ->
  ob_res (snd (step w (HReq r))) = RSess /\
  exists k', ob_jar (snd (step w (HReq r))) = CKey k' /\
    owns j c k' (fl j (now (w_st w))) (fst (step w (HReq r))) /\
    exists r', L (w_st (fst (step w (HReq r)))) k' = Some r' /\ r_ref r' = None /\
               fl j (r_access r') = fl j (now (w_st w)).
Proof.
  intros Hw Hcl Hpj Hpl Hcr Hscr Est Ho2 Hr2 Hac2 Hck G2.
  pose proof Hw as (Wi & Hj & HU). set (s := w_st w) in *.
  assert (Hcalm : calm j (HReq r)) by (split; assumption).
  pose proof (inv_of_winv 0 ND s (rq_tb r) Wi : inv 0 (supply s, []) NX ND (req_s1 w r)) as I1.
  destruct (start_inv _ _ _ _ (req_q w r) I1) as (s2' & res & cks0 & E0 & I2 & Hres & _).
  rewrite Est in E0. injection E0 as <- <- <-. cbn [res_ok] in Hres.
  pose proof (start_fr _ _ _ _ _ _ _ _ I1 Est) as (F1 & F2 & F3).
  change (now (req_s1 w r)) with (now s) in F2. change (conf (req_s1 w r)) with (conf s) in F1.
  destruct (fire_due_inv _ _ _ _ I2) as (I3 & Hh & _).
  assert (H3 : hok 0 ND (fire_due s2) o) by (eapply hok_ids; [apply ids_pres_heap; exact Hh | exact Hres]).
  assert (HO2 : OwnH j s2 o).
  { exists ob2. split; [exact Ho2|]. split; [exact Hr2|]. rewrite F2, Hac2. split; [lia | exact G2]. }
  pose proof (OwnH_fire_due j _ s2 o I2 HO2) as HO3.
  destruct (fire_due_Step PT KE _ _ _ _ I2 (G_T s2)) as (_ & _ & F4 & F5 & F6).
  assert (Hj3 : c_json (conf (fire_due s2)) = j) by (rewrite F4, F1; exact Hj).
  destruct (run_script (fire_due s2) o (had_cookie (req_q w r)) (rq_script r)) as [[s3 sr] cks'] eqn:Esc.
  destruct (own_script j _ _ (rq_script r) (fire_due s2) o I3 H3 Hj3 HO3 Hscr _ _ _ Esc)
    as (obA & obB & HoA & HoB & Hck2 & I4 & (F7 & F8 & F9) & HO4).
  assert (HoA' : hget (fire_due s2) o = Some ob2) by (unfold hget; rewrite Hh; exact Ho2).
  rewrite HoA' in HoA. injection HoA as <-.
  assert (Ebody : req_body (req_s1 w r) (req_q w r) (rq_script r) =
                  (s3, RSess, handle_view (fire_due s2) o, sr, handle_view s3 o, ck ++ cks')).
  { unfold req_body. rewrite Est. cbv zeta. rewrite Esc. reflexivity. }
  pose proof (step_req_calm _ _ _ _ _ _ _ _ Hpl Hcr Ebody) as Estep.
  assert (Hjar' : jar_after w r (ck ++ cks') = CKey (o_id obB)).
  { unfold jar_after. rewrite Hpj, Hcl, DeadLaws.apply_cookies_app, Hck. exact Hck2. }
  pose proof (W_step j w (HReq r) Hw Hcalm) as Hw'.
  rewrite Estep in *. cbn [fst snd mk_obs ob_res ob_jar w_st] in *.
  split; [reflexivity|]. exists (o_id obB). split; [exact Hjar'|].
  assert (Hnow3 : now s3 = now s) by congruence.
  destruct HO4 as (obB' & HoB' & HrB & HaB & G4). rewrite HoB in HoB'. injection HoB' as <-.
  rewrite Hnow3 in G4.
  assert (G5 : G (Pk true j (o_id obB) (fl j (now s))) (Kk true (o_id obB)) (set_tb (set_plan s3 []) [])).
  { eapply G_same; [| | | |exact G4]; reflexivity. }
  assert (Hown' : owns j c (o_id obB) (fl j (now s))
                    (mkWorld (set_tb (set_plan s3 []) []) (jar_set (w_jars w) (rq_client r) (jar_after w r (ck ++ cks'))))).
  { split; [exact Hw'|]. cbn [w_st w_jars]. split; [rewrite Hcl, jar_of_set_same; exact Hjar'|].
    split; [exact G5|]. sst. rewrite Hnow3. lia. }
  split; [exact Hown'|].
  destruct (owns_L _ _ _ _ _ Hown') as (r' & HL' & Hr' & Ha' & Hu'). cbn [w_st] in *.
  exists r'. split; [exact HL'|]. split; [exact Hr'|].
  sst. rewrite Hnow3 in Hu'. pose proof (fl_mono j _ _ Hu'). lia.
Qed.

(* One request of the client that holds k: it is served, and the ID in its jar
   afterwards (k, or the ID it was rotated to by Start, RegenerateID or LogIn)
   is held with access time now (as the codec keeps it). *)
Theorem owns_own j c k tl w r :
  owns j c k (fl j tl) w ->
  rq_client r = c -> rq_present r = PJar -> rq_plan r = [] -> rq_crash r = None ->
  okreq j c tl w r ->
  ob_res (snd (step w (HReq r))) = RSess /\
  exists k', ob_jar (snd (step w (HReq r))) = CKey k' /\
    owns j c k' (fl j (now (w_st w))) (fst (step w (HReq r))) /\
    exists r', L (w_st (fst (step w (HReq r)))) k' = Some r' /\ r_ref r' = None /\
               fl j (r_access r') = fl j (now (w_st w)).
Proof.
  intros (Hw & Hjar & HG & Ha) Hcl Hpj Hpl Hcr [Hmx Hgr Hid Hgap Hpeer Hscr].
  pose proof Hw as (Wi & Hj & HU).
  pose proof (inv_of_winv 0 ND (w_st w) (rq_tb r) Wi : inv 0 (supply (w_st w), []) NX ND (req_s1 w r)) as I1.
  assert (Hq : q_cookie (req_q w r) = CKey k).
  { cbn [req_q q_cookie]. unfold pres. rewrite Hpj, Hcl. exact Hjar. }
  assert (G1 : G (Pk true j k (fl j tl)) (Kk true k) (req_s1 w r)) by (eapply G_same; [| | | |exact HG]; reflexivity).
  destruct (own_start j _ (req_s1 w r) (req_q w r) k (fl j tl) I1 Hj Hq G1 Hmx Hgr Hid)
    as (s2 & o & ck & ob2 & Est & Ho2 & Hr2 & Hac2 & Hck & G2).
  { change (now (req_s1 w r)) with (now (w_st w)). change (conf (req_s1 w r)) with (conf (w_st w)).
    pose proof (fl_slack j tl). unfold slackj in Hgap. destruct j; lia. }
  { exact Ha. }
  { intros r0 HL0. apply (Hpeer k r0 Hjar). exact HL0. }
  eapply own_finish; try eassumption. rewrite Hjar. exact Hck.
Qed.

(* The request that creates the client's session (no 24-character cookie
   value in its jar, createIfNew set): afterwards the client holds the new ID. *)
Theorem owns_create j c w r :
  W j w -> rq_client r = c -> rq_present r = PJar -> rq_plan r = [] -> rq_crash r = None ->
  (forall k, jar_of (w_jars w) c <> CKey k) -> rq_create r = true ->
  existsb is_destroy (rq_script r) = false ->
  ob_res (snd (step w (HReq r))) = RSess /\
  exists k', ob_jar (snd (step w (HReq r))) = CKey k' /\
    owns j c k' (fl j (now (w_st w))) (fst (step w (HReq r))) /\
    exists r', L (w_st (fst (step w (HReq r)))) k' = Some r' /\ r_ref r' = None /\
               fl j (r_access r') = fl j (now (w_st w)).
Proof.
  intros Hw Hcl Hpj Hpl Hcr Hjar Hcreate Hscr. pose proof Hw as (Wi & Hj & HU).
  pose proof (inv_of_winv 0 ND (w_st w) (rq_tb r) Wi : inv 0 (supply (w_st w), []) NX ND (req_s1 w r)) as I1.
  destruct (own_create j _ (req_s1 w r) (req_q w r) I1 Hj) as (s2 & o & ck & ob2 & Est & Ho2 & Hr2 & Hac2 & Hck & G2).
  { cbn [req_q q_cookie]. unfold pres. rewrite Hpj, Hcl. exact Hjar. }
  { exact Hcreate. }
  eapply own_finish; try eassumption. apply Hck.
Qed.

(* ------------------------------------------------------------ along a run *)

Fixpoint live_run (j : bool) (c : N) (tl : Z) (w : world) (hs : list hop) : Prop :=
  match hs with
  | [] => True
  | h :: t =>
    calm j h /\
    (if is_own c h
     then match h with HReq r => okreq j c tl w r | _ => True end /\
          live_run j c (now (w_st w)) (fst (step w h)) t
     else (forall k, jar_of (w_jars w) c = CKey k -> respects (Kk true k) w h) /\
          live_run j c tl (fst (step w h)) t)
  end.

Fixpoint all_served (c : N) (w : world) (hs : list hop) : Prop :=
  match hs with
  | [] => True
  | h :: t => (is_own c h = true -> ob_res (snd (step w h)) = RSess) /\ all_served c (fst (step w h)) t
  end.

Theorem live_run_served j c : forall hs k tl w,
  owns j c k (fl j tl) w -> live_run j c tl w hs -> all_served c w hs.
Proof.
  induction hs as [|h t IH]; intros k tl w Ho Hl; cbn [live_run all_served] in *; [exact I|].
  destruct Hl as [Hc Hl]. destruct (is_own c h) eqn:Eown.
  - destruct Hl as [Hok Hl]. destruct h as [r| | | | | | |]; try discriminate.
    cbn [is_own] in Eown. apply andb_true_iff in Eown. destruct Eown as [E1 E2].
    apply N.eqb_eq in E1. destruct (rq_present r) eqn:Epj; [|discriminate]. destruct Hc as [Hpl Hcr].
    destruct (owns_own j c k tl w r Ho E1 Epj Hpl Hcr Hok) as (Hres & k' & _ & Ho' & _).
    split; [intros _; exact Hres|]. eapply IH; eassumption.
  - destruct Hl as [Hresp Hl]. split; [discriminate|].
    eapply (IH k tl); [|exact Hl]. apply owns_foreign; try assumption.
    apply Hresp. apply Ho.
Qed.
