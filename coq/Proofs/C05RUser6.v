(* C05: Expired() of a replaced-ID record measured from the instant T of the
   replacement, with the codec's slack explicit: the record's lastAccess is T, or
   (behind the JSON codec, which keeps instants to the second) T floored to the
   second. Arithmetic only; the tie of lastAccess to T is Proofs/C05RUser5.v. *)
From Sessions Require Import Model.Base Model.Sess Model.Hist Proofs.SessDefs Proofs.HistInv3
  Proofs.C05RUser Proofs.C05RUser4.
From Coq Require Import Lia ZArith.
Local Open Scope Z_scope.

Definition flo (t : Z) : Z := t - t mod second.

Lemma flo_bounds t : flo t <= t < flo t + second.
Proof. unfold flo. pose proof (Z.mod_pos_bound t second ltac:(reflexivity)). lia. Qed.

Lemma since_mono a a' t : a' <= a -> since a t <= since a' t.
Proof.
  intro H. unfold since, clamp64.
  destruct (t - a <? min64) eqn:E1; destruct (t - a' <? min64) eqn:E2;
  destruct (max64 <? t - a) eqn:E3; destruct (max64 <? t - a') eqn:E4;
  try apply Z.ltb_lt in E1; try apply Z.ltb_ge in E1; try apply Z.ltb_lt in E2; try apply Z.ltb_ge in E2;
  try apply Z.ltb_lt in E3; try apply Z.ltb_ge in E3; try apply Z.ltb_lt in E4; try apply Z.ltb_ge in E4;
  unfold min64, max64 in *; lia.
Qed.

Lemma since_slack a d t : 0 <= d -> since (a - d) t <= since a t + d.
Proof.
  intro H. unfold since, clamp64.
  destruct (t - a <? min64) eqn:E1; destruct (t - (a - d) <? min64) eqn:E2;
  destruct (max64 <? t - a) eqn:E3; destruct (max64 <? t - (a - d)) eqn:E4;
  try apply Z.ltb_lt in E1; try apply Z.ltb_ge in E1; try apply Z.ltb_lt in E2; try apply Z.ltb_ge in E2;
  try apply Z.ltb_lt in E3; try apply Z.ltb_ge in E3; try apply Z.ltb_lt in E4; try apply Z.ltb_ge in E4;
  unfold min64, max64 in *; lia.
Qed.

(* a record whose lastAccess is T or T floored: Expired() is true once the grace
   period measured from T is over, and not more than one second before that *)
Lemma expired_slack cf r t T :
  (expired cf r t = true <-> c_grace cf <= since (r_access r) t) ->
  r_access r = T \/ r_access r = flo T ->
  (c_grace cf <= since T t -> expired cf r t = true) /\
  (expired cf r t = true -> c_grace cf - second < since T t) /\
  (r_access r = T -> (expired cf r t = true <-> c_grace cf <= since T t)).
Proof.
  intros He Ha. split; [|split].
  - intro Hg. apply He. destruct Ha as [->| ->]; [exact Hg|].
    pose proof (since_mono T (flo T) t (proj1 (flo_bounds T))). lia.
  - intro Hx. apply He in Hx. destruct Ha as [Ea|Ea]; rewrite Ea in Hx; [unfold second; lia|].
    pose proof (flo_bounds T) as [B1 B2]. pose proof (since_slack T (T - flo T) t ltac:(lia)) as Hs.
    replace (T - (T - flo T)) with (flo T) in Hs by lia. unfold second in *. lia.
  - intro E. rewrite E in He. exact He.
Qed.
