(* C19F/C19G: non-vacuity. The translated functions evaluated on concrete
   inputs (by computation), next to the model. *)
From Sessions Require Import Model.Base Model.Ids Gen.Consts Gen.IdsFn
  Proofs.IdsLaws2 Proofs.IdsLaws3 Proofs.IdsFnEquiv Proofs.IdsFnModel.
Local Open Scope N_scope.

Definition fx_mac : bytes := [0; 27; 99; 132; 69; 230].

(* 2023-11-14 22:13:20.0005 UTC, a fresh generator: millisecond 216771200000, counter 0 *)
Example gen_body_ex :
  gen_cuid_body 1700000000 500000 0 0 fx_mac =
  (216771200000, 0, [52; 75; 101; 102; 49; 51; 102; 109; 54; 65; 67]) /\
  cuid_step fx_mac {| cs_last_time := 0; cs_last_counter := 0 |} 1700000000 500000 =
  ({| cs_last_time := 216771200000; cs_last_counter := 0 |}, [52; 75; 101; 102; 49; 51; 102; 109; 54; 65; 67]).
Proof. vm_compute. split; reflexivity. Qed.

(* the same millisecond again with counter 300: counter 301, spill 1 into the hash *)
Example gen_body_spill_ex :
  gen_cuid_body 1700000000 500000 216771200000 300 fx_mac =
  (let r := cuid_step fx_mac {| cs_last_time := 216771200000; cs_last_counter := 300 |} 1700000000 500000 in
   (cs_last_time (fst r), cs_last_counter (fst r), snd r)) /\
  snd (fst (gen_cuid_body 1700000000 500000 216771200000 300 fx_mac)) = 301 /\
  gen_bits 216771200000 301 (gen_machash fx_mac) <> gen_bits 216771200000 45 (gen_machash fx_mac).
Proof. vm_compute. repeat split; try reflexivity. discriminate. Qed.

(* before 1970 and before 2017: the uint64 subtraction wraps, the mask cuts *)
Example gen_timestamp_wrap_ex :
  gen_timestamp (-5) 999000000 = cuid_timestamp (-5) 999000000 /\
  gen_timestamp (-5) 999000000 = 1099511627776 - ((1483228800000 + 5000 - 999) mod 1099511627776).
Proof. vm_compute. split; reflexivity. Qed.

(* the counter wraps at 2^64 *)
Example gen_counter_wrap_ex :
  gen_counter_step 7 18446744073709551615 7 = (7, 0) /\ gen_counter_step 7 41 8 = (8, 0) /\
  gen_counter_step 7 41 7 = (7, 42).
Proof. vm_compute. repeat split; reflexivity. Qed.

Example gen_random_index_ex :
  gen_random_index 0 = 0%Z /\ gen_random_index 61 = 61%Z /\ gen_random_index 62 = 0%Z /\
  gen_random_index 255 = 7%Z /\ rid_symbol 255 = 55.
Proof. vm_compute. repeat split; reflexivity. Qed.

(* C19_cuid_unique for the translation: three calls, two in one millisecond *)
Example gen_run_unique_ex :
  NoDup (gen_run fx_mac {| cs_last_time := 0; cs_last_counter := 0 |}
           [(1700000000%Z, 500000); (1700000000%Z, 600000); (1700000000%Z, 2500000)]).
Proof.
  vm_compute. repeat constructor; cbn; intro H; repeat (destruct H as [H|H]; try discriminate H); exact H.
Qed.
