(* C09, part 4: the handler operations (Set, Delete, GetAndDelete, LogIn, LogOut,
   RegenerateID, Destroy), the user-wide operations, clean-ups, scripts. *)
From Sessions Require Import Model.Base Model.Sess Model.Hist Proofs.SessDefs
  Proofs.WriteThrough Proofs.WriteThrough2 Proofs.WriteThrough3.
From Coq Require Import Lia.

Lemma evo_Unsh_cache s s' h :
  evo s s' -> (forall k x, lookup (cache s') k = Some x -> lookup (cache s) k = Some x) ->
  Unsh s h -> Unsh s' h.
Proof.
  intros (_ & _ & He) Hsub (ob & Hg & Hu). destruct (He h ob Hg) as (ob' & Hg' & Hid).
  exists ob'. split; [exact Hg'|]. rewrite Hid. intros x Hx. apply Hsub in Hx. auto.
Qed.

(* ---------------------------------------------------------- direct saves *)

Lemma save_direct_spec E s o ob :
  Inv E s -> hget s o = Some ob -> (forall x, lookup (cache s) (o_id ob) = Some x -> x = o) ->
  exists s', save_direct s o = (s', Ok tt) /\ Inv (exdel E (o_id ob)) s' /\ Held s' o /\ evo s s' /\
             cache s' = cache s /\ heap s' = heap s.
Proof.
  intros HI Hg Hu. unfold save_direct. rewrite Hg. rewrite p_save_ff by apply (inv_plan _ _ HI).
  eexists. split; [reflexivity|].
  set (s1 := set_store s (upsert (store s) (o_id ob) (codec (conf s) (o_rec ob)))).
  assert (Hcore : core s1 = core (log s1 (EvSave (o_id ob) (codec (conf s) (o_rec ob)) true))) by reflexivity.
  split; [|split; [|split; [|split]]].
  - apply (Inv_core _ s1 _ Hcore). apply (save_Inv E s o ob); assumption.
  - apply (Held_core s1 _ o Hcore). apply (save_Held s o ob); assumption.
  - apply evo_heap; reflexivity.
  - reflexivity.
  - reflexivity.
Qed.

(* change the handler's object, then save it directly *)
Lemma modify_save s o ob f :
  Inv noex s -> hget s o = Some ob -> (forall x, lookup (cache s) (o_id ob) = Some x -> x = o) ->
  exists s', save_direct (hupd s o f) o = (s', Ok tt) /\ Inv noex s' /\ Held s' o /\ evo s s' /\
             cache s' = cache s /\ hget s' o = Some (mkObj (o_id ob) (f (o_rec ob))).
Proof.
  intros HI Hg Hu.
  pose proof (hupd_Inv noex s o ob f HI Hg) as HI1.
  pose proof (hget_hupd_same s o ob f Hg) as Hg1.
  set (ob1 := mkObj (o_id ob) (f (o_rec ob))) in *.
  assert (Hc1 : cache (hupd s o f) = cache s) by (unfold hupd; rewrite Hg; reflexivity).
  destruct (save_direct_spec _ (hupd s o f) o ob1 HI1 Hg1) as (s' & Hs & HI' & HH & He & Hc & Hh).
  { rewrite Hc1. exact Hu. }
  exists s'. split; [exact Hs|]. split; [|split; [exact HH|split; [|split]]].
  - eapply Inv_weaken; [|exact HI']. cbn [o_id]. intros k [[[]|H1] H2]. contradiction.
  - eapply evo_trans; [apply evo_hupd | exact He].
  - congruence.
  - rewrite (hget_heap s' (hupd s o f) o Hh). exact Hg1.
Qed.

(* ------------------------------------------------- user-wide operations *)

Lemma each_user_session_spec ids : forall s u,
  Inv noex s -> exists s', each_user_session s ids u = (s', Ok tt) /\ Inv noex s' /\ evo s s'.
Proof.
  induction ids as [|k t IH]; intros s u HI; cbn [each_user_session].
  - exists s. split; [reflexivity|]. split; [exact HI | apply evo_refl].
  - destruct (cache_get s k) as [s1 r1] eqn:Hcg.
    destruct (cache_get_spec s k s1 r1 HI Hcg) as (HI1 & He1 & ro & -> & Hro).
    destruct ro as [o|].
    + destruct (Hro o eq_refl) as (_ & ob & Hg1 & Hid).
      pose proof (hupd_Inv noex s1 o ob (fun r => set_user r u) HI1 Hg1) as HI2.
      pose proof (hget_hupd_same s1 o ob (fun r => set_user r u) Hg1) as Hg2.
      destruct (cache_set_spec _ _ o _ HI2 Hg2) as (s3 & Hs3 & HI3 & _).
      pose proof (cache_set_evo _ _ o _ HI2 Hg2) as He3. rewrite Hs3 in He3. cbn [fst] in He3.
      rewrite Hs3.
      assert (HI3' : Inv noex s3).
      { eapply Inv_weaken; [|exact HI3]. cbn [o_id]. intros k' [[[]|H1] H2]. contradiction. }
      destruct (IH s3 u HI3') as (s' & Hs & HI' & He').
      exists s'. split; [exact Hs|]. split; [exact HI'|].
      eapply evo_trans; [exact He1|]. eapply evo_trans; [apply evo_hupd|]. eapply evo_trans; eauto.
    + destruct (IH s1 u HI1) as (s' & Hs & HI' & He').
      exists s'. split; [exact Hs|]. split; [exact HI'|]. eapply evo_trans; eauto.
Qed.

Lemma logout_user_spec s u : Inv noex s ->
  exists s', logout_user s u = (s', Ok tt) /\ Inv noex s' /\ evo s s'.
Proof.
  intro HI. unfold logout_user. destruct (p_usersessions_ff s u (inv_plan _ _ HI)) as (e & ids & H).
  rewrite H. assert (HI1 : Inv noex (set_evs s e)) by (eapply Inv_core; [|exact HI]; reflexivity).
  destruct (each_user_session_spec ids _ None HI1) as (s' & Hs & HI' & He).
  exists s'. split; [exact Hs|]. split; [exact HI'|]. eapply evo_trans; [|exact He]. apply evo_core. reflexivity.
Qed.

Lemma refresh_user_spec s u : Inv noex s ->
  exists s', refresh_user s u = (s', Ok tt) /\ Inv noex s' /\ evo s s'.
Proof.
  intro HI. unfold refresh_user. destruct (p_usersessions_ff s (fst u) (inv_plan _ _ HI)) as (e & ids & H).
  rewrite H. assert (HI1 : Inv noex (set_evs s e)) by (eapply Inv_core; [|exact HI]; reflexivity).
  destruct (each_user_session_spec ids _ (Some u) HI1) as (s' & Hs & HI' & He).
  exists s'. split; [exact Hs|]. split; [exact HI'|]. eapply evo_trans; [|exact He]. apply evo_core. reflexivity.
Qed.

(* ------------------------------------------------------- LogOut, LogIn *)

Lemma logout_spec s o : Inv noex s -> Unsh s o ->
  exists s', logout s o = (s', Ok tt) /\ Inv noex s' /\ evo s s' /\ Unsh s' o /\
             (Held s o -> Held s' o).
Proof.
  intros HI (ob & Hg & Hu). unfold logout. rewrite Hg. destruct (r_user (o_rec ob)).
  - destruct (modify_save s o ob (fun r => set_user r None) HI Hg Hu) as (s' & Hs & HI' & HH & He & Hc & _).
    exists s'. split; [exact Hs|]. split; [exact HI'|]. split; [exact He|].
    split; [apply Held_Unsh; exact HH | intros _; exact HH].
  - exists s. split; [reflexivity|]. split; [exact HI|]. split; [apply evo_refl|].
    split; [exists ob; auto | auto].
Qed.

Lemma login_spec s o u ex : Inv noex s -> Unsh s o ->
  exists s' cks, login s o u ex = (s', Ok tt, cks) /\ Inv noex s' /\ Held s' o /\ conf s' = conf s /\
    exists ob', hget s' o = Some ob' /\ r_user (o_rec ob') = Some u.
Proof.
  intros HI HU. unfold login.
  assert (H1 : exists s1, (if ex then logout_user s (fst u)
                           else let '(s0, _) := logout s o in (s0, Ok tt)) = (s1, Ok tt) /\
                          Inv noex s1 /\ evo s s1).
  { destruct ex.
    - apply logout_user_spec. exact HI.
    - destruct (logout_spec s o HI HU) as (s1 & Hs & HI1 & He & _). rewrite Hs. eauto. }
  destruct H1 as (s1 & Hs1 & HI1 & (Hc1 & Hu1 & He1)). rewrite Hs1.
  destruct HU as (ob & Hg & _). destruct (He1 o ob Hg) as (ob1 & Hg1 & Hid1).
  pose proof (hupd_Inv noex s1 o ob1 (fun r => set_user r (Some u)) HI1 Hg1) as HI2.
  pose proof (hget_hupd_same s1 o ob1 (fun r => set_user r (Some u)) Hg1) as Hg2.
  destruct (cache_set_spec _ _ o _ HI2 Hg2) as (s3 & Hs3 & HI3 & _ & Hg3 & _ & Hc3 & _).
  rewrite Hs3. cbn [negb].
  assert (HI3' : Inv noex s3).
  { eapply Inv_weaken; [|exact HI3]. cbn [o_id]. intros k' [[[]|H1] H2]. contradiction. }
  destruct (regenerate_spec s3 o _ HI3' Hg3) as (s4 & Hs4 & HI4 & HH4 & (ob4 & Hg4 & _ & _ & Hus & _) & Hc4 & _).
  rewrite Hs4. eexists. eexists. split; [reflexivity|]. split; [exact HI4|]. split; [exact HH4|].
  split.
  - rewrite Hc4, Hc3. unfold hupd. rewrite Hg1. cbn. exact Hc1.
  - exists ob4. split; [exact Hg4|]. rewrite Hus. reflexivity.
Qed.

(* --------------------------------------------------- handler operations *)

Definition changing (op : sop) : bool :=
  match op with SSet _ _ | SDel _ | SLogIn _ _ | SLogOut | SRegen => true | _ => false end.

(* An acknowledged change: a changing call that returned without error, or a
   GetAndDelete that returned a value (it has no error result). *)
Definition acked (op : sop) (r : sres) : bool :=
  match op, r with
  | SGetDel _, SVal (Some _) => true
  | _, SOk => changing op
  | _, _ => false
  end.

Lemma do_sop_spec s o hc op s' r cks :
  Inv noex s -> Unsh s o -> do_sop s o hc op = (s', r, cks) ->
  Inv noex s' /\ conf s' = conf s /\ Unsh s' o /\
  (Held s o -> acked op r = true -> Held s' o).
Proof.
  intros HI HU. destruct HU as (ob & Hg & Hu).
  assert (HU : Unsh s o) by (exists ob; auto).
  destruct op as [k v|k|k|k|u ex| | |]; cbn [do_sop].
  - (* Set *)
    unfold data_of. rewrite Hg. destruct (r_data (o_rec ob)) as [d|].
    + destruct (modify_save s o ob (fun r0 => set_data r0 (Some (kv_set d k v))) HI Hg Hu)
        as (s1 & Hs & HI1 & HH & (Hc & _) & _).
      rewrite Hs. intros [= <- <- <-]. split; [exact HI1|]. split; [exact Hc|].
      split; [apply Held_Unsh; exact HH | intros; exact HH].
    + intros [= <- <- <-]. split; [exact HI|]. split; [reflexivity|]. split; [exact HU|]. discriminate.
  - (* Delete *)
    unfold data_of. rewrite Hg. destruct (r_data (o_rec ob)) as [d|].
    + destruct (modify_save s o ob (fun r0 => set_data r0 (Some (kv_del d k))) HI Hg Hu)
        as (s1 & Hs & HI1 & HH & (Hc & _) & _).
      rewrite Hs. intros [= <- <- <-]. split; [exact HI1|]. split; [exact Hc|].
      split; [apply Held_Unsh; exact HH | intros; exact HH].
    + destruct (save_direct_spec noex s o ob HI Hg Hu) as (s1 & Hs & HI1 & HH & (Hc & _) & _).
      rewrite Hs. intros [= <- <- <-].
      split; [eapply Inv_weaken; [|exact HI1]; intros k' [[] _]|]. split; [exact Hc|].
      split; [apply Held_Unsh; exact HH | intros; exact HH].
  - (* Get *)
    intros [= <- <- <-]. split; [exact HI|]. split; [reflexivity|]. split; [exact HU|]. discriminate.
  - (* GetAndDelete: a found key is deleted and the object saved directly *)
    unfold data_of. rewrite Hg. destruct (r_data (o_rec ob)) as [d|].
    + destruct (kv_get d k) as [v|].
      * destruct (modify_save s o ob (fun r0 => set_data r0 (Some (kv_del d k))) HI Hg Hu)
          as (s1 & Hs & HI1 & HH & (Hc & _) & _).
        rewrite Hs. intros [= <- <- <-]. split; [exact HI1|]. split; [exact Hc|].
        split; [apply Held_Unsh; exact HH | intros; exact HH].
      * intros [= <- <- <-]. split; [exact HI|]. split; [reflexivity|]. split; [exact HU|]. discriminate.
    + intros [= <- <- <-]. split; [exact HI|]. split; [reflexivity|]. split; [exact HU|]. discriminate.
  - (* LogIn *)
    destruct (login_spec s o u ex HI HU) as (s1 & cks1 & Hs & HI1 & HH & Hc & _).
    rewrite Hs. intros [= <- <- <-]. split; [exact HI1|]. split; [exact Hc|].
    split; [apply Held_Unsh; exact HH | intros; exact HH].
  - (* LogOut *)
    destruct (logout_spec s o HI HU) as (s1 & Hs & HI1 & (Hc & _) & HU1 & HH).
    rewrite Hs. intros [= <- <- <-]. split; [exact HI1|]. split; [exact Hc|].
    split; [exact HU1 | intros; auto].
  - (* RegenerateID *)
    destruct (regenerate_spec s o ob HI Hg) as (s1 & Hs & HI1 & HH & _ & Hc & _).
    rewrite Hs. intros [= <- <- <-]. split; [exact HI1|]. split; [exact Hc|].
    split; [apply Held_Unsh; exact HH | intros; exact HH].
  - (* Destroy *)
    destruct (destroy s o hc) as [[s1 r1] c1] eqn:Hd.
    destruct (destroy_spec s o hc s1 r1 c1 HI Hd) as (HI1 & (Hc & _) & HU1 & _).
    intros [= <- <- <-]. split; [exact HI1|]. split; [exact Hc|]. split; [apply HU1; exact HU | intros _ H; destruct r1; discriminate H].
Qed.

(* -------------------------------------------------------------- clean-ups *)

Lemma fire_spec l : forall s s' rest, Inv noex s -> fire s l = (s', rest) ->
  Inv noex s' /\ evo s s' /\ (forall h, Unsh s h -> Unsh s' h).
Proof.
  induction l as [|[due k] t IH]; intros s s' rest HI; cbn [fire].
  - intros [= <- <-]. split; [exact HI|]. split; [apply evo_refl | auto].
  - destruct (due <=? now s)%Z.
    + destruct (cache_delete_spec noex s k HI) as (_ & D2 & D3 & D4 & _).
      destruct (cache_delete s k) as [s1 ok]. cbn [fst] in *. intro Hf.
      destruct (IH s1 s' rest D2 Hf) as (A & B & C).
      split; [exact A|]. split; [eapply evo_trans; eauto | auto].
    + destruct (fire s t) as [s1 rest1] eqn:Hf. intros [= <- <-]. apply (IH s s1 rest1 HI Hf).
Qed.

Lemma fire_due_spec s : Inv noex s ->
  Inv noex (fire_due s) /\ evo s (fire_due s) /\ (forall h, Unsh s h -> Unsh (fire_due s) h).
Proof.
  intro HI. unfold fire_due.
  assert (HI0 : Inv noex (set_pending s [])) by (eapply Inv_core; [|exact HI]; reflexivity).
  destruct (fire (set_pending s []) (pending s)) as [s1 rest] eqn:Hf.
  destruct (fire_spec _ _ _ _ HI0 Hf) as (A & B & C).
  split; [eapply Inv_core; [|exact A]; reflexivity|]. split.
  - eapply evo_trans; [apply evo_core|]. 2:{ eapply evo_trans; [exact B|]. apply evo_core. reflexivity. }
    reflexivity.
  - intros h HU. eapply Unsh_core; [|apply C; eapply Unsh_core; [|exact HU]]; reflexivity.
Qed.

(* ---------------------------------------------------------------- scripts *)

Lemma run_script_spec ops : forall s o hc s' rs cks,
  Inv noex s -> Unsh s o -> run_script s o hc ops = (s', rs, cks) ->
  Inv noex s' /\ conf s' = conf s.
Proof.
  induction ops as [|op t IH]; intros s o hc s' rs cks HI HU; cbn [run_script].
  - intros [= <- <- <-]. auto.
  - destruct (do_sop s o hc op) as [[s1 r1] c1] eqn:Hd.
    destruct (do_sop_spec s o hc op s1 r1 c1 HI HU Hd) as (HI1 & Hc1 & HU1 & _).
    destruct (fire_due_spec s1 HI1) as (HI2 & (Hc2 & _) & HU2).
    match goal with |- (if ?b then _ else _) = _ -> _ => destruct b end.
    + intros [= <- <- <-]. split; [exact HI2 | congruence].
    + destruct (run_script (fire_due s1) o hc t) as [[s3 rs3] c3] eqn:Hr.
      intros [= <- <- <-].
      destruct (IH _ o hc s3 rs3 c3 HI2 (HU2 o HU1) Hr) as (A & B). split; [exact A | congruence].
Qed.
