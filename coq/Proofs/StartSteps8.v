(* B2 (C05): the states the theorems of Proofs/StartSteps4.v .. 7.v speak about
   occur in every history. In Model/Hist.v a wait is "move the clock, then run
   the clean-ups that are due"; mid_wait w d is the state between the two - the
   clock has reached the due instant and the clean-up goroutine has not run
   yet - which is when a request can overlap with it. *)
From Sessions Require Import Model.Base Model.Sess Model.Hist Proofs.SessDefs
  Proofs.HistInv Proofs.HistInv2 Proofs.HistInv3 Proofs.HistLift Proofs.HistLift2 Proofs.HistLift3
  Proofs.HistLift4 Proofs.HistLift9.
From Sessions Require Proofs.RotateLaws4.

Definition mid_wait (w : world) (d : Z) : st :=
  set_now (set_evs (w_st w) []) (now (w_st w) + d)%Z.

Lemma step_wait_mid w d : w_st (fst (step w (HWait d))) = fire_due (mid_wait w d).
Proof. reflexivity. Qed.

Lemma mid_wait_inv w d : LI (w_st w) ->
  plan (mid_wait w d) = [] /\ cache_ok (mid_wait w d) /\ nodup_ok (mid_wait w d) /\
  fresh_ok (mid_wait w d) /\ RotateLaws4.ref_wf (mid_wait w d).
Proof.
  intro Hl. destruct (LI_sess_inv _ Hl) as (Hp & Hc & Hn & Hf). pose proof (LI_ref_wf _ Hl) as Hw.
  split; [exact Hp|]. split; [exact Hc|]. split; [exact Hn|]. split; [exact Hf | exact Hw].
Qed.

Lemma states_occur w d : LI (w_st w) ->
  w_st (fst (step w (HWait d))) = fire_due (mid_wait w d) /\
  plan (mid_wait w d) = [] /\ cache_ok (mid_wait w d) /\ nodup_ok (mid_wait w d) /\
  fresh_ok (mid_wait w d) /\ RotateLaws4.ref_wf (mid_wait w d).
Proof. intro H. split; [apply step_wait_mid | apply mid_wait_inv; exact H]. Qed.
