(* Safe-save discipline for the user-wide operations and LogIn (arbitrary fault
   plans): logout, the loop of LogOut(userID)/RefreshUser, and the phases of
   login before its regenerate. *)
From Sessions Require Import Model.Base Model.Sess Model.Hist Proofs.SessDefs Proofs.CrashFault
  Proofs.CrashFault2 Proofs.CrashFault3.
From Coq Require Import Lia.

(* In-based form of cache_ok's second half *)
Definition cok (s : st) : Prop :=
  forall k o ob, In (k, o) (cache s) -> hget s o = Some ob -> o_id ob = k.

Lemma J_mono (K K' : key -> rec -> Prop) s : (forall k r, K k r -> K' k r) -> J K s -> J K' s.
Proof.
  intros H (A & B & C). split; [exact A|]. split.
  - intros k o ob Hi Ho. apply H. eapply B; eassumption.
  - intros k r Hl. apply H. apply C. exact Hl.
Qed.

Lemma QK_mono (K K' : key -> rec -> Prop) e : (forall k r, K k r -> K' k r) -> QK K e -> QK K' e.
Proof. intros H (A & B & C). repeat split; auto. intros k r b E. apply H. eapply C. exact E. Qed.

Lemma QK_no_draws K l : Forall (QK K) l -> count_draws l = 0%N.
Proof. intro H. apply count_draws_none. eapply Forall_impl; [|exact H]. intros e He. apply He. Qed.

Lemma QK_no_deletes K l : Forall (QK K) l -> Forall (fun e => is_delete e = false) l.
Proof. intro H. eapply Forall_impl; [|exact H]. intros e He. apply He. Qed.

Section SafeUser.
  Variable K : key -> rec -> Prop.
  Hypothesis K_codec : forall cf k r, K k r -> K k (codec cf r).
  Hypothesis K_access : forall k r t, K k r -> K k (set_access r t).
  Hypothesis K_user : forall k r u, K k r -> K k (set_user r u).

  Definition tracked (s : st) (o : nat) (i : key) : Prop :=
    exists ob, hget s o = Some ob /\ o_id ob = i /\ K i (o_rec ob).

  Lemma tracked_ext s s' o i : heap_ext s s' -> tracked s o i -> tracked s' o i.
  Proof. intros HE (ob & A & B & C). exists ob. split; [eapply heap_ext_hget; eassumption | auto]. Qed.

  Lemma tracked_hput s o i o' ob' v :
    tracked s o i -> hget s o' = Some ob' -> o_id v = o_id ob' ->
    (forall k, K k (o_rec ob') -> K k (o_rec v)) -> tracked (hput s o' v) o i.
  Proof.
    intros (ob & A & B & C) Ho' Hid HK. destruct (Nat.eq_dec o' o) as [->|Hne].
    - exists v. rewrite hget_hput_same by (eapply hget_Some_lt; exact A).
      assert (ob' = ob) by congruence. subst ob'. split; [reflexivity|]. split; [congruence|]. apply HK. rewrite <- B. rewrite <- B in C. exact C.
    - exists ob. rewrite hget_hput_other by exact Hne. auto.
  Qed.

  Lemma tracked_eq s s' o i : heap s' = heap s -> tracked s o i -> tracked s' o i.
  Proof. intros Hh (ob & A & B & C). exists ob. rewrite (hget_eq _ _ _ Hh). auto. Qed.

  Lemma cok_hput s o ob v : cok s -> hget s o = Some ob -> o_id v = o_id ob -> cok (hput s o v).
  Proof.
    intros Hc Ho Hid k o' ob' Hi Ho'. simpl in Hi. destruct (Nat.eq_dec o o') as [<-|Hne].
    - rewrite hget_hput_same in Ho' by (eapply hget_Some_lt; exact Ho). injection Ho' as <-.
      rewrite Hid. eapply Hc; eassumption.
    - rewrite hget_hput_other in Ho' by exact Hne. eapply Hc; eassumption.
  Qed.

  (* ------------------------------------------------------------ cache_get *)
  Lemma cache_get_cok s k s' r :
    J K s -> cok s -> cache_get s k = (s', r) ->
    cok s' /\ match r with
              | Some (Some o) => exists ob, hget s' o = Some ob /\ o_id ob = k /\ K k (o_rec ob)
              | _ => True
              end.
  Proof.
    intros HJ Hc HG. destruct (cache_get_safe K K_codec _ _ _ _ HJ HG)
      as (l & X & HQ & HJ' & Hp & HE & Hi & Hn & Hr).
    assert (Hr' : match r with
              | Some (Some o) => exists ob, hget s' o = Some ob /\ o_id ob = k /\ K k (o_rec ob)
              | _ => True
              end).
    { destruct r as [[o|]|]; auto. destruct Hr as (ob & A & B & [C|[C _]]).
      - exists ob. split; [exact A|]. split; [|exact B]. apply lookup_In in C.
        destruct HJ as (Hcv & _). pose proof (Hcv _ _ C) as Hlt.
        destruct (hget s o) as [ob0|] eqn:E.
        + pose proof (heap_ext_hget _ _ _ _ HE E) as E'. assert (ob0 = ob) by congruence. subst.
          eapply Hc; eassumption.
        + unfold hget in E. apply nth_error_None in E. lia.
      - exists ob. auto. }
    split; [|exact Hr'].
    intros k' o' ob' Hin Ho'. destruct (Hi _ _ Hin) as [Hin'|(-> & Hlen & -> & _)].
    - destruct HJ as (Hcv & _). pose proof (Hcv _ _ Hin') as Hlt.
      destruct (hget s o') as [ob0|] eqn:E.
      + pose proof (heap_ext_hget _ _ _ _ HE E) as E'. assert (ob0 = ob') by congruence. subst.
        eapply Hc; eassumption.
      + unfold hget in E. apply nth_error_None in E. lia.
    - destruct Hr' as (ob & A & B & _). congruence.
  Qed.

  (* ------------------------------------------------------------ cache_set *)
  Lemma cache_set_user s o ob s' b :
    J K s -> cok s -> hget s o = Some ob -> K (o_id ob) (o_rec ob) -> cache_set s o = (s', b) ->
    exists l, ext s s' l /\ Forall (QK K) l /\ J K s' /\ cok s' /\ pending s' = pending s /\
      (forall o1 i, tracked s o1 i -> tracked s' o1 i) /\
      (NoDup (map fst (cache s)) -> NoDup (map fst (cache s'))) /\
      (c_maxcache (conf s) = 0%Z -> forall e, In e (cache s') -> In e (cache s)) /\
      (plan s = [] -> b = true) /\
      (b = true -> lookup (store s') (o_id ob) = Some (codec (conf s) (o_rec (touch s ob)))) /\
      (c_maxcache (conf s) <> 0%Z -> lookup (cache s') (o_id ob) = Some o) /\
      hget s' o = Some (touch s ob) /\
      exists l', l = l' ++ [prim_save s ob b].
  Proof.
    intros HJ Hc Ho HK HS.
    destruct (cache_set_safe K K_codec K_access _ _ _ _ _ HJ Ho HS)
      as (l & X & HQ & Hp & Hcv & Hh & Hb & Hi & Hn & HJ' & _ & _ & Hmx & Hm0).
    destruct (HJ' HK) as [HJ'' HQp].
    pose proof (hget_Some_lt _ _ _ Ho) as Hlt.
    exists (l ++ [prim_save s ob b]). split; [exact X|]. split; [apply Forall_app; auto|].
    split; [exact HJ''|]. split.
    { intros k' o' ob' Hin Ho'. rewrite (hget_eq _ _ _ Hh) in Ho'.
      assert (Hc1 : cok (hput s o (touch s ob))) by (eapply cok_hput; [exact Hc | exact Ho | reflexivity]).
      destruct (Hi _ _ Hin) as [Hin'|[-> ->]].
      - eapply Hc1; [exact Hin' | exact Ho'].
      - rewrite hget_hput_same in Ho' by exact Hlt. injection Ho' as <-. reflexivity. }
    split; [exact Hp|]. split.
    { intros o1 i Ht. eapply tracked_eq; [exact Hh|]. eapply tracked_hput; [exact Ht | exact Ho | reflexivity|].
      intros k. apply K_access. }
    split; [exact Hn|]. split; [exact Hm0|]. split; [exact Hb|]. split; [|split; [exact Hmx|]].
    - intros ->. rewrite (store_of_ext _ _ _ X), replay_snoc. unfold prim_save. rewrite fst_apply_save.
      apply lookup_upsert_same.
    - split; [rewrite (hget_eq _ _ _ Hh); apply hget_hput_same; exact Hlt|].
      exists l. reflexivity.
  Qed.

  (* ---------------------------------------------- the loop over a user's IDs *)
  Lemma each_user_session_safe ids u : forall s s' r,
    J K s -> cok s -> each_user_session s ids u = (s', r) ->
    exists l, ext s s' l /\ Forall (QK K) l /\ J K s' /\ cok s' /\ pending s' = pending s /\
      (forall o1 i, tracked s o1 i -> tracked s' o1 i) /\
      (NoDup (map fst (cache s)) -> NoDup (map fst (cache s'))) /\
      (c_maxcache (conf s) = 0%Z -> forall e, In e (cache s') -> In e (cache s)) /\
      (forall e, r <> Panic e).
  Proof.
    induction ids as [|k t IH]; intros s s' r HJ Hc HE; simpl in HE.
    - injection HE as <- <-. exists []. split; [apply ext_refl|]. split; [constructor|].
      split; [exact HJ|]. split; [exact Hc|]. split; [reflexivity|]. split; [auto|]. split; [auto|].
      split; [auto | discriminate].
    - destruct (cache_get s k) as [s1 g] eqn:EG.
      destruct (cache_get_safe K K_codec _ _ _ _ HJ EG) as (l1 & X1 & HQ1 & HJ1 & Hp1 & HE1 & Hi1 & Hn1 & _).
      destruct (cache_get_cok _ _ _ _ HJ Hc EG) as [Hc1 Hg].
      assert (Hm1 : c_maxcache (conf s) = 0%Z -> forall e, In e (cache s1) -> In e (cache s)).
      { intros Hz [k' o'] He. destruct (Hi1 _ _ He) as [?|(_ & _ & _ & Hnz)]; [assumption | contradiction]. }
      destruct g as [[o|]|].
      + destruct Hg as (ob & Ho & Hid & HKo).
        set (ob' := mkObj (o_id ob) (set_user (o_rec ob) u)).
        rewrite (hupd_spec _ _ _ _ Ho) in HE. fold ob' in HE.
        set (s2 := hput s1 o ob') in *.
        assert (HJ2 : J K s2) by (eapply J_hput; [exact HJ1 | exact Ho | intros k0; apply K_user]).
        assert (Hc2 : cok s2) by (eapply cok_hput; [exact Hc1 | exact Ho | reflexivity]).
        assert (Ho2 : hget s2 o = Some ob') by (apply hget_hput_same; eapply hget_Some_lt; exact Ho).
        destruct (cache_set s2 o) as [s3 b] eqn:ES.
        assert (HKo' : K (o_id ob') (o_rec ob')) by (simpl; apply K_user; rewrite Hid; exact HKo).
        destruct (cache_set_user _ _ _ _ _ HJ2 Hc2 Ho2 HKo' ES)
          as (l3 & X3 & HQ3 & HJ3 & Hc3 & Hp3 & Ht3 & Hn3 & Hm3 & _).
        assert (Hp2 : pending s2 = pending s1) by reflexivity.
        assert (X13 : ext s s3 (l1 ++ l3)).
        { eapply ext_trans; [exact X1|]. eapply ext_nil_l; [apply ext_hput | exact X3]. }
        assert (Ht13 : forall o1 i, tracked s o1 i -> tracked s3 o1 i).
        { intros o1 i H. apply Ht3. eapply tracked_hput; [eapply tracked_ext; [exact HE1 | exact H] | exact Ho | reflexivity|].
          intro k0. apply K_user. }
        assert (Hm13 : c_maxcache (conf s) = 0%Z -> forall e, In e (cache s3) -> In e (cache s)).
        { intros Hz e He. apply Hm1; [exact Hz|]. apply Hm3 in He; [exact He|].
          change (conf s2) with (conf s1). rewrite (x_conf _ _ _ X1). exact Hz. }
        destruct b.
        * destruct (IH _ _ _ HJ3 Hc3 HE) as (l4 & X4 & HQ4 & HJ4 & Hc4 & Hp4 & Ht4 & Hn4 & Hm4 & Hnp).
          exists ((l1 ++ l3) ++ l4). split; [eapply ext_trans; eassumption|].
          split; [repeat (apply Forall_app; split); assumption|].
          split; [exact HJ4|]. split; [exact Hc4|]. split; [congruence|].
          split; [auto|]. split; [auto|]. split; [|exact Hnp].
          intros Hz e He. apply Hm13; [exact Hz|]. apply Hm4; [|exact He].
          rewrite (x_conf _ _ _ X13). exact Hz.
        * injection HE as <- <-. exists (l1 ++ l3). split; [exact X13|].
          split; [apply Forall_app; split; assumption|].
          split; [exact HJ3|]. split; [exact Hc3|]. split; [congruence|].
          split; [exact Ht13|]. split; [auto|]. split; [exact Hm13 | discriminate].
      + destruct (IH _ _ _ HJ1 Hc1 HE) as (l4 & X4 & HQ4 & HJ4 & Hc4 & Hp4 & Ht4 & Hn4 & Hm4 & Hnp).
        exists (l1 ++ l4). split; [eapply ext_trans; eassumption|].
        split; [apply Forall_app; split; assumption|].
        split; [exact HJ4|]. split; [exact Hc4|]. split; [congruence|].
        split; [intros o1 i H; apply Ht4; eapply tracked_ext; eassumption|]. split; [auto|]. split; [|exact Hnp].
        intros Hz e He. apply Hm1; [exact Hz|]. apply Hm4; [|exact He]. rewrite (x_conf _ _ _ X1). exact Hz.
      + injection HE as <- <-. exists l1. split; [exact X1|]. split; [exact HQ1|].
        split; [exact HJ1|]. split; [exact Hc1|]. split; [exact Hp1|].
        split; [intros o1 i H; eapply tracked_ext; eassumption|]. split; [auto|]. split; [exact Hm1 | discriminate].
  Qed.

  (* ------------------------------------------------------ Session.LogOut() *)
  Lemma logout_safe s o i s' r :
    J K s -> cok s -> tracked s o i -> logout s o = (s', r) ->
    exists l, ext s s' l /\ Forall (QK K) l /\ J K s' /\ cok s' /\ pending s' = pending s /\
      (forall o1 i1, tracked s o1 i1 -> tracked s' o1 i1) /\ cache s' = cache s /\ (forall e, r <> Panic e).
  Proof.
    intros HJ Hc (ob & Ho & Hid & HKo) HL. unfold logout in HL. rewrite Ho in HL.
    destruct (r_user (o_rec ob)) as [u0|].
    - rewrite (hupd_spec _ _ _ _ Ho) in HL. set (ob' := mkObj (o_id ob) (set_user (o_rec ob) None)) in *.
      set (s1 := hput s o ob') in *.
      assert (Ho1 : hget s1 o = Some ob') by (apply hget_hput_same; eapply hget_Some_lt; exact Ho).
      unfold save_direct in HL. rewrite Ho1 in HL.
      destruct (p_save s1 (o_id ob') (o_rec ob')) as [s2 b] eqn:ES.
      apply p_save_spec in ES. destruct ES as ((Hh & Hca & Hp & _) & X & _ & Hst & _).
      assert (HJ1 : J K s1) by (eapply J_hput; [exact HJ | exact Ho | intros k0; apply K_user]).
      assert (HQ : QK K (EvSave (o_id ob') (codec (conf s1) (o_rec ob')) b)).
      { apply QK_save, K_codec. simpl. apply K_user. rewrite Hid. exact HKo. }
      injection HL as <- <-. exists [EvSave (o_id ob') (codec (conf s1) (o_rec ob')) b].
      split; [eapply ext_nil_l; [apply ext_hput | exact X]|]. split; [constructor; [exact HQ | constructor]|].
      split.
      { destruct HJ1 as (A & B & C). split; [|split].
        - intros k0 o0 H. rewrite Hca in H. rewrite Hh. eapply A. exact H.
        - intros k0 o0 ob0 H H0. rewrite Hca in H. rewrite (hget_eq _ _ _ Hh) in H0. eapply B; eassumption.
        - eapply storeK_ext; [exact X | exact C | constructor; [exact HQ | constructor]]. }
      split.
      { intros k0 o0 ob0 H H0. rewrite Hca in H. rewrite (hget_eq _ _ _ Hh) in H0.
        eapply (cok_hput s o ob ob'); try eassumption. reflexivity. }
      split; [exact Hp|]. split.
      { intros o1 i1 Ht. eapply tracked_eq; [exact Hh|]. eapply tracked_hput; [exact Ht | exact Ho | reflexivity|].
        intro k0. apply K_user. }
      split; [exact Hca|]. destruct b; discriminate.
    - injection HL as <- <-. exists []. split; [apply ext_refl|]. split; [constructor|].
      split; [exact HJ|]. split; [exact Hc|]. split; [reflexivity|]. split; [auto|]. split; [reflexivity | discriminate].
  Qed.

  (* ----------------------------------------------------- LogOut(userID) etc. *)
  Lemma logout_user_safe s u s' r :
    J K s -> cok s -> logout_user s u = (s', r) ->
    exists l, ext s s' l /\ Forall (QK K) l /\ J K s' /\ cok s' /\ pending s' = pending s /\
      (forall o1 i, tracked s o1 i -> tracked s' o1 i) /\
      (NoDup (map fst (cache s)) -> NoDup (map fst (cache s'))) /\
      (c_maxcache (conf s) = 0%Z -> forall e, In e (cache s') -> In e (cache s)) /\
      (forall e, r <> Panic e).
  Proof.
    intros HJ Hc HL. unfold logout_user in HL. destruct (p_usersessions s u) as [s1 lst] eqn:EU.
    apply p_usersessions_spec in EU. destruct EU as ((Hh & Hca & Hp & _) & Hst & _ & b & X & _).
    assert (HJ1 : J K s1) by (eapply J_same; eassumption).
    assert (Hc1 : cok s1).
    { intros k0 o0 ob0 H H0. rewrite Hca in H. rewrite (hget_eq _ _ _ Hh) in H0. eapply Hc; eassumption. }
    assert (HQ : Forall (QK K) [EvUserSessions u b]) by (constructor; [apply QK_read; reflexivity | constructor]).
    destruct lst as [ids|].
    - destruct (each_user_session_safe _ _ _ _ _ HJ1 Hc1 HL) as (l & X2 & HQ2 & HJ2 & Hc2 & Hp2 & Ht2 & Hn2 & Hm2 & Hnp).
      exists ([EvUserSessions u b] ++ l). split; [eapply ext_trans; eassumption|].
      split; [apply Forall_app; split; assumption|]. split; [exact HJ2|]. split; [exact Hc2|].
      split; [congruence|]. split.
      { intros o1 i H. apply Ht2. eapply tracked_eq; eassumption. }
      split; [rewrite <- Hca; exact Hn2|]. split; [|exact Hnp].
      intros Hz e He. rewrite <- Hca. apply Hm2; [|exact He]. rewrite (x_conf _ _ _ X). exact Hz.
    - injection HL as <- <-. exists [EvUserSessions u b]. split; [exact X|]. split; [exact HQ|].
      split; [exact HJ1|]. split; [exact Hc1|]. split; [exact Hp|]. split.
      { intros o1 i H. eapply tracked_eq; eassumption. }
      rewrite Hca. split; [auto|]. split; [auto | discriminate].
  Qed.

  (* --------------------------------------------------- login up to regenerate *)
  Definition login_result (r2 : result unit) : result unit :=
    match r2 with Ok _ => Ok tt | Err _ => Err ELoginRegen | Panic e => Panic e end.

  Lemma login_pre s o i u ex s' res cks :
    J K s -> cok s -> tracked s o i -> login s o u ex = (s', res, cks) ->
    exists l0, Forall (QK K) l0 /\
      ((ext s s' l0 /\ (exists e, res = Err e) /\ cks = []) \/
       (exists sC obC r2,
          ext s sC l0 /\ J K sC /\ cok sC /\ tracked sC o i /\
          (NoDup (map fst (cache s)) -> NoDup (map fst (cache sC))) /\
          hget sC o = Some obC /\ o_id obC = i /\ r_user (o_rec obC) = Some u /\
          lookup (store sC) i = Some (codec (conf s) (o_rec obC)) /\
          (c_maxcache (conf s) <> 0%Z -> lookup (cache sC) i = Some o) /\
          (c_maxcache (conf s) = 0%Z -> forall e, In e (cache sC) -> In e (cache s)) /\
          regenerate sC o = (s', r2, cks) /\ res = login_result r2 /\
          exists l0', l0 = l0' ++ [EvSave i (codec (conf s) (o_rec obC)) true])).
  Proof.
    intros HJ Hc Ht HL. unfold login in HL.
    (* phase A: the logout(s) *)
    assert (HA : exists sA r1 lA, (if ex then logout_user s (fst u)
                                  else let '(s0, _) := logout s o in (s0, Ok tt)) = (sA, r1) /\
             ext s sA lA /\ Forall (QK K) lA /\ J K sA /\ cok sA /\ tracked sA o i /\
             (NoDup (map fst (cache s)) -> NoDup (map fst (cache sA))) /\
             (c_maxcache (conf s) = 0%Z -> forall e, In e (cache sA) -> In e (cache s)) /\
             (forall e, r1 <> Panic e)).
    { destruct ex.
      - destruct (logout_user s (fst u)) as [sA r1] eqn:E.
        destruct (logout_user_safe _ _ _ _ HJ Hc E) as (l & X & HQ & HJ' & Hc' & _ & Ht' & Hn' & Hm' & Hnp).
        exists sA, r1, l. auto 12.
      - destruct (logout s o) as [sA r0] eqn:E.
        destruct (logout_safe _ _ _ _ _ HJ Hc Ht E) as (l & X & HQ & HJ' & Hc' & _ & Ht' & Hca & _).
        exists sA, (Ok tt), l. rewrite Hca. split; [reflexivity|]. split; [exact X|]. split; [exact HQ|].
        split; [exact HJ'|]. split; [exact Hc'|]. split; [auto|]. split; [auto|]. split; [auto | discriminate]. }
    destruct HA as (sA & r1 & lA & EA & XA & HQA & HJA & HcA & HtA & HnA & HmA & HnpA).
    rewrite EA in HL.
    destruct r1 as [[]|e|e]; [| |exfalso; eapply HnpA; reflexivity].
    2:{ injection HL as <- <- <-. exists lA. split; [exact HQA|]. left. split; [exact XA|]. split; [eexists; reflexivity | reflexivity]. }
    (* phase B: attach the user, write through *)
    destruct HtA as (obA & HoA & HidA & HKA).
    rewrite (hupd_spec _ _ _ _ HoA) in HL. set (obB := mkObj (o_id obA) (set_user (o_rec obA) (Some u))) in *.
    set (sB := hput sA o obB) in *.
    assert (HJB : J K sB) by (eapply J_hput; [exact HJA | exact HoA | intros k0; apply K_user]).
    assert (HcB : cok sB) by (eapply cok_hput; [exact HcA | exact HoA | reflexivity]).
    assert (HoB : hget sB o = Some obB) by (apply hget_hput_same; eapply hget_Some_lt; exact HoA).
    assert (HKB : K (o_id obB) (o_rec obB)) by (simpl; apply K_user; rewrite HidA; exact HKA).
    destruct (cache_set sB o) as [sC b] eqn:ES.
    destruct (cache_set_user _ _ _ _ _ HJB HcB HoB HKB ES)
      as (lB & XB & HQB & HJC & HcC & _ & HtC & HnC & HmC & _ & HstC & HmxC & HoC & lB' & HlB).
    assert (XC : ext s sC (lA ++ lB)).
    { eapply ext_trans; [exact XA|]. eapply ext_nil_l; [apply ext_hput | exact XB]. }
    assert (HcfB : conf sB = conf s) by (change (conf sB) with (conf sA); apply (x_conf _ _ _ XA)).
    exists (lA ++ lB). split; [apply Forall_app; split; assumption|].
    destruct b; simpl in HL.
    - right. destruct (regenerate sC o) as [[s2 r2] cks2] eqn:ER.
      exists sC, (touch sB obB), r2. split; [exact XC|]. split; [exact HJC|]. split; [exact HcC|].
      split.
      { exists (touch sB obB). split; [exact HoC|]. split; [exact HidA|]. simpl. apply K_access, K_user. exact HKA. }
      split; [auto|]. split; [exact HoC|]. split; [exact HidA|]. split; [reflexivity|].
      split; [rewrite <- HcfB, <- HidA; apply HstC; reflexivity|].
      split; [rewrite <- HcfB, <- HidA; exact HmxC|].
      split.
      { intros Hz e He. apply HmA; [exact Hz|]. apply HmC; [|exact He]. rewrite HcfB. exact Hz. }
      assert (Hl0 : exists l0', lA ++ lB = l0' ++ [EvSave i (codec (conf s) (o_rec (touch sB obB))) true]).
      { exists (lA ++ lB'). rewrite HlB, app_assoc. unfold prim_save. rewrite HcfB. simpl o_id. rewrite HidA. reflexivity. }
      destruct r2; injection HL as <- <- <-; (split; [exact ER | split; [reflexivity | exact Hl0]]).
    - injection HL as <- <- <-. left. split; [exact XC|]. split; [eexists; reflexivity | reflexivity].
  Qed.
End SafeUser.
